(* Broker/IntroDbProofs.v — the invariant of the introspection-database machine (Broker/IntroDb.v)
   and what follows from it: no panic site is reachable, a removed connection is referenced
   nowhere, the database is empty when no connection is left, queries are accounted for. *)
From stdpp Require Import gmap list.
From RecordUpdate Require Import RecordSet.
Import RecordSetNotations.
From Aldrin Require Import gen.BrokerConsts Broker.IntroDb.
From Coq Require Import Lia.
Local Open Scope N_scope.

(* ================================================================ entries *)
Record entry_wf (e : ientry) : Prop := {
  wf_nodup : NoDup (e_ids e);
  wf_idx : forall c i, e_idxs e !! c = Some i <-> e_ids e !! i = Some c;
  wf_nonempty : e_ids e <> [];
  wf_queried : forall q, e_queried e = Some q -> q_conn q ∈ e_ids e /\ e_intro e = None;
  wf_pending : e_pending e <> [] -> e_intro e = None }.

Lemma wf_idx_None e c : entry_wf e -> e_idxs e !! c = None <-> c ∉ e_ids e.
Proof.
  intros W. split.
  - intros Hn Hin. apply elem_of_list_lookup in Hin as [i Hi]. apply (wf_idx _ W) in Hi. congruence.
  - intros Hnin. destruct (e_idxs e !! c) as [i|] eqn:E; [|done].
    apply (wf_idx _ W) in E. exfalso. apply Hnin. by eapply elem_of_list_lookup_2.
Qed.

(* ---- register *)
Lemma entry_register_spec e c :
  entry_wf e \/ e = ientry0 ->
  let e' := entry_register e c in
  entry_wf e' /\ (forall x, x ∈ e_ids e' <-> x ∈ e_ids e \/ x = c) /\
  e_intro e' = e_intro e /\ e_queried e' = e_queried e /\ e_pending e' = e_pending e.
Proof.
  intros H. unfold entry_register. destruct (e_idxs e !! c) as [i|] eqn:E; cbn.
  - destruct H as [W| ->]; [|cbn in E; by rewrite lookup_empty in E].
    split; [done|]. split; [|done]. intros x. split; [tauto|]. intros [?| ->]; [done|].
    apply (wf_idx _ W) in E. by eapply elem_of_list_lookup_2.
  - assert (c ∉ e_ids e) as Hnin.
    { destruct H as [W| ->]; [by apply (wf_idx_None _ _ W)|cbn; apply not_elem_of_nil]. }
    assert (NoDup (e_ids e) /\ (forall c i, e_idxs e !! c = Some i <-> e_ids e !! i = Some c) /\
            (forall q, e_queried e = Some q -> q_conn q ∈ e_ids e /\ e_intro e = None) /\
            (e_pending e <> [] -> e_intro e = None)) as (Hnd & Hix & Hq & Hp).
    { destruct H as [W| ->]; [by destruct W|]. cbn. split; [constructor|]. split; [|done].
      intros c0 i. rewrite lookup_empty, lookup_nil. done. }
    split; [|split; [|done]].
    + split; cbn.
      * apply NoDup_app. split; [done|]. split; [|apply NoDup_singleton].
        intros x Hx ->%elem_of_list_singleton. done.
      * intros c0 i. destruct (decide (c0 = c)) as [->|Hne].
        -- rewrite lookup_insert. split.
           ++ intros [= <-]. rewrite lookup_app_r by lia. by rewrite Nat.sub_diag.
           ++ intros Hl. apply lookup_app_Some in Hl as [Hl|[Hge Hl]].
              ** exfalso. apply Hnin. by eapply elem_of_list_lookup_2.
              ** f_equal. apply lookup_lt_Some in Hl. cbn in Hl. lia.
        -- rewrite lookup_insert_ne by done. rewrite Hix. split.
           ++ intros Hl. by apply lookup_app_l_Some.
           ++ intros Hl. apply lookup_app_Some in Hl as [Hl|[Hge Hl]]; [done|].
              apply list_lookup_singleton_Some in Hl as [_ ?]. congruence.
      * intros Hnil. by destruct (e_ids e).
      * intros q Hq'. destruct (Hq _ Hq') as [? ?]. split; [|done]. apply elem_of_app. by left.
      * done.
    + cbn. intros x. rewrite elem_of_app, elem_of_list_singleton. done.
Qed.

(* ---- swap_remove *)
Lemma swap_remove_spec (l : list iconn) i x :
  last l = Some x -> (i < length l)%nat ->
  exists l', swap_remove l i = Some l' /\ length l' = (length l - 1)%nat /\
    forall j, l' !! j = if decide (j < length l - 1)%nat then (if decide (j = i) then Some x else l !! j) else None.
Proof.
  intros Hl Hi. unfold swap_remove. rewrite Hl. apply Nat.ltb_lt in Hi as Hi'. rewrite Hi'.
  eexists. split; [done|]. split.
  - rewrite take_length, insert_length. lia.
  - intros j. destruct (decide (j < length l - 1)%nat) as [Hj|Hj].
    + rewrite lookup_take by done. destruct (decide (j = i)) as [->|Hne].
      * by rewrite list_lookup_insert.
      * by rewrite list_lookup_insert_ne.
    + apply lookup_take_ge. lia.
Qed.

Lemma last_lookup_pred {A} (l : list A) x : last l = Some x -> l !! (length l - 1)%nat = Some x.
Proof. rewrite last_lookup. by replace (pred (length l)) with (length l - 1)%nat by lia. Qed.

(* ---- remove_conn *)
Definition drop_queried (e : ientry) (c : iconn) : option iquery :=
  match e_queried e with Some q => if bool_decide (q_conn q = c) then None else Some q | None => None end.
Definition drop_pending (e : ientry) (c : iconn) : list iquery :=
  List.filter (fun p => negb (bool_decide (q_conn p = c))) (e_pending e).

Lemma elem_of_drop_pending e c q : q ∈ drop_pending e c <-> q ∈ e_pending e /\ q_conn q <> c.
Proof.
  unfold drop_pending. rewrite elem_of_list_In, filter_In, <- elem_of_list_In, negb_true_iff, bool_decide_eq_false. done.
Qed.

Lemma idxs_dom_ids e : entry_wf e -> forall c, is_Some (e_idxs e !! c) <-> c ∈ e_ids e.
Proof.
  intros W c. split.
  - intros [i Hi]. apply (wf_idx _ W) in Hi. by eapply elem_of_list_lookup_2.
  - intros [i Hi]%elem_of_list_lookup. apply (wf_idx _ W) in Hi. eauto.
Qed.

Lemma entry_remove_conn_spec e c :
  entry_wf e ->
  exists e' b, entry_remove_conn e c = IDone (e', b) /\
    e_intro e' = e_intro e /\ e_queried e' = drop_queried e c /\ e_pending e' = drop_pending e c /\
    (b = false <-> forall x, x ∈ e_ids e -> x = c) /\
    (b = true -> entry_wf e' /\ forall x, x ∈ e_ids e' <-> x ∈ e_ids e /\ x <> c).
Proof.
  intros W. unfold entry_remove_conn, entry_remove_conn_g.
  set (e1 := match e_queried e with Some q => if bool_decide (q_conn q = c) then e <| e_queried := None |> else e | None => e end).
  assert (e_idxs e1 = e_idxs e /\ e_ids e1 = e_ids e /\ e_intro e1 = e_intro e /\ e_pending e1 = e_pending e /\
          e_queried e1 = drop_queried e c) as (H1 & H2 & H3 & H4 & H5).
  { unfold e1, drop_queried. destruct (e_queried e) as [q|] eqn:Eq; [|by rewrite Eq].
    destruct (bool_decide (q_conn q = c)); cbn; by rewrite ?Eq. }
  clearbody e1. cbn. rewrite H1.
  destruct (e_idxs e !! c) as [idx|] eqn:Eidx.
  - (* c is a provider *)
    apply (wf_idx _ W) in Eidx as Hidx.
    assert (idx < length (e_ids e))%nat as Hlt by (by eapply lookup_lt_Some).
    destruct (bool_decide_reflect (delete c (e_idxs e) = ∅)) as [Hem|Hnem].
    + (* it was the only one *)
      eexists _, false. split; [done|]. cbn. rewrite H3, H4, H5. do 3 (split; [done|]). split; [|done].
      split; [|done]. intros _ x Hx. destruct (decide (x = c)) as [|Hne]; [done|].
      apply (idxs_dom_ids _ W) in Hx as [i Hi].
      assert (delete c (e_idxs e) !! x = Some i) as Hd by (by rewrite lookup_delete_ne).
      rewrite Hem, lookup_empty in Hd. done.
    + (* another provider is left: at least two elements *)
      assert (exists y, y ∈ e_ids e /\ y <> c) as (y & Hy & Hyc).
      { apply map_choose in Hnem as (y & i & Hyi). apply lookup_delete_Some in Hyi as [Hne Hyi].
        exists y. split; [|done]. apply (idxs_dom_ids _ W). eauto. }
      assert (2 <= length (e_ids e))%nat as Hlen.
      { apply elem_of_list_lookup in Hy as [j Hj]. assert (j <> idx) by (intros ->; congruence).
        apply lookup_lt_Some in Hj. lia. }
      destruct (last (e_ids e)) as [x|] eqn:Elast; [|apply last_None in Elast; rewrite Elast in Hlen; cbn in Hlen; lia].
      rewrite H2.
      destruct (swap_remove_spec _ _ _ Elast Hlt) as (ids' & Hsr & Hlen' & Hlk). rewrite Hsr.
      pose proof (last_lookup_pred _ _ Elast) as Hxl.
      pose proof (wf_nodup _ W) as Hnd.
      assert (forall i j z, e_ids e !! i = Some z -> e_ids e !! j = Some z -> i = j) as Hinj
        by (intros; by eapply NoDup_lookup).
      (* membership of the new vector *)
      assert (forall z, z ∈ ids' <-> z ∈ e_ids e /\ z <> c) as Hmem.
      { intros z. rewrite !elem_of_list_lookup. split.
        - intros [j Hj]. rewrite Hlk in Hj. destruct (decide (j < length (e_ids e) - 1)%nat) as [Hjl|]; [|done].
          destruct (decide (j = idx)) as [->|Hne].
          + injection Hj as <-. split; [eauto|]. intros ->. assert (idx = length (e_ids e) - 1)%nat by eauto. lia.
          + split; [eauto|]. intros ->. apply Hne. eauto.
        - intros [[j Hj] Hzc]. destruct (decide (j = length (e_ids e) - 1)%nat) as [->|Hjl].
          + (* z is the last element: it moved to idx *)
            assert (z = x) as -> by congruence.
            assert (idx <> length (e_ids e) - 1)%nat as Hne by (intros ->; congruence).
            exists idx. rewrite Hlk. rewrite decide_True by lia. by rewrite decide_True.
          + exists j. rewrite Hlk. apply lookup_lt_Some in Hj as Hjlt. rewrite decide_True by lia.
            rewrite decide_False; [done|]. intros ->. congruence. }
      assert (NoDup ids') as Hnd'.
      { apply NoDup_alt. intros i j z Hi Hj. rewrite Hlk in Hi, Hj.
        destruct (decide (i < length (e_ids e) - 1)%nat) as [Hil|]; [|done].
        destruct (decide (j < length (e_ids e) - 1)%nat) as [Hjl|]; [|done].
        destruct (decide (i = idx)) as [->|Hi'], (decide (j = idx)) as [->|Hj']; [done| | |by eauto].
        - injection Hi as <-. assert (j = length (e_ids e) - 1)%nat by eauto. lia.
        - injection Hj as <-. assert (i = length (e_ids e) - 1)%nat by eauto. lia. }
      unfold guard_rust. rewrite Hlen'.
      destruct (Nat.eqb_spec idx (length (e_ids e) - 1)) as [Heq|Hneq]; cbn [negb].
      * (* the last element was removed: nothing moved *)
        eexists _, true. split; [done|]. cbn. rewrite H3, H4, H5. do 3 (split; [done|]). split.
        { split; [done|]. intros Hall. exfalso. apply Hyc. by apply Hall. }
        intros _. split; [|done]. split; cbn; [done| | | |rewrite ?H3, ?H4; intros Hf; apply (wf_pending _ W); intros Hn; by rewrite Hn in Hf].
        -- intros c0 i. rewrite lookup_delete_Some, (wf_idx _ W), Hlk. subst idx.
           destruct (decide (i < length (e_ids e) - 1)%nat) as [Hil|Hil].
           ++ rewrite decide_False by lia. split; [tauto|]. intros Hi. split; [|done]. intros ->.
              assert (i = length (e_ids e) - 1)%nat by eauto. lia.
           ++ split; [|done]. intros [Hne Hi]. apply lookup_lt_Some in Hi as Hil'.
              assert (i = length (e_ids e) - 1)%nat as -> by lia. congruence.
        -- intros ->. cbn in Hlen'. lia.
        -- rewrite H5, H3. intros q Hq. unfold drop_queried in Hq. destruct (e_queried e) as [q0|] eqn:Eq0; [|done].
           destruct (bool_decide_reflect (q_conn q0 = c)) as [|Hqc]; [done|]. injection Hq as <-.
           destruct (wf_queried _ W _ Eq0) as [Hin ?]. split; [|done]. apply Hmem. done.
      * (* an earlier element was removed: the last one moved into its slot *)
        assert (idx < length (e_ids e) - 1)%nat as Hidxl by lia.
        assert (ids' !! idx = Some x) as Hix by (rewrite Hlk, decide_True by done; by rewrite decide_True).
        rewrite Hix. cbn.
        assert (x <> c) as Hxc by (intros ->; assert (idx = length (e_ids e) - 1)%nat by eauto; lia).
        assert (is_Some (delete c (e_idxs e) !! x)) as [ix Hixx].
        { rewrite lookup_delete_ne by done. apply (idxs_dom_ids _ W). by eapply elem_of_list_lookup_2. }
        rewrite Hixx.
        eexists _, true. split; [done|]. cbn. rewrite H3, H4, H5. do 3 (split; [done|]). split.
        { split; [done|]. intros Hall. exfalso. apply Hyc. by apply Hall. }
        intros _. split; [|done]. split; cbn; [done| | | |rewrite ?H3, ?H4; intros Hf; apply (wf_pending _ W); intros Hn; by rewrite Hn in Hf].
        -- intros c0 i. destruct (decide (c0 = x)) as [->|Hc0].
           ++ rewrite lookup_insert. split.
              ** intros [= <-]. done.
              ** intros Hi. f_equal. eapply NoDup_lookup; eauto.
           ++ rewrite lookup_insert_ne by done. rewrite lookup_delete_Some, (wf_idx _ W), Hlk.
              destruct (decide (i < length (e_ids e) - 1)%nat) as [Hil|Hil].
              ** destruct (decide (i = idx)) as [->|Hi'].
                 --- split; [intros [Hne Hi]; congruence|intros [= ->]; done].
                 --- split; [tauto|]. intros Hi. split; [|done]. intros ->. apply Hi'. eauto.
              ** split; [|done]. intros [Hne Hi]. apply lookup_lt_Some in Hi as Hil'.
                 assert (i = length (e_ids e) - 1)%nat as -> by lia. congruence.
        -- intros ->. cbn in Hlen'. lia.
        -- rewrite H5, H3. intros q Hq. unfold drop_queried in Hq. destruct (e_queried e) as [q0|] eqn:Eq0; [|done].
           destruct (bool_decide_reflect (q_conn q0 = c)) as [|Hqc]; [done|]. injection Hq as <-.
           destruct (wf_queried _ W _ Eq0) as [Hin ?]. split; [|done]. apply Hmem. done.
  - (* c is not a provider of this type *)
    assert (c ∉ e_ids e) as Hnin by (by apply (wf_idx_None _ _ W)).
    destruct (bool_decide_reflect (e_idxs e = ∅)) as [Hem|Hnem].
    { exfalso. pose proof (wf_nonempty _ W) as Hne. destruct (e_ids e) as [|a l] eqn:El; [done|].
      assert (is_Some (e_idxs e !! a)) as [i Hi] by (apply (idxs_dom_ids _ W); rewrite El; left).
      rewrite Hem, lookup_empty in Hi. done. }
    rewrite H2. destruct (bool_decide_reflect (e_ids e = [])) as [Hem|_]; [by destruct (wf_nonempty _ W)|].
    eexists _, true. split; [done|]. cbn. rewrite H3, H4, H5. do 3 (split; [done|]). split.
    { split; [done|]. intros Hall. exfalso. pose proof (wf_nonempty _ W) as Hne.
      destruct (e_ids e) as [|a l] eqn:El; [done|]. apply Hnin. rewrite <- (Hall a); left. }
    intros _. split.
    + split; cbn; rewrite ?H1, ?H2, ?H3, ?H4, ?H5; [apply W|apply W|apply W| |intros Hf; apply (wf_pending _ W); intros Hn; by rewrite Hn in Hf].
      intros q Hq. unfold drop_queried in Hq. destruct (e_queried e) as [q0|] eqn:Eq0; [|done].
      destruct (bool_decide (q_conn q0 = c)); [done|]. injection Hq as <-. by apply (wf_queried _ W).
    + cbn. rewrite H2. intros x. split; [|tauto]. intros Hx. split; [done|]. intros ->. done.
Qed.

(* ---- query_random_conn *)
Lemma entry_query_random_conn_spec e serial r :
  entry_wf e -> e_queried e = None ->
  exists c, c ∈ e_ids e /\
    entry_query_random_conn e serial r = IDone (e <| e_queried := Some {| q_conn := c; q_serial := serial |} |>, c).
Proof.
  intros W Hq. unfold entry_query_random_conn. rewrite Hq.
  rewrite bool_decide_eq_false_2 by (intros [? ?]; done).
  pose proof (wf_nonempty _ W) as Hne.
  destruct (bool_decide_reflect (e_idxs e = ∅)) as [Hem|_].
  { exfalso. destruct (e_ids e) as [|a l] eqn:El; [done|].
    assert (is_Some (e_idxs e !! a)) as [i Hi] by (apply (idxs_dom_ids _ W); rewrite El; left).
    rewrite Hem, lookup_empty in Hi. done. }
  rewrite bool_decide_eq_false_2 by done.
  assert (N.to_nat (r mod N.of_nat (length (e_ids e))) < length (e_ids e))%nat as Hlt.
  { assert (0 < length (e_ids e))%nat by (destruct (e_ids e); [done|cbn; lia]).
    pose proof (N.mod_lt r (N.of_nat (length (e_ids e)))). lia. }
  apply lookup_lt_is_Some_2 in Hlt as [c Hc]. rewrite Hc.
  exists c. split; [by eapply elem_of_list_lookup_2|done].
Qed.

(* ================================================================ list helpers *)
Lemma omap_nil_all {A B} (f : A -> option B) (l : list A) :
  (forall x, x ∈ l -> f x = None) -> omap f l = [].
Proof.
  induction l as [|a l IH]; [done|]. intros H. cbn. rewrite (H a) by left. apply IH. intros x Hx. apply H. by right.
Qed.

Lemma NoDup_fmap_omap {A B C} (f : B -> C) (g : A -> option B) (l : list A) :
  NoDup l ->
  (forall x y a b, x ∈ l -> y ∈ l -> g x = Some a -> g y = Some b -> f a = f b -> x = y) ->
  NoDup (f <$> omap g l).
Proof.
  induction l as [|x l IH]; intros Hnd Hinj; [constructor|].
  apply NoDup_cons in Hnd as [Hx Hnd]. cbn. destruct (g x) as [a|] eqn:Ea.
  - cbn. apply NoDup_cons. split.
    + intros Hin. apply elem_of_list_fmap in Hin as (b & Hfb & Hb).
      apply elem_of_list_omap in Hb as (y & Hy & Eb).
      assert (x = y) as -> by (eapply Hinj; [left|by right|done|done|done]). done.
    + apply IH; [done|]. intros y z b c Hy Hz. apply Hinj; by right.
  - apply IH; [done|]. intros y z b c Hy Hz. apply Hinj; by right.
Qed.

(* ================================================================ the invariant *)
(* [G]: serials still in the SerialMap whose provider query is gone (between
   IntrospectionDatabase::remove_conn and the loop of remove_introspection_conn);
   [L]: types whose entry is waiting for a new provider query (queried = None although requesters
   may be pending).  Between steps both are empty. *)
Record idb_inv_g (G : gset N) (L : gset itid) (s : istate) : Prop := {
  inv_wf : forall t e, i_entries s !! t = Some e -> entry_wf e;
  inv_live : forall t e, i_entries s !! t = Some e -> t ∉ L -> e_pending e <> [] -> is_Some (e_queried e);
  inv_L : forall t e, i_entries s !! t = Some e -> t ∈ L -> e_queried e = None /\ e_intro e = None;
  inv_conn : forall t e c, i_entries s !! t = Some e -> c ∈ e_ids e -> is_Some (i_conns s !! c);
  inv_pconn : forall t e q, i_entries s !! t = Some e -> q ∈ e_pending e -> is_Some (i_conns s !! q_conn q);
  inv_q1 : forall t e q, i_entries s !! t = Some e -> e_queried e = Some q ->
             i_qmap s !! q_serial q = Some t /\ q_serial q ∉ G;
  inv_q2 : forall sr t, i_qmap s !! sr = Some t ->
             sr ∈ G \/ exists e q, i_entries s !! t = Some e /\ e_queried e = Some q /\ q_serial q = sr;
  inv_G : forall sr, sr ∈ G -> is_Some (i_qmap s !! sr) }.
Definition idb_inv : istate -> Prop := idb_inv_g ∅ ∅.

Lemma idb_inv_init : idb_inv iinit.
Proof. split; cbn; intros *; rewrite ?lookup_empty; try done. Qed.

(* outcomes of the machine inside a step: Done/Fail satisfy Q, no panic; Halt is vacuous *)
Definition ores (Q : IM -> Prop) (o : ioutcome IM) : Prop :=
  match o with IDone m | IFail m => Q m | IPanic _ => False | IHalt _ => True end.

Lemma ores_mono (Q1 Q2 : IM -> Prop) o : (forall m, Q1 m -> Q2 m) -> ores Q1 o -> ores Q2 o.
Proof. destruct o; cbn; auto. Qed.

(* the same for functions that never return Err(()) *)
Definition oresd (Q : IM -> Prop) (o : ioutcome IM) : Prop :=
  match o with IDone m => Q m | IFail _ | IPanic _ => False | IHalt _ => True end.
Lemma oresd_mono (Q1 Q2 : IM -> Prop) o : (forall m, Q1 m -> Q2 m) -> oresd Q1 o -> oresd Q2 o.
Proof. destruct o; cbn; auto. Qed.
Lemma oresd_ores Q o : oresd Q o -> ores Q o.
Proof. by destruct o. Qed.

Lemma ifoldO_ores {A} (I : IM -> Prop) (f : IM -> A -> ioutcome IM) l m :
  (forall m x, x ∈ l -> I m -> match f m x with IDone m' => I m' | IFail _ => False | IPanic _ => False | IHalt _ => True end) ->
  I m -> oresd I (ifoldO f l m).
Proof.
  revert m. induction l as [|x l IH]; intros m Hf Hm; [done|]. cbn.
  pose proof (Hf m x ltac:(left) Hm) as H. destruct (f m x); [|done..].
  apply IH; [|done]. intros m' y Hy. apply Hf. by right.
Qed.

(* ---- SerialMap::insert hands out a vacant serial *)
Lemma iq_probe_vacant fuel occ : forall n b nxt, iq_probe fuel occ n = Some (b, nxt) -> occ b = false.
Proof.
  induction fuel as [|fuel IH]; intros n b nxt; cbn; [done|].
  destruct (occ n) eqn:Eo; [apply IH|]. intros [= <- _]. done.
Qed.
Lemma iq_insert_spec s t sr s1 :
  iq_insert s t = Some (sr, s1) ->
  i_qmap s !! sr = None /\ i_qmap s1 = <[sr := t]> (i_qmap s) /\
  i_conns s1 = i_conns s /\ i_entries s1 = i_entries s /\ i_idle s1 = i_idle s.
Proof.
  unfold iq_insert. destruct (iq_probe _ _ _) as [[b nxt]|] eqn:E; [|done]. intros [= <- <-].
  apply iq_probe_vacant in E. apply bool_decide_eq_false in E. split; [by apply eq_None_not_Some|done].
Qed.

(* ---- answering taken pending queries never changes the state *)
Lemma answer_ok site r l m :
  (site = None \/ forall q, q ∈ l -> is_Some (i_conns (ims m) !! q_conn q)) ->
  oresd (fun m' => ims m' = ims m /\ imc m' = imc m) (ifoldO (ianswer site r) l m).
Proof.
  intros H. apply (ifoldO_ores (fun m' => ims m' = ims m /\ imc m' = imc m)); [|done].
  intros m0 q Hq [Hm0 Hc0]. unfold ianswer. rewrite Hm0.
  destruct (i_conns (ims m) !! q_conn q) as [ci|] eqn:E.
  - unfold isend_or_remove. by destruct (ci_alive ci).
  - destruct H as [->|H]; [done|]. destruct (H q Hq) as [? ?]. congruence.
Qed.

(* ---- insert a serial, draw a provider, send the query *)
Lemma ask_ok site m t e G L :
  idb_inv_g G L (ims m) -> t ∈ L -> i_entries (ims m) !! t = Some e ->
  oresd (fun m' => idb_inv_g G (L ∖ {[t]}) (ims m') /\ i_conns (ims m') = i_conns (ims m) /\
                   i_idle (ims m') = i_idle (ims m))
        (iask_provider site m t e).
Proof.
  intros I HL He. unfold iask_provider.
  destruct (iq_insert (ims m) t) as [[sr s1]|] eqn:Eins; [|done].
  apply iq_insert_spec in Eins as (Hvac & Hq1 & Hc1 & He1 & Hi1).
  destruct (inv_L _ _ _ I _ _ He HL) as [Hqn Hin].
  pose proof (inv_wf _ _ _ I _ _ He) as W.
  rewrite Hqn. rewrite bool_decide_eq_false_2 by (intros [? ?]; done).
  destruct (bool_decide_reflect (e_idxs e = ∅)) as [Hem|_].
  { exfalso. pose proof (wf_nonempty _ W) as Hne. destruct (e_ids e) as [|a l] eqn:El; [done|].
    assert (is_Some (e_idxs e !! a)) as [i Hi] by (apply (idxs_dom_ids _ W); rewrite El; left).
    rewrite Hem, lookup_empty in Hi. done. }
  rewrite bool_decide_eq_false_2 by apply W.
  destruct (imc m) as [|r rest]; [done|].
  destruct (entry_query_random_conn_spec e sr r W Hqn) as (c & Hcin & ->).
  cbn. rewrite Hc1.
  destruct (inv_conn _ _ _ I _ _ _ He Hcin) as [ci Hci]. rewrite Hci. cbn.
  assert (forall x, ims (isend_or_remove x c ci (IQuery sr t)) = ims x) as Hims
    by (intros x; unfold isend_or_remove; by destruct (ci_alive ci)).
  rewrite Hims. cbn. rewrite Hc1, Hi1. split; [|done].
  set (e' := e <| e_queried := Some {| q_conn := c; q_serial := sr |} |>).
  assert (entry_wf e') as W'.
  { destruct W. split; cbn; try done. intros q [= <-]. done. }
  split; cbn; rewrite ?He1, ?Hq1, ?Hc1.
  - intros t0 e0. destruct (decide (t0 = t)) as [->|Hne].
    + rewrite lookup_insert. by intros [= <-].
    + rewrite lookup_insert_ne by done. apply (inv_wf _ _ _ I).
  - intros t0 e0. destruct (decide (t0 = t)) as [->|Hne].
    + rewrite lookup_insert. intros [= <-] _ _. cbn. eauto.
    + rewrite lookup_insert_ne by done. intros H0 HnL. apply (inv_live _ _ _ I _ _ H0). set_solver.
  - intros t0 e0. destruct (decide (t0 = t)) as [->|Hne]; [set_solver|].
    rewrite lookup_insert_ne by done. intros H0 HnL. apply (inv_L _ _ _ I _ _ H0). set_solver.
  - intros t0 e0 c0. destruct (decide (t0 = t)) as [->|Hne].
    + rewrite lookup_insert. intros [= <-]. cbn. by apply (inv_conn _ _ _ I _ _ _ He).
    + rewrite lookup_insert_ne by done. apply (inv_conn _ _ _ I).
  - intros t0 e0 q0. destruct (decide (t0 = t)) as [->|Hne].
    + rewrite lookup_insert. intros [= <-]. cbn. by apply (inv_pconn _ _ _ I _ _ _ He).
    + rewrite lookup_insert_ne by done. apply (inv_pconn _ _ _ I).
  - intros t0 e0 q0. destruct (decide (t0 = t)) as [->|Hne].
    + rewrite lookup_insert. intros [= <-]. cbn. intros [= <-]. cbn. rewrite lookup_insert. split; [done|].
      intros HG. destruct (inv_G _ _ _ I _ HG) as [? ?]. congruence.
    + rewrite lookup_insert_ne by done. intros H0 Hq0. destruct (inv_q1 _ _ _ I _ _ _ H0 Hq0) as [Hm HnG].
      split; [|done]. rewrite lookup_insert_ne; [done|]. intros Heq. rewrite <- Heq in Hm. congruence.
  - intros sr0 t0. destruct (decide (sr0 = sr)) as [->|Hne].
    + rewrite lookup_insert. intros [= <-]. right. exists e', {| q_conn := c; q_serial := sr |}.
      rewrite lookup_insert. done.
    + rewrite lookup_insert_ne by done. intros H0. destruct (inv_q2 _ _ _ I _ _ H0) as [?|(e0 & q0 & H1 & H2 & H3)]; [by left|].
      right. destruct (decide (t0 = t)) as [->|Hnt].
      * assert (e0 = e) as -> by congruence. congruence.
      * exists e0, q0. by rewrite lookup_insert_ne.
  - intros sr0 HG. destruct (inv_G _ _ _ I _ HG) as [x Hx]. destruct (decide (sr0 = sr)) as [->|Hne]; [congruence|].
    rewrite lookup_insert_ne by done. eauto.
Qed.

Lemma idb_inv_g_L G L L' s : L = L' -> idb_inv_g G L s -> idb_inv_g G L' s.
Proof. by intros ->. Qed.

(* ================================================================ register_introspection *)
Lemma reg1 s t c :
  idb_inv s -> is_Some (i_conns s !! c) ->
  idb_inv (s <| i_entries := <[t := entry_register (default ientry0 (i_entries s !! t)) c]> (i_entries s) |>).
Proof.
  intros I Hc. set (e0 := default ientry0 (i_entries s !! t)).
  assert ((entry_wf e0 /\ i_entries s !! t = Some e0) \/ (e0 = ientry0 /\ i_entries s !! t = None)) as H0.
  { unfold e0. destruct (i_entries s !! t) as [e|] eqn:E; cbn; [left|right; done]. split; [|done]. by apply (inv_wf _ _ _ I t). }
  destruct (entry_register_spec e0 c ltac:(destruct H0 as [[? _]|[? _]]; auto)) as (W' & Hmem & Hin & Hq & Hp).
  split; cbn.
  - intros t0 e. destruct (decide (t0 = t)) as [->|Hne].
    + rewrite lookup_insert. by intros [= <-].
    + rewrite lookup_insert_ne by done. apply (inv_wf _ _ _ I).
  - intros t0 e. destruct (decide (t0 = t)) as [->|Hne].
    + rewrite lookup_insert. intros [= <-] _. rewrite Hp, Hq. destruct H0 as [[_ H0]|[-> _]]; [|done].
      apply (inv_live _ _ _ I _ _ H0). set_solver.
    + rewrite lookup_insert_ne by done. apply (inv_live _ _ _ I).
  - set_solver.
  - intros t0 e c0. destruct (decide (t0 = t)) as [->|Hne].
    + rewrite lookup_insert. intros [= <-]. rewrite Hmem. intros [Hin0| ->]; [|done].
      destruct H0 as [[_ H0]|[-> _]]; [by apply (inv_conn _ _ _ I _ _ _ H0)|by apply elem_of_nil in Hin0].
    + rewrite lookup_insert_ne by done. apply (inv_conn _ _ _ I).
  - intros t0 e q0. destruct (decide (t0 = t)) as [->|Hne].
    + rewrite lookup_insert. intros [= <-]. rewrite Hp.
      destruct H0 as [[_ H0]|[-> _]]; [by apply (inv_pconn _ _ _ I _ _ _ H0)|intros Hx; by apply elem_of_nil in Hx].
    + rewrite lookup_insert_ne by done. apply (inv_pconn _ _ _ I).
  - intros t0 e q0. destruct (decide (t0 = t)) as [->|Hne].
    + rewrite lookup_insert. intros [= <-]. rewrite Hq.
      destruct H0 as [[_ H0]|[-> _]]; [by apply (inv_q1 _ _ _ I _ _ _ H0)|done].
    + rewrite lookup_insert_ne by done. apply (inv_q1 _ _ _ I).
  - intros sr t0 Hs. destruct (inv_q2 _ _ _ I _ _ Hs) as [?|(e & q & H1 & H2 & H3)]; [by left|]. right.
    destruct (decide (t0 = t)) as [->|Hne].
    + destruct H0 as [[_ H0]|[_ H0]]; [|congruence]. assert (e = e0) as -> by congruence.
      eexists _, q. rewrite lookup_insert. split; [done|]. by rewrite Hq.
    + exists e, q. by rewrite lookup_insert_ne.
  - set_solver.
Qed.

Lemma reg_fold c l : forall s,
  idb_inv s -> is_Some (i_conns s !! c) ->
  idb_inv (s <| i_entries := foldl (fun ents t => <[t := entry_register (default ientry0 (ents !! t)) c]> ents) (i_entries s) l |>).
Proof.
  induction l as [|t l IH]; intros s I Hc; cbn.
  - by destruct s.
  - specialize (IH _ (reg1 s t c I Hc) Hc). by destruct s.
Qed.

Lemma db_register_ok m c ts :
  idb_inv (ims m) ->
  ores (fun m' => idb_inv (ims m') /\ i_conns (ims m') = i_conns (ims m) /\ i_idle (ims m') = i_idle (ims m) /\
                  imq m' = imq m /\ imo m' = imo m) (db_register m c ts).
Proof.
  intros I. unfold db_register. destruct (i_conns (ims m) !! c) as [ci|] eqn:Ec; [|done].
  destruct (ci_ver ci <? _); [done|]. destruct ts as [l|]; [|done]. cbn.
  split; [|done]. apply reg_fold; [done|eauto].
Qed.

(* ================================================================ query_introspection *)
Lemma inv_add_pending s t e q (L : gset itid) :
  idb_inv s -> i_entries s !! t = Some e -> e_intro e = None -> is_Some (i_conns s !! q_conn q) ->
  L ⊆ {[t]} -> (t ∈ L -> e_queried e = None) -> (t ∉ L -> is_Some (e_queried e)) ->
  idb_inv_g ∅ L (s <| i_entries := <[t := e <| e_pending := e_pending e ++ [q] |>]> (i_entries s) |>).
Proof.
  intros I He Hin Hc HL HL1 HL2.
  pose proof (inv_wf _ _ _ I _ _ He) as W.
  assert (entry_wf (e <| e_pending := e_pending e ++ [q] |>)) as W' by (destruct W; split; cbn; done).
  split; cbn.
  - intros t0 e0. destruct (decide (t0 = t)) as [->|Hne].
    + rewrite lookup_insert. by intros [= <-].
    + rewrite lookup_insert_ne by done. apply (inv_wf _ _ _ I).
  - intros t0 e0. destruct (decide (t0 = t)) as [->|Hne].
    + rewrite lookup_insert. intros [= <-] HnL _. cbn. auto.
    + rewrite lookup_insert_ne by done. intros H0 _. apply (inv_live _ _ _ I _ _ H0). set_solver.
  - intros t0 e0. destruct (decide (t0 = t)) as [->|Hne]; [|set_solver].
    rewrite lookup_insert. intros [= <-] HinL. cbn. auto.
  - intros t0 e0 c0. destruct (decide (t0 = t)) as [->|Hne].
    + rewrite lookup_insert. intros [= <-]. cbn. by apply (inv_conn _ _ _ I _ _ _ He).
    + rewrite lookup_insert_ne by done. apply (inv_conn _ _ _ I).
  - intros t0 e0 q0. destruct (decide (t0 = t)) as [->|Hne].
    + rewrite lookup_insert. intros [= <-]. cbn. rewrite elem_of_app, elem_of_list_singleton.
      intros [Hq0| ->]; [by apply (inv_pconn _ _ _ I _ _ _ He)|done].
    + rewrite lookup_insert_ne by done. apply (inv_pconn _ _ _ I).
  - intros t0 e0 q0. destruct (decide (t0 = t)) as [->|Hne].
    + rewrite lookup_insert. intros [= <-]. cbn. by apply (inv_q1 _ _ _ I _ _ _ He).
    + rewrite lookup_insert_ne by done. apply (inv_q1 _ _ _ I).
  - intros sr t0 Hs. destruct (inv_q2 _ _ _ I _ _ Hs) as [?|(e0 & q0 & H1 & H2 & H3)]; [by left|]. right.
    destruct (decide (t0 = t)) as [->|Hne].
    + assert (e0 = e) as -> by congruence. eexists _, q0. rewrite lookup_insert. done.
    + exists e0, q0. by rewrite lookup_insert_ne.
  - set_solver.
Qed.

Definition frame (m m' : IM) : Prop :=
  i_conns (ims m') = i_conns (ims m) /\ i_idle (ims m') = i_idle (ims m).

Lemma db_query_ok m c serial t :
  idb_inv (ims m) -> ores (fun m' => idb_inv (ims m') /\ frame m m') (db_query m c serial t).
Proof.
  intros I. unfold db_query, frame. destruct (i_conns (ims m) !! c) as [ci|] eqn:Ec; [|done].
  destruct (ci_ver ci <? _); [done|].
  destruct (i_entries (ims m) !! t) as [e|] eqn:Ee.
  2:{ destruct (ci_alive ci); done. }
  destruct (e_intro e) as [p|] eqn:Ein.
  { destruct (ci_alive ci); done. }
  cbn. destruct (e_queried e) as [q|] eqn:Eq; cbn.
  - split; [|done]. destruct (ims m) as [cs es qm qn idl] eqn:Es. cbn in *.
    apply (inv_add_pending {| i_conns := cs; i_entries := es; i_qmap := qm; i_qnext := qn; i_idle := idl |}
             t e {| q_conn := c; q_serial := serial |} ∅); cbn; eauto; try set_solver.
  - set (e1 := e <| e_pending := e_pending e ++ [{| q_conn := c; q_serial := serial |}] |>).
    set (m1 := m <| ims; i_entries ::= <[t := e1]> |>).
    assert (idb_inv_g ∅ {[t]} (ims m1)) as I1.
    { unfold m1. cbn. destruct (ims m) as [cs es qm qn idl] eqn:Es. cbn in *.
      apply (inv_add_pending {| i_conns := cs; i_entries := es; i_qmap := qm; i_qnext := qn; i_idle := idl |}
               t e {| q_conn := c; q_serial := serial |} {[t]}); cbn; eauto; set_solver. }
    eapply ores_mono; [|apply oresd_ores, (ask_ok 121 m1 t e1 ∅ {[t]} I1); [set_solver|unfold m1; cbn; by rewrite lookup_insert]].
    intros m' (I' & Hc' & Hi'). split; [|done]. eapply idb_inv_g_L; [|exact I']. set_solver.
Qed.

(* ================================================================ query_introspection_reply *)
Lemma inv_reply_update s t e q e' (L : gset itid) :
  idb_inv s -> i_entries s !! t = Some e -> e_queried e = Some q ->
  entry_wf e' -> e_queried e' = None ->
  (forall x, x ∈ e_ids e' -> x ∈ e_ids e) -> (forall x, x ∈ e_pending e' -> x ∈ e_pending e) ->
  L ⊆ {[t]} -> (t ∈ L -> e_intro e' = None) -> (t ∉ L -> e_pending e' = []) ->
  idb_inv_g ∅ L (s <| i_entries := <[t := e']> (i_entries s) |> <| i_qmap := delete (q_serial q) (i_qmap s) |>).
Proof.
  intros I He Hq W' Hq' Hids Hpend HL HL1 HL2.
  destruct (inv_q1 _ _ _ I _ _ _ He Hq) as [Hqm _].
  assert (forall t0 e0 q0, t0 <> t -> i_entries s !! t0 = Some e0 -> e_queried e0 = Some q0 -> q_serial q0 <> q_serial q) as Hother.
  { intros t0 e0 q0 Hne H0 Hq0 Heq. destruct (inv_q1 _ _ _ I _ _ _ H0 Hq0) as [Hm _]. rewrite Heq in Hm. congruence. }
  split; cbn.
  - intros t0 e0. destruct (decide (t0 = t)) as [->|Hne].
    + rewrite lookup_insert. by intros [= <-].
    + rewrite lookup_insert_ne by done. apply (inv_wf _ _ _ I).
  - intros t0 e0. destruct (decide (t0 = t)) as [->|Hne].
    + rewrite lookup_insert. intros [= <-] HnL Hp. by rewrite HL2 in Hp.
    + rewrite lookup_insert_ne by done. intros H0 _. apply (inv_live _ _ _ I _ _ H0). set_solver.
  - intros t0 e0. destruct (decide (t0 = t)) as [->|Hne]; [|set_solver].
    rewrite lookup_insert. intros [= <-] HinL. auto.
  - intros t0 e0 c0. destruct (decide (t0 = t)) as [->|Hne].
    + rewrite lookup_insert. intros [= <-] Hx. apply (inv_conn _ _ _ I _ _ _ He). auto.
    + rewrite lookup_insert_ne by done. apply (inv_conn _ _ _ I).
  - intros t0 e0 q0. destruct (decide (t0 = t)) as [->|Hne].
    + rewrite lookup_insert. intros [= <-] Hx. apply (inv_pconn _ _ _ I _ _ _ He). auto.
    + rewrite lookup_insert_ne by done. apply (inv_pconn _ _ _ I).
  - intros t0 e0 q0. destruct (decide (t0 = t)) as [->|Hne].
    + rewrite lookup_insert. intros [= <-]. congruence.
    + rewrite lookup_insert_ne by done. intros H0 Hq0. destruct (inv_q1 _ _ _ I _ _ _ H0 Hq0) as [Hm HnG].
      split; [|done]. rewrite lookup_delete_ne; [done|]. intros Heq. eapply Hother; eauto.
  - intros sr t0 Hs. apply lookup_delete_Some in Hs as [Hne Hs].
    destruct (inv_q2 _ _ _ I _ _ Hs) as [?|(e0 & q0 & H1 & H2 & H3)]; [by left|]. right.
    destruct (decide (t0 = t)) as [->|Hnt].
    + assert (e0 = e) as -> by congruence. congruence.
    + exists e0, q0. by rewrite lookup_insert_ne.
  - set_solver.
Qed.

Lemma inv_reply_delete s t e q :
  idb_inv s -> i_entries s !! t = Some e -> e_queried e = Some q ->
  idb_inv (s <| i_entries := delete t (i_entries s) |> <| i_qmap := delete (q_serial q) (i_qmap s) |>).
Proof.
  intros I He Hq.
  destruct (inv_q1 _ _ _ I _ _ _ He Hq) as [Hqm _].
  split; cbn.
  - intros t0 e0 [_ H0]%lookup_delete_Some. by apply (inv_wf _ _ _ I t0).
  - intros t0 e0 [_ H0]%lookup_delete_Some. by apply (inv_live _ _ _ I t0).
  - set_solver.
  - intros t0 e0 c0 [_ H0]%lookup_delete_Some. by apply (inv_conn _ _ _ I t0).
  - intros t0 e0 q0 [_ H0]%lookup_delete_Some. by apply (inv_pconn _ _ _ I t0).
  - intros t0 e0 q0 [Hne H0]%lookup_delete_Some Hq0. destruct (inv_q1 _ _ _ I _ _ _ H0 Hq0) as [Hm HnG].
    split; [|done]. rewrite lookup_delete_ne; [done|]. intros Heq. rewrite Heq in Hqm. congruence.
  - intros sr t0 Hs. apply lookup_delete_Some in Hs as [Hne Hs].
    destruct (inv_q2 _ _ _ I _ _ Hs) as [?|(e0 & q0 & H1 & H2 & H3)]; [by left|]. right.
    destruct (decide (t0 = t)) as [->|Hnt].
    + assert (e0 = e) as -> by congruence. congruence.
    + exists e0, q0. by rewrite lookup_delete_ne.
  - set_solver.
Qed.

Lemma db_reply_ok m c serial r :
  idb_inv (ims m) -> ores (fun m' => idb_inv (ims m') /\ frame m m') (db_reply m c serial r).
Proof.
  intros I. unfold db_reply, frame. destruct (i_conns (ims m) !! c) as [ci|] eqn:Ec; [|done].
  destruct (ci_ver ci <? _); [done|].
  destruct (i_qmap (ims m) !! serial) as [t|] eqn:Eqm; [|done].
  destruct (inv_q2 _ _ _ I _ _ Eqm) as [?|(e & q & He & Hq & Hqs)]; [set_solver|].
  rewrite He, Hq. destruct (bool_decide_reflect (q_conn q = c)) as [Hqc|]; [|done]. cbn [negb].
  rewrite bool_decide_eq_true_2 by done. cbn [negb].
  pose proof (inv_wf _ _ _ I _ _ He) as W.
  destruct (wf_queried _ W _ Hq) as [Hcin Hin]. rewrite Hin.
  rewrite bool_decide_eq_false_2 by (intros [? ?]; done).
  set (e1 := e <| e_queried := None |>).
  assert (entry_wf e1) as W1 by (destruct W; split; cbn; done).
  destruct (ims m) as [cs es qm qn idl] eqn:Es. cbn in He, Eqm, Ec.
  set (s0 := {| i_conns := cs; i_entries := es; i_qmap := qm; i_qnext := qn; i_idle := idl |}) in *.
  destruct r as [p|].
  - (* Available *)
    cbn. rewrite bool_decide_eq_false_2 by (rewrite Hin; intros [? ?]; done).
    set (e2 := e1 <| e_pending := [] |> <| e_intro := Some p |>).
    set (m2 := m <| ims; i_qmap ::= delete serial |> <| ims; i_entries ::= <[t := e2]> |>).
    assert (idb_inv (ims m2)) as I2.
    { unfold m2. cbn. rewrite Es. cbn. subst serial.
      refine (inv_reply_update s0 t e q e2 ∅ I He Hq _ eq_refl _ _ _ _ _).
      - destruct W; split; cbn; done.
      - done.
      - cbn. intros x Hx. by apply elem_of_nil in Hx.
      - set_solver.
      - set_solver.
      - done. }
    eapply ores_mono; [|apply oresd_ores, (answer_ok (Some 134) (Some p) (e_pending e1) m2)].
    + intros m' [-> _]. split; [done|]. unfold m2. cbn. by rewrite Es.
    + right. intros q0 Hq0. unfold m2. cbn. rewrite Es. cbn. by apply (inv_pconn _ _ _ I t e).
  - (* Unavailable *)
    destruct (entry_remove_conn_spec e1 c W1) as (e2 & b & -> & Hin2 & Hq2 & Hp2 & Hb & Htrue).
    assert (forall x, x ∈ e_pending e2 -> x ∈ e_pending e) as Hpsub.
    { intros x. rewrite Hp2, elem_of_drop_pending. cbn. tauto. }
    destruct b.
    + (* Continue *)
      destruct (Htrue eq_refl) as [W2 Hmem2].
      set (m2 := m <| ims; i_qmap ::= delete serial |> <| ims; i_entries ::= <[t := e2]> |>).
      assert (idb_inv_g ∅ {[t]} (ims m2)) as I2.
      { unfold m2. cbn. rewrite Es. cbn. subst serial.
        refine (inv_reply_update s0 t e q e2 {[t]} I He Hq W2 _ _ Hpsub _ _ _).
        - by rewrite Hq2.
        - intros x Hx. apply Hmem2 in Hx as [Hx _]. done.
        - set_solver.
        - intros _. by rewrite Hin2.
        - set_solver. }
      eapply ores_mono; [|apply oresd_ores, (ask_ok 136 m2 t e2 ∅ {[t]} I2); [set_solver|unfold m2; cbn; by rewrite lookup_insert]].
      intros m' (I' & Hc' & Hi'). split.
      * eapply idb_inv_g_L; [|exact I']. set_solver.
      * rewrite Hc', Hi'. unfold m2. cbn. by rewrite Es.
    + (* Unavailable for everybody *)
      set (m2 := m <| ims; i_qmap ::= delete serial |> <| ims; i_entries ::= delete t |>).
      assert (idb_inv (ims m2)) as I2.
      { unfold m2. cbn. rewrite Es. cbn. subst serial. by apply (inv_reply_delete s0 t e q). }
      eapply ores_mono; [|apply oresd_ores, (answer_ok (Some 135) None (e_pending e2) m2)].
      * intros m' [-> _]. split; [done|]. unfold m2. cbn. by rewrite Es.
      * right. intros q0 Hq0. unfold m2. cbn. rewrite Es. cbn. apply (inv_pconn _ _ _ I t e); [done|]. auto.
Qed.


Lemma NoDup_omap_inj {A B} (g : A -> option B) (l : list A) :
  NoDup l -> (forall x y b, x ∈ l -> y ∈ l -> g x = Some b -> g y = Some b -> x = y) -> NoDup (omap g l).
Proof.
  intros Hnd Hinj. rewrite <- (list_fmap_id (omap g l)). apply NoDup_fmap_omap; [done|].
  intros x y a b Hx Hy Ha Hb Heq. cbn in Heq. subst b. eauto.
Qed.

(* ================================================================ IntrospectionDatabase::remove_conn *)
Definition cont_types (rs : list irc_result) : list itid :=
  omap (fun r => match r with RCont _ t => Some t | RUnavail _ _ => None end) rs.

(* the state between IntrospectionDatabase::remove_conn and the end of the loop over its results *)
Record pend_ok (rs : list irc_result) (s : istate) : Prop := {
  po_inv : idb_inv_g (list_to_set (irc_serial <$> rs)) (list_to_set (cont_types rs)) s;
  po_nd_serial : NoDup (irc_serial <$> rs);
  po_nd_types : NoDup (cont_types rs) }.

Lemma erc_result_Some c t e r :
  entry_wf e -> erc_result c (t, e) = Some r ->
  exists e' b q, entry_remove_conn e c = IDone (e', b) /\ e_queried e = Some q /\ q_conn q = c /\
    e_queried e' = None /\ irc_serial r = q_serial q /\
    (b = true -> r = RCont (q_serial q) t) /\ (b = false -> r = RUnavail (q_serial q) (e_pending e')).
Proof.
  intros W. unfold erc_result. cbn.
  destruct (entry_remove_conn_spec e c W) as (e' & b & -> & _ & Hq' & _).
  unfold entry_queried. destruct (e_queried e) as [q|] eqn:Eq; [|done]. cbn.
  destruct (e_queried e') as [q'|] eqn:Eq'; [done|]. cbn. intros [= <-].
  exists e', b, q. split; [done|]. split; [done|].
  unfold drop_queried in Hq'. rewrite Eq in Hq'.
  destruct (bool_decide_reflect (q_conn q = c)) as [Hc|]; [|congruence].
  split; [done|]. split; [done|]. destruct b; cbn; split; try done; intros [=].
Qed.

Lemma db_remove_conn_ok s c :
  idb_inv s ->
  exists ents' rs, db_remove_conn (i_entries s) c = IDone (ents', rs) /\
    pend_ok rs (s <| i_conns := delete c (i_conns s) |> <| i_entries := ents' |>).
Proof.
  intros I. unfold db_remove_conn.
  rewrite omap_nil_all.
  2:{ intros [t e] Hin. apply elem_of_map_to_list in Hin. unfold erc_panic. cbn.
      destruct (entry_remove_conn_spec e c (inv_wf _ _ _ I _ _ Hin)) as (e' & b & -> & _). done. }
  eexists _, _. split; [done|].
  set (rs := omap (erc_result c) (map_to_list (i_entries s))).
  (* what the results are *)
  assert (forall r, r ∈ rs <-> exists t e, i_entries s !! t = Some e /\ erc_result c (t, e) = Some r) as Hrs.
  { intros r. unfold rs. rewrite elem_of_list_omap. split.
    - intros ([t e] & Hin & Hr). apply elem_of_map_to_list in Hin. eauto.
    - intros (t & e & Hin & Hr). exists (t, e). split; [|done]. by apply elem_of_map_to_list. }
  assert (forall sr, sr ∈ irc_serial <$> rs <->
            exists t e q, i_entries s !! t = Some e /\ e_queried e = Some q /\ q_conn q = c /\ q_serial q = sr) as HG.
  { intros sr. rewrite elem_of_list_fmap. split.
    - intros (r & -> & Hr). apply Hrs in Hr as (t & e & He & Hr).
      apply erc_result_Some in Hr as (e' & b & q & _ & Hq & Hqc & _ & Hsr & _); [|by apply (inv_wf _ _ _ I t)].
      exists t, e, q. done.
    - intros (t & e & q & He & Hq & Hqc & <-).
      pose proof (inv_wf _ _ _ I _ _ He) as W.
      destruct (entry_remove_conn_spec e c W) as (e' & b & Hrc & _ & Hq' & Hp' & _).
      assert (e_queried e' = None) as Hqn.
      { rewrite Hq'. unfold drop_queried. rewrite Hq. by rewrite bool_decide_eq_true_2. }
      eexists. split; [|apply Hrs; exists t, e; split; [done|]].
      2:{ unfold erc_result. cbn. rewrite Hrc. unfold entry_queried. rewrite Hq, Hqn. cbn. done. }
      by destruct b. }
  assert (forall t, t ∈ cont_types rs <->
            exists e q e', i_entries s !! t = Some e /\ e_queried e = Some q /\ q_conn q = c /\
                           entry_remove_conn e c = IDone (e', true)) as HL.
  { intros t. unfold cont_types. rewrite elem_of_list_omap. split.
    - intros (r & Hr & Ht). destruct r as [sr t0|]; [|done]. injection Ht as ->.
      apply Hrs in Hr as (t1 & e & He & Hr).
      apply erc_result_Some in Hr as (e' & b & q & Hrc & Hq & Hqc & _ & _ & Hb1 & Hb2); [|by apply (inv_wf _ _ _ I t1)].
      destruct b; [|by specialize (Hb2 eq_refl)]. specialize (Hb1 eq_refl). injection Hb1 as _ <-.
      exists e, q, e'. done.
    - intros (e & q & e' & He & Hq & Hqc & Hrc).
      exists (RCont (q_serial q) t). split; [|done]. apply Hrs. exists t, e. split; [done|].
      pose proof (inv_wf _ _ _ I _ _ He) as W.
      destruct (entry_remove_conn_spec e c W) as (e'' & b & Hrc' & _ & Hq' & _).
      rewrite Hrc in Hrc'. injection Hrc' as <- <-.
      unfold erc_result. cbn. rewrite Hrc. unfold entry_queried. rewrite Hq, Hq'. unfold drop_queried. rewrite Hq.
      rewrite bool_decide_eq_true_2 by done. done. }
  (* entries after the retain *)
  assert (forall t e', omap (erc_keep c) (i_entries s) !! t = Some e' <->
            exists e, i_entries s !! t = Some e /\ entry_remove_conn e c = IDone (e', true)) as Hkeep.
  { intros t e'. rewrite lookup_omap. destruct (i_entries s !! t) as [e|] eqn:He; cbn.
    - unfold erc_keep. split.
      + intros Hk. exists e. split; [done|]. destruct (entry_remove_conn e c) as [[e0 [|]]| | |]; try done. by injection Hk as ->.
      + intros (e0 & [= <-] & ->). done.
    - split; [done|]. by intros (? & ? & _). }
  split.
  - split; cbn.
    + intros t e' (e & He & Hrc)%Hkeep.
      destruct (entry_remove_conn_spec e c (inv_wf _ _ _ I _ _ He)) as (e'' & b & Hrc' & _ & _ & _ & _ & Ht).
      rewrite Hrc in Hrc'. injection Hrc' as <- <-. by apply Ht.
    + intros t e' (e & He & Hrc)%Hkeep HnL Hp.
      rewrite elem_of_list_to_set in HnL.
      destruct (entry_remove_conn_spec e c (inv_wf _ _ _ I _ _ He)) as (e'' & b & Hrc' & _ & Hq' & Hp' & _).
      rewrite Hrc in Hrc'. injection Hrc' as <- <-.
      assert (e_pending e <> []) as Hpe.
      { intros Hn. apply Hp. rewrite Hp'. unfold drop_pending. by rewrite Hn. }
      destruct (inv_live _ _ _ I _ _ He ltac:(set_solver) Hpe) as [q Hq].
      rewrite Hq'. unfold drop_queried. rewrite Hq.
      destruct (bool_decide_reflect (q_conn q = c)) as [Hqc|]; [|eauto].
      exfalso. apply HnL. apply HL. exists e, q, e'. done.
    + intros t e' (e & He & Hrc)%Hkeep HinL. rewrite elem_of_list_to_set in HinL.
      apply HL in HinL as (e0 & q & e0' & He0 & Hq & Hqc & Hrc0).
      assert (e0 = e) as -> by congruence.
      destruct (entry_remove_conn_spec e c (inv_wf _ _ _ I _ _ He)) as (e'' & b & Hrc' & Hin' & Hq' & _).
      rewrite Hrc in Hrc'. injection Hrc' as <- <-.
      split.
      * rewrite Hq'. unfold drop_queried. rewrite Hq. by rewrite bool_decide_eq_true_2.
      * rewrite Hin'. by apply (wf_queried _ (inv_wf _ _ _ I _ _ He) q).
    + intros t e' x (e & He & Hrc)%Hkeep Hx.
      destruct (entry_remove_conn_spec e c (inv_wf _ _ _ I _ _ He)) as (e'' & b & Hrc' & _ & _ & _ & _ & Ht).
      rewrite Hrc in Hrc'. injection Hrc' as <- <-. destruct (Ht eq_refl) as [_ Hmem].
      apply Hmem in Hx as [Hx Hxc]. rewrite lookup_delete_ne by done. by apply (inv_conn _ _ _ I t e).
    + intros t e' q0 (e & He & Hrc)%Hkeep Hx.
      destruct (entry_remove_conn_spec e c (inv_wf _ _ _ I _ _ He)) as (e'' & b & Hrc' & _ & _ & Hp' & _).
      rewrite Hrc in Hrc'. injection Hrc' as <- <-. rewrite Hp' in Hx. apply elem_of_drop_pending in Hx as [Hx Hxc].
      rewrite lookup_delete_ne by done. by apply (inv_pconn _ _ _ I t e).
    + intros t e' q0 (e & He & Hrc)%Hkeep Hq0.
      destruct (entry_remove_conn_spec e c (inv_wf _ _ _ I _ _ He)) as (e'' & b & Hrc' & _ & Hq' & _).
      rewrite Hrc in Hrc'. injection Hrc' as <- <-. rewrite Hq' in Hq0. unfold drop_queried in Hq0.
      destruct (e_queried e) as [q|] eqn:Hq; [|done].
      destruct (bool_decide_reflect (q_conn q = c)) as [|Hqc]; [done|]. injection Hq0 as <-.
      destruct (inv_q1 _ _ _ I _ _ _ He Hq) as [Hm _]. split; [done|].
      rewrite elem_of_list_to_set. intros (t1 & e1 & q1 & He1 & Hq1 & Hqc1 & Hs1)%HG.
      destruct (inv_q1 _ _ _ I _ _ _ He1 Hq1) as [Hm1 _]. rewrite Hs1 in Hm1.
      assert (t1 = t) as -> by congruence. assert (e1 = e) as -> by congruence. congruence.
    + intros sr t Hs. destruct (inv_q2 _ _ _ I _ _ Hs) as [?|(e & q & He & Hq & Hqs)]; [set_solver|].
      destruct (decide (q_conn q = c)) as [Hqc|Hqc].
      * left. rewrite elem_of_list_to_set. apply HG. exists t, e, q. done.
      * right. pose proof (inv_wf _ _ _ I _ _ He) as W.
        destruct (entry_remove_conn_spec e c W) as (e' & b & Hrc & _ & Hq' & _ & Hb & _).
        assert (b = true) as ->.
        { destruct b; [done|]. exfalso. apply Hqc. apply Hb; [done|]. by apply (wf_queried _ W q). }
        exists e', q. split; [apply Hkeep; eauto|]. split; [|done].
        rewrite Hq'. unfold drop_queried. rewrite Hq. by rewrite bool_decide_eq_false_2.
    + intros sr. rewrite elem_of_list_to_set. intros (t & e & q & He & Hq & Hqc & <-)%HG.
      destruct (inv_q1 _ _ _ I _ _ _ He Hq) as [Hm _]. eauto.
  - (* distinct serials: two entries never wait under the same serial *)
    apply NoDup_fmap_omap; [apply NoDup_map_to_list|].
    intros [t1 e1] [t2 e2] r1 r2 H1%elem_of_map_to_list H2%elem_of_map_to_list Hr1 Hr2 Heq.
    apply erc_result_Some in Hr1 as (_ & _ & q1 & _ & Hq1 & _ & _ & Hs1 & _); [|by apply (inv_wf _ _ _ I t1)].
    apply erc_result_Some in Hr2 as (_ & _ & q2 & _ & Hq2 & _ & _ & Hs2 & _); [|by apply (inv_wf _ _ _ I t2)].
    destruct (inv_q1 _ _ _ I _ _ _ H1 Hq1) as [Hm1 _]. destruct (inv_q1 _ _ _ I _ _ _ H2 Hq2) as [Hm2 _].
    rewrite <- Hs1, Heq, Hs2 in Hm1. assert (t1 = t2) as -> by congruence. f_equal. congruence.
  - (* distinct types among the Continue results *)
    assert (NoDup rs) as Hndrs.
    { eapply (NoDup_fmap_1 irc_serial). apply NoDup_fmap_omap; [apply NoDup_map_to_list|].
      intros [t1 e1] [t2 e2] r1 r2 H1%elem_of_map_to_list H2%elem_of_map_to_list Hr1 Hr2 Heq.
      apply erc_result_Some in Hr1 as (_ & _ & q1 & _ & Hq1 & _ & _ & Hs1 & _); [|by apply (inv_wf _ _ _ I t1)].
      apply erc_result_Some in Hr2 as (_ & _ & q2 & _ & Hq2 & _ & _ & Hs2 & _); [|by apply (inv_wf _ _ _ I t2)].
      destruct (inv_q1 _ _ _ I _ _ _ H1 Hq1) as [Hm1 _]. destruct (inv_q1 _ _ _ I _ _ _ H2 Hq2) as [Hm2 _].
      rewrite <- Hs1, Heq, Hs2 in Hm1. assert (t1 = t2) as -> by congruence. f_equal. congruence. }
    unfold cont_types. apply NoDup_omap_inj; [done|].
    intros r1 r2 t Hr1 Hr2 Ht1 Ht2. destruct r1 as [s1 t1|]; [|done]. destruct r2 as [s2 t2|]; [|done].
    injection Ht1 as ->. injection Ht2 as ->.
    apply Hrs in Hr1 as (ta & ea & Hea & Hra). apply Hrs in Hr2 as (tb & eb & Heb & Hrb).
    apply erc_result_Some in Hra as (ea' & ba & qa & _ & Hqa & _ & _ & _ & Ha1 & Ha2); [|by apply (inv_wf _ _ _ I ta)].
    apply erc_result_Some in Hrb as (eb' & bb & qb & _ & Hqb & _ & _ & _ & Hb1 & Hb2); [|by apply (inv_wf _ _ _ I tb)].
    destruct ba; [|by specialize (Ha2 eq_refl)]. destruct bb; [|by specialize (Hb2 eq_refl)].
    specialize (Ha1 eq_refl). specialize (Hb1 eq_refl). clear Ha2 Hb2.
    injection Ha1 as Hsa Hta. injection Hb1 as Hsb Htb. subst ta tb.
    assert (ea = eb) as -> by congruence. congruence.
Qed.

(* ================================================================ Broker::remove_introspection_conn *)
Lemma inv_del_G G L s sr :
  idb_inv_g G L s -> sr ∈ G -> idb_inv_g (G ∖ {[sr]}) L (s <| i_qmap := delete sr (i_qmap s) |>).
Proof.
  intros I HG. split; cbn.
  - apply (inv_wf _ _ _ I).
  - apply (inv_live _ _ _ I).
  - apply (inv_L _ _ _ I).
  - apply (inv_conn _ _ _ I).
  - apply (inv_pconn _ _ _ I).
  - intros t e q He Hq. destruct (inv_q1 _ _ _ I _ _ _ He Hq) as [Hm HnG]. split; [|set_solver].
    rewrite lookup_delete_ne; [done|]. intros Heq. apply HnG. by rewrite <- Heq.
  - intros s0 t [Hne Hs]%lookup_delete_Some. destruct (inv_q2 _ _ _ I _ _ Hs) as [?|?]; [left; set_solver|by right].
  - intros s0 [H0 Hne]%elem_of_difference. rewrite lookup_delete_ne by set_solver. by apply (inv_G _ _ _ I).
Qed.

Lemma inv_L_drop_absent G L s t :
  idb_inv_g G L s -> i_entries s !! t = None -> idb_inv_g G (L ∖ {[t]}) s.
Proof.
  intros I Hn. split.
  - apply (inv_wf _ _ _ I).
  - intros t0 e He HnL. apply (inv_live _ _ _ I _ _ He). intros HL. apply HnL.
    apply elem_of_difference. split; [done|]. intros ->%elem_of_singleton. congruence.
  - intros t0 e He HL. apply (inv_L _ _ _ I _ _ He). set_solver.
  - apply (inv_conn _ _ _ I).
  - apply (inv_pconn _ _ _ I).
  - apply (inv_q1 _ _ _ I).
  - apply (inv_q2 _ _ _ I).
  - apply (inv_G _ _ _ I).
Qed.

Lemma idb_inv_g_eq G G' L L' s : G = G' -> L = L' -> idb_inv_g G L s -> idb_inv_g G' L' s.
Proof. by intros -> ->. Qed.

Lemma iremove_result_ok m r rs :
  pend_ok (r :: rs) (ims m) ->
  oresd (fun m' => pend_ok rs (ims m') /\ frame m m') (iremove_result m r).
Proof.
  intros [I Hnds Hndt]. unfold iremove_result, frame.
  cbn [fmap list_fmap] in Hnds, I. apply NoDup_cons in Hnds as [Hsr Hnds].
  assert (irc_serial r ∈ (list_to_set (irc_serial r :: (irc_serial <$> rs)) : gset N)) as HinG by set_solver.
  destruct (inv_G _ _ _ I _ HinG) as [t0 Hqm]. rewrite Hqm.
  pose proof (inv_del_G _ _ _ _ I HinG) as I1.
  assert ((list_to_set (irc_serial r :: (irc_serial <$> rs)) : gset N) ∖ {[irc_serial r]} = list_to_set (irc_serial <$> rs)) as HGeq.
  { apply leibniz_equiv. intros x. rewrite elem_of_difference, !elem_of_list_to_set, elem_of_cons, elem_of_singleton.
    split; [tauto|]. intros Hx. split; [by right|]. intros ->. done. }
  rewrite HGeq in I1. clear HGeq HinG.
  set (m1 := m <| ims; i_qmap ::= delete (irc_serial r) |>).
  change (idb_inv_g (list_to_set (irc_serial <$> rs)) (list_to_set (cont_types (r :: rs))) (ims m1)) in I1.
  assert (i_conns (ims m1) = i_conns (ims m) /\ i_idle (ims m1) = i_idle (ims m)) as [Hc1 Hi1] by done.
  clearbody m1.
  destruct r as [sr t|sr pend]; cbn [irc_serial] in *.
  - (* Continue *)
    cbn [cont_types omap list_omap] in Hndt, I1. fold (cont_types rs) in Hndt, I1.
    apply NoDup_cons in Hndt as [Ht Hndt].
    assert ((list_to_set (t :: cont_types rs) : gset itid) ∖ {[t]} = list_to_set (cont_types rs)) as HLeq.
    { apply leibniz_equiv. intros x. rewrite elem_of_difference, !elem_of_list_to_set, elem_of_cons, elem_of_singleton.
      split; [tauto|]. intros Hx. split; [by right|]. intros ->. done. }
    destruct (i_entries (ims m1) !! t) as [e|] eqn:Ee.
    + eapply oresd_mono; [|apply (ask_ok 141 m1 t e _ _ I1); [set_solver|done]].
      intros m' (I' & Hc' & Hi'). split; [|by rewrite Hc', Hi'].
      split; [|done..]. rewrite HLeq in I'. done.
    + cbn. split; [|done]. split; [|done..]. rewrite <- HLeq. by apply inv_L_drop_absent.
  - (* Unavailable *)
    cbn [cont_types omap list_omap] in Hndt, I1. fold (cont_types rs) in Hndt, I1.
    eapply oresd_mono; [|apply (answer_ok None None pend m1); by left].
    intros m' [-> _]. split; [|done]. split; [|done..]. exact I1.
Qed.

Lemma iremove_fold_ok rs : forall m,
  pend_ok rs (ims m) -> oresd (fun m' => idb_inv (ims m') /\ frame m m') (ifoldO iremove_result rs m).
Proof.
  induction rs as [|r rs IH]; intros m P.
  - cbn. split; [|done]. destruct P as [I _ _]. exact I.
  - cbn. pose proof (iremove_result_ok m r rs P) as H. destruct (iremove_result m r) as [m'| | |]; try done.
    destruct H as [P' [Hc Hi]]. eapply oresd_mono; [|apply IH, P'].
    intros m'' [I'' [Hc'' Hi'']]. split; [done|]. split; congruence.
Qed.

(* Broker::shutdown_connection: the invariant survives, the connection is gone, no other is *)
Lemma ishutdown_conn_ok m c sd :
  idb_inv (ims m) ->
  oresd (fun m' => idb_inv (ims m') /\ i_conns (ims m') = delete c (i_conns (ims m)) /\
                   i_idle (ims m') = i_idle (ims m)) (ishutdown_conn m c sd).
Proof.
  intros I. unfold ishutdown_conn. destruct (i_conns (ims m) !! c) as [ci|] eqn:Ec.
  2:{ cbn. split; [done|]. split; [|done]. by rewrite delete_notin. }
  set (m0 := m <| ims; i_conns ::= delete c |>).
  set (m1 := if sd && ci_alive ci then iemit m0 c IShutdown else m0).
  assert (ims m1 = ims m <| i_conns := delete c (i_conns (ims m)) |>) as Hm1.
  { unfold m1. by destruct (sd && ci_alive ci). }
  unfold iremove_introspection_conn. rewrite Hm1. cbn [i_entries set].
  destruct (db_remove_conn_ok (ims m) c I) as (ents' & rs & -> & P).
  set (m2 := m1 <| ims; i_entries := ents' |>).
  assert (pend_ok rs (ims m2)) as P2.
  { unfold m2. cbn. rewrite Hm1. exact P. }
  eapply oresd_mono; [|apply (iremove_fold_ok rs m2 P2)].
  intros m' [I' [Hc' Hi']]. split; [done|]. rewrite Hc', Hi'. unfold m2. cbn. rewrite Hm1. done.
Qed.

(* ================================================================ the work loop and one step *)
Definition settled (m m' : IM) : Prop :=
  idb_inv (ims m') /\ (forall c, i_conns (ims m) !! c = None -> i_conns (ims m') !! c = None) /\
  i_idle (ims m') = i_idle (ims m) /\ imq m' = [].

Lemma isettle_S fuel m :
  isettle (S fuel) m =
  match imq m with
  | [] => IDone m
  | (c, sd) :: rest =>
      match ishutdown_conn (m <| imq := rest |>) c sd with
      | IDone m' | IFail m' => isettle fuel m'
      | IPanic s => IPanic s
      | IHalt h => IHalt h
      end
  end.
Proof. reflexivity. Qed.
Lemma isettle_0 m : isettle 0 m = match imq m with [] => IDone m | _ :: _ => IHalt NoFuel end.
Proof. cbn. by destruct (imq m) as [|[??]?]. Qed.

Lemma isettle_ok fuel : forall m,
  idb_inv (ims m) -> oresd (settled m) (isettle fuel m).
Proof.
  induction fuel as [|fuel IH]; intros m I.
  - rewrite isettle_0. destruct (imq m) as [|[c sd] rest] eqn:Eq; [|done]. cbn. done.
  - rewrite isettle_S. destruct (imq m) as [|[c sd] rest] eqn:Eq; [cbn; done|].
    match goal with |- context [ishutdown_conn ?a c sd] =>
      pose proof (ishutdown_conn_ok a c sd I) as H; destruct (ishutdown_conn a c sd) as [m'| | |] end; try done.
    unfold oresd in H. destruct H as (I' & Hc' & Hi').
    eapply oresd_mono; [|apply IH, I']. intros m'' (I'' & Hn'' & Hi'' & Hq''). split; [done|]. split; [|split; [by rewrite Hi'', Hi'|done]].
    intros c0 Hc0. apply Hn''. rewrite Hc'. cbn. by apply lookup_delete_None; right.
Qed.

Lemma isettle_head fuel m c sd rest m' :
  idb_inv (ims m) -> imq m = (c, sd) :: rest -> isettle fuel m = IDone m' -> i_conns (ims m') !! c = None.
Proof.
  intros I Eq. destruct fuel as [|fuel]; [rewrite isettle_0, Eq; done|]. rewrite isettle_S, Eq.
  match goal with |- context [ishutdown_conn ?a c sd] =>
    pose proof (ishutdown_conn_ok a c sd I) as H; destruct (ishutdown_conn a c sd) as [m1| | |] end; try done.
  unfold oresd in H. destruct H as (I1 & Hc1 & _).
  intros Hs. pose proof (isettle_ok fuel m1 I1) as H2. rewrite Hs in H2. destruct H2 as (_ & Hn & _).
  apply Hn. rewrite Hc1. apply lookup_delete.
Qed.

(* the machine right after the event-specific part of a step *)
Definition ihandled (s : istate) (e : ievent) (ch : list N) : ioutcome IM :=
  let m0 := {| ims := s; imq := []; imo := []; imc := ch |} in
  let fail_to (c : iconn) (r : ioutcome IM) : ioutcome IM :=
    match r with IFail m => IDone (ipush_remove m c false) | o => o end in
  match e with
  | INew c ver =>
      match i_conns s !! c with
      | Some _ => IPanic 150
      | None => IDone (m0 <| ims; i_conns ::= <[c := {| ci_ver := ver; ci_alive := true |}]> |>)
      end
  | IConnShutdown c => IDone (ipush_remove m0 c false)
  | IShutdownConn c => IDone (ipush_remove m0 c true)
  | IDropTask c =>
      IDone (match i_conns s !! c with
             | Some ci => m0 <| ims; i_conns ::= <[c := ci <| ci_alive := false |>]> |>
             | None => m0
             end)
  | IRegister c ts => fail_to c (db_register m0 c ts)
  | IQueryMsg c serial t => fail_to c (db_query m0 c serial t)
  | IReplyMsg c serial r => fail_to c (db_reply m0 c serial r)
  | IShutdownIdle => IDone (m0 <| ims; i_idle := true |>)
  end.

Lemma istep_eq s e ch :
  istep s e ch =
  match ihandled s e ch with
  | IDone m | IFail m =>
      match isettle (ifuel_for m) m with
      | IDone m' | IFail m' => IDone (ims m', imo m')
      | IPanic site => IPanic site
      | IHalt h => IHalt h
      end
  | IPanic site => IPanic site
  | IHalt h => IHalt h
  end.
Proof. reflexivity. Qed.

(* updating the connection table without removing a key keeps the invariant *)
Lemma inv_conns_update s (cs' : gmap iconn icinfo) :
  idb_inv s -> (forall c, is_Some (i_conns s !! c) -> is_Some (cs' !! c)) -> idb_inv (s <| i_conns := cs' |>).
Proof.
  intros I H. split; cbn.
  - apply (inv_wf _ _ _ I).
  - apply (inv_live _ _ _ I).
  - apply (inv_L _ _ _ I).
  - intros t e c He Hc. apply H. by apply (inv_conn _ _ _ I t e).
  - intros t e q He Hq. apply H. by apply (inv_pconn _ _ _ I t e).
  - apply (inv_q1 _ _ _ I).
  - apply (inv_q2 _ _ _ I).
  - apply (inv_G _ _ _ I).
Qed.

Lemma ihandled_ok s e ch :
  idb_inv s -> ilegal s e -> oresd (fun m => idb_inv (ims m)) (ihandled s e ch).
Proof.
  intros I Hl. unfold ihandled.
  set (m0 := {| ims := s; imq := []; imo := []; imc := ch |}).
  assert (forall c r, ores (fun m => idb_inv (ims m)) r ->
            oresd (fun m => idb_inv (ims m)) (match r with IFail m => IDone (ipush_remove m c false) | o => o end)) as Hfail.
  { intros c [m| m | |]; cbn; done. }
  destruct e as [c ver|c|c|c|c ts|c serial t|c serial r|]; cbn in Hl.
  - rewrite Hl. cbn. destruct s as [cs es qm qn idl]. cbn in *.
    apply (inv_conns_update {| i_conns := cs; i_entries := es; i_qmap := qm; i_qnext := qn; i_idle := idl |}); [done|].
    cbn. intros c0 H0. destruct (decide (c0 = c)) as [->|Hne]; [by rewrite lookup_insert|by rewrite lookup_insert_ne].
  - done.
  - done.
  - cbn. destruct (i_conns s !! c) as [ci|] eqn:Ec; [|done]. cbn. destruct s as [cs es qm qn idl]. cbn in *.
    apply (inv_conns_update {| i_conns := cs; i_entries := es; i_qmap := qm; i_qnext := qn; i_idle := idl |}); [done|].
    cbn. intros c0 H0. destruct (decide (c0 = c)) as [->|Hne]; [by rewrite lookup_insert|by rewrite lookup_insert_ne].
  - apply Hfail. eapply ores_mono; [|apply (db_register_ok m0 c ts I)]. by intros m [? _].
  - apply Hfail. eapply ores_mono; [|apply (db_query_ok m0 c serial t I)]. by intros m [? _].
  - apply Hfail. eapply ores_mono; [|apply (db_reply_ok m0 c serial r I)]. by intros m [? _].
  - cbn. destruct I. split; done.
Qed.

Lemma istep_ok s e ch :
  idb_inv s -> ilegal s e ->
  match istep s e ch with
  | IDone (s', _) => idb_inv s'
  | IFail _ | IPanic _ => False
  | IHalt _ => True
  end.
Proof.
  intros I Hl. rewrite istep_eq. pose proof (ihandled_ok s e ch I Hl) as H.
  destruct (ihandled s e ch) as [m| | |]; try done. cbn in H.
  pose proof (isettle_ok (ifuel_for m) m H) as H2.
  destruct (isettle _ m) as [m'| | |]; try done. by destruct H2.
Qed.

(* ================================================================ theorems *)
Lemma idb_inv_reachable s : ireachable s -> idb_inv s.
Proof.
  induction 1 as [|s e ch s' o _ IH Hl Hs]; [apply idb_inv_init|].
  pose proof (istep_ok s e ch IH Hl) as H. by rewrite Hs in H.
Qed.

Lemma introdb_no_panic s e ch site : ireachable s -> ilegal s e -> istep s e ch <> IPanic site.
Proof.
  intros Hr Hl Hp. pose proof (istep_ok s e ch (idb_inv_reachable _ Hr) Hl) as H. by rewrite Hp in H.
Qed.

(* nothing references c *)
Definition idb_no_ref (c : iconn) (s : istate) : Prop :=
  i_conns s !! c = None /\
  forall t e, i_entries s !! t = Some e ->
    c ∉ e_ids e /\ e_idxs e !! c = None /\
    (forall q, e_queried e = Some q -> q_conn q <> c) /\
    (forall q, q ∈ e_pending e -> q_conn q <> c).

Lemma inv_no_ref s c : idb_inv s -> i_conns s !! c = None -> idb_no_ref c s.
Proof.
  intros I Hc. split; [done|]. intros t e He.
  pose proof (inv_wf _ _ _ I _ _ He) as W.
  assert (c ∉ e_ids e) as Hnin.
  { intros Hin. destruct (inv_conn _ _ _ I _ _ _ He Hin) as [? ?]. congruence. }
  split; [done|]. split; [by apply (wf_idx_None _ _ W)|]. split.
  - intros q Hq <-. apply Hnin. by apply (wf_queried _ W q).
  - intros q Hq <-. destruct (inv_pconn _ _ _ I _ _ _ He Hq) as [? ?]. congruence.
Qed.

Lemma introdb_release s c e ch s' o :
  ireachable s -> e = IConnShutdown c \/ e = IShutdownConn c ->
  istep s e ch = IDone (s', o) -> idb_no_ref c s'.
Proof.
  intros Hr He Hs. pose proof (idb_inv_reachable _ Hr) as I.
  assert (ilegal s e) as Hl by (destruct He as [-> | ->]; done).
  pose proof (istep_ok s e ch I Hl) as Hok. rewrite Hs in Hok.
  apply inv_no_ref; [done|].
  rewrite istep_eq in Hs.
  assert (exists sd, ihandled s e ch = IDone (ipush_remove {| ims := s; imq := []; imo := []; imc := ch |} c sd)) as [sd Hh]
    by (destruct He as [-> | ->]; cbn; eauto).
  rewrite Hh in Hs.
  set (m := ipush_remove {| ims := s; imq := []; imo := []; imc := ch |} c sd) in *.
  destruct (isettle (ifuel_for m) m) as [m'|m'| |] eqn:Es; try done.
  - injection Hs as <- _. eapply (isettle_head _ m c sd []); [done|done|exact Es].
  - pose proof (isettle_ok (ifuel_for m) m I) as H. by rewrite Es in H.
Qed.

Lemma introdb_empty s : ireachable s -> i_conns s = ∅ -> i_entries s = ∅ /\ i_qmap s = ∅.
Proof.
  intros Hr Hc. pose proof (idb_inv_reachable _ Hr) as I.
  assert (i_entries s = ∅) as He.
  { apply map_empty. intros t. destruct (i_entries s !! t) as [e|] eqn:E; [|done]. exfalso.
    pose proof (inv_wf _ _ _ I _ _ E) as W. destruct (e_ids e) as [|c l] eqn:El; [by apply (wf_nonempty _ W)|].
    destruct (inv_conn _ _ _ I _ _ c E) as [ci Hci]; [rewrite El; left|]. rewrite Hc, lookup_empty in Hci. done. }
  split; [done|]. apply map_empty. intros sr. destruct (i_qmap s !! sr) as [t|] eqn:E; [|done]. exfalso.
  destruct (inv_q2 _ _ _ I _ _ E) as [?|(e & q & H1 & _)]; [set_solver|]. rewrite He, lookup_empty in H1. done.
Qed.

(* ================================================================ outputs go to connected, live connections *)
(* what any part of a step may do: connections only disappear (their data never changes), outputs
   are appended, and every new output goes to a connection that is connected with a live receiver *)
Record mrel (m m' : IM) : Prop := {
  mr_conns : forall c ci, i_conns (ims m') !! c = Some ci -> i_conns (ims m) !! c = Some ci;
  mr_out : exists o, imo m' = imo m ++ o /\
             forall c x, (c, x) ∈ o -> exists ci, i_conns (ims m) !! c = Some ci /\ ci_alive ci = true }.

Lemma mrel_refl m : mrel m m.
Proof. split; [done|]. exists []. split; [by rewrite app_nil_r|]. intros c x Hx. by apply elem_of_nil in Hx. Qed.

Lemma mrel_trans m1 m2 m3 : mrel m1 m2 -> mrel m2 m3 -> mrel m1 m3.
Proof.
  intros [Hc1 (o1 & Ho1 & Hp1)] [Hc2 (o2 & Ho2 & Hp2)]. split; [auto|].
  exists (o1 ++ o2). split; [by rewrite Ho2, Ho1, app_assoc|].
  intros c x [Hx|Hx]%elem_of_app; [by apply (Hp1 c x)|]. destruct (Hp2 c x Hx) as (ci & Hci & Ha). eauto.
Qed.

(* same connection table, same outputs *)
Lemma mrel_silent m m' : i_conns (ims m') = i_conns (ims m) -> imo m' = imo m -> mrel m m'.
Proof.
  intros Hc Ho. split; [by rewrite Hc|]. exists []. split; [by rewrite Ho, app_nil_r|].
  intros c x Hx. by apply elem_of_nil in Hx.
Qed.

Lemma mrel_send m c ci x :
  i_conns (ims m) !! c = Some ci -> mrel m (isend_or_remove m c ci x).
Proof.
  intros Hc. unfold isend_or_remove. destruct (ci_alive ci) eqn:Ea; [|by apply mrel_silent].
  split; [done|]. exists [(c, x)]. split; [done|]. intros c0 x0 [= -> ->]%elem_of_list_singleton. eauto.
Qed.

Lemma ask_mrel site m t e m' : iask_provider site m t e = IDone m' -> mrel m m'.
Proof.
  unfold iask_provider. destruct (iq_insert (ims m) t) as [[sr s1]|] eqn:Eins; [|done].
  apply iq_insert_spec in Eins as (_ & _ & Hc1 & _ & _).
  repeat (match goal with |- context [if ?b then _ else _] => destruct b end; [done|]).
  destruct (imc m) as [|r rest]; [done|].
  destruct (entry_query_random_conn e sr r) as [[e' c]| | |]; try done.
  cbn. rewrite Hc1. destruct (i_conns (ims m) !! c) as [ci|] eqn:Ec; [|done]. intros [= <-].
  eapply mrel_trans; [|apply mrel_send; cbn; by rewrite Hc1].
  apply mrel_silent; cbn; [by rewrite Hc1|done].
Qed.

Lemma ifoldO_mrel {A} (f : IM -> A -> ioutcome IM) l : forall m m',
  (forall m x m', f m x = IDone m' -> mrel m m') -> ifoldO f l m = IDone m' -> mrel m m'.
Proof.
  induction l as [|x l IH]; intros m m' Hf; cbn.
  - intros [= <-]. apply mrel_refl.
  - destruct (f m x) as [m1| | |] eqn:E; try done. intros H. eapply mrel_trans; [by eapply Hf|by eapply IH].
Qed.

Lemma ianswer_mrel site r m q m' : ianswer site r m q = IDone m' -> mrel m m'.
Proof.
  unfold ianswer. destruct (i_conns (ims m) !! q_conn q) as [ci|] eqn:Ec.
  - intros [= <-]. by apply mrel_send.
  - destruct site; [done|]. intros [= <-]. apply mrel_refl.
Qed.

Lemma db_register_mrel m c ts m' : db_register m c ts = IDone m' \/ db_register m c ts = IFail m' -> mrel m m'.
Proof.
  unfold db_register. destruct (i_conns (ims m) !! c) as [ci|]; [|intros [[= <-]|[=]]; apply mrel_refl].
  destruct (ci_ver ci <? _); [intros [[=]|[= <-]]; apply mrel_refl|].
  destruct ts as [l|]; [|intros [[=]|[= <-]]; apply mrel_refl].
  intros [[= <-]|[=]]. by apply mrel_silent.
Qed.

Lemma db_query_mrel m c serial t m' : db_query m c serial t = IDone m' \/ db_query m c serial t = IFail m' -> mrel m m'.
Proof.
  unfold db_query. destruct (i_conns (ims m) !! c) as [ci|] eqn:Ec; [|intros [[= <-]|[=]]; apply mrel_refl].
  destruct (ci_ver ci <? _); [intros [[=]|[= <-]]; apply mrel_refl|].
  assert (forall x, ci_alive ci = true -> mrel m (iemit m c x)) as Hemit.
  { intros x Ha. split; [done|]. exists [(c, x)]. split; [done|]. intros c0 x0 [= -> ->]%elem_of_list_singleton. eauto. }
  destruct (i_entries (ims m) !! t) as [e|] eqn:Ee.
  2:{ destruct (ci_alive ci) eqn:Ea; intros [[= <-]|[= <-]]; auto using mrel_refl. }
  destruct (e_intro e) as [p|].
  { destruct (ci_alive ci) eqn:Ea; intros [[= <-]|[= <-]]; auto using mrel_refl. }
  cbn. destruct (e_queried e) as [q|]; cbn.
  - intros [[= <-]|[=]]. by apply mrel_silent.
  - intros [H|H].
    + eapply mrel_trans; [|by eapply ask_mrel]. by apply mrel_silent.
    + exfalso. revert H. unfold iask_provider. destruct (iq_insert _ _) as [[sr s1]|]; [|done].
      repeat (match goal with |- context [if ?b then _ else _] => destruct b end; [done|]).
      match goal with |- context [imc ?a] => destruct (imc a) as [|r rest] end; [done|].
      destruct (entry_query_random_conn _ sr r) as [[e' c0]| | |]; try done.
      match goal with |- context [i_conns ?a !! c0] => destruct (i_conns a !! c0) end; done.
Qed.

Lemma ask_never_fails site m t e m' : iask_provider site m t e <> IFail m'.
Proof.
  unfold iask_provider. destruct (iq_insert _ _) as [[sr s1]|]; [|done].
  repeat (match goal with |- context [if ?b then _ else _] => destruct b end; [done|]).
  destruct (imc m) as [|r rest]; [done|].
  destruct (entry_query_random_conn _ sr r) as [[e' c0]| | |]; try done.
  match goal with |- context [i_conns ?a !! c0] => destruct (i_conns a !! c0) end; done.
Qed.

Lemma ifoldO_never_fails {A} (f : IM -> A -> ioutcome IM) l : forall m m',
  (forall m x m', f m x <> IFail m') -> ifoldO f l m <> IFail m'.
Proof.
  induction l as [|x l IH]; intros m m' Hf; cbn; [done|].
  destruct (f m x) as [m1|m1| |] eqn:E; try done; [by apply IH|]. by destruct (Hf m x m1).
Qed.

Lemma ianswer_never_fails site r m q m' : ianswer site r m q <> IFail m'.
Proof. unfold ianswer. destruct (i_conns _ !! _); [done|]. by destruct site. Qed.

Lemma db_reply_mrel m c serial r m' : db_reply m c serial r = IDone m' \/ db_reply m c serial r = IFail m' -> mrel m m'.
Proof.
  unfold db_reply. destruct (i_conns (ims m) !! c) as [ci|] eqn:Ec; [|intros [[= <-]|[=]]; apply mrel_refl].
  destruct (ci_ver ci <? _); [intros [[=]|[= <-]]; apply mrel_refl|].
  destruct (i_qmap (ims m) !! serial) as [t|]; [|intros [[=]|[= <-]]; apply mrel_refl].
  destruct (i_entries (ims m) !! t) as [e|]; [|intros [[=]|[=]]].
  destruct (e_queried e) as [q|]; [|intros [[=]|[= <-]]; apply mrel_refl].
  destruct (negb (bool_decide (q_conn q = c))); [intros [[=]|[= <-]]; apply mrel_refl|].
  destruct (negb (bool_decide (q_serial q = serial))); [intros [[=]|[=]]|].
  destruct (bool_decide (is_Some (e_intro e))); [intros [[=]|[=]]|].
  destruct r as [p|].
  - match goal with |- context [if ?b then _ else _] => destruct b end; [intros [[=]|[=]]|].
    intros [H|H].
    + eapply mrel_trans; [|eapply ifoldO_mrel; [|exact H]; intros; by eapply ianswer_mrel]. by apply mrel_silent.
    + exfalso. revert H. apply ifoldO_never_fails. intros; apply ianswer_never_fails.
  - destruct (entry_remove_conn _ c) as [[e2 [|]]| | |]; [| |intros [[=]|[=]]..].
    + intros [H|H].
      * eapply mrel_trans; [|by eapply ask_mrel]. by apply mrel_silent.
      * by apply ask_never_fails in H.
    + intros [H|H].
      * eapply mrel_trans; [|eapply ifoldO_mrel; [|exact H]; intros; by eapply ianswer_mrel]. by apply mrel_silent.
      * exfalso. revert H. apply ifoldO_never_fails. intros; apply ianswer_never_fails.
Qed.

Lemma iremove_result_mrel m r m' : iremove_result m r = IDone m' -> mrel m m'.
Proof.
  unfold iremove_result. destruct (i_qmap (ims m) !! irc_serial r); [|done].
  destruct r as [sr t|sr pend].
  - destruct (i_entries _ !! t) as [e|].
    + intros H. eapply mrel_trans; [|by eapply ask_mrel]. by apply mrel_silent.
    + intros [= <-]. by apply mrel_silent.
  - intros H. eapply mrel_trans; [|eapply ifoldO_mrel; [|exact H]; intros; by eapply ianswer_mrel]. by apply mrel_silent.
Qed.

Lemma ishutdown_conn_mrel m c sd m' : ishutdown_conn m c sd = IDone m' -> mrel m m'.
Proof.
  unfold ishutdown_conn. destruct (i_conns (ims m) !! c) as [ci|] eqn:Ec; [|intros [= <-]; apply mrel_refl].
  set (m0 := m <| ims; i_conns ::= delete c |>).
  assert (mrel m (if sd && ci_alive ci then iemit m0 c IShutdown else m0)) as H1.
  { assert (forall c0 ci0, delete c (i_conns (ims m)) !! c0 = Some ci0 -> i_conns (ims m) !! c0 = Some ci0) as Hd
      by (intros c0 ci0 [_ ?]%lookup_delete_Some; done).
    destruct (sd && ci_alive ci) eqn:Eb.
    - apply andb_true_iff in Eb as [_ Ea]. split; [exact Hd|]. exists [(c, IShutdown)]. split; [done|].
      intros c0 x0 [= -> ->]%elem_of_list_singleton. eauto.
    - split; [exact Hd|]. exists []. split; [by rewrite app_nil_r|]. intros c0 x0 Hx. by apply elem_of_nil in Hx. }
  unfold iremove_introspection_conn.
  destruct (db_remove_conn _ c) as [[ents' rs]| | |]; try done.
  intros H. eapply mrel_trans; [exact H1|]. eapply mrel_trans; [|eapply ifoldO_mrel; [|exact H]; apply iremove_result_mrel].
  apply mrel_silent; [|done]. cbn. by destruct (sd && ci_alive ci).
Qed.

Lemma iremove_result_never_fails m r m' : iremove_result m r <> IFail m'.
Proof.
  unfold iremove_result. destruct (i_qmap (ims m) !! irc_serial r); [|done].
  destruct r as [sr t|sr pend].
  - destruct (i_entries _ !! t) as [e|]; [apply ask_never_fails|done].
  - apply ifoldO_never_fails. intros; apply ianswer_never_fails.
Qed.

Lemma ishutdown_conn_never_fails m c sd m' : ishutdown_conn m c sd <> IFail m'.
Proof.
  unfold ishutdown_conn. destruct (i_conns (ims m) !! c) as [ci|]; [|done].
  unfold iremove_introspection_conn. destruct (db_remove_conn _ c) as [[ents' rs]| | |]; try done.
  apply ifoldO_never_fails. intros; apply iremove_result_never_fails.
Qed.

Lemma isettle_mrel fuel : forall m m', isettle fuel m = IDone m' -> mrel m m'.
Proof.
  induction fuel as [|fuel IH]; intros m m'.
  - rewrite isettle_0. destruct (imq m); [|done]. intros [= <-]. apply mrel_refl.
  - rewrite isettle_S. destruct (imq m) as [|[c sd] rest] eqn:Eq; [intros [= <-]; apply mrel_refl|].
    match goal with |- context [ishutdown_conn ?a c sd] =>
      pose proof (ishutdown_conn_mrel a c sd) as H1; pose proof (ishutdown_conn_never_fails a c sd) as H2;
      destruct (ishutdown_conn a c sd) as [m1|m1| |] end; try done.
    + intros H. eapply mrel_trans; [|by apply IH]. eapply mrel_trans; [|by apply H1]. by apply mrel_silent.
    + by destruct (H2 m1).
Qed.

Lemma isettle_never_fails fuel : forall m m', isettle fuel m <> IFail m'.
Proof.
  induction fuel as [|fuel IH]; intros m m'.
  - rewrite isettle_0. by destruct (imq m).
  - rewrite isettle_S. destruct (imq m) as [|[c sd] rest]; [done|].
    match goal with |- context [ishutdown_conn ?a c sd] => destruct (ishutdown_conn a c sd) as [m1|m1| |] end; try done; apply IH.
Qed.

Lemma ihandled_mrel s e ch m :
  ihandled s e ch = IDone m ->
  (mrel {| ims := s; imq := []; imo := []; imc := ch |} m) \/ (imq m = [] /\ imo m = []).
Proof.
  unfold ihandled. set (m0 := {| ims := s; imq := []; imo := []; imc := ch |}).
  assert (forall c r, (forall m', r = IDone m' \/ r = IFail m' -> mrel m0 m') ->
            match r with IFail m => IDone (ipush_remove m c false) | o => o end = IDone m -> mrel m0 m) as Hfail.
  { intros c [m1|m1| |] Hr; try done; intros [= <-].
    - apply Hr. by left.
    - eapply mrel_trans; [apply Hr; by right|]. by apply mrel_silent. }
  destruct e as [c ver|c|c|c|c ts|c serial t|c serial r|].
  - destruct (i_conns s !! c); [done|]. intros [= <-]. by right.
  - intros [= <-]. left. by apply mrel_silent.
  - intros [= <-]. left. by apply mrel_silent.
  - intros [= <-]. right. by destruct (i_conns s !! c).
  - intros H. left. eapply Hfail; [|exact H]. apply db_register_mrel.
  - intros H. left. eapply Hfail; [|exact H]. apply db_query_mrel.
  - intros H. left. eapply Hfail; [|exact H]. apply db_reply_mrel.
  - intros [= <-]. by right.
Qed.

(* every message of a step goes to a connection that was connected, with a live receiver, when the
   step began: nothing is ever sent to a connection that has been removed *)
Lemma introdb_outputs_connected s e ch s' o :
  istep s e ch = IDone (s', o) ->
  forall c x, (c, x) ∈ o -> exists ci, i_conns s !! c = Some ci /\ ci_alive ci = true.
Proof.
  rewrite istep_eq. destruct (ihandled s e ch) as [m|m| |] eqn:Eh; try done.
  - destruct (isettle (ifuel_for m) m) as [m'|m'| |] eqn:Es; try done.
    + intros [= <- <-]. destruct (ihandled_mrel _ _ _ _ Eh) as [H|[Hq Ho]].
      * pose proof (mrel_trans _ _ _ H (isettle_mrel _ _ _ Es)) as [_ (o & Ho & Hp)]. cbn in Ho. subst o. exact Hp.
      * (* nothing queued and nothing sent: the loop does nothing *)
        destruct (ifuel_for m); [rewrite isettle_0 in Es|rewrite isettle_S in Es]; rewrite Hq in Es;
          injection Es as <-; rewrite Ho; intros c x Hx; by apply elem_of_nil in Hx.
    + by apply isettle_never_fails in Es.
  - (* the event-specific part never leaves an Err: handle_event turns it into a removal *)
    exfalso. revert Eh. unfold ihandled. destruct e; try done.
    + by destruct (i_conns s !! c).
    + by destruct (db_register _ _ _).
    + by destruct (db_query _ _ _ _).
    + by destruct (db_reply _ _ _ _).
Qed.

(* ================================================================ every query is accounted for *)
From stdpp Require Import gmultiset.

(* the serials under which connection r has queries in a pending list / in the whole database,
   and the serials of the QueryIntrospectionReply messages r gets in a list of outputs *)
Definition qms (r : iconn) (l : list iquery) : gmultiset N :=
  list_to_set_disj (q_serial <$> List.filter (fun q => bool_decide (q_conn q = r)) l).
Definition gsum {A} (g : A -> gmultiset N) (l : list A) : gmultiset N :=
  foldr (fun p acc => g p ⊎ acc) ∅ l.
Definition pend_of (s : istate) (r : iconn) : gmultiset N :=
  gsum (fun p : itid * ientry => qms r (e_pending p.2)) (map_to_list (i_entries s)).
Definition reply_serial (r : iconn) (p : iout) : option N :=
  match p.2 with IQueryReply sr _ => if bool_decide (p.1 = r) then Some sr else None | _ => None end.
Definition replies_to (r : iconn) (o : list iout) : gmultiset N := list_to_set_disj (omap (reply_serial r) o).

Ltac ms := apply gmultiset_eq; intros ?; rewrite ?multiplicity_disj_union, ?multiplicity_empty; lia.

Lemma gsum_nil {A} (g : A -> gmultiset N) : gsum g [] = ∅.
Proof. done. Qed.
Lemma gsum_cons {A} (g : A -> gmultiset N) x l : gsum g (x :: l) = g x ⊎ gsum g l.
Proof. done. Qed.
Lemma gsum_app {A} (g : A -> gmultiset N) l1 l2 : gsum g (l1 ++ l2) = gsum g l1 ⊎ gsum g l2.
Proof. induction l1 as [|x l1 IH]. - rewrite app_nil_l, gsum_nil. ms. - rewrite <- app_comm_cons, !gsum_cons, IH. ms. Qed.
Lemma gsum_perm {A} (g : A -> gmultiset N) l1 l2 : l1 ≡ₚ l2 -> gsum g l1 = gsum g l2.
Proof. induction 1 as [|x l l' _ IH|x y l|l l' l'' _ IH1 _ IH2].
 - done. - by rewrite !gsum_cons, IH. - rewrite !gsum_cons. ms. - congruence. Qed.
Lemma gsum_ext {A} (g h : A -> gmultiset N) l : (forall x, x ∈ l -> g x = h x) -> gsum g l = gsum h l.
Proof.
  induction l as [|x l IH]; intros H; [done|]. rewrite !gsum_cons, (H x) by left. rewrite IH; [done|]. intros y Hy. apply H. by right.
Qed.
Lemma gsum_split {A} (g h : A -> gmultiset N) l : gsum (fun x => g x ⊎ h x) l = gsum g l ⊎ gsum h l.
Proof. induction l as [|x l IH]; [rewrite !gsum_nil; ms|]. rewrite !gsum_cons, IH. ms. Qed.
Lemma gsum_omap {A B} (g : B -> gmultiset N) (f : A -> option B) l :
  gsum g (omap f l) = gsum (fun x => match f x with Some y => g y | None => ∅ end) l.
Proof. induction l as [|x l IH]; [done|]. rewrite gsum_cons. cbn [omap list_omap]. destruct (f x); rewrite ?gsum_cons, IH; [done|ms]. Qed.
Lemma gsum_empty {A} (g : A -> gmultiset N) l : (forall x, x ∈ l -> g x = ∅) -> gsum g l = ∅.
Proof. induction l as [|x l IH]; intros H; [done|]. rewrite gsum_cons, (H x) by left. rewrite IH; [ms|]. intros y Hy. apply H. by right. Qed.

Lemma qms_nil r : qms r [] = ∅.
Proof. done. Qed.
Lemma qms_app r l1 l2 : qms r (l1 ++ l2) = qms r l1 ⊎ qms r l2.
Proof. unfold qms. rewrite filter_app, fmap_app, list_to_set_disj_app. done. Qed.
Lemma qms_cons r q l : qms r (q :: l) = (if bool_decide (q_conn q = r) then {[+ q_serial q +]} else ∅) ⊎ qms r l.
Proof.
  change (q :: l) with ([q] ++ l). rewrite qms_app. f_equal. unfold qms. cbn [List.filter].
  destruct (bool_decide (q_conn q = r)); [|done]. cbn [fmap list_fmap].
  rewrite list_to_set_disj_cons, list_to_set_disj_nil. apply (right_id_L ∅ (⊎)).
Qed.
Lemma qms_drop r c l : c <> r -> qms r (List.filter (fun p => negb (bool_decide (q_conn p = c))) l) = qms r l.
Proof.
  intros Hne. induction l as [|q l IH]; [done|]. cbn [List.filter].
  destruct (bool_decide_reflect (q_conn q = c)) as [Hc|Hc]; cbn [negb].
  - rewrite IH, qms_cons. rewrite bool_decide_eq_false_2 by congruence. ms.
  - rewrite !qms_cons, IH. done.
Qed.

(* the database sum under updates of the entry map *)
Section pm.
  Context (r : iconn).
  Let g := fun p : itid * ientry => qms r (e_pending p.2).
  Definition pm (ents : gmap itid ientry) : gmultiset N := gsum g (map_to_list ents).

  Lemma pm_empty : pm ∅ = ∅.
  Proof. unfold pm. by rewrite map_to_list_empty. Qed.
  Lemma pm_insert_fresh ents t e : ents !! t = None -> pm (<[t := e]> ents) = qms r (e_pending e) ⊎ pm ents.
  Proof. intros H. unfold pm. by rewrite (gsum_perm g _ _ (map_to_list_insert ents t e H)). Qed.
  Lemma pm_delete ents t e : ents !! t = Some e -> pm ents = qms r (e_pending e) ⊎ pm (delete t ents).
  Proof. intros H. unfold pm. by rewrite <- (gsum_perm g _ _ (map_to_list_delete ents t e H)). Qed.
  Lemma pm_insert ents t e e' :
    ents !! t = Some e -> pm (<[t := e']> ents) ⊎ qms r (e_pending e) = pm ents ⊎ qms r (e_pending e').
  Proof.
    intros H. rewrite <- (insert_delete_insert ents), pm_insert_fresh by apply lookup_delete.
    rewrite (pm_delete ents t e H). ms.
  Qed.
  Lemma pm_insert_same ents t e e' :
    ents !! t = Some e -> qms r (e_pending e') = qms r (e_pending e) -> pm (<[t := e']> ents) = pm ents.
  Proof. intros H Hq. pose proof (pm_insert ents t e e' H) as Hp. rewrite Hq in Hp. multiset_solver. Qed.
  Lemma pm_omap (f : ientry -> option ientry) ents :
    pm (omap f ents) = gsum (fun p : itid * ientry => match f p.2 with Some e' => qms r (e_pending e') | None => ∅ end) (map_to_list ents).
  Proof.
    induction ents as [|t e ents Hn IH] using map_ind.
    - by rewrite omap_empty, pm_empty, map_to_list_empty.
    - rewrite (gsum_perm _ _ _ (map_to_list_insert ents t e Hn)), gsum_cons. cbn [snd]. rewrite <- IH.
      destruct (f e) as [e'|] eqn:Ef.
      + rewrite (omap_insert_Some f ents t e e' Ef). apply pm_insert_fresh. by rewrite lookup_omap, Hn.
      + rewrite (omap_insert_None f ents t e Ef), delete_notin by (by rewrite lookup_omap, Hn). ms.
  Qed.
End pm.

Lemma pend_of_pm s r : pend_of s r = pm r (i_entries s).
Proof. done. Qed.

Lemma replies_to_app r o1 o2 : replies_to r (o1 ++ o2) = replies_to r o1 ⊎ replies_to r o2.
Proof. unfold replies_to. by rewrite omap_app, list_to_set_disj_app. Qed.

(* ---- the account of connection r inside a step: what is pending for it plus what it was sent *)
Definition live (r : iconn) (m : IM) : Prop :=
  exists ci, i_conns (ims m) !! r = Some ci /\ ci_alive ci = true.
Definition acct (r : iconn) (m : IM) : gmultiset N := pm r (i_entries (ims m)) ⊎ replies_to r (imo m).

Lemma live_back r m m' : mrel m m' -> live r m' -> live r m.
Proof. intros [Hc _] (ci & Hci & Ha). exists ci. auto. Qed.

Definition reply_ms (x : imsg) : gmultiset N := match x with IQueryReply sr _ => {[+ sr +]} | _ => ∅ end.

Lemma replies_to_snoc r o c x :
  replies_to r (o ++ [(c, x)]) = replies_to r o ⊎ (if bool_decide (c = r) then reply_ms x else ∅).
Proof.
  rewrite replies_to_app. f_equal. unfold replies_to, reply_serial. cbn [omap list_omap snd fst].
  destruct x as [sr t|sr p|]; cbn [reply_ms]; try (by destruct (bool_decide (c = r))).
  destruct (bool_decide (c = r)); [|done]. cbn [omap list_omap].
  rewrite list_to_set_disj_cons, list_to_set_disj_nil. apply (right_id_L ∅ (⊎)).
Qed.

Lemma send_acct r m c ci x :
  (c = r -> ci_alive ci = true) ->
  ims (isend_or_remove m c ci x) = ims m /\
  replies_to r (imo (isend_or_remove m c ci x)) =
    replies_to r (imo m) ⊎ (if bool_decide (c = r) then reply_ms x else ∅).
Proof.
  intros Ha. unfold isend_or_remove. destruct (ci_alive ci) eqn:Ea.
  - split; [done|]. change (imo (iemit m c x)) with (imo m ++ [(c, x)]). apply replies_to_snoc.
  - split; [done|]. change (imo (ipush_remove m c false)) with (imo m).
    rewrite bool_decide_eq_false_2; [ms|]. intros ->. by specialize (Ha eq_refl).
Qed.

Lemma answers_acct r site res l : forall m m',
  ifoldO (ianswer site res) l m = IDone m' -> live r m ->
  ims m' = ims m /\ replies_to r (imo m') = replies_to r (imo m) ⊎ qms r l.
Proof.
  induction l as [|q l IH]; intros m m'; cbn [ifoldO].
  - intros [= <-] _. split; [done|]. rewrite qms_nil. ms.
  - destruct (ianswer site res m q) as [m1| | |] eqn:E1; try done. intros H Hl.
    assert (ims m1 = ims m /\ replies_to r (imo m1) = replies_to r (imo m) ⊎
              (if bool_decide (q_conn q = r) then {[+ q_serial q +]} else ∅)) as [Hs1 Hr1].
    { revert E1. unfold ianswer. destruct (i_conns (ims m) !! q_conn q) as [ci|] eqn:Ec.
      - intros [= <-]. apply (send_acct r m (q_conn q) ci (IQueryReply (q_serial q) res)).
        intros Heq. destruct Hl as (ci' & Hci' & Ha'). rewrite Heq in Ec. congruence.
      - destruct site; [done|]. intros [= <-]. split; [done|].
        rewrite bool_decide_eq_false_2; [ms|]. intros Heq. destruct Hl as (ci' & Hci' & _). rewrite Heq in Ec. congruence. }
    destruct (IH m1 m' H) as [Hs Hr].
    { destruct Hl as (ci & Hci & Ha). exists ci. by rewrite Hs1. }
    split; [congruence|]. rewrite Hr, Hr1, qms_cons. ms.
Qed.

Lemma ask_acct2 r site m t e m' :
  iask_provider site m t e = IDone m' -> i_entries (ims m) !! t = Some e ->
  pm r (i_entries (ims m')) = pm r (i_entries (ims m)) /\ replies_to r (imo m') = replies_to r (imo m).
Proof.
  unfold iask_provider. destruct (iq_insert (ims m) t) as [[sr s1]|] eqn:Eins; [|done].
  apply iq_insert_spec in Eins as (_ & _ & Hc1 & He1 & _).
  repeat (match goal with |- context [if ?b then _ else _] => destruct b end; [done|]).
  destruct (imc m) as [|r0 rest]; [done|].
  destruct (entry_query_random_conn e sr r0) as [[e' c]| | |] eqn:Eq; try done.
  assert (e_pending e' = e_pending e) as Hp.
  { revert Eq. unfold entry_query_random_conn.
    repeat (match goal with |- context [if ?b then _ else _] => destruct b end; [done|]).
    destruct (e_ids e !! _); [|done]. by intros [= <- _]. }
  cbn. rewrite Hc1. destruct (i_conns (ims m) !! c) as [ci|] eqn:Ec; [|done]. intros [= <-] He.
  assert (forall x, ims (isend_or_remove x c ci (IQuery sr t)) = ims x /\
                    replies_to r (imo (isend_or_remove x c ci (IQuery sr t))) = replies_to r (imo x)) as Hs.
  { intros x. unfold isend_or_remove. destruct (ci_alive ci); [|done]. split; [done|].
    change (imo (iemit x c (IQuery sr t))) with (imo x ++ [(c, IQuery sr t)]).
    rewrite replies_to_snoc. cbn [reply_ms]. destruct (bool_decide (c = r)); ms. }
  destruct (Hs (m <| ims := s1 <| i_entries := <[t := e']> (i_entries s1) |> |> <| imc := rest |>)) as [-> ->].
  split; [|done]. cbn. rewrite He1. apply (pm_insert_same r _ t e e' He). by rewrite Hp.
Qed.

Lemma ask_acct r site m t e m' :
  iask_provider site m t e = IDone m' -> i_entries (ims m) !! t = Some e -> acct r m' = acct r m.
Proof. intros H He. destruct (ask_acct2 r _ _ _ _ _ H He) as [Hp Hr]. unfold acct. by rewrite Hp, Hr. Qed.

Lemma ms_cancel (X Y A B : gmultiset N) : X ⊎ A = Y ⊎ (A ⊎ B) -> X = Y ⊎ B.
Proof.
  intros H. apply gmultiset_eq. intros x. apply (f_equal (multiplicity x)) in H.
  rewrite !multiplicity_disj_union in *. lia.
Qed.
Lemma ms_cancel0 (X Y A : gmultiset N) : X ⊎ A = Y ⊎ ∅ -> Y = X ⊎ A.
Proof. intros H. rewrite H. ms. Qed.

(* ---- register: pending lists are untouched *)
Lemma reg_pm r ents t c :
  pm r (<[t := entry_register (default ientry0 (ents !! t)) c]> ents) = pm r ents.
Proof.
  destruct (ents !! t) as [e|] eqn:E;
    [change (default ientry0 (Some e)) with e|change (default ientry0 (@None ientry)) with ientry0].
  - apply (pm_insert_same r ents t e _ E). unfold entry_register. destruct (e_idxs e !! c); reflexivity.
  - rewrite pm_insert_fresh by done.
    assert (e_pending (entry_register ientry0 c) = []) as Hp
      by (unfold entry_register; cbn [e_idxs ientry0]; by rewrite lookup_empty).
    rewrite Hp, qms_nil. ms.
Qed.
Lemma reg_fold_pm r c l : forall ents,
  pm r (foldl (fun ents t => <[t := entry_register (default ientry0 (ents !! t)) c]> ents) ents l) = pm r ents.
Proof. induction l as [|t l IH]; intros ents; cbn [foldl]; [done|]. by rewrite IH, reg_pm. Qed.

Lemma db_register_acct r m c ts m' :
  db_register m c ts = IDone m' \/ db_register m c ts = IFail m' -> acct r m' = acct r m.
Proof.
  unfold db_register. destruct (i_conns (ims m) !! c) as [ci|]; [|by intros [[= <-]|[=]]].
  destruct (ci_ver ci <? _)%N; [by intros [[=]|[= <-]]|].
  destruct ts as [l|]; [|by intros [[=]|[= <-]]].
  intros [[= <-]|[=]]. unfold acct. cbn [ims imo set]. f_equal. cbn. apply reg_fold_pm.
Qed.

(* ---- query: the requester's serial enters the account (answered at once or pending) *)
Lemma db_query_acct r m c serial t m' :
  (db_query m c serial t = IDone m' -> live r m' ->
     acct r m' = acct r m ⊎ (if bool_decide (c = r) then {[+ serial +]} else ∅)) /\
  (db_query m c serial t = IFail m' -> acct r m' = acct r m).
Proof.
  unfold db_query. destruct (i_conns (ims m) !! c) as [ci|] eqn:Ec.
  2:{ split; [|done]. intros [= <-] (ci & Hci & _). rewrite bool_decide_eq_false_2; [ms|]. intros ->. congruence. }
  destruct (ci_ver ci <? _)%N; [split; [done|by intros [= <-]]|].
  assert (forall x, acct r (iemit m c (IQueryReply serial x)) =
                    acct r m ⊎ (if bool_decide (c = r) then {[+ serial +]} else ∅)) as Hemit.
  { intros x. unfold acct. change (imo (iemit m c (IQueryReply serial x))) with (imo m ++ [(c, IQueryReply serial x)]).
    change (ims (iemit m c (IQueryReply serial x))) with (ims m). rewrite replies_to_snoc. cbn [reply_ms]. ms. }
  destruct (i_entries (ims m) !! t) as [e|] eqn:Ee.
  2:{ destruct (ci_alive ci); (split; [|intros [= <-]; done]); [|done]. intros [= <-] _. apply Hemit. }
  destruct (e_intro e) as [p|].
  { destruct (ci_alive ci); (split; [|intros [= <-]; done]); [|done]. intros [= <-] _. apply Hemit. }
  set (e1 := e <| e_pending := e_pending e ++ [{| q_conn := c; q_serial := serial |}] |>).
  set (m1 := m <| ims; i_entries ::= <[t := e1]> |>).
  assert (acct r m1 = acct r m ⊎ (if bool_decide (c = r) then {[+ serial +]} else ∅)) as H1.
  { unfold acct, m1. cbn [ims imo set]. cbn.
    pose proof (pm_insert r (i_entries (ims m)) t e e1 Ee) as Hp.
    unfold e1 in Hp at 2. cbn [e_pending set] in Hp. rewrite qms_app, qms_cons, qms_nil in Hp. cbn [q_conn q_serial] in Hp.
    apply ms_cancel in Hp. rewrite Hp. ms. }
  cbn [e_queried set]. fold e1. fold m1.
  replace (e_queried e1) with (e_queried e) by done.
  destruct (e_queried e) as [q|].
  - split; [|done]. by intros [= <-] _.
  - split.
    + intros H _. rewrite <- H1. eapply ask_acct; [exact H|]. unfold m1. cbn. by rewrite lookup_insert.
    + intros H. by apply ask_never_fails in H.
Qed.

(* ---- reply: the answered requesters leave the pending lists and get their replies.  The one
        exception: a provider that answers Unavailable loses its OWN pending queries for that type
        (IntrospectionEntry::remove_conn filters them out; nobody answers them) *)
Lemma drop_pending_qms r e c : c <> r -> qms r (drop_pending e c) = qms r (e_pending e).
Proof. apply qms_drop. Qed.

Lemma db_reply_acct r m c serial res m' :
  (db_reply m c serial res = IDone m' -> live r m' -> (c = r -> res <> None) -> acct r m' = acct r m) /\
  (db_reply m c serial res = IFail m' -> acct r m' = acct r m).
Proof.
  unfold db_reply. destruct (i_conns (ims m) !! c) as [ci|] eqn:Ec; [|split; [by intros [= <-]|done]].
  destruct (ci_ver ci <? _)%N; [split; [done|by intros [= <-]]|].
  destruct (i_qmap (ims m) !! serial) as [t|]; [|split; [done|by intros [= <-]]].
  destruct (i_entries (ims m) !! t) as [e|] eqn:Ee; [|done].
  destruct (e_queried e) as [q|]; [|split; [done|by intros [= <-]]].
  destruct (negb (bool_decide (q_conn q = c))); [split; [done|by intros [= <-]]|].
  destruct (negb (bool_decide (q_serial q = serial))); [done|].
  destruct (bool_decide (is_Some (e_intro e))); [done|].
  set (e1 := e <| e_queried := None |>).
  destruct res as [p|].
  - (* Available *)
    match goal with |- context [if ?b then _ else _] => destruct b end; [done|].
    set (e2 := e1 <| e_pending := [] |> <| e_intro := Some p |>).
    set (m2 := m <| ims; i_qmap ::= delete serial |> <| ims; i_entries ::= <[t := e2]> |>).
    split.
    + intros H Hl _.
      assert (live r m2) as Hl2.
      { eapply live_back; [|exact Hl]. eapply ifoldO_mrel; [|exact H]. intros; by eapply ianswer_mrel. }
      destruct (answers_acct r _ _ _ _ _ H Hl2) as [Hs Hr]. unfold acct. rewrite Hs, Hr.
      change (imo m2) with (imo m). change (i_entries (ims m2)) with (<[t := e2]> (i_entries (ims m))).
      pose proof (pm_insert r (i_entries (ims m)) t e e2 Ee) as Hp.
      change (e_pending e2) with (@nil iquery) in Hp. rewrite qms_nil in Hp. apply ms_cancel0 in Hp.
      change (e_pending e1) with (e_pending e). rewrite Hp. ms.
    + intros H. exfalso. revert H. apply ifoldO_never_fails. intros; apply ianswer_never_fails.
  - (* Unavailable *)
    destruct (entry_remove_conn e1 c) as [[e2 b]| | |] eqn:Erc; try done.
    assert (e_pending e2 = drop_pending e c) as Hp2.
    { revert Erc. unfold entry_remove_conn, entry_remove_conn_g.
      set (e1' := match e_queried e1 with Some q0 => if bool_decide (q_conn q0 = c) then e1 <| e_queried := None |> else e1 | None => e1 end).
      assert (e1' = e1) as -> by done. cbn.
      destruct (e_idxs e !! c) as [idx|].
      - destruct (bool_decide (delete c (e_idxs e) = ∅)); [by intros [= <- _]|].
        destruct (swap_remove (e_ids e) idx) as [ids'|]; [|done].
        destruct (guard_rust idx (length ids')); [|by intros [= <- _]].
        destruct (ids' !! idx) as [c'|]; [|done]. destruct (delete c (e_idxs e) !! c'); [|done]. by intros [= <- _].
      - destruct (bool_decide (e_idxs e = ∅)); [done|]. destruct (bool_decide (e_ids e = [])); [done|]. by intros [= <- _]. }
    destruct b.
    + (* Continue *)
      set (m2 := m <| ims; i_qmap ::= delete serial |> <| ims; i_entries ::= <[t := e2]> |>).
      split; [|intros H; by apply ask_never_fails in H].
      intros H Hl Hex. assert (c <> r) as Hcr by (intros ->; by apply Hex).
      rewrite (ask_acct r _ _ _ _ _ H) by (unfold m2; cbn; by rewrite lookup_insert).
      unfold acct. change (imo m2) with (imo m). change (i_entries (ims m2)) with (<[t := e2]> (i_entries (ims m))).
      f_equal. apply (pm_insert_same r _ t e e2 Ee). rewrite Hp2. by apply drop_pending_qms.
    + (* nobody left to ask: everybody pending gets Unavailable *)
      set (m2 := m <| ims; i_qmap ::= delete serial |> <| ims; i_entries ::= delete t |>).
      split.
      * intros H Hl Hex. assert (c <> r) as Hcr by (intros ->; by apply Hex).
        assert (live r m2) as Hl2.
        { eapply live_back; [|exact Hl]. eapply ifoldO_mrel; [|exact H]. intros; by eapply ianswer_mrel. }
        destruct (answers_acct r _ _ _ _ _ H Hl2) as [Hs Hr]. unfold acct. rewrite Hs, Hr.
        change (imo m2) with (imo m). change (i_entries (ims m2)) with (delete t (i_entries (ims m))).
        rewrite (pm_delete r (i_entries (ims m)) t e Ee), Hp2, drop_pending_qms by done. ms.
      * intros H. exfalso. revert H. apply ifoldO_never_fails. intros; apply ianswer_never_fails.
Qed.

(* ---- removal of a connection other than r *)
Definition ucost (r : iconn) (rs : list irc_result) : gmultiset N :=
  gsum (fun res => match res with RUnavail _ p => qms r p | RCont _ _ => ∅ end) rs.

Lemma phase1_acct s c r ents' rs :
  idb_inv s -> c <> r -> db_remove_conn (i_entries s) c = IDone (ents', rs) ->
  pm r (i_entries s) = pm r ents' ⊎ ucost r rs.
Proof.
  intros I Hcr. unfold db_remove_conn. rewrite omap_nil_all.
  2:{ intros [t e] Hin. apply elem_of_map_to_list in Hin. unfold erc_panic. cbn.
      destruct (entry_remove_conn_spec e c (inv_wf _ _ _ I _ _ Hin)) as (e' & b & -> & _). done. }
  intros [= <- <-]. rewrite pm_omap. unfold ucost. rewrite gsum_omap, <- gsum_split. unfold pm.
  apply gsum_ext. intros [t e] Hin. apply elem_of_map_to_list in Hin. cbn [snd].
  pose proof (inv_wf _ _ _ I _ _ Hin) as W.
  destruct (entry_remove_conn_spec e c W) as (e' & b & Hrc & _ & Hq' & Hp' & Hb & _).
  unfold erc_keep, erc_result. cbn [snd fst]. rewrite Hrc.
  assert (qms r (e_pending e') = qms r (e_pending e)) as Hqe by (rewrite Hp'; by apply drop_pending_qms).
  destruct b.
  - (* retained: nothing is answered here *)
    rewrite Hqe. destruct (entry_queried e); [destruct (entry_queried e')|]; ms.
  - (* removed *)
    destruct (decide (e_pending e' = [])) as [Hnil|Hnn].
    { rewrite <- Hqe, Hnil, qms_nil. destruct (entry_queried e); [destruct (entry_queried e')|]; rewrite ?Hnil, ?qms_nil; ms. }
    assert (e_pending e <> []) as Hpe.
    { intros Hn. apply Hnn. rewrite Hp'. unfold drop_pending. by rewrite Hn. }
    destruct (inv_live _ _ _ I _ _ Hin ltac:(set_solver) Hpe) as [q Hq].
    assert (q_conn q = c) as Hqc by (apply Hb; [done|]; by apply (wf_queried _ W q)).
    unfold entry_queried. rewrite Hq, Hq'. unfold drop_queried. rewrite Hq, bool_decide_eq_true_2 by done. cbn [fmap option_fmap option_map].
    rewrite Hqe. ms.
Qed.

Lemma iremove_result_acct r m res m' :
  iremove_result m res = IDone m' -> live r m' ->
  pm r (i_entries (ims m')) = pm r (i_entries (ims m)) /\
  replies_to r (imo m') = replies_to r (imo m) ⊎ ucost r [res].
Proof.
  unfold iremove_result. destruct (i_qmap (ims m) !! irc_serial res); [|done].
  set (m1 := m <| ims; i_qmap ::= delete (irc_serial res) |>).
  unfold ucost. rewrite gsum_cons, gsum_nil.
  destruct res as [sr t|sr pend].
  - destruct (i_entries (ims m1) !! t) as [e|] eqn:Ee.
    + intros H _. destruct (ask_acct2 r _ _ _ _ _ H Ee) as [Hp Hr]. rewrite Hp, Hr.
      change (imo m1) with (imo m). split; [done|]. ms.
    + intros [= <-] _. split; [done|]. change (imo m1) with (imo m). ms.
  - intros H Hl.
    assert (live r m1) as Hl1.
    { eapply live_back; [|exact Hl]. eapply ifoldO_mrel; [|exact H]. intros; by eapply ianswer_mrel. }
    destruct (answers_acct r _ _ _ _ _ H Hl1) as [Hs Hr]. rewrite Hs, Hr. split; [done|].
    change (imo m1) with (imo m). ms.
Qed.

Lemma iremove_fold_acct r rs : forall m m',
  ifoldO iremove_result rs m = IDone m' -> live r m' ->
  pm r (i_entries (ims m')) = pm r (i_entries (ims m)) /\
  replies_to r (imo m') = replies_to r (imo m) ⊎ ucost r rs.
Proof.
  induction rs as [|res rs IH]; intros m m'; cbn [ifoldO].
  - intros [= <-] _. split; [done|]. unfold ucost. rewrite gsum_nil. ms.
  - destruct (iremove_result m res) as [m1| | |] eqn:E1; try done. intros H Hl.
    assert (live r m1) as Hl1.
    { eapply live_back; [|exact Hl]. eapply ifoldO_mrel; [|exact H]. apply iremove_result_mrel. }
    destruct (iremove_result_acct r _ _ _ E1 Hl1) as [Hp1 Hr1].
    destruct (IH _ _ H Hl) as [Hp Hr]. split; [congruence|].
    rewrite Hr, Hr1. unfold ucost. rewrite !gsum_cons, gsum_nil. ms.
Qed.

Lemma ishutdown_conn_acct r m c sd m' :
  idb_inv (ims m) -> ishutdown_conn m c sd = IDone m' -> live r m' -> acct r m' = acct r m.
Proof.
  intros I H Hl.
  destruct (i_conns (ims m) !! c) as [ci|] eqn:Ec.
  2:{ revert H. unfold ishutdown_conn. rewrite Ec. by intros [= <-]. }
  assert (c <> r) as Hcr.
  { intros ->. pose proof (ishutdown_conn_ok m r sd I) as Hok. rewrite H in Hok. destruct Hok as (_ & Hc' & _).
    destruct Hl as (ci' & Hci' & _). rewrite Hc', lookup_delete in Hci'. done. }
  revert H. unfold ishutdown_conn. rewrite Ec.
  set (m0 := m <| ims; i_conns ::= delete c |>).
  set (m1 := if sd && ci_alive ci then iemit m0 c IShutdown else m0).
  assert (i_entries (ims m1) = i_entries (ims m) /\ replies_to r (imo m1) = replies_to r (imo m)) as [He1 Hr1].
  { unfold m1. destruct (sd && ci_alive ci); [|done]. split; [done|].
    change (imo (iemit m0 c IShutdown)) with (imo m ++ [(c, IShutdown)]). rewrite replies_to_snoc. cbn [reply_ms].
    destruct (bool_decide (c = r)); ms. }
  unfold iremove_introspection_conn. rewrite He1.
  destruct (db_remove_conn (i_entries (ims m)) c) as [[ents' rs]| | |] eqn:Erc; try done.
  intros H. pose proof (phase1_acct _ _ r _ _ I Hcr Erc) as Hp1.
  destruct (iremove_fold_acct r rs _ _ H Hl) as [Hp Hr].
  unfold acct. rewrite Hp, Hr. cbn [ims imo i_entries set]. cbn. rewrite Hr1, Hp1. ms.
Qed.

Lemma isettle_acct r fuel : forall m m',
  idb_inv (ims m) -> isettle fuel m = IDone m' -> live r m' -> acct r m' = acct r m.
Proof.
  induction fuel as [|fuel IH]; intros m m' I.
  - rewrite isettle_0. destruct (imq m); [|done]. by intros [= <-].
  - rewrite isettle_S. destruct (imq m) as [|[c sd] rest] eqn:Eq; [by intros [= <-]|].
    match goal with |- context [ishutdown_conn ?a c sd] =>
      pose proof (ishutdown_conn_ok a c sd I) as Hok; pose proof (ishutdown_conn_acct r a c sd) as Hacct;
      pose proof (ishutdown_conn_never_fails a c sd) as Hnf;
      destruct (ishutdown_conn a c sd) as [m1|m1| |] eqn:E1 end; try done.
    destruct Hok as (I1 & _). intros H Hl.
    rewrite (IH _ _ I1 H Hl). rewrite (Hacct m1 I eq_refl); [done|].
    eapply live_back; [|exact Hl]. by eapply isettle_mrel.
Qed.

(* the serial a step adds to r's account: r sent a QueryIntrospection *)
Definition asked (e : ievent) (r : iconn) : gmultiset N :=
  match e with IQueryMsg c serial _ => if bool_decide (c = r) then {[+ serial +]} else ∅ | _ => ∅ end.

Lemma replies_to_nil r : replies_to r [] = ∅.
Proof. done. Qed.

Lemma introdb_query_answered s e ch s' o r ci :
  ireachable s -> ilegal s e -> istep s e ch = IDone (s', o) ->
  i_conns s' !! r = Some ci -> ci_alive ci = true ->
  (forall sr, e <> IReplyMsg r sr None) ->
  pend_of s' r ⊎ replies_to r o = pend_of s r ⊎ asked e r.
Proof.
  intros Hr Hl Hs Hci Ha Hex. pose proof (idb_inv_reachable _ Hr) as I.
  rewrite istep_eq in Hs. pose proof (ihandled_ok s e ch I Hl) as Hok.
  destruct (ihandled s e ch) as [m| | |] eqn:Eh; try done. cbn in Hok.
  destruct (isettle (ifuel_for m) m) as [m'|m'| |] eqn:Es; try done; [|by apply isettle_never_fails in Es].
  injection Hs as <- <-.
  assert (live r m') as Hlive by (exists ci; done).
  assert (live r m) as Hlm by (eapply live_back; [by eapply isettle_mrel|done]).
  pose proof (isettle_acct r _ _ _ Hok Es Hlive) as Hacct. unfold acct in Hacct at 1. rewrite <- pend_of_pm in Hacct.
  rewrite Hacct. clear Hacct.
  set (m0 := {| ims := s; imq := []; imo := []; imc := ch |}) in *.
  assert (acct r m0 = pend_of s r ⊎ ∅) as H0 by (unfold acct; cbn [ims imo m0]; by rewrite replies_to_nil).
  assert (forall c m1, acct r (ipush_remove m1 c false) = acct r m1) as Hpush by done.
  revert Eh. unfold ihandled. fold m0.
  destruct e as [c ver|c|c|c|c ts|c serial t|c serial res|]; cbn [asked].
  - destruct (i_conns s !! c); [done|]. intros [= <-]. rewrite <- H0. done.
  - intros [= <-]. rewrite <- H0. done.
  - intros [= <-]. rewrite <- H0. done.
  - intros [= <-]. rewrite <- H0. by destruct (i_conns s !! c).
  - destruct (db_register m0 c ts) as [m1|m1| |] eqn:E1; try done; intros [= <-]; rewrite ?Hpush, <- H0;
      apply (db_register_acct r m0 c ts m1); auto.
  - destruct (db_query m0 c serial t) as [m1|m1| |] eqn:E1; try done; intros [= <-].
    + destruct (db_query_acct r m0 c serial t m1) as [Hd _]. rewrite (Hd E1 Hlm). rewrite H0. ms.
    + (* the request was refused: the sender is removed, so it is not r *)
      destruct (db_query_acct r m0 c serial t m1) as [_ Hf]. rewrite Hpush, (Hf E1), H0.
      rewrite bool_decide_eq_false_2; [done|]. intros ->.
      assert (i_conns (ims m') !! r = None) as Hn.
      { eapply (isettle_head _ (ipush_remove m1 r false) r false (imq m1)); [exact Hok|done|exact Es]. }
      congruence.
  - destruct (db_reply m0 c serial res) as [m1|m1| |] eqn:E1; try done; intros [= <-].
    + destruct (db_reply_acct r m0 c serial res m1) as [Hd _].
      rewrite (Hd E1 Hlm); [by rewrite H0|]. intros -> ->. by destruct (Hex serial).
    + destruct (db_reply_acct r m0 c serial res m1) as [_ Hf]. by rewrite Hpush, (Hf E1), H0.
  - intros [= <-]. rewrite <- H0. done.
Qed.

(* the exception is real: a provider that is asked, answers Unavailable and has itself a query for
   that type pending never gets a reply for it *)
Local Open Scope N_scope.
Definition self_unavail_history : list (ievent * list N) :=
  [(INew 1 17, []); (IRegister 1 (Some [5]), []); (IQueryMsg 1 0 5, [0]); (IReplyMsg 1 0 None, [])].
Definition irun (h : list (ievent * list N)) : option (istate * list (list iout)) :=
  foldl (fun acc p => match acc with
                      | Some (s, os) => match istep s p.1 p.2 with IDone (s', o) => Some (s', os ++ [o]) | _ => None end
                      | None => None end) (Some (iinit, [])) h.
Lemma self_unavail_drops_query :
  exists s os, irun self_unavail_history = Some (s, os) /\
    os = [[]; []; [(1, IQuery 0 5)]; []] /\ size (i_entries s) = 0%nat /\ is_Some (i_conns s !! 1).
Proof. vm_compute. eexists _, _. split; [reflexivity|]. split; [reflexivity|]. split; [reflexivity|]. eauto. Qed.

(* ================================================================ the work loop's fuel suffices *)
Local Open Scope nat_scope.
Definition nsum {A} (g : A -> nat) (l : list A) : nat := foldr (fun p acc => g p + acc) 0 l.
Lemma nsum_cons {A} (g : A -> nat) x l : nsum g (x :: l) = g x + nsum g l.
Proof. done. Qed.
Lemma nsum_perm {A} (g : A -> nat) l1 l2 : l1 ≡ₚ l2 -> nsum g l1 = nsum g l2.
Proof.
  induction 1 as [|x l l' _ IH|x y l|l l' l'' _ IH1 _ IH2]; [done| | |congruence].
  - by rewrite !nsum_cons, IH.
  - rewrite !nsum_cons. lia.
Qed.
Lemma nsum_le {A} (g h : A -> nat) l : (forall x, x ∈ l -> g x <= h x) -> nsum g l <= nsum h l.
Proof.
  induction l as [|x l IH]; intros H; [done|]. rewrite !nsum_cons. pose proof (H x ltac:(left)).
  assert (nsum g l <= nsum h l) by (apply IH; intros y Hy; apply H; by right). lia.
Qed.
Lemma nsum_omap {A B} (g : B -> nat) (f : A -> option B) l :
  nsum g (omap f l) = nsum (fun x => match f x with Some y => g y | None => 0 end) l.
Proof. induction l as [|x l IH]; [done|]. rewrite nsum_cons. cbn [omap list_omap]. destruct (f x); rewrite ?nsum_cons; lia. Qed.

Definition eload (p : itid * ientry) : nat := S (length (e_pending p.2)).
Definition lload (ents : gmap itid ientry) : nat := nsum eload (map_to_list ents).
Lemma iload_lload s : iload s = lload (i_entries s).
Proof.
  unfold iload, lload, map_fold. cbn. induction (map_to_list (i_entries s)) as [|[t e] l IH]; [done|].
  cbn. rewrite IH. done.
Qed.
Lemma lload_insert_fresh ents t e : ents !! t = None -> lload (<[t := e]> ents) = S (length (e_pending e)) + lload ents.
Proof. intros H. unfold lload. by rewrite (nsum_perm eload _ _ (map_to_list_insert ents t e H)). Qed.
Lemma lload_delete ents t e : ents !! t = Some e -> lload ents = S (length (e_pending e)) + lload (delete t ents).
Proof. intros H. unfold lload. by rewrite <- (nsum_perm eload _ _ (map_to_list_delete ents t e H)). Qed.
Lemma lload_insert ents t e e' :
  ents !! t = Some e -> lload (<[t := e']> ents) + length (e_pending e) = lload ents + length (e_pending e').
Proof.
  intros H. rewrite <- (insert_delete_insert ents), lload_insert_fresh by apply lookup_delete.
  rewrite (lload_delete ents t e H). lia.
Qed.
Lemma lload_omap (f : ientry -> option ientry) ents :
  lload (omap f ents) = nsum (fun p : itid * ientry => match f p.2 with Some e' => S (length (e_pending e')) | None => 0 end) (map_to_list ents).
Proof.
  induction ents as [|t e ents Hn IH] using map_ind.
  - by rewrite omap_empty, map_to_list_empty.
  - rewrite (nsum_perm _ _ _ (map_to_list_insert ents t e Hn)), nsum_cons. cbn [snd]. rewrite <- IH.
    destruct (f e) as [e'|] eqn:Ef.
    + rewrite (omap_insert_Some f ents t e e' Ef). apply lload_insert_fresh. by rewrite lookup_omap, Hn.
    + rewrite (omap_insert_None f ents t e Ef), delete_notin by (by rewrite lookup_omap, Hn). done.
Qed.

Definition rcost (res : irc_result) : nat := match res with RCont _ _ => 1 | RUnavail _ p => length p end.

Lemma drop_pending_length e c : length (drop_pending e c) <= length (e_pending e).
Proof. unfold drop_pending. induction (e_pending e) as [|q l IH]; cbn; [lia|]. destruct (negb _); cbn; lia. Qed.

Lemma phase1_load s c ents' rs :
  idb_inv s -> db_remove_conn (i_entries s) c = IDone (ents', rs) ->
  lload ents' <= lload (i_entries s) /\ nsum rcost rs <= lload (i_entries s).
Proof.
  intros I. unfold db_remove_conn. rewrite omap_nil_all.
  2:{ intros [t e] Hin. apply elem_of_map_to_list in Hin. unfold erc_panic. cbn.
      destruct (entry_remove_conn_spec e c (inv_wf _ _ _ I _ _ Hin)) as (e' & b & -> & _). done. }
  intros [= <- <-]. rewrite lload_omap, nsum_omap. unfold lload.
  split; apply nsum_le; intros [t e] Hin; apply elem_of_map_to_list in Hin; cbn [snd];
    pose proof (inv_wf _ _ _ I _ _ Hin) as W;
    destruct (entry_remove_conn_spec e c W) as (e' & b & Hrc & _ & _ & Hp' & _);
    pose proof (drop_pending_length e c) as Hlen; rewrite <- Hp' in Hlen; unfold eload; cbn [snd].
  - unfold erc_keep. rewrite Hrc. destruct b; lia.
  - unfold erc_result. cbn [snd fst]. rewrite Hrc.
    destruct (entry_queried e); [destruct (entry_queried e')|]; try lia. destruct b; cbn [rcost]; lia.
Qed.

(* pushes and load of the pieces *)
Lemma ask_load site m t e m' :
  iask_provider site m t e = IDone m' -> i_entries (ims m) !! t = Some e ->
  length (imq m') <= S (length (imq m)) /\ lload (i_entries (ims m')) = lload (i_entries (ims m)).
Proof.
  unfold iask_provider. destruct (iq_insert (ims m) t) as [[sr s1]|] eqn:Eins; [|done].
  apply iq_insert_spec in Eins as (_ & _ & Hc1 & He1 & _).
  repeat (match goal with |- context [if ?b then _ else _] => destruct b end; [done|]).
  destruct (imc m) as [|r0 rest]; [done|].
  destruct (entry_query_random_conn e sr r0) as [[e' c]| | |] eqn:Eq; try done.
  assert (e_pending e' = e_pending e) as Hp.
  { revert Eq. unfold entry_query_random_conn.
    repeat (match goal with |- context [if ?b then _ else _] => destruct b end; [done|]).
    destruct (e_ids e !! _); [|done]. by intros [= <- _]. }
  cbn. rewrite Hc1. destruct (i_conns (ims m) !! c) as [ci|] eqn:Ec; [|done]. intros [= <-] He.
  unfold isend_or_remove. destruct (ci_alive ci); cbn; rewrite He1;
    (split; [lia|]); pose proof (lload_insert _ t e e' He) as Hl; rewrite Hp in Hl; lia.
Qed.

Lemma answers_load site res l : forall m m',
  ifoldO (ianswer site res) l m = IDone m' -> length (imq m') <= length (imq m) + length l /\ ims m' = ims m.
Proof.
  induction l as [|q l IH]; intros m m'; cbn [ifoldO].
  - intros [= <-]. cbn. split; [lia|done].
  - destruct (ianswer site res m q) as [m1| | |] eqn:E1; try done. intros H.
    assert (length (imq m1) <= S (length (imq m)) /\ ims m1 = ims m) as [Hq1 Hs1].
    { revert E1. unfold ianswer. destruct (i_conns (ims m) !! q_conn q) as [ci|].
      - intros [= <-]. unfold isend_or_remove. destruct (ci_alive ci); cbn; split; (lia || done).
      - destruct site; [done|]. intros [= <-]. split; [lia|done]. }
    destruct (IH _ _ H) as [Hq Hs]. cbn [length]. split; [lia|congruence].
Qed.

Lemma iremove_result_load m res m' :
  iremove_result m res = IDone m' ->
  length (imq m') <= length (imq m) + rcost res /\ lload (i_entries (ims m')) = lload (i_entries (ims m)).
Proof.
  unfold iremove_result. destruct (i_qmap (ims m) !! irc_serial res); [|done].
  set (m1 := m <| ims; i_qmap ::= delete (irc_serial res) |>).
  destruct res as [sr t|sr pend]; cbn [rcost].
  - destruct (i_entries (ims m1) !! t) as [e|] eqn:Ee.
    + intros H. destruct (ask_load _ _ _ _ _ H Ee) as [Hq Hl]. change (imq m1) with (imq m) in Hq.
      change (i_entries (ims m1)) with (i_entries (ims m)) in Hl. split; [lia|done].
    + intros [= <-]. split; [cbn; lia|done].
  - intros H. destruct (answers_load _ _ _ _ _ H) as [Hq Hs]. rewrite Hs. change (imq m1) with (imq m) in Hq. done.
Qed.

Lemma iremove_fold_load rs : forall m m',
  ifoldO iremove_result rs m = IDone m' ->
  length (imq m') <= length (imq m) + nsum rcost rs /\ lload (i_entries (ims m')) = lload (i_entries (ims m)).
Proof.
  induction rs as [|res rs IH]; intros m m'; cbn [ifoldO].
  - intros [= <-]. cbn. split; [lia|done].
  - destruct (iremove_result m res) as [m1| | |] eqn:E1; try done. intros H.
    destruct (iremove_result_load _ _ _ E1) as [Hq1 Hl1]. destruct (IH _ _ H) as [Hq Hl].
    rewrite nsum_cons. split; [lia|congruence].
Qed.

Definition pot (m : IM) : nat :=
  length (imq m) + size (i_conns (ims m)) * (2 + lload (i_entries (ims m))).

Lemma ishutdown_conn_pot m c sd m' :
  idb_inv (ims m) -> ishutdown_conn m c sd = IDone m' -> pot m' <= pot m.
Proof.
  intros I. unfold ishutdown_conn. destruct (i_conns (ims m) !! c) as [ci|] eqn:Ec; [|intros [= <-]; lia].
  set (m0 := m <| ims; i_conns ::= delete c |>).
  set (m1 := if sd && ci_alive ci then iemit m0 c IShutdown else m0).
  assert (i_entries (ims m1) = i_entries (ims m) /\ imq m1 = imq m /\ i_conns (ims m1) = delete c (i_conns (ims m))) as (He1 & Hq1 & Hc1).
  { unfold m1. by destruct (sd && ci_alive ci). }
  unfold iremove_introspection_conn. rewrite He1.
  destruct (db_remove_conn (i_entries (ims m)) c) as [[ents' rs]| | |] eqn:Erc; try done.
  destruct (phase1_load _ _ _ _ I Erc) as [Hl1 Hc].
  intros H. destruct (iremove_fold_load _ _ _ H) as [Hq Hl]. pose proof (ifoldO_mrel _ _ _ _ iremove_result_mrel H) as [Hcs _].
  assert (i_conns (ims m') = delete c (i_conns (ims m))) as Hcm'.
  { pose proof (ishutdown_conn_ok m c sd I) as Hok. unfold ishutdown_conn in Hok. rewrite Ec in Hok.
    fold m0 in Hok. fold m1 in Hok. unfold iremove_introspection_conn in Hok. rewrite He1, Erc, H in Hok. by destruct Hok as (_ & ? & _). }
  unfold pot. rewrite Hcm', Hl. cbn [ims i_entries imq set] in *. cbn in Hq, Hl |- *. rewrite Hq1 in Hq.
  rewrite map_size_delete_Some by eauto.
  assert (0 < size (i_conns (ims m))) as Hpos.
  { destruct (decide (size (i_conns (ims m)) = 0)) as [Hz|]; [|lia]. apply map_size_empty_inv in Hz. rewrite Hz, lookup_empty in Ec. done. }
  set (n := size (i_conns (ims m))) in *. set (L := lload (i_entries (ims m))) in *.
  destruct n as [|n]; [lia|]. cbn [pred]. nia.
Qed.

(* only the loop itself reports NoFuel *)
Lemma ask_not_nofuel site m t e : iask_provider site m t e <> IHalt NoFuel.
Proof.
  unfold iask_provider. destruct (iq_insert _ _) as [[sr s1]|]; [|done].
  repeat (match goal with |- context [if ?b then _ else _] => destruct b end; [done|]).
  destruct (imc m) as [|r rest]; [done|].
  assert (entry_query_random_conn e sr r <> IHalt NoFuel) as Hq.
  { unfold entry_query_random_conn.
    repeat (match goal with |- context [if ?b then _ else _] => destruct b end; [done|]). by destruct (e_ids e !! _). }
  destruct (entry_query_random_conn e sr r) as [[e' c0]| | |[]]; try done.
  match goal with |- context [i_conns ?a !! c0] => destruct (i_conns a !! c0) end; done.
Qed.
Lemma ifoldO_not_nofuel {A} (f : IM -> A -> ioutcome IM) l : forall m,
  (forall m x, f m x <> IHalt NoFuel) -> ifoldO f l m <> IHalt NoFuel.
Proof.
  induction l as [|x l IH]; intros m Hf; cbn; [done|].
  destruct (f m x) as [m1|m1| |h] eqn:E; try done; [by apply IH|]. intros [= ->]. by destruct (Hf m x).
Qed.
Lemma ianswer_not_nofuel site r m q : ianswer site r m q <> IHalt NoFuel.
Proof. unfold ianswer. destruct (i_conns _ !! _); [done|]. by destruct site. Qed.
Lemma iremove_result_not_nofuel m r : iremove_result m r <> IHalt NoFuel.
Proof.
  unfold iremove_result. destruct (i_qmap (ims m) !! irc_serial r); [|done].
  destruct r as [sr t|sr pend].
  - destruct (i_entries _ !! t) as [e|]; [apply ask_not_nofuel|done].
  - apply ifoldO_not_nofuel. intros; apply ianswer_not_nofuel.
Qed.
Lemma ishutdown_conn_not_nofuel m c sd : ishutdown_conn m c sd <> IHalt NoFuel.
Proof.
  unfold ishutdown_conn. destruct (i_conns (ims m) !! c) as [ci|]; [|done].
  unfold iremove_introspection_conn. unfold db_remove_conn.
  destruct (omap (erc_panic c) _); [|done]. apply ifoldO_not_nofuel. intros; apply iremove_result_not_nofuel.
Qed.

Lemma isettle_fuel fuel : forall m, idb_inv (ims m) -> pot m < fuel -> isettle fuel m <> IHalt NoFuel.
Proof.
  induction fuel as [|fuel IH]; intros m I Hp; [lia|].
  rewrite isettle_S. destruct (imq m) as [|[c sd] rest] eqn:Eq; [done|].
  match goal with |- context [ishutdown_conn ?a c sd] =>
    pose proof (ishutdown_conn_ok a c sd I) as Hok; pose proof (ishutdown_conn_pot a c sd) as Hpot;
    pose proof (ishutdown_conn_not_nofuel a c sd) as Hnn; pose proof (ishutdown_conn_never_fails a c sd) as Hnf;
    assert (pot a < pot m) as Ha by (unfold pot; rewrite Eq; cbn; lia);
    destruct (ishutdown_conn a c sd) as [m1|m1| |h] eqn:E1 end; try done.
  destruct Hok as (I1 & _). apply IH; [done|]. specialize (Hpot m1 I eq_refl). lia.
Qed.

Lemma introdb_fuel s e ch : ireachable s -> ilegal s e -> istep s e ch <> IHalt NoFuel.
Proof.
  intros Hr Hl. pose proof (idb_inv_reachable _ Hr) as I.
  rewrite istep_eq. pose proof (ihandled_ok s e ch I Hl) as Hok.
  destruct (ihandled s e ch) as [m|m| |h] eqn:Eh; try done.
  - cbn in Hok. pose proof (isettle_fuel (ifuel_for m) m Hok) as Hf.
    assert (pot m < ifuel_for m) as Hlt by (unfold ifuel_for, pot; rewrite iload_lload; lia).
    specialize (Hf Hlt). destruct (isettle (ifuel_for m) m) as [m'|m'| |h]; try done. intros [= ->]. done.
  - (* the event-specific part never halts for lack of fuel *)
    intros [= ->]. revert Eh. unfold ihandled. destruct e as [c ver|c|c|c|c ts|c serial t|c serial r|]; try done.
    + by destruct (i_conns s !! c).
    + unfold db_register. destruct (i_conns _ !! c) as [ci|]; [|done]. destruct (ci_ver ci <? _)%N; [done|]. by destruct ts.
    + unfold db_query. destruct (i_conns _ !! c) as [ci|]; [|done]. destruct (ci_ver ci <? _)%N; [done|].
      destruct (i_entries _ !! t) as [e|]; [|by destruct (ci_alive ci)].
      destruct (e_intro e); [by destruct (ci_alive ci)|]. cbn. destruct (e_queried e); [done|].
      match goal with |- context [iask_provider ?a ?b ?c ?d] => pose proof (ask_not_nofuel a b c d) as Hn;
        destruct (iask_provider a b c d) as [| | |[]] end; done.
    + unfold db_reply. destruct (i_conns _ !! c) as [ci|]; [|done]. destruct (ci_ver ci <? _)%N; [done|].
      destruct (i_qmap _ !! serial) as [t|]; [|done]. destruct (i_entries _ !! t) as [e|]; [|done].
      destruct (e_queried e) as [q|]; [|done].
      repeat (match goal with |- context [if ?b then _ else _] => destruct b end; [done|]).
      destruct r as [p|].
      * match goal with |- context [if ?b then _ else _] => destruct b end; [done|].
        match goal with |- context [ifoldO ?f ?l ?a] => pose proof (ifoldO_not_nofuel f l a (fun m x => ianswer_not_nofuel _ _ m x)) as Hn;
          destruct (ifoldO f l a) as [| | |[]] end; done.
      * assert (forall e0, entry_remove_conn e0 c <> IHalt NoFuel) as Hrc.
        { intros e0. unfold entry_remove_conn, entry_remove_conn_g. cbn.
          repeat (match goal with |- context [match ?x with _ => _ end] => destruct x end; try done). }
        match goal with |- context [entry_remove_conn ?e0 c] => pose proof (Hrc e0) as Hn;
          destruct (entry_remove_conn e0 c) as [[e2 [|]]| | |[]] end; try done.
        -- match goal with |- context [iask_provider ?a ?b ?c ?d] => pose proof (ask_not_nofuel a b c d) as Hn2;
             destruct (iask_provider a b c d) as [| | |[]] end; done.
        -- match goal with |- context [ifoldO ?f ?l ?a] => pose proof (ifoldO_not_nofuel f l a (fun m x => ianswer_not_nofuel _ _ m x)) as Hn2;
             destruct (ifoldO f l a) as [| | |[]] end; done.
Qed.

(* a step of a reachable state completes; it stops early only when the driver gave it fewer drawn
   indices than it needs, or when all 2^32 query serials are occupied (SerialMap::insert loops) *)
Lemma introdb_completes s e ch :
  ireachable s -> ilegal s e ->
  (exists s' o, istep s e ch = IDone (s', o)) \/ (exists n, istep s e ch = IHalt (NeedChoice n)) \/
  istep s e ch = IHalt NoSerial.
Proof.
  intros Hr Hl. pose proof (istep_ok s e ch (idb_inv_reachable _ Hr) Hl) as Hok.
  pose proof (introdb_fuel s e ch Hr Hl) as Hf.
  destruct (istep s e ch) as [[s' o]| | |[n| |]]; try done; eauto.
Qed.

(* idle shutdown: the exit test of Broker::run *)
Lemma introdb_idle s : iexits s = true <-> i_idle s = true /\ i_conns s = ∅.
Proof. unfold iexits. rewrite andb_true_iff, bool_decide_eq_true. done. Qed.

Lemma introdb_idle_set s ch s' o :
  istep s IShutdownIdle ch = IDone (s', o) -> i_idle s' = true /\ i_conns s' = i_conns s /\ o = [].
Proof.
  rewrite istep_eq. cbn [ihandled].
  set (m := {| ims := s; imq := []; imo := []; imc := ch |} <| ims; i_idle := true |>).
  destruct (ifuel_for m); [rewrite isettle_0|rewrite isettle_S]; cbn [imq m set]; cbn; by intros [= <- <-].
Qed.

(* once idle shutdown was requested, the broker exits as soon as the last connection is removed;
   the flag survives every step *)
Lemma introdb_idle_kept s e ch s' o :
  ireachable s -> ilegal s e -> istep s e ch = IDone (s', o) -> i_idle s = true -> i_idle s' = true.
Proof.
  intros Hr Hl Hs Hi. pose proof (idb_inv_reachable _ Hr) as I.
  rewrite istep_eq in Hs. pose proof (ihandled_ok s e ch I Hl) as Hok.
  destruct (ihandled s e ch) as [m| | |] eqn:Eh; try done. cbn in Hok.
  pose proof (isettle_ok (ifuel_for m) m Hok) as H2.
  destruct (isettle (ifuel_for m) m) as [m'| | |]; try done. injection Hs as <- _.
  destruct H2 as (_ & _ & -> & _).
  revert Eh. unfold ihandled. set (m0 := {| ims := s; imq := []; imo := []; imc := ch |}).
  destruct e as [c ver|c|c|c|c ts|c serial t|c serial r|].
  - destruct (i_conns s !! c); [done|]. by intros [= <-].
  - by intros [= <-].
  - by intros [= <-].
  - intros [= <-]. by destruct (i_conns s !! c).
  - pose proof (db_register_ok m0 c ts I) as H. destruct (db_register m0 c ts) as [m1|m1| |]; try done;
      intros [= <-]; destruct H as (_ & _ & Hid & _); exact (eq_trans Hid Hi).
  - pose proof (db_query_ok m0 c serial t I) as H. destruct (db_query m0 c serial t) as [m1|m1| |]; try done;
      intros [= <-]; destruct H as (_ & _ & Hid); exact (eq_trans Hid Hi).
  - pose proof (db_reply_ok m0 c serial r I) as H. destruct (db_reply m0 c serial r) as [m1|m1| |]; try done;
      intros [= <-]; destruct H as (_ & _ & Hid); exact (eq_trans Hid Hi).
  - by intros [= <-].
Qed.
