(* Broker/IntroDbProofs.v — the invariant of the introspection-database machine (Broker/IntroDb.v)
   and what follows from it: no panic site is reachable, a removed connection is referenced
   nowhere, the database is empty when no connection is left, queries are accounted for. *)
From stdpp Require Import gmap list.
From RecordUpdate Require Import RecordSet.
Import RecordSetNotations.
From Aldrin Require Import gen.BrokerConsts Broker.IntroDb.
From Coq Require Import Lia.
Local Open Scope N_scope.

(* ================================================================ entries *)
Record entry_wf (e : ientry) : Prop := {
  wf_nodup : NoDup (e_ids e);
  wf_idx : forall c i, e_idxs e !! c = Some i <-> e_ids e !! i = Some c;
  wf_nonempty : e_ids e <> [];
  wf_queried : forall q, e_queried e = Some q -> q_conn q ∈ e_ids e /\ e_intro e = None;
  wf_pending : e_pending e <> [] -> e_intro e = None }.

Lemma wf_idx_None e c : entry_wf e -> e_idxs e !! c = None <-> c ∉ e_ids e.
Proof.
  intros W. split.
  - intros Hn Hin. apply elem_of_list_lookup in Hin as [i Hi]. apply (wf_idx _ W) in Hi. congruence.
  - intros Hnin. destruct (e_idxs e !! c) as [i|] eqn:E; [|done].
    apply (wf_idx _ W) in E. exfalso. apply Hnin. by eapply elem_of_list_lookup_2.
Qed.

(* ---- register *)
Lemma entry_register_spec e c :
  entry_wf e \/ e = ientry0 ->
  let e' := entry_register e c in
  entry_wf e' /\ (forall x, x ∈ e_ids e' <-> x ∈ e_ids e \/ x = c) /\
  e_intro e' = e_intro e /\ e_queried e' = e_queried e /\ e_pending e' = e_pending e.
Proof.
  intros H. unfold entry_register. destruct (e_idxs e !! c) as [i|] eqn:E; cbn.
  - destruct H as [W| ->]; [|cbn in E; by rewrite lookup_empty in E].
    split; [done|]. split; [|done]. intros x. split; [tauto|]. intros [?| ->]; [done|].
    apply (wf_idx _ W) in E. by eapply elem_of_list_lookup_2.
  - assert (c ∉ e_ids e) as Hnin.
    { destruct H as [W| ->]; [by apply (wf_idx_None _ _ W)|cbn; apply not_elem_of_nil]. }
    assert (NoDup (e_ids e) /\ (forall c i, e_idxs e !! c = Some i <-> e_ids e !! i = Some c) /\
            (forall q, e_queried e = Some q -> q_conn q ∈ e_ids e /\ e_intro e = None) /\
            (e_pending e <> [] -> e_intro e = None)) as (Hnd & Hix & Hq & Hp).
    { destruct H as [W| ->]; [by destruct W|]. cbn. split; [constructor|]. split; [|done].
      intros c0 i. rewrite lookup_empty, lookup_nil. done. }
    split; [|split; [|done]].
    + split; cbn.
      * apply NoDup_app. split; [done|]. split; [|apply NoDup_singleton].
        intros x Hx ->%elem_of_list_singleton. done.
      * intros c0 i. destruct (decide (c0 = c)) as [->|Hne].
        -- rewrite lookup_insert. split.
           ++ intros [= <-]. rewrite lookup_app_r by lia. by rewrite Nat.sub_diag.
           ++ intros Hl. apply lookup_app_Some in Hl as [Hl|[Hge Hl]].
              ** exfalso. apply Hnin. by eapply elem_of_list_lookup_2.
              ** f_equal. apply lookup_lt_Some in Hl. cbn in Hl. lia.
        -- rewrite lookup_insert_ne by done. rewrite Hix. split.
           ++ intros Hl. by apply lookup_app_l_Some.
           ++ intros Hl. apply lookup_app_Some in Hl as [Hl|[Hge Hl]]; [done|].
              apply list_lookup_singleton_Some in Hl as [_ ?]. congruence.
      * intros Hnil. by destruct (e_ids e).
      * intros q Hq'. destruct (Hq _ Hq') as [? ?]. split; [|done]. apply elem_of_app. by left.
      * done.
    + cbn. intros x. rewrite elem_of_app, elem_of_list_singleton. done.
Qed.

(* ---- swap_remove *)
Lemma swap_remove_spec (l : list iconn) i x :
  last l = Some x -> (i < length l)%nat ->
  exists l', swap_remove l i = Some l' /\ length l' = (length l - 1)%nat /\
    forall j, l' !! j = if decide (j < length l - 1)%nat then (if decide (j = i) then Some x else l !! j) else None.
Proof.
  intros Hl Hi. unfold swap_remove. rewrite Hl. apply Nat.ltb_lt in Hi as Hi'. rewrite Hi'.
  eexists. split; [done|]. split.
  - rewrite take_length, insert_length. lia.
  - intros j. destruct (decide (j < length l - 1)%nat) as [Hj|Hj].
    + rewrite lookup_take by done. destruct (decide (j = i)) as [->|Hne].
      * by rewrite list_lookup_insert.
      * by rewrite list_lookup_insert_ne.
    + apply lookup_take_ge. lia.
Qed.

Lemma last_lookup_pred {A} (l : list A) x : last l = Some x -> l !! (length l - 1)%nat = Some x.
Proof. rewrite last_lookup. by replace (pred (length l)) with (length l - 1)%nat by lia. Qed.

(* ---- remove_conn *)
Definition drop_queried (e : ientry) (c : iconn) : option iquery :=
  match e_queried e with Some q => if bool_decide (q_conn q = c) then None else Some q | None => None end.
Definition drop_pending (e : ientry) (c : iconn) : list iquery :=
  List.filter (fun p => negb (bool_decide (q_conn p = c))) (e_pending e).

Lemma elem_of_drop_pending e c q : q ∈ drop_pending e c <-> q ∈ e_pending e /\ q_conn q <> c.
Proof.
  unfold drop_pending. rewrite elem_of_list_In, filter_In, <- elem_of_list_In, negb_true_iff, bool_decide_eq_false. done.
Qed.

Lemma idxs_dom_ids e : entry_wf e -> forall c, is_Some (e_idxs e !! c) <-> c ∈ e_ids e.
Proof.
  intros W c. split.
  - intros [i Hi]. apply (wf_idx _ W) in Hi. by eapply elem_of_list_lookup_2.
  - intros [i Hi]%elem_of_list_lookup. apply (wf_idx _ W) in Hi. eauto.
Qed.

Lemma entry_remove_conn_spec e c :
  entry_wf e ->
  exists e' b, entry_remove_conn e c = IDone (e', b) /\
    e_intro e' = e_intro e /\ e_queried e' = drop_queried e c /\ e_pending e' = drop_pending e c /\
    (b = false <-> forall x, x ∈ e_ids e -> x = c) /\
    (b = true -> entry_wf e' /\ forall x, x ∈ e_ids e' <-> x ∈ e_ids e /\ x <> c).
Proof.
  intros W. unfold entry_remove_conn, entry_remove_conn_g.
  set (e1 := match e_queried e with Some q => if bool_decide (q_conn q = c) then e <| e_queried := None |> else e | None => e end).
  assert (e_idxs e1 = e_idxs e /\ e_ids e1 = e_ids e /\ e_intro e1 = e_intro e /\ e_pending e1 = e_pending e /\
          e_queried e1 = drop_queried e c) as (H1 & H2 & H3 & H4 & H5).
  { unfold e1, drop_queried. destruct (e_queried e) as [q|] eqn:Eq; [|by rewrite Eq].
    destruct (bool_decide (q_conn q = c)); cbn; by rewrite ?Eq. }
  clearbody e1. cbn. rewrite H1.
  destruct (e_idxs e !! c) as [idx|] eqn:Eidx.
  - (* c is a provider *)
    apply (wf_idx _ W) in Eidx as Hidx.
    assert (idx < length (e_ids e))%nat as Hlt by (by eapply lookup_lt_Some).
    destruct (bool_decide_reflect (delete c (e_idxs e) = ∅)) as [Hem|Hnem].
    + (* it was the only one *)
      eexists _, false. split; [done|]. cbn. rewrite H3, H4, H5. do 3 (split; [done|]). split; [|done].
      split; [|done]. intros _ x Hx. destruct (decide (x = c)) as [|Hne]; [done|].
      apply (idxs_dom_ids _ W) in Hx as [i Hi].
      assert (delete c (e_idxs e) !! x = Some i) as Hd by (by rewrite lookup_delete_ne).
      rewrite Hem, lookup_empty in Hd. done.
    + (* another provider is left: at least two elements *)
      assert (exists y, y ∈ e_ids e /\ y <> c) as (y & Hy & Hyc).
      { apply map_choose in Hnem as (y & i & Hyi). apply lookup_delete_Some in Hyi as [Hne Hyi].
        exists y. split; [|done]. apply (idxs_dom_ids _ W). eauto. }
      assert (2 <= length (e_ids e))%nat as Hlen.
      { apply elem_of_list_lookup in Hy as [j Hj]. assert (j <> idx) by (intros ->; congruence).
        apply lookup_lt_Some in Hj. lia. }
      destruct (last (e_ids e)) as [x|] eqn:Elast; [|apply last_None in Elast; rewrite Elast in Hlen; cbn in Hlen; lia].
      rewrite H2.
      destruct (swap_remove_spec _ _ _ Elast Hlt) as (ids' & Hsr & Hlen' & Hlk). rewrite Hsr.
      pose proof (last_lookup_pred _ _ Elast) as Hxl.
      pose proof (wf_nodup _ W) as Hnd.
      assert (forall i j z, e_ids e !! i = Some z -> e_ids e !! j = Some z -> i = j) as Hinj
        by (intros; by eapply NoDup_lookup).
      (* membership of the new vector *)
      assert (forall z, z ∈ ids' <-> z ∈ e_ids e /\ z <> c) as Hmem.
      { intros z. rewrite !elem_of_list_lookup. split.
        - intros [j Hj]. rewrite Hlk in Hj. destruct (decide (j < length (e_ids e) - 1)%nat) as [Hjl|]; [|done].
          destruct (decide (j = idx)) as [->|Hne].
          + injection Hj as <-. split; [eauto|]. intros ->. assert (idx = length (e_ids e) - 1)%nat by eauto. lia.
          + split; [eauto|]. intros ->. apply Hne. eauto.
        - intros [[j Hj] Hzc]. destruct (decide (j = length (e_ids e) - 1)%nat) as [->|Hjl].
          + (* z is the last element: it moved to idx *)
            assert (z = x) as -> by congruence.
            assert (idx <> length (e_ids e) - 1)%nat as Hne by (intros ->; congruence).
            exists idx. rewrite Hlk. rewrite decide_True by lia. by rewrite decide_True.
          + exists j. rewrite Hlk. apply lookup_lt_Some in Hj as Hjlt. rewrite decide_True by lia.
            rewrite decide_False; [done|]. intros ->. congruence. }
      assert (NoDup ids') as Hnd'.
      { apply NoDup_alt. intros i j z Hi Hj. rewrite Hlk in Hi, Hj.
        destruct (decide (i < length (e_ids e) - 1)%nat) as [Hil|]; [|done].
        destruct (decide (j < length (e_ids e) - 1)%nat) as [Hjl|]; [|done].
        destruct (decide (i = idx)) as [->|Hi'], (decide (j = idx)) as [->|Hj']; [done| | |by eauto].
        - injection Hi as <-. assert (j = length (e_ids e) - 1)%nat by eauto. lia.
        - injection Hj as <-. assert (i = length (e_ids e) - 1)%nat by eauto. lia. }
      unfold guard_rust. rewrite Hlen'.
      destruct (Nat.eqb_spec idx (length (e_ids e) - 1)) as [Heq|Hneq]; cbn [negb].
      * (* the last element was removed: nothing moved *)
        eexists _, true. split; [done|]. cbn. rewrite H3, H4, H5. do 3 (split; [done|]). split.
        { split; [done|]. intros Hall. exfalso. apply Hyc. by apply Hall. }
        intros _. split; [|done]. split; cbn; [done| | | |rewrite ?H3, ?H4; intros Hf; apply (wf_pending _ W); intros Hn; by rewrite Hn in Hf].
        -- intros c0 i. rewrite lookup_delete_Some, (wf_idx _ W), Hlk. subst idx.
           destruct (decide (i < length (e_ids e) - 1)%nat) as [Hil|Hil].
           ++ rewrite decide_False by lia. split; [tauto|]. intros Hi. split; [|done]. intros ->.
              assert (i = length (e_ids e) - 1)%nat by eauto. lia.
           ++ split; [|done]. intros [Hne Hi]. apply lookup_lt_Some in Hi as Hil'.
              assert (i = length (e_ids e) - 1)%nat as -> by lia. congruence.
        -- intros ->. cbn in Hlen'. lia.
        -- rewrite H5, H3. intros q Hq. unfold drop_queried in Hq. destruct (e_queried e) as [q0|] eqn:Eq0; [|done].
           destruct (bool_decide_reflect (q_conn q0 = c)) as [|Hqc]; [done|]. injection Hq as <-.
           destruct (wf_queried _ W _ Eq0) as [Hin ?]. split; [|done]. apply Hmem. done.
      * (* an earlier element was removed: the last one moved into its slot *)
        assert (idx < length (e_ids e) - 1)%nat as Hidxl by lia.
        assert (ids' !! idx = Some x) as Hix by (rewrite Hlk, decide_True by done; by rewrite decide_True).
        rewrite Hix. cbn.
        assert (x <> c) as Hxc by (intros ->; assert (idx = length (e_ids e) - 1)%nat by eauto; lia).
        assert (is_Some (delete c (e_idxs e) !! x)) as [ix Hixx].
        { rewrite lookup_delete_ne by done. apply (idxs_dom_ids _ W). by eapply elem_of_list_lookup_2. }
        rewrite Hixx.
        eexists _, true. split; [done|]. cbn. rewrite H3, H4, H5. do 3 (split; [done|]). split.
        { split; [done|]. intros Hall. exfalso. apply Hyc. by apply Hall. }
        intros _. split; [|done]. split; cbn; [done| | | |rewrite ?H3, ?H4; intros Hf; apply (wf_pending _ W); intros Hn; by rewrite Hn in Hf].
        -- intros c0 i. destruct (decide (c0 = x)) as [->|Hc0].
           ++ rewrite lookup_insert. split.
              ** intros [= <-]. done.
              ** intros Hi. f_equal. eapply NoDup_lookup; eauto.
           ++ rewrite lookup_insert_ne by done. rewrite lookup_delete_Some, (wf_idx _ W), Hlk.
              destruct (decide (i < length (e_ids e) - 1)%nat) as [Hil|Hil].
              ** destruct (decide (i = idx)) as [->|Hi'].
                 --- split; [intros [Hne Hi]; congruence|intros [= ->]; done].
                 --- split; [tauto|]. intros Hi. split; [|done]. intros ->. apply Hi'. eauto.
              ** split; [|done]. intros [Hne Hi]. apply lookup_lt_Some in Hi as Hil'.
                 assert (i = length (e_ids e) - 1)%nat as -> by lia. congruence.
        -- intros ->. cbn in Hlen'. lia.
        -- rewrite H5, H3. intros q Hq. unfold drop_queried in Hq. destruct (e_queried e) as [q0|] eqn:Eq0; [|done].
           destruct (bool_decide_reflect (q_conn q0 = c)) as [|Hqc]; [done|]. injection Hq as <-.
           destruct (wf_queried _ W _ Eq0) as [Hin ?]. split; [|done]. apply Hmem. done.
  - (* c is not a provider of this type *)
    assert (c ∉ e_ids e) as Hnin by (by apply (wf_idx_None _ _ W)).
    destruct (bool_decide_reflect (e_idxs e = ∅)) as [Hem|Hnem].
    { exfalso. pose proof (wf_nonempty _ W) as Hne. destruct (e_ids e) as [|a l] eqn:El; [done|].
      assert (is_Some (e_idxs e !! a)) as [i Hi] by (apply (idxs_dom_ids _ W); rewrite El; left).
      rewrite Hem, lookup_empty in Hi. done. }
    rewrite H2. destruct (bool_decide_reflect (e_ids e = [])) as [Hem|_]; [by destruct (wf_nonempty _ W)|].
    eexists _, true. split; [done|]. cbn. rewrite H3, H4, H5. do 3 (split; [done|]). split.
    { split; [done|]. intros Hall. exfalso. pose proof (wf_nonempty _ W) as Hne.
      destruct (e_ids e) as [|a l] eqn:El; [done|]. apply Hnin. rewrite <- (Hall a); left. }
    intros _. split.
    + split; cbn; rewrite ?H1, ?H2, ?H3, ?H4, ?H5; [apply W|apply W|apply W| |intros Hf; apply (wf_pending _ W); intros Hn; by rewrite Hn in Hf].
      intros q Hq. unfold drop_queried in Hq. destruct (e_queried e) as [q0|] eqn:Eq0; [|done].
      destruct (bool_decide (q_conn q0 = c)); [done|]. injection Hq as <-. by apply (wf_queried _ W).
    + cbn. rewrite H2. intros x. split; [|tauto]. intros Hx. split; [done|]. intros ->. done.
Qed.

(* ---- query_random_conn *)
Lemma entry_query_random_conn_spec e serial r :
  entry_wf e -> e_queried e = None ->
  exists c, c ∈ e_ids e /\
    entry_query_random_conn e serial r = IDone (e <| e_queried := Some {| q_conn := c; q_serial := serial |} |>, c).
Proof.
  intros W Hq. unfold entry_query_random_conn. rewrite Hq.
  rewrite bool_decide_eq_false_2 by (intros [? ?]; done).
  pose proof (wf_nonempty _ W) as Hne.
  destruct (bool_decide_reflect (e_idxs e = ∅)) as [Hem|_].
  { exfalso. destruct (e_ids e) as [|a l] eqn:El; [done|].
    assert (is_Some (e_idxs e !! a)) as [i Hi] by (apply (idxs_dom_ids _ W); rewrite El; left).
    rewrite Hem, lookup_empty in Hi. done. }
  rewrite bool_decide_eq_false_2 by done.
  assert (N.to_nat (r mod N.of_nat (length (e_ids e))) < length (e_ids e))%nat as Hlt.
  { assert (0 < length (e_ids e))%nat by (destruct (e_ids e); [done|cbn; lia]).
    pose proof (N.mod_lt r (N.of_nat (length (e_ids e)))). lia. }
  apply lookup_lt_is_Some_2 in Hlt as [c Hc]. rewrite Hc.
  exists c. split; [by eapply elem_of_list_lookup_2|done].
Qed.

(* ================================================================ list helpers *)
Lemma omap_nil_all {A B} (f : A -> option B) (l : list A) :
  (forall x, x ∈ l -> f x = None) -> omap f l = [].
Proof.
  induction l as [|a l IH]; [done|]. intros H. cbn. rewrite (H a) by left. apply IH. intros x Hx. apply H. by right.
Qed.

Lemma NoDup_fmap_omap {A B C} (f : B -> C) (g : A -> option B) (l : list A) :
  NoDup l ->
  (forall x y a b, x ∈ l -> y ∈ l -> g x = Some a -> g y = Some b -> f a = f b -> x = y) ->
  NoDup (f <$> omap g l).
Proof.
  induction l as [|x l IH]; intros Hnd Hinj; [constructor|].
  apply NoDup_cons in Hnd as [Hx Hnd]. cbn. destruct (g x) as [a|] eqn:Ea.
  - cbn. apply NoDup_cons. split.
    + intros Hin. apply elem_of_list_fmap in Hin as (b & Hfb & Hb).
      apply elem_of_list_omap in Hb as (y & Hy & Eb).
      assert (x = y) as -> by (eapply Hinj; [left|by right|done|done|done]). done.
    + apply IH; [done|]. intros y z b c Hy Hz. apply Hinj; by right.
  - apply IH; [done|]. intros y z b c Hy Hz. apply Hinj; by right.
Qed.

(* ================================================================ the invariant *)
(* [G]: serials still in the SerialMap whose provider query is gone (between
   IntrospectionDatabase::remove_conn and the loop of remove_introspection_conn);
   [L]: types whose entry is waiting for a new provider query (queried = None although requesters
   may be pending).  Between steps both are empty. *)
Record idb_inv_g (G : gset N) (L : gset itid) (s : istate) : Prop := {
  inv_wf : forall t e, i_entries s !! t = Some e -> entry_wf e;
  inv_live : forall t e, i_entries s !! t = Some e -> t ∉ L -> e_pending e <> [] -> is_Some (e_queried e);
  inv_L : forall t e, i_entries s !! t = Some e -> t ∈ L -> e_queried e = None /\ e_intro e = None;
  inv_conn : forall t e c, i_entries s !! t = Some e -> c ∈ e_ids e -> is_Some (i_conns s !! c);
  inv_pconn : forall t e q, i_entries s !! t = Some e -> q ∈ e_pending e -> is_Some (i_conns s !! q_conn q);
  inv_q1 : forall t e q, i_entries s !! t = Some e -> e_queried e = Some q ->
             i_qmap s !! q_serial q = Some t /\ q_serial q ∉ G;
  inv_q2 : forall sr t, i_qmap s !! sr = Some t ->
             sr ∈ G \/ exists e q, i_entries s !! t = Some e /\ e_queried e = Some q /\ q_serial q = sr;
  inv_G : forall sr, sr ∈ G -> is_Some (i_qmap s !! sr) }.
Definition idb_inv : istate -> Prop := idb_inv_g ∅ ∅.

Lemma idb_inv_init : idb_inv iinit.
Proof. split; cbn; intros *; rewrite ?lookup_empty; try done. Qed.

(* outcomes of the machine inside a step: Done/Fail satisfy Q, no panic; Halt is vacuous *)
Definition ores (Q : IM -> Prop) (o : ioutcome IM) : Prop :=
  match o with IDone m | IFail m => Q m | IPanic _ => False | IHalt _ => True end.

Lemma ores_mono (Q1 Q2 : IM -> Prop) o : (forall m, Q1 m -> Q2 m) -> ores Q1 o -> ores Q2 o.
Proof. destruct o; cbn; auto. Qed.

Lemma ifoldO_ores {A} (I : IM -> Prop) (f : IM -> A -> ioutcome IM) l m :
  (forall m x, x ∈ l -> I m -> match f m x with IDone m' => I m' | IFail _ => False | IPanic _ => False | IHalt _ => True end) ->
  I m -> ores I (ifoldO f l m).
Proof.
  revert m. induction l as [|x l IH]; intros m Hf Hm; [done|]. cbn.
  pose proof (Hf m x ltac:(left) Hm) as H. destruct (f m x); [|done..].
  apply IH; [|done]. intros m' y Hy. apply Hf. by right.
Qed.

(* ---- SerialMap::insert hands out a vacant serial *)
Lemma iq_probe_vacant fuel occ : forall n b nxt, iq_probe fuel occ n = Some (b, nxt) -> occ b = false.
Proof.
  induction fuel as [|fuel IH]; intros n b nxt; cbn; [done|].
  destruct (occ n) eqn:Eo; [apply IH|]. intros [= <- _]. done.
Qed.
Lemma iq_insert_spec s t sr s1 :
  iq_insert s t = Some (sr, s1) ->
  i_qmap s !! sr = None /\ i_qmap s1 = <[sr := t]> (i_qmap s) /\
  i_conns s1 = i_conns s /\ i_entries s1 = i_entries s /\ i_idle s1 = i_idle s.
Proof.
  unfold iq_insert. destruct (iq_probe _ _ _) as [[b nxt]|] eqn:E; [|done]. intros [= <- <-].
  apply iq_probe_vacant in E. apply bool_decide_eq_false in E. split; [by apply eq_None_not_Some|done].
Qed.

(* ---- answering taken pending queries never changes the state *)
Lemma answer_ok site r l m :
  (site = None \/ forall q, q ∈ l -> is_Some (i_conns (ims m) !! q_conn q)) ->
  ores (fun m' => ims m' = ims m /\ imc m' = imc m) (ifoldO (ianswer site r) l m).
Proof.
  intros H. apply (ifoldO_ores (fun m' => ims m' = ims m /\ imc m' = imc m)); [|done].
  intros m0 q Hq [Hm0 Hc0]. unfold ianswer. rewrite Hm0.
  destruct (i_conns (ims m) !! q_conn q) as [ci|] eqn:E.
  - unfold isend_or_remove. by destruct (ci_alive ci).
  - destruct H as [->|H]; [done|]. destruct (H q Hq) as [? ?]. congruence.
Qed.

(* ---- insert a serial, draw a provider, send the query *)
Lemma ask_ok site m t e G L :
  idb_inv_g G L (ims m) -> t ∈ L -> i_entries (ims m) !! t = Some e ->
  ores (fun m' => idb_inv_g G (L ∖ {[t]}) (ims m') /\ i_conns (ims m') = i_conns (ims m) /\
                  i_idle (ims m') = i_idle (ims m))
       (iask_provider site m t e).
Proof.
  intros I HL He. unfold iask_provider.
  destruct (iq_insert (ims m) t) as [[sr s1]|] eqn:Eins; [|done].
  apply iq_insert_spec in Eins as (Hvac & Hq1 & Hc1 & He1 & Hi1).
  destruct (inv_L _ _ _ I _ _ He HL) as [Hqn Hin].
  pose proof (inv_wf _ _ _ I _ _ He) as W.
  rewrite Hqn. rewrite bool_decide_eq_false_2 by (intros [? ?]; done).
  destruct (bool_decide_reflect (e_idxs e = ∅)) as [Hem|_].
  { exfalso. pose proof (wf_nonempty _ W) as Hne. destruct (e_ids e) as [|a l] eqn:El; [done|].
    assert (is_Some (e_idxs e !! a)) as [i Hi] by (apply (idxs_dom_ids _ W); rewrite El; left).
    rewrite Hem, lookup_empty in Hi. done. }
  rewrite bool_decide_eq_false_2 by apply W.
  destruct (imc m) as [|r rest]; [done|].
  destruct (entry_query_random_conn_spec e sr r W Hqn) as (c & Hcin & ->).
  cbn. rewrite Hc1.
  destruct (inv_conn _ _ _ I _ _ _ He Hcin) as [ci Hci]. rewrite Hci. cbn.
  assert (forall x, ims (isend_or_remove x c ci (IQuery sr t)) = ims x) as Hims
    by (intros x; unfold isend_or_remove; by destruct (ci_alive ci)).
  rewrite Hims. cbn. rewrite Hc1, Hi1. split; [|done].
  set (e' := e <| e_queried := Some {| q_conn := c; q_serial := sr |} |>).
  assert (entry_wf e') as W'.
  { destruct W. split; cbn; try done. intros q [= <-]. done. }
  split; cbn; rewrite ?He1, ?Hq1, ?Hc1.
  - intros t0 e0. destruct (decide (t0 = t)) as [->|Hne].
    + rewrite lookup_insert. by intros [= <-].
    + rewrite lookup_insert_ne by done. apply (inv_wf _ _ _ I).
  - intros t0 e0. destruct (decide (t0 = t)) as [->|Hne].
    + rewrite lookup_insert. intros [= <-] _ _. cbn. eauto.
    + rewrite lookup_insert_ne by done. intros H0 HnL. apply (inv_live _ _ _ I _ _ H0). set_solver.
  - intros t0 e0. destruct (decide (t0 = t)) as [->|Hne]; [set_solver|].
    rewrite lookup_insert_ne by done. intros H0 HnL. apply (inv_L _ _ _ I _ _ H0). set_solver.
  - intros t0 e0 c0. destruct (decide (t0 = t)) as [->|Hne].
    + rewrite lookup_insert. intros [= <-]. cbn. by apply (inv_conn _ _ _ I _ _ _ He).
    + rewrite lookup_insert_ne by done. apply (inv_conn _ _ _ I).
  - intros t0 e0 q0. destruct (decide (t0 = t)) as [->|Hne].
    + rewrite lookup_insert. intros [= <-]. cbn. by apply (inv_pconn _ _ _ I _ _ _ He).
    + rewrite lookup_insert_ne by done. apply (inv_pconn _ _ _ I).
  - intros t0 e0 q0. destruct (decide (t0 = t)) as [->|Hne].
    + rewrite lookup_insert. intros [= <-]. cbn. intros [= <-]. cbn. rewrite lookup_insert. split; [done|].
      intros HG. destruct (inv_G _ _ _ I _ HG) as [? ?]. congruence.
    + rewrite lookup_insert_ne by done. intros H0 Hq0. destruct (inv_q1 _ _ _ I _ _ _ H0 Hq0) as [Hm HnG].
      split; [|done]. rewrite lookup_insert_ne; [done|]. intros Heq. rewrite <- Heq in Hm. congruence.
  - intros sr0 t0. destruct (decide (sr0 = sr)) as [->|Hne].
    + rewrite lookup_insert. intros [= <-]. right. exists e', {| q_conn := c; q_serial := sr |}.
      rewrite lookup_insert. done.
    + rewrite lookup_insert_ne by done. intros H0. destruct (inv_q2 _ _ _ I _ _ H0) as [?|(e0 & q0 & H1 & H2 & H3)]; [by left|].
      right. destruct (decide (t0 = t)) as [->|Hnt].
      * assert (e0 = e) as -> by congruence. congruence.
      * exists e0, q0. by rewrite lookup_insert_ne.
  - intros sr0 HG. destruct (inv_G _ _ _ I _ HG) as [x Hx]. destruct (decide (sr0 = sr)) as [->|Hne]; [congruence|].
    rewrite lookup_insert_ne by done. eauto.
Qed.

Lemma idb_inv_g_L G L L' s : L = L' -> idb_inv_g G L s -> idb_inv_g G L' s.
Proof. by intros ->. Qed.

(* ================================================================ register_introspection *)
Lemma reg1 s t c :
  idb_inv s -> is_Some (i_conns s !! c) ->
  idb_inv (s <| i_entries := <[t := entry_register (default ientry0 (i_entries s !! t)) c]> (i_entries s) |>).
Proof.
  intros I Hc. set (e0 := default ientry0 (i_entries s !! t)).
  assert ((entry_wf e0 /\ i_entries s !! t = Some e0) \/ (e0 = ientry0 /\ i_entries s !! t = None)) as H0.
  { unfold e0. destruct (i_entries s !! t) as [e|] eqn:E; cbn; [left|right; done]. split; [|done]. by apply (inv_wf _ _ _ I t). }
  destruct (entry_register_spec e0 c ltac:(destruct H0 as [[? _]|[? _]]; auto)) as (W' & Hmem & Hin & Hq & Hp).
  split; cbn.
  - intros t0 e. destruct (decide (t0 = t)) as [->|Hne].
    + rewrite lookup_insert. by intros [= <-].
    + rewrite lookup_insert_ne by done. apply (inv_wf _ _ _ I).
  - intros t0 e. destruct (decide (t0 = t)) as [->|Hne].
    + rewrite lookup_insert. intros [= <-] _. rewrite Hp, Hq. destruct H0 as [[_ H0]|[-> _]]; [|done].
      apply (inv_live _ _ _ I _ _ H0). set_solver.
    + rewrite lookup_insert_ne by done. apply (inv_live _ _ _ I).
  - set_solver.
  - intros t0 e c0. destruct (decide (t0 = t)) as [->|Hne].
    + rewrite lookup_insert. intros [= <-]. rewrite Hmem. intros [Hin0| ->]; [|done].
      destruct H0 as [[_ H0]|[-> _]]; [by apply (inv_conn _ _ _ I _ _ _ H0)|by apply elem_of_nil in Hin0].
    + rewrite lookup_insert_ne by done. apply (inv_conn _ _ _ I).
  - intros t0 e q0. destruct (decide (t0 = t)) as [->|Hne].
    + rewrite lookup_insert. intros [= <-]. rewrite Hp.
      destruct H0 as [[_ H0]|[-> _]]; [by apply (inv_pconn _ _ _ I _ _ _ H0)|intros Hx; by apply elem_of_nil in Hx].
    + rewrite lookup_insert_ne by done. apply (inv_pconn _ _ _ I).
  - intros t0 e q0. destruct (decide (t0 = t)) as [->|Hne].
    + rewrite lookup_insert. intros [= <-]. rewrite Hq.
      destruct H0 as [[_ H0]|[-> _]]; [by apply (inv_q1 _ _ _ I _ _ _ H0)|done].
    + rewrite lookup_insert_ne by done. apply (inv_q1 _ _ _ I).
  - intros sr t0 Hs. destruct (inv_q2 _ _ _ I _ _ Hs) as [?|(e & q & H1 & H2 & H3)]; [by left|]. right.
    destruct (decide (t0 = t)) as [->|Hne].
    + destruct H0 as [[_ H0]|[_ H0]]; [|congruence]. assert (e = e0) as -> by congruence.
      eexists _, q. rewrite lookup_insert. split; [done|]. by rewrite Hq.
    + exists e, q. by rewrite lookup_insert_ne.
  - set_solver.
Qed.

Lemma reg_fold c l : forall s,
  idb_inv s -> is_Some (i_conns s !! c) ->
  idb_inv (s <| i_entries := foldl (fun ents t => <[t := entry_register (default ientry0 (ents !! t)) c]> ents) (i_entries s) l |>).
Proof.
  induction l as [|t l IH]; intros s I Hc; cbn.
  - by destruct s.
  - specialize (IH _ (reg1 s t c I Hc) Hc). by destruct s.
Qed.

Lemma db_register_ok m c ts :
  idb_inv (ims m) ->
  ores (fun m' => idb_inv (ims m') /\ i_conns (ims m') = i_conns (ims m) /\ i_idle (ims m') = i_idle (ims m) /\
                  imq m' = imq m /\ imo m' = imo m) (db_register m c ts).
Proof.
  intros I. unfold db_register. destruct (i_conns (ims m) !! c) as [ci|] eqn:Ec; [|done].
  destruct (ci_ver ci <? _); [done|]. destruct ts as [l|]; [|done]. cbn.
  split; [|done]. apply reg_fold; [done|eauto].
Qed.

(* ================================================================ query_introspection *)
Lemma inv_add_pending s t e q (L : gset itid) :
  idb_inv s -> i_entries s !! t = Some e -> e_intro e = None -> is_Some (i_conns s !! q_conn q) ->
  L ⊆ {[t]} -> (t ∈ L -> e_queried e = None) -> (t ∉ L -> is_Some (e_queried e)) ->
  idb_inv_g ∅ L (s <| i_entries := <[t := e <| e_pending := e_pending e ++ [q] |>]> (i_entries s) |>).
Proof.
  intros I He Hin Hc HL HL1 HL2.
  pose proof (inv_wf _ _ _ I _ _ He) as W.
  assert (entry_wf (e <| e_pending := e_pending e ++ [q] |>)) as W' by (destruct W; split; cbn; done).
  split; cbn.
  - intros t0 e0. destruct (decide (t0 = t)) as [->|Hne].
    + rewrite lookup_insert. by intros [= <-].
    + rewrite lookup_insert_ne by done. apply (inv_wf _ _ _ I).
  - intros t0 e0. destruct (decide (t0 = t)) as [->|Hne].
    + rewrite lookup_insert. intros [= <-] HnL _. cbn. auto.
    + rewrite lookup_insert_ne by done. intros H0 _. apply (inv_live _ _ _ I _ _ H0). set_solver.
  - intros t0 e0. destruct (decide (t0 = t)) as [->|Hne]; [|set_solver].
    rewrite lookup_insert. intros [= <-] HinL. cbn. auto.
  - intros t0 e0 c0. destruct (decide (t0 = t)) as [->|Hne].
    + rewrite lookup_insert. intros [= <-]. cbn. by apply (inv_conn _ _ _ I _ _ _ He).
    + rewrite lookup_insert_ne by done. apply (inv_conn _ _ _ I).
  - intros t0 e0 q0. destruct (decide (t0 = t)) as [->|Hne].
    + rewrite lookup_insert. intros [= <-]. cbn. rewrite elem_of_app, elem_of_list_singleton.
      intros [Hq0| ->]; [by apply (inv_pconn _ _ _ I _ _ _ He)|done].
    + rewrite lookup_insert_ne by done. apply (inv_pconn _ _ _ I).
  - intros t0 e0 q0. destruct (decide (t0 = t)) as [->|Hne].
    + rewrite lookup_insert. intros [= <-]. cbn. by apply (inv_q1 _ _ _ I _ _ _ He).
    + rewrite lookup_insert_ne by done. apply (inv_q1 _ _ _ I).
  - intros sr t0 Hs. destruct (inv_q2 _ _ _ I _ _ Hs) as [?|(e0 & q0 & H1 & H2 & H3)]; [by left|]. right.
    destruct (decide (t0 = t)) as [->|Hne].
    + assert (e0 = e) as -> by congruence. eexists _, q0. rewrite lookup_insert. done.
    + exists e0, q0. by rewrite lookup_insert_ne.
  - set_solver.
Qed.

Definition frame (m m' : IM) : Prop :=
  i_conns (ims m') = i_conns (ims m) /\ i_idle (ims m') = i_idle (ims m).

Lemma db_query_ok m c serial t :
  idb_inv (ims m) -> ores (fun m' => idb_inv (ims m') /\ frame m m') (db_query m c serial t).
Proof.
  intros I. unfold db_query, frame. destruct (i_conns (ims m) !! c) as [ci|] eqn:Ec; [|done].
  destruct (ci_ver ci <? _); [done|].
  destruct (i_entries (ims m) !! t) as [e|] eqn:Ee.
  2:{ destruct (ci_alive ci); done. }
  destruct (e_intro e) as [p|] eqn:Ein.
  { destruct (ci_alive ci); done. }
  cbn. destruct (e_queried e) as [q|] eqn:Eq; cbn.
  - split; [|done]. destruct (ims m) as [cs es qm qn idl] eqn:Es. cbn in *.
    apply (inv_add_pending {| i_conns := cs; i_entries := es; i_qmap := qm; i_qnext := qn; i_idle := idl |}
             t e {| q_conn := c; q_serial := serial |} ∅); cbn; eauto; try set_solver.
  - set (e1 := e <| e_pending := e_pending e ++ [{| q_conn := c; q_serial := serial |}] |>).
    set (m1 := m <| ims; i_entries ::= <[t := e1]> |>).
    assert (idb_inv_g ∅ {[t]} (ims m1)) as I1.
    { unfold m1. cbn. destruct (ims m) as [cs es qm qn idl] eqn:Es. cbn in *.
      apply (inv_add_pending {| i_conns := cs; i_entries := es; i_qmap := qm; i_qnext := qn; i_idle := idl |}
               t e {| q_conn := c; q_serial := serial |} {[t]}); cbn; eauto; set_solver. }
    eapply ores_mono; [|apply (ask_ok 121 m1 t e1 ∅ {[t]} I1); [set_solver|unfold m1; cbn; by rewrite lookup_insert]].
    intros m' (I' & Hc' & Hi'). split; [|done]. eapply idb_inv_g_L; [|exact I']. set_solver.
Qed.

(* ================================================================ query_introspection_reply *)
Lemma inv_reply_update s t e q e' (L : gset itid) :
  idb_inv s -> i_entries s !! t = Some e -> e_queried e = Some q ->
  entry_wf e' -> e_queried e' = None ->
  (forall x, x ∈ e_ids e' -> x ∈ e_ids e) -> (forall x, x ∈ e_pending e' -> x ∈ e_pending e) ->
  L ⊆ {[t]} -> (t ∈ L -> e_intro e' = None) -> (t ∉ L -> e_pending e' = []) ->
  idb_inv_g ∅ L (s <| i_entries := <[t := e']> (i_entries s) |> <| i_qmap := delete (q_serial q) (i_qmap s) |>).
Proof.
  intros I He Hq W' Hq' Hids Hpend HL HL1 HL2.
  destruct (inv_q1 _ _ _ I _ _ _ He Hq) as [Hqm _].
  assert (forall t0 e0 q0, t0 <> t -> i_entries s !! t0 = Some e0 -> e_queried e0 = Some q0 -> q_serial q0 <> q_serial q) as Hother.
  { intros t0 e0 q0 Hne H0 Hq0 Heq. destruct (inv_q1 _ _ _ I _ _ _ H0 Hq0) as [Hm _]. rewrite Heq in Hm. congruence. }
  split; cbn.
  - intros t0 e0. destruct (decide (t0 = t)) as [->|Hne].
    + rewrite lookup_insert. by intros [= <-].
    + rewrite lookup_insert_ne by done. apply (inv_wf _ _ _ I).
  - intros t0 e0. destruct (decide (t0 = t)) as [->|Hne].
    + rewrite lookup_insert. intros [= <-] HnL Hp. by rewrite HL2 in Hp.
    + rewrite lookup_insert_ne by done. intros H0 _. apply (inv_live _ _ _ I _ _ H0). set_solver.
  - intros t0 e0. destruct (decide (t0 = t)) as [->|Hne]; [|set_solver].
    rewrite lookup_insert. intros [= <-] HinL. auto.
  - intros t0 e0 c0. destruct (decide (t0 = t)) as [->|Hne].
    + rewrite lookup_insert. intros [= <-] Hx. apply (inv_conn _ _ _ I _ _ _ He). auto.
    + rewrite lookup_insert_ne by done. apply (inv_conn _ _ _ I).
  - intros t0 e0 q0. destruct (decide (t0 = t)) as [->|Hne].
    + rewrite lookup_insert. intros [= <-] Hx. apply (inv_pconn _ _ _ I _ _ _ He). auto.
    + rewrite lookup_insert_ne by done. apply (inv_pconn _ _ _ I).
  - intros t0 e0 q0. destruct (decide (t0 = t)) as [->|Hne].
    + rewrite lookup_insert. intros [= <-]. congruence.
    + rewrite lookup_insert_ne by done. intros H0 Hq0. destruct (inv_q1 _ _ _ I _ _ _ H0 Hq0) as [Hm HnG].
      split; [|done]. rewrite lookup_delete_ne; [done|]. intros Heq. eapply Hother; eauto.
  - intros sr t0 Hs. apply lookup_delete_Some in Hs as [Hne Hs].
    destruct (inv_q2 _ _ _ I _ _ Hs) as [?|(e0 & q0 & H1 & H2 & H3)]; [by left|]. right.
    destruct (decide (t0 = t)) as [->|Hnt].
    + assert (e0 = e) as -> by congruence. congruence.
    + exists e0, q0. by rewrite lookup_insert_ne.
  - set_solver.
Qed.

Lemma inv_reply_delete s t e q :
  idb_inv s -> i_entries s !! t = Some e -> e_queried e = Some q ->
  idb_inv (s <| i_entries := delete t (i_entries s) |> <| i_qmap := delete (q_serial q) (i_qmap s) |>).
Proof.
  intros I He Hq.
  destruct (inv_q1 _ _ _ I _ _ _ He Hq) as [Hqm _].
  split; cbn.
  - intros t0 e0 [_ H0]%lookup_delete_Some. by apply (inv_wf _ _ _ I t0).
  - intros t0 e0 [_ H0]%lookup_delete_Some. by apply (inv_live _ _ _ I t0).
  - set_solver.
  - intros t0 e0 c0 [_ H0]%lookup_delete_Some. by apply (inv_conn _ _ _ I t0).
  - intros t0 e0 q0 [_ H0]%lookup_delete_Some. by apply (inv_pconn _ _ _ I t0).
  - intros t0 e0 q0 [Hne H0]%lookup_delete_Some Hq0. destruct (inv_q1 _ _ _ I _ _ _ H0 Hq0) as [Hm HnG].
    split; [|done]. rewrite lookup_delete_ne; [done|]. intros Heq. rewrite Heq in Hqm. congruence.
  - intros sr t0 Hs. apply lookup_delete_Some in Hs as [Hne Hs].
    destruct (inv_q2 _ _ _ I _ _ Hs) as [?|(e0 & q0 & H1 & H2 & H3)]; [by left|]. right.
    destruct (decide (t0 = t)) as [->|Hnt].
    + assert (e0 = e) as -> by congruence. congruence.
    + exists e0, q0. by rewrite lookup_delete_ne.
  - set_solver.
Qed.

Lemma db_reply_ok m c serial r :
  idb_inv (ims m) -> ores (fun m' => idb_inv (ims m') /\ frame m m') (db_reply m c serial r).
Proof.
  intros I. unfold db_reply, frame. destruct (i_conns (ims m) !! c) as [ci|] eqn:Ec; [|done].
  destruct (ci_ver ci <? _); [done|].
  destruct (i_qmap (ims m) !! serial) as [t|] eqn:Eqm; [|done].
  destruct (inv_q2 _ _ _ I _ _ Eqm) as [?|(e & q & He & Hq & Hqs)]; [set_solver|].
  rewrite He, Hq. destruct (bool_decide_reflect (q_conn q = c)) as [Hqc|]; [|done]. cbn [negb].
  rewrite bool_decide_eq_true_2 by done. cbn [negb].
  pose proof (inv_wf _ _ _ I _ _ He) as W.
  destruct (wf_queried _ W _ Hq) as [Hcin Hin]. rewrite Hin.
  rewrite bool_decide_eq_false_2 by (intros [? ?]; done).
  set (e1 := e <| e_queried := None |>).
  assert (entry_wf e1) as W1 by (destruct W; split; cbn; done).
  destruct (ims m) as [cs es qm qn idl] eqn:Es. cbn in He, Eqm, Ec.
  set (s0 := {| i_conns := cs; i_entries := es; i_qmap := qm; i_qnext := qn; i_idle := idl |}) in *.
  destruct r as [p|].
  - (* Available *)
    cbn. rewrite bool_decide_eq_false_2 by (rewrite Hin; intros [? ?]; done).
    set (e2 := e1 <| e_pending := [] |> <| e_intro := Some p |>).
    set (m2 := m <| ims; i_qmap ::= delete serial |> <| ims; i_entries ::= <[t := e2]> |>).
    assert (idb_inv (ims m2)) as I2.
    { unfold m2. cbn. rewrite Es. cbn. subst serial.
      apply (inv_reply_update s0 t e q e2 ∅); try done; try set_solver.
      destruct W; split; cbn; done. }
    eapply ores_mono; [|apply (answer_ok (Some 134) (Some p) (e_pending e1) m2)].
    + intros m' [-> _]. split; [done|]. unfold m2. cbn. by rewrite Es.
    + right. intros q0 Hq0. unfold m2. cbn. rewrite Es. cbn. by apply (inv_pconn _ _ _ I t e).
  - (* Unavailable *)
    destruct (entry_remove_conn_spec e1 c W1) as (e2 & b & -> & Hin2 & Hq2 & Hp2 & Hb & Htrue).
    assert (forall x, x ∈ e_pending e2 -> x ∈ e_pending e) as Hpsub.
    { intros x. rewrite Hp2, elem_of_drop_pending. cbn. tauto. }
    destruct b.
    + (* Continue *)
      destruct (Htrue eq_refl) as [W2 Hmem2].
      set (m2 := m <| ims; i_qmap ::= delete serial |> <| ims; i_entries ::= <[t := e2]> |>).
      assert (idb_inv_g ∅ {[t]} (ims m2)) as I2.
      { unfold m2. cbn. rewrite Es. cbn. subst serial.
        apply (inv_reply_update s0 t e q e2 {[t]}); try done; try set_solver.
        - intros x Hx. apply Hmem2 in Hx as [Hx _]. done.
        - intros _. by rewrite Hin2. }
      eapply ores_mono; [|apply (ask_ok 136 m2 t e2 ∅ {[t]} I2); [set_solver|unfold m2; cbn; by rewrite lookup_insert]].
      intros m' (I' & Hc' & Hi'). split.
      * eapply idb_inv_g_L; [|exact I']. set_solver.
      * rewrite Hc', Hi'. unfold m2. cbn. by rewrite Es.
    + (* Unavailable for everybody *)
      set (m2 := m <| ims; i_qmap ::= delete serial |> <| ims; i_entries ::= delete t |>).
      assert (idb_inv (ims m2)) as I2.
      { unfold m2. cbn. rewrite Es. cbn. subst serial. by apply (inv_reply_delete s0 t e q). }
      eapply ores_mono; [|apply (answer_ok (Some 135) None (e_pending e2) m2)].
      * intros m' [-> _]. split; [done|]. unfold m2. cbn. by rewrite Es.
      * right. intros q0 Hq0. unfold m2. cbn. rewrite Es. cbn. apply (inv_pconn _ _ _ I t e); [done|]. auto.
Qed.
