(* Broker/InvProofsGone.v — queued removals happen: a connection that is queued in w_remove_conns
   (because its handler failed, a send to it failed, or a shutdown event named it) is not
   connected when the work loop is done, and nothing reconnects it.  Needs no invariant: a
   traversal of the model's code (same scheme as InvProofsAlive.v). *)
From stdpp Require Import gmap list.
From RecordUpdate Require Import RecordSet.
Import RecordSetNotations.
From Aldrin Require Import gen.BrokerConsts Broker.Model Broker.Run Broker.InvProofsAlive.
Local Open Scope N_scope.

Definition gone' (c : conn) (Cn : gmap conn cstate) (q : list (conn * bool)) : Prop :=
  (∃ sd, (c, sd) ∈ q) ∨ Cn !! c = None.
Definition gone (c : conn) (m : M) : Prop := gone' c (conns (ms m)) (w_remove_conns (mw m)).

Lemma gone_insert c Cn q c1 cs1 cs1' :
  Cn !! c1 = Some cs1 → gone' c Cn q → gone' c (<[c1 := cs1']> Cn) q.
Proof.
  intros H1 [Hq|Hn]; [by left|right]. rewrite lookup_insert_ne; [done|]. intros ->. congruence.
Qed.
Lemma gone_push c Cn q x : gone' c Cn q → gone' c Cn (x :: q).
Proof. intros [[sd Hq]|Hn]; [left; exists sd; by right|by right]. Qed.
Lemma gone_delete c Cn q c' : gone' c Cn q → gone' c (delete c' Cn) q.
Proof.
  intros [Hq|Hn]; [by left|right]. destruct (decide (c = c')) as [->|Hne]; [apply lookup_delete|].
  by rewrite lookup_delete_ne.
Qed.

Section Gone.
  Context (c : conn).
  Local Notation P := (gone c).

  Lemma send_gone m c' x from : P m → opr P (send m c' x from).
  Proof. intros H. unfold send. destruct (conns (ms m) !! c'); [|done]. destruct (cs_alive _); exact H. Qed.
  Lemma send_or_remove_gone m c' x from : P m → opr P (send_or_remove m c' x from).
  Proof.
    intros H. unfold send_or_remove, send. destruct (conns (ms m) !! c') as [cs'|] eqn:E; [|done].
    destruct (cs_alive cs') eqn:Ea; cbn; [exact H|]. unfold gone. cbn. by apply gone_push.
  Qed.
  Lemma send_ignore_gone m c' x from : P m → opr P (send_ignore m c' x from).
  Proof. intros H. unfold send_ignore, send. destruct (conns (ms m) !! c'); [|done]. destruct (cs_alive _); exact H. Qed.

  Ltac leaf :=
    first
      [ assumption
      | match goal with H : gone c ?m |- gone c _ => exact H end
      | match goal with H : gone c ?m |- gone c _ =>
          unfold gone in *; cbn;
          first [ exact H
                | eapply gone_insert; [eassumption|exact H] ]
        end ].

  Ltac step1 :=
    match goal with
    | |- opr _ (Panic _) => exact I
    | |- opr _ (Done _) => cbn [opr]
    | |- opr _ (Fail _) => cbn [opr]
    | |- opr _ (_ >>> _) => apply opr_bind; [|intros ? ?]
    | |- opr _ (foldO _ _ _) => apply opr_foldO; [intros ? ? ?; cbv beta|]
    | |- opr _ (send_or_remove _ _ _ _) => apply send_or_remove_gone
    | |- opr _ (send_ignore _ _ _ _) => apply send_ignore_gone
    | |- opr _ (send _ _ _ _) => apply send_gone
    | |- opr _ (let _ := _ in _) => cbv zeta
    | |- opr _ (match ?x with _ => _ end) => destruct x eqn:?
    | |- opr _ (if ?x then _ else _) => destruct x eqn:?
    | |- ?Q (foldl ?f ?m ?l) => apply (pr_foldl Q f l m); [intros ? ? ?; cbv beta|]
    | |- ?Q (foldr ?f ?m ?l) => apply (pr_foldr Q f l m); [intros ? ? ?; cbv beta|]
    | |- gone _ (match ?x with _ => _ end) => destruct x eqn:?
    | |- gone _ (if ?x then _ else _) => destruct x eqn:?
    | |- gone _ (let _ := _ in _) => cbv zeta
    | |- gone ?c0 (set _ _ ?x) => change (gone c0 x)
    | |- _ => leaf
    end.

  Lemma remove_listener_gone m k : P m → P (remove_listener m k).
  Proof. intros H. unfold remove_listener. destruct (listeners (ms m) !! k); exact H. Qed.
  Lemma remove_end_gone m k e : P m → opr P (remove_end m k e).
  Proof. intros H. unfold remove_end. repeat step1. Qed.
  Lemma remove_service_gone m k : P m → opr P (remove_service m k).
  Proof. intros H. unfold remove_service. repeat step1. Qed.
  Lemma remove_object_gone m k : P m → opr P (remove_object m k).
  Proof.
    intros H. unfold remove_object.
    repeat first [ match goal with |- opr _ (remove_service _ _) => apply remove_service_gone end | step1 ].
  Qed.
  Lemma bus_gone m ev : P m → opr P (bus m ev).
  Proof. intros H. unfold bus. repeat step1. Qed.
  Lemma abort_call_gone m b callee : P m → opr P (abort_call m b callee).
  Proof. intros H. unfold abort_call. repeat step1. Qed.

  (* removing [c] itself establishes the predicate; removing another connection keeps it *)
  Lemma shutdown_conn_gone m c' sd : c' = c ∨ P m → opr P (shutdown_conn m c' sd).
  Proof.
    intros H. unfold shutdown_conn. destruct (conns (ms m) !! c') as [cs|] eqn:Hc.
    2:{ destruct H as [->|H]; [by right|exact H]. }
    cbv zeta.
    match goal with |- opr _ (foldO _ _ (foldl _ ?a _) >>> _) => assert (P a) as H1 end.
    { destruct (sd && cs_alive cs); unfold gone in *; cbn;
        (destruct H as [->|H]; [right; apply lookup_delete|by apply gone_delete]). }
    match goal with |- opr _ (foldO _ _ (foldl _ ?a _) >>> _) => generalize dependent a; intros m1 H1 end.
    clear H.
    repeat first
      [ match goal with
        | |- opr _ (remove_object _ _) => apply remove_object_gone
        | |- opr _ (remove_end _ _ _) => apply remove_end_gone
        | |- gone _ (remove_listener _ _) => apply remove_listener_gone
        end
      | step1 ].
  Qed.

  Lemma settle_one_gone m r : P m → settle_one m = Some r → opr P r.
  Proof.
    intros H. unfold settle_one. destruct (w_remove_conns (mw m)) as [|[c' sd] q] eqn:Eq.
    - assert (∀ m', w_remove_conns (mw m') = w_remove_conns (mw m) → conns (ms m') = conns (ms m) → P m') as H'.
      { intros m' Hw Hs. unfold gone. by rewrite Hw, Hs. }
      repeat match goal with
             | |- match ?l with [] => _ | _ :: _ => _ end = Some _ → _ => destruct l as [|? ?]
             | |- (let '(_, _) := ?p in _) = Some _ → _ => destruct p
             end; try discriminate; intros [= <-];
        repeat first
          [ match goal with
            | |- opr _ (abort_call _ _ _) => apply abort_call_gone
            | |- opr _ (bus _ _) => apply bus_gone
            | |- gone _ _ => solve [apply H'; reflexivity]
            end
          | step1 ].
    - intros [= <-]. apply shutdown_conn_gone. destruct H as [[sd0 H]|H].
      + rewrite Eq in H. apply elem_of_cons in H as [[= -> ->]|H]; [by left|].
        right. left. exists sd0. exact H.
      + right. right. exact H.
  Qed.

  Lemma settle_gone fuel : ∀ m, P m → opr P (settle fuel m).
  Proof.
    induction fuel as [|fuel IH]; intros m H; cbn [settle];
      destruct (settle_one m) as [r|] eqn:E; try exact H;
      pose proof (settle_one_gone m r H E) as Hr; destruct r; cbn in Hr |- *; trivial; apply IH; assumption.
  Qed.
End Gone.

(* when the work loop stops normally the removal queue is empty *)
Lemma settle_done_queue fuel : ∀ m m', settle fuel m = Done m' → w_remove_conns (mw m') = [].
Proof.
  induction fuel as [|fuel IH]; intros m m'; cbn [settle]; destruct (settle_one m) as [[m1|m1|]|] eqn:E;
    try discriminate; try (apply IH).
  - intros [= <-]. unfold settle_one in E. by destruct (w_remove_conns (mw m)) as [|[? ?] ?].
  - intros [= <-]. unfold settle_one in E. by destruct (w_remove_conns (mw m)) as [|[? ?] ?].
Qed.

Lemma settle_never_fails fuel : ∀ m m', settle fuel m ≠ Fail m'.
Proof.
  induction fuel as [|fuel IH]; intros m m'; cbn [settle]; destruct (settle_one m) as [[m1|m1|]|];
    try discriminate; apply IH.
Qed.

Lemma settle_gone_done c fuel m m' : gone c m → settle fuel m = Done m' → conns (ms m') !! c = None.
Proof.
  intros H Hs. pose proof (settle_gone c fuel m H) as Hg. rewrite Hs in Hg. cbn in Hg.
  destruct Hg as [[sd Hq]|Hn]; [|done]. rewrite (settle_done_queue _ _ _ Hs) in Hq. by apply elem_of_nil in Hq.
Qed.
