(* Broker/EventProofs.v — C04 on the abstract broker machine: event fan-out (who receives an
   EmitEvent, how often, with which payload), the owner's 0<->1 subscriber-count notifications at
   handler level and on a subscriber's disconnect, and the ServiceDestroyed notification queue. *)
From stdpp Require Import gmap list.
From RecordUpdate Require Import RecordSet.
Import RecordSetNotations.
From Aldrin Require Import gen.BrokerConsts Broker.Model Broker.Run Broker.OutKinds.
From Coq Require Import Lia.
Local Open Scope N_scope.

(* ---------------------------------------------------------------- vocabulary *)
Definition is_emit (o : out) : bool := match o.1.2 with EmitEvent _ _ _ => true | _ => false end.

Lemma K_settle_not_emit o : K_settle o -> is_emit o = false.
Proof. intros [H _]. unfold is_emit. destruct (o.1.2); cbn in H; try reflexivity; destruct H. Qed.

(* ---------------------------------------------------------------- handler equations *)
Lemma handle_EmitEvent m c cs sc ev v f b : conns (ms m) !! c = Some cs ->
  handle m c (EmitEvent sc ev v) f b =
      match svc_by_cookie (ms m) sc with
      | None => Done m
      | Some (k, s) =>
          match owner_of_svc (ms m) k with
          | None => Panic 29
          | Some owner =>
              if negb (bool_decide (owner = c)) then Done m else
              let t : gset conn := s_all s ∪ default ∅ (s_events s !! ev) in
              foldO (fun m x => send_or_remove m x (EmitEvent sc ev v) (Some (cs_ver cs))) (elements t) m
          end
      end.
Proof. intros H. unfold handle. rewrite H. reflexivity. Qed.

(* ---------------------------------------------------------------- fan-out *)
(* sending one message to a list of connections: the state is untouched, exactly the alive ones
   get the message (in list order), the dead ones are queued for removal *)
Lemma fanout_fold (x0 : msg) (from : option N) l : forall m m',
  foldO (fun m x => send_or_remove m x x0 from) l m = Done m' ->
  ms m' = ms m /\
  mo m' = mo m ++ ((fun x => (x, x0, from)) <$> List.filter (alive (ms m)) l) /\
  mw m' = mw m <| w_remove_conns :=
                    rev ((fun x => (x, false)) <$> List.filter (fun x => negb (alive (ms m) x)) l)
                    ++ w_remove_conns (mw m) |> /\
  Forall (fun x => is_Some (conns (ms m) !! x)) l.
Proof.
  induction l as [|x l IH]; intros m m'; cbn [foldO].
  - intros [= <-]. cbn. rewrite app_nil_r. repeat split; try reflexivity; [|constructor].
    destruct (mw m); reflexivity.
  - unfold send_or_remove at 1. unfold send. cbn [List.filter].
    destruct (conns (ms m) !! x) as [cs|] eqn:Ex; [|discriminate].
    assert (Hal : alive (ms m) x = cs_alive cs) by (unfold alive; rewrite Ex; reflexivity).
    rewrite Hal.
    destruct (cs_alive cs) eqn:Ea; cbn [negb]; intros H; apply IH in H as (H1 & H2 & H3 & H4); cbn in H1, H2, H3, H4.
    + rewrite H1, H2, H3. cbn. rewrite <- app_assoc. repeat split; try reflexivity.
      constructor; [rewrite Ex; eauto|exact H4].
    + rewrite H1, H2, H3. cbn. rewrite <- app_assoc. repeat split; try reflexivity.
      constructor; [rewrite Ex; eauto|exact H4].
Qed.

(* all destinations alive: nothing but the sends happens *)
Lemma fanout_fold_alive (x0 : msg) (from : option N) l m m' :
  foldO (fun m x => send_or_remove m x x0 from) l m = Done m' ->
  (forall x, In x l -> alive (ms m) x = true) ->
  m' = m <| mo := mo m ++ ((fun x => (x, x0, from)) <$> l) |>.
Proof.
  intros H Ha. apply fanout_fold in H as (H1 & H2 & H3 & _).
  rewrite (list_filter_all _ l Ha) in H2.
  assert (E : List.filter (fun x => negb (alive (ms m) x)) l = []).
  { clear -Ha. induction l as [|a l IH]; cbn; [reflexivity|]. rewrite (Ha a (or_introl eq_refl)). cbn.
    apply IH. intros b Hb. apply Ha. right. exact Hb. }
  rewrite E in H3. cbn in H3. destruct m as [s w o], m' as [s' w' o']. cbn in *. subst.
  destruct w; reflexivity.
Qed.

(* the set of subscribers an event is fanned out to *)
Definition event_targets (sv : svc) (ev : N) : gset conn := s_all sv ∪ default ∅ (s_events sv !! ev).

Lemma event_targets_spec sv ev x :
  x ∈ event_targets sv ev <-> x ∈ s_all sv \/ exists set, s_events sv !! ev = Some set /\ x ∈ set.
Proof.
  unfold event_targets. rewrite elem_of_union. split; (intros [H|H]; [left; exact H|right]).
  - destruct (s_events sv !! ev) as [set|]; cbn in H; [eauto|]. exfalso. revert H. apply not_elem_of_empty.
  - destruct H as (set & -> & H). exact H.
Qed.

(* C04_fanout, owner case: the EmitEvent outputs of the step are exactly one copy, payload and ids
   unchanged, tagged with the owner's version, for every alive subscriber of that event id or of
   all events; [elements] has no duplicates *)
Theorem fanout_owner s c cs sc ev v f b s' o k sv :
  conns s !! c = Some cs -> svc_by_cookie s sc = Some (k, sv) -> owner_of_svc s k = Some c ->
  step s (Message c (EmitEvent sc ev v)) f b = Done (s', o) ->
  List.filter is_emit o =
    (fun x => (x, EmitEvent sc ev v, Some (cs_ver cs))) <$> List.filter (alive s) (elements (event_targets sv ev)) /\
  NoDup (elements (event_targets sv ev)) /\
  Forall (fun x => is_Some (conns s !! x)) (elements (event_targets sv ev)).
Proof.
  intros Hc Hs Ho Hstep. apply step_outputs in Hstep as (m & l & Hh & -> & Hl).
  cbn [step_handler] in Hh. fold (m_init s) in Hh.
  rewrite (handle_EmitEvent (m_init s) c cs) in Hh by exact Hc.
  cbn [ms m_init] in Hh. rewrite Hs, Ho in Hh.
  rewrite bool_decide_eq_true_2 in Hh by reflexivity. cbn [negb] in Hh.
  fold (event_targets sv ev) in Hh. cbv zeta in Hh.
  destruct (foldO _ _ _) as [m1|m1|] eqn:Ef in Hh; try discriminate.
  - injection Hh as <-. apply fanout_fold in Ef as (_ & E2 & _ & E4). cbn in E2, E4.
    split; [|split; [apply NoDup_elements|exact E4]].
    rewrite list_filter_app, (filter_K_settle_nil is_emit l K_settle_not_emit Hl), app_nil_r, E2.
    apply list_filter_all. intros a Ha. apply in_map_iff in Ha as (x & <- & _). reflexivity.
  - exfalso. clear -Ef. revert Ef. generalize (m_init s). induction (elements _) as [|x l IH]; intros m; cbn; [discriminate|].
    unfold send_or_remove at 1. destruct (send m x _ _); try discriminate; apply IH.
Qed.

(* with every subscriber alive the step changes nothing but the outputs, and there are no other
   outputs at all *)
Theorem fanout_owner_alive s c cs sc ev v f b s' o k sv :
  conns s !! c = Some cs -> svc_by_cookie s sc = Some (k, sv) -> owner_of_svc s k = Some c ->
  (forall x, x ∈ event_targets sv ev -> alive s x = true) ->
  step s (Message c (EmitEvent sc ev v)) f b = Done (s', o) ->
  s' = s /\ o = (fun x => (x, EmitEvent sc ev v, Some (cs_ver cs))) <$> elements (event_targets sv ev).
Proof.
  intros Hc Hs Ho Ha. rewrite step_unfold. cbn [step_handler]. fold (m_init s).
  rewrite (handle_EmitEvent (m_init s) c cs) by exact Hc.
  cbn [ms m_init]. rewrite Hs, Ho.
  rewrite bool_decide_eq_true_2 by reflexivity. cbn [negb].
  fold (event_targets sv ev). cbv zeta.
  destruct (foldO _ _ _) as [m1|m1|] eqn:Ef; try discriminate.
  - apply fanout_fold_alive in Ef; [|intros x Hx; apply Ha, elem_of_elements, elem_of_list_In, Hx].
    subst m1. rewrite settle_idle by reflexivity. intros [= <- <-]. split; reflexivity.
  - exfalso. clear -Ef. revert Ef. generalize (m_init s). induction (elements _) as [|x l IH]; intros m; cbn; [discriminate|].
    unfold send_or_remove at 1. destruct (send m x _ _); try discriminate; apply IH.
Qed.

(* C04_fanout, non-owner or unknown cookie: nothing is output at all and the state is unchanged *)
Theorem fanout_dropped s c cs sc ev v f b s' o :
  conns s !! c = Some cs ->
  (svc_by_cookie s sc = None \/
   exists k sv owner, svc_by_cookie s sc = Some (k, sv) /\ owner_of_svc s k = Some owner /\ owner <> c) ->
  step s (Message c (EmitEvent sc ev v)) f b = Done (s', o) ->
  s' = s /\ o = [].
Proof.
  intros Hc Hcase. rewrite step_unfold. cbn [step_handler]. fold (m_init s).
  rewrite (handle_EmitEvent (m_init s) c cs) by exact Hc. cbn [ms m_init].
  destruct Hcase as [->|(k & sv & owner & -> & -> & Hne)].
  - rewrite settle_idle by reflexivity. intros [= <- <-]. split; reflexivity.
  - rewrite bool_decide_eq_false_2 by exact Hne. cbn [negb].
    rewrite settle_idle by reflexivity. intros [= <- <-]. split; reflexivity.
Qed.

(* an unconnected sender: the message is ignored *)
Theorem message_unconnected s c x f b s' o :
  conns s !! c = None -> step s (Message c x) f b = Done (s', o) -> s' = s /\ o = [].
Proof.
  intros Hc. rewrite step_unfold. cbn [step_handler]. unfold handle. cbn [ms]. rewrite Hc.
  rewrite settle_idle by reflexivity. intros [= <- <-]. split; reflexivity.
Qed.

(* the per-connection reading: how many copies of the event connection [x] gets in the step *)
Definition emits_to (x : conn) (o : list out) : list out :=
  List.filter (fun p : out => bool_decide (p.1.1 = x)) (List.filter is_emit o).

Lemma filter_map_conn (g : conn -> out) x l : (forall y, (g y).1.1 = y) -> NoDup l ->
  List.filter (fun p : out => bool_decide (p.1.1 = x)) (g <$> l) = if bool_decide (x ∈ l) then [g x] else [].
Proof.
  intros Hg. induction 1 as [|y l Hy Hnd IH]; cbn [fmap list_fmap List.filter].
  - rewrite bool_decide_eq_false_2; [reflexivity|]. apply not_elem_of_nil.
  - rewrite Hg, IH. destruct (bool_decide_reflect (y = x)) as [->|Hne].
    + rewrite bool_decide_eq_false_2 by exact Hy. rewrite bool_decide_eq_true_2; [reflexivity|]. left.
    + destruct (bool_decide_reflect (x ∈ l)) as [Hin|Hnin].
      * rewrite bool_decide_eq_true_2; [reflexivity|]. right. exact Hin.
      * rewrite bool_decide_eq_false_2; [reflexivity|]. intros Hx. apply elem_of_cons in Hx as [->|Hx]; auto.
Qed.

Lemma NoDup_list_filter {A} (p : A -> bool) l : NoDup l -> NoDup (List.filter p l).
Proof.
  induction 1 as [|a l Ha Hnd IH]; cbn; [constructor|]. destruct (p a); [|exact IH].
  constructor; [|exact IH]. intros Hin. apply Ha. apply elem_of_list_In in Hin.
  apply filter_In in Hin as [Hin _]. apply elem_of_list_In. exact Hin.
Qed.

Theorem fanout_exactly_once s c cs sc ev v f b s' o k sv x :
  conns s !! c = Some cs -> svc_by_cookie s sc = Some (k, sv) -> owner_of_svc s k = Some c ->
  step s (Message c (EmitEvent sc ev v)) f b = Done (s', o) ->
  emits_to x o = if bool_decide (x ∈ event_targets sv ev) && alive s x
                 then [(x, EmitEvent sc ev v, Some (cs_ver cs))] else [].
Proof.
  intros Hc Hs Ho Hstep. destruct (fanout_owner _ _ _ _ _ _ _ _ _ _ _ _ Hc Hs Ho Hstep) as (E & Hnd & _).
  unfold emits_to. rewrite E.
  rewrite (filter_map_conn (fun x => (x, EmitEvent sc ev v, Some (cs_ver cs)))); [|reflexivity|apply NoDup_list_filter, Hnd].
  assert (Hiff : x ∈ List.filter (alive s) (elements (event_targets sv ev)) <-> x ∈ event_targets sv ev /\ alive s x = true).
  { rewrite elem_of_list_In, filter_In, <- elem_of_list_In, elem_of_elements. reflexivity. }
  destruct (bool_decide_reflect (x ∈ List.filter (alive s) (elements (event_targets sv ev)))) as [Hin|Hnin].
  - apply Hiff in Hin as [H1 H2]. rewrite bool_decide_eq_true_2, H2 by exact H1. reflexivity.
  - destruct (bool_decide_reflect (x ∈ event_targets sv ev)) as [H1|H1]; [|reflexivity].
    destruct (alive s x) eqn:H2; [|reflexivity]. exfalso. apply Hnin, Hiff. auto.
Qed.

(* ---------------------------------------------------------------- 0<->1 transitions: requests *)
Lemma step_message_idle s c x f b m :
  handle (m_init s) c x f b = Done m -> mw m = work0 ->
  step s (Message c x) f b = Done (ms m, mo m).
Proof.
  intros H Hw. rewrite step_unfold. cbn [step_handler]. fold (m_init s). rewrite H.
  rewrite settle_idle by exact Hw. reflexivity.
Qed.

Lemma svc_by_cookie_Some s c k sv : svc_by_cookie s c = Some (k, sv) ->
  svcs s !! k = Some sv /\ s_cookie sv = c.
Proof.
  unfold svc_by_cookie. destruct (list_find _ _) as [[i [k' sv']]|] eqn:E; cbn; [|discriminate].
  intros [= -> ->]. apply list_find_Some in E as (E1 & E2 & _).
  apply elem_of_list_lookup_2, elem_of_map_to_list in E1. cbn in E2.
  apply bool_decide_unpack in E2. auto.
Qed.

Lemma gate_pass m c cs minv k : conns (ms m) !! c = Some cs -> minv <= cs_ver cs -> gate m c minv k = k m.
Proof.
  intros H Hv. unfold gate, ver_of. rewrite H. cbn.
  destruct (N.ltb_spec (cs_ver cs) minv); [lia|reflexivity].
Qed.

Lemma handle_SubscribeEvent m c cs serial sc ev f b : conns (ms m) !! c = Some cs ->
  handle m c (SubscribeEvent (Some serial) sc ev) f b =
      match svc_by_cookie (ms m) sc with
      | None => send m c (SubscribeEventReply serial false) None
      | Some (k, s) =>
          match owner_of_svc (ms m) k with
          | None => Panic 27
          | Some owner =>
              send m c (SubscribeEventReply serial true) None >>> fun m1 =>
              let first := negb (bool_decide (is_Some (s_events s !! ev))) in
              let set := default ∅ (s_events s !! ev) ∪ {[c]} in
              let m2 := m1 <| ms; svcs ::= <[k := s <| s_events ::= <[ev := set]> |>]> |> in
              if first && has m2 owner then send_ignore m2 owner (SubscribeEvent None sc ev) None else Done m2
          end
      end.
Proof. intros H. unfold handle. rewrite H. reflexivity. Qed.

Lemma handle_UnsubscribeEvent m c cs sc ev f b : conns (ms m) !! c = Some cs ->
  handle m c (UnsubscribeEvent sc ev) f b =
      match svc_by_cookie (ms m) sc with
      | None => Done m
      | Some (k, s) =>
          match owner_of_svc (ms m) k, s_events s !! ev with
          | None, _ => Panic 28
          | Some owner, None => Done m
          | Some owner, Some set0 =>
              let set := set0 ∖ {[c]} in
              if bool_decide (set = ∅) then
                let m1 := m <| ms; svcs ::= <[k := s <| s_events ::= delete ev |>]> |> in
                send_or_remove m1 owner (UnsubscribeEvent sc ev) None
              else Done (m <| ms; svcs ::= <[k := s <| s_events ::= <[ev := set]> |>]> |>)
          end
      end.
Proof. intros H. unfold handle. rewrite H. reflexivity. Qed.

Lemma handle_SubscribeAllEvents m c cs serial sc f b : conns (ms m) !! c = Some cs -> 18 <= cs_ver cs ->
  handle m c (SubscribeAllEvents (Some serial) sc) f b =
            match svc_by_cookie (ms m) sc with
            | None => send m c (SubscribeAllEventsReply serial SAInvalid) None
            | Some (k, s) =>
                match owner_of_svc (ms m) k with
                | None => Panic 35
                | Some owner =>
                    match conns (ms m) !! owner with
                    | None => Panic 36
                    | Some ocs =>
                        if negb (default false (i_sub_all (s_info s))) || (cs_ver ocs <? MIN_SUBSCRIBE_ALL_EVENTS_OWNER)
                        then send m c (SubscribeAllEventsReply serial SANotSupported) None
                        else send m c (SubscribeAllEventsReply serial SAOk) None >>> fun m1 =>
                             let was_empty := bool_decide (s_all s = ∅) in
                             let m2 := m1 <| ms; svcs ::= <[k := s <| s_all ::= fun x => {[c]} ∪ x |>]> |> in
                             if was_empty then send_ignore m2 owner (SubscribeAllEvents None sc) None else Done m2
                    end
                end
            end.
Proof.
  intros H Hv. unfold handle. rewrite H.
  rewrite (gate_pass m c cs) by (try exact H; change MIN_SUBSCRIBE_ALL_EVENTS with 18; exact Hv). reflexivity.
Qed.

Lemma handle_UnsubscribeAllEvents m c cs serial sc f b : conns (ms m) !! c = Some cs -> 18 <= cs_ver cs ->
  handle m c (UnsubscribeAllEvents serial sc) f b =
        let reply r := match serial with Some serial => send m c (UnsubscribeAllEventsReply serial r) None | None => Done m end in
        match svc_by_cookie (ms m) sc with
        | None => reply SAInvalid
        | Some (k, s) =>
            match owner_of_svc (ms m) k with
            | None => Panic 37
            | Some owner =>
                match conns (ms m) !! owner with
                | None => Panic 38
                | Some ocs =>
                    if cs_ver ocs <? MIN_UNSUBSCRIBE_ALL_EVENTS_OWNER then reply SANotSupported else
                    reply SAOk >>> fun m1 =>
                    let was_empty := bool_decide (s_all s = ∅) in
                    let all' := s_all s ∖ {[c]} in
                    let m2 := m1 <| ms; svcs ::= <[k := s <| s_all := all' |>]> |> in
                    if negb was_empty && bool_decide (all' = ∅)
                    then send_ignore m2 owner (UnsubscribeAllEvents None sc) None else Done m2
                end
            end
        end.
Proof.
  intros H Hv. unfold handle. rewrite H.
  rewrite (gate_pass m c cs) by (try exact H; change MIN_UNSUBSCRIBE_ALL_EVENTS with 18; exact Hv). reflexivity.
Qed.

(* send_ignore to a connected peer: one output iff its receiver is alive, never any work *)
Lemma send_ignore_connected m c x from cs : conns (ms m) !! c = Some cs ->
  send_ignore m c x from = Done (m <| mo := mo m ++ (if cs_alive cs then [(c, x, from)] else []) |>).
Proof.
  intros H. destruct (cs_alive cs) eqn:E.
  - apply (send_ignore_alive m c x from cs H E).
  - rewrite (send_ignore_dead m c x from cs H E). rewrite app_nil_r. destruct m; reflexivity.
Qed.

(* SubscribeEvent: the requester is accepted iff the cookie names a service; the owner is told to
   start producing the event iff the event had no entry before (and the owner's receiver is
   alive: the broker ignores a failed send here) *)
Theorem subscribe_event_step s c cs serial sc ev f b k sv owner :
  conns s !! c = Some cs -> cs_alive cs = true ->
  svc_by_cookie s sc = Some (k, sv) -> owner_of_svc s k = Some owner ->
  step s (Message c (SubscribeEvent (Some serial) sc ev)) f b =
    Done (s <| svcs ::= <[k := sv <| s_events ::= <[ev := default ∅ (s_events sv !! ev) ∪ {[c]}]> |>]> |>,
          (c, SubscribeEventReply serial true, None) ::
          (if bool_decide (s_events sv !! ev = None) && alive s owner
           then [(owner, SubscribeEvent None sc ev, None)] else [])).
Proof.
  intros Hc Hal Hs Ho.
  set (s1 := s <| svcs ::= <[k := sv <| s_events ::= <[ev := default ∅ (s_events sv !! ev) ∪ {[c]}]> |>]> |>).
  set (o1 := (c, SubscribeEventReply serial true, None) :: _).
  assert (H : handle (m_init s) c (SubscribeEvent (Some serial) sc ev) f b = Done {| ms := s1; mw := work0; mo := o1 |}).
  { rewrite (handle_SubscribeEvent _ c cs) by exact Hc. cbn [ms m_init]. rewrite Hs, Ho.
    erewrite send_alive by eassumption. cbn [andThen]. cbv zeta. subst o1. unfold alive, has. cbn [ms set].
    match goal with |- context [bool_decide (is_Some (?t !! owner))] => change t with (conns s) end.
    destruct (s_events sv !! ev) as [set0|] eqn:Eev.
    - rewrite (bool_decide_eq_true_2 (is_Some (Some set0))) by eauto.
      rewrite (bool_decide_eq_false_2 (Some set0 = None)) by discriminate. reflexivity.
    - rewrite (bool_decide_eq_false_2 (is_Some None)) by (intros [? ?]; discriminate).
      rewrite (bool_decide_eq_true_2 (None = None)) by reflexivity. cbn [negb andb].
      destruct (conns s !! owner) as [ocs|] eqn:Eo.
      + rewrite bool_decide_eq_true_2 by eauto.
        erewrite send_ignore_connected by (cbn; exact Eo). destruct (cs_alive ocs); reflexivity.
      + rewrite bool_decide_eq_false_2 by (intros [? ?]; discriminate). reflexivity. }
  apply step_message_idle in H; [exact H|reflexivity].
Qed.

Theorem subscribe_event_invalid s c cs serial sc ev f b :
  conns s !! c = Some cs -> cs_alive cs = true -> svc_by_cookie s sc = None ->
  step s (Message c (SubscribeEvent (Some serial) sc ev)) f b =
    Done (s, [(c, SubscribeEventReply serial false, None)]).
Proof.
  intros Hc Hal Hs.
  assert (H : handle (m_init s) c (SubscribeEvent (Some serial) sc ev) f b =
              Done (m_init s <| mo := [(c, SubscribeEventReply serial false, None)] |>)).
  { rewrite (handle_SubscribeEvent _ c cs) by exact Hc. cbn [ms m_init]. rewrite Hs.
    erewrite send_alive by eassumption. reflexivity. }
  apply step_message_idle in H; [exact H|reflexivity].
Qed.

(* UnsubscribeEvent: the owner is told to stop iff the event's subscriber set becomes empty *)
Theorem unsubscribe_event_step s c cs sc ev f b k sv owner ocs set0 :
  conns s !! c = Some cs ->
  svc_by_cookie s sc = Some (k, sv) -> owner_of_svc s k = Some owner ->
  s_events sv !! ev = Some set0 ->
  conns s !! owner = Some ocs -> cs_alive ocs = true ->
  step s (Message c (UnsubscribeEvent sc ev)) f b =
    if bool_decide (set0 ∖ {[c]} = ∅)
    then Done (s <| svcs ::= <[k := sv <| s_events ::= delete ev |>]> |>, [(owner, UnsubscribeEvent sc ev, None)])
    else Done (s <| svcs ::= <[k := sv <| s_events ::= <[ev := set0 ∖ {[c]}]> |>]> |>, []).
Proof.
  intros Hc Hs Ho Hev Hoc Hoa.
  assert (H : handle (m_init s) c (UnsubscribeEvent sc ev) f b =
    if bool_decide (set0 ∖ {[c]} = ∅)
    then Done {| ms := s <| svcs ::= <[k := sv <| s_events ::= delete ev |>]> |>; mw := work0;
                 mo := [(owner, UnsubscribeEvent sc ev, None)] |}
    else Done {| ms := s <| svcs ::= <[k := sv <| s_events ::= <[ev := set0 ∖ {[c]}]> |>]> |>; mw := work0; mo := [] |}).
  { rewrite (handle_UnsubscribeEvent _ c cs) by exact Hc. cbn [ms m_init]. rewrite Hs, Ho, Hev. cbv zeta.
    destruct (bool_decide (set0 ∖ {[c]} = ∅)); [|reflexivity].
    erewrite send_or_remove_alive by (try exact Hoa; cbn; exact Hoc). reflexivity. }
  destruct (bool_decide (set0 ∖ {[c]} = ∅)); apply step_message_idle in H; try exact H; reflexivity.
Qed.

(* ... and nothing at all happens for an unknown cookie or an event nobody is subscribed to *)
Theorem unsubscribe_event_noop s c cs sc ev f b :
  conns s !! c = Some cs ->
  (svc_by_cookie s sc = None \/
   exists k sv owner, svc_by_cookie s sc = Some (k, sv) /\ owner_of_svc s k = Some owner /\ s_events sv !! ev = None) ->
  step s (Message c (UnsubscribeEvent sc ev)) f b = Done (s, []).
Proof.
  intros Hc Hcase.
  assert (H : handle (m_init s) c (UnsubscribeEvent sc ev) f b = Done (m_init s)).
  { rewrite (handle_UnsubscribeEvent _ c cs) by exact Hc. cbn [ms m_init].
    destruct Hcase as [->|(k & sv & owner & -> & -> & ->)]; reflexivity. }
  apply step_message_idle in H; [exact H|reflexivity].
Qed.

(* SubscribeAllEvents (accepted: the service supports it and the owner speaks version 18): the
   owner is told iff nobody was subscribed to all events before *)
Theorem subscribe_all_step s c cs serial sc f b k sv owner ocs :
  conns s !! c = Some cs -> cs_alive cs = true -> 18 <= cs_ver cs ->
  svc_by_cookie s sc = Some (k, sv) -> owner_of_svc s k = Some owner -> conns s !! owner = Some ocs ->
  i_sub_all (s_info sv) = Some true -> 18 <= cs_ver ocs ->
  step s (Message c (SubscribeAllEvents (Some serial) sc)) f b =
    Done (s <| svcs ::= <[k := sv <| s_all ::= fun x => {[c]} ∪ x |>]> |>,
          (c, SubscribeAllEventsReply serial SAOk, None) ::
          (if bool_decide (s_all sv = ∅) && cs_alive ocs then [(owner, SubscribeAllEvents None sc, None)] else [])).
Proof.
  intros Hc Hal Hv Hs Ho Hoc Hsub Hov.
  set (s1 := s <| svcs ::= _ |>). set (o1 := _ :: _).
  assert (H : handle (m_init s) c (SubscribeAllEvents (Some serial) sc) f b = Done {| ms := s1; mw := work0; mo := o1 |}).
  { rewrite (handle_SubscribeAllEvents _ c cs) by assumption. cbn [ms m_init]. rewrite Hs, Ho, Hoc, Hsub.
    cbn [default from_option id negb orb]. change MIN_SUBSCRIBE_ALL_EVENTS_OWNER with 18.
    destruct (N.ltb_spec (cs_ver ocs) 18) as [?|_]; [lia|].
    erewrite send_alive by eassumption. cbn [andThen]. cbv zeta. subst o1.
    destruct (bool_decide (s_all sv = ∅)); [|reflexivity].
    erewrite send_ignore_connected by (cbn; exact Hoc). destruct (cs_alive ocs); reflexivity. }
  apply step_message_idle in H; [exact H|reflexivity].
Qed.

(* UnsubscribeAllEvents (accepted): the owner is told iff the set was non-empty and becomes empty *)
Theorem unsubscribe_all_step s c cs serial sc f b k sv owner ocs :
  conns s !! c = Some cs -> (serial <> None -> cs_alive cs = true) -> 18 <= cs_ver cs ->
  svc_by_cookie s sc = Some (k, sv) -> owner_of_svc s k = Some owner -> conns s !! owner = Some ocs ->
  18 <= cs_ver ocs ->
  step s (Message c (UnsubscribeAllEvents serial sc)) f b =
    Done (s <| svcs ::= <[k := sv <| s_all := s_all sv ∖ {[c]} |>]> |>,
          (match serial with Some n => [(c, UnsubscribeAllEventsReply n SAOk, None)] | None => [] end) ++
          (if negb (bool_decide (s_all sv = ∅)) && bool_decide (s_all sv ∖ {[c]} = ∅) && cs_alive ocs
           then [(owner, UnsubscribeAllEvents None sc, None)] else [])).
Proof.
  intros Hc Hal Hv Hs Ho Hoc Hov.
  set (s1 := s <| svcs ::= _ |>). set (o1 := _ ++ _).
  assert (H : handle (m_init s) c (UnsubscribeAllEvents serial sc) f b = Done {| ms := s1; mw := work0; mo := o1 |}).
  { rewrite (handle_UnsubscribeAllEvents _ c cs) by assumption. cbn [ms m_init]. cbv zeta. rewrite Hs, Ho, Hoc.
    change MIN_UNSUBSCRIBE_ALL_EVENTS_OWNER with 18.
    destruct (N.ltb_spec (cs_ver ocs) 18) as [?|_]; [lia|]. subst o1.
    destruct serial as [n|].
    - erewrite send_alive; [|exact Hc|apply Hal; discriminate]. cbn [andThen].
      destruct (negb (bool_decide (s_all sv = ∅)) && bool_decide (s_all sv ∖ {[c]} = ∅)); [|reflexivity].
      erewrite send_ignore_connected by (cbn; exact Hoc). destruct (cs_alive ocs); reflexivity.
    - cbn [andThen].
      destruct (negb (bool_decide (s_all sv = ∅)) && bool_decide (s_all sv ∖ {[c]} = ∅)); [|reflexivity].
      erewrite send_ignore_connected by (cbn; exact Hoc). destruct (cs_alive ocs); reflexivity. }
  apply step_message_idle in H; [exact H|reflexivity].
Qed.

(* rejected requests: no message to the owner, no state change *)
Theorem subscribe_all_rejected s c cs serial sc f b :
  conns s !! c = Some cs -> cs_alive cs = true -> 18 <= cs_ver cs ->
  (svc_by_cookie s sc = None \/
   exists k sv owner ocs, svc_by_cookie s sc = Some (k, sv) /\ owner_of_svc s k = Some owner /\
     conns s !! owner = Some ocs /\ (i_sub_all (s_info sv) <> Some true \/ cs_ver ocs < 18)) ->
  exists r, r <> SAOk /\
    step s (Message c (SubscribeAllEvents (Some serial) sc)) f b =
      Done (s, [(c, SubscribeAllEventsReply serial r, None)]).
Proof.
  intros Hc Hal Hv Hcase.
  assert (H : exists r, r <> SAOk /\ handle (m_init s) c (SubscribeAllEvents (Some serial) sc) f b =
              Done (m_init s <| mo := [(c, SubscribeAllEventsReply serial r, None)] |>)).
  { rewrite (handle_SubscribeAllEvents _ c cs) by assumption. cbn [ms m_init].
    destruct Hcase as [->|(k & sv & owner & ocs & -> & -> & -> & Hno)].
    - exists SAInvalid. split; [discriminate|]. erewrite send_alive by eassumption. reflexivity.
    - exists SANotSupported. split; [discriminate|].
      assert (E : negb (default false (i_sub_all (s_info sv))) || (cs_ver ocs <? MIN_SUBSCRIBE_ALL_EVENTS_OWNER) = true).
      { change MIN_SUBSCRIBE_ALL_EVENTS_OWNER with 18. destruct Hno as [Hno|Hno].
        - destruct (i_sub_all (s_info sv)) as [[|]|]; cbn; try reflexivity. congruence.
        - destruct (N.ltb_spec (cs_ver ocs) 18); [|lia]. apply orb_true_r. }
      rewrite E. erewrite send_alive by eassumption. reflexivity. }
  destruct H as (r & Hr & H). exists r. split; [exact Hr|].
  apply step_message_idle in H; [exact H|reflexivity].
Qed.

(* ---------------------------------------------------------------- remove_service *)
Definition connected (s : state) (x : conn) : bool := bool_decide (is_Some (conns s !! x)).

(* the connections told about the destruction of a service: the service's subscribers and the
   subscribers of any single event (NOT those subscribed to all events only — this is what
   Broker::remove_service does) *)
Definition event_subscribers (sv : svc) : gset conn := map_fold (fun _ set acc => set ∪ acc) ∅ (s_events sv).
Definition destroyed_targets (sv : svc) : gset conn := s_subs sv ∪ event_subscribers sv.

Lemma event_subscribers_spec sv x :
  x ∈ event_subscribers sv <-> exists e set, s_events sv !! e = Some set /\ x ∈ set.
Proof.
  unfold event_subscribers.
  apply (map_fold_ind (fun (r : gset conn) (E : gmap N (gset conn)) => x ∈ r <-> exists e set, E !! e = Some set /\ x ∈ set)).
  - split; [intros H; exfalso; revert H; apply not_elem_of_empty|].
    intros (e & set & H & _). rewrite lookup_empty in H. discriminate.
  - intros e set E r Hnone IH. rewrite elem_of_union, IH. split.
    + intros [H|(e' & set' & H1 & H2)].
      * exists e, set. rewrite lookup_insert. auto.
      * exists e', set'. rewrite lookup_insert_ne; [auto|]. intros ->. rewrite Hnone in H1. discriminate.
    + intros (e' & set' & H1 & H2). destruct (decide (e = e')) as [<-|Hne].
      * rewrite lookup_insert in H1. injection H1 as <-. left. exact H2.
      * rewrite lookup_insert_ne in H1 by exact Hne. right. eauto.
Qed.

(* the reply entry queued for a pending call of a removed service *)
Definition rm_call_entry (s : state) (b : N) : option (N * conn * call_result) :=
  match calls s !! b with
  | Some cl => if c_aborted cl then None else Some (c_serial cl, c_caller cl, CRInvalidService)
  | None => None
  end.

Definition rm_call_f (m : M) (b : N) : outcome M :=
  match calls (ms m) !! b with
  | None => Panic 11
  | Some cl =>
      let m' := m <| ms; calls ::= delete b |> in
      Done (if c_aborted cl then m'
            else m' <| mw; w_rm_call ::= cons (c_serial cl, c_caller cl, CRInvalidService) |>)
  end.

Lemma rm_calls_fold l : NoDup l -> forall m m', foldO rm_call_f l m = Done m' ->
  (forall b, calls (ms m') !! b = if bool_decide (b ∈ l) then None else calls (ms m) !! b) /\
  w_rm_call (mw m') = rev (omap (rm_call_entry (ms m)) l) ++ w_rm_call (mw m) /\
  m' = m <| ms; calls := calls (ms m') |> <| mw; w_rm_call := w_rm_call (mw m') |> /\
  Forall (fun b => is_Some (calls (ms m) !! b)) l.
Proof.
  induction 1 as [|b l Hb Hnd IH]; intros m m'; cbn [foldO].
  - intros [= <-]. split; [|split; [|split]].
    + intros b. rewrite bool_decide_eq_false_2; [reflexivity|apply not_elem_of_nil].
    + reflexivity.
    + destruct m as [[] [] ?]; reflexivity.
    + constructor.
  - unfold rm_call_f at 1. destruct (calls (ms m) !! b) as [cl|] eqn:Eb; [|discriminate].
    set (m1 := if c_aborted cl then _ else _). intros H. apply IH in H as (H1 & H2 & H3 & H4).
    assert (Hc1 : calls (ms m1) = delete b (calls (ms m))) by (subst m1; destruct (c_aborted cl); reflexivity).
    assert (Hpt : forall b', b' <> b -> rm_call_entry (ms m1) b' = rm_call_entry (ms m) b').
    { intros b' Hne. unfold rm_call_entry. rewrite Hc1, lookup_delete_ne by congruence. reflexivity. }
    assert (Hent : omap (rm_call_entry (ms m1)) l = omap (rm_call_entry (ms m)) l).
    { clear -Hb Hpt. induction l as [|b' l IH]; cbn [omap list_omap]; [reflexivity|].
      rewrite Hpt, IH; [reflexivity| |].
      - intros ?. apply Hb. right. assumption.
      - intros ->. apply Hb. left. }
    split; [|split; [|split]].
    + intros b'. rewrite H1, Hc1. destruct (decide (b' = b)) as [->|Hne].
      * rewrite (bool_decide_eq_true_2 (b ∈ b :: l)) by left. rewrite lookup_delete. destruct (bool_decide _); reflexivity.
      * rewrite lookup_delete_ne by congruence.
        destruct (bool_decide_reflect (b' ∈ l)) as [Hin|Hnin].
        -- rewrite bool_decide_eq_true_2; [reflexivity|right; exact Hin].
        -- rewrite bool_decide_eq_false_2; [reflexivity|]. intros Hx. apply elem_of_cons in Hx as [?|?]; auto.
    + rewrite H2, Hent. cbn [omap list_omap]. unfold rm_call_entry at 2. rewrite Eb.
      subst m1. destruct (c_aborted cl); cbn; [reflexivity|]. rewrite <- app_assoc. reflexivity.
    + rewrite H3. subst m1. destruct (c_aborted cl); reflexivity.
    + constructor; [rewrite Eb; eauto|].
      eapply Forall_impl; [exact H4|]. cbn. intros b' Hb'. rewrite Hc1 in Hb'.
      destruct (decide (b' = b)) as [->|Hne]; [rewrite Eb; eauto|]. rewrite lookup_delete_ne in Hb' by congruence. exact Hb'.
Qed.

Lemma svc_destroyed_fold cookie l m :
  foldr (fun c m => if has m c then m <| mw; w_svc_destroyed ::= cons (c, cookie) |> else m) m l =
  m <| mw; w_svc_destroyed ::= app ((fun x => (x, cookie)) <$> List.filter (connected (ms m)) l) |>.
Proof.
  induction l as [|x l IH]; cbn [foldr List.filter].
  - destruct m as [? [] ?]; reflexivity.
  - rewrite IH. unfold has, connected. cbn [ms set].
    destruct (bool_decide (is_Some (conns (ms m) !! x))); reflexivity.
Qed.

(* C04_service_destroyed / C02_destroyed, the queueing half: destroying a service deletes it (so
   every subscription to it ends) together with its pending calls, and queues exactly one
   ServiceDestroyed per connected target and one InvalidService reply per non-aborted call *)
Theorem remove_service_spec m cookie k sv m' :
  svc_by_cookie (ms m) cookie = Some (k, sv) -> remove_service m cookie = Done m' ->
  svcs (ms m') = delete k (svcs (ms m)) /\
  (forall b, calls (ms m') !! b = if bool_decide (b ∈ s_calls sv) then None else calls (ms m) !! b) /\
  w_rm_call (mw m') = rev (omap (rm_call_entry (ms m)) (elements (s_calls sv))) ++ w_rm_call (mw m) /\
  w_svc_destroyed (mw m') =
    ((fun x => (x, cookie)) <$> List.filter (connected (ms m)) (elements (destroyed_targets sv))) ++ w_svc_destroyed (mw m) /\
  w_destroy_svc (mw m') = (k.1, s_obj_cookie sv, k.2, s_cookie sv) :: w_destroy_svc (mw m) /\
  m' = m <| ms; svcs := svcs (ms m') |> <| ms; calls := calls (ms m') |> <| ms; st; n_svcs ::= sat_sub1 |>
         <| mw; w_rm_call := w_rm_call (mw m') |> <| mw; w_svc_destroyed := w_svc_destroyed (mw m') |>
         <| mw; w_destroy_svc := w_destroy_svc (mw m') |> /\
  Forall (fun b => is_Some (calls (ms m) !! b)) (elements (s_calls sv)).
Proof.
  intros Hs. unfold remove_service. rewrite Hs. fold rm_call_f.
  destruct (foldO rm_call_f _ _) as [m2|m2|] eqn:Ef; cbn [andThen]; try discriminate.
  apply rm_calls_fold in Ef as (H1 & H2 & H3 & H4); [|apply NoDup_elements].
  fold (event_subscribers sv). fold (destroyed_targets sv). rewrite svc_destroyed_fold.
  intros [= <-]. cbn in H1, H2, H3, H4. cbn [ms mw set].
  assert (Hcon : connected (ms m2) = connected (ms m)) by (rewrite H3; reflexivity).
  split; [|split; [|split; [|split; [|split; [|split]]]]].
  - rewrite H3. reflexivity.
  - intros b. cbn. rewrite H1. destruct (bool_decide_reflect (b ∈ elements (s_calls sv))) as [Hin|Hnin].
    + rewrite bool_decide_eq_true_2; [reflexivity|]. apply elem_of_elements. exact Hin.
    + rewrite bool_decide_eq_false_2; [reflexivity|]. intros Hx. apply Hnin, elem_of_elements. exact Hx.
  - cbn. exact H2.
  - cbn. rewrite Hcon. f_equal. rewrite H3. reflexivity.
  - cbn. rewrite H3. reflexivity.
  - clear -H3. destruct m as [[] [] ?], m2 as [[] [] ?]. cbn in H3. injection H3; intros; subst. reflexivity.
  - exact H4.
Qed.

(* the service is gone: no lookup by its cookie's key, hence no subscription to it *)
Corollary remove_service_deleted m cookie k sv m' :
  svc_by_cookie (ms m) cookie = Some (k, sv) -> remove_service m cookie = Done m' ->
  svcs (ms m') !! k = None.
Proof. intros Hs H. destruct (remove_service_spec _ _ _ _ _ Hs H) as (-> & _). apply lookup_delete. Qed.

Lemma remove_service_unknown m cookie : svc_by_cookie (ms m) cookie = None -> remove_service m cookie = Done m.
Proof. intros H. unfold remove_service. rewrite H. reflexivity. Qed.

(* who is in the queue *)
Lemma destroyed_targets_spec sv x :
  x ∈ destroyed_targets sv <-> x ∈ s_subs sv \/ exists e set, s_events sv !! e = Some set /\ x ∈ set.
Proof. unfold destroyed_targets. rewrite elem_of_union, event_subscribers_spec. reflexivity. Qed.

(* ---------------------------------------------------------------- the work loop's side *)
(* each queued ServiceDestroyed entry is turned into exactly one message (if the connection is
   still there), once the connection removals and unsubscribe notices queued before are done *)
Lemma settle_one_svc_destroyed m x sc r :
  w_remove_conns (mw m) = [] -> w_unsub_ev (mw m) = [] -> w_unsub_all (mw m) = [] ->
  w_svc_destroyed (mw m) = (x, sc) :: r ->
  settle_one m =
    Some (let m' := m <| mw; w_svc_destroyed := r |> in
          if has m' x then send_or_remove m' x (ServiceDestroyed sc) None else Done m').
Proof. intros H1 H2 H3 H4. unfold settle_one. rewrite H1, H2, H3, H4. reflexivity. Qed.

Lemma settle_one_unsub_ev m o sc e r :
  w_remove_conns (mw m) = [] -> w_unsub_ev (mw m) = (o, sc, e) :: r ->
  settle_one m =
    Some (let m' := m <| mw; w_unsub_ev := r |> in
          if has m' o then send_or_remove m' o (UnsubscribeEvent sc e) None else Done m').
Proof. intros H1 H2. unfold settle_one. rewrite H1, H2. reflexivity. Qed.

Lemma settle_one_unsub_all m o sc r :
  w_remove_conns (mw m) = [] -> w_unsub_ev (mw m) = [] -> w_unsub_all (mw m) = (o, sc) :: r ->
  settle_one m =
    Some (let m' := m <| mw; w_unsub_all := r |> in
          if has m' o then send_or_remove m' o (UnsubscribeAllEvents None sc) None else Done m').
Proof. intros H1 H2 H3. unfold settle_one. rewrite H1, H2, H3. reflexivity. Qed.

(* for an alive destination that is exactly one output and nothing else *)
Lemma settle_one_svc_destroyed_alive m x sc r xs :
  w_remove_conns (mw m) = [] -> w_unsub_ev (mw m) = [] -> w_unsub_all (mw m) = [] ->
  w_svc_destroyed (mw m) = (x, sc) :: r -> conns (ms m) !! x = Some xs -> cs_alive xs = true ->
  settle_one m = Some (Done (m <| mw; w_svc_destroyed := r |> <| mo := mo m ++ [(x, ServiceDestroyed sc, None)] |>)).
Proof.
  intros H1 H2 H3 H4 Hx Ha. rewrite (settle_one_svc_destroyed m x sc r) by assumption. cbv zeta.
  unfold has. cbn [ms set]. rewrite bool_decide_eq_true_2 by (rewrite Hx; eauto).
  erewrite send_or_remove_alive by (try exact Ha; cbn; exact Hx). reflexivity.
Qed.

(* ---------------------------------------------------------------- 0<->1 transitions: disconnect *)
(* the two subscription passes of Broker::shutdown_connection, named *)
Definition unsub_event_one (c owner : conn) (k : uuid * uuid) (m : M) (e : N) : M :=
  match svcs (ms m) !! k with
  | Some s =>
      let set := default ∅ (s_events s !! e) ∖ {[c]} in
      if bool_decide (set = ∅)
      then m <| ms; svcs ::= <[k := s <| s_events ::= delete e |>]> |>
             <| mw; w_unsub_ev ::= cons (owner, s_cookie s, e) |>
      else m <| ms; svcs ::= <[k := s <| s_events ::= <[e := set]> |>]> |>
  | None => m
  end.

(* the event ids of a service that [c] is subscribed to, in the map's order *)
Definition subscribed_events (c : conn) (sv : svc) : list N :=
  (fun p : N * gset conn => p.1) <$>
    List.filter (fun p : N * gset conn => bool_decide (c ∈ p.2)) (map_to_list (s_events sv)).

Definition unsub_events_svc (c : conn) (m : M) (k : uuid * uuid) : outcome M :=
  match svcs (ms m) !! k, owner_of_svc (ms m) k with
  | Some s, Some owner => Done (foldl (unsub_event_one c owner k) m (subscribed_events c s))
  | Some _, None => Panic 12
  | None, _ => Done m
  end.

Definition svc_keys (m : M) : list (uuid * uuid) := (fun p : uuid * uuid * svc => p.1) <$> map_to_list (svcs (ms m)).

Definition unsub_events_pass (c : conn) (m : M) : outcome M := foldO (unsub_events_svc c) (svc_keys m) m.

Definition unsub_all_svc (c : conn) (m : M) (k : uuid * uuid) : outcome M :=
  match svcs (ms m) !! k, owner_of_svc (ms m) k with
  | Some s, Some owner =>
      if bool_decide (c ∈ s_all s) then
        let all' := s_all s ∖ {[c]} in
        let m' := m <| ms; svcs ::= <[k := s <| s_all := all' |>]> |> in
        Done (if bool_decide (all' = ∅) then m' <| mw; w_unsub_all ::= cons (owner, s_cookie s) |> else m')
      else Done m
  | Some _, None => Panic 13
  | None, _ => Done m
  end.

Definition unsub_all_pass (c : conn) (m : M) : outcome M := foldO (unsub_all_svc c) (svc_keys m) m.

(* Broker::shutdown_connection with the two passes named *)
Lemma shutdown_conn_unfold m c sd :
  shutdown_conn m c sd =
  match conns (ms m) !! c with
  | None => Done m
  | Some cs =>
      let m0 := m <| ms; conns ::= delete c |> in
      let m1 := if sd && cs_alive cs then m0 <| mo := mo m0 ++ [(c, Shutdown, None)] |> else m0 in
      let ls := (fun p => p.1) <$> List.filter (fun p => bool_decide (l_owner p.2 = c)) (map_to_list (listeners (ms m1))) in
      let m2 := foldl remove_listener m1 ls in
      let owned := (fun p => o_cookie p.2) <$> List.filter (fun p => bool_decide (o_owner p.2 = c)) (map_to_list (objs (ms m2))) in
      foldO remove_object owned m2 >>> fun m3 =>
      unsub_events_pass c m3 >>> fun m4 =>
      unsub_all_pass c m4 >>> fun m5 =>
      let m6 := m5 <| ms; svcs ::= fmap (fun s => s <| s_subs ::= fun x => x ∖ {[c]} |>) |> in
      let cks := (fun p => p.1) <$> map_to_list (chans (ms m6)) in
      foldO (fun m k => match chans (ms m) !! k with
                        | Some ch => match ch_s ch with
                                     | Claimed o _ => if bool_decide (o = c) then remove_end m k ESender else Done m
                                     | _ => Done m end
                        | None => Done m end) cks m6 >>> fun m7 =>
      foldO (fun m k => match chans (ms m) !! k with
                        | Some ch => match ch_r ch with
                                     | Claimed o _ => if bool_decide (o = c) then remove_end m k EReceiver else Done m
                                     | _ => Done m end
                        | None => Done m end) cks m7 >>> fun m8 =>
      let m9 := foldr (fun p m => m <| mw; w_abort ::= cons p.2 |>) m8 (map_to_list (cs_calls cs)) in
      Done (m9 <| ms; st; n_conns ::= sat_sub1 |>)
  end.
Proof. reflexivity. Qed.

(* what removing [c] does to one event's subscriber set: the entry disappears when [c] was the
   last subscriber *)
Definition drop_sub (c : conn) (set : gset conn) : option (gset conn) :=
  if bool_decide (c ∈ set) then (if bool_decide (set ∖ {[c]} = ∅) then None else Some (set ∖ {[c]}))
  else Some set.
Definition svc_drop_events (c : conn) (sv : svc) : svc := sv <| s_events ::= omap (drop_sub c) |>.

(* the events of a service whose subscriber set becomes empty by removing [c] *)
Definition last_sub_events (c : conn) (sv : svc) : list N :=
  List.filter (fun e => bool_decide (default ∅ (s_events sv !! e) ∖ {[c]} = ∅)) (subscribed_events c sv).

Lemma subscribed_events_spec c sv e :
  e ∈ subscribed_events c sv <-> exists set, s_events sv !! e = Some set /\ c ∈ set.
Proof.
  unfold subscribed_events. rewrite elem_of_list_fmap. split.
  - intros ([e' set] & -> & H). apply elem_of_list_In, filter_In in H as [H1 H2].
    apply elem_of_list_In, elem_of_map_to_list in H1. apply bool_decide_eq_true_1 in H2. eauto.
  - intros (set & H1 & H2). exists (e, set). split; [reflexivity|].
    apply elem_of_list_In, filter_In. split.
    + apply elem_of_list_In, elem_of_map_to_list. exact H1.
    + apply bool_decide_eq_true_2. exact H2.
Qed.

Lemma NoDup_list_filter' {A} (p : A -> bool) l : NoDup l -> NoDup (List.filter p l).
Proof. apply NoDup_list_filter. Qed.

Lemma fmap_list_filter_fst {A B} (p : A * B -> bool) (l : list (A * B)) :
  NoDup (l.*1) -> NoDup ((List.filter p l).*1).
Proof.
  induction l as [|[a b] l IH]; cbn; [constructor|]. intros Hnd. apply NoDup_cons in Hnd as [Ha Hnd].
  destruct (p (a, b)); cbn; [|apply IH, Hnd]. apply NoDup_cons. split; [|apply IH, Hnd].
  intros Hin. apply Ha. apply elem_of_list_fmap in Hin as ([a' b'] & -> & Hin).
  apply elem_of_list_fmap. exists (a', b'). split; [reflexivity|].
  apply elem_of_list_In, filter_In in Hin as [Hin _]. apply elem_of_list_In. exact Hin.
Qed.

Lemma subscribed_events_NoDup c sv : NoDup (subscribed_events c sv).
Proof. unfold subscribed_events. apply (fmap_list_filter_fst _ (map_to_list (s_events sv))), NoDup_fst_map_to_list. Qed.

Lemma last_sub_events_spec c sv e :
  e ∈ last_sub_events c sv <-> exists set, s_events sv !! e = Some set /\ c ∈ set /\ set ∖ {[c]} = ∅.
Proof.
  unfold last_sub_events. rewrite elem_of_list_In, filter_In, <- elem_of_list_In, subscribed_events_spec. split.
  - intros ((set & H1 & H2) & H3). rewrite H1 in H3. apply bool_decide_eq_true_1 in H3. eauto.
  - intros (set & H1 & H2 & H3). split; [eauto|]. rewrite H1. apply bool_decide_eq_true_2. exact H3.
Qed.

(* the inner loop over one service's events *)
Lemma unsub_event_fold c owner k evs : NoDup evs -> forall m s,
  svcs (ms m) !! k = Some s ->
  let m' := foldl (unsub_event_one c owner k) m evs in
  exists E',
    (forall e, E' !! e = if bool_decide (e ∈ evs)
                        then (let set := default ∅ (s_events s !! e) ∖ {[c]} in
                              if bool_decide (set = ∅) then None else Some set)
                        else s_events s !! e) /\
    svcs (ms m') = <[k := s <| s_events := E' |>]> (svcs (ms m)) /\
    w_unsub_ev (mw m') =
      rev ((fun e => (owner, s_cookie s, e)) <$>
           List.filter (fun e => bool_decide (default ∅ (s_events s !! e) ∖ {[c]} = ∅)) evs) ++ w_unsub_ev (mw m) /\
    m' = m <| ms; svcs := svcs (ms m') |> <| mw; w_unsub_ev := w_unsub_ev (mw m') |>.
Proof.
  induction 1 as [|e evs He Hnd IH]; intros m s Hk; cbn [foldl].
  - exists (s_events s). split; [|split; [|split]].
    + intros e. rewrite bool_decide_eq_false_2; [reflexivity|apply not_elem_of_nil].
    + rewrite insert_id; [reflexivity|]. rewrite Hk. destruct s; reflexivity.
    + reflexivity.
    + destruct m as [[] [] ?]; reflexivity.
  - set (m1 := unsub_event_one c owner k m e).
    set (set0 := default ∅ (s_events s !! e) ∖ {[c]}).
    set (E1 := if bool_decide (set0 = ∅) then delete e (s_events s) else <[e := set0]> (s_events s)).
    assert (H1 : svcs (ms m1) = <[k := s <| s_events := E1 |>]> (svcs (ms m))).
    { subst m1 E1. unfold unsub_event_one. rewrite Hk. fold set0. destruct (bool_decide (set0 = ∅)); reflexivity. }
    assert (H1k : svcs (ms m1) !! k = Some (s <| s_events := E1 |>)) by (rewrite H1; apply lookup_insert).
    destruct (IH m1 _ H1k) as (E' & HE & Hs & Hw & Hf). clear IH. cbn [s_events s_cookie set] in HE, Hw.
    assert (Hne : forall e', e' ∈ evs -> E1 !! e' = s_events s !! e').
    { intros e' Hin. assert (e <> e') by (intros ->; exact (He Hin)). subst E1.
      destruct (bool_decide (set0 = ∅)); [apply lookup_delete_ne|apply lookup_insert_ne]; assumption. }
    exists E'. split; [|split; [|split]].
    + intros e'. rewrite HE. destruct (decide (e' = e)) as [->|Hne'].
      * rewrite (bool_decide_eq_false_2 (e ∈ evs)) by exact He.
        rewrite (bool_decide_eq_true_2 (e ∈ e :: evs)) by left. cbv zeta. fold set0. subst E1.
        destruct (bool_decide (set0 = ∅)); [apply lookup_delete|apply lookup_insert].
      * destruct (bool_decide_reflect (e' ∈ evs)) as [Hin|Hnin].
        -- rewrite (bool_decide_eq_true_2 (e' ∈ e :: evs)) by (right; exact Hin). rewrite (Hne e' Hin). reflexivity.
        -- rewrite (bool_decide_eq_false_2 (e' ∈ e :: evs)).
           ++ subst E1. destruct (bool_decide (set0 = ∅)); [apply lookup_delete_ne|apply lookup_insert_ne]; congruence.
           ++ intros Hx. apply elem_of_cons in Hx as [?|?]; auto.
    + rewrite Hs, H1, insert_insert. reflexivity.
    + rewrite Hw. cbn [List.filter]. fold set0.
      assert (Hfl : List.filter (fun e0 => bool_decide (default ∅ (E1 !! e0) ∖ {[c]} = ∅)) evs =
                    List.filter (fun e0 => bool_decide (default ∅ (s_events s !! e0) ∖ {[c]} = ∅)) evs).
      { clear -Hne. induction evs as [|e' evs IH]; cbn; [reflexivity|].
        rewrite (Hne e') by left. rewrite IH; [reflexivity|]. intros e'' Hin. apply Hne. right. exact Hin. }
      rewrite Hfl. subst m1. unfold unsub_event_one. rewrite Hk. fold set0.
      destruct (bool_decide (set0 = ∅)); cbn; [|reflexivity]. rewrite <- app_assoc. reflexivity.
    + rewrite Hf at 1. subst m1. unfold unsub_event_one. rewrite Hk. fold set0.
      destruct (bool_decide (set0 = ∅)); reflexivity.
Qed.

(* one service *)
Lemma unsub_events_svc_spec c m k m' : unsub_events_svc c m k = Done m' ->
  svcs (ms m') = match svcs (ms m) !! k with
                 | Some sv => <[k := svc_drop_events c sv]> (svcs (ms m))
                 | None => svcs (ms m) end /\
  w_unsub_ev (mw m') =
    rev (match svcs (ms m) !! k, owner_of_svc (ms m) k with
         | Some sv, Some o => (fun e => (o, s_cookie sv, e)) <$> last_sub_events c sv
         | _, _ => [] end) ++ w_unsub_ev (mw m) /\
  m' = m <| ms; svcs := svcs (ms m') |> <| mw; w_unsub_ev := w_unsub_ev (mw m') |>.
Proof.
  unfold unsub_events_svc. destruct (svcs (ms m) !! k) as [sv|] eqn:Ek.
  - destruct (owner_of_svc (ms m) k) as [o|]; [|discriminate]. intros [= <-].
    destruct (unsub_event_fold c o k _ (subscribed_events_NoDup c sv) m sv Ek) as (E' & HE & Hs & Hw & Hf).
    cbv zeta in Hs, Hw, Hf. split; [|split].
    + assert (HE' : E' = omap (drop_sub c) (s_events sv)).
      { apply map_eq. intros e. rewrite HE, lookup_omap.
        destruct (s_events sv !! e) as [set|] eqn:Ee; cbn.
        - unfold drop_sub. destruct (bool_decide_reflect (c ∈ set)) as [Hin|Hnin].
          + rewrite bool_decide_eq_true_2; [reflexivity|]. apply subscribed_events_spec. eauto.
          + rewrite bool_decide_eq_false_2; [reflexivity|]. intros Hx.
            apply subscribed_events_spec in Hx as (set' & Hx1 & Hx2). congruence.
        - rewrite bool_decide_eq_false_2; [reflexivity|]. intros Hx.
          apply subscribed_events_spec in Hx as (set' & Hx1 & Hx2). congruence. }
      rewrite Hs, HE'. reflexivity.
    + rewrite Hw. reflexivity.
    + exact Hf.
  - intros [= <-]. split; [reflexivity|]. split; [reflexivity|]. destruct m as [[] [] ?]; reflexivity.
Qed.

(* the entries the whole pass queues, per service key *)
Definition unsub_ev_entries (c : conn) (s : state) (k : uuid * uuid) : list (conn * uuid * N) :=
  match svcs s !! k, owner_of_svc s k with
  | Some sv, Some o => (fun e => (o, s_cookie sv, e)) <$> last_sub_events c sv
  | _, _ => []
  end.

Lemma flat_map_ext_in {A B} (f g : A -> list B) l : (forall a, a ∈ l -> f a = g a) -> flat_map f l = flat_map g l.
Proof.
  induction l as [|a l IH]; cbn; intros H; [reflexivity|]. rewrite (H a) by left. rewrite IH; [reflexivity|].
  intros a' Ha'. apply H. right. exact Ha'.
Qed.

Lemma unsub_events_fold c l : NoDup l -> forall m m', foldO (unsub_events_svc c) l m = Done m' ->
  (forall k, svcs (ms m') !! k = if bool_decide (k ∈ l) then svc_drop_events c <$> svcs (ms m) !! k
                                 else svcs (ms m) !! k) /\
  w_unsub_ev (mw m') = rev (flat_map (unsub_ev_entries c (ms m)) l) ++ w_unsub_ev (mw m) /\
  m' = m <| ms; svcs := svcs (ms m') |> <| mw; w_unsub_ev := w_unsub_ev (mw m') |>.
Proof.
  induction 1 as [|k l Hk Hnd IH]; intros m m'; cbn [foldO].
  - intros [= <-]. split; [|split].
    + intros k. rewrite bool_decide_eq_false_2; [reflexivity|apply not_elem_of_nil].
    + reflexivity.
    + destruct m as [[] [] ?]; reflexivity.
  - destruct (unsub_events_svc c m k) as [m1|m1|] eqn:E1; try discriminate.
    apply unsub_events_svc_spec in E1 as (Hs1 & Hw1 & Hf1). intros H. apply IH in H as (Hs & Hw & Hf). clear IH.
    assert (Hobjs : objs (ms m1) = objs (ms m)) by (rewrite Hf1; reflexivity).
    assert (Hother : forall k', k' <> k -> svcs (ms m1) !! k' = svcs (ms m) !! k').
    { intros k' Hne. rewrite Hs1. destruct (svcs (ms m) !! k); [apply lookup_insert_ne; congruence|reflexivity]. }
    split; [|split].
    + intros k'. rewrite Hs. destruct (decide (k' = k)) as [->|Hne].
      * rewrite (bool_decide_eq_false_2 (k ∈ l)) by exact Hk. rewrite (bool_decide_eq_true_2 (k ∈ k :: l)) by left.
        rewrite Hs1. destruct (svcs (ms m) !! k) eqn:Ek; [rewrite lookup_insert; reflexivity|rewrite Ek; reflexivity].
      * rewrite (Hother k' Hne). destruct (bool_decide_reflect (k' ∈ l)) as [Hin|Hnin].
        -- rewrite (bool_decide_eq_true_2 (k' ∈ k :: l)) by (right; exact Hin). reflexivity.
        -- rewrite (bool_decide_eq_false_2 (k' ∈ k :: l)); [reflexivity|].
           intros Hx. apply elem_of_cons in Hx as [?|?]; auto.
    + rewrite Hw, Hw1. cbn [flat_map]. rewrite rev_app_distr, <- app_assoc. f_equal.
      * f_equal. apply flat_map_ext_in. intros k' Hin. assert (k' <> k) by (intros ->; exact (Hk Hin)).
        unfold unsub_ev_entries, owner_of_svc. rewrite Hobjs, (Hother k') by assumption. reflexivity.
    + rewrite Hf at 1. rewrite Hf1 at 1. reflexivity.
Qed.

(* C04_transitions on disconnect, events: the pass removes [c] from every event's subscriber set
   of every service, drops the sets that become empty, and queues an UnsubscribeEvent notice to
   the owner for exactly those *)
Theorem unsub_events_pass_spec c m m' : unsub_events_pass c m = Done m' ->
  svcs (ms m') = svc_drop_events c <$> svcs (ms m) /\
  w_unsub_ev (mw m') = rev (flat_map (unsub_ev_entries c (ms m)) (svc_keys m)) ++ w_unsub_ev (mw m) /\
  m' = m <| ms; svcs := svcs (ms m') |> <| mw; w_unsub_ev := w_unsub_ev (mw m') |>.
Proof.
  unfold unsub_events_pass. intros H. apply unsub_events_fold in H as (Hs & Hw & Hf).
  - split; [|split; assumption]. apply map_eq. intros k. rewrite Hs, lookup_fmap.
    destruct (bool_decide_reflect (k ∈ svc_keys m)) as [Hin|Hnin]; [reflexivity|].
    destruct (svcs (ms m) !! k) as [sv|] eqn:Ek; [|reflexivity]. exfalso. apply Hnin.
    unfold svc_keys. apply elem_of_list_fmap. exists (k, sv). split; [reflexivity|]. apply elem_of_map_to_list. exact Ek.
  - unfold svc_keys. apply NoDup_fst_map_to_list.
Qed.

(* who is in that queue: one entry per (service, event) whose only subscriber was [c] *)
Lemma unsub_ev_entries_spec c s l o sc e :
  (o, sc, e) ∈ flat_map (unsub_ev_entries c s) l <->
  exists k sv set, k ∈ l /\ svcs s !! k = Some sv /\ owner_of_svc s k = Some o /\ s_cookie sv = sc /\
                   s_events sv !! e = Some set /\ c ∈ set /\ set ∖ {[c]} = ∅.
Proof.
  rewrite elem_of_list_In, in_flat_map. split.
  - intros (k & Hk & Hin). apply elem_of_list_In in Hk. apply elem_of_list_In in Hin. unfold unsub_ev_entries in Hin.
    destruct (svcs s !! k) as [sv|] eqn:Ek; [|apply elem_of_nil in Hin; contradiction].
    destruct (owner_of_svc s k) as [o'|] eqn:Eo; [|apply elem_of_nil in Hin; contradiction].
    apply elem_of_list_fmap in Hin as (e' & [= -> -> ->] & Hin). apply last_sub_events_spec in Hin as (set & H1 & H2 & H3).
    exists k, sv, set. auto 10.
  - intros (k & sv & set & Hk & Ek & Eo & <- & H1 & H2 & H3). exists k. split; [apply elem_of_list_In, Hk|].
    apply elem_of_list_In. unfold unsub_ev_entries. rewrite Ek, Eo. apply elem_of_list_fmap. exists e. split; [reflexivity|].
    apply last_sub_events_spec. eauto.
Qed.

(* the all-events pass *)
Definition svc_drop_all (c : conn) (sv : svc) : svc := sv <| s_all ::= fun x => x ∖ {[c]} |>.

Definition unsub_all_entries (c : conn) (s : state) (k : uuid * uuid) : list (conn * uuid) :=
  match svcs s !! k, owner_of_svc s k with
  | Some sv, Some o =>
      if bool_decide (c ∈ s_all sv) && bool_decide (s_all sv ∖ {[c]} = ∅) then [(o, s_cookie sv)] else []
  | _, _ => []
  end.

Lemma unsub_all_svc_spec c m k m' : unsub_all_svc c m k = Done m' ->
  svcs (ms m') = match svcs (ms m) !! k with
                 | Some sv => <[k := svc_drop_all c sv]> (svcs (ms m))
                 | None => svcs (ms m) end /\
  w_unsub_all (mw m') = rev (unsub_all_entries c (ms m) k) ++ w_unsub_all (mw m) /\
  m' = m <| ms; svcs := svcs (ms m') |> <| mw; w_unsub_all := w_unsub_all (mw m') |>.
Proof.
  unfold unsub_all_svc, unsub_all_entries. destruct (svcs (ms m) !! k) as [sv|] eqn:Ek.
  - destruct (owner_of_svc (ms m) k) as [o|]; [|discriminate].
    destruct (bool_decide_reflect (c ∈ s_all sv)) as [Hin|Hnin]; cbn [andb].
    + intros [= <-]. destruct (bool_decide (s_all sv ∖ {[c]} = ∅)); (split; [|split]); try reflexivity;
        destruct m as [[] [] ?]; reflexivity.
    + intros [= <-]. split; [|split].
      * rewrite insert_id; [reflexivity|]. rewrite Ek. f_equal. unfold svc_drop_all.
        assert (Hd : s_all sv ∖ {[c]} = s_all sv) by set_solver.
        destruct sv as [a1 a2 a3 a4 a5 a6 a7]. cbn in Hd.
        change (Build_svc a1 a2 a3 a4 a5 a6 a7 = Build_svc a1 a2 a3 a4 (a5 ∖ {[c]}) a6 a7). rewrite Hd. reflexivity.
      * reflexivity.
      * destruct m as [[] [] ?]; reflexivity.
  - intros [= <-]. split; [reflexivity|]. split; [reflexivity|]. destruct m as [[] [] ?]; reflexivity.
Qed.

Lemma unsub_all_fold c l : NoDup l -> forall m m', foldO (unsub_all_svc c) l m = Done m' ->
  (forall k, svcs (ms m') !! k = if bool_decide (k ∈ l) then svc_drop_all c <$> svcs (ms m) !! k
                                 else svcs (ms m) !! k) /\
  w_unsub_all (mw m') = rev (flat_map (unsub_all_entries c (ms m)) l) ++ w_unsub_all (mw m) /\
  m' = m <| ms; svcs := svcs (ms m') |> <| mw; w_unsub_all := w_unsub_all (mw m') |>.
Proof.
  induction 1 as [|k l Hk Hnd IH]; intros m m'; cbn [foldO].
  - intros [= <-]. split; [|split].
    + intros k. rewrite bool_decide_eq_false_2; [reflexivity|apply not_elem_of_nil].
    + reflexivity.
    + destruct m as [[] [] ?]; reflexivity.
  - destruct (unsub_all_svc c m k) as [m1|m1|] eqn:E1; try discriminate.
    apply unsub_all_svc_spec in E1 as (Hs1 & Hw1 & Hf1). intros H. apply IH in H as (Hs & Hw & Hf). clear IH.
    assert (Hobjs : objs (ms m1) = objs (ms m)) by (rewrite Hf1; reflexivity).
    assert (Hother : forall k', k' <> k -> svcs (ms m1) !! k' = svcs (ms m) !! k').
    { intros k' Hne. rewrite Hs1. destruct (svcs (ms m) !! k); [apply lookup_insert_ne; congruence|reflexivity]. }
    split; [|split].
    + intros k'. rewrite Hs. destruct (decide (k' = k)) as [->|Hne].
      * rewrite (bool_decide_eq_false_2 (k ∈ l)) by exact Hk. rewrite (bool_decide_eq_true_2 (k ∈ k :: l)) by left.
        rewrite Hs1. destruct (svcs (ms m) !! k) eqn:Ek; [rewrite lookup_insert; reflexivity|rewrite Ek; reflexivity].
      * rewrite (Hother k' Hne). destruct (bool_decide_reflect (k' ∈ l)) as [Hin|Hnin].
        -- rewrite (bool_decide_eq_true_2 (k' ∈ k :: l)) by (right; exact Hin). reflexivity.
        -- rewrite (bool_decide_eq_false_2 (k' ∈ k :: l)); [reflexivity|].
           intros Hx. apply elem_of_cons in Hx as [?|?]; auto.
    + rewrite Hw, Hw1. cbn [flat_map]. rewrite rev_app_distr, <- app_assoc. f_equal.
      * f_equal. apply flat_map_ext_in. intros k' Hin. assert (k' <> k) by (intros ->; exact (Hk Hin)).
        unfold unsub_all_entries, owner_of_svc. rewrite Hobjs, (Hother k') by assumption. reflexivity.
    + rewrite Hf at 1. rewrite Hf1 at 1. reflexivity.
Qed.

(* C04_transitions on disconnect, all-events: [c] leaves every all-events set; the owner of each
   service whose set becomes empty by that gets one UnsubscribeAllEvents notice queued *)
Theorem unsub_all_pass_spec c m m' : unsub_all_pass c m = Done m' ->
  svcs (ms m') = svc_drop_all c <$> svcs (ms m) /\
  w_unsub_all (mw m') = rev (flat_map (unsub_all_entries c (ms m)) (svc_keys m)) ++ w_unsub_all (mw m) /\
  m' = m <| ms; svcs := svcs (ms m') |> <| mw; w_unsub_all := w_unsub_all (mw m') |>.
Proof.
  unfold unsub_all_pass. intros H. apply unsub_all_fold in H as (Hs & Hw & Hf).
  - split; [|split; assumption]. apply map_eq. intros k. rewrite Hs, lookup_fmap.
    destruct (bool_decide_reflect (k ∈ svc_keys m)) as [Hin|Hnin]; [reflexivity|].
    destruct (svcs (ms m) !! k) as [sv|] eqn:Ek; [|reflexivity]. exfalso. apply Hnin.
    unfold svc_keys. apply elem_of_list_fmap. exists (k, sv). split; [reflexivity|]. apply elem_of_map_to_list. exact Ek.
  - unfold svc_keys. apply NoDup_fst_map_to_list.
Qed.

Lemma unsub_all_entries_spec c s l o sc :
  (o, sc) ∈ flat_map (unsub_all_entries c s) l <->
  exists k sv, k ∈ l /\ svcs s !! k = Some sv /\ owner_of_svc s k = Some o /\ s_cookie sv = sc /\
               c ∈ s_all sv /\ s_all sv ∖ {[c]} = ∅.
Proof.
  rewrite elem_of_list_In, in_flat_map. split.
  - intros (k & Hk & Hin). apply elem_of_list_In in Hk. apply elem_of_list_In in Hin. unfold unsub_all_entries in Hin.
    destruct (svcs s !! k) as [sv|] eqn:Ek; [|apply elem_of_nil in Hin; contradiction].
    destruct (owner_of_svc s k) as [o'|] eqn:Eo; [|apply elem_of_nil in Hin; contradiction].
    destruct (bool_decide_reflect (c ∈ s_all sv)) as [H1|H1]; cbn [andb] in Hin; [|apply elem_of_nil in Hin; contradiction].
    destruct (bool_decide_reflect (s_all sv ∖ {[c]} = ∅)) as [H2|H2]; [|apply elem_of_nil in Hin; contradiction].
    apply elem_of_list_singleton in Hin as [= -> ->]. exists k, sv. auto 10.
  - intros (k & sv & Hk & Ek & Eo & <- & H1 & H2). exists k. split; [apply elem_of_list_In, Hk|].
    apply elem_of_list_In. unfold unsub_all_entries. rewrite Ek, Eo.
    rewrite (bool_decide_eq_true_2 _ H1), (bool_decide_eq_true_2 _ H2). cbn. left.
Qed.

(* the work loop turns each queued notice into one message to the owner, if it is connected *)
Lemma settle_one_unsub_ev_alive m o sc e r os :
  w_remove_conns (mw m) = [] -> w_unsub_ev (mw m) = (o, sc, e) :: r ->
  conns (ms m) !! o = Some os -> cs_alive os = true ->
  settle_one m = Some (Done (m <| mw; w_unsub_ev := r |> <| mo := mo m ++ [(o, UnsubscribeEvent sc e, None)] |>)).
Proof.
  intros H1 H2 Hx Ha. rewrite (settle_one_unsub_ev m o sc e r) by assumption. cbv zeta.
  unfold has. cbn [ms set]. rewrite bool_decide_eq_true_2 by (rewrite Hx; eauto).
  erewrite send_or_remove_alive by (try exact Ha; cbn; exact Hx). reflexivity.
Qed.

Lemma settle_one_unsub_all_alive m o sc r os :
  w_remove_conns (mw m) = [] -> w_unsub_ev (mw m) = [] -> w_unsub_all (mw m) = (o, sc) :: r ->
  conns (ms m) !! o = Some os -> cs_alive os = true ->
  settle_one m = Some (Done (m <| mw; w_unsub_all := r |> <| mo := mo m ++ [(o, UnsubscribeAllEvents None sc, None)] |>)).
Proof.
  intros H1 H2 H3 Hx Ha. rewrite (settle_one_unsub_all m o sc r) by assumption. cbv zeta.
  unfold has. cbn [ms set]. rewrite bool_decide_eq_true_2 by (rewrite Hx; eauto).
  erewrite send_or_remove_alive by (try exact Ha; cbn; exact Hx). reflexivity.
Qed.

(* ---------------------------------------------------------------- the disconnect as a whole *)
(* the parts of shutdown_connection around the two passes leave the unsubscribe queues alone *)
Definition frame_unsub (A : list (conn * uuid * N)) (B : list (conn * uuid)) (m : M) : Prop :=
  w_unsub_ev (mw m) = A /\ w_unsub_all (mw m) = B.

Lemma remove_end_frame_unsub A B m k e : frame_unsub A B m -> oprop (frame_unsub A B) (remove_end m k e).
Proof. intros H. unfold remove_end. repeat prop_step leaf_conv. Qed.

Lemma remove_service_frame_unsub A B m k : frame_unsub A B m -> oprop (frame_unsub A B) (remove_service m k).
Proof. intros H. unfold remove_service. repeat prop_step leaf_conv. Qed.

Lemma remove_object_frame_unsub A B m k : frame_unsub A B m -> oprop (frame_unsub A B) (remove_object m k).
Proof.
  intros H. unfold remove_object.
  repeat first [ match goal with |- oprop _ (remove_service _ _) => apply remove_service_frame_unsub end
               | prop_step leaf_conv ]; assumption.
Qed.

Lemma remove_listener_frame_unsub A B m k : frame_unsub A B m -> frame_unsub A B (remove_listener m k).
Proof. intros H. unfold remove_listener. destruct (listeners (ms m) !! k); exact H. Qed.

Definition frame_conns (C : gmap conn cstate) (m : M) : Prop := conns (ms m) = C.

Lemma remove_object_frame_conns C m k : frame_conns C m -> oprop (frame_conns C) (remove_object m k).
Proof. intros H. unfold remove_object, remove_service. repeat prop_step leaf_conv. Qed.

Definition svc_drop_subs (c : conn) (sv : svc) : svc := sv <| s_subs ::= fun x => x ∖ {[c]} |>.

(* C04_transitions on disconnect: when connection [c] is removed, then — in the state [m3] where
   c's own listeners, objects and services are already gone — the two passes run, the notices
   queued for the owners are exactly those of the events / all-events sets that become empty by
   removing [c], and afterwards [c] is in no subscriber set of any remaining service *)
Theorem shutdown_conn_subscriptions m c sd cs m' :
  conns (ms m) !! c = Some cs -> shutdown_conn m c sd = Done m' ->
  exists m3 m4 m5,
    conns (ms m3) = delete c (conns (ms m)) /\
    unsub_events_pass c m3 = Done m4 /\ unsub_all_pass c m4 = Done m5 /\
    w_unsub_ev (mw m') = rev (flat_map (unsub_ev_entries c (ms m3)) (svc_keys m3)) ++ w_unsub_ev (mw m) /\
    w_unsub_all (mw m') = rev (flat_map (unsub_all_entries c (ms m4)) (svc_keys m4)) ++ w_unsub_all (mw m) /\
    svcs (ms m4) = svc_drop_events c <$> svcs (ms m3) /\
    svcs (ms m5) = svc_drop_all c <$> svcs (ms m4).
Proof.
  intros Hc. rewrite shutdown_conn_unfold, Hc. cbv zeta.
  set (m1 := if sd && cs_alive cs then _ else _).
  assert (F1 : frame_unsub (w_unsub_ev (mw m)) (w_unsub_all (mw m)) m1 /\ conns (ms m1) = delete c (conns (ms m))).
  { subst m1. destruct (sd && cs_alive cs); split; try split; reflexivity. }
  clearbody m1. destruct F1 as [F1 C1].
  set (m2 := foldl remove_listener m1 _).
  assert (F2 : frame_unsub (w_unsub_ev (mw m)) (w_unsub_all (mw m)) m2 /\ conns (ms m2) = conns (ms m1)).
  { subst m2. generalize ((fun p : uuid * lis => p.1) <$> List.filter (fun p : uuid * lis => bool_decide (l_owner p.2 = c)) (map_to_list (listeners (ms m1)))).
    intros ls. revert m1 F1 C1. induction ls as [|k ls IH]; intros m1 F1 C1; cbn [foldl]; [auto|].
    destruct (IH (remove_listener m1 k)) as [Ha Hb].
    - apply remove_listener_frame_unsub, F1.
    - unfold remove_listener. destruct (listeners (ms m1) !! k); exact C1.
    - split; [exact Ha|]. rewrite Hb. unfold remove_listener. destruct (listeners (ms m1) !! k); reflexivity. }
  clearbody m2. destruct F2 as [F2 C2].
  destruct (foldO remove_object _ m2) as [m3|m3|] eqn:E3; cbn [andThen]; try discriminate.
  assert (F3 : frame_unsub (w_unsub_ev (mw m)) (w_unsub_all (mw m)) m3 /\ conns (ms m3) = conns (ms m2)).
  { match type of E3 with foldO ?f ?l ?mm = _ =>
      pose proof (oprop_foldO (fun x => frame_unsub (w_unsub_ev (mw m)) (w_unsub_all (mw m)) x /\ conns (ms x) = conns (ms m2))
                  f l mm) as H end. rewrite E3 in H. apply H; [|auto].
    intros x k [Hx1 Hx2].
    assert (G1 := remove_object_frame_unsub _ _ x k Hx1).
    assert (G2 := remove_object_frame_conns _ x k Hx2).
    destruct (remove_object x k); cbn in *; auto. }
  destruct F3 as [F3 C3].
  destruct (unsub_events_pass c m3) as [m4|m4|] eqn:E4; cbn [andThen]; try discriminate.
  destruct (unsub_all_pass c m4) as [m5|m5|] eqn:E5; cbn [andThen]; try discriminate.
  destruct (unsub_events_pass_spec _ _ _ E4) as (S4 & W4 & Fr4).
  destruct (unsub_all_pass_spec _ _ _ E5) as (S5 & W5 & Fr5).
  set (m6 := m5 <| ms; svcs ::= _ |>).
  set (A := w_unsub_ev (mw m4)). set (B := w_unsub_all (mw m5)).
  assert (F6 : frame_unsub A B m6).
  { subst m6 A B. split; cbn; [|reflexivity]. rewrite Fr5. reflexivity. }
  clearbody m6.
  match goal with |- (?x >>> ?f) = _ -> _ => destruct x as [m7|m7|] eqn:E7; cbn [andThen]; try discriminate end.
  assert (F7 : frame_unsub A B m7).
  { match type of E7 with foldO ?f ?l ?m = _ => pose proof (oprop_foldO (frame_unsub A B) f l m) as H end.
    rewrite E7 in H. apply H; [|exact F6]. intros x k Hx. cbv beta.
    repeat first [ match goal with |- oprop _ (remove_end _ _ _) => apply remove_end_frame_unsub end
                 | prop_step leaf_conv ]; assumption. }
  match goal with |- (?x >>> ?f) = _ -> _ => destruct x as [m8|m8|] eqn:E8; cbn [andThen]; try discriminate end.
  assert (F8 : frame_unsub A B m8).
  { match type of E8 with foldO ?f ?l ?m = _ => pose proof (oprop_foldO (frame_unsub A B) f l m) as H end.
    rewrite E8 in H. apply H; [|exact F7]. intros x k Hx. cbv beta.
    repeat first [ match goal with |- oprop _ (remove_end _ _ _) => apply remove_end_frame_unsub end
                 | prop_step leaf_conv ]; assumption. }
  intros [= <-].
  assert (F9 : frame_unsub A B (foldr (fun (p : N * (N * conn)) (m : M) => m <| mw; w_abort ::= cons p.2 |>) m8 (map_to_list (cs_calls cs)))).
  { apply (prop_foldr (frame_unsub A B)); [|exact F8]. intros x a Hx. exact Hx. }
  destruct F9 as [F9a F9b]. destruct F3 as [F3a F3b].
  exists m3, m4, m5. split; [congruence|]. split; [exact E4|]. split; [exact E5|].
  split; [|split; [|split; assumption]].
  - cbn. rewrite F9a. subst A. rewrite W4, F3a. reflexivity.
  - cbn. rewrite F9b. subst B. rewrite W5. f_equal. rewrite Fr4. cbn. exact F3b.
Qed.

(* after the all-events pass [c] is in no all-events set; after the events pass in no event's set *)
Lemma svc_drop_events_not_in c sv e set : s_events (svc_drop_events c sv) !! e = Some set -> c ∉ set.
Proof.
  unfold svc_drop_events. cbn. rewrite lookup_omap. destruct (s_events sv !! e) as [set0|]; cbn; [|discriminate].
  unfold drop_sub. destruct (bool_decide_reflect (c ∈ set0)) as [Hin|Hnin].
  - destruct (bool_decide_reflect (set0 ∖ {[c]} = ∅)) as [He|Hne]; [discriminate|]. intros [= <-]. set_solver.
  - intros [= <-]. exact Hnin.
Qed.

Lemma svc_drop_all_not_in c sv : c ∉ s_all (svc_drop_all c sv).
Proof. unfold svc_drop_all. cbn. set_solver. Qed.

(* C04_fanout, dead subscribers: a subscriber whose receiver is gone gets nothing (see
   [fanout_owner]) and is not connected any more after the step *)
Theorem fanout_dead_removed s c cs sc ev v f b s' o k sv x :
  conns s !! c = Some cs -> svc_by_cookie s sc = Some (k, sv) -> owner_of_svc s k = Some c ->
  step s (Message c (EmitEvent sc ev v)) f b = Done (s', o) ->
  x ∈ event_targets sv ev -> alive s x = false -> conns s' !! x = None.
Proof.
  intros Hc Hs Ho Hstep Hx Hdead.
  pose proof Hstep as Hstep'. apply step_Done in Hstep' as (m & m' & Hh & _).
  apply (queued_removed _ _ _ _ _ _ m x false Hstep Hh).
  cbn [step_handler] in Hh. fold (m_init s) in Hh.
  rewrite (handle_EmitEvent (m_init s) c cs) in Hh by exact Hc.
  cbn [ms m_init] in Hh. rewrite Hs, Ho in Hh.
  rewrite bool_decide_eq_true_2 in Hh by reflexivity. cbn [negb] in Hh.
  fold (event_targets sv ev) in Hh. cbv zeta in Hh.
  destruct (foldO _ _ _) as [m1|m1|] eqn:Ef in Hh; try discriminate.
  - injection Hh as <-. apply fanout_fold in Ef as (_ & _ & E3 & _). rewrite E3. cbn.
    apply elem_of_app. left. rewrite elem_of_list_In, <- in_rev, <- elem_of_list_In. apply elem_of_list_fmap.
    exists x. split; [reflexivity|]. apply elem_of_list_In, filter_In. split.
    + apply elem_of_list_In, elem_of_elements. exact Hx.
    + cbn. rewrite Hdead. reflexivity.
  - exfalso. clear -Ef. revert Ef. generalize (m_init s). induction (elements _) as [|y l IH]; intros m; cbn; [discriminate|].
    unfold send_or_remove at 1. destruct (send m y _ _); try discriminate; apply IH.
Qed.

(* ---------------------------------------------------------------- no event out of thin air *)
(* "and to no other connection", over all steps: an EmitEvent is output only in a step that
   handles an EmitEvent message (and there only as [fanout_owner] says) *)
Definition NoEmit (m : M) : Prop := List.filter is_emit (mo m) = [].

Lemma NoEmit_snoc m o m' : is_emit o = false -> mo m' = mo m ++ [o] -> NoEmit m -> NoEmit m'.
Proof. unfold NoEmit. intros Ho Hm H. rewrite Hm, list_filter_app, H. cbn. rewrite Ho. reflexivity. Qed.

Ltac leaf_noemit :=
  idtac;
  first
    [ match goal with H : NoEmit ?m |- NoEmit _ => exact H end
    | match goal with |- NoEmit (set mo _ ?x) =>
        eapply (NoEmit_snoc x); [|reflexivity|leaf_noemit]; reflexivity end
    | match goal with |- ?P (push_remove ?x _ _) => change (P x) end
    | match goal with |- ?P (set _ _ ?x) => change (P x) end ].

Lemma remove_end_noemit m k e : NoEmit m -> oprop NoEmit (remove_end m k e).
Proof. intros H. unfold remove_end. repeat prop_step leaf_noemit. Qed.
Lemma remove_service_noemit m k : NoEmit m -> oprop NoEmit (remove_service m k).
Proof. intros H. unfold remove_service. repeat prop_step leaf_noemit. Qed.
Lemma remove_object_noemit m k : NoEmit m -> oprop NoEmit (remove_object m k).
Proof.
  intros H. unfold remove_object.
  repeat first [ match goal with |- oprop _ (remove_service _ _) => apply remove_service_noemit end
               | prop_step leaf_noemit ]; assumption.
Qed.
Lemma remove_listener_noemit m k : NoEmit m -> NoEmit (remove_listener m k).
Proof. intros H. unfold remove_listener. destruct (listeners (ms m) !! k); exact H. Qed.

Lemma oprop_refail' (P : M -> Prop) r :
  oprop P r -> oprop P (match r with Done m3 => Fail m3 | Fail a => Fail a | Panic site => Panic site end).
Proof. destruct r; exact id. Qed.

Lemma handle_noemit m c x f b :
  (match x with EmitEvent _ _ _ => False | _ => True end) ->
  NoEmit m -> oprop NoEmit (handle m c x f b).
Proof.
  intros Hx H. unfold handle. destruct (conns (ms m) !! c) as [cs|] eqn:Hc; [|exact H].
  destruct x; try contradiction; clear Hx;
    unfold gate, ver_of, create_service_impl, call_impl; cbv zeta beta; try (rewrite Hc; cbn [fmap option_fmap option_map]);
    try (solve [repeat first
                  [ match goal with
                    | |- oprop _ (remove_object _ _) => apply remove_object_noemit
                    | |- oprop _ (remove_service _ _) => apply remove_service_noemit
                    | |- oprop _ (remove_end _ _ _) => apply remove_end_noemit
                    | |- NoEmit (remove_listener _ _) => apply remove_listener_noemit
                    end
                  | prop_step leaf_noemit ]; try assumption]).
  match goal with |- context [chans (ms m) !! ?k] => destruct (chans (ms m) !! k) as [ch|] end;
    [|repeat prop_step leaf_noemit; assumption].
  match goal with |- context [chan_claim ch c ?e] => destruct (chan_claim ch c e) as [r|ch' other r|site] end;
    [repeat prop_step leaf_noemit; assumption| |exact I].
  match goal with |- context [send ?mm c ?x None] => destruct (send mm c x None) as [m2|m2|] eqn:Es end; [| |exact I].
  - apply send_Done in Es as [-> _]. repeat prop_step leaf_noemit; assumption.
  - apply send_Fail in Es as [-> _]. apply oprop_refail'. repeat prop_step leaf_noemit; assumption.
Qed.

Theorem no_spurious_emit s e f b s' o :
  step s e f b = Done (s', o) ->
  (match e with Message _ (EmitEvent _ _ _) => False | _ => True end) ->
  List.filter is_emit o = [].
Proof.
  intros Hstep He. apply step_outputs in Hstep as (m & l & Hh & -> & Hl).
  rewrite list_filter_app, (filter_K_settle_nil is_emit l K_settle_not_emit Hl), app_nil_r.
  change (NoEmit m).
  assert (Hinit : NoEmit (m_init s)) by reflexivity.
  destruct e; cbn [step_handler] in Hh; fold (m_init s) in Hh.
  - destruct (conns s !! c); [discriminate|]. injection Hh as <-. reflexivity.
  - injection Hh as <-. reflexivity.
  - assert (Hx : match m0 with EmitEvent _ _ _ => False | _ => True end) by (destruct m0; auto).
    pose proof (handle_noemit (m_init s) c m0 f b Hx Hinit) as Hp.
    destruct (handle (m_init s) c m0 f b) as [m1|m1|]; try discriminate; injection Hh as <-; exact Hp.
  - injection Hh as <-.
    change (NoEmit (foldr (fun (p : conn * cstate) (m : M) => push_remove m p.1 true) (m_init s) (map_to_list (conns s)))).
    apply (prop_foldr NoEmit); [|exact Hinit]. intros x a Hx. exact Hx.
  - injection Hh as <-. reflexivity.
  - injection Hh as <-. reflexivity.
  - injection Hh as <-. destruct (conns s !! c); reflexivity.
Qed.

(* packaged for Props/C04.v *)
Lemma no_longer_subscribed c sv :
  (forall e set, s_events (svc_drop_events c sv) !! e = Some set -> c ∉ set) /\ c ∉ s_all (svc_drop_all c sv).
Proof. split; [exact (svc_drop_events_not_in c sv)|exact (svc_drop_all_not_in c sv)]. Qed.

Lemma service_destroyed_queue m cookie k sv m' :
  svc_by_cookie (ms m) cookie = Some (k, sv) -> remove_service m cookie = Done m' ->
  svcs (ms m') = delete k (svcs (ms m)) /\
  w_svc_destroyed (mw m') =
    ((fun x => (x, cookie)) <$> List.filter (connected (ms m)) (elements (destroyed_targets sv))) ++ w_svc_destroyed (mw m).
Proof.
  intros H1 H2. destruct (remove_service_spec m cookie k sv m' H1 H2) as (A & _ & _ & B & _). exact (conj A B).
Qed.
