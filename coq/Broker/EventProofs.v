(* Broker/EventProofs.v — C04 on the abstract broker machine: event fan-out (who receives an
   EmitEvent, how often, with which payload), the owner's 0<->1 subscriber-count notifications at
   handler level and on a subscriber's disconnect, and the ServiceDestroyed notification queue. *)
From stdpp Require Import gmap list.
From RecordUpdate Require Import RecordSet.
Import RecordSetNotations.
From Aldrin Require Import gen.BrokerConsts Broker.Model Broker.Run Broker.OutKinds.
From Coq Require Import Lia.
Local Open Scope N_scope.

(* ---------------------------------------------------------------- vocabulary *)
Definition is_emit (o : out) : bool := match o.1.2 with EmitEvent _ _ _ => true | _ => false end.

Lemma K_settle_not_emit o : K_settle o -> is_emit o = false.
Proof. intros [H _]. unfold is_emit. destruct (o.1.2); cbn in H; try reflexivity; destruct H. Qed.

(* ---------------------------------------------------------------- handler equations *)
Lemma handle_EmitEvent m c cs sc ev v f b : conns (ms m) !! c = Some cs ->
  handle m c (EmitEvent sc ev v) f b =
      match svc_by_cookie (ms m) sc with
      | None => Done m
      | Some (k, s) =>
          match owner_of_svc (ms m) k with
          | None => Panic 29
          | Some owner =>
              if negb (bool_decide (owner = c)) then Done m else
              let t : gset conn := s_all s ∪ default ∅ (s_events s !! ev) in
              foldO (fun m x => send_or_remove m x (EmitEvent sc ev v) (Some (cs_ver cs))) (elements t) m
          end
      end.
Proof. intros H. unfold handle. rewrite H. reflexivity. Qed.

(* ---------------------------------------------------------------- fan-out *)
(* sending one message to a list of connections: the state is untouched, exactly the alive ones
   get the message (in list order), the dead ones are queued for removal *)
Lemma fanout_fold (x0 : msg) (from : option N) l : forall m m',
  foldO (fun m x => send_or_remove m x x0 from) l m = Done m' ->
  ms m' = ms m /\
  mo m' = mo m ++ ((fun x => (x, x0, from)) <$> List.filter (alive (ms m)) l) /\
  mw m' = mw m <| w_remove_conns :=
                    rev ((fun x => (x, false)) <$> List.filter (fun x => negb (alive (ms m) x)) l)
                    ++ w_remove_conns (mw m) |> /\
  Forall (fun x => is_Some (conns (ms m) !! x)) l.
Proof.
  induction l as [|x l IH]; intros m m'; cbn [foldO].
  - intros [= <-]. cbn. rewrite app_nil_r. repeat split; try reflexivity; [|constructor].
    destruct (mw m); reflexivity.
  - unfold send_or_remove at 1. unfold send. cbn [List.filter].
    destruct (conns (ms m) !! x) as [cs|] eqn:Ex; [|discriminate].
    assert (Hal : alive (ms m) x = cs_alive cs) by (unfold alive; rewrite Ex; reflexivity).
    rewrite Hal.
    destruct (cs_alive cs) eqn:Ea; cbn [negb]; intros H; apply IH in H as (H1 & H2 & H3 & H4); cbn in H1, H2, H3, H4.
    + rewrite H1, H2, H3. cbn. rewrite <- app_assoc. repeat split; try reflexivity.
      constructor; [rewrite Ex; eauto|exact H4].
    + rewrite H1, H2, H3. cbn. rewrite <- app_assoc. repeat split; try reflexivity.
      constructor; [rewrite Ex; eauto|exact H4].
Qed.

(* all destinations alive: nothing but the sends happens *)
Lemma fanout_fold_alive (x0 : msg) (from : option N) l m m' :
  foldO (fun m x => send_or_remove m x x0 from) l m = Done m' ->
  (forall x, In x l -> alive (ms m) x = true) ->
  m' = m <| mo := mo m ++ ((fun x => (x, x0, from)) <$> l) |>.
Proof.
  intros H Ha. apply fanout_fold in H as (H1 & H2 & H3 & _).
  rewrite (list_filter_all _ l Ha) in H2.
  assert (E : List.filter (fun x => negb (alive (ms m) x)) l = []).
  { clear -Ha. induction l as [|a l IH]; cbn; [reflexivity|]. rewrite (Ha a (or_introl eq_refl)). cbn.
    apply IH. intros b Hb. apply Ha. right. exact Hb. }
  rewrite E in H3. cbn in H3. destruct m as [s w o], m' as [s' w' o']. cbn in *. subst.
  destruct w; reflexivity.
Qed.

(* the set of subscribers an event is fanned out to *)
Definition event_targets (sv : svc) (ev : N) : gset conn := s_all sv ∪ default ∅ (s_events sv !! ev).

Lemma event_targets_spec sv ev x :
  x ∈ event_targets sv ev <-> x ∈ s_all sv \/ exists set, s_events sv !! ev = Some set /\ x ∈ set.
Proof.
  unfold event_targets. rewrite elem_of_union. split; (intros [H|H]; [left; exact H|right]).
  - destruct (s_events sv !! ev) as [set|]; cbn in H; [eauto|]. exfalso. revert H. apply not_elem_of_empty.
  - destruct H as (set & -> & H). exact H.
Qed.

(* C04_fanout, owner case: the EmitEvent outputs of the step are exactly one copy, payload and ids
   unchanged, tagged with the owner's version, for every alive subscriber of that event id or of
   all events; [elements] has no duplicates *)
Theorem fanout_owner s c cs sc ev v f b s' o k sv :
  conns s !! c = Some cs -> svc_by_cookie s sc = Some (k, sv) -> owner_of_svc s k = Some c ->
  step s (Message c (EmitEvent sc ev v)) f b = Done (s', o) ->
  List.filter is_emit o =
    (fun x => (x, EmitEvent sc ev v, Some (cs_ver cs))) <$> List.filter (alive s) (elements (event_targets sv ev)) /\
  NoDup (elements (event_targets sv ev)) /\
  Forall (fun x => is_Some (conns s !! x)) (elements (event_targets sv ev)).
Proof.
  intros Hc Hs Ho Hstep. apply step_outputs in Hstep as (m & l & Hh & -> & Hl).
  cbn [step_handler] in Hh. fold (m_init s) in Hh.
  rewrite (handle_EmitEvent (m_init s) c cs) in Hh by exact Hc.
  cbn [ms m_init] in Hh. rewrite Hs, Ho in Hh.
  rewrite bool_decide_eq_true_2 in Hh by reflexivity. cbn [negb] in Hh.
  fold (event_targets sv ev) in Hh. cbv zeta in Hh.
  destruct (foldO _ _ _) as [m1|m1|] eqn:Ef in Hh; try discriminate.
  - injection Hh as <-. apply fanout_fold in Ef as (_ & E2 & _ & E4). cbn in E2, E4.
    split; [|split; [apply NoDup_elements|exact E4]].
    rewrite list_filter_app, (filter_K_settle_nil is_emit l K_settle_not_emit Hl), app_nil_r, E2.
    apply list_filter_all. intros a Ha. apply in_map_iff in Ha as (x & <- & _). reflexivity.
  - exfalso. clear -Ef. revert Ef. generalize (m_init s). induction (elements _) as [|x l IH]; intros m; cbn; [discriminate|].
    unfold send_or_remove at 1. destruct (send m x _ _); try discriminate; apply IH.
Qed.

(* with every subscriber alive the step changes nothing but the outputs, and there are no other
   outputs at all *)
Theorem fanout_owner_alive s c cs sc ev v f b s' o k sv :
  conns s !! c = Some cs -> svc_by_cookie s sc = Some (k, sv) -> owner_of_svc s k = Some c ->
  (forall x, x ∈ event_targets sv ev -> alive s x = true) ->
  step s (Message c (EmitEvent sc ev v)) f b = Done (s', o) ->
  s' = s /\ o = (fun x => (x, EmitEvent sc ev v, Some (cs_ver cs))) <$> elements (event_targets sv ev).
Proof.
  intros Hc Hs Ho Ha. rewrite step_unfold. cbn [step_handler]. fold (m_init s).
  rewrite (handle_EmitEvent (m_init s) c cs) by exact Hc.
  cbn [ms m_init]. rewrite Hs, Ho.
  rewrite bool_decide_eq_true_2 by reflexivity. cbn [negb].
  fold (event_targets sv ev). cbv zeta.
  destruct (foldO _ _ _) as [m1|m1|] eqn:Ef; try discriminate.
  - apply fanout_fold_alive in Ef; [|intros x Hx; apply Ha, elem_of_elements, elem_of_list_In, Hx].
    subst m1. rewrite settle_idle by reflexivity. intros [= <- <-]. split; reflexivity.
  - exfalso. clear -Ef. revert Ef. generalize (m_init s). induction (elements _) as [|x l IH]; intros m; cbn; [discriminate|].
    unfold send_or_remove at 1. destruct (send m x _ _); try discriminate; apply IH.
Qed.

(* C04_fanout, non-owner or unknown cookie: nothing is output at all and the state is unchanged *)
Theorem fanout_dropped s c cs sc ev v f b s' o :
  conns s !! c = Some cs ->
  (svc_by_cookie s sc = None \/
   exists k sv owner, svc_by_cookie s sc = Some (k, sv) /\ owner_of_svc s k = Some owner /\ owner <> c) ->
  step s (Message c (EmitEvent sc ev v)) f b = Done (s', o) ->
  s' = s /\ o = [].
Proof.
  intros Hc Hcase. rewrite step_unfold. cbn [step_handler]. fold (m_init s).
  rewrite (handle_EmitEvent (m_init s) c cs) by exact Hc. cbn [ms m_init].
  destruct Hcase as [->|(k & sv & owner & -> & -> & Hne)].
  - rewrite settle_idle by reflexivity. intros [= <- <-]. split; reflexivity.
  - rewrite bool_decide_eq_false_2 by exact Hne. cbn [negb].
    rewrite settle_idle by reflexivity. intros [= <- <-]. split; reflexivity.
Qed.

(* an unconnected sender: the message is ignored *)
Theorem message_unconnected s c x f b s' o :
  conns s !! c = None -> step s (Message c x) f b = Done (s', o) -> s' = s /\ o = [].
Proof.
  intros Hc. rewrite step_unfold. cbn [step_handler]. unfold handle. cbn [ms]. rewrite Hc.
  rewrite settle_idle by reflexivity. intros [= <- <-]. split; reflexivity.
Qed.

(* the per-connection reading: how many copies of the event connection [x] gets in the step *)
Definition emits_to (x : conn) (o : list out) : list out :=
  List.filter (fun p : out => bool_decide (p.1.1 = x)) (List.filter is_emit o).

Lemma filter_map_conn (g : conn -> out) x l : (forall y, (g y).1.1 = y) -> NoDup l ->
  List.filter (fun p : out => bool_decide (p.1.1 = x)) (g <$> l) = if bool_decide (x ∈ l) then [g x] else [].
Proof.
  intros Hg. induction 1 as [|y l Hy Hnd IH]; cbn [fmap list_fmap List.filter].
  - rewrite bool_decide_eq_false_2; [reflexivity|]. apply not_elem_of_nil.
  - rewrite Hg, IH. destruct (bool_decide_reflect (y = x)) as [->|Hne].
    + rewrite bool_decide_eq_false_2 by exact Hy. rewrite bool_decide_eq_true_2; [reflexivity|]. left.
    + destruct (bool_decide_reflect (x ∈ l)) as [Hin|Hnin].
      * rewrite bool_decide_eq_true_2; [reflexivity|]. right. exact Hin.
      * rewrite bool_decide_eq_false_2; [reflexivity|]. intros Hx. apply elem_of_cons in Hx as [->|Hx]; auto.
Qed.

Lemma NoDup_list_filter {A} (p : A -> bool) l : NoDup l -> NoDup (List.filter p l).
Proof.
  induction 1 as [|a l Ha Hnd IH]; cbn; [constructor|]. destruct (p a); [|exact IH].
  constructor; [|exact IH]. intros Hin. apply Ha. apply elem_of_list_In in Hin.
  apply filter_In in Hin as [Hin _]. apply elem_of_list_In. exact Hin.
Qed.

Theorem fanout_exactly_once s c cs sc ev v f b s' o k sv x :
  conns s !! c = Some cs -> svc_by_cookie s sc = Some (k, sv) -> owner_of_svc s k = Some c ->
  step s (Message c (EmitEvent sc ev v)) f b = Done (s', o) ->
  emits_to x o = if bool_decide (x ∈ event_targets sv ev) && alive s x
                 then [(x, EmitEvent sc ev v, Some (cs_ver cs))] else [].
Proof.
  intros Hc Hs Ho Hstep. destruct (fanout_owner _ _ _ _ _ _ _ _ _ _ _ _ Hc Hs Ho Hstep) as (E & Hnd & _).
  unfold emits_to. rewrite E.
  rewrite (filter_map_conn (fun x => (x, EmitEvent sc ev v, Some (cs_ver cs)))); [|reflexivity|apply NoDup_list_filter, Hnd].
  assert (Hiff : x ∈ List.filter (alive s) (elements (event_targets sv ev)) <-> x ∈ event_targets sv ev /\ alive s x = true).
  { rewrite elem_of_list_In, filter_In, <- elem_of_list_In, elem_of_elements. reflexivity. }
  destruct (bool_decide_reflect (x ∈ List.filter (alive s) (elements (event_targets sv ev)))) as [Hin|Hnin].
  - apply Hiff in Hin as [H1 H2]. rewrite bool_decide_eq_true_2, H2 by exact H1. reflexivity.
  - destruct (bool_decide_reflect (x ∈ event_targets sv ev)) as [H1|H1]; [|reflexivity].
    destruct (alive s x) eqn:H2; [|reflexivity]. exfalso. apply Hnin, Hiff. auto.
Qed.

(* ---------------------------------------------------------------- 0<->1 transitions: requests *)
Lemma step_message_idle s c x f b m :
  handle (m_init s) c x f b = Done m -> mw m = work0 ->
  step s (Message c x) f b = Done (ms m, mo m).
Proof.
  intros H Hw. rewrite step_unfold. cbn [step_handler]. fold (m_init s). rewrite H.
  rewrite settle_idle by exact Hw. reflexivity.
Qed.

Lemma svc_by_cookie_Some s c k sv : svc_by_cookie s c = Some (k, sv) ->
  svcs s !! k = Some sv /\ s_cookie sv = c.
Proof.
  unfold svc_by_cookie. destruct (list_find _ _) as [[i [k' sv']]|] eqn:E; cbn; [|discriminate].
  intros [= -> ->]. apply list_find_Some in E as (E1 & E2 & _).
  apply elem_of_list_lookup_2, elem_of_map_to_list in E1. cbn in E2.
  apply bool_decide_unpack in E2. auto.
Qed.

Lemma gate_pass m c cs minv k : conns (ms m) !! c = Some cs -> minv <= cs_ver cs -> gate m c minv k = k m.
Proof.
  intros H Hv. unfold gate, ver_of. rewrite H. cbn.
  destruct (N.ltb_spec (cs_ver cs) minv); [lia|reflexivity].
Qed.

Lemma handle_SubscribeEvent m c cs serial sc ev f b : conns (ms m) !! c = Some cs ->
  handle m c (SubscribeEvent (Some serial) sc ev) f b =
      match svc_by_cookie (ms m) sc with
      | None => send m c (SubscribeEventReply serial false) None
      | Some (k, s) =>
          match owner_of_svc (ms m) k with
          | None => Panic 27
          | Some owner =>
              send m c (SubscribeEventReply serial true) None >>> fun m1 =>
              let first := negb (bool_decide (is_Some (s_events s !! ev))) in
              let set := default ∅ (s_events s !! ev) ∪ {[c]} in
              let m2 := m1 <| ms; svcs ::= <[k := s <| s_events ::= <[ev := set]> |>]> |> in
              if first && has m2 owner then send_ignore m2 owner (SubscribeEvent None sc ev) None else Done m2
          end
      end.
Proof. intros H. unfold handle. rewrite H. reflexivity. Qed.

Lemma handle_UnsubscribeEvent m c cs sc ev f b : conns (ms m) !! c = Some cs ->
  handle m c (UnsubscribeEvent sc ev) f b =
      match svc_by_cookie (ms m) sc with
      | None => Done m
      | Some (k, s) =>
          match owner_of_svc (ms m) k, s_events s !! ev with
          | None, _ => Panic 28
          | Some owner, None => Done m
          | Some owner, Some set0 =>
              let set := set0 ∖ {[c]} in
              if bool_decide (set = ∅) then
                let m1 := m <| ms; svcs ::= <[k := s <| s_events ::= delete ev |>]> |> in
                send_or_remove m1 owner (UnsubscribeEvent sc ev) None
              else Done (m <| ms; svcs ::= <[k := s <| s_events ::= <[ev := set]> |>]> |>)
          end
      end.
Proof. intros H. unfold handle. rewrite H. reflexivity. Qed.

Lemma handle_SubscribeAllEvents m c cs serial sc f b : conns (ms m) !! c = Some cs -> 18 <= cs_ver cs ->
  handle m c (SubscribeAllEvents (Some serial) sc) f b =
            match svc_by_cookie (ms m) sc with
            | None => send m c (SubscribeAllEventsReply serial SAInvalid) None
            | Some (k, s) =>
                match owner_of_svc (ms m) k with
                | None => Panic 35
                | Some owner =>
                    match conns (ms m) !! owner with
                    | None => Panic 36
                    | Some ocs =>
                        if negb (default false (i_sub_all (s_info s))) || (cs_ver ocs <? MIN_SUBSCRIBE_ALL_EVENTS_OWNER)
                        then send m c (SubscribeAllEventsReply serial SANotSupported) None
                        else send m c (SubscribeAllEventsReply serial SAOk) None >>> fun m1 =>
                             let was_empty := bool_decide (s_all s = ∅) in
                             let m2 := m1 <| ms; svcs ::= <[k := s <| s_all ::= fun x => {[c]} ∪ x |>]> |> in
                             if was_empty then send_ignore m2 owner (SubscribeAllEvents None sc) None else Done m2
                    end
                end
            end.
Proof.
  intros H Hv. unfold handle. rewrite H.
  rewrite (gate_pass m c cs) by (try exact H; change MIN_SUBSCRIBE_ALL_EVENTS with 18; exact Hv). reflexivity.
Qed.

Lemma handle_UnsubscribeAllEvents m c cs serial sc f b : conns (ms m) !! c = Some cs -> 18 <= cs_ver cs ->
  handle m c (UnsubscribeAllEvents serial sc) f b =
        let reply r := match serial with Some serial => send m c (UnsubscribeAllEventsReply serial r) None | None => Done m end in
        match svc_by_cookie (ms m) sc with
        | None => reply SAInvalid
        | Some (k, s) =>
            match owner_of_svc (ms m) k with
            | None => Panic 37
            | Some owner =>
                match conns (ms m) !! owner with
                | None => Panic 38
                | Some ocs =>
                    if cs_ver ocs <? MIN_UNSUBSCRIBE_ALL_EVENTS_OWNER then reply SANotSupported else
                    reply SAOk >>> fun m1 =>
                    let was_empty := bool_decide (s_all s = ∅) in
                    let all' := s_all s ∖ {[c]} in
                    let m2 := m1 <| ms; svcs ::= <[k := s <| s_all := all' |>]> |> in
                    if negb was_empty && bool_decide (all' = ∅)
                    then send_ignore m2 owner (UnsubscribeAllEvents None sc) None else Done m2
                end
            end
        end.
Proof.
  intros H Hv. unfold handle. rewrite H.
  rewrite (gate_pass m c cs) by (try exact H; change MIN_UNSUBSCRIBE_ALL_EVENTS with 18; exact Hv). reflexivity.
Qed.

(* send_ignore to a connected peer: one output iff its receiver is alive, never any work *)
Lemma send_ignore_connected m c x from cs : conns (ms m) !! c = Some cs ->
  send_ignore m c x from = Done (m <| mo := mo m ++ (if cs_alive cs then [(c, x, from)] else []) |>).
Proof.
  intros H. destruct (cs_alive cs) eqn:E.
  - apply (send_ignore_alive m c x from cs H E).
  - rewrite (send_ignore_dead m c x from cs H E). rewrite app_nil_r. destruct m; reflexivity.
Qed.

(* SubscribeEvent: the requester is accepted iff the cookie names a service; the owner is told to
   start producing the event iff the event had no entry before (and the owner's receiver is
   alive: the broker ignores a failed send here) *)
Theorem subscribe_event_step s c cs serial sc ev f b k sv owner :
  conns s !! c = Some cs -> cs_alive cs = true ->
  svc_by_cookie s sc = Some (k, sv) -> owner_of_svc s k = Some owner ->
  step s (Message c (SubscribeEvent (Some serial) sc ev)) f b =
    Done (s <| svcs ::= <[k := sv <| s_events ::= <[ev := default ∅ (s_events sv !! ev) ∪ {[c]}]> |>]> |>,
          (c, SubscribeEventReply serial true, None) ::
          (if bool_decide (s_events sv !! ev = None) && alive s owner
           then [(owner, SubscribeEvent None sc ev, None)] else [])).
Proof.
  intros Hc Hal Hs Ho.
  set (s1 := s <| svcs ::= <[k := sv <| s_events ::= <[ev := default ∅ (s_events sv !! ev) ∪ {[c]}]> |>]> |>).
  set (o1 := (c, SubscribeEventReply serial true, None) :: _).
  assert (H : handle (m_init s) c (SubscribeEvent (Some serial) sc ev) f b = Done {| ms := s1; mw := work0; mo := o1 |}).
  { rewrite (handle_SubscribeEvent _ c cs) by exact Hc. cbn [ms m_init]. rewrite Hs, Ho.
    erewrite send_alive by eassumption. cbn [andThen]. cbv zeta. subst o1. unfold alive, has. cbn [ms set].
    change (conns (set svcs _ s)) with (conns s).
    destruct (s_events sv !! ev) as [set0|] eqn:Eev.
    - rewrite (bool_decide_eq_true_2 (is_Some (Some set0))) by eauto.
      rewrite (bool_decide_eq_false_2 (Some set0 = None)) by discriminate. reflexivity.
    - rewrite (bool_decide_eq_false_2 (is_Some None)) by (intros [? ?]; discriminate).
      rewrite (bool_decide_eq_true_2 (None = None)) by reflexivity. cbn [negb andb].
      destruct (conns s !! owner) as [ocs|] eqn:Eo.
      + rewrite bool_decide_eq_true_2 by eauto.
        erewrite send_ignore_connected by (cbn; exact Eo). destruct (cs_alive ocs); reflexivity.
      + rewrite bool_decide_eq_false_2 by (intros [? ?]; discriminate). reflexivity. }
  apply step_message_idle in H; [exact H|reflexivity].
Qed.

Theorem subscribe_event_invalid s c cs serial sc ev f b :
  conns s !! c = Some cs -> cs_alive cs = true -> svc_by_cookie s sc = None ->
  step s (Message c (SubscribeEvent (Some serial) sc ev)) f b =
    Done (s, [(c, SubscribeEventReply serial false, None)]).
Proof.
  intros Hc Hal Hs.
  assert (H : handle (m_init s) c (SubscribeEvent (Some serial) sc ev) f b =
              Done (m_init s <| mo := [(c, SubscribeEventReply serial false, None)] |>)).
  { rewrite (handle_SubscribeEvent _ c cs) by exact Hc. cbn [ms m_init]. rewrite Hs.
    erewrite send_alive by eassumption. reflexivity. }
  apply step_message_idle in H; [exact H|reflexivity].
Qed.

(* UnsubscribeEvent: the owner is told to stop iff the event's subscriber set becomes empty *)
Theorem unsubscribe_event_step s c cs sc ev f b k sv owner ocs set0 :
  conns s !! c = Some cs ->
  svc_by_cookie s sc = Some (k, sv) -> owner_of_svc s k = Some owner ->
  s_events sv !! ev = Some set0 ->
  conns s !! owner = Some ocs -> cs_alive ocs = true ->
  step s (Message c (UnsubscribeEvent sc ev)) f b =
    if bool_decide (set0 ∖ {[c]} = ∅)
    then Done (s <| svcs ::= <[k := sv <| s_events ::= delete ev |>]> |>, [(owner, UnsubscribeEvent sc ev, None)])
    else Done (s <| svcs ::= <[k := sv <| s_events ::= <[ev := set0 ∖ {[c]}]> |>]> |>, []).
Proof.
  intros Hc Hs Ho Hev Hoc Hoa.
  assert (H : handle (m_init s) c (UnsubscribeEvent sc ev) f b =
    if bool_decide (set0 ∖ {[c]} = ∅)
    then Done {| ms := s <| svcs ::= <[k := sv <| s_events ::= delete ev |>]> |>; mw := work0;
                 mo := [(owner, UnsubscribeEvent sc ev, None)] |}
    else Done {| ms := s <| svcs ::= <[k := sv <| s_events ::= <[ev := set0 ∖ {[c]}]> |>]> |>; mw := work0; mo := [] |}).
  { rewrite (handle_UnsubscribeEvent _ c cs) by exact Hc. cbn [ms m_init]. rewrite Hs, Ho, Hev. cbv zeta.
    destruct (bool_decide (set0 ∖ {[c]} = ∅)); [|reflexivity].
    erewrite send_or_remove_alive by (try exact Hoa; cbn; exact Hoc). reflexivity. }
  destruct (bool_decide (set0 ∖ {[c]} = ∅)); apply step_message_idle in H; try exact H; reflexivity.
Qed.

(* ... and nothing at all happens for an unknown cookie or an event nobody is subscribed to *)
Theorem unsubscribe_event_noop s c cs sc ev f b :
  conns s !! c = Some cs ->
  (svc_by_cookie s sc = None \/
   exists k sv owner, svc_by_cookie s sc = Some (k, sv) /\ owner_of_svc s k = Some owner /\ s_events sv !! ev = None) ->
  step s (Message c (UnsubscribeEvent sc ev)) f b = Done (s, []).
Proof.
  intros Hc Hcase.
  assert (H : handle (m_init s) c (UnsubscribeEvent sc ev) f b = Done (m_init s)).
  { rewrite (handle_UnsubscribeEvent _ c cs) by exact Hc. cbn [ms m_init].
    destruct Hcase as [->|(k & sv & owner & -> & -> & ->)]; reflexivity. }
  apply step_message_idle in H; [exact H|reflexivity].
Qed.

(* SubscribeAllEvents (accepted: the service supports it and the owner speaks version 18): the
   owner is told iff nobody was subscribed to all events before *)
Theorem subscribe_all_step s c cs serial sc f b k sv owner ocs :
  conns s !! c = Some cs -> cs_alive cs = true -> 18 <= cs_ver cs ->
  svc_by_cookie s sc = Some (k, sv) -> owner_of_svc s k = Some owner -> conns s !! owner = Some ocs ->
  i_sub_all (s_info sv) = Some true -> 18 <= cs_ver ocs ->
  step s (Message c (SubscribeAllEvents (Some serial) sc)) f b =
    Done (s <| svcs ::= <[k := sv <| s_all ::= fun x => {[c]} ∪ x |>]> |>,
          (c, SubscribeAllEventsReply serial SAOk, None) ::
          (if bool_decide (s_all sv = ∅) && cs_alive ocs then [(owner, SubscribeAllEvents None sc, None)] else [])).
Proof.
  intros Hc Hal Hv Hs Ho Hoc Hsub Hov.
  set (s1 := s <| svcs ::= _ |>). set (o1 := _ :: _).
  assert (H : handle (m_init s) c (SubscribeAllEvents (Some serial) sc) f b = Done {| ms := s1; mw := work0; mo := o1 |}).
  { rewrite (handle_SubscribeAllEvents _ c cs) by assumption. cbn [ms m_init]. rewrite Hs, Ho, Hoc, Hsub.
    cbn [default negb orb]. change MIN_SUBSCRIBE_ALL_EVENTS_OWNER with 18.
    destruct (N.ltb_spec (cs_ver ocs) 18) as [?|_]; [lia|].
    erewrite send_alive by eassumption. cbn [andThen]. cbv zeta. subst o1.
    destruct (bool_decide (s_all sv = ∅)); [|reflexivity].
    erewrite send_ignore_connected by (cbn; exact Hoc). destruct (cs_alive ocs); reflexivity. }
  apply step_message_idle in H; [exact H|reflexivity].
Qed.

(* UnsubscribeAllEvents (accepted): the owner is told iff the set was non-empty and becomes empty *)
Theorem unsubscribe_all_step s c cs serial sc f b k sv owner ocs :
  conns s !! c = Some cs -> (serial <> None -> cs_alive cs = true) -> 18 <= cs_ver cs ->
  svc_by_cookie s sc = Some (k, sv) -> owner_of_svc s k = Some owner -> conns s !! owner = Some ocs ->
  18 <= cs_ver ocs ->
  step s (Message c (UnsubscribeAllEvents serial sc)) f b =
    Done (s <| svcs ::= <[k := sv <| s_all := s_all sv ∖ {[c]} |>]> |>,
          (match serial with Some n => [(c, UnsubscribeAllEventsReply n SAOk, None)] | None => [] end) ++
          (if negb (bool_decide (s_all sv = ∅)) && bool_decide (s_all sv ∖ {[c]} = ∅) && cs_alive ocs
           then [(owner, UnsubscribeAllEvents None sc, None)] else [])).
Proof.
  intros Hc Hal Hv Hs Ho Hoc Hov.
  set (s1 := s <| svcs ::= _ |>). set (o1 := _ ++ _).
  assert (H : handle (m_init s) c (UnsubscribeAllEvents serial sc) f b = Done {| ms := s1; mw := work0; mo := o1 |}).
  { rewrite (handle_UnsubscribeAllEvents _ c cs) by assumption. cbn [ms m_init]. cbv zeta. rewrite Hs, Ho, Hoc.
    change MIN_UNSUBSCRIBE_ALL_EVENTS_OWNER with 18.
    destruct (N.ltb_spec (cs_ver ocs) 18) as [?|_]; [lia|]. subst o1.
    destruct serial as [n|].
    - erewrite send_alive; [|exact Hc|apply Hal; discriminate]. cbn [andThen].
      destruct (negb (bool_decide (s_all sv = ∅)) && bool_decide (s_all sv ∖ {[c]} = ∅)); [|reflexivity].
      erewrite send_ignore_connected by (cbn; exact Hoc). destruct (cs_alive ocs); reflexivity.
    - cbn [andThen].
      destruct (negb (bool_decide (s_all sv = ∅)) && bool_decide (s_all sv ∖ {[c]} = ∅)); [|reflexivity].
      erewrite send_ignore_connected by (cbn; exact Hoc). destruct (cs_alive ocs); reflexivity. }
  apply step_message_idle in H; [exact H|reflexivity].
Qed.
