(* Broker/EventProofs.v — C04 on the abstract broker machine: event fan-out (who receives an
   EmitEvent, how often, with which payload), the owner's 0<->1 subscriber-count notifications at
   handler level and on a subscriber's disconnect, and the ServiceDestroyed notification queue. *)
From stdpp Require Import gmap list.
From RecordUpdate Require Import RecordSet.
Import RecordSetNotations.
From Aldrin Require Import gen.BrokerConsts Broker.Model Broker.Run Broker.OutKinds.
From Coq Require Import Lia.
Local Open Scope N_scope.

(* ---------------------------------------------------------------- vocabulary *)
Definition is_emit (o : out) : bool := match o.1.2 with EmitEvent _ _ _ => true | _ => false end.

Lemma K_settle_not_emit o : K_settle o -> is_emit o = false.
Proof. intros [H _]. unfold is_emit. destruct (o.1.2); cbn in H; try reflexivity; destruct H. Qed.

(* ---------------------------------------------------------------- handler equations *)
Lemma handle_EmitEvent m c cs sc ev v f b : conns (ms m) !! c = Some cs ->
  handle m c (EmitEvent sc ev v) f b =
      match svc_by_cookie (ms m) sc with
      | None => Done m
      | Some (k, s) =>
          match owner_of_svc (ms m) k with
          | None => Panic 29
          | Some owner =>
              if negb (bool_decide (owner = c)) then Done m else
              let t : gset conn := s_all s ∪ default ∅ (s_events s !! ev) in
              foldO (fun m x => send_or_remove m x (EmitEvent sc ev v) (Some (cs_ver cs))) (elements t) m
          end
      end.
Proof. intros H. unfold handle. rewrite H. reflexivity. Qed.

(* ---------------------------------------------------------------- fan-out *)
(* sending one message to a list of connections: the state is untouched, exactly the alive ones
   get the message (in list order), the dead ones are queued for removal *)
Lemma fanout_fold (x0 : msg) (from : option N) l : forall m m',
  foldO (fun m x => send_or_remove m x x0 from) l m = Done m' ->
  ms m' = ms m /\
  mo m' = mo m ++ ((fun x => (x, x0, from)) <$> List.filter (alive (ms m)) l) /\
  mw m' = mw m <| w_remove_conns :=
                    rev ((fun x => (x, false)) <$> List.filter (fun x => negb (alive (ms m) x)) l)
                    ++ w_remove_conns (mw m) |> /\
  Forall (fun x => is_Some (conns (ms m) !! x)) l.
Proof.
  induction l as [|x l IH]; intros m m'; cbn [foldO].
  - intros [= <-]. cbn. rewrite app_nil_r. repeat split; try reflexivity; [|constructor].
    destruct (mw m); reflexivity.
  - unfold send_or_remove at 1. unfold send. cbn [List.filter].
    destruct (conns (ms m) !! x) as [cs|] eqn:Ex; [|discriminate].
    assert (Hal : alive (ms m) x = cs_alive cs) by (unfold alive; rewrite Ex; reflexivity).
    rewrite Hal.
    destruct (cs_alive cs) eqn:Ea; cbn [negb]; intros H; apply IH in H as (H1 & H2 & H3 & H4); cbn in H1, H2, H3, H4.
    + rewrite H1, H2, H3. cbn. rewrite <- app_assoc. repeat split; try reflexivity.
      constructor; [rewrite Ex; eauto|exact H4].
    + rewrite H1, H2, H3. cbn. rewrite <- app_assoc. repeat split; try reflexivity.
      constructor; [rewrite Ex; eauto|exact H4].
Qed.

(* all destinations alive: nothing but the sends happens *)
Lemma fanout_fold_alive (x0 : msg) (from : option N) l m m' :
  foldO (fun m x => send_or_remove m x x0 from) l m = Done m' ->
  (forall x, In x l -> alive (ms m) x = true) ->
  m' = m <| mo := mo m ++ ((fun x => (x, x0, from)) <$> l) |>.
Proof.
  intros H Ha. apply fanout_fold in H as (H1 & H2 & H3 & _).
  rewrite (list_filter_all _ l Ha) in H2.
  assert (E : List.filter (fun x => negb (alive (ms m) x)) l = []).
  { clear -Ha. induction l as [|a l IH]; cbn; [reflexivity|]. rewrite (Ha a (or_introl eq_refl)). cbn.
    apply IH. intros b Hb. apply Ha. right. exact Hb. }
  rewrite E in H3. cbn in H3. destruct m as [s w o], m' as [s' w' o']. cbn in *. subst.
  destruct w; reflexivity.
Qed.

(* the set of subscribers an event is fanned out to *)
Definition event_targets (sv : svc) (ev : N) : gset conn := s_all sv ∪ default ∅ (s_events sv !! ev).

Lemma event_targets_spec sv ev x :
  x ∈ event_targets sv ev <-> x ∈ s_all sv \/ exists set, s_events sv !! ev = Some set /\ x ∈ set.
Proof.
  unfold event_targets. rewrite elem_of_union. split; (intros [H|H]; [left; exact H|right]).
  - destruct (s_events sv !! ev) as [set|]; cbn in H; [eauto|]. exfalso. revert H. apply not_elem_of_empty.
  - destruct H as (set & -> & H). exact H.
Qed.

(* C04_fanout, owner case: the EmitEvent outputs of the step are exactly one copy, payload and ids
   unchanged, tagged with the owner's version, for every alive subscriber of that event id or of
   all events; [elements] has no duplicates *)
Theorem fanout_owner s c cs sc ev v f b s' o k sv :
  conns s !! c = Some cs -> svc_by_cookie s sc = Some (k, sv) -> owner_of_svc s k = Some c ->
  step s (Message c (EmitEvent sc ev v)) f b = Done (s', o) ->
  List.filter is_emit o =
    (fun x => (x, EmitEvent sc ev v, Some (cs_ver cs))) <$> List.filter (alive s) (elements (event_targets sv ev)) /\
  NoDup (elements (event_targets sv ev)) /\
  Forall (fun x => is_Some (conns s !! x)) (elements (event_targets sv ev)).
Proof.
  intros Hc Hs Ho Hstep. apply step_outputs in Hstep as (m & l & Hh & -> & Hl).
  cbn [step_handler] in Hh. fold (m_init s) in Hh.
  rewrite (handle_EmitEvent (m_init s) c cs) in Hh by exact Hc.
  cbn [ms m_init] in Hh. rewrite Hs, Ho in Hh.
  rewrite bool_decide_eq_true_2 in Hh by reflexivity. cbn [negb] in Hh.
  fold (event_targets sv ev) in Hh. cbv zeta in Hh.
  destruct (foldO _ _ _) as [m1|m1|] eqn:Ef in Hh; try discriminate.
  - injection Hh as <-. apply fanout_fold in Ef as (_ & E2 & _ & E4). cbn in E2, E4.
    split; [|split; [apply NoDup_elements|exact E4]].
    rewrite list_filter_app, (filter_K_settle_nil is_emit l K_settle_not_emit Hl), app_nil_r, E2.
    apply list_filter_all. intros a Ha. apply in_map_iff in Ha as (x & <- & _). reflexivity.
  - exfalso. clear -Ef. revert Ef. generalize (m_init s). induction (elements _) as [|x l IH]; intros m; cbn; [discriminate|].
    unfold send_or_remove at 1. destruct (send m x _ _); try discriminate; apply IH.
Qed.

(* with every subscriber alive the step changes nothing but the outputs, and there are no other
   outputs at all *)
Theorem fanout_owner_alive s c cs sc ev v f b s' o k sv :
  conns s !! c = Some cs -> svc_by_cookie s sc = Some (k, sv) -> owner_of_svc s k = Some c ->
  (forall x, x ∈ event_targets sv ev -> alive s x = true) ->
  step s (Message c (EmitEvent sc ev v)) f b = Done (s', o) ->
  s' = s /\ o = (fun x => (x, EmitEvent sc ev v, Some (cs_ver cs))) <$> elements (event_targets sv ev).
Proof.
  intros Hc Hs Ho Ha. rewrite step_unfold. cbn [step_handler]. fold (m_init s).
  rewrite (handle_EmitEvent (m_init s) c cs) by exact Hc.
  cbn [ms m_init]. rewrite Hs, Ho.
  rewrite bool_decide_eq_true_2 by reflexivity. cbn [negb].
  fold (event_targets sv ev). cbv zeta.
  destruct (foldO _ _ _) as [m1|m1|] eqn:Ef; try discriminate.
  - apply fanout_fold_alive in Ef; [|intros x Hx; apply Ha, elem_of_elements, elem_of_list_In, Hx].
    subst m1. rewrite settle_idle by reflexivity. intros [= <- <-]. split; reflexivity.
  - exfalso. clear -Ef. revert Ef. generalize (m_init s). induction (elements _) as [|x l IH]; intros m; cbn; [discriminate|].
    unfold send_or_remove at 1. destruct (send m x _ _); try discriminate; apply IH.
Qed.

(* C04_fanout, non-owner or unknown cookie: nothing is output at all and the state is unchanged *)
Theorem fanout_dropped s c cs sc ev v f b s' o :
  conns s !! c = Some cs ->
  (svc_by_cookie s sc = None \/
   exists k sv owner, svc_by_cookie s sc = Some (k, sv) /\ owner_of_svc s k = Some owner /\ owner <> c) ->
  step s (Message c (EmitEvent sc ev v)) f b = Done (s', o) ->
  s' = s /\ o = [].
Proof.
  intros Hc Hcase. rewrite step_unfold. cbn [step_handler]. fold (m_init s).
  rewrite (handle_EmitEvent (m_init s) c cs) by exact Hc. cbn [ms m_init].
  destruct Hcase as [->|(k & sv & owner & -> & -> & Hne)].
  - rewrite settle_idle by reflexivity. intros [= <- <-]. split; reflexivity.
  - rewrite bool_decide_eq_false_2 by exact Hne. cbn [negb].
    rewrite settle_idle by reflexivity. intros [= <- <-]. split; reflexivity.
Qed.

(* an unconnected sender: the message is ignored *)
Theorem message_unconnected s c x f b s' o :
  conns s !! c = None -> step s (Message c x) f b = Done (s', o) -> s' = s /\ o = [].
Proof.
  intros Hc. rewrite step_unfold. cbn [step_handler]. unfold handle. cbn [ms]. rewrite Hc.
  rewrite settle_idle by reflexivity. intros [= <- <-]. split; reflexivity.
Qed.

(* the per-connection reading: how many copies of the event connection [x] gets in the step *)
Definition emits_to (x : conn) (o : list out) : list out :=
  List.filter (fun p : out => bool_decide (p.1.1 = x)) (List.filter is_emit o).

Lemma filter_map_conn (g : conn -> out) x l : (forall y, (g y).1.1 = y) -> NoDup l ->
  List.filter (fun p : out => bool_decide (p.1.1 = x)) (g <$> l) = if bool_decide (x ∈ l) then [g x] else [].
Proof.
  intros Hg. induction 1 as [|y l Hy Hnd IH]; cbn [fmap list_fmap List.filter].
  - rewrite bool_decide_eq_false_2; [reflexivity|]. apply not_elem_of_nil.
  - rewrite Hg, IH. destruct (bool_decide_reflect (y = x)) as [->|Hne].
    + rewrite bool_decide_eq_false_2 by exact Hy. rewrite bool_decide_eq_true_2; [reflexivity|]. left.
    + destruct (bool_decide_reflect (x ∈ l)) as [Hin|Hnin].
      * rewrite bool_decide_eq_true_2; [reflexivity|]. right. exact Hin.
      * rewrite bool_decide_eq_false_2; [reflexivity|]. intros Hx. apply elem_of_cons in Hx as [->|Hx]; auto.
Qed.

Lemma NoDup_list_filter {A} (p : A -> bool) l : NoDup l -> NoDup (List.filter p l).
Proof.
  induction 1 as [|a l Ha Hnd IH]; cbn; [constructor|]. destruct (p a); [|exact IH].
  constructor; [|exact IH]. intros Hin. apply Ha. apply elem_of_list_In in Hin.
  apply filter_In in Hin as [Hin _]. apply elem_of_list_In. exact Hin.
Qed.

Theorem fanout_exactly_once s c cs sc ev v f b s' o k sv x :
  conns s !! c = Some cs -> svc_by_cookie s sc = Some (k, sv) -> owner_of_svc s k = Some c ->
  step s (Message c (EmitEvent sc ev v)) f b = Done (s', o) ->
  emits_to x o = if bool_decide (x ∈ event_targets sv ev) && alive s x
                 then [(x, EmitEvent sc ev v, Some (cs_ver cs))] else [].
Proof.
  intros Hc Hs Ho Hstep. destruct (fanout_owner _ _ _ _ _ _ _ _ _ _ _ _ Hc Hs Ho Hstep) as (E & Hnd & _).
  unfold emits_to. rewrite E.
  rewrite (filter_map_conn (fun x => (x, EmitEvent sc ev v, Some (cs_ver cs)))); [|reflexivity|apply NoDup_list_filter, Hnd].
  assert (Hiff : x ∈ List.filter (alive s) (elements (event_targets sv ev)) <-> x ∈ event_targets sv ev /\ alive s x = true).
  { rewrite elem_of_list_In, filter_In, <- elem_of_list_In, elem_of_elements. reflexivity. }
  destruct (bool_decide_reflect (x ∈ List.filter (alive s) (elements (event_targets sv ev)))) as [Hin|Hnin].
  - apply Hiff in Hin as [H1 H2]. rewrite bool_decide_eq_true_2, H2 by exact H1. reflexivity.
  - destruct (bool_decide_reflect (x ∈ event_targets sv ev)) as [H1|H1]; [|reflexivity].
    destruct (alive s x) eqn:H2; [|reflexivity]. exfalso. apply Hnin, Hiff. auto.
Qed.
