(* Broker/StatsProofs.v — C09, the statistics gauges: each of the five counters equals the size
   of its map in every reachable state.  One lemma per function of the removal cascade, the work
   loop and the handlers; offsets (a, b, c) describe the moments inside shutdown_conn /
   remove_object / remove_service where a key is already deleted but the gauge not yet
   decremented. *)
From stdpp Require Import gmap list.
From RecordUpdate Require Import RecordSet.
Import RecordSetNotations.
From Aldrin Require Import gen.BrokerConsts Broker.Model Broker.Run Broker.Wp.
From Coq Require Import ZifyBool ZifyNat ZifyN Lia.
Local Open Scope N_scope.

Definition stats_ok (s : state) : Prop :=
  n_conns (st s) = N.of_nat (size (conns s)) /\
  n_objs (st s) = N.of_nat (size (objs s)) /\
  n_svcs (st s) = N.of_nat (size (svcs s)) /\
  n_chans (st s) = N.of_nat (size (chans s)) /\
  n_lis (st s) = N.of_nat (size (listeners s)).

Definition okd (a b c : N) (s : state) : Prop :=
  n_conns (st s) = N.of_nat (size (conns s)) + a /\
  n_objs (st s) = N.of_nat (size (objs s)) + b /\
  n_svcs (st s) = N.of_nat (size (svcs s)) + c /\
  n_chans (st s) = N.of_nat (size (chans s)) /\
  n_lis (st s) = N.of_nat (size (listeners s)).

Lemma stats_ok_okd s : stats_ok s <-> okd 0 0 0 s.
Proof. unfold stats_ok, okd. rewrite !N.add_0_r. reflexivity. Qed.

Ltac okd_tac :=
  unfold SP, okd in *; cbn in *;
  rewrite ?map_size_insert_Some by (eexists; eassumption);
  rewrite ?map_size_fmap;
  repeat match goal with
  | H : ?m !! ?k = Some ?x |- context [size (delete ?k ?m)] =>
      rewrite (map_size_delete_Some k m) by (eexists; exact H);
      pose proof (size_delete_Some m k x H)
  | H : ?m !! ?k = None |- context [size (<[?k := _]> ?m)] =>
      rewrite (map_size_insert_None k _ m H)
  end;
  unfold sat_sub1; lia.

Lemma remove_listener_okd a b c m k : okd a b c (ms m) -> okd a b c (ms (remove_listener m k)).
Proof.
  intros H. unfold remove_listener. destruct (listeners (ms m) !! k) eqn:E; [|exact H]. okd_tac.
Qed.

Lemma remove_end_okd a b c m k e :
  okd a b c (ms m) -> res (SP (okd a b c)) never (remove_end m k e).
Proof.
  intros H. unfold remove_end. destruct (chans (ms m) !! k) eqn:E; [|exact H].
  destruct (chan_close _ e); [cbn; okd_tac| |exact I].
  destruct (has _ _); [apply send_or_remove_sp|cbn]; okd_tac.
Qed.

Lemma remove_service_okd a b c m cookie :
  okd a b c (ms m) -> res (SP (okd a b c)) never (remove_service m cookie).
Proof.
  intros H. unfold remove_service. destruct (svc_by_cookie _ _) as [[k s]|] eqn:E; [|exact H].
  apply svc_by_cookie_Some in E as [E _].
  eapply res_bind with (QD := SP (okd a b (c + 1))).
  - apply foldO_res; [|okd_tac]. intros m' x _ Hm'. destruct (calls (ms m') !! x); [|exact I].
    cbn. destruct (c_aborted _); okd_tac.
  - intros m2 H2. cbn [res].
    match goal with |- SP _ (?m3 <| ms; st; n_svcs ::= _ |>) => assert (ms m3 = ms m2) as Hm3 end.
    { apply (foldr_inv (fun m => ms m = ms m2)); [|reflexivity].
      intros m' x _ Hm'. destruct (has m' x); exact Hm'. }
    unfold SP. cbn. rewrite Hm3. okd_tac.
Qed.

Lemma remove_object_okd a b c m cookie :
  okd a b c (ms m) -> res (SP (okd a b c)) never (remove_object m cookie).
Proof.
  intros H. unfold remove_object. destruct (obj_by_cookie _ _) as [[u o]|] eqn:E; [|exact H].
  apply obj_by_cookie_Some in E as [E _].
  eapply res_bind with (QD := SP (okd a (b + 1) c)).
  - apply foldO_res; [|okd_tac]. intros m' x _ Hm'. apply remove_service_okd, Hm'.
  - intros m2 H2. cbn. okd_tac.
Qed.

Lemma sc_ev_okd a b c cn m k : okd a b c (ms m) -> res (SP (okd a b c)) never (sc_ev cn m k).
Proof.
  intros H. unfold sc_ev. destruct (svcs (ms m) !! k) eqn:E; [|exact H].
  destruct (owner_of_svc _ _); [|exact I]. cbn [res].
  apply (foldl_inv (SP (okd a b c))); [|exact H].
  intros m' e _ Hm'. unfold sc_ev_inner. destruct (svcs (ms m') !! k) eqn:E'; [|exact Hm'].
  destruct (bool_decide _); okd_tac.
Qed.

Lemma sc_all_okd a b c cn m k : okd a b c (ms m) -> res (SP (okd a b c)) never (sc_all cn m k).
Proof.
  intros H. unfold sc_all. destruct (svcs (ms m) !! k) eqn:E; [|exact H].
  destruct (owner_of_svc _ _); [|exact I]. destruct (bool_decide (cn ∈ _)); [|exact H].
  cbn [res]. destruct (bool_decide _); okd_tac.
Qed.

Lemma shutdown_conn_okd a b c m cn sd :
  okd a b c (ms m) -> res (SP (okd a b c)) never (shutdown_conn m cn sd).
Proof.
  apply shutdown_conn_sp with (Q' := okd (a + 1) b c).
  - intros cs E H. okd_tac.
  - intros. by apply remove_listener_okd.
  - intros. by apply remove_object_okd.
  - intros. by apply sc_ev_okd.
  - intros. by apply sc_all_okd.
  - intros s H. unfold sc_subs. okd_tac.
  - intros. by apply remove_end_okd.
  - intros s H. okd_tac.
Qed.

Lemma upd_call_done_okd a b c s cn cs serial :
  okd a b c s -> conns s !! cn = Some cs -> okd a b c (upd_call_done s cn cs serial).
Proof. intros H E. unfold upd_call_done. okd_tac. Qed.

Lemma settle_okd a b c fuel m : okd a b c (ms m) -> res (SP (okd a b c)) never (settle fuel m).
Proof.
  apply settle_sp.
  - intros. by apply shutdown_conn_okd.
  - intros. by apply upd_call_done_okd.
  - intros s bs cl H E. okd_tac.
Qed.

Ltac okd_leaf := first [assumption | apply remove_listener_okd; assumption | prep; okd_tac | idtac].

Lemma create_service_impl_okd a b c m cn serial oc u i fresh :
  okd a b c (ms m) -> res (SP (okd a b c)) (SP (okd a b c)) (create_service_impl m cn serial oc u i fresh).
Proof. intros H. unfold create_service_impl. wp okd_leaf idtac. Qed.

Lemma call_impl_okd a b c m cn serial sc fn ver v bserial :
  okd a b c (ms m) -> res (SP (okd a b c)) (SP (okd a b c)) (call_impl m cn serial sc fn ver v bserial).
Proof. intros H. unfold call_impl. wp okd_leaf idtac. Qed.

Ltac okd_call :=
  first [ apply create_service_impl_okd | apply call_impl_okd
        | apply res_never, remove_object_okd | apply res_never, remove_service_okd
        | apply res_never, remove_end_okd ]; cbn; okd_leaf.

(* the handlers: the fresh cookie must not be a channel or listener cookie in use *)
Lemma handle_okd a b c m cn x fresh bserial :
  okd a b c (ms m) -> chans (ms m) !! fresh = None -> listeners (ms m) !! fresh = None ->
  res (SP (okd a b c)) (SP (okd a b c)) (handle m cn x fresh bserial).
Proof.
  intros H Hc Hl. unfold handle. destruct (conns (ms m) !! cn) as [cs|] eqn:Ecn; [|exact H].
  destruct x; try exact H; wp okd_leaf okd_call.
Qed.

Lemma legal_fresh s i : legal s i -> chans s !! i_fresh i = None /\ listeners s !! i_fresh i = None.
Proof.
  intros (Hf & _). unfold cookies_in_use in Hf. rewrite !not_elem_of_union in Hf.
  destruct Hf as [[_ Hc] Hl]. split; by apply not_elem_of_dom.
Qed.

Lemma stats_step s e fresh b s' o :
  stats_ok s -> chans s !! fresh = None -> listeners s !! fresh = None ->
  step s e fresh b = Done (s', o) -> stats_ok s'.
Proof.
  rewrite !stats_ok_okd. intros H Hc Hl. apply step_sp; try exact H.
  - intros. by apply settle_okd.
  - intros c x _. by apply handle_okd.
  - intros c ver _ E. unfold new_conn. okd_tac.
  - intros _. okd_tac.
  - intros _. okd_tac.
  - intros c _. unfold drop_task. destruct (conns s !! c) eqn:E; [|exact H]. okd_tac.
Qed.

Lemma stats_step_legal s i s' o :
  stats_ok s -> legal s i -> step s (i_ev i) (i_fresh i) (i_bserial i) = Done (s', o) -> stats_ok s'.
Proof. intros H Hl. destruct (legal_fresh s i Hl). by apply stats_step. Qed.

Lemma stats_init : stats_ok init.
Proof. repeat split. Qed.

Lemma stats_reachable s : reachable s -> stats_ok s.
Proof. induction 1 as [|s i s' o _ IH Hl Hs]; [apply stats_init|by eapply stats_step_legal]. Qed.
