(* Broker/InvProofsHandle2.v — message handlers, part 2: objects, services and subscriptions. *)
From stdpp Require Import gmap list.
From RecordUpdate Require Import RecordSet.
Import RecordSetNotations.
From Aldrin Require Import gen.BrokerConsts Broker.Model Broker.Run Broker.ChannelProofs Broker.Inv
  Broker.InvProofsBase Broker.InvProofsCalls Broker.InvProofsRemove Broker.InvProofsRemoveSvc
  Broker.InvProofsShutdown Broker.InvProofsHandle1.
From Coq Require Import Lia.
Local Open Scope N_scope.

(* ---------------------------------------------------------------- fresh cookies *)
Lemma fresh_obj s f u o : f ∉ cookies_in_use s → objs s !! u = Some o → o_cookie o ≠ f.
Proof.
  intros Hf Hu Heq. apply Hf. unfold cookies_in_use. rewrite !elem_of_union. left. left. left.
  apply elem_of_list_to_set, elem_of_list_fmap. exists (u, o). split; [done|by apply elem_of_map_to_list].
Qed.
Lemma fresh_svc s f k sv : f ∉ cookies_in_use s → svcs s !! k = Some sv → s_cookie sv ≠ f.
Proof.
  intros Hf Hu Heq. apply Hf. unfold cookies_in_use. rewrite !elem_of_union. left. left. right.
  apply elem_of_list_to_set, elem_of_list_fmap. exists (k, sv). split; [done|by apply elem_of_map_to_list].
Qed.

(* ---------------------------------------------------------------- removal from a handler *)
Lemma good_remove_object m ck :
  MI m → ∃ m', remove_object m ck = Done m' ∧ MI m' ∧ conns (ms m') = conns (ms m) ∧
    svcs (ms m') ⊆ svcs (ms m) ∧
    objs (ms m') = match obj_by_cookie (ms m) ck with
                   | Some (u, _) => delete u (objs (ms m)) | None => objs (ms m) end.
Proof.
  intros H. destruct (remove_object_spec _ m ck H) as (m' & -> & H' & Hb & _ & _ & Hs & Ho).
  exists m'. split; [done|]. split; [eapply MX_MI; [|exact H']; by rw_fields Hb|].
  split; [by rw_fields Hb|]. done.
Qed.

Lemma good_remove_service m ck :
  MI m → ∃ m', remove_service m ck = Done m' ∧ MI m' ∧ conns (ms m') = conns (ms m) ∧
    objs (ms m') = objs (ms m) ∧
    svcs (ms m') = match svc_by_cookie (ms m) ck with
                   | Some (k, _) => delete k (svcs (ms m)) | None => svcs (ms m) end.
Proof.
  intros H. destruct (remove_service_spec _ _ m ck H) as (m' & -> & H' & Hb & _ & _ & Hs).
  exists m'. split; [done|]. split; [eapply MX_MI; [|unfold MX; rw_fields Hb; exact H']; by rw_fields Hb|].
  split; [by rw_fields Hb|]. split; [by rw_fields Hb|done].
Qed.

(* ---------------------------------------------------------------- objects *)
Lemma h_create_object m c serial u fresh :
  MI m → is_Some (conns (ms m) !! c) → fresh ∉ cookies_in_use (ms m) →
  good (if bool_decide (is_Some (objs (ms m) !! u)) then send m c (CreateObjectReply serial CODuplicate) None
        else send m c (CreateObjectReply serial (COOk fresh)) None >>> fun m1 =>
             Done (m1 <| ms; objs ::= <[u := {| o_cookie := fresh; o_owner := c |}]> |>
                      <| mw; w_create_obj ::= cons (u, fresh) |>
                      <| ms; st; n_objs ::= N.succ |>)).
Proof.
  intros H Hc Hf. destruct (bool_decide_reflect (is_Some (objs (ms m) !! u))) as [|Hn]; [by apply good_send|].
  apply eq_None_not_Some in Hn.
  apply good_send_bind; [done..|]. intros m1 Hq. cbn. mi_quiet Hq H.
  - intros k sv Hk. destruct (Hreg _ _ Hk) as (o & Ho & Hck). exists o. split; [|done].
    rewrite lookup_insert_ne; [done|]. intros Heq. rewrite <- Heq in Ho. congruence.
  - intros u1 u2 o1 o2. rewrite !lookup_insert_Some. intros [[<- <-]|[N1 H1]] [[<- <-]|[N2 H2]] Hck; try done.
    + cbn in Hck. exfalso. eapply fresh_obj; eauto.
    + cbn in Hck. exfalso. eapply fresh_obj; eauto.
    + eapply Huo; eauto.
  - intros u' o'. rewrite lookup_insert_Some. intros [[_ <-]|[_ ?]]; [cbn; by apply elem_of_dom|eauto].
Qed.

Lemma h_destroy_object m c serial cookie :
  MI m → is_Some (conns (ms m) !! c) →
  good (match obj_by_cookie (ms m) cookie with
      | None => send m c (DestroyObjectReply serial R3Invalid) None
      | Some (_, o) =>
          if negb (bool_decide (o_owner o = c)) then send m c (DestroyObjectReply serial R3Foreign) None
          else send m c (DestroyObjectReply serial R3Ok) None >>> fun m1 => remove_object m1 cookie
      end).
Proof.
  intros H Hc. destruct (obj_by_cookie (ms m) cookie) as [[u o]|]; [|by apply good_send].
  destruct (negb _); [by apply good_send|]. apply good_send_bind; [done..|]. intros m1 Hq.
  destruct (good_remove_object m1 cookie (MI_quiet _ _ Hq H)) as (m' & -> & H' & _). done.
Qed.

(* ---------------------------------------------------------------- services *)
Lemma h_create_service_impl m c serial oc u i fresh :
  MI m → is_Some (conns (ms m) !! c) → fresh ∉ cookies_in_use (ms m) →
  good (create_service_impl m c serial oc u i fresh).
Proof.
  intros H Hc Hf. unfold create_service_impl.
  destruct (obj_by_cookie (ms m) oc) as [[ou o]|] eqn:Eo; [|by apply good_send].
  apply obj_by_cookie_Some in Eo as [Hou Hoc].
  destruct (bool_decide_reflect (is_Some (svcs (ms m) !! (ou, u)))) as [|Hn]; [by apply good_send|].
  apply eq_None_not_Some in Hn.
  destruct (negb _); [by apply good_send|]. destruct i as [i|]; [|done].
  apply good_send_bind; [done..|]. intros m1 Hq. cbn. mi_quiet Hq H.
  - intros k sv. rewrite lookup_insert_Some. intros [[<- <-]|[_ Hk]]; [|eauto]. exists o. done.
  - intros k1 k2 s1 s2. rewrite !lookup_insert_Some. intros [[<- <-]|[N1 H1]] [[<- <-]|[N2 H2]] Hck; try done.
    + cbn in Hck. exfalso. eapply fresh_svc; eauto.
    + cbn in Hck. exfalso. eapply fresh_svc; eauto.
    + eapply Hus; eauto.
  - intros k sv. rewrite lookup_insert_Some. intros [[_ <-]|[_ ?]]; [|eauto].
    split; [cbn; set_solver|]. split; [cbn; set_solver|]. intros e set. cbn. by rewrite lookup_empty.
  - intros b cl Hb. destruct (Hcs _ _ Hb) as (sv & Hsv & Hin). exists sv. split; [|done].
    rewrite lookup_insert_ne; [done|]. intros Heq. rewrite <- Heq in Hsv. congruence.
  - intros k sv b. rewrite lookup_insert_Some. intros [[_ <-]|[_ Hk]] Hb; [|eauto]. cbn in Hb. set_solver.
Qed.

Lemma h_destroy_service m c serial cookie :
  MI m → is_Some (conns (ms m) !! c) →
  good (match svc_by_cookie (ms m) cookie with
      | None => send m c (DestroyServiceReply serial R3Invalid) None
      | Some (k, _) =>
          match owner_of_svc (ms m) k with
          | None => Panic 23
          | Some owner =>
              if negb (bool_decide (owner = c)) then send m c (DestroyServiceReply serial R3Foreign) None
              else send m c (DestroyServiceReply serial R3Ok) None >>> fun m1 => remove_service m1 cookie
          end
      end).
Proof.
  intros H Hc. destruct (svc_by_cookie (ms m) cookie) as [[k s]|] eqn:E; [|by apply good_send].
  apply svc_by_cookie_Some in E as [Hk _].
  destruct (owner_of_svc_reg (ms m) k s) as (o & Ho & -> & _); [apply H|done|].
  destruct (negb _); [by apply good_send|]. apply good_send_bind; [done..|]. intros m1 Hq.
  destruct (good_remove_service m1 cookie (MI_quiet _ _ Hq H)) as (m' & -> & H' & _). done.
Qed.

(* ---------------------------------------------------------------- subscriptions *)
Lemma MI_svc_update m k s s' :
  MI m → svcs (ms m) !! k = Some s →
  s_cookie s' = s_cookie s → s_obj_cookie s' = s_obj_cookie s → s_calls s' = s_calls s →
  svc_own (dom (conns (ms m))) s' →
  MI (m <| ms; svcs ::= <[k := s']> |>).
Proof. intros H. unfold MI, MX. cbn. by apply MO_svc_update. Qed.

Lemma h_subscribe_event m c serial sc ev :
  MI m → is_Some (conns (ms m) !! c) →
  good (match svc_by_cookie (ms m) sc with
      | None => send m c (SubscribeEventReply serial false) None
      | Some (k, s) =>
          match owner_of_svc (ms m) k with
          | None => Panic 27
          | Some owner =>
              send m c (SubscribeEventReply serial true) None >>> fun m1 =>
              let first := negb (bool_decide (is_Some (s_events s !! ev))) in
              let set := default ∅ (s_events s !! ev) ∪ {[c]} in
              let m2 := m1 <| ms; svcs ::= <[k := s <| s_events ::= <[ev := set]> |>]> |> in
              if first && has m2 owner then send_ignore m2 owner (SubscribeEvent None sc ev) None else Done m2
          end
      end).
Proof.
  intros H Hc. destruct (svc_by_cookie (ms m) sc) as [[k s]|] eqn:E; [|by apply good_send].
  apply svc_by_cookie_Some in E as [Hk _].
  destruct (owner_of_svc_reg (ms m) k s) as (o & Ho & -> & _); [apply H|done|].
  apply good_send_bind; [done..|]. intros m1 Hq. cbn zeta.
  pose proof (MI_quiet _ _ Hq H) as H1. destruct Hq as (Hs & _).
  set (m2 := m1 <| ms; svcs ::= _ |>).
  assert (MI m2) as H2.
  { eapply MI_svc_update; [done|by rewrite Hs|done..|]. rewrite Hs.
    destruct (iv_os _ _ _ _ _ H _ _ Hk) as (G1 & G2 & G3). split; [done|]. split; [done|].
    intros e st. cbn. rewrite lookup_insert_Some. intros [[_ <-]|[_ ?]]; [|eauto].
    apply elem_of_dom in Hc. split; [|set_solver].
    destruct (s_events s !! ev) as [old|] eqn:Eo; cbn; [|set_solver]. destruct (G3 _ _ Eo). set_solver. }
  destruct (negb _ && has m2 (o_owner o)) eqn:Eh; [|done].
  apply andb_true_iff in Eh as [_ Eh]. apply has_spec in Eh.
  destruct (send_ignore_done m2 (o_owner o) (SubscribeEvent None sc ev) None Eh) as (m3 & -> & Hq3).
  cbn. by eapply MI_quiet.
Qed.

Lemma h_unsubscribe_event m c sc ev :
  MI m →
  good (match svc_by_cookie (ms m) sc with
      | None => Done m
      | Some (k, s) =>
          match owner_of_svc (ms m) k, s_events s !! ev with
          | None, _ => Panic 28
          | Some owner, None => Done m
          | Some owner, Some set0 =>
              let set := set0 ∖ {[c]} in
              if bool_decide (set = ∅) then
                let m1 := m <| ms; svcs ::= <[k := s <| s_events ::= delete ev |>]> |> in
                send_or_remove m1 owner (UnsubscribeEvent sc ev) None
              else Done (m <| ms; svcs ::= <[k := s <| s_events ::= <[ev := set]> |>]> |>)
          end
      end).
Proof.
  intros H. destruct (svc_by_cookie (ms m) sc) as [[k s]|] eqn:E; [|done].
  apply svc_by_cookie_Some in E as [Hk _].
  destruct (owner_of_svc_reg (ms m) k s) as (o & Ho & -> & _); [apply H|done|].
  destruct (s_events s !! ev) as [set0|] eqn:Ee; [|done]. cbn zeta.
  destruct (iv_os _ _ _ _ _ H _ _ Hk) as (G1 & G2 & G3).
  destruct (bool_decide_reflect (set0 ∖ {[c]} = ∅)) as [Hemp|Hne].
  - set (m1 := m <| ms; svcs ::= _ |>).
    assert (MI m1) as H1.
    { eapply MI_svc_update; [done..|]. split; [done|]. split; [done|].
      intros e st. cbn. rewrite lookup_delete_Some. intros [_ ?]. eauto. }
    apply (goodq_good m1); [done|]. apply send_or_remove_goodq. cbn. apply elem_of_dom.
    eapply (iv_oo _ _ _ _ _ H); eauto.
  - cbn. eapply MI_svc_update; [done..|]. split; [done|]. split; [done|].
    intros e st. cbn. rewrite lookup_insert_Some. intros [[_ <-]|[_ ?]]; [|eauto].
    split; [|done]. destruct (G3 _ _ Ee). set_solver.
Qed.

Lemma h_subscribe_service m c serial sc :
  MI m → is_Some (conns (ms m) !! c) →
  good (match svc_by_cookie (ms m) sc with
        | Some (k, s) =>
            send m c (SubscribeServiceReply serial true) None >>> fun m1 =>
            Done (m1 <| ms; svcs ::= <[k := s <| s_subs ::= fun x => {[c]} ∪ x |>]> |>)
        | None => send m c (SubscribeServiceReply serial false) None
        end).
Proof.
  intros H Hc. destruct (svc_by_cookie (ms m) sc) as [[k s]|] eqn:E; [|by apply good_send].
  apply svc_by_cookie_Some in E as [Hk _].
  apply good_send_bind; [done..|]. intros m1 Hq. cbn.
  pose proof (MI_quiet _ _ Hq H) as H1. destruct Hq as (Hs & _).
  eapply MI_svc_update; [done|by rewrite Hs|done..|]. rewrite Hs.
  destruct (iv_os _ _ _ _ _ H _ _ Hk) as (G1 & G2 & G3). split; [done|]. split; [|done].
  cbn. apply elem_of_dom in Hc. set_solver.
Qed.

Lemma h_unsubscribe_service m c sc :
  MI m →
  good (match svc_by_cookie (ms m) sc with
        | Some (k, s) => Done (m <| ms; svcs ::= <[k := s <| s_subs ::= fun x => x ∖ {[c]} |>]> |>)
        | None => Done m
        end).
Proof.
  intros H. destruct (svc_by_cookie (ms m) sc) as [[k s]|] eqn:E; [|done].
  apply svc_by_cookie_Some in E as [Hk _]. cbn.
  eapply MI_svc_update; [done..|].
  destruct (iv_os _ _ _ _ _ H _ _ Hk) as (G1 & G2 & G3). split; [done|]. split; [|done]. cbn. set_solver.
Qed.

Lemma h_subscribe_all_events m c serial sc :
  MI m → is_Some (conns (ms m) !! c) →
  good (match serial with
        | None => Fail m
        | Some serial =>
            match svc_by_cookie (ms m) sc with
            | None => send m c (SubscribeAllEventsReply serial SAInvalid) None
            | Some (k, s) =>
                match owner_of_svc (ms m) k with
                | None => Panic 35
                | Some owner =>
                    match conns (ms m) !! owner with
                    | None => Panic 36
                    | Some ocs =>
                        if negb (default false (i_sub_all (s_info s))) || (cs_ver ocs <? MIN_SUBSCRIBE_ALL_EVENTS_OWNER)
                        then send m c (SubscribeAllEventsReply serial SANotSupported) None
                        else send m c (SubscribeAllEventsReply serial SAOk) None >>> fun m1 =>
                             let was_empty := bool_decide (s_all s = ∅) in
                             let m2 := m1 <| ms; svcs ::= <[k := s <| s_all ::= fun x => {[c]} ∪ x |>]> |> in
                             if was_empty then send_ignore m2 owner (SubscribeAllEvents None sc) None else Done m2
                    end
                end
            end
        end).
Proof.
  intros H Hc. destruct serial as [serial|]; [|done].
  destruct (svc_by_cookie (ms m) sc) as [[k s]|] eqn:E; [|by apply good_send].
  apply svc_by_cookie_Some in E as [Hk _].
  destruct (owner_of_svc_reg (ms m) k s) as (o & Ho & -> & _); [apply H|done|].
  pose proof (iv_oo _ _ _ _ _ H _ _ Ho) as Hoc. apply elem_of_dom in Hoc as [ocs Hoc]. rewrite Hoc.
  destruct (_ || _); [by apply good_send|].
  apply good_send_bind; [done..|]. intros m1 Hq. cbn zeta.
  pose proof (MI_quiet _ _ Hq H) as H1. destruct Hq as (Hs & _).
  set (m2 := m1 <| ms; svcs ::= _ |>).
  assert (MI m2) as H2.
  { eapply MI_svc_update; [done|by rewrite Hs|done..|]. rewrite Hs.
    destruct (iv_os _ _ _ _ _ H _ _ Hk) as (G1 & G2 & G3). split; [|done].
    cbn. apply elem_of_dom in Hc. set_solver. }
  destruct (bool_decide _); [|done].
  destruct (send_ignore_done m2 (o_owner o) (SubscribeAllEvents None sc) None) as (m3 & -> & Hq3).
  { cbn. rewrite Hs. eauto. }
  cbn. by eapply MI_quiet.
Qed.

Lemma h_unsubscribe_all_events m c serial sc :
  MI m → is_Some (conns (ms m) !! c) →
  good (let reply r := match serial with Some serial => send m c (UnsubscribeAllEventsReply serial r) None | None => Done m end in
        match svc_by_cookie (ms m) sc with
        | None => reply SAInvalid
        | Some (k, s) =>
            match owner_of_svc (ms m) k with
            | None => Panic 37
            | Some owner =>
                match conns (ms m) !! owner with
                | None => Panic 38
                | Some ocs =>
                    if cs_ver ocs <? MIN_UNSUBSCRIBE_ALL_EVENTS_OWNER then reply SANotSupported else
                    reply SAOk >>> fun m1 =>
                    let was_empty := bool_decide (s_all s = ∅) in
                    let all' := s_all s ∖ {[c]} in
                    let m2 := m1 <| ms; svcs ::= <[k := s <| s_all := all' |>]> |> in
                    if negb was_empty && bool_decide (all' = ∅)
                    then send_ignore m2 owner (UnsubscribeAllEvents None sc) None else Done m2
                end
            end
        end).
Proof.
  intros H Hc. cbn zeta.
  assert (∀ r, goodq m (match serial with Some serial => send m c (UnsubscribeAllEventsReply serial r) None | None => Done m end)) as Hr.
  { intros r. destruct serial; [by apply send_goodq|done]. }
  destruct (svc_by_cookie (ms m) sc) as [[k s]|] eqn:E; [|by eapply goodq_good].
  apply svc_by_cookie_Some in E as [Hk _].
  destruct (owner_of_svc_reg (ms m) k s) as (o & Ho & -> & _); [apply H|done|].
  pose proof (iv_oo _ _ _ _ _ H _ _ Ho) as Hoc. apply elem_of_dom in Hoc as [ocs Hoc]. rewrite Hoc.
  destruct (_ <? _); [by eapply goodq_good|].
  specialize (Hr SAOk). destruct (match serial with Some _ => _ | None => _ end) as [m1|m1|]; cbn in *; [|by eapply MI_quiet|done].
  pose proof (MI_quiet _ _ Hr H) as H1. destruct Hr as (Hs & _).
  set (m2 := m1 <| ms; svcs ::= _ |>).
  assert (MI m2) as H2.
  { eapply MI_svc_update; [done|by rewrite Hs|done..|]. rewrite Hs.
    destruct (iv_os _ _ _ _ _ H _ _ Hk) as (G1 & G2 & G3). split; [|done]. cbn. set_solver. }
  destruct (_ && _); [|done].
  destruct (send_ignore_done m2 (o_owner o) (UnsubscribeAllEvents None sc) None) as (m3 & -> & Hq3).
  { cbn. rewrite Hs. eauto. }
  cbn. by eapply MI_quiet.
Qed.
