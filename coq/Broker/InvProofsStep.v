(* Broker/InvProofsStep.v — the invariant holds initially and is preserved by every legal step;
   no legal step from an [Inv] state reaches a panic site other than the fuel site 0; every
   reachable state satisfies [Inv]. *)
From stdpp Require Import gmap list.
From RecordUpdate Require Import RecordSet.
Import RecordSetNotations.
From Aldrin Require Import gen.BrokerConsts Broker.Model Broker.Run Broker.ChannelProofs Broker.Inv
  Broker.InvProofsBase Broker.InvProofsCalls Broker.InvProofsRemove Broker.InvProofsRemoveSvc
  Broker.InvProofsShutdown Broker.InvProofsShutdown2 Broker.InvProofsSettle
  Broker.InvProofsHandle1 Broker.InvProofsHandle2 Broker.InvProofsHandle3.
From Coq Require Import Lia.
Local Open Scope N_scope.

Theorem inv_init : Inv init.
Proof.
  constructor; cbn.
  - intros k sv Hk. by rewrite lookup_empty in Hk.
  - intros u1 u2 o1 o2 H1. by rewrite lookup_empty in H1.
  - intros u1 u2 o1 o2 H1. by rewrite lookup_empty in H1.
  - intros u o H1. by rewrite lookup_empty in H1.
  - intros u o H1. by rewrite lookup_empty in H1.
  - intros u o H1. by rewrite lookup_empty in H1.
  - intros u o H1. by rewrite lookup_empty in H1.
  - intros u o H1. by rewrite lookup_empty in H1.
  - intros u o H1. by rewrite lookup_empty in H1.
  - intros k sv b H1. by rewrite lookup_empty in H1.
  - split; [done|]. intros b [cl H1]. by rewrite lookup_empty in H1.
  - intros b cl cs H1. by rewrite lookup_empty in H1.
  - intros c cs serial b ce H1. by rewrite lookup_empty in H1.
  - intros serial c r cs H1. by apply elem_of_nil in H1.
  - done.
  - intros b cl H1. by rewrite lookup_empty in H1.
Qed.

(* ---------------------------------------------------------------- events other than messages *)
Lemma MI_flag m (f : state → state) :
  (∀ s, conns (f s) = conns s ∧ objs (f s) = objs s ∧ svcs (f s) = svcs s ∧ calls (f s) = calls s ∧
        next (f s) = next s ∧ chans (f s) = chans s ∧ listeners (f s) = listeners s) →
  MI m → MI (m <| ms ::= f |>).
Proof.
  intros Hf H. unfold MI, MX, MO in *. cbn. destruct (Hf (ms m)) as (E1 & E2 & E3 & E4 & E5 & E6 & E7).
  rewrite E1, E2. destruct H. constructor; rewrite ?E1, ?E2, ?E3, ?E4, ?E5, ?E6, ?E7; assumption.
Qed.

Lemma push_all_quiet (l : list (conn * cstate)) m :
  quiet m (foldr (fun p m => push_remove m p.1 true) m l).
Proof. induction l as [|p l IH]; cbn; [done|]. eapply quiet_trans; [exact IH|]. done. Qed.

Lemma own_obj_X X X' O : X ⊆ X' → own_obj X O → own_obj X' O.
Proof. intros Hs H u o Hu. apply Hs. eauto. Qed.
Lemma own_lis_X X X' L : X ⊆ X' → own_lis X L → own_lis X' L.
Proof. intros Hs H u o Hu. apply Hs. eauto. Qed.
Lemma own_svc_X X X' S : X ⊆ X' → own_svc X S → own_svc X' S.
Proof.
  intros Hs H k sv Hk. destruct (H _ _ Hk) as (H1 & H2 & H3). split; [set_solver|]. split; [set_solver|].
  intros e st He. destruct (H3 _ _ He). split; [set_solver|done].
Qed.
Lemma own_chan_X X X' C : X ⊆ X' → own_chan X C → own_chan X' C.
Proof.
  intros Hs H k ch Hk. destruct (H _ _ Hk) as [H1 H2].
  split; [destruct (ch_s ch)|destruct (ch_r ch)]; cbn in *; auto.
Qed.
Lemma caller_live_X wa X X' K : X ⊆ X' → caller_live wa X K → caller_live wa X' K.
Proof. intros Hs H b cl Hb Ha. destruct (H _ _ Hb Ha) as [?|?]; [left; by apply Hs|by right]. Qed.

Lemma MI_new_connection m c ver :
  MI m → w_rm_call (mw m) = [] → w_abort (mw m) = [] → conns (ms m) !! c = None →
  MI (m <| ms; conns ::= <[c := {| cs_ver := ver; cs_alive := true; cs_calls := ∅ |}]> |>
        <| ms; st; n_conns ::= N.succ |>).
Proof.
  intros H Hq Ha Hc. unfold MI, MX, MO in *. rewrite Hq, Ha in H. cbn. rewrite Hq, Ha, dom_insert_L.
  assert (dom (conns (ms m)) ⊆ {[c]} ∪ dom (conns (ms m))) as Hsub by set_solver.
  mx_frame H.
  - by eapply own_obj_X.
  - by eapply own_lis_X.
  - by eapply own_svc_X.
  - by eapply own_chan_X.
  - intros b cl cs Hb Hab. rewrite lookup_insert_Some. intros [[Heq _]|[_ Hcc]]; [|eauto].
    destruct (Hcl _ _ Hb Hab) as [Hin|[ce Hin]]; [|by apply elem_of_nil in Hin].
    apply elem_of_dom in Hin as [cs' Hin]. congruence.
  - intros c' cs serial b ce. rewrite lookup_insert_Some. intros [[_ <-]|[_ Hcc]]; [|eauto].
    cbn. by rewrite lookup_empty.
  - intros serial c' r cs Hin. by apply elem_of_nil in Hin.
  - by eapply caller_live_X.
Qed.

Lemma MI_drop_task m c cs :
  MI m → conns (ms m) !! c = Some cs →
  MI (m <| ms; conns ::= <[c := cs <| cs_alive := false |>]> |>).
Proof.
  intros H Hc. unfold MI, MX, MO in *. cbn.
  assert (dom (<[c := cs <| cs_alive := false |>]> (conns (ms m))) = dom (conns (ms m))) as ->.
  { rewrite dom_insert_L. apply elem_of_dom_2 in Hc. set_solver. }
  mx_frame H.
  - intros b cl cs' Hb Hab. rewrite lookup_insert_Some. intros [[Heq <-]|[_ Hcc]]; [|eauto].
    rewrite Heq in Hc. apply (Hce _ _ _ Hb Hab Hc).
  - intros c' cs' serial b ce. rewrite lookup_insert_Some. intros [[<- <-]|[_ Hcc]]; [|eauto].
    cbn. eauto.
  - intros serial c' r cs' Hin. rewrite lookup_insert_Some. intros [[<- <-]|[_ Hcc]]; [|eauto].
    cbn. eauto.
  - eapply rmq_nodup_mono; [|done]. intros c' [cs' Hc']. apply lookup_insert_Some in Hc' as [[<- _]|[_ ?]]; eauto.
Qed.

(* ---------------------------------------------------------------- one step *)
Definition event_ok (s : state) (e : event) : Prop :=
  match e with
  | NewConnection c _ => conns s !! c = None
  | Message _ x => msg_caps_ok x
  | _ => True
  end.

(* the handler part of a step, and a step with an arbitrary amount of fuel for the work loop *)
Definition handler_of (s : state) (e : event) (fresh : uuid) (bserial : option N) : outcome M :=
  let m0 := {| ms := s; mw := work0; mo := [] |} in
  match e with
  | NewConnection c ver =>
      match conns s !! c with
      | Some _ => Panic 40
      | None => Done (m0 <| ms; conns ::= <[c := {| cs_ver := ver; cs_alive := true; cs_calls := ∅ |}]> |>
                         <| ms; st; n_conns ::= N.succ |>)
      end
  | ConnectionShutdown c => Done (push_remove m0 c false)
  | Message c x =>
      match handle m0 c x fresh bserial with
      | Done m => Done m
      | Fail m => Done (push_remove m c false)
      | Panic site => Panic site
      end
  | ShutdownBroker =>
      Done (foldr (fun p m => push_remove m p.1 true) m0 (map_to_list (conns s)) <| ms; shutdown_now := true |>)
  | ShutdownIdleBroker => Done (m0 <| ms; shutdown_idle := true |>)
  | ShutdownConnection c => Done (push_remove m0 c true)
  | DropTask c =>
      Done (match conns s !! c with
            | Some cs => m0 <| ms; conns ::= <[c := cs <| cs_alive := false |>]> |>
            | None => m0 end)
  end.

Definition step_fuel (F : M → nat) (s : state) (e : event) (fresh : uuid) (bserial : option N)
  : outcome (state * list out) :=
  match handler_of s e fresh bserial with
  | Done m | Fail m =>
      match settle (F m) m with
      | Done m' | Fail m' => Done (ms m', mo m')
      | Panic site => Panic site
      end
  | Panic site => Panic site
  end.

Lemma step_step_fuel s e fresh bserial :
  step s e fresh bserial = step_fuel fuel_for s e fresh bserial.
Proof. reflexivity. Qed.

Lemma handler_good s e fresh bserial :
  Inv s → fresh ∉ cookies_in_use s → bserial_ok s bserial → event_ok s e →
  ∃ m, handler_of s e fresh bserial = Done m ∧ MI m.
Proof.
  intros H Hf Hb He. unfold handler_of.
  set (m0 := {| ms := s; mw := work0; mo := [] |}).
  assert (MI m0) as H0 by exact H.
  destruct e as [c ver|c|c x| | |c|c].
  - cbn in He. rewrite He. eexists. split; [done|]. by apply MI_new_connection.
  - eexists. split; [done|]. eapply MI_quiet; [|exact H0]. done.
  - pose proof (handle_good m0 c x fresh bserial H0 eq_refl Hf Hb He) as Hg.
    destruct (handle m0 c x fresh bserial) as [m|m|]; cbn in *; [eauto| |done].
    eexists. split; [done|]. eapply MI_quiet; [|exact Hg]. done.
  - eexists. split; [done|]. apply (MI_flag _ (fun s => s <| shutdown_now := true |>)); [done|].
    eapply MI_quiet; [apply push_all_quiet|done].
  - eexists. split; [done|]. by apply (MI_flag _ (fun s => s <| shutdown_idle := true |>)).
  - eexists. split; [done|]. eapply MI_quiet; [|exact H0]. done.
  - eexists. split; [done|]. destruct (conns s !! c) as [cs|] eqn:Ec; [|done]. by apply MI_drop_task.
Qed.

Theorem step_fuel_spec F s e fresh bserial :
  Inv s → fresh ∉ cookies_in_use s → bserial_ok s bserial → event_ok s e →
  match step_fuel F s e fresh bserial with
  | Done (s', _) => Inv s'
  | Fail _ => False
  | Panic site => site = 0
  end.
Proof.
  intros H Hf Hb He. unfold step_fuel.
  destruct (handler_good s e fresh bserial H Hf Hb He) as (m & -> & Hr).
  pose proof (settle_spec (F m) m Hr) as Hs.
  destruct (settle (F m) m) as [m'|m'|site]; [|done..].
  destruct Hs as (H' & _ & Hq & Ha). unfold MI, MX, MO in H'. rewrite Hq, Ha in H'. exact H'.
Qed.

Theorem step_spec s e fresh bserial :
  Inv s → fresh ∉ cookies_in_use s → bserial_ok s bserial → event_ok s e →
  match step s e fresh bserial with
  | Done (s', _) => Inv s'
  | Fail _ => False
  | Panic site => site = 0
  end.
Proof. rewrite step_step_fuel. apply step_fuel_spec. Qed.

Lemma legal_split s i :
  legal s i → i_fresh i ∉ cookies_in_use s ∧ bserial_ok s (i_bserial i) ∧ event_ok s (i_ev i).
Proof.
  intros (H1 & H2 & H3 & H4). split; [done|]. split; [done|].
  destruct (i_ev i) as [c ver|c|c x| | |c|c]; done.
Qed.

Theorem inv_step s i s' o :
  Inv s → legal s i → step s (i_ev i) (i_fresh i) (i_bserial i) = Done (s', o) → Inv s'.
Proof.
  intros H Hl Hs. destruct (legal_split _ _ Hl) as (L1 & L2 & L3).
  pose proof (step_spec s (i_ev i) (i_fresh i) (i_bserial i) H L1 L2 L3) as Hst.
  rewrite Hs in Hst. exact Hst.
Qed.

Theorem inv_no_panic s i site :
  Inv s → legal s i → site ≠ 0 → step s (i_ev i) (i_fresh i) (i_bserial i) ≠ Panic site.
Proof.
  intros H Hl Hne Hs. destruct (legal_split _ _ Hl) as (L1 & L2 & L3).
  pose proof (step_spec s (i_ev i) (i_fresh i) (i_bserial i) H L1 L2 L3) as Hst.
  rewrite Hs in Hst. done.
Qed.

(* a legal step never returns Fail *)
Theorem inv_no_fail s i x :
  Inv s → legal s i → step s (i_ev i) (i_fresh i) (i_bserial i) ≠ Fail x.
Proof.
  intros H Hl Hs. destruct (legal_split _ _ Hl) as (L1 & L2 & L3).
  pose proof (step_spec s (i_ev i) (i_fresh i) (i_bserial i) H L1 L2 L3) as Hst.
  rewrite Hs in Hst. done.
Qed.

Theorem reachable_inv s : reachable s → Inv s.
Proof. induction 1; [apply inv_init|eapply inv_step; eauto]. Qed.
