(* Broker/OutKinds.v — a generic tool: which KINDS of outputs each function of the broker machine
   (Broker/Model.v) can add to [mo].  [extends K m m'] says that [mo m'] is [mo m] followed by
   outputs that all satisfy [K]; in particular [mo] only ever grows (the old outputs stay a prefix).
   Every lemma comes in accumulator form ([f_acc]: from any base [m0] already extended to [m], and
   any [K'] containing the function's kinds) so that they compose by plain [apply], and in the
   closed form ([f_ext], base = argument).  The work loop [settle] can only add broker-made
   messages of eight kinds ([k_settle]); it never adds EmitEvent, CallFunction(2),
   Subscribe(All)Event(s) or a reply other than CallFunctionReply. *)
From stdpp Require Import gmap list.
From RecordUpdate Require Import RecordSet.
Import RecordSetNotations.
From Aldrin Require Import gen.BrokerConsts Broker.Model Broker.Run.
Local Open Scope N_scope.

Definition extends (K : out -> Prop) (m m' : M) : Prop :=
  exists l, mo m' = mo m ++ l /\ Forall K l.

(* for a result: Done and Fail both carry the machine; a Panic is outside every statement *)
Definition oext (K : out -> Prop) (m : M) (r : outcome M) : Prop :=
  match r with Done m' | Fail m' => extends K m m' | Panic _ => True end.

Lemma extends_refl K m : extends K m m.
Proof. exists []. split; [symmetry; apply app_nil_r|constructor]. Qed.

Lemma extends_trans K m1 m2 m3 : extends K m1 m2 -> extends K m2 m3 -> extends K m1 m3.
Proof.
  intros (l1 & E1 & F1) (l2 & E2 & F2). exists (l1 ++ l2). split.
  - rewrite E2, E1. symmetry. apply app_assoc.
  - apply Forall_app; split; assumption.
Qed.

Lemma extends_weaken (K K' : out -> Prop) m m' : (forall o, K o -> K' o) -> extends K m m' -> extends K' m m'.
Proof. intros HK (l & E & F). exists l. split; [exact E|]. eapply Forall_impl; eassumption. Qed.

Lemma extends_mo_eq K m0 m m' : extends K m0 m -> mo m' = mo m -> extends K m0 m'.
Proof. intros (l & E & F) Hm. exists l. rewrite Hm. split; assumption. Qed.

Lemma extends_snoc (K : out -> Prop) m0 m m' o : extends K m0 m -> K o -> mo m' = mo m ++ [o] -> extends K m0 m'.
Proof.
  intros (l & E & F) Ho Hm. exists (l ++ [o]). split.
  - rewrite Hm, E. symmetry. apply app_assoc.
  - apply Forall_app; split; [assumption|]. constructor; [assumption|constructor].
Qed.

(* [mo] only grows: the old outputs stay a prefix *)
Lemma extends_prefix K m m' : extends K m m' -> mo m `prefix_of` mo m'.
Proof. intros (l & E & _). exists l. exact E. Qed.

Lemma oext_weaken (K K' : out -> Prop) m r : (forall o, K o -> K' o) -> oext K m r -> oext K' m r.
Proof. intros HK. destruct r; cbn; try (apply extends_weaken; exact HK). trivial. Qed.

(* chain a closed-form fact onto an accumulated one *)
Lemma oext_chain (K K' : out -> Prop) m0 m r :
  (forall o, K o -> K' o) -> extends K' m0 m -> oext K m r -> oext K' m0 r.
Proof.
  intros HK H0. destruct r; cbn; trivial; intros H; (eapply extends_trans; [exact H0|]);
    eapply extends_weaken; eassumption.
Qed.

Lemma oext_bind K m0 x f :
  oext K m0 x -> (forall m1, extends K m0 m1 -> oext K m0 (f m1)) -> oext K m0 (x >>> f).
Proof. destruct x; cbn; auto. Qed.

Lemma oext_foldO {A} K m0 (f : M -> A -> outcome M) l m :
  (forall m a, extends K m0 m -> oext K m0 (f m a)) -> extends K m0 m -> oext K m0 (foldO f l m).
Proof.
  intros Hf. revert m. induction l as [|a l IH]; intros m Hm; cbn; [exact Hm|].
  specialize (Hf m a Hm). destruct (f m a); cbn in *; auto.
Qed.

Lemma ext_foldl {A} K m0 (f : M -> A -> M) l m :
  (forall m a, extends K m0 m -> extends K m0 (f m a)) -> extends K m0 m -> extends K m0 (foldl f m l).
Proof. intros Hf. revert m. induction l as [|a l IH]; intros m Hm; cbn; auto. Qed.

Lemma ext_foldr {A} K m0 (f : A -> M -> M) l m :
  (forall m a, extends K m0 m -> extends K m0 (f a m)) -> extends K m0 m -> extends K m0 (foldr f m l).
Proof. intros Hf Hm. induction l as [|a l IH]; cbn; auto. Qed.

(* ---------------------------------------------------------------- kinds *)
Definition K_none : out -> Prop := fun _ => False.
Definition K_one (o : out) : out -> Prop := fun x => x = o.
(* broker-made messages (version tag None) of a kind of message *)
Definition broker_made (P : msg -> Prop) : out -> Prop := fun o => P o.1.2 /\ o.2 = None.

Definition k_closed (x : msg) : Prop := match x with ChannelEndClosed _ _ => True | _ => False end.
Definition k_shutdown_conn (x : msg) : Prop :=
  match x with Shutdown | ChannelEndClosed _ _ => True | _ => False end.
Definition k_bus (ev : bus_event) (x : msg) : Prop := x = EmitBusEvent None ev.
Definition k_abort (x : msg) : Prop :=
  match x with AbortFunctionCall _ | CallFunctionReply _ CRAborted => True | _ => False end.
Definition k_settle (x : msg) : Prop :=
  match x with
  | Shutdown | ChannelEndClosed _ _ | UnsubscribeEvent _ _ | UnsubscribeAllEvents None _
  | ServiceDestroyed _ | CallFunctionReply _ _ | EmitBusEvent None _ | AbortFunctionCall _ => True
  | _ => False
  end.

Lemma k_closed_shutdown x : k_closed x -> k_shutdown_conn x.
Proof. destruct x; cbn; intros H; try exact I; destruct H. Qed.
Lemma k_shutdown_settle x : k_shutdown_conn x -> k_settle x.
Proof. destruct x; cbn; intros H; try exact I; destruct H. Qed.
Lemma k_bus_settle ev x : k_bus ev x -> k_settle x.
Proof. intros ->. exact I. Qed.
Lemma k_abort_settle x : k_abort x -> k_settle x.
Proof. destruct x; cbn; intros H; try exact I; destruct H. Qed.

Lemma broker_made_mono (P Q : msg -> Prop) : (forall x, P x -> Q x) -> forall o, broker_made P o -> broker_made Q o.
Proof. intros H o [H1 H2]. split; auto. Qed.

(* ---------------------------------------------------------------- sending *)
Lemma send_acc (K : out -> Prop) m0 m c x from :
  K (c, x, from) -> extends K m0 m -> oext K m0 (send m c x from).
Proof.
  intros HK Hm. unfold send. destruct (conns (ms m) !! c) as [cs|]; [|exact I].
  destruct (cs_alive cs); cbn; [|exact Hm]. eapply extends_snoc; [exact Hm|exact HK|reflexivity].
Qed.

Lemma send_or_remove_acc (K : out -> Prop) m0 m c x from :
  K (c, x, from) -> extends K m0 m -> oext K m0 (send_or_remove m c x from).
Proof.
  intros HK Hm. pose proof (send_acc K m0 m c x from HK Hm) as H. unfold send_or_remove.
  destruct (send m c x from); cbn in *; trivial.
Qed.

Lemma send_ignore_acc (K : out -> Prop) m0 m c x from :
  K (c, x, from) -> extends K m0 m -> oext K m0 (send_ignore m c x from).
Proof.
  intros HK Hm. pose proof (send_acc K m0 m c x from HK Hm) as H. unfold send_ignore.
  destruct (send m c x from); cbn in *; trivial.
Qed.

(* closed forms: at most the given message is added *)
Lemma send_ext m c x from : oext (K_one (c, x, from)) m (send m c x from).
Proof. apply send_acc; [reflexivity|apply extends_refl]. Qed.
Lemma send_or_remove_ext m c x from : oext (K_one (c, x, from)) m (send_or_remove m c x from).
Proof. apply send_or_remove_acc; [reflexivity|apply extends_refl]. Qed.
Lemma send_ignore_ext m c x from : oext (K_one (c, x, from)) m (send_ignore m c x from).
Proof. apply send_ignore_acc; [reflexivity|apply extends_refl]. Qed.

(* exact forms *)
Lemma send_Done m c x from m' : send m c x from = Done m' ->
  m' = m <| mo := mo m ++ [(c, x, from)] |> /\ exists cs, conns (ms m) !! c = Some cs /\ cs_alive cs = true.
Proof.
  unfold send. destruct (conns (ms m) !! c) as [cs|]; [|discriminate].
  destruct (cs_alive cs) eqn:E; [|discriminate]. intros [= <-]. eauto.
Qed.
Lemma send_Fail m c x from m' : send m c x from = Fail m' ->
  m' = m /\ exists cs, conns (ms m) !! c = Some cs /\ cs_alive cs = false.
Proof.
  unfold send. destruct (conns (ms m) !! c) as [cs|]; [|discriminate].
  destruct (cs_alive cs) eqn:E; [discriminate|]. intros [= <-]. eauto.
Qed.
Lemma send_alive m c x from cs : conns (ms m) !! c = Some cs -> cs_alive cs = true ->
  send m c x from = Done (m <| mo := mo m ++ [(c, x, from)] |>).
Proof. intros H1 H2. unfold send. rewrite H1, H2. reflexivity. Qed.
Lemma send_dead m c x from cs : conns (ms m) !! c = Some cs -> cs_alive cs = false ->
  send m c x from = Fail m.
Proof. intros H1 H2. unfold send. rewrite H1, H2. reflexivity. Qed.

Lemma send_or_remove_alive m c x from cs : conns (ms m) !! c = Some cs -> cs_alive cs = true ->
  send_or_remove m c x from = Done (m <| mo := mo m ++ [(c, x, from)] |>).
Proof. intros H1 H2. unfold send_or_remove. rewrite (send_alive m c x from cs H1 H2). reflexivity. Qed.
Lemma send_or_remove_dead m c x from cs : conns (ms m) !! c = Some cs -> cs_alive cs = false ->
  send_or_remove m c x from = Done (push_remove m c false).
Proof. intros H1 H2. unfold send_or_remove. rewrite (send_dead m c x from cs H1 H2). reflexivity. Qed.
Lemma send_ignore_alive m c x from cs : conns (ms m) !! c = Some cs -> cs_alive cs = true ->
  send_ignore m c x from = Done (m <| mo := mo m ++ [(c, x, from)] |>).
Proof. intros H1 H2. unfold send_ignore. rewrite (send_alive m c x from cs H1 H2). reflexivity. Qed.
Lemma send_ignore_dead m c x from cs : conns (ms m) !! c = Some cs -> cs_alive cs = false ->
  send_ignore m c x from = Done m.
Proof. intros H1 H2. unfold send_ignore. rewrite (send_dead m c x from cs H1 H2). reflexivity. Qed.

(* ---------------------------------------------------------------- tactic *)
(* decompose a goal [oext K m0 e] / [extends K m0 m'] along the structure of the model term *)
Ltac ext_leaf :=
  match goal with
  | H : extends _ _ ?m |- extends _ _ _ => solve [eapply (extends_mo_eq _ _ _ _ H); reflexivity]
  end.

Ltac ext_step :=
  match goal with
  | |- oext _ _ (Panic _) => exact I
  | |- oext _ _ (Done _) => cbn [oext]
  | |- oext _ _ (Fail _) => cbn [oext]
  | |- oext _ _ (_ >>> _) => apply oext_bind; [|intros ? ?]
  | |- oext _ _ (foldO _ _ _) => apply oext_foldO; [intros ? ? ?; cbv beta|]
  | |- oext _ _ (send_or_remove _ _ _ _) => apply send_or_remove_acc; [|]
  | |- oext _ _ (send_ignore _ _ _ _) => apply send_ignore_acc; [|]
  | |- oext _ _ (send _ _ _ _) => apply send_acc; [|]
  | |- oext _ _ (match ?x with _ => _ end) => destruct x eqn:?
  | |- oext _ _ (let '(_, _) := ?x in _) => destruct x eqn:?
  | |- extends _ _ (foldl _ _ _) => apply ext_foldl; [intros ? ? ?; cbv beta|]
  | |- extends _ _ (foldr _ _ _) => apply ext_foldr; [intros ? ? ?; cbv beta|]
  | |- extends _ _ (match ?x with _ => _ end) => destruct x eqn:?
  | |- extends _ _ _ => ext_leaf
  | |- extends _ _ (set _ _ ?x) => apply (extends_mo_eq _ _ x); [|reflexivity]
  end.

(* ---------------------------------------------------------------- removal cascade *)
Lemma remove_listener_mo m k : mo (remove_listener m k) = mo m.
Proof. unfold remove_listener. destruct (listeners (ms m) !! k); reflexivity. Qed.

Lemma remove_end_acc (K : out -> Prop) m0 m cookie e :
  (forall o, broker_made k_closed o -> K o) -> extends K m0 m -> oext K m0 (remove_end m cookie e).
Proof.
  intros HK Hm. unfold remove_end. repeat ext_step. apply HK. split; [exact I|reflexivity].
Qed.
Lemma remove_end_ext m cookie e : oext (broker_made k_closed) m (remove_end m cookie e).
Proof. apply remove_end_acc; [auto|apply extends_refl]. Qed.

(* remove_service and remove_object add nothing themselves: they only queue work *)
Lemma remove_service_acc (K : out -> Prop) m0 m cookie :
  extends K m0 m -> oext K m0 (remove_service m cookie).
Proof. intros Hm. unfold remove_service. repeat ext_step. Qed.
Lemma remove_service_ext m cookie : oext K_none m (remove_service m cookie).
Proof. apply remove_service_acc, extends_refl. Qed.

Lemma remove_object_acc (K : out -> Prop) m0 m cookie :
  extends K m0 m -> oext K m0 (remove_object m cookie).
Proof.
  intros Hm. unfold remove_object. repeat ext_step. apply remove_service_acc. assumption.
Qed.
Lemma remove_object_ext m cookie : oext K_none m (remove_object m cookie).
Proof. apply remove_object_acc, extends_refl. Qed.

Lemma shutdown_conn_acc (K : out -> Prop) m0 m c sd :
  (forall o, broker_made k_shutdown_conn o -> K o) -> extends K m0 m -> oext K m0 (shutdown_conn m c sd).
Proof.
  intros HK Hm. unfold shutdown_conn.
  destruct (conns (ms m) !! c) as [cs|]; [|exact Hm].
  set (m1 := if sd && cs_alive cs then _ else _).
  assert (H1 : extends K m0 m1).
  { subst m1. destruct (sd && cs_alive cs).
    - eapply extends_snoc; [exact Hm| |reflexivity]. apply HK. split; [exact I|reflexivity].
    - ext_leaf. }
  clearbody m1.
  assert (HKc : forall o, broker_made k_closed o -> K o).
  { intros o Ho. apply HK. revert Ho. apply broker_made_mono, k_closed_shutdown. }
  repeat first
    [ match goal with
      | |- oext _ _ (remove_object _ _) => apply remove_object_acc
      | |- oext _ _ (remove_end _ _ _) => apply remove_end_acc; [exact HKc|]
      | |- extends _ _ (remove_listener _ _) => eapply extends_mo_eq; [|apply remove_listener_mo]
      end
    | ext_step ]; assumption.
Qed.
Lemma shutdown_conn_ext m c sd : oext (broker_made k_shutdown_conn) m (shutdown_conn m c sd).
Proof. apply shutdown_conn_acc; [auto|apply extends_refl]. Qed.

Lemma bus_acc (K : out -> Prop) m0 m ev :
  (forall o, broker_made (k_bus ev) o -> K o) -> extends K m0 m -> oext K m0 (bus m ev).
Proof.
  intros HK Hm. unfold bus. repeat ext_step; try assumption. apply HK. split; reflexivity.
Qed.
Lemma bus_ext m ev : oext (broker_made (k_bus ev)) m (bus m ev).
Proof. apply bus_acc; [auto|apply extends_refl]. Qed.

Lemma abort_call_acc (K : out -> Prop) m0 m b callee :
  (forall o, broker_made k_abort o -> K o) -> extends K m0 m -> oext K m0 (abort_call m b callee).
Proof.
  intros HK Hm. unfold abort_call. repeat ext_step; try assumption; apply HK; (split; [exact I|reflexivity]).
Qed.
Lemma abort_call_ext m b callee : oext (broker_made k_abort) m (abort_call m b callee).
Proof. apply abort_call_acc; [auto|apply extends_refl]. Qed.

(* ---------------------------------------------------------------- the work loop *)
Definition K_settle : out -> Prop := broker_made k_settle.

Lemma settle_one_acc (K : out -> Prop) m0 m r :
  (forall o, K_settle o -> K o) -> extends K m0 m -> settle_one m = Some r -> oext K m0 r.
Proof.
  intros HK Hm. unfold settle_one.
  assert (HKs : forall o, broker_made k_shutdown_conn o -> K o).
  { intros o Ho. apply HK. revert Ho. apply broker_made_mono, k_shutdown_settle. }
  assert (HKa : forall o, broker_made k_abort o -> K o).
  { intros o Ho. apply HK. revert Ho. apply broker_made_mono, k_abort_settle. }
  assert (HKb : forall ev o, broker_made (k_bus ev) o -> K o).
  { intros ev o Ho. apply HK. revert Ho. apply broker_made_mono, k_bus_settle. }
  repeat match goal with
         | |- match ?l with [] => _ | _ :: _ => _ end = Some _ -> _ => destruct l as [|? ?]
         | |- (let '(_, _) := ?p in _) = Some _ -> _ => destruct p
         end; try discriminate; intros [= <-];
    repeat first
      [ match goal with
        | |- oext _ _ (shutdown_conn _ _ _) => apply shutdown_conn_acc; [exact HKs|]
        | |- oext _ _ (abort_call _ _ _) => apply abort_call_acc; [exact HKa|]
        | |- oext _ _ (bus _ _) => eapply bus_acc; [apply HKb|]
        end
      | ext_step ]; try assumption; apply HK; (split; [exact I|reflexivity]).
Qed.
Lemma settle_one_ext m r : settle_one m = Some r -> oext K_settle m r.
Proof. apply settle_one_acc; [auto|apply extends_refl]. Qed.

Lemma settle_acc (K : out -> Prop) fuel : forall m0 m,
  (forall o, K_settle o -> K o) -> extends K m0 m -> oext K m0 (settle fuel m).
Proof.
  induction fuel as [|fuel IH]; intros m0 m HK Hm; cbn [settle];
    destruct (settle_one m) as [r|] eqn:E; try exact Hm;
    pose proof (settle_one_acc K m0 m r HK Hm E) as Hr; destruct r; cbn in Hr |- *; trivial;
    apply IH; assumption.
Qed.
Lemma settle_ext fuel m : oext K_settle m (settle fuel m).
Proof. apply settle_acc; [auto|apply extends_refl]. Qed.

(* what [settle] can never output *)
Lemma K_settle_not o : K_settle o ->
  match o.1.2 with
  | EmitEvent _ _ _ | CallFunction _ _ _ _ | CallFunction2 _ _ _ _ _ | SubscribeEvent _ _ _
  | SubscribeAllEvents _ _
  | CreateObjectReply _ _ | DestroyObjectReply _ _ | CreateServiceReply _ _ | DestroyServiceReply _ _
  | SubscribeEventReply _ _ | QueryServiceVersionReply _ _ | CreateChannelReply _ _
  | CloseChannelEndReply _ _ | ClaimChannelEndReply _ _ | SyncReply _ | CreateBusListenerReply _ _
  | DestroyBusListenerReply _ _ | StartBusListenerReply _ _ | StopBusListenerReply _ _
  | QueryIntrospectionReply _ | QueryServiceInfoReply _ _ | SubscribeServiceReply _ _
  | SubscribeAllEventsReply _ _ | UnsubscribeAllEventsReply _ _ => False
  | _ => True
  end.
Proof. intros [H _]. destruct (o.1.2); cbn in H; try exact I; exact H. Qed.

(* ---------------------------------------------------------------- one step *)
(* the outputs of a step are those of the event's handler followed by those of the work loop *)
Definition step_handler (s : state) (e : event) (fresh : uuid) (bserial : option N) : outcome M :=
  let m0 := {| ms := s; mw := work0; mo := [] |} in
  match e with
  | NewConnection c ver =>
      match conns s !! c with
      | Some _ => Panic 40
      | None => Done (m0 <| ms; conns ::= <[c := {| cs_ver := ver; cs_alive := true; cs_calls := ∅ |}]> |>
                         <| ms; st; n_conns ::= N.succ |>)
      end
  | ConnectionShutdown c => Done (push_remove m0 c false)
  | Message c x =>
      match handle m0 c x fresh bserial with
      | Done m => Done m
      | Fail m => Done (push_remove m c false)
      | Panic site => Panic site
      end
  | ShutdownBroker =>
      Done (foldr (fun p m => push_remove m p.1 true) m0 (map_to_list (conns s)) <| ms; shutdown_now := true |>)
  | ShutdownIdleBroker => Done (m0 <| ms; shutdown_idle := true |>)
  | ShutdownConnection c => Done (push_remove m0 c true)
  | DropTask c =>
      Done (match conns s !! c with
            | Some cs => m0 <| ms; conns ::= <[c := cs <| cs_alive := false |>]> |>
            | None => m0 end)
  end.

Lemma step_unfold s e fresh bserial :
  step s e fresh bserial =
  match step_handler s e fresh bserial with
  | Done m | Fail m =>
      match settle (fuel_for m) m with
      | Done m' | Fail m' => Done (ms m', mo m')
      | Panic site => Panic site
      end
  | Panic site => Panic site
  end.
Proof. reflexivity. Qed.

Lemma step_Done s e fresh bserial s' o : step s e fresh bserial = Done (s', o) ->
  exists m m', step_handler s e fresh bserial = Done m /\
    (settle (fuel_for m) m = Done m' \/ settle (fuel_for m) m = Fail m') /\
    s' = ms m' /\ o = mo m'.
Proof.
  rewrite step_unfold. destruct (step_handler s e fresh bserial) as [m|m|] eqn:E; try discriminate.
  - destruct (settle (fuel_for m) m) as [m'|m'|] eqn:E'; try discriminate;
      intros [= <- <-]; exists m, m'; auto.
  - exfalso. destruct e; cbn in E; try discriminate.
    + destruct (conns s !! c); discriminate.
    + destruct (handle _ c m0 fresh bserial); discriminate.
Qed.

(* step outputs = handler outputs ++ work-loop outputs, the latter all of the settle kinds *)
Lemma step_outputs s e fresh bserial s' o : step s e fresh bserial = Done (s', o) ->
  exists m l, step_handler s e fresh bserial = Done m /\ o = mo m ++ l /\ Forall K_settle l.
Proof.
  intros H. apply step_Done in H as (m & m' & Hh & Hs & -> & ->). exists m.
  pose proof (settle_ext (fuel_for m) m) as He.
  destruct Hs as [Hs|Hs]; rewrite Hs in He; destruct He as (l & E & F); exists l; auto.
Qed.

(* with an empty work queue the work loop does nothing *)
Lemma settle_idle fuel m : mw m = work0 -> settle fuel m = Done m.
Proof.
  intros H. destruct fuel; cbn [settle]; unfold settle_one; rewrite H; reflexivity.
Qed.

(* ---------------------------------------------------------------- shared vocabulary *)
(* the receiver of [x] exists and has not been dropped *)
Definition alive (s : state) (x : conn) : bool :=
  match conns s !! x with Some cs => cs_alive cs | None => false end.

Definition m_init (s : state) : M := {| ms := s; mw := work0; mo := [] |}.

Lemma filter_K_settle_nil (p : out -> bool) l :
  (forall o, K_settle o -> p o = false) -> Forall K_settle l -> List.filter p l = [].
Proof.
  intros Hp. induction 1 as [|o l Ho _ IH]; cbn; [reflexivity|]. rewrite (Hp o Ho). exact IH.
Qed.

Lemma list_filter_app {A} (p : A -> bool) l1 l2 : List.filter p (l1 ++ l2) = List.filter p l1 ++ List.filter p l2.
Proof. induction l1 as [|a l1 IH]; cbn; [reflexivity|]. destruct (p a); cbn; rewrite IH; reflexivity. Qed.

Lemma list_filter_all {A} (p : A -> bool) l : (forall a, In a l -> p a = true) -> List.filter p l = l.
Proof.
  induction l as [|a l IH]; cbn; intros H; [reflexivity|]. rewrite (H a (or_introl eq_refl)).
  f_equal. apply IH. intros b Hb. apply H. right. exact Hb.
Qed.


(* ---------------------------------------------------------------- generic traversal *)
(* the same decomposition for an arbitrary predicate [P] on machines (kept along Done and Fail):
   [prop_step leaf] takes one structural step on a goal [oprop P e] or [P m'], calling [leaf] on
   goals [P (m <| ... |>)]; sends produce the leaf goals "P after appending the output" and
   "P after queueing the removal" *)
Definition oprop (P : M -> Prop) (r : outcome M) : Prop :=
  match r with Done m | Fail m => P m | Panic _ => True end.

Lemma oprop_bind (P : M -> Prop) x f :
  oprop P x -> (forall m1, P m1 -> oprop P (f m1)) -> oprop P (x >>> f).
Proof. destruct x; cbn; auto. Qed.

Lemma oprop_foldO {A} (P : M -> Prop) (f : M -> A -> outcome M) l m :
  (forall m a, P m -> oprop P (f m a)) -> P m -> oprop P (foldO f l m).
Proof.
  intros Hf. revert m. induction l as [|a l IH]; intros m Hm; cbn; [exact Hm|].
  specialize (Hf m a Hm). destruct (f m a); cbn in *; auto.
Qed.

Lemma prop_foldl {A} (P : M -> Prop) (f : M -> A -> M) l m :
  (forall m a, P m -> P (f m a)) -> P m -> P (foldl f m l).
Proof. intros Hf. revert m. induction l as [|a l IH]; intros m Hm; cbn; auto. Qed.

Lemma prop_foldr {A} (P : M -> Prop) (f : A -> M -> M) l m :
  (forall m a, P m -> P (f a m)) -> P m -> P (foldr f m l).
Proof. intros Hf Hm. induction l as [|a l IH]; cbn; auto. Qed.

Lemma oprop_send (P : M -> Prop) m c x from :
  P (m <| mo := mo m ++ [(c, x, from)] |>) -> P m -> oprop P (send m c x from).
Proof.
  intros H1 H2. unfold send. destruct (conns (ms m) !! c) as [cs|]; [|exact I].
  destruct (cs_alive cs); cbn; assumption.
Qed.

Lemma oprop_send_or_remove (P : M -> Prop) m c x from :
  P (m <| mo := mo m ++ [(c, x, from)] |>) -> P (push_remove m c false) -> oprop P (send_or_remove m c x from).
Proof.
  intros H1 H2. unfold send_or_remove, send. destruct (conns (ms m) !! c) as [cs|]; [|exact I].
  destruct (cs_alive cs); cbn; assumption.
Qed.

Lemma oprop_send_ignore (P : M -> Prop) m c x from :
  P (m <| mo := mo m ++ [(c, x, from)] |>) -> P m -> oprop P (send_ignore m c x from).
Proof.
  intros H1 H2. unfold send_ignore, send. destruct (conns (ms m) !! c) as [cs|]; [|exact I].
  destruct (cs_alive cs); cbn; assumption.
Qed.

Lemma oprop_impl (P Q : M -> Prop) r : (forall m, P m -> Q m) -> oprop P r -> oprop Q r.
Proof. intros H. destruct r; cbn; auto. Qed.

Ltac prop_step leaf :=
  match goal with
  | |- oprop _ (Panic _) => exact I
  | |- oprop _ (Done _) => cbn [oprop]
  | |- oprop _ (Fail _) => cbn [oprop]
  | |- oprop _ (_ >>> _) => apply oprop_bind; [|intros ? ?]
  | |- oprop _ (foldO _ _ _) => apply oprop_foldO; [intros ? ? ?; cbv beta|]
  | |- oprop _ (send_or_remove _ _ _ _) => apply oprop_send_or_remove
  | |- oprop _ (send_ignore _ _ _ _) => apply oprop_send_ignore
  | |- oprop _ (send _ _ _ _) => apply oprop_send
  | |- oprop _ (match ?x with _ => _ end) => destruct x eqn:?
  | |- ?P (foldl ?f ?m ?l) => apply (prop_foldl P f l m); [intros ? ? ?; cbv beta|]
  | |- ?P (foldr ?f ?m ?l) => apply (prop_foldr P f l m); [intros ? ? ?; cbv beta|]
  | |- _ (match ?x with _ => _ end) => destruct x eqn:?
  | |- _ => leaf
  end.

(* a leaf for predicates that do not look at the changed fields: the hypothesis is convertible *)
Ltac leaf_conv :=
  idtac; first [ match goal with H : ?P ?m |- ?P _ => exact H end
               | match goal with |- ?P (set _ _ ?x) => change (P x) end ].

(* ---------------------------------------------------------------- queued removals happen *)
(* a connection queued for removal is gone when the work loop is done: the queue is emptied,
   shutdown_connection deletes the connection, and nothing in the work loop adds a connection *)
Definition queued_or_gone (c : conn) (m : M) : Prop :=
  (exists sd, (c, sd) ∈ w_remove_conns (mw m)) \/ conns (ms m) !! c = None.

Lemma qg_push c m c' sd m' :
  w_remove_conns (mw m') = (c', sd) :: w_remove_conns (mw m) -> conns (ms m') = conns (ms m) ->
  queued_or_gone c m -> queued_or_gone c m'.
Proof.
  intros Hw Hs [[sd0 H]|H]; [left|right].
  - exists sd0. rewrite Hw. right. exact H.
  - rewrite Hs. exact H.
Qed.

Lemma qg_delete c m c' m' :
  w_remove_conns (mw m') = w_remove_conns (mw m) -> conns (ms m') = delete c' (conns (ms m)) ->
  queued_or_gone c m -> queued_or_gone c m'.
Proof.
  intros Hw Hs [[sd0 H]|H]; [left|right].
  - exists sd0. rewrite Hw. exact H.
  - rewrite Hs. destruct (decide (c = c')) as [->|Hne]; [apply lookup_delete|].
    rewrite lookup_delete_ne by congruence. exact H.
Qed.

Lemma qg_insert c m c1 cs cs' m' :
  conns (ms m) !! c1 = Some cs ->
  w_remove_conns (mw m') = w_remove_conns (mw m) -> conns (ms m') = <[c1 := cs']> (conns (ms m)) ->
  queued_or_gone c m -> queued_or_gone c m'.
Proof.
  intros Hc Hw Hs [[sd0 H]|H]; [left|right].
  - exists sd0. rewrite Hw. exact H.
  - rewrite Hs. rewrite lookup_insert_ne; [exact H|]. intros ->. congruence.
Qed.

Ltac leaf_qg :=
  idtac;
  first
    [ match goal with H : queued_or_gone ?c ?m |- queued_or_gone ?c _ => exact H end
    | match goal with |- queued_or_gone ?c (push_remove ?x _ _) =>
        eapply (qg_push c x); [reflexivity|reflexivity|leaf_qg] end
    | match goal with |- queued_or_gone ?c (set mo _ ?x) => change (queued_or_gone c x); leaf_qg end
    | match goal with |- queued_or_gone ?c (set _ _ ?x) =>
        eapply (qg_insert c x); [eassumption|reflexivity|reflexivity|leaf_qg] end
    | match goal with |- ?P (set _ _ ?x) => change (P x) end ].

Section QueuedGone.
  Context (c : conn).
  Local Notation P := (queued_or_gone c).

  Lemma remove_end_qg m k e : P m -> oprop P (remove_end m k e).
  Proof. intros H. unfold remove_end. repeat prop_step leaf_qg. Qed.

  Lemma remove_service_qg m k : P m -> oprop P (remove_service m k).
  Proof. intros H. unfold remove_service. repeat prop_step leaf_qg. Qed.

  Lemma remove_object_qg m k : P m -> oprop P (remove_object m k).
  Proof.
    intros H. unfold remove_object.
    repeat first [ match goal with |- oprop _ (remove_service _ _) => apply remove_service_qg end
                 | prop_step leaf_qg ]; assumption.
  Qed.

  Lemma remove_listener_qg m k : P m -> P (remove_listener m k).
  Proof. intros H. unfold remove_listener. destruct (listeners (ms m) !! k); exact H. Qed.

  Lemma bus_qg m ev : P m -> oprop P (bus m ev).
  Proof. intros H. unfold bus. repeat prop_step leaf_qg. Qed.

  Lemma abort_call_qg m b callee : P m -> oprop P (abort_call m b callee).
  Proof. intros H. unfold abort_call. repeat prop_step leaf_qg. Qed.

  (* removing [c] itself establishes the predicate; removing another connection keeps it *)
  Lemma shutdown_conn_qg m c' sd : c' = c \/ P m -> oprop P (shutdown_conn m c' sd).
  Proof.
    intros H. unfold shutdown_conn. destruct (conns (ms m) !! c') as [cs|] eqn:Hc.
    - set (m1 := if sd && cs_alive cs then _ else _).
      assert (H1 : P m1).
      { assert (H0 : P (m <| ms; conns ::= delete c' |>)).
        { destruct H as [->|H]; [right; apply lookup_delete|].
          eapply qg_delete; [| |exact H]; reflexivity. }
        subst m1. destruct (sd && cs_alive cs); exact H0. }
      clearbody m1.
      repeat first
        [ match goal with
          | |- oprop _ (remove_object _ _) => apply remove_object_qg
          | |- oprop _ (remove_end _ _ _) => apply remove_end_qg
          | |- queued_or_gone _ (remove_listener _ _) => apply remove_listener_qg
          end
        | prop_step leaf_qg ]; assumption.
    - destruct H as [->|H]; [right; exact Hc|exact H].
  Qed.

  Lemma settle_one_qg m r : P m -> settle_one m = Some r -> oprop P r.
  Proof.
    intros H. unfold settle_one. destruct (w_remove_conns (mw m)) as [|[c' sd] q] eqn:Eq.
    - assert (H' : forall m', w_remove_conns (mw m') = w_remove_conns (mw m) -> conns (ms m') = conns (ms m) -> P m').
      { intros m' Hw Hs. destruct H as [[sd0 H]|H]; [left; exists sd0; rewrite Hw; exact H|right; rewrite Hs; exact H]. }
      repeat match goal with
             | |- match ?l with [] => _ | _ :: _ => _ end = Some _ -> _ => destruct l as [|? ?]
             | |- (let '(_, _) := ?p in _) = Some _ -> _ => destruct p
             end; try discriminate; intros [= <-];
        repeat first
          [ match goal with
            | |- oprop _ (abort_call _ _ _) => apply abort_call_qg
            | |- oprop _ (bus _ _) => apply bus_qg
            | |- queued_or_gone _ _ => solve [apply H'; reflexivity]
            end
          | prop_step leaf_qg ].
    - intros [= <-]. apply shutdown_conn_qg. destruct H as [[sd0 H]|H].
      + rewrite Eq in H. apply elem_of_cons in H as [[= -> ->]|H]; [left; reflexivity|].
        right. left. exists sd0. exact H.
      + right. right. exact H.
  Qed.

  Lemma settle_qg fuel : forall m, P m -> oprop P (settle fuel m).
  Proof.
    induction fuel as [|fuel IH]; intros m H; cbn [settle];
      destruct (settle_one m) as [r|] eqn:E; try exact H;
      pose proof (settle_one_qg m r H E) as Hr; destruct r; cbn in Hr |- *; trivial; apply IH; assumption.
  Qed.
End QueuedGone.

(* when the work loop stops normally there is no work left *)
Lemma settle_done_idle fuel : forall m m', settle fuel m = Done m' -> settle_one m' = None.
Proof.
  induction fuel as [|fuel IH]; intros m m'; cbn [settle]; destruct (settle_one m) as [[m1|m1|]|] eqn:E;
    try discriminate; try (intros [= <-]; exact E); apply IH.
Qed.
Lemma settle_never_fails fuel : forall m m', settle fuel m <> Fail m'.
Proof.
  induction fuel as [|fuel IH]; intros m m'; cbn [settle]; destruct (settle_one m) as [[m1|m1|]|];
    try discriminate; apply IH.
Qed.
Lemma settle_one_None_queue m : settle_one m = None -> w_remove_conns (mw m) = [].
Proof. unfold settle_one. destruct (w_remove_conns (mw m)) as [|[? ?] ?]; [reflexivity|discriminate]. Qed.

(* the step-level statement: whoever the handler queued for removal is not connected afterwards *)
Theorem queued_removed s e f bs s' o m c sd :
  step s e f bs = Done (s', o) -> step_handler s e f bs = Done m -> (c, sd) ∈ w_remove_conns (mw m) ->
  conns s' !! c = None.
Proof.
  intros Hstep Hh Hq. apply step_Done in Hstep as (m1 & m' & Hh' & Hs & -> & _).
  rewrite Hh in Hh'. injection Hh' as <-.
  destruct Hs as [Hs|Hs]; [|exfalso; exact (settle_never_fails _ _ _ Hs)].
  pose proof (settle_qg c (fuel_for m) m (or_introl (ex_intro _ sd Hq))) as Hp. rewrite Hs in Hp.
  apply settle_done_idle, settle_one_None_queue in Hs. destruct Hp as [[sd0 Hp]|Hp]; [|exact Hp].
  rewrite Hs in Hp. apply elem_of_nil in Hp. contradiction.
Qed.

(* a failing handler: the sender is removed *)
Corollary failed_handler_removed s c x f bs s' o mf :
  step s (Message c x) f bs = Done (s', o) -> handle (m_init s) c x f bs = Fail mf -> conns s' !! c = None.
Proof.
  intros Hstep Hf. eapply (queued_removed _ _ _ _ _ _ (push_remove mf c false) c false); [exact Hstep| |left].
  cbn [step_handler]. fold (m_init s). rewrite Hf. reflexivity.
Qed.

(* ---------------------------------------------------------------- traversal, remembering deadness *)
(* as [prop_step], but the "removal queued" leaf of a send_or_remove comes with the fact that the
   destination's receiver is gone *)
Lemma oprop_send_or_remove_d (P : M -> Prop) m c x from :
  P (m <| mo := mo m ++ [(c, x, from)] |>) -> (alive (ms m) c = false -> P (push_remove m c false)) ->
  oprop P (send_or_remove m c x from).
Proof.
  intros H1 H2. unfold send_or_remove, send. unfold alive in H2. destruct (conns (ms m) !! c) as [cs|]; [|exact I].
  destruct (cs_alive cs); cbn; auto.
Qed.

Ltac prop_step_d leaf :=
  match goal with
  | |- oprop _ (send_or_remove _ _ _ _) => apply oprop_send_or_remove_d; [|intros ?]
  | |- _ => prop_step leaf
  end.
