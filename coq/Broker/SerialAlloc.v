(* Broker/SerialAlloc.v — the allocator of broker-side call serials, [sm_probe] / [sm_choice] of
   Broker/Model.v (= SerialMap::insert, broker/src/serial_map.rs), on its own: which serial it
   returns, how far it advances [next], and that it finds a vacant serial whenever fewer than
   2^32 serials are occupied (pigeonhole).  No broker machine here; Broker/SerialProofs.v has the
   statements about histories. *)
From stdpp Require Import gmap list.
From Aldrin Require Import gen.BrokerConsts Broker.Model.
From Coq Require Import Lia ZifyBool ZifyNat ZifyN.
Local Open Scope N_scope.
Ltac Zify.zify_post_hook ::= Z.div_mod_to_equations.

Lemma sm_wrap_succ_lt n : sm_wrap_succ n < 4294967296.
Proof. unfold sm_wrap_succ. lia. Qed.

(* the i-th serial probed when the search starts at n *)
Definition sm_at (n : N) (i : nat) : N := (n + N.of_nat i) mod 4294967296.

Lemma sm_at_0 n : n < 4294967296 -> sm_at n 0 = n.
Proof. unfold sm_at. lia. Qed.
Lemma sm_at_S n i : sm_at (sm_wrap_succ n) i = sm_at n (S i).
Proof. unfold sm_at, sm_wrap_succ. lia. Qed.
Lemma sm_at_lt n i : sm_at n i < 4294967296.
Proof. unfold sm_at. lia. Qed.
Lemma sm_at_inj n i j :
  (N.of_nat i < 4294967296) -> (N.of_nat j < 4294967296) -> sm_at n i = sm_at n j -> i = j.
Proof. unfold sm_at. lia. Qed.
Lemma sm_wrap_succ_at n i : sm_wrap_succ (sm_at n i) = sm_at n (S i).
Proof. unfold sm_at, sm_wrap_succ. lia. Qed.

(* exact description of a successful search: the first k probes hit occupied serials, the
   (k+1)-th is vacant and is returned; next becomes its wrapping successor; k+1 iterations *)
Lemma sm_probe_Some fuel occ : forall n b nxt,
  n < 4294967296 -> sm_probe fuel occ n = Some (b, nxt) ->
  exists k : nat, (k < fuel)%nat /\ (forall i, (i < k)%nat -> occ (sm_at n i) = true) /\
    b = sm_at n k /\ occ b = false /\ nxt = sm_at n (S k) /\ sm_probes fuel occ n = N.of_nat k + 1.
Proof.
  induction fuel as [|fuel IH]; intros n b nxt Hn; cbn [sm_probe sm_probes]; [discriminate|].
  destruct (occ n) eqn:Eo.
  - intros H. destruct (IH _ _ _ (sm_wrap_succ_lt n) H) as (k & Hk & Hocc & -> & Hb & -> & Hp).
    exists (S k). split; [lia|]. split; [|split; [|split; [|split]]].
    + intros [|i] Hi; [by rewrite sm_at_0|]. rewrite <- sm_at_S. apply Hocc. lia.
    + apply sm_at_S.
    + exact Hb.
    + apply sm_at_S.
    + rewrite Hp. lia.
  - intros [= <- <-]. exists 0%nat. split; [lia|]. split; [intros i Hi; lia|].
    rewrite sm_at_0 by done. split; [done|]. split; [done|]. split; [|done].
    unfold sm_at, sm_wrap_succ. f_equal.
Qed.

Lemma sm_probe_None fuel occ : forall n,
  n < 4294967296 -> sm_probe fuel occ n = None -> forall i, (i < fuel)%nat -> occ (sm_at n i) = true.
Proof.
  induction fuel as [|fuel IH]; intros n Hn; cbn [sm_probe]; [intros _ i Hi; lia|].
  destruct (occ n) eqn:Eo; [|discriminate]. intros H [|i] Hi; [by rewrite sm_at_0|].
  rewrite <- sm_at_S. apply (IH _ (sm_wrap_succ_lt n) H). lia.
Qed.

(* whatever the start, a returned serial is vacant *)
Lemma sm_probe_vacant_gen fuel occ : forall n b nxt, sm_probe fuel occ n = Some (b, nxt) -> occ b = false.
Proof.
  induction fuel as [|fuel IH]; intros n b nxt; cbn [sm_probe]; [discriminate|].
  destruct (occ n) eqn:Eo; [apply IH|]. intros [= <- _]. exact Eo.
Qed.

(* pigeonhole: [fuel] consecutive serials (mod 2^32, fuel <= 2^32) that are all keys of K *)
Lemma sm_pigeon {A} (K : gmap N A) n fuel :
  N.of_nat fuel <= 4294967296 ->
  (forall i, (i < fuel)%nat -> is_Some (K !! sm_at n i)) -> (fuel <= size K)%nat.
Proof.
  intros Hf Hocc.
  set (l := sm_at n <$> seq 0 fuel).
  assert (NoDup l) as Hnd.
  { apply NoDup_fmap_2_strong; [|apply NoDup_seq].
    intros i j Hi Hj. apply elem_of_seq in Hi, Hj. apply sm_at_inj; lia. }
  assert (l ⊆+ elements (dom K)) as Hsub.
  { apply NoDup_submseteq; [done|]. intros x Hx. apply elem_of_list_fmap in Hx as (i & -> & Hi).
    apply elem_of_seq in Hi. apply elem_of_elements, elem_of_dom, Hocc. lia. }
  apply submseteq_length in Hsub. subst l. rewrite fmap_length, seq_length in Hsub.
  rewrite <- size_dom. exact Hsub.
Qed.

(* ---------------------------------------------------------------- on a broker state *)
Lemma sm_occ_true s n : sm_occ s n = true <-> is_Some (calls s !! n).
Proof. unfold sm_occ. apply bool_decide_eq_true. Qed.
Lemma sm_occ_false s n : sm_occ s n = false <-> calls s !! n = None.
Proof. unfold sm_occ. rewrite bool_decide_eq_false. symmetry. apply eq_None_not_Some. Qed.

Lemma sm_probe_vacant s b nxt : sm_choice s = Some (b, nxt) -> sm_occ s b = false.
Proof. apply sm_probe_vacant_gen. Qed.

(* the allocator succeeds whenever fewer than 2^32 calls are pending *)
Lemma sm_choice_is_Some s :
  next s < 4294967296 -> N.of_nat (size (calls s)) < 4294967296 -> is_Some (sm_choice s).
Proof.
  intros Hn Hsz. unfold sm_choice. destruct (sm_probe _ _ _) as [p|] eqn:E; [eauto|exfalso].
  pose proof (sm_probe_None _ _ _ Hn E) as Hocc.
  assert (S (size (calls s)) <= size (calls s))%nat; [|lia].
  apply (sm_pigeon (calls s) (next s)); [lia|]. intros i Hi. apply sm_occ_true, Hocc, Hi.
Qed.

(* what it returns *)
Lemma sm_choice_Some s b nxt :
  next s < 4294967296 -> sm_choice s = Some (b, nxt) ->
  calls s !! b = None /\ b < 4294967296 /\ nxt = sm_wrap_succ b /\ nxt < 4294967296 /\
  exists k : nat, (k <= size (calls s))%nat /\ b = sm_at (next s) k /\
    (forall i, (i < k)%nat -> is_Some (calls s !! sm_at (next s) i)) /\
    sm_advance s = N.of_nat k + 1.
Proof.
  intros Hn H. unfold sm_choice in H. apply sm_probe_Some in H as (k & Hk & Hocc & -> & Hb & -> & Hp); [|done].
  split; [by apply sm_occ_false|]. split; [apply sm_at_lt|]. split; [by rewrite sm_wrap_succ_at|].
  split; [apply sm_at_lt|]. exists k. split; [lia|]. split; [done|]. split; [|exact Hp].
  intros i Hi. apply sm_occ_true, Hocc, Hi.
Qed.

(* [pick_serial] is the allocator's choice, provided the observed serial (if any) is that choice *)
Lemma pick_serial_Some s bs b nxt :
  pick_serial s bs = Some (b, nxt) <-> sm_choice s = Some (b, nxt) /\ (bs = None \/ bs = Some b).
Proof.
  unfold pick_serial. destruct (sm_choice s) as [[b0 n0]|]; [|split; [discriminate|intros [? _]; discriminate]].
  destruct bs as [b'|].
  - destruct (bool_decide_reflect (b' = b0)) as [->|Hne].
    + split; [intros [= <- <-]; auto|intros [[= <- <-] _]; done].
    + split; [discriminate|]. intros [[= <- <-] [|[= ->]]]; done.
  - split; [intros [= <- <-]; auto|intros [[= <- <-] _]; done].
Qed.
