(* Broker/InvProofsShutdown.v — shutdown_conn: removing a connection removes everything that names
   it, reaches no panic site (12, 13, 10) and re-establishes the invariant for the remaining
   connections. *)
From stdpp Require Import gmap list.
From RecordUpdate Require Import RecordSet.
Import RecordSetNotations.
From Aldrin Require Import gen.BrokerConsts Broker.Model Broker.Run Broker.ChannelProofs Broker.Inv
  Broker.InvProofsBase Broker.InvProofsCalls Broker.InvProofsRemove Broker.InvProofsRemoveSvc.
From Coq Require Import Lia.
Local Open Scope N_scope.

(* ---------------------------------------------------------------- updating one service *)
(* a service entry replaced by one with the same identity and calls *)
Lemma MO_svc_update O X m k s s' :
  MO O X m → svcs (ms m) !! k = Some s →
  s_cookie s' = s_cookie s → s_obj_cookie s' = s_obj_cookie s → s_calls s' = s_calls s →
  svc_own X s' →
  MO O X (m <| ms; svcs ::= <[k := s']> |>).
Proof.
  intros H Hk E1 E2 E3 Hown. unfold MO in *. mx_frame H.
  - intros k' sv. rewrite lookup_insert_Some. intros [[<- <-]|[_ Hk']]; [|eauto].
    destruct (Hreg _ _ Hk) as (o & ? & ?). exists o. split; [done|congruence].
  - intros k1 k2 s1 s2. rewrite !lookup_insert_Some.
    intros [[<- <-]|[N1 H1]] [[<- <-]|[N2 H2]] Hc; try done.
    + eapply Hus; eauto. congruence.
    + eapply Hus; eauto. congruence.
    + eapply Hus; eauto.
  - intros k' sv. rewrite lookup_insert_Some. intros [[<- <-]|[_ Hk']]; [done|eauto].
  - intros b cl Hb. destruct (Hcs _ _ Hb) as (sv & Hsv & Hin).
    destruct (decide (c_svc cl = k)) as [Heq|Hne].
    + exists s'. rewrite Heq, lookup_insert. split; [done|]. rewrite E3. congruence.
    + exists sv. by rewrite lookup_insert_ne.
  - intros k' sv b. rewrite lookup_insert_Some. intros [[<- <-]|[_ Hk']] Hb; [|eauto].
    rewrite E3 in Hb. eauto.
Qed.

Definition clean_ev (c : conn) (sv : svc) : Prop := ∀ e set, s_events sv !! e = Some set → c ∉ set.
Definition clean_all (c : conn) (sv : svc) : Prop := c ∉ s_all sv.
Definition clean_subs (c : conn) (sv : svc) : Prop := c ∉ s_subs sv.

Lemma svc_own_clean X c sv :
  svc_own X sv → clean_ev c sv → clean_all c sv → clean_subs c sv → svc_own (X ∖ {[c]}) sv.
Proof.
  intros (H1 & H2 & H3) C1 C2 C3. unfold clean_all, clean_subs in *. split; [set_solver|]. split; [set_solver|].
  intros e set He. destruct (H3 _ _ He) as [H4 H5]. specialize (C1 _ _ He). split; [set_solver|done].
Qed.

(* ---------------------------------------------------------------- phase 2: listeners *)
Lemma sd_listeners X c m :
  MX X m →
  let ls := (fun p => p.1) <$> List.filter (fun p : uuid * lis => bool_decide (l_owner p.2 = c)) (map_to_list (listeners (ms m))) in
  let m' := foldl remove_listener m ls in
  MX X m' ∧ blank_lis (ms m') = blank_lis (ms m) ∧ mw m' = mw m ∧
  own_lis (X ∖ {[c]}) (listeners (ms m')).
Proof.
  intros H ls m'. destruct (remove_listeners_spec _ X ls m H) as (H1 & H2 & H3 & _ & H5).
  fold m' in H1, H2, H3, H5. split.
  { unfold MX. rw_fields H2. exact H1. }
  split; [done|]. split; [done|].
  intros k l Hk. rewrite H5 in Hk. destruct (decide (k ∈ ls)) as [|Hn]; [done|].
  apply elem_of_difference. split; [eapply (iv_ol _ _ _ _ _ H); eauto|].
  intros Hc%elem_of_singleton. apply Hn. subst ls. apply elem_of_list_fmap. exists (k, l).
  split; [done|]. apply elem_of_List_filter. split; [by apply elem_of_map_to_list|].
  by apply bool_decide_eq_true.
Qed.

(* ---------------------------------------------------------------- phase 3: objects *)
Lemma sd_objects X c m :
  MX X m →
  let owned := (fun p => o_cookie p.2) <$> List.filter (fun p : uuid * obj => bool_decide (o_owner p.2 = c)) (map_to_list (objs (ms m))) in
  ∃ m', foldO remove_object owned m = Done m' ∧ MX X m' ∧ blank_osc (ms m') = blank_osc (ms m) ∧
    w_abort (mw m') = w_abort (mw m) ∧ calls (ms m') ⊆ calls (ms m) ∧
    objs (ms m') ⊆ objs (ms m) ∧ svcs (ms m') ⊆ svcs (ms m) ∧
    own_obj (X ∖ {[c]}) (objs (ms m')) ∧
    (∀ u o, objs (ms m) !! u = Some o → o_owner o ≠ c → objs (ms m') !! u = Some o).
Proof.
  intros H owned.
  destruct (foldO_inv (fun m' rest =>
      MX X m' ∧ blank_osc (ms m') = blank_osc (ms m) ∧ w_abort (mw m') = w_abort (mw m) ∧
      calls (ms m') ⊆ calls (ms m) ∧ objs (ms m') ⊆ objs (ms m) ∧ svcs (ms m') ⊆ svcs (ms m) ∧
      (∀ u o, objs (ms m') !! u = Some o → o_owner o = c → o_cookie o ∈ rest) ∧
      (∀ u o, objs (ms m) !! u = Some o → o_owner o ≠ c → objs (ms m') !! u = Some o) ∧
      (∀ y, y ∈ rest → ∃ u o, objs (ms m) !! u = Some o ∧ o_owner o = c ∧ o_cookie o = y)) remove_object owned m)
    as (m2 & Hf & H2 & Hb & Hwa & Hc & Ho & Hs & Hnone & Hkeep & _).
  { split; [done|]. split; [done|]. split; [done|]. split; [done|]. split; [done|]. split; [done|].
    split; [|split; [done|]].
    - intros u o Hu Hoc. subst owned. apply elem_of_list_fmap. exists (u, o). split; [done|].
      apply elem_of_List_filter. split; [by apply elem_of_map_to_list|]. by apply bool_decide_eq_true.
    - intros y Hy. subst owned. apply elem_of_list_fmap in Hy as ([u o] & -> & Hy).
      apply elem_of_List_filter in Hy as [Hy Hb]. apply elem_of_map_to_list in Hy.
      apply bool_decide_eq_true in Hb. exists u, o. done. }
  { intros m' x rest (I1 & I2 & I3 & I4 & I5 & I6 & I7 & I8 & I9).
    destruct (remove_object_spec X m' x I1) as (m'' & -> & J1 & J2 & J3 & J4 & J5 & J6).
    exists m''. split; [done|]. split; [done|]. split; [congruence|]. split; [congruence|].
    split; [etrans; eauto|].
    assert (objs (ms m'') ⊆ objs (ms m')) as Hss.
    { rewrite J6. destruct (obj_by_cookie (ms m') x) as [[u' o']|]; [apply delete_subseteq|done]. }
    split; [etrans; eauto|]. split; [etrans; eauto|].
    split; [|split].
    - intros u o Hu Hoc. pose proof (lookup_weaken _ _ _ _ Hu Hss) as Hu'.
      pose proof (I7 _ _ Hu' Hoc) as Hin. apply elem_of_cons in Hin as [Heq|Hin]; [|done]. exfalso.
      rewrite J6 in Hu. destruct (obj_by_cookie (ms m') x) as [[u' o']|] eqn:E'.
      + apply obj_by_cookie_Some in E' as [E1 E2].
        assert (u' = u) as -> by (eapply (iv_uo _ _ _ _ _ I1); eauto; congruence).
        by rewrite lookup_delete in Hu.
      + eapply obj_by_cookie_None; eauto.
    - intros u o Hu Hoc. specialize (I8 _ _ Hu Hoc). rewrite J6.
      destruct (obj_by_cookie (ms m') x) as [[u' o']|] eqn:E'; [|done].
      apply obj_by_cookie_Some in E' as [E1 E2].
      rewrite lookup_delete_ne; [done|]. intros ->. rewrite E1 in I8. inversion I8; subst o'.
      destruct (I9 x ltac:(left)) as (u0 & o0 & G1 & G2 & G3).
      assert (u0 = u) as -> by (eapply (iv_uo _ _ _ _ _ H); eauto; congruence).
      rewrite Hu in G1. inversion G1; subst. done.
    - intros y Hy. apply I9. by right. }
  exists m2. split; [done|]. split; [done|]. split; [done|]. split; [done|]. split; [done|].
  split; [done|]. split; [done|]. split; [|done].
  intros u o Hu. apply elem_of_difference. split; [eapply (iv_oo _ _ _ _ _ H2); eauto|].
  intros Hc'%elem_of_singleton. specialize (Hnone _ _ Hu Hc'). by apply not_elem_of_nil in Hnone.
Qed.

(* ---------------------------------------------------------------- phase 4: event subscriptions *)
Definition sd_ev_inner (c : conn) (k : uuid * uuid) (owner : conn) (m : M) (e : N) : M :=
  match svcs (ms m) !! k with
  | Some s =>
      let set := default ∅ (s_events s !! e) ∖ {[c]} in
      if bool_decide (set = ∅)
      then m <| ms; svcs ::= <[k := s <| s_events ::= delete e |>]> |>
             <| mw; w_unsub_ev ::= cons (owner, s_cookie s, e) |>
      else m <| ms; svcs ::= <[k := s <| s_events ::= <[e := set]> |>]> |>
  | None => m
  end.

Definition sd_ev_body (c : conn) (m : M) (k : uuid * uuid) : outcome M :=
  match svcs (ms m) !! k, owner_of_svc (ms m) k with
  | Some s, Some owner =>
      let evs := (fun p : N * gset conn => p.1) <$> List.filter (fun p : N * gset conn => bool_decide (c ∈ p.2)) (map_to_list (s_events s)) in
      Done (foldl (sd_ev_inner c k owner) m evs)
  | Some _, None => Panic 12
  | None, _ => Done m
  end.

Lemma sd_ev_inner_spec O X c k owner evs : ∀ m s,
  MO O X m → svcs (ms m) !! k = Some s →
  let m' := foldl (sd_ev_inner c k owner) m evs in
  MO O X m' ∧ blank_svcs (ms m') = blank_svcs (ms m) ∧
  w_rm_call (mw m') = w_rm_call (mw m) ∧ w_abort (mw m') = w_abort (mw m) ∧
  (∀ k', k' ≠ k → svcs (ms m') !! k' = svcs (ms m) !! k') ∧
  ∃ s', svcs (ms m') !! k = Some s' ∧ s_all s' = s_all s ∧ s_subs s' = s_subs s ∧
    ∀ e set', s_events s' !! e = Some set' → c ∈ set' → e ∉ evs ∧ s_events s !! e = Some set'.
Proof.
  induction evs as [|e evs IH]; intros m s H Hk; cbn.
  { split; [done|]. split; [done|]. split; [done|]. split; [done|]. split; [done|].
    exists s. split; [done|]. split; [done|]. split; [done|]. intros e set' He _. split; [apply not_elem_of_nil|done]. }
  set (set := default ∅ (s_events s !! e) ∖ {[c]}).
  assert (svc_own X s) as (Ho1 & Ho2 & Ho3) by (eapply (iv_os _ _ _ _ _ H); eauto).
  destruct (decide (set = ∅)) as [Hemp|Hne].
  - set (s1 := s <| s_events ::= delete e |>).
    assert (sd_ev_inner c k owner m e =
            m <| ms; svcs ::= <[k := s1]> |> <| mw; w_unsub_ev ::= cons (owner, s_cookie s, e) |>) as ->.
    { unfold sd_ev_inner. rewrite Hk. cbn zeta. fold set. by rewrite bool_decide_eq_true_2. }
    assert (MO O X (m <| ms; svcs ::= <[k := s1]> |> <| mw; w_unsub_ev ::= cons (owner, s_cookie s, e) |>)) as H1.
    { eapply MO_quiet; [|eapply (MO_svc_update _ _ _ k s s1); eauto]; [done|].
      split; [done|]. split; [done|]. intros e' st'. cbn. rewrite lookup_delete_Some. intros [_ ?]. eauto. }
    edestruct (IH _ s1 H1) as (I1 & I2 & I3 & I4 & I5 & s' & I6 & I7 & I8 & I9).
    { cbn. by rewrite lookup_insert. }
    split; [exact I1|]. split; [etrans; [exact I2|done]|]. split; [etrans; [exact I3|done]|].
    split; [etrans; [exact I4|done]|].
    split. { intros k' Hk'. etrans; [apply I5; done|]. cbn. by rewrite lookup_insert_ne. }
    exists s'. split; [done|]. split; [done|]. split; [done|].
    intros e' set' He' Hc'. destruct (I9 _ _ He' Hc') as [J1 J2]. cbn in J2.
    apply lookup_delete_Some in J2 as [Hee J2]. split; [|done]. rewrite elem_of_cons. intros [?|?]; done.
  - set (s1 := s <| s_events ::= <[e := set]> |>).
    assert (sd_ev_inner c k owner m e = m <| ms; svcs ::= <[k := s1]> |>) as ->.
    { unfold sd_ev_inner. rewrite Hk. cbn zeta. fold set. by rewrite bool_decide_eq_false_2. }
    assert (MO O X (m <| ms; svcs ::= <[k := s1]> |>)) as H1.
    { eapply (MO_svc_update _ _ _ k s s1); eauto.
      split; [done|]. split; [done|]. intros e' st'. cbn. rewrite lookup_insert_Some.
      intros [[_ <-]|[_ ?]]; [|eauto]. split; [|done]. subst set.
      destruct (s_events s !! e) as [old|] eqn:Eo; cbn in *; [|set_solver].
      destruct (Ho3 _ _ Eo). set_solver. }
    edestruct (IH _ s1 H1) as (I1 & I2 & I3 & I4 & I5 & s' & I6 & I7 & I8 & I9).
    { cbn. by rewrite lookup_insert. }
    split; [exact I1|]. split; [etrans; [exact I2|done]|]. split; [etrans; [exact I3|done]|].
    split; [etrans; [exact I4|done]|].
    split. { intros k' Hk'. etrans; [apply I5; done|]. cbn. by rewrite lookup_insert_ne. }
    exists s'. split; [done|]. split; [done|]. split; [done|].
    intros e' set' He' Hc'. destruct (I9 _ _ He' Hc') as [J1 J2]. cbn in J2.
    apply lookup_insert_Some in J2 as [[<- <-]|[Hee J2]].
    + exfalso. subst set. set_solver.
    + split; [|done]. rewrite elem_of_cons. intros [?|?]; done.
Qed.

Lemma sd_events X c m :
  MX X m →
  ∃ m', foldO (sd_ev_body c) ((fun p => p.1) <$> map_to_list (svcs (ms m))) m = Done m' ∧ MX X m' ∧
    blank_svcs (ms m') = blank_svcs (ms m) ∧
    w_rm_call (mw m') = w_rm_call (mw m) ∧ w_abort (mw m') = w_abort (mw m) ∧
    (∀ k, is_Some (svcs (ms m') !! k) → is_Some (svcs (ms m) !! k)) ∧
    (∀ k sv, svcs (ms m') !! k = Some sv → clean_ev c sv).
Proof.
  intros H.
  destruct (foldO_inv (fun m' rest =>
      MX X m' ∧ blank_svcs (ms m') = blank_svcs (ms m) ∧
      w_rm_call (mw m') = w_rm_call (mw m) ∧ w_abort (mw m') = w_abort (mw m) ∧
      (∀ k, is_Some (svcs (ms m') !! k) → is_Some (svcs (ms m) !! k)) ∧
      ∀ k sv, svcs (ms m') !! k = Some sv → k ∈ rest ∨ clean_ev c sv)
      (sd_ev_body c) ((fun p => p.1) <$> map_to_list (svcs (ms m))) m)
    as (m2 & Hf & H2 & Hb & Hq & Hwa & Hdom & Hcl).
  { split; [done|]. split; [done|]. split; [done|]. split; [done|]. split; [done|].
    intros k sv Hk. left. apply elem_of_list_fmap. exists (k, sv). split; [done|]. by apply elem_of_map_to_list. }
  { intros m' k rest (I1 & I2 & I3 & I4 & I5 & I6). unfold sd_ev_body.
    destruct (svcs (ms m') !! k) as [s|] eqn:Ek.
    2:{ exists m'. split; [done|]. split; [done|]. split; [done|]. split; [done|]. split; [done|]. split; [done|].
        intros k' sv Hk'. destruct (I6 _ _ Hk') as [Hin|?]; [|by right].
        apply elem_of_cons in Hin as [->|?]; [congruence|by left]. }
    destruct (owner_of_svc_reg (ms m') k s) as (o & Ho & -> & _); [apply I1|done|].
    eexists. split; [done|].
    match goal with |- context [foldl _ m' ?l] => set (evs := l) end.
    destruct (sd_ev_inner_spec _ X c k (o_owner o) evs m' s I1 Ek) as (J1 & J2 & J3 & J4 & J5 & s' & J6 & J7 & J8 & J9).
    split. { unfold MX. rw_fields J2. exact J1. }
    split; [congruence|]. split; [congruence|]. split; [congruence|].
    split. { intros k' Hs. apply I5. destruct (decide (k' = k)) as [->|Hne]; [eauto|]. by rewrite <- J5. }
    intros k' sv Hk'. destruct (decide (k' = k)) as [->|Hne].
    - right. rewrite J6 in Hk'. inversion Hk'; subst sv. intros e set' He Hc.
      destruct (J9 _ _ He Hc) as [Hn Hs]. apply Hn. subst evs. apply elem_of_list_fmap.
      exists (e, set'). split; [done|]. apply elem_of_List_filter. split; [by apply elem_of_map_to_list|].
      by apply bool_decide_eq_true.
    - rewrite J5 in Hk' by done. destruct (I6 _ _ Hk') as [Hin|?]; [|by right].
      apply elem_of_cons in Hin as [->|?]; [done|by left]. }
  exists m2. split; [done|]. split; [done|]. split; [done|]. split; [done|]. split; [done|]. split; [done|].
  intros k sv Hk. destruct (Hcl _ _ Hk) as [Hin|?]; [|done]. by apply not_elem_of_nil in Hin.
Qed.

(* ---------------------------------------------------------------- phase 5: all-events subscriptions *)
Definition sd_all_body (c : conn) (m : M) (k : uuid * uuid) : outcome M :=
  match svcs (ms m) !! k, owner_of_svc (ms m) k with
  | Some s, Some owner =>
      if bool_decide (c ∈ s_all s) then
        let all' := s_all s ∖ {[c]} in
        let m' := m <| ms; svcs ::= <[k := s <| s_all := all' |>]> |> in
        Done (if bool_decide (all' = ∅) then m' <| mw; w_unsub_all ::= cons (owner, s_cookie s) |> else m')
      else Done m
  | Some _, None => Panic 13
  | None, _ => Done m
  end.

Lemma sd_all X c m :
  MX X m → (∀ k sv, svcs (ms m) !! k = Some sv → clean_ev c sv) →
  ∃ m', foldO (sd_all_body c) ((fun p => p.1) <$> map_to_list (svcs (ms m))) m = Done m' ∧ MX X m' ∧
    blank_svcs (ms m') = blank_svcs (ms m) ∧
    w_rm_call (mw m') = w_rm_call (mw m) ∧ w_abort (mw m') = w_abort (mw m) ∧
    (∀ k, is_Some (svcs (ms m') !! k) → is_Some (svcs (ms m) !! k)) ∧
    (∀ k sv, svcs (ms m') !! k = Some sv → clean_ev c sv ∧ clean_all c sv).
Proof.
  intros H Hev.
  destruct (foldO_inv (fun m' rest =>
      MX X m' ∧ blank_svcs (ms m') = blank_svcs (ms m) ∧
      w_rm_call (mw m') = w_rm_call (mw m) ∧ w_abort (mw m') = w_abort (mw m) ∧
      (∀ k, is_Some (svcs (ms m') !! k) → is_Some (svcs (ms m) !! k)) ∧
      ∀ k sv, svcs (ms m') !! k = Some sv → clean_ev c sv ∧ (k ∈ rest ∨ clean_all c sv))
      (sd_all_body c) ((fun p => p.1) <$> map_to_list (svcs (ms m))) m)
    as (m2 & Hf & H2 & Hb & Hq & Hwa & Hdom & Hcl).
  { split; [done|]. split; [done|]. split; [done|]. split; [done|]. split; [done|].
    intros k sv Hk. split; [eauto|]. left. apply elem_of_list_fmap. exists (k, sv). split; [done|]. by apply elem_of_map_to_list. }
  { intros m' k rest (I1 & I2 & I3 & I4 & I5 & I6). unfold sd_all_body.
    destruct (svcs (ms m') !! k) as [s|] eqn:Ek.
    2:{ exists m'. split; [done|]. split; [done|]. split; [done|]. split; [done|]. split; [done|]. split; [done|].
        intros k' sv Hk'. destruct (I6 _ _ Hk') as [Hc [Hin|?]]; [|by split; [|right]].
        apply elem_of_cons in Hin as [->|?]; [congruence|by split; [|left]]. }
    destruct (owner_of_svc_reg (ms m') k s) as (o & Ho & -> & _); [apply I1|done|].
    destruct (bool_decide_reflect (c ∈ s_all s)) as [Hin|Hnin].
    2:{ exists m'. split; [done|]. split; [done|]. split; [done|]. split; [done|]. split; [done|]. split; [done|].
        intros k' sv Hk'. destruct (I6 _ _ Hk') as [Hc [Hin|?]]; [|by split; [|right]].
        apply elem_of_cons in Hin as [->|?]; [|by split; [|left]].
        split; [done|]. right. rewrite Ek in Hk'. inversion Hk'; subst. done. }
    cbn zeta. set (s1 := s <| s_all := s_all s ∖ {[c]} |>).
    assert (svc_own X s) as (Ho1 & Ho2 & Ho3) by (eapply (iv_os _ _ _ _ _ I1); eauto).
    assert (MX X (m' <| ms; svcs ::= <[k := s1]> |>)) as H1.
    { unfold MX. cbn. eapply (MO_svc_update _ _ _ k s s1); eauto.
      split; [cbn; set_solver|]. split; [done|]. done. }
    match goal with |- ∃ m'0, Done ?t = _ ∧ _ => exists t; assert (quiet (m' <| ms; svcs ::= <[k := s1]> |>) t) as Hqt end.
    { destruct (bool_decide _); done. }
    split; [done|]. split; [eapply MX_quiet; eauto|]. destruct Hqt as (-> & -> & ->). cbn.
    split. { unfold blank_svcs in *. cbn in *. exact I2. }
    split; [done|]. split; [done|].
    split. { intros k' Hs. apply I5. apply lookup_insert_is_Some in Hs as [<-|[_ ?]]; eauto. }
    intros k' sv. rewrite lookup_insert_Some. intros [[<- <-]|[Hne Hk']].
    - split; [|right; unfold clean_all; cbn; set_solver].
      destruct (I6 _ _ Ek) as [Hc _]. exact Hc.
    - destruct (I6 _ _ Hk') as [Hc [Hin'|?]]; [|by split; [|right]].
      apply elem_of_cons in Hin' as [->|?]; [done|by split; [|left]]. }
  exists m2. split; [done|]. split; [done|]. split; [done|]. split; [done|]. split; [done|]. split; [done|].
  intros k sv Hk. destruct (Hcl _ _ Hk) as [Hc [Hin|?]]; [|done]. by apply not_elem_of_nil in Hin.
Qed.

(* ---------------------------------------------------------------- phase 6: service subscriptions *)
Lemma MO_svc_fmap O X m (f : svc → svc) :
  (∀ s, s_cookie (f s) = s_cookie s ∧ s_obj_cookie (f s) = s_obj_cookie s ∧ s_calls (f s) = s_calls s ∧
        (svc_own X s → svc_own X (f s))) →
  MO O X m → MO O X (m <| ms; svcs ::= fmap f |>).
Proof.
  intros Hf H. unfold MO in *. mx_frame H.
  - intros k sv. rewrite lookup_fmap_Some. intros (s & <- & Hk).
    destruct (Hreg _ _ Hk) as (o & ? & ?). exists o. split; [done|]. destruct (Hf s) as (_ & -> & _). done.
  - intros k1 k2 s1 s2. rewrite !lookup_fmap_Some. intros (s1' & <- & H1) (s2' & <- & H2) Hc.
    eapply Hus; eauto. destruct (Hf s1') as (<- & _), (Hf s2') as (<- & _). done.
  - intros k sv. rewrite lookup_fmap_Some. intros (s & <- & Hk). apply Hf. eauto.
  - intros b cl Hb. destruct (Hcs _ _ Hb) as (sv & Hsv & Hin). exists (f sv).
    rewrite lookup_fmap, Hsv. split; [done|]. destruct (Hf sv) as (_ & _ & -> & _). done.
  - intros k sv b. rewrite lookup_fmap_Some. intros (s & <- & Hk) Hb.
    destruct (Hf s) as (_ & _ & E & _). rewrite E in Hb. eauto.
Qed.

Lemma sd_subs X c m :
  MX X m → (∀ k sv, svcs (ms m) !! k = Some sv → clean_ev c sv ∧ clean_all c sv) →
  let m' := m <| ms; svcs ::= fmap (fun s => s <| s_subs ::= fun x => x ∖ {[c]} |>) |> in
  MX X m' ∧ own_svc (X ∖ {[c]}) (svcs (ms m')).
Proof.
  intros H Hcl m'. split.
  - unfold MX. cbn. apply MO_svc_fmap; [|done]. intros s. split; [done|]. split; [done|]. split; [done|].
    intros (H1 & H2 & H3). split; [done|]. split; [cbn; set_solver|done].
  - intros k sv. subst m'. cbn. rewrite lookup_fmap_Some. intros (s & <- & Hk).
    destruct (Hcl _ _ Hk) as [C1 C2]. apply svc_own_clean; try done.
    + destruct (iv_os _ _ _ _ _ H _ _ Hk) as (H1 & H2 & H3). split; [done|]. split; [cbn; set_solver|done].
    + unfold clean_subs. cbn. set_solver.
Qed.
