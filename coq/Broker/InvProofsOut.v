(* Broker/InvProofsOut.v — outputs only grow: every function of the machine appends to [mo]
   (needs no invariant).  Used to identify the first output of a step with the handler's reply. *)
From stdpp Require Import gmap list.
From RecordUpdate Require Import RecordSet.
Import RecordSetNotations.
From Aldrin Require Import gen.BrokerConsts Broker.Model Broker.Run.
Local Open Scope N_scope.

Definition grows (m m' : M) : Prop := mo m `prefix_of` mo m'.
Definition ogrows (m : M) (r : outcome M) : Prop :=
  match r with Done m' | Fail m' => grows m m' | Panic _ => True end.

Lemma grows_refl m : grows m m.
Proof. unfold grows. done. Qed.
Lemma grows_trans m1 m2 m3 : grows m1 m2 → grows m2 m3 → grows m1 m3.
Proof. unfold grows. intros. by etrans. Qed.
Lemma grows_eq m m' : mo m' = mo m → grows m m'.
Proof. unfold grows. by intros ->. Qed.
Lemma ogrows_trans m m1 r : grows m m1 → ogrows m1 r → ogrows m r.
Proof. destruct r; cbn; eauto using grows_trans. Qed.

Lemma ogrows_bind m x k : ogrows m x → (∀ m1, ogrows m1 (k m1)) → ogrows m (x >>> k).
Proof. destruct x as [m1|m1|]; cbn; [|done..]. intros H Hk. eapply ogrows_trans; eauto. Qed.

Lemma foldO_ogrows {A} (f : M → A → outcome M) l :
  (∀ m x, ogrows m (f m x)) → ∀ m, ogrows m (foldO f l m).
Proof.
  intros Hf. induction l as [|x l IH]; intros m; cbn; [apply grows_refl|].
  specialize (Hf m x). destruct (f m x) as [m1|m1|]; cbn in *; [|done..].
  eapply ogrows_trans; eauto.
Qed.
Lemma foldl_grows {A} (f : M → A → M) l : (∀ m x, grows m (f m x)) → ∀ m, grows m (foldl f m l).
Proof.
  intros Hf. induction l as [|x l IH]; intros m; cbn; [apply grows_refl|]. eapply grows_trans; eauto.
Qed.
Lemma foldr_grows {A} (f : A → M → M) l : (∀ m x, grows m (f x m)) → ∀ m, grows m (foldr f m l).
Proof.
  intros Hf. induction l as [|x l IH]; intros m; cbn; [apply grows_refl|].
  eapply grows_trans; [apply IH|apply Hf].
Qed.

Lemma send_ogrows m c x from : ogrows m (send m c x from).
Proof.
  unfold send. destruct (conns (ms m) !! c) as [cs|]; [|done]. destruct (cs_alive cs); cbn; [|apply grows_refl].
  unfold grows. cbn. by apply prefix_app_r.
Qed.
Lemma send_or_remove_ogrows m c x from : ogrows m (send_or_remove m c x from).
Proof.
  unfold send_or_remove. pose proof (send_ogrows m c x from) as H. destruct (send m c x from); cbn in *; done.
Qed.
Lemma send_ignore_ogrows m c x from : ogrows m (send_ignore m c x from).
Proof.
  unfold send_ignore. pose proof (send_ogrows m c x from) as H. destruct (send m c x from); cbn in *; done.
Qed.

Ltac og :=
  repeat (first
    [ progress intros
    | apply send_ogrows | apply send_or_remove_ogrows | apply send_ignore_ogrows
    | apply ogrows_bind
    | apply foldO_ogrows
    | match goal with |- ogrows _ (Panic _) => exact I end
    | match goal with |- ogrows _ (Done _) => cbn [ogrows]; apply grows_eq; reflexivity end
    | match goal with |- ogrows _ (Fail _) => cbn [ogrows]; apply grows_eq; reflexivity end
    | match goal with |- ogrows _ (match ?x with _ => _ end) => destruct x end
    | match goal with |- ogrows _ (let _ := _ in _) => cbn zeta end ]).

Lemma remove_listener_mo m k : mo (remove_listener m k) = mo m.
Proof. unfold remove_listener. by destruct (listeners (ms m) !! k). Qed.

Lemma remove_end_ogrows m cookie e : ogrows m (remove_end m cookie e).
Proof.
  unfold remove_end. destruct (chans (ms m) !! cookie); [|apply grows_refl]. cbn zeta.
  destruct (chan_close _ e) as [|ch' o|]; [by apply grows_eq| |done].
  destruct (has _ o); [|by apply grows_eq].
  match goal with |- ogrows _ (send_or_remove ?a _ _ _) => apply (ogrows_trans _ a); [by apply grows_eq|] end.
  apply send_or_remove_ogrows.
Qed.

Lemma remove_service_ogrows m cookie : ogrows m (remove_service m cookie).
Proof.
  unfold remove_service. destruct (svc_by_cookie (ms m) cookie) as [[k s]|]; [|apply grows_refl]. cbn zeta.
  match goal with |- ogrows _ (foldO _ _ ?a >>> _) => apply (ogrows_trans _ a); [|apply ogrows_bind] end.
  - by apply grows_eq.
  - apply foldO_ogrows. intros m' b. destruct (calls (ms m') !! b); [|done]. cbn. apply grows_eq.
    by destruct (c_aborted _).
  - intros m2. cbn. apply grows_eq. cbn. induction (elements _) as [|c l IH]; cbn; [done|].
    destruct (has _ c); done.
Qed.

Lemma remove_object_ogrows m cookie : ogrows m (remove_object m cookie).
Proof.
  unfold remove_object. destruct (obj_by_cookie (ms m) cookie) as [[u o]|]; [|apply grows_refl]. cbn zeta.
  match goal with |- ogrows _ (foldO _ _ ?a >>> _) => apply (ogrows_trans _ a); [|apply ogrows_bind] end.
  - by apply grows_eq.
  - apply foldO_ogrows. intros. apply remove_service_ogrows.
  - intros m2. cbn. by apply grows_eq.
Qed.

Lemma shutdown_conn_ogrows m c sd : ogrows m (shutdown_conn m c sd).
Proof.
  unfold shutdown_conn. destruct (conns (ms m) !! c) as [cs|]; [|apply grows_refl]. cbn zeta.
  match goal with |- ogrows _ (foldO _ _ ?a >>> _) => assert (grows m a) as H0 end.
  { eapply grows_trans; [|apply foldl_grows; intros; apply grows_eq, remove_listener_mo].
    destruct (sd && cs_alive cs); [|by apply grows_eq]. unfold grows. cbn. by apply prefix_app_r. }
  eapply ogrows_trans; [exact H0|]. apply ogrows_bind; [apply foldO_ogrows; intros; apply remove_object_ogrows|].
  intros m3. apply ogrows_bind.
  { apply foldO_ogrows. intros m' k. destruct (svcs (ms m') !! k); [|apply grows_refl].
    destruct (owner_of_svc (ms m') k); [|done]. cbn. apply foldl_grows. intros m'' e.
    destruct (svcs (ms m'') !! k); [|apply grows_refl]. destruct (bool_decide _); by apply grows_eq. }
  intros m4. apply ogrows_bind.
  { apply foldO_ogrows. intros m' k. destruct (svcs (ms m') !! k); [|apply grows_refl].
    destruct (owner_of_svc (ms m') k); [|done]. destruct (bool_decide _); [|apply grows_refl].
    cbn. apply grows_eq. by destruct (bool_decide _). }
  intros m5.
  match goal with |- ogrows _ (foldO _ _ ?a >>> _) => apply (ogrows_trans _ a); [|apply ogrows_bind] end.
  - by apply grows_eq.
  - apply foldO_ogrows. intros m' k. destruct (chans (ms m') !! k) as [ch|]; [|apply grows_refl].
    destruct (ch_s ch); try apply grows_refl. destruct (bool_decide _); [apply remove_end_ogrows|apply grows_refl].
  - intros m7. apply ogrows_bind.
    + apply foldO_ogrows. intros m' k. destruct (chans (ms m') !! k) as [ch|]; [|apply grows_refl].
      destruct (ch_r ch); try apply grows_refl. destruct (bool_decide _); [apply remove_end_ogrows|apply grows_refl].
    + intros m8. cbn. apply grows_eq. cbn. generalize (map_to_list (cs_calls cs)). intros l.
      induction l as [|p l IH]; cbn; done.
Qed.

Lemma guarded_ogrows m c x from : ogrows m (if has m c then send_or_remove m c x from else Done m).
Proof. destruct (has m c); [apply send_or_remove_ogrows|apply grows_refl]. Qed.

Lemma bus_ogrows m ev : ogrows m (bus m ev).
Proof. unfold bus. apply foldO_ogrows. intros. apply guarded_ogrows. Qed.

Lemma abort_call_ogrows m b callee : ogrows m (abort_call m b callee).
Proof.
  unfold abort_call. destruct (calls (ms m) !! b) as [cl|]; [|apply grows_refl].
  destruct (c_aborted cl); [apply grows_refl|]. cbn zeta.
  match goal with |- ogrows _ (?x >>> _) =>
    assert (ogrows m x) as Hx; [|apply ogrows_bind; [exact Hx|]] end.
  - cbn. destruct (conns (ms m) !! callee); [|by apply grows_eq]. destruct (_ <=? _); [|by apply grows_eq].
    match goal with |- ogrows _ (send_or_remove ?a _ _ _) => apply (ogrows_trans _ a); [by apply grows_eq|] end.
    apply send_or_remove_ogrows.
  - intros m2. destruct (conns (ms m2) !! c_caller cl) as [cs|]; [|apply grows_refl].
    destruct (cs_calls cs !! c_serial cl); [|done]. cbn zeta.
    match goal with |- ogrows _ (send_or_remove ?a _ _ _) => apply (ogrows_trans _ a); [by apply grows_eq|] end.
    apply send_or_remove_ogrows.
Qed.

Lemma settle_one_ogrows m r : settle_one m = Some r → ogrows m r.
Proof.
  unfold settle_one.
  destruct (w_remove_conns (mw m)) as [|[c sd] q].
  2:{ intros [= <-]. match goal with |- ogrows _ (shutdown_conn ?a _ _) => apply (ogrows_trans _ a); [by apply grows_eq|] end.
      apply shutdown_conn_ogrows. }
  destruct (w_unsub_ev (mw m)) as [|[[c s] e] q].
  2:{ intros [= <-]. cbn zeta. match goal with |- ogrows _ (if has ?a _ then _ else _) => apply (ogrows_trans _ a); [by apply grows_eq|] end.
      apply guarded_ogrows. }
  destruct (w_unsub_all (mw m)) as [|[c s] q].
  2:{ intros [= <-]. cbn zeta. match goal with |- ogrows _ (if has ?a _ then _ else _) => apply (ogrows_trans _ a); [by apply grows_eq|] end.
      apply guarded_ogrows. }
  destruct (w_svc_destroyed (mw m)) as [|[c s] q].
  2:{ intros [= <-]. cbn zeta. match goal with |- ogrows _ (if has ?a _ then _ else _) => apply (ogrows_trans _ a); [by apply grows_eq|] end.
      apply guarded_ogrows. }
  destruct (w_rm_call (mw m)) as [|[[serial c] result] q].
  2:{ intros [= <-]. cbn. destruct (conns (ms m) !! c) as [cs|]; [|by apply grows_eq].
      destruct (cs_calls cs !! serial); [|done].
      match goal with |- ogrows _ (send_or_remove ?a _ _ _) => apply (ogrows_trans _ a); [by apply grows_eq|] end.
      apply send_or_remove_ogrows. }
  destruct (w_create_obj (mw m)) as [|[u c] q].
  2:{ intros [= <-]. match goal with |- ogrows _ (bus ?a _) => apply (ogrows_trans _ a); [by apply grows_eq|] end.
      apply bus_ogrows. }
  destruct (w_create_svc (mw m)) as [|[[[ou oc] su] sc] q].
  2:{ intros [= <-]. match goal with |- ogrows _ (bus ?a _) => apply (ogrows_trans _ a); [by apply grows_eq|] end.
      apply bus_ogrows. }
  destruct (w_destroy_svc (mw m)) as [|[[[ou oc] su] sc] q].
  2:{ intros [= <-]. match goal with |- ogrows _ (bus ?a _) => apply (ogrows_trans _ a); [by apply grows_eq|] end.
      apply bus_ogrows. }
  destruct (w_destroy_obj (mw m)) as [|[u c] q].
  2:{ intros [= <-]. match goal with |- ogrows _ (bus ?a _) => apply (ogrows_trans _ a); [by apply grows_eq|] end.
      apply bus_ogrows. }
  destruct (w_abort (mw m)) as [|[b callee] q]; [done|].
  intros [= <-]. match goal with |- ogrows _ (abort_call ?a _ _) => apply (ogrows_trans _ a); [by apply grows_eq|] end.
  apply abort_call_ogrows.
Qed.

Lemma settle_ogrows fuel : ∀ m, ogrows m (settle fuel m).
Proof.
  induction fuel as [|fuel IH]; intros m; cbn; pose proof (settle_one_ogrows m) as Hs;
    destruct (settle_one m) as [r|]; try apply grows_refl; specialize (Hs r eq_refl);
    destruct r as [m'|m'|]; cbn in *; try done; eapply ogrows_trans; eauto.
Qed.
