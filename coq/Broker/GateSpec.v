(* Broker/GateSpec.v — the protocol's version table, written with the literal numbers of the
   protocol history (CHANGELOG / core message definitions), independent of the broker's source:
   it is the SPECIFICATION side of C12's gating clauses.  Used by the theorems in
   Broker/GateProofs.v and, extracted, by the correspondence driver as a monitor on the
   implementation's own inputs and outputs (extract/broker_driver.ml). *)
From Aldrin Require Import Broker.Model.
From Coq Require Import NArith.
Local Open Scope N_scope.

(* ================================================================ the tables *)
(* first protocol minor version in which a client may SEND the message to the broker *)
Definition min_version_of (x : msg) : option N :=
  match x with
  | CallFunction2 _ _ _ _ _ => Some 19
  | AbortFunctionCall _ => Some 16
  | RegisterIntrospection | QueryIntrospection _ | QueryIntrospectionReply _
  | CreateService2 _ _ _ _ | QueryServiceInfo _ _ => Some 17
  | SubscribeService _ _ | UnsubscribeService _ | SubscribeAllEvents _ _
  | UnsubscribeAllEvents _ _ => Some 18
  | _ => None
  end.

(* first protocol minor version whose clients understand the message when the broker SENDS it *)
Definition msg_min_version (x : msg) : N :=
  match x with
  | CallFunction2 _ _ _ _ _ => 19
  | AbortFunctionCall _ => 16
  | QueryIntrospectionReply _ | QueryServiceInfoReply _ _ => 17
  | SubscribeServiceReply _ _ | SubscribeAllEvents _ _ | SubscribeAllEventsReply _ _
  | UnsubscribeAllEvents _ _ | UnsubscribeAllEventsReply _ _ => 18
  | _ => 14
  end.

