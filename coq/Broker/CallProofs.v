(* Broker/CallProofs.v — C02 on the abstract broker machine: what one step does with a function
   call, a reply, an abort, and the destruction of the called service.  Facts that come from the
   global consistency invariant are explicit hypotheses, stated as small predicates
   ([call_linked], ...), to be discharged from [Inv]. *)
From stdpp Require Import gmap list.
From RecordUpdate Require Import RecordSet.
Import RecordSetNotations.
From Aldrin Require Import gen.BrokerConsts Broker.Model Broker.Run Broker.OutKinds Broker.EventProofs Broker.SerialAlloc.
From Coq Require Import Lia.
Local Open Scope N_scope.

(* ---------------------------------------------------------------- handler equations *)
(* [x] is a call request the broker accepts from a connection in state [cs] *)
Definition is_call (cs : cstate) (x : msg) (serial : N) (sc : uuid) (fn : N) (fver : option N) (v : payload) : Prop :=
  (x = CallFunction serial sc fn v /\ fver = None) \/
  (x = CallFunction2 serial sc fn fver v /\ 19 <= cs_ver cs).

Lemma handle_call m c cs x serial sc fn fver v f b :
  conns (ms m) !! c = Some cs -> is_call cs x serial sc fn fver v ->
  handle m c x f b = call_impl m c serial sc fn fver v b.
Proof.
  intros H [[-> ->]|[-> Hv]]; unfold handle; rewrite H; [reflexivity|].
  unfold gate, ver_of. rewrite H. cbn [fmap option_fmap option_map].
  destruct (N.ltb_spec (cs_ver cs) MIN_CALL_FUNCTION2) as [Hlt|_]; [|reflexivity].
  exfalso. change MIN_CALL_FUNCTION2 with 19 in Hlt. lia.
Qed.

Lemma handle_CallFunctionReply m c cs serial result f b : conns (ms m) !! c = Some cs ->
  handle m c (CallFunctionReply serial result) f b =
      match calls (ms m) !! serial with
      | None => Done m
      | Some cl =>
          match owner_of_svc (ms m) (c_svc cl), svcs (ms m) !! c_svc cl with
          | Some owner, Some s =>
              if negb (bool_decide (owner = c)) then Done m else
              if negb (bool_decide (serial ∈ s_calls s)) then Panic 24 else
              let m1 := m <| ms; calls ::= delete serial |>
                          <| ms; svcs ::= <[c_svc cl := s <| s_calls ::= fun x => x ∖ {[serial]} |>]> |> in
              if c_aborted cl then Done m1 else
              match conns (ms m1) !! c_caller cl with
              | None => Done m1
              | Some ccs =>
                  match cs_calls ccs !! c_serial cl with
                  | None => Panic 25
                  | Some _ =>
                      let m2 := m1 <| ms; conns ::= <[c_caller cl := ccs <| cs_calls ::= delete (c_serial cl) |>]> |> in
                      send_or_remove m2 (c_caller cl) (CallFunctionReply (c_serial cl) result) (Some (cs_ver cs))
                  end
              end
          | _, _ => Panic 26
          end
      end.
Proof. intros H. unfold handle. rewrite H. reflexivity. Qed.

Lemma handle_AbortFunctionCall m c cs serial f b : conns (ms m) !! c = Some cs ->
  handle m c (AbortFunctionCall serial) f b =
    if cs_ver cs <? MIN_ABORT_FUNCTION_CALL then Fail m else
    match cs_calls cs !! serial with
    | Some p => Done (m <| mw; w_abort ::= cons p |>)
    | None => Done m
    end.
Proof. intros H. unfold handle. rewrite H. unfold gate, ver_of. rewrite H. reflexivity. Qed.

(* ---------------------------------------------------------------- (a) unknown service *)
(* a call to a cookie that names no service: the caller gets InvalidService with its own serial,
   nothing else is output, the state is unchanged *)
Theorem invalid_service s c cs x serial sc fn fver v f b :
  conns s !! c = Some cs -> cs_alive cs = true -> is_call cs x serial sc fn fver v ->
  svc_by_cookie s sc = None ->
  step s (Message c x) f b = Done (s, [(c, CallFunctionReply serial CRInvalidService, None)]).
Proof.
  intros Hc Ha Hx Hs.
  assert (H : handle (m_init s) c x f b =
              Done (m_init s <| mo := [(c, CallFunctionReply serial CRInvalidService, None)] |>)).
  { rewrite (handle_call _ c cs x serial sc fn fver v) by assumption.
    unfold call_impl. cbn [ms m_init]. rewrite Hs. erewrite send_alive by eassumption. reflexivity. }
  apply step_message_idle in H; [exact H|reflexivity].
Qed.

(* ---------------------------------------------------------------- (c) replies *)
(* the state after a delivered reply: the call is forgotten everywhere *)
Definition reply_state (s : state) (b : N) (cl : call) (sv : svc) (ccs : cstate) : state :=
  s <| calls ::= delete b |>
    <| svcs ::= <[c_svc cl := sv <| s_calls ::= fun x => x ∖ {[b]} |>]> |>
    <| conns ::= <[c_caller cl := ccs <| cs_calls ::= delete (c_serial cl) |>]> |>.

(* the owner's reply to a pending, not aborted call of a connected alive caller: exactly one
   output, to the caller, with the caller's serial, the owner's result unchanged, tagged with the
   owner's version; the call is forgotten *)
Theorem reply_routed s o ocs b r cl sv ccs p f bs :
  conns s !! o = Some ocs -> calls s !! b = Some cl ->
  owner_of_svc s (c_svc cl) = Some o -> svcs s !! c_svc cl = Some sv -> b ∈ s_calls sv ->
  c_aborted cl = false ->
  conns s !! c_caller cl = Some ccs -> cs_alive ccs = true -> cs_calls ccs !! c_serial cl = Some p ->
  step s (Message o (CallFunctionReply b r)) f bs =
    Done (reply_state s b cl sv ccs, [(c_caller cl, CallFunctionReply (c_serial cl) r, Some (cs_ver ocs))]).
Proof.
  intros Ho Hcl Hown Hsv Hin Hab Hcc Hal Hp.
  assert (H : handle (m_init s) o (CallFunctionReply b r) f bs =
              Done {| ms := reply_state s b cl sv ccs; mw := work0;
                      mo := [(c_caller cl, CallFunctionReply (c_serial cl) r, Some (cs_ver ocs))] |}).
  { rewrite (handle_CallFunctionReply _ o ocs) by exact Ho. cbn [ms m_init].
    rewrite Hcl, Hown, Hsv. rewrite bool_decide_eq_true_2 by reflexivity. cbn [negb].
    rewrite bool_decide_eq_true_2 by exact Hin. cbn [negb]. rewrite Hab. cbv zeta.
    cbn [ms set]. unfold send_or_remove.
    match goal with |- context [conns ?s !! c_caller cl] => change (conns s) with (conns s) end.
    cbn. rewrite Hcc, Hp. cbn. unfold send. cbn. rewrite lookup_insert. cbn. rewrite Hal. reflexivity. }
  apply step_message_idle in H; [exact H|reflexivity].
Qed.

Corollary reply_routed_forgets s b cl sv ccs :
  calls (reply_state s b cl sv ccs) !! b = None /\
  exists ccs', conns (reply_state s b cl sv ccs) !! c_caller cl = Some ccs' /\
               cs_calls ccs' !! c_serial cl = None /\ cs_ver ccs' = cs_ver ccs /\ cs_alive ccs' = cs_alive ccs.
Proof.
  unfold reply_state. cbn. split; [apply lookup_delete|]. eexists. split; [apply lookup_insert|].
  cbn. split; [apply lookup_delete|]. split; reflexivity.
Qed.

(* replies that are never delivered: unknown broker serial, or from a connection that does not own
   the service: no output, no state change *)
Theorem reply_dropped s o ocs b r f bs :
  conns s !! o = Some ocs ->
  (calls s !! b = None \/
   exists cl owner sv, calls s !! b = Some cl /\ owner_of_svc s (c_svc cl) = Some owner /\
                       svcs s !! c_svc cl = Some sv /\ owner <> o) ->
  step s (Message o (CallFunctionReply b r)) f bs = Done (s, []).
Proof.
  intros Ho Hcase.
  assert (H : handle (m_init s) o (CallFunctionReply b r) f bs = Done (m_init s)).
  { rewrite (handle_CallFunctionReply _ o ocs) by exact Ho. cbn [ms m_init].
    destruct Hcase as [->|(cl & owner & sv & -> & -> & -> & Hne)]; [reflexivity|].
    rewrite bool_decide_eq_false_2 by exact Hne. reflexivity. }
  apply step_message_idle in H; [exact H|reflexivity].
Qed.

(* a second reply for the same broker serial is one for an unknown serial *)
Corollary no_duplicate s o ocs b r cl sv ccs p f bs r' f' bs' ocs' :
  conns s !! o = Some ocs -> calls s !! b = Some cl ->
  owner_of_svc s (c_svc cl) = Some o -> svcs s !! c_svc cl = Some sv -> b ∈ s_calls sv ->
  c_aborted cl = false ->
  conns s !! c_caller cl = Some ccs -> cs_alive ccs = true -> cs_calls ccs !! c_serial cl = Some p ->
  exists s1 o1, step s (Message o (CallFunctionReply b r)) f bs = Done (s1, o1) /\
    (conns s1 !! o = Some ocs' -> step s1 (Message o (CallFunctionReply b r')) f' bs' = Done (s1, [])).
Proof.
  intros Ho Hcl Hown Hsv Hin Hab Hcc Hal Hp. eexists _, _. split.
  - eapply reply_routed; eassumption.
  - intros Ho'. eapply reply_dropped; [exact Ho'|]. left. apply reply_routed_forgets.
Qed.

(* the owner's reply to a call the caller has aborted: the call is forgotten, nothing is output *)
Theorem reply_after_abort s o ocs b r cl sv f bs :
  conns s !! o = Some ocs -> calls s !! b = Some cl ->
  owner_of_svc s (c_svc cl) = Some o -> svcs s !! c_svc cl = Some sv -> b ∈ s_calls sv ->
  c_aborted cl = true ->
  step s (Message o (CallFunctionReply b r)) f bs =
    Done (s <| calls ::= delete b |> <| svcs ::= <[c_svc cl := sv <| s_calls ::= fun x => x ∖ {[b]} |>]> |>, []).
Proof.
  intros Ho Hcl Hown Hsv Hin Hab.
  assert (H : handle (m_init s) o (CallFunctionReply b r) f bs =
              Done {| ms := s <| calls ::= delete b |> <| svcs ::= <[c_svc cl := sv <| s_calls ::= fun x => x ∖ {[b]} |>]> |>;
                      mw := work0; mo := [] |}).
  { rewrite (handle_CallFunctionReply _ o ocs) by exact Ho. cbn [ms m_init].
    rewrite Hcl, Hown, Hsv. rewrite bool_decide_eq_true_2 by reflexivity. cbn [negb].
    rewrite bool_decide_eq_true_2 by exact Hin. cbn [negb]. rewrite Hab. reflexivity. }
  apply step_message_idle in H; [exact H|reflexivity].
Qed.

(* ---------------------------------------------------------------- (b) forwarding a call *)
Definition call_state (s : state) (c : conn) (cs : cstate) (serial : N) (k : uuid * uuid) (sv : svc)
  (b nxt : N) (callee : conn) : state :=
  s <| next := nxt |>
    <| calls ::= <[b := {| c_caller := c; c_serial := serial; c_svc := k; c_aborted := false |}]> |>
    <| conns ::= <[c := cs <| cs_calls ::= <[serial := (b, callee)]> |>]> |>
    <| svcs ::= <[k := sv <| s_calls ::= fun x => {[b]} ∪ x |>]> |>.

(* the request as the callee receives it: CallFunction2 from protocol version 19 on, else
   CallFunction (which has no field for the caller's service version) *)
Definition forwarded_msg (callee_ver b : N) (sc : uuid) (fn : N) (fver : option N) (v : payload) : msg :=
  if 19 <=? callee_ver then CallFunction2 b sc fn fver v else CallFunction b sc fn v.

(* the broker-side serial under the legality condition of Run.v *)
Lemma pick_serial_legal s i : next s < 4294967296 -> legal s i ->
  exists b nxt, pick_serial s (i_bserial i) = Some (b, nxt) /\ sm_choice s = Some (b, nxt) /\
                calls s !! b = None /\ b < 4294967296.
Proof.
  intros Hn (_ & _ & [Hsz H] & _). destruct (sm_choice_is_Some s Hn Hsz) as [[b nxt] Hc].
  destruct (sm_choice_Some s b nxt Hn Hc) as (Hv & Hb & _).
  exists b, nxt. split; [|done]. apply pick_serial_Some. split; [done|].
  destruct (i_bserial i) as [b'|]; [|by left]. right. destruct H as [nxt' H]. congruence.
Qed.

(* a call to a live service from a connection whose serial is not pending: the call is stored
   under the broker serial, and the service's owner gets exactly one request, in the form of ITS
   protocol version, function and payload unchanged, tagged with the caller's version *)
Theorem call_forwarded s c cs x serial sc fn fver v f bs k sv callee ccs b nxt :
  conns s !! c = Some cs -> is_call cs x serial sc fn fver v ->
  svc_by_cookie s sc = Some (k, sv) -> owner_of_svc s k = Some callee ->
  conns s !! callee = Some ccs -> cs_alive ccs = true ->
  pick_serial s bs = Some (b, nxt) -> cs_calls cs !! serial = None ->
  step s (Message c x) f bs =
    Done (call_state s c cs serial k sv b nxt callee,
          [(callee, forwarded_msg (cs_ver ccs) b sc fn fver v, Some (cs_ver cs))]).
Proof.
  intros Hc Hx Hs Ho Hcc Hal Hp Hser.
  pose proof (svc_by_cookie_Some _ _ _ _ Hs) as [Hsv _].
  assert (H : handle (m_init s) c x f bs =
              Done {| ms := call_state s c cs serial k sv b nxt callee; mw := work0;
                      mo := [(callee, forwarded_msg (cs_ver ccs) b sc fn fver v, Some (cs_ver cs))] |}).
  { rewrite (handle_call _ c cs x serial sc fn fver v) by assumption.
    unfold call_impl. cbn [ms m_init]. rewrite Hs, Ho, Hc, Hp.
    rewrite bool_decide_eq_false_2 by (rewrite Hser; intros [? ?]; discriminate).
    cbn [ms set]. cbn. rewrite Hsv, Hcc. unfold forwarded_msg.
    change MIN_CALL_FUNCTION2_OUT with 19.
    assert (Hlk : exists ccs', conns (call_state s c cs serial k sv b nxt callee) !! callee = Some ccs' /\ cs_alive ccs' = true).
    { unfold call_state. cbn. destruct (decide (callee = c)) as [->|Hne].
      - rewrite lookup_insert. eexists; split; [reflexivity|]. cbn. congruence.
      - rewrite lookup_insert_ne by congruence. eauto. }
    destruct Hlk as (ccs' & Hlk1 & Hlk2).
    destruct (19 <=? cs_ver ccs); unfold send_or_remove; erewrite send_alive by (cbn; eassumption); reflexivity. }
  apply step_message_idle in H; [exact H|reflexivity].
Qed.

Corollary call_forwarded_stored s c cs serial k sv b nxt callee :
  let s' := call_state s c cs serial k sv b nxt callee in
  calls s' !! b = Some {| c_caller := c; c_serial := serial; c_svc := k; c_aborted := false |} /\
  (exists cs', conns s' !! c = Some cs' /\ cs_calls cs' !! serial = Some (b, callee) /\
               cs_ver cs' = cs_ver cs /\ cs_alive cs' = cs_alive cs) /\
  (exists sv', svcs s' !! k = Some sv' /\ b ∈ s_calls sv').
Proof.
  unfold call_state. cbn. split; [apply lookup_insert|]. split.
  - eexists. split; [apply lookup_insert|]. cbn. split; [apply lookup_insert|]. split; reflexivity.
  - eexists. split; [apply lookup_insert|]. cbn. apply elem_of_union_l, elem_of_singleton. reflexivity.
Qed.

(* a caller serial that is still pending: the handler fails (the step then removes the caller) *)
Theorem call_duplicate_serial_fails s c cs x serial sc fn fver v f bs k sv callee b nxt p :
  conns s !! c = Some cs -> is_call cs x serial sc fn fver v ->
  svc_by_cookie s sc = Some (k, sv) -> owner_of_svc s k = Some callee ->
  pick_serial s bs = Some (b, nxt) -> cs_calls cs !! serial = Some p ->
  handle (m_init s) c x f bs = Fail (m_init s <| ms; next := nxt |>).
Proof.
  intros Hc Hx Hs Ho Hp Hser.
  rewrite (handle_call _ c cs x serial sc fn fver v) by assumption.
  unfold call_impl. cbn [ms m_init]. rewrite Hs, Ho, Hc, Hp.
  rewrite bool_decide_eq_true_2 by (rewrite Hser; eauto). reflexivity.
Qed.

(* ---------------------------------------------------------------- (d) abort *)
Lemma fuel_for_S s : exists n, fuel_for s = S n.
Proof. unfold fuel_for. eexists. cbn [Nat.add]. reflexivity. Qed.

(* what the callee of an aborted call is told: AbortFunctionCall, if it is connected with
   protocol version 16 or later *)
Definition abort_notice (s : state) (callee : conn) (b : N) : list out :=
  match conns s !! callee with
  | Some ccs => if 16 <=? cs_ver ccs then [(callee, AbortFunctionCall b, None)] else []
  | None => []
  end.

(* AbortFunctionCall from the caller of a pending call ([calls s !! b] agrees with the caller's
   entry — an invariant fact, here a hypothesis): the caller gets exactly one reply Aborted with
   its serial, the callee is told iff its version allows, the call stays stored, marked aborted *)
Theorem abort_step s c cs serial b callee cl f bs :
  conns s !! c = Some cs -> cs_alive cs = true -> 16 <= cs_ver cs ->
  cs_calls cs !! serial = Some (b, callee) ->
  calls s !! b = Some cl -> c_caller cl = c -> c_serial cl = serial -> c_aborted cl = false ->
  (forall ccs, conns s !! callee = Some ccs -> 16 <= cs_ver ccs -> cs_alive ccs = true) ->
  step s (Message c (AbortFunctionCall serial)) f bs =
    Done (s <| calls ::= <[b := cl <| c_aborted := true |>]> |>
            <| conns ::= <[c := cs <| cs_calls ::= delete serial |>]> |>,
          abort_notice s callee b ++ [(c, CallFunctionReply serial CRAborted, None)]).
Proof.
  intros Hc Hal Hv Hser Hcl Hcaller Hserial Hab Hcallee.
  rewrite step_unfold. cbn [step_handler]. fold (m_init s).
  rewrite (handle_AbortFunctionCall _ c cs) by exact Hc.
  destruct (N.ltb_spec (cs_ver cs) MIN_ABORT_FUNCTION_CALL) as [Hlt|_];
    [exfalso; change MIN_ABORT_FUNCTION_CALL with 16 in Hlt; lia|].
  rewrite Hser.
  destruct (fuel_for_S ((m_init s <| mw; w_abort ::= cons (b, callee) |>))) as (n & ->).
  cbn [settle]. unfold settle_one. cbn [mw m_init set work0 w_remove_conns w_unsub_ev w_unsub_all
    w_svc_destroyed w_rm_call w_create_obj w_create_svc w_destroy_svc w_destroy_obj w_abort]. cbn.
  unfold abort_call. cbn. rewrite Hcl, Hab. cbn. subst c serial.
  unfold abort_notice. change MIN_ABORT_FUNCTION_CALL_OUT with 16.
  destruct (conns s !! callee) as [ccs|] eqn:Hcc.
  - destruct (N.leb_spec 16 (cs_ver ccs)) as [Hge|Hlt].
    + erewrite send_or_remove_alive; [|cbn; exact Hcc|apply Hcallee; [reflexivity|exact Hge]].
      cbn. rewrite Hc, Hser. erewrite send_or_remove_alive; [|cbn; apply lookup_insert|exact Hal].
      cbn. rewrite settle_idle by reflexivity. reflexivity.
    + cbn. rewrite Hc, Hser. erewrite send_or_remove_alive; [|cbn; apply lookup_insert|exact Hal].
      cbn. rewrite settle_idle by reflexivity. reflexivity.
  - cbn. rewrite Hc, Hser. erewrite send_or_remove_alive; [|cbn; apply lookup_insert|exact Hal].
    cbn. rewrite settle_idle by reflexivity. reflexivity.
Qed.

(* ... and the owner's reply that arrives later finds the call marked aborted: no output *)
Corollary abort_then_reply s c cs serial b callee cl f bs o ocs sv r f' bs' :
  conns s !! c = Some cs -> cs_alive cs = true -> 16 <= cs_ver cs ->
  cs_calls cs !! serial = Some (b, callee) ->
  calls s !! b = Some cl -> c_caller cl = c -> c_serial cl = serial -> c_aborted cl = false ->
  (forall ccs, conns s !! callee = Some ccs -> 16 <= cs_ver ccs -> cs_alive ccs = true) ->
  exists s1 o1, step s (Message c (AbortFunctionCall serial)) f bs = Done (s1, o1) /\
    (conns s1 !! o = Some ocs -> owner_of_svc s1 (c_svc cl) = Some o -> svcs s1 !! c_svc cl = Some sv ->
     b ∈ s_calls sv ->
     exists s2, step s1 (Message o (CallFunctionReply b r)) f' bs' = Done (s2, []) /\ calls s2 !! b = None).
Proof.
  intros Hc Hal Hv Hser Hcl Hcaller Hserial Hab Hcallee. eexists _, _. split.
  - eapply abort_step; eassumption.
  - intros Ho Hown Hsv Hin. eexists. split.
    + eapply (reply_after_abort _ o ocs b r (cl <| c_aborted := true |>)); try eassumption.
      * cbn. apply lookup_insert.
      * reflexivity.
    + cbn. apply lookup_delete.
Qed.

(* ---------------------------------------------------------------- (e) the service is destroyed *)
(* which replies [remove_service] queues: InvalidService for exactly the non-aborted calls of the
   service; the calls themselves are deleted (all of them, aborted or not) *)
Theorem destroyed_calls m cookie k sv m' :
  svc_by_cookie (ms m) cookie = Some (k, sv) -> remove_service m cookie = Done m' ->
  (forall b, b ∈ s_calls sv -> calls (ms m') !! b = None) /\
  (forall b, b ∉ s_calls sv -> calls (ms m') !! b = calls (ms m) !! b) /\
  (exists new, w_rm_call (mw m') = new ++ w_rm_call (mw m) /\
     length new = length (List.filter (fun b => match calls (ms m) !! b with Some cl => negb (c_aborted cl) | None => false end)
                                      (elements (s_calls sv))) /\
     forall serial c r, (serial, c, r) ∈ new <->
       r = CRInvalidService /\
       exists b cl, b ∈ s_calls sv /\ calls (ms m) !! b = Some cl /\ c_aborted cl = false /\
                    c_serial cl = serial /\ c_caller cl = c) /\
  conns (ms m') = conns (ms m) /\ mo m' = mo m.
Proof.
  intros Hs Hr. destruct (remove_service_spec _ _ _ _ _ Hs Hr) as (_ & H2 & H3 & _ & _ & H6 & _).
  split; [|split; [|split; [|split]]].
  - intros b Hb. rewrite H2, bool_decide_eq_true_2 by exact Hb. reflexivity.
  - intros b Hb. rewrite H2, bool_decide_eq_false_2 by exact Hb. reflexivity.
  - eexists. split; [exact H3|]. split.
    + rewrite rev_length. generalize (elements (s_calls sv)). intros l. induction l as [|b l IH]; cbn; [reflexivity|].
      unfold rm_call_entry at 1. destruct (calls (ms m) !! b) as [cl|]; [|exact IH].
      destruct (c_aborted cl); cbn; [exact IH|]. rewrite IH. reflexivity.
    + intros serial c r. rewrite elem_of_list_In, <- in_rev, <- elem_of_list_In, elem_of_list_omap. split.
      * intros (b & Hb & He). unfold rm_call_entry in He. destruct (calls (ms m) !! b) as [cl|] eqn:Ecl; [|discriminate].
        destruct (c_aborted cl) eqn:Eab; [discriminate|]. injection He as <- <- <-. split; [reflexivity|].
        exists b, cl. apply elem_of_elements in Hb. auto.
      * intros (-> & b & cl & Hb & Ecl & Eab & <- & <-). exists b. split; [apply elem_of_elements, Hb|].
        unfold rm_call_entry. rewrite Ecl, Eab. reflexivity.
  - rewrite H6. reflexivity.
  - rewrite H6. reflexivity.
Qed.

(* the work loop turns a queued entry into exactly one reply to a connected caller and forgets the
   caller's serial; for a caller that is gone the entry is dropped *)
Lemma settle_one_rm_call m serial c r rest :
  w_remove_conns (mw m) = [] -> w_unsub_ev (mw m) = [] -> w_unsub_all (mw m) = [] ->
  w_svc_destroyed (mw m) = [] -> w_rm_call (mw m) = (serial, c, r) :: rest ->
  settle_one m =
    Some (let m := m <| mw; w_rm_call := rest |> in
          match conns (ms m) !! c with
          | None => Done m
          | Some cs =>
              match cs_calls cs !! serial with
              | None => Panic 15
              | Some _ =>
                  let m' := m <| ms; conns ::= <[c := cs <| cs_calls ::= delete serial |>]> |> in
                  send_or_remove m' c (CallFunctionReply serial r) None
              end
          end).
Proof. intros H1 H2 H3 H4 H5. unfold settle_one. rewrite H1, H2, H3, H4, H5. reflexivity. Qed.

Theorem settle_one_rm_call_alive m serial c r rest cs p :
  w_remove_conns (mw m) = [] -> w_unsub_ev (mw m) = [] -> w_unsub_all (mw m) = [] ->
  w_svc_destroyed (mw m) = [] -> w_rm_call (mw m) = (serial, c, r) :: rest ->
  conns (ms m) !! c = Some cs -> cs_alive cs = true -> cs_calls cs !! serial = Some p ->
  settle_one m =
    Some (Done (m <| mw; w_rm_call := rest |>
                  <| ms; conns ::= <[c := cs <| cs_calls ::= delete serial |>]> |>
                  <| mo := mo m ++ [(c, CallFunctionReply serial r, None)] |>)).
Proof.
  intros H1 H2 H3 H4 H5 Hc Ha Hp. rewrite (settle_one_rm_call m serial c r rest) by assumption. cbv zeta.
  cbn [ms set]. rewrite Hc, Hp.
  erewrite send_or_remove_alive; [reflexivity|cbn; apply lookup_insert|exact Ha].
Qed.

Theorem settle_one_rm_call_gone m serial c r rest :
  w_remove_conns (mw m) = [] -> w_unsub_ev (mw m) = [] -> w_unsub_all (mw m) = [] ->
  w_svc_destroyed (mw m) = [] -> w_rm_call (mw m) = (serial, c, r) :: rest ->
  conns (ms m) !! c = None ->
  settle_one m = Some (Done (m <| mw; w_rm_call := rest |>)).
Proof.
  intros H1 H2 H3 H4 H5 Hc. rewrite (settle_one_rm_call m serial c r rest) by assumption. cbv zeta.
  cbn [ms set]. rewrite Hc. reflexivity.
Qed.

(* ---------------------------------------------------------------- (f) at most one reply per step *)
(* a potential argument: [weight] = replies with serial [s0] already output to [c0] + 1 if [s0] is
   still pending at [c0].  No function of the work loop and no handler (except the immediate
   InvalidService answer, treated separately) increases it: every reply the broker makes up or
   forwards is paired with the removal of the serial from the caller's pending map. *)
Definition is_rep (c0 : conn) (s0 : N) (o : out) : bool := is_reply_to s0 o.1.2 && bool_decide (o.1.1 = c0).
Definition nrep (c0 : conn) (s0 : N) (l : list out) : nat := length (List.filter (is_rep c0 s0) l).
Definition pend (c0 : conn) (s0 : N) (s : state) : nat :=
  match conns s !! c0 with
  | Some cs => if bool_decide (is_Some (cs_calls cs !! s0)) then 1 else 0
  | None => 0
  end.
Definition weight (c0 : conn) (s0 : N) (m : M) : nat := (nrep c0 s0 (mo m) + pend c0 s0 (ms m))%nat.
Definition Pot (c0 : conn) (s0 : N) (n : nat) (m : M) : Prop := (weight c0 s0 m <= n)%nat.

(* the count in the vocabulary of Run.v *)
Lemma nrep_outs_to c0 s0 l : nrep c0 s0 l = length (List.filter (is_reply_to s0) (outs_to c0 l)).
Proof.
  unfold nrep, outs_to. induction l as [|o l IH]; cbn; [reflexivity|]. unfold is_rep at 1.
  destruct (bool_decide (o.1.1 = c0)); cbn; [|rewrite andb_false_r; exact IH].
  rewrite andb_true_r. destruct (is_reply_to s0 o.1.2); cbn; rewrite IH; reflexivity.
Qed.

Lemma nrep_app c0 s0 l1 l2 : nrep c0 s0 (l1 ++ l2) = (nrep c0 s0 l1 + nrep c0 s0 l2)%nat.
Proof. unfold nrep. rewrite list_filter_app, app_length. reflexivity. Qed.

Lemma pend_le_1 c0 s0 s : (pend c0 s0 s <= 1)%nat.
Proof. unfold pend. destruct (conns s !! c0) as [cs|]; [destruct (bool_decide _)|]; lia. Qed.

Lemma Pot_snoc_other c0 s0 n m o m' :
  is_rep c0 s0 o = false -> mo m' = mo m ++ [o] -> ms m' = ms m -> Pot c0 s0 n m -> Pot c0 s0 n m'.
Proof.
  unfold Pot, weight. intros Ho Hm Hs H. rewrite Hm, Hs, nrep_app. unfold nrep at 2. cbn. rewrite Ho. cbn. lia.
Qed.

Lemma Pot_conns_delete c0 s0 n m c m' :
  mo m' = mo m -> conns (ms m') = delete c (conns (ms m)) -> Pot c0 s0 n m -> Pot c0 s0 n m'.
Proof.
  unfold Pot, weight, pend. intros Hm Hs H. rewrite Hm, Hs. destruct (decide (c0 = c)) as [->|Hne].
  - rewrite lookup_delete. lia.
  - rewrite lookup_delete_ne by congruence. exact H.
Qed.

(* the paired step: the serial leaves the caller's pending map, the reply may be appended *)
Lemma Pot_reply c0 s0 n m c cs serial p r from m' (sent : bool) :
  conns (ms m) !! c = Some cs -> cs_calls cs !! serial = Some p ->
  conns (ms m') = <[c := cs <| cs_calls ::= delete serial |>]> (conns (ms m)) ->
  mo m' = mo m ++ (if sent then [(c, CallFunctionReply serial r, from)] else []) ->
  Pot c0 s0 n m -> Pot c0 s0 n m'.
Proof.
  unfold Pot, weight, pend. intros Hc Hp Hs Hm H. rewrite Hm, Hs, nrep_app.
  destruct (decide (c = c0)) as [->|Hne].
  - rewrite lookup_insert. rewrite Hc in H. cbn [cs_calls set].
    destruct (decide (serial = s0)) as [->|Hns].
    + rewrite lookup_delete. rewrite (bool_decide_eq_true_2 (is_Some (cs_calls cs !! s0))) in H by (rewrite Hp; eauto).
      rewrite (bool_decide_eq_false_2 (is_Some None)) by (intros [? ?]; discriminate).
      assert (nrep c0 s0 (if sent then [(c0, CallFunctionReply s0 r, from)] else []) <= 1)%nat by (destruct sent; unfold nrep; cbn; [destruct (is_rep _ _ _); cbn|]; lia).
      lia.
    + rewrite lookup_delete_ne by congruence.
      assert (E : nrep c0 s0 (if sent then [(c0, CallFunctionReply serial r, from)] else []) = 0%nat).
      { destruct sent; [|reflexivity]. unfold nrep, is_rep. cbn.
        rewrite (bool_decide_eq_false_2 (serial = s0)) by exact Hns. reflexivity. }
      rewrite E. lia.
  - rewrite lookup_insert_ne by congruence.
    assert (E : nrep c0 s0 (if sent then [(c, CallFunctionReply serial r, from)] else []) = 0%nat).
    { destruct sent; [|reflexivity]. unfold nrep, is_rep. cbn. rewrite (bool_decide_eq_false_2 (c = c0)) by exact Hne.
      rewrite andb_false_r. reflexivity. }
    rewrite E. lia.
Qed.

(* leaf tactic for [Pot]: convertible, or a non-reply output appended, or the paired reply step *)
Ltac leaf_pot :=
  idtac;
  first
    [ match goal with H : Pot ?c ?s ?n ?m |- Pot ?c ?s ?n _ => exact H end
    | match goal with |- Pot ?c ?s ?n (set mo _ ?x) =>
        eapply (Pot_snoc_other c s n x); [|reflexivity|reflexivity|leaf_pot]; reflexivity end
    | match goal with |- Pot ?c ?s ?n (set mo _ (set _ _ ?x)) =>
        eapply (Pot_reply c s n x _ _ _ _ _ _ _ true); [eassumption|eassumption|reflexivity|reflexivity|leaf_pot] end
    | match goal with |- Pot ?c ?s ?n (push_remove (set _ _ ?x) _ _) =>
        eapply (Pot_reply c s n x _ _ _ _ CRAborted None _ false);
        [eassumption|eassumption|reflexivity|cbn; rewrite app_nil_r; reflexivity|leaf_pot] end
    | match goal with |- ?P (push_remove ?x _ _) => change (P x) end
    | match goal with |- ?P (set _ _ ?x) => change (P x) end ].

Section PotTraversal.
  Context (c0 : conn) (s0 : N) (n : nat).
  Local Notation P := (Pot c0 s0 n).

  Lemma remove_end_pot m k e : P m -> oprop P (remove_end m k e).
  Proof. intros H. unfold remove_end. repeat prop_step leaf_pot. Qed.

  Lemma remove_service_pot m k : P m -> oprop P (remove_service m k).
  Proof. intros H. unfold remove_service. repeat prop_step leaf_pot. Qed.

  Lemma remove_object_pot m k : P m -> oprop P (remove_object m k).
  Proof.
    intros H. unfold remove_object.
    repeat first [ match goal with |- oprop _ (remove_service _ _) => apply remove_service_pot end
                 | prop_step leaf_pot ]; assumption.
  Qed.

  Lemma remove_listener_pot m k : P m -> P (remove_listener m k).
  Proof. intros H. unfold remove_listener. destruct (listeners (ms m) !! k); exact H. Qed.

  Lemma bus_pot m ev : P m -> oprop P (bus m ev).
  Proof. intros H. unfold bus. repeat prop_step leaf_pot. Qed.

  Lemma shutdown_conn_pot m c sd : P m -> oprop P (shutdown_conn m c sd).
  Proof.
    intros H. unfold shutdown_conn. destruct (conns (ms m) !! c) as [cs|] eqn:Hc; [|exact H].
    set (m1 := if sd && cs_alive cs then _ else _).
    assert (H1 : P m1).
    { assert (H0 : P (m <| ms; conns ::= delete c |>)) by (eapply Pot_conns_delete; [| |exact H]; reflexivity).
      subst m1. destruct (sd && cs_alive cs); [|exact H0].
      eapply Pot_snoc_other; [|reflexivity|reflexivity|exact H0]; reflexivity. }
    clearbody m1.
    repeat first
      [ match goal with
        | |- oprop _ (remove_object _ _) => apply remove_object_pot
        | |- oprop _ (remove_end _ _ _) => apply remove_end_pot
        | |- Pot _ _ _ (remove_listener _ _) => apply remove_listener_pot
        end
      | prop_step leaf_pot ]; assumption.
  Qed.

  Lemma abort_call_pot m b callee : P m -> oprop P (abort_call m b callee).
  Proof. intros H. unfold abort_call. repeat prop_step leaf_pot. Qed.
End PotTraversal.

Section PotSettle.
  Context (c0 : conn) (s0 : N) (n : nat).
  Local Notation P := (Pot c0 s0 n).

  Lemma settle_one_pot m r : P m -> settle_one m = Some r -> oprop P r.
  Proof.
    intros H. unfold settle_one.
    repeat match goal with
           | |- match ?l with [] => _ | _ :: _ => _ end = Some _ -> _ => destruct l as [|? ?]
           | |- (let '(_, _) := ?p in _) = Some _ -> _ => destruct p
           end; try discriminate; intros [= <-];
      repeat first
        [ match goal with
          | |- oprop _ (shutdown_conn _ _ _) => apply shutdown_conn_pot
          | |- oprop _ (abort_call _ _ _) => apply abort_call_pot
          | |- oprop _ (bus _ _) => apply bus_pot
          end
        | prop_step leaf_pot ]; try exact H.
  Qed.

  Lemma settle_pot fuel : forall m, P m -> oprop P (settle fuel m).
  Proof.
    induction fuel as [|fuel IH]; intros m H; cbn [settle];
      destruct (settle_one m) as [r|] eqn:E; try exact H;
      pose proof (settle_one_pot m r H E) as Hr; destruct r; cbn in Hr |- *; trivial; apply IH; assumption.
  Qed.
End PotSettle.

(* the handlers *)
Ltac hp_step :=
  first
    [ match goal with
      | |- oprop _ (remove_object _ _) => apply remove_object_pot
      | |- oprop _ (remove_service _ _) => apply remove_service_pot
      | |- oprop _ (remove_end _ _ _) => apply remove_end_pot
      | |- Pot _ _ _ (remove_listener _ _) => apply remove_listener_pot
      end
    | prop_step leaf_pot ].

Lemma oprop_refail (P : M -> Prop) r :
  oprop P r -> oprop P (match r with Done m3 => Fail m3 | Fail a => Fail a | Panic site => Panic site end).
Proof. destruct r; exact id. Qed.

(* every handler except the two call requests keeps the potential *)
Lemma handle_pot c0 s0 n m c x f b :
  (match x with CallFunction _ _ _ _ | CallFunction2 _ _ _ _ _ => False | _ => True end) ->
  Pot c0 s0 n m -> oprop (Pot c0 s0 n) (handle m c x f b).
Proof.
  intros Hx H. unfold handle. destruct (conns (ms m) !! c) as [cs|] eqn:Hc; [|exact H].
  destruct x; try contradiction; clear Hx;
    unfold gate, ver_of, create_service_impl; cbv zeta beta; try (rewrite Hc; cbn [fmap option_fmap option_map]);
    try (solve [repeat hp_step; try assumption]).
  (* ClaimChannelEnd: the reply's failure is returned after the other end's owner was told *)
  match goal with |- context [chans (ms m) !! ?k] => destruct (chans (ms m) !! k) as [ch|] end;
    [|repeat hp_step; assumption].
  match goal with |- context [chan_claim ch c ?e] => destruct (chan_claim ch c e) as [r|ch' other r|site] end;
    [repeat hp_step; assumption| |exact I].
  match goal with |- context [send ?mm c ?x None] => destruct (send mm c x None) as [m2|m2|] eqn:Es end; [| |exact I].
  - apply send_Done in Es as [-> _]. repeat hp_step; assumption.
  - apply send_Fail in Es as [-> _]. apply oprop_refail. repeat hp_step; assumption.
Qed.

(* the call requests: either no reply is output at all, or exactly the immediate InvalidService
   answer, and then nothing is left to do for the work loop *)
Lemma call_impl_post c0 s0 s c serial sc fn fver v bs :
  match call_impl (m_init s) c serial sc fn fver v bs with
  | Done m => nrep c0 s0 (mo m) = 0%nat \/ ((nrep c0 s0 (mo m) <= 1)%nat /\ mw m = work0)
  | Fail m => nrep c0 s0 (mo m) = 0%nat
  | Panic _ => True
  end.
Proof.
  unfold call_impl. cbn [ms m_init]. destruct (svc_by_cookie s sc) as [[k sv]|].
  - destruct (owner_of_svc s k) as [callee|]; [|exact I].
    destruct (conns s !! c) as [cs|]; [|left; reflexivity].
    destruct (pick_serial s bs) as [[b nxt]|]; [|exact I].
    destruct (bool_decide (is_Some (cs_calls cs !! serial))); [reflexivity|].
    cbn [ms set]. destruct (svcs _ !! k) as [sv'|]; [|exact I].
    destruct (conns _ !! callee) as [ccs|]; [|exact I].
    destruct (MIN_CALL_FUNCTION2_OUT <=? cs_ver ccs);
      (match goal with |- match send_or_remove ?m ?d ?x ?fr with _ => _ end =>
         unfold send_or_remove, send; destruct (conns (ms m) !! d) as [dcs|]; [|exact I];
         destruct (cs_alive dcs); left; reflexivity end).
  - unfold send. cbn [ms m_init]. destruct (conns s !! c) as [cs|]; [|exact I].
    destruct (cs_alive cs); [|reflexivity]. right. split; [|reflexivity].
    cbn. unfold nrep. cbn. destruct (is_rep _ _ _); cbn; lia.
Qed.

Lemma handle_call_post c0 s0 s c x f bs :
  (match x with CallFunction _ _ _ _ | CallFunction2 _ _ _ _ _ => True | _ => False end) ->
  match handle (m_init s) c x f bs with
  | Done m => nrep c0 s0 (mo m) = 0%nat \/ ((nrep c0 s0 (mo m) <= 1)%nat /\ mw m = work0)
  | Fail m => nrep c0 s0 (mo m) = 0%nat
  | Panic _ => True
  end.
Proof.
  intros Hx. unfold handle. cbn [ms m_init]. destruct (conns s !! c) as [cs|] eqn:Hc; [|left; reflexivity].
  destruct x; try contradiction.
  - apply call_impl_post.
  - unfold gate, ver_of. cbn [ms m_init]. rewrite Hc. cbn [fmap option_fmap option_map].
    destruct (cs_ver cs <? MIN_CALL_FUNCTION2); [reflexivity|]. apply call_impl_post.
Qed.

(* C02_at_most_once: in one step of the broker, whatever the event, a connection receives at most
   one reply with a given serial.  No hypothesis is needed: pending serials of a connection are
   distinct because they are the keys of a finite map. *)
Theorem at_most_once s e f bs s' o c0 s0 :
  step s e f bs = Done (s', o) -> (nrep c0 s0 o <= 1)%nat.
Proof.
  intros Hstep. apply step_Done in Hstep as (m & m' & Hh & Hs & -> & ->).
  assert (Hpost : Pot c0 s0 1 m \/ ((nrep c0 s0 (mo m) <= 1)%nat /\ mw m = work0)).
  { assert (Hinit : forall s1, mo s1 = [] -> Pot c0 s0 1 s1).
    { intros s1 E. unfold Pot, weight. rewrite E. pose proof (pend_le_1 c0 s0 (ms s1)). cbn. lia. }
    destruct e; cbn [step_handler] in Hh.
    - destruct (conns s !! c); [discriminate|]. injection Hh as <-. left. apply Hinit. reflexivity.
    - injection Hh as <-. left. apply Hinit. reflexivity.
    - fold (m_init s) in Hh.
      assert (Hcase : (match m0 with CallFunction _ _ _ _ | CallFunction2 _ _ _ _ _ => True | _ => False end) \/
                      (match m0 with CallFunction _ _ _ _ | CallFunction2 _ _ _ _ _ => False | _ => True end))
        by (destruct m0; auto).
      destruct Hcase as [Hcall|Hother].
      + pose proof (handle_call_post c0 s0 s c m0 f bs Hcall) as Hp.
        destruct (handle (m_init s) c m0 f bs) as [m1|m1|]; try discriminate; injection Hh as <-.
        * destruct Hp as [Hp|Hp]; [left|right; exact Hp].
          unfold Pot, weight. rewrite Hp. pose proof (pend_le_1 c0 s0 (ms m1)). lia.
        * left. change (Pot c0 s0 1 m1). unfold Pot, weight. rewrite Hp. pose proof (pend_le_1 c0 s0 (ms m1)). lia.
      + pose proof (handle_pot c0 s0 1 (m_init s) c m0 f bs Hother (Hinit (m_init s) eq_refl)) as Hp.
        destruct (handle (m_init s) c m0 f bs) as [m1|m1|]; try discriminate; injection Hh as <-; left; exact Hp.
    - injection Hh as <-. left. apply Hinit. cbn.
      generalize (map_to_list (conns s)). intros l. induction l as [|p l IH]; [reflexivity|exact IH].
    - injection Hh as <-. left. apply Hinit. reflexivity.
    - injection Hh as <-. left. apply Hinit. reflexivity.
    - injection Hh as <-. left. apply Hinit. destruct (conns s !! c); reflexivity. }
  destruct Hpost as [Hp|[Hn Hw]].
  - pose proof (settle_pot c0 s0 1 (fuel_for m) m Hp) as Hsp.
    destruct Hs as [Hs|Hs]; rewrite Hs in Hsp; cbn in Hsp; unfold Pot, weight in Hsp; lia.
  - rewrite settle_idle in Hs by exact Hw. destruct Hs as [Hs|Hs]; [|discriminate]. injection Hs as <-. exact Hn.
Qed.

(* the same in the vocabulary of Run.v *)
Corollary at_most_once_outs_to s e f bs s' o c serial :
  step s e f bs = Done (s', o) -> (length (List.filter (is_reply_to serial) (outs_to c o)) <= 1)%nat.
Proof. intros H. rewrite <- nrep_outs_to. eapply at_most_once. exact H. Qed.

(* ---------------------------------------------------------------- replies are accounted for *)
(* the sharper form: except in the step that handles c0's own call request with serial s0, the
   replies with serial s0 output to c0 plus "s0 still pending at c0 afterwards" never exceed
   "s0 pending at c0 before" — a reply is only ever output for a pending serial, and that serial
   is not pending afterwards *)
Definition is_own_call (e : event) (c0 : conn) (s0 : N) : Prop :=
  match e with
  | Message c (CallFunction serial _ _ _) | Message c (CallFunction2 serial _ _ _ _) => c = c0 /\ serial = s0
  | _ => False
  end.

Lemma Pot_call_insert c0 s0 n m c cs serial p m' :
  conns (ms m) !! c = Some cs -> ~ (c = c0 /\ serial = s0) ->
  conns (ms m') = <[c := cs <| cs_calls ::= <[serial := p]> |>]> (conns (ms m)) -> mo m' = mo m ->
  Pot c0 s0 n m -> Pot c0 s0 n m'.
Proof.
  unfold Pot, weight, pend. intros Hc Hne Hs Hm H. rewrite Hm, Hs.
  destruct (decide (c = c0)) as [->|Hnc].
  - rewrite lookup_insert. rewrite Hc in H. cbn [cs_calls set].
    rewrite lookup_insert_ne; [exact H|]. intros ->. apply Hne. auto.
  - rewrite lookup_insert_ne by exact Hnc. exact H.
Qed.

Lemma call_impl_pot c0 s0 n m c serial sc fn fver v bs :
  ~ (c = c0 /\ serial = s0) -> Pot c0 s0 n m -> oprop (Pot c0 s0 n) (call_impl m c serial sc fn fver v bs).
Proof.
  intros Hne H. unfold call_impl.
  assert (Hrep : forall r from, is_rep c0 s0 (c, CallFunctionReply serial r, from) = false).
  { intros r from. unfold is_rep. cbn. destruct (bool_decide_reflect (serial = s0)) as [->|?]; [|reflexivity].
    cbn. apply bool_decide_eq_false_2. intros ->. apply Hne. auto. }
  destruct (svc_by_cookie (ms m) sc) as [[k sv]|].
  - destruct (owner_of_svc (ms m) k) as [callee|]; [|exact I].
    destruct (conns (ms m) !! c) as [cs|] eqn:Hc; [|exact H].
    destruct (pick_serial (ms m) bs) as [[b nxt]|]; [|exact I].
    destruct (bool_decide (is_Some (cs_calls cs !! serial))); [exact H|].
    cbn [ms set]. destruct (svcs _ !! k) as [sv'|]; [|exact I].
    destruct (conns _ !! callee) as [ccs|]; [|exact I].
    match goal with |- context [send_or_remove ?mm _ _ _] => assert (H1 : Pot c0 s0 n mm) end.
    { eapply (Pot_call_insert c0 s0 n m c cs serial); [exact Hc|exact Hne|reflexivity|reflexivity|exact H]. }
    destruct (MIN_CALL_FUNCTION2_OUT <=? cs_ver ccs); apply oprop_send_or_remove;
      first [ exact H1 | eapply Pot_snoc_other; [|reflexivity|reflexivity|exact H1]; reflexivity ].
  - apply oprop_send; [|exact H]. eapply Pot_snoc_other; [apply Hrep|reflexivity|reflexivity|exact H].
Qed.

Lemma handle_pot_all c0 s0 n m c x f bs :
  ~ is_own_call (Message c x) c0 s0 -> Pot c0 s0 n m -> oprop (Pot c0 s0 n) (handle m c x f bs).
Proof.
  intros Hne H.
  assert (Hcase : (match x with CallFunction _ _ _ _ | CallFunction2 _ _ _ _ _ => True | _ => False end) \/
                  (match x with CallFunction _ _ _ _ | CallFunction2 _ _ _ _ _ => False | _ => True end))
    by (destruct x; auto).
  destruct Hcase as [Hcall|Hother]; [|apply handle_pot; assumption].
  unfold handle. destruct (conns (ms m) !! c) as [cs|] eqn:Hc; [|exact H].
  destruct x; try contradiction; cbn [is_own_call] in Hne.
  - apply call_impl_pot; assumption.
  - unfold gate, ver_of. rewrite Hc. cbn [fmap option_fmap option_map].
    destruct (cs_ver cs <? MIN_CALL_FUNCTION2); [exact H|]. apply call_impl_pot; assumption.
Qed.

Theorem reply_accounting s e f bs s' o c0 s0 :
  step s e f bs = Done (s', o) -> ~ is_own_call e c0 s0 ->
  (nrep c0 s0 o + pend c0 s0 s' <= pend c0 s0 s)%nat.
Proof.
  intros Hstep Hne. apply step_Done in Hstep as (m & m' & Hh & Hs & -> & ->).
  set (n := pend c0 s0 s).
  assert (Hinit : Pot c0 s0 n (m_init s)) by (unfold Pot, weight; cbn; subst n; lia).
  assert (Hpost : Pot c0 s0 n m).
  { destruct e; cbn [step_handler] in Hh; fold (m_init s) in Hh.
    - destruct (conns s !! c) eqn:Hc; [discriminate|]. injection Hh as <-.
      unfold Pot, weight, pend. cbn. subst n. unfold pend.
      destruct (decide (c0 = c)) as [->|Hnc].
      + rewrite lookup_insert. cbn. rewrite lookup_empty.
        rewrite bool_decide_eq_false_2 by (intros [? ?]; discriminate). lia.
      + rewrite lookup_insert_ne by congruence. lia.
    - injection Hh as <-. exact Hinit.
    - pose proof (handle_pot_all c0 s0 n (m_init s) c m0 f bs Hne Hinit) as Hp.
      destruct (handle (m_init s) c m0 f bs) as [m1|m1|]; try discriminate; injection Hh as <-; exact Hp.
    - injection Hh as <-.
      change (Pot c0 s0 n (foldr (fun (p : conn * cstate) (m : M) => push_remove m p.1 true) (m_init s) (map_to_list (conns s)))).
      apply (prop_foldr (Pot c0 s0 n)); [|exact Hinit]. intros x a Hx. exact Hx.
    - injection Hh as <-. exact Hinit.
    - injection Hh as <-. exact Hinit.
    - injection Hh as <-. destruct (conns s !! c) as [cs|] eqn:Hc; [|exact Hinit].
      unfold Pot, weight, pend. cbn. subst n. unfold pend.
      destruct (decide (c0 = c)) as [->|Hnc].
      + rewrite lookup_insert, Hc. cbn. lia.
      + rewrite lookup_insert_ne by congruence. lia. }
  pose proof (settle_pot c0 s0 n (fuel_for m) m Hpost) as Hsp.
  destruct Hs as [Hs|Hs]; rewrite Hs in Hsp; exact Hsp.
Qed.

(* consequences: a reply appears only for a serial that was pending, and clears it *)
Corollary reply_only_if_pending s e f bs s' o c0 s0 :
  step s e f bs = Done (s', o) -> ~ is_own_call e c0 s0 -> (0 < nrep c0 s0 o)%nat ->
  pend c0 s0 s = 1%nat /\ pend c0 s0 s' = 0%nat /\ nrep c0 s0 o = 1%nat.
Proof.
  intros H Hne Hpos. pose proof (reply_accounting _ _ _ _ _ _ c0 s0 H Hne). pose proof (pend_le_1 c0 s0 s). lia.
Qed.

(* ---------------------------------------------------------------- removal of a misbehaving caller *)
(* a call with a caller serial that is still pending: the caller is not connected afterwards *)
Theorem call_duplicate_serial_removed s c cs x serial sc fn fver v f bs k sv callee b nxt p s' o :
  conns s !! c = Some cs -> is_call cs x serial sc fn fver v ->
  svc_by_cookie s sc = Some (k, sv) -> owner_of_svc s k = Some callee ->
  pick_serial s bs = Some (b, nxt) -> cs_calls cs !! serial = Some p ->
  step s (Message c x) f bs = Done (s', o) -> conns s' !! c = None.
Proof.
  intros Hc Hx Hs Ho Hp Hser Hstep. eapply failed_handler_removed; [exact Hstep|].
  eapply call_duplicate_serial_fails; eassumption.
Qed.

(* ---------------------------------------------------------------- conservation: exactly one *)
(* for a connection whose receiver is alive at the end of the step the accounting is exact:
   replies output + still pending = pending before.  So a pending serial that is no longer
   pending after the step was answered exactly once in it. *)
Definition Cv (c0 : conn) (s0 : N) (n : nat) (m : M) : Prop :=
  alive (ms m) c0 = true -> weight c0 s0 m = n.

Lemma Cv_snoc_other c0 s0 n m o m' :
  is_rep c0 s0 o = false -> mo m' = mo m ++ [o] -> ms m' = ms m -> Cv c0 s0 n m -> Cv c0 s0 n m'.
Proof.
  unfold Cv, weight. intros Ho Hm Hs H Ha. rewrite Hs in Ha |- *. rewrite Hm, nrep_app. unfold nrep at 2. cbn. rewrite Ho. cbn.
  specialize (H Ha). lia.
Qed.

Lemma Cv_conns_delete c0 s0 n m c m' :
  mo m' = mo m -> conns (ms m') = delete c (conns (ms m)) -> Cv c0 s0 n m -> Cv c0 s0 n m'.
Proof.
  unfold Cv, weight, pend, alive. intros Hm Hs H. rewrite Hm, Hs. destruct (decide (c0 = c)) as [->|Hne].
  - rewrite lookup_delete. discriminate.
  - rewrite lookup_delete_ne by congruence. exact H.
Qed.

Lemma Cv_reply_sent c0 s0 n m c cs serial p r from m' :
  conns (ms m) !! c = Some cs -> cs_calls cs !! serial = Some p ->
  conns (ms m') = <[c := cs <| cs_calls ::= delete serial |>]> (conns (ms m)) ->
  mo m' = mo m ++ [(c, CallFunctionReply serial r, from)] ->
  Cv c0 s0 n m -> Cv c0 s0 n m'.
Proof.
  unfold Cv, weight, pend, alive. intros Hc Hp Hs Hm H. rewrite Hm, Hs, nrep_app.
  destruct (decide (c = c0)) as [->|Hne].
  - rewrite lookup_insert. rewrite Hc in H. cbn [cs_calls cs_alive set]. intros Ha. specialize (H Ha).
    destruct (decide (serial = s0)) as [->|Hns].
    + rewrite lookup_delete. rewrite (bool_decide_eq_true_2 (is_Some (cs_calls cs !! s0))) in H by (rewrite Hp; eauto).
      rewrite (bool_decide_eq_false_2 (is_Some None)) by (intros [? ?]; discriminate).
      assert (E : nrep c0 s0 [(c0, CallFunctionReply s0 r, from)] = 1%nat).
      { unfold nrep, is_rep. cbn. rewrite !bool_decide_eq_true_2 by reflexivity. reflexivity. }
      rewrite E. lia.
    + rewrite lookup_delete_ne by congruence.
      assert (E : nrep c0 s0 [(c0, CallFunctionReply serial r, from)] = 0%nat).
      { unfold nrep, is_rep. cbn. rewrite (bool_decide_eq_false_2 (serial = s0)) by exact Hns. reflexivity. }
      rewrite E. lia.
  - rewrite lookup_insert_ne by congruence. intros Ha. specialize (H Ha).
    assert (E : nrep c0 s0 [(c, CallFunctionReply serial r, from)] = 0%nat).
    { unfold nrep, is_rep. cbn. rewrite (bool_decide_eq_false_2 (c = c0)) by exact Hne. rewrite andb_false_r. reflexivity. }
    rewrite E. lia.
Qed.

(* the reply could not be sent: then the caller's receiver is gone, and for it nothing is claimed *)
Lemma Cv_reply_unsent c0 s0 n m c cs serial m' :
  conns (ms m) !! c = Some cs ->
  conns (ms m') = <[c := cs <| cs_calls ::= delete serial |>]> (conns (ms m)) ->
  mo m' = mo m -> alive (ms m') c = false ->
  Cv c0 s0 n m -> Cv c0 s0 n m'.
Proof.
  unfold Cv, weight, pend, alive. intros Hc Hs Hm Hd H. rewrite Hm, Hs. rewrite Hs in Hd.
  destruct (decide (c = c0)) as [->|Hne].
  - rewrite lookup_insert in Hd |- *. cbn in Hd |- *. congruence.
  - rewrite lookup_insert_ne by congruence. exact H.
Qed.

Lemma Cv_call_insert c0 s0 n m c cs serial p m' :
  conns (ms m) !! c = Some cs -> ~ (c = c0 /\ serial = s0) ->
  conns (ms m') = <[c := cs <| cs_calls ::= <[serial := p]> |>]> (conns (ms m)) -> mo m' = mo m ->
  Cv c0 s0 n m -> Cv c0 s0 n m'.
Proof.
  unfold Cv, weight, pend, alive. intros Hc Hne Hs Hm H. rewrite Hm, Hs.
  destruct (decide (c = c0)) as [->|Hnc].
  - rewrite lookup_insert. rewrite Hc in H. cbn [cs_calls cs_alive set].
    rewrite lookup_insert_ne; [exact H|]. intros ->. apply Hne. auto.
  - rewrite lookup_insert_ne by exact Hnc. exact H.
Qed.

Ltac leaf_cv :=
  idtac;
  first
    [ match goal with H : Cv ?c ?s ?n ?m |- Cv ?c ?s ?n _ => exact H end
    | match goal with |- Cv ?c ?s ?n (set mo _ ?x) =>
        eapply (Cv_snoc_other c s n x); [|reflexivity|reflexivity|leaf_cv]; reflexivity end
    | match goal with |- Cv ?c ?s ?n (set mo _ (set _ _ ?x)) =>
        eapply (Cv_reply_sent c s n x); [eassumption|eassumption|reflexivity|reflexivity|leaf_cv] end
    | match goal with Hd : alive _ _ = false |- Cv ?c ?s ?n (push_remove (set _ _ ?x) _ _) =>
        eapply (Cv_reply_unsent c s n x); [eassumption|reflexivity|reflexivity|exact Hd|leaf_cv] end
    | match goal with |- ?P (push_remove ?x _ _) => change (P x) end
    | match goal with |- ?P (set _ _ ?x) => change (P x) end ].

Section CvTraversal.
  Context (c0 : conn) (s0 : N) (n : nat).
  Local Notation P := (Cv c0 s0 n).

  Lemma remove_end_cv m k e : P m -> oprop P (remove_end m k e).
  Proof. intros H. unfold remove_end. repeat prop_step_d leaf_cv. Qed.

  Lemma remove_service_cv m k : P m -> oprop P (remove_service m k).
  Proof. intros H. unfold remove_service. repeat prop_step_d leaf_cv. Qed.

  Lemma remove_object_cv m k : P m -> oprop P (remove_object m k).
  Proof.
    intros H. unfold remove_object.
    repeat first [ match goal with |- oprop _ (remove_service _ _) => apply remove_service_cv end
                 | prop_step_d leaf_cv ]; assumption.
  Qed.

  Lemma remove_listener_cv m k : P m -> P (remove_listener m k).
  Proof. intros H. unfold remove_listener. destruct (listeners (ms m) !! k); exact H. Qed.

  Lemma bus_cv m ev : P m -> oprop P (bus m ev).
  Proof. intros H. unfold bus. repeat prop_step_d leaf_cv. Qed.

  Lemma shutdown_conn_cv m c sd : P m -> oprop P (shutdown_conn m c sd).
  Proof.
    intros H. unfold shutdown_conn. destruct (conns (ms m) !! c) as [cs|] eqn:Hc; [|exact H].
    set (m1 := if sd && cs_alive cs then _ else _).
    assert (H1 : P m1).
    { assert (H0 : P (m <| ms; conns ::= delete c |>)) by (eapply Cv_conns_delete; [| |exact H]; reflexivity).
      subst m1. destruct (sd && cs_alive cs); [|exact H0].
      eapply Cv_snoc_other; [|reflexivity|reflexivity|exact H0]; reflexivity. }
    clearbody m1.
    repeat first
      [ match goal with
        | |- oprop _ (remove_object _ _) => apply remove_object_cv
        | |- oprop _ (remove_end _ _ _) => apply remove_end_cv
        | |- Cv _ _ _ (remove_listener _ _) => apply remove_listener_cv
        end
      | prop_step_d leaf_cv ]; assumption.
  Qed.

  Lemma abort_call_cv m b callee : P m -> oprop P (abort_call m b callee).
  Proof. intros H. unfold abort_call. repeat prop_step_d leaf_cv. Qed.

  Lemma settle_one_cv m r : P m -> settle_one m = Some r -> oprop P r.
  Proof.
    intros H. unfold settle_one.
    repeat match goal with
           | |- match ?l with [] => _ | _ :: _ => _ end = Some _ -> _ => destruct l as [|? ?]
           | |- (let '(_, _) := ?p in _) = Some _ -> _ => destruct p
           end; try discriminate; intros [= <-];
      repeat first
        [ match goal with
          | |- oprop _ (shutdown_conn _ _ _) => apply shutdown_conn_cv
          | |- oprop _ (abort_call _ _ _) => apply abort_call_cv
          | |- oprop _ (bus _ _) => apply bus_cv
          end
        | prop_step_d leaf_cv ]; try exact H.
  Qed.

  Lemma settle_cv fuel : forall m, P m -> oprop P (settle fuel m).
  Proof.
    induction fuel as [|fuel IH]; intros m H; cbn [settle];
      destruct (settle_one m) as [r|] eqn:E; try exact H;
      pose proof (settle_one_cv m r H E) as Hr; destruct r; cbn in Hr |- *; trivial; apply IH; assumption.
  Qed.
End CvTraversal.

Ltac hc_step :=
  first
    [ match goal with
      | |- oprop _ (remove_object _ _) => apply remove_object_cv
      | |- oprop _ (remove_service _ _) => apply remove_service_cv
      | |- oprop _ (remove_end _ _ _) => apply remove_end_cv
      | |- Cv _ _ _ (remove_listener _ _) => apply remove_listener_cv
      end
    | prop_step_d leaf_cv ].

Lemma handle_cv c0 s0 n m c x f b :
  (match x with CallFunction _ _ _ _ | CallFunction2 _ _ _ _ _ => False | _ => True end) ->
  Cv c0 s0 n m -> oprop (Cv c0 s0 n) (handle m c x f b).
Proof.
  intros Hx H. unfold handle. destruct (conns (ms m) !! c) as [cs|] eqn:Hc; [|exact H].
  destruct x; try contradiction; clear Hx;
    unfold gate, ver_of, create_service_impl; cbv zeta beta; try (rewrite Hc; cbn [fmap option_fmap option_map]);
    try (solve [repeat hc_step; try assumption]).
  match goal with |- context [chans (ms m) !! ?k] => destruct (chans (ms m) !! k) as [ch|] end;
    [|repeat hc_step; assumption].
  match goal with |- context [chan_claim ch c ?e] => destruct (chan_claim ch c e) as [r|ch' other r|site] end;
    [repeat hc_step; assumption| |exact I].
  match goal with |- context [send ?mm c ?x None] => destruct (send mm c x None) as [m2|m2|] eqn:Es end; [| |exact I].
  - apply send_Done in Es as [-> _]. repeat hc_step; assumption.
  - apply send_Fail in Es as [-> _]. apply oprop_refail. repeat hc_step; assumption.
Qed.

Lemma call_impl_cv c0 s0 n m c serial sc fn fver v bs :
  ~ (c = c0 /\ serial = s0) -> Cv c0 s0 n m -> oprop (Cv c0 s0 n) (call_impl m c serial sc fn fver v bs).
Proof.
  intros Hne H. unfold call_impl.
  assert (Hrep : forall r from, is_rep c0 s0 (c, CallFunctionReply serial r, from) = false).
  { intros r from. unfold is_rep. cbn. destruct (bool_decide_reflect (serial = s0)) as [->|?]; [|reflexivity].
    cbn. apply bool_decide_eq_false_2. intros ->. apply Hne. auto. }
  destruct (svc_by_cookie (ms m) sc) as [[k sv]|].
  - destruct (owner_of_svc (ms m) k) as [callee|]; [|exact I].
    destruct (conns (ms m) !! c) as [cs|] eqn:Hc; [|exact H].
    destruct (pick_serial (ms m) bs) as [[b nxt]|]; [|exact I].
    destruct (bool_decide (is_Some (cs_calls cs !! serial))); [exact H|].
    cbn [ms set]. destruct (svcs _ !! k) as [sv'|]; [|exact I].
    destruct (conns _ !! callee) as [ccs|]; [|exact I].
    match goal with |- context [send_or_remove ?mm _ _ _] => assert (H1 : Cv c0 s0 n mm) end.
    { eapply (Cv_call_insert c0 s0 n m c cs serial); [exact Hc|exact Hne|reflexivity|reflexivity|exact H]. }
    destruct (MIN_CALL_FUNCTION2_OUT <=? cs_ver ccs); apply oprop_send_or_remove;
      first [ exact H1 | eapply Cv_snoc_other; [|reflexivity|reflexivity|exact H1]; reflexivity ].
  - apply oprop_send; [|exact H]. eapply Cv_snoc_other; [apply Hrep|reflexivity|reflexivity|exact H].
Qed.

Lemma handle_cv_all c0 s0 n m c x f bs :
  ~ is_own_call (Message c x) c0 s0 -> Cv c0 s0 n m -> oprop (Cv c0 s0 n) (handle m c x f bs).
Proof.
  intros Hne H.
  assert (Hcase : (match x with CallFunction _ _ _ _ | CallFunction2 _ _ _ _ _ => True | _ => False end) \/
                  (match x with CallFunction _ _ _ _ | CallFunction2 _ _ _ _ _ => False | _ => True end))
    by (destruct x; auto).
  destruct Hcase as [Hcall|Hother]; [|apply handle_cv; assumption].
  unfold handle. destruct (conns (ms m) !! c) as [cs|] eqn:Hc; [|exact H].
  destruct x; try contradiction; cbn [is_own_call] in Hne.
  - apply call_impl_cv; assumption.
  - unfold gate, ver_of. rewrite Hc. cbn [fmap option_fmap option_map].
    destruct (cs_ver cs <? MIN_CALL_FUNCTION2); [exact H|]. apply call_impl_cv; assumption.
Qed.

(* C02, exactly once: for a connection that is connected with a working receiver after the step,
   and any step other than the handling of its own call request with serial s0 *)
Theorem reply_conservation s e f bs s' o c0 s0 :
  step s e f bs = Done (s', o) -> ~ is_own_call e c0 s0 -> alive s' c0 = true ->
  (nrep c0 s0 o + pend c0 s0 s')%nat = pend c0 s0 s.
Proof.
  intros Hstep Hne Halive. apply step_Done in Hstep as (m & m' & Hh & Hs & -> & ->).
  set (n := pend c0 s0 s).
  assert (Hinit : Cv c0 s0 n (m_init s)) by (intros _; unfold weight; cbn; subst n; lia).
  assert (Hpost : Cv c0 s0 n m).
  { destruct e; cbn [step_handler] in Hh; fold (m_init s) in Hh.
    - destruct (conns s !! c) eqn:Hc; [discriminate|]. injection Hh as <-.
      unfold Cv, weight, pend, alive. cbn. subst n. unfold pend.
      destruct (decide (c0 = c)) as [->|Hnc].
      + rewrite lookup_insert, Hc. cbn. rewrite lookup_empty.
        rewrite bool_decide_eq_false_2 by (intros [? ?]; discriminate). reflexivity.
      + rewrite lookup_insert_ne by congruence. intros _. lia.
    - injection Hh as <-. exact Hinit.
    - pose proof (handle_cv_all c0 s0 n (m_init s) c m0 f bs Hne Hinit) as Hp.
      destruct (handle (m_init s) c m0 f bs) as [m1|m1|]; try discriminate; injection Hh as <-; exact Hp.
    - injection Hh as <-.
      change (Cv c0 s0 n (foldr (fun (p : conn * cstate) (m : M) => push_remove m p.1 true) (m_init s) (map_to_list (conns s)))).
      apply (prop_foldr (Cv c0 s0 n)); [|exact Hinit]. intros x a Hx. exact Hx.
    - injection Hh as <-. exact Hinit.
    - injection Hh as <-. exact Hinit.
    - injection Hh as <-. destruct (conns s !! c) as [cs|] eqn:Hc; [|exact Hinit].
      unfold Cv, weight, pend, alive. cbn. subst n. unfold pend.
      destruct (decide (c0 = c)) as [->|Hnc].
      + rewrite lookup_insert. cbn. discriminate.
      + rewrite lookup_insert_ne by congruence. intros _. lia. }
  pose proof (settle_cv c0 s0 n (fuel_for m) m Hpost) as Hsp.
  destruct Hs as [Hs|Hs]; rewrite Hs in Hsp; exact (Hsp Halive).
Qed.

(* a serial that was pending and is not any more, at a connection that is still there with a
   working receiver: exactly one reply with that serial was delivered in this step *)
Corollary resolved_exactly_once s e f bs s' o c0 s0 :
  step s e f bs = Done (s', o) -> ~ is_own_call e c0 s0 -> alive s' c0 = true ->
  pend c0 s0 s = 1%nat -> pend c0 s0 s' = 0%nat -> nrep c0 s0 o = 1%nat.
Proof. intros H Hne Ha H1 H0. pose proof (reply_conservation _ _ _ _ _ _ c0 s0 H Hne Ha). lia. Qed.

(* and conversely no reply in a step that leaves the serial pending, or in which it was not *)
Corollary unresolved_no_reply s e f bs s' o c0 s0 :
  step s e f bs = Done (s', o) -> ~ is_own_call e c0 s0 ->
  pend c0 s0 s' = pend c0 s0 s -> nrep c0 s0 o = 0%nat.
Proof. intros H Hne He. pose proof (reply_accounting _ _ _ _ _ _ c0 s0 H Hne). lia. Qed.

(* ---------------------------------------------------------------- whole histories *)
Lemma step_not_Fail s e f bs x : step s e f bs <> Fail x.
Proof.
  rewrite step_unfold. destruct (step_handler s e f bs) as [m|m|]; try discriminate;
    destruct (settle (fuel_for m) m); discriminate.
Qed.

Lemma run_cons s i rest s' os : run s (i :: rest) = Done (s', os) ->
  exists s1 o os', step s (i_ev i) (i_fresh i) (i_bserial i) = Done (s1, o) /\
                   run s1 rest = Done (s', os') /\ os = o :: os'.
Proof.
  cbn [run]. destruct (step s (i_ev i) (i_fresh i) (i_bserial i)) as [[s1 o]|[s1 o]|] eqn:E; try discriminate.
  - destruct (run s1 rest) as [[s2 os']|[s2 os']|] eqn:E2; try discriminate.
    + intros [= <- <-]. eauto 10.
    + exfalso. clear -E2. revert s1 s2 os' E2. induction rest as [|j rest IH]; intros s1 s2 os' E2; cbn [run] in E2; [discriminate|].
      destruct (step s1 (i_ev j) (i_fresh j) (i_bserial j)) as [[s3 o3]|[s3 o3]|]; try discriminate;
        destruct (run s3 rest) as [[? ?]|[? ?]|]; discriminate.
  - exfalso. exact (step_not_Fail _ _ _ _ _ E).
Qed.

(* along any history that does not contain c0's own call request with serial s0 (i.e. between
   two uses of the serial), all steps together deliver at most one reply with serial s0 to c0,
   and none unless s0 was pending at the start *)
Theorem history_accounting h : forall s s' os c0 s0,
  run s h = Done (s', os) -> Forall (fun i => ~ is_own_call (i_ev i) c0 s0) h ->
  (nrep c0 s0 (concat os) + pend c0 s0 s' <= pend c0 s0 s)%nat.
Proof.
  induction h as [|i rest IH]; intros s s' os c0 s0 Hrun Hall.
  - cbn in Hrun. injection Hrun as <- <-. cbn. lia.
  - apply run_cons in Hrun as (s1 & o & os' & Hstep & Hrest & ->). apply Forall_cons in Hall as [Hi Hall].
    cbn [concat]. rewrite nrep_app.
    pose proof (reply_accounting _ _ _ _ _ _ c0 s0 Hstep Hi). pose proof (IH _ _ _ c0 s0 Hrest Hall). lia.
Qed.

(* c0 is connected with a working receiver after every step of the history *)
Fixpoint alive_along (c0 : conn) (s : state) (h : list input) : Prop :=
  match h with
  | [] => True
  | i :: rest =>
      match step s (i_ev i) (i_fresh i) (i_bserial i) with
      | Done (s1, _) | Fail (s1, _) => alive s1 c0 = true /\ alive_along c0 s1 rest
      | Panic _ => True
      end
  end.

(* ... and exactly one if c0 stays connected and the serial is not pending at the end *)
Theorem history_conservation h : forall s s' os c0 s0,
  run s h = Done (s', os) -> Forall (fun i => ~ is_own_call (i_ev i) c0 s0) h -> alive_along c0 s h ->
  (nrep c0 s0 (concat os) + pend c0 s0 s')%nat = pend c0 s0 s.
Proof.
  induction h as [|i rest IH]; intros s s' os c0 s0 Hrun Hall Hal.
  - cbn in Hrun. injection Hrun as <- <-. cbn. lia.
  - apply run_cons in Hrun as (s1 & o & os' & Hstep & Hrest & ->). apply Forall_cons in Hall as [Hi Hall].
    cbn [alive_along] in Hal. rewrite Hstep in Hal. destruct Hal as [Ha1 Hal].
    cbn [concat]. rewrite nrep_app.
    pose proof (reply_conservation _ _ _ _ _ _ c0 s0 Hstep Hi Ha1). pose proof (IH _ _ _ c0 s0 Hrest Hall Hal). lia.
Qed.

(* ---------------------------------------------------------------- the invariant facts used, named *)
(* The hypotheses above that are not about the request itself follow from the broker's global
   consistency invariant; these two predicates are exactly what is needed, to be discharged from
   [Inv] (Broker/Inv.v).  Every pending serial of a connection points to a stored, non-aborted
   call of that connection with that serial ... *)
Definition calls_consistent (s : state) : Prop :=
  forall c cs serial b callee, conns s !! c = Some cs -> cs_calls cs !! serial = Some (b, callee) ->
    exists cl, calls s !! b = Some cl /\ c_caller cl = c /\ c_serial cl = serial /\ c_aborted cl = false.

(* ... and every stored call belongs to a stored service that lists it, and — unless aborted —
   is pending at its caller (if that is still connected) under its serial *)
Definition calls_backlinked (s : state) : Prop :=
  forall b cl, calls s !! b = Some cl ->
    (exists sv, svcs s !! c_svc cl = Some sv /\ b ∈ s_calls sv) /\
    (c_aborted cl = false -> forall ccs, conns s !! c_caller cl = Some ccs ->
       exists callee, cs_calls ccs !! c_serial cl = Some (b, callee)).

Corollary abort_step_consistent s c cs serial b callee f bs :
  calls_consistent s ->
  conns s !! c = Some cs -> cs_alive cs = true -> 16 <= cs_ver cs ->
  cs_calls cs !! serial = Some (b, callee) ->
  (forall ccs, conns s !! callee = Some ccs -> 16 <= cs_ver ccs -> cs_alive ccs = true) ->
  exists cl, calls s !! b = Some cl /\
    step s (Message c (AbortFunctionCall serial)) f bs =
      Done (s <| calls ::= <[b := cl <| c_aborted := true |>]> |>
              <| conns ::= <[c := cs <| cs_calls ::= delete serial |>]> |>,
            abort_notice s callee b ++ [(c, CallFunctionReply serial CRAborted, None)]).
Proof.
  intros Hinv Hc Hal Hv Hser Hcallee. destruct (Hinv c cs serial b callee Hc Hser) as (cl & H1 & H2 & H3 & H4).
  exists cl. split; [exact H1|]. eapply abort_step; eassumption.
Qed.

Corollary reply_routed_backlinked s o ocs b r cl ccs f bs :
  calls_backlinked s ->
  conns s !! o = Some ocs -> calls s !! b = Some cl -> owner_of_svc s (c_svc cl) = Some o ->
  c_aborted cl = false -> conns s !! c_caller cl = Some ccs -> cs_alive ccs = true ->
  exists sv, step s (Message o (CallFunctionReply b r)) f bs =
    Done (reply_state s b cl sv ccs, [(c_caller cl, CallFunctionReply (c_serial cl) r, Some (cs_ver ocs))]).
Proof.
  intros Hinv Ho Hcl Hown Hab Hcc Hal. destruct (Hinv b cl Hcl) as ((sv & Hsv & Hin) & Hp).
  destruct (Hp Hab ccs Hcc) as (callee & Hser). exists sv. eapply reply_routed; eassumption.
Qed.

(* both hold initially *)
Lemma calls_consistent_init : calls_consistent init.
Proof. intros c cs serial b callee H. cbn in H. rewrite lookup_empty in H. discriminate. Qed.
Lemma calls_backlinked_init : calls_backlinked init.
Proof. intros b cl H. cbn in H. rewrite lookup_empty in H. discriminate. Qed.
Lemma invariant_facts_init : calls_consistent init /\ calls_backlinked init.
Proof. exact (conj calls_consistent_init calls_backlinked_init). Qed.

(* ---------------------------------------------------------------- which results a reply can carry *)
(* "the owner's result unchanged, otherwise the synthesized outcome": in a step that does not
   handle a CallFunctionReply message, every reply output is broker-made and carries
   InvalidService or Aborted (the step that does handle one is described exactly by
   [reply_routed] / [reply_dropped] / [reply_after_abort]) *)
Definition Ksyn (o : out) : Prop :=
  match o.1.2 with
  | CallFunctionReply _ r => (r = CRInvalidService \/ r = CRAborted) /\ o.2 = None
  | _ => True
  end.
Definition SY (m : M) : Prop :=
  Forall (fun e : N * conn * call_result => e.2 = CRInvalidService) (w_rm_call (mw m)) /\ Forall Ksyn (mo m).

Lemma SY_snoc m o m' : Ksyn o -> mo m' = mo m ++ [o] -> w_rm_call (mw m') = w_rm_call (mw m) -> SY m -> SY m'.
Proof.
  unfold SY. intros Ho Hm Hw [H1 H2]. rewrite Hm, Hw. split; [exact H1|].
  apply Forall_app. split; [exact H2|]. constructor; [exact Ho|constructor].
Qed.
Lemma SY_push m e m' : e.2 = CRInvalidService -> mo m' = mo m -> w_rm_call (mw m') = e :: w_rm_call (mw m) -> SY m -> SY m'.
Proof. unfold SY. intros He Hm Hw [H1 H2]. rewrite Hm, Hw. split; [constructor; assumption|exact H2]. Qed.

Ltac ksyn := cbn; first [ exact I | split; [left; reflexivity|reflexivity] | split; [right; reflexivity|reflexivity] ].

Ltac leaf_sy :=
  idtac;
  first
    [ match goal with H : SY ?m |- SY _ => exact H end
    | match goal with |- SY (set mo _ ?x) => eapply (SY_snoc x); [|reflexivity|reflexivity|leaf_sy]; ksyn end
    | match goal with |- SY (set mw (set w_rm_call (cons ?e)) ?x) =>
        eapply (SY_push x e); [reflexivity|reflexivity|reflexivity|leaf_sy] end
    | match goal with |- ?P (push_remove ?x _ _) => change (P x) end
    | match goal with |- ?P (set _ _ ?x) => change (P x) end ].

Lemma remove_end_sy m k e : SY m -> oprop SY (remove_end m k e).
Proof. intros H. unfold remove_end. repeat prop_step leaf_sy. Qed.
Lemma remove_service_sy m k : SY m -> oprop SY (remove_service m k).
Proof. intros H. unfold remove_service. repeat prop_step leaf_sy. Qed.
Lemma remove_object_sy m k : SY m -> oprop SY (remove_object m k).
Proof.
  intros H. unfold remove_object.
  repeat first [ match goal with |- oprop _ (remove_service _ _) => apply remove_service_sy end
               | prop_step leaf_sy ]; assumption.
Qed.
Lemma remove_listener_sy m k : SY m -> SY (remove_listener m k).
Proof. intros H. unfold remove_listener. destruct (listeners (ms m) !! k); exact H. Qed.
Lemma bus_sy m ev : SY m -> oprop SY (bus m ev).
Proof. intros H. unfold bus. repeat prop_step leaf_sy. Qed.
Lemma abort_call_sy m b callee : SY m -> oprop SY (abort_call m b callee).
Proof. intros H. unfold abort_call. repeat prop_step leaf_sy. Qed.

Lemma shutdown_conn_sy m c sd : SY m -> oprop SY (shutdown_conn m c sd).
Proof.
  intros H. unfold shutdown_conn. destruct (conns (ms m) !! c) as [cs|] eqn:Hc; [|exact H].
  set (m1 := if sd && cs_alive cs then _ else _).
  assert (H1 : SY m1).
  { subst m1. destruct (sd && cs_alive cs); [|exact H]. eapply SY_snoc; [|reflexivity|reflexivity|exact H]; exact I. }
  clearbody m1.
  repeat first
    [ match goal with
      | |- oprop _ (remove_object _ _) => apply remove_object_sy
      | |- oprop _ (remove_end _ _ _) => apply remove_end_sy
      | |- SY (remove_listener _ _) => apply remove_listener_sy
      end
    | prop_step leaf_sy ]; assumption.
Qed.

Lemma settle_one_sy m r : SY m -> settle_one m = Some r -> oprop SY r.
Proof.
  intros H. unfold settle_one.
  destruct (w_remove_conns (mw m)) as [|[c sd] q0] eqn:E0.
  2: { intros [= <-]. apply shutdown_conn_sy. exact H. }
  destruct (w_unsub_ev (mw m)) as [|[[c sc] e] q1] eqn:E1.
  2: { intros [= <-]. repeat prop_step leaf_sy; exact H. }
  destruct (w_unsub_all (mw m)) as [|[c sc] q2] eqn:E2.
  2: { intros [= <-]. repeat prop_step leaf_sy; exact H. }
  destruct (w_svc_destroyed (mw m)) as [|[c sc] q3] eqn:E3.
  2: { intros [= <-]. repeat prop_step leaf_sy; exact H. }
  destruct (w_rm_call (mw m)) as [|[[serial c] res] q4] eqn:E4.
  2: { intros [= <-].
       assert (Hres : res = CRInvalidService /\ SY (m <| mw; w_rm_call := q4 |>)).
       { destruct H as [H1 H2]. rewrite E4 in H1. apply Forall_cons in H1 as [Hr H1]. split; [exact Hr|]. split; assumption. }
       destruct Hres as [-> H']. repeat prop_step leaf_sy; exact H'. }
  repeat match goal with
         | |- match ?l with [] => _ | _ :: _ => _ end = Some _ -> _ => destruct l as [|? ?]
         | |- (let '(_, _) := ?p in _) = Some _ -> _ => destruct p
         end; try discriminate; intros [= <-];
    repeat first
      [ match goal with
        | |- oprop _ (abort_call _ _ _) => apply abort_call_sy
        | |- oprop _ (bus _ _) => apply bus_sy
        end
      | prop_step leaf_sy ]; try exact H.
Qed.

Lemma settle_sy fuel : forall m, SY m -> oprop SY (settle fuel m).
Proof.
  induction fuel as [|fuel IH]; intros m H; cbn [settle];
    destruct (settle_one m) as [r|] eqn:E; try exact H;
    pose proof (settle_one_sy m r H E) as Hr; destruct r; cbn in Hr |- *; trivial; apply IH; assumption.
Qed.

Ltac hy_step :=
  first
    [ match goal with
      | |- oprop _ (remove_object _ _) => apply remove_object_sy
      | |- oprop _ (remove_service _ _) => apply remove_service_sy
      | |- oprop _ (remove_end _ _ _) => apply remove_end_sy
      | |- SY (remove_listener _ _) => apply remove_listener_sy
      end
    | prop_step leaf_sy ].

Lemma handle_sy m c x f b :
  (match x with CallFunctionReply _ _ => False | _ => True end) ->
  SY m -> oprop SY (handle m c x f b).
Proof.
  intros Hx H. unfold handle. destruct (conns (ms m) !! c) as [cs|] eqn:Hc; [|exact H].
  destruct x; try contradiction; clear Hx;
    unfold gate, ver_of, create_service_impl, call_impl; cbv zeta beta; try (rewrite Hc; cbn [fmap option_fmap option_map]);
    try (solve [repeat hy_step; try assumption]).
  match goal with |- context [chans (ms m) !! ?k] => destruct (chans (ms m) !! k) as [ch|] end;
    [|repeat hy_step; assumption].
  match goal with |- context [chan_claim ch c ?e] => destruct (chan_claim ch c e) as [r|ch' other r|site] end;
    [repeat hy_step; assumption| |exact I].
  match goal with |- context [send ?mm c ?x None] => destruct (send mm c x None) as [m2|m2|] eqn:Es end; [| |exact I].
  - apply send_Done in Es as [-> _]. repeat hy_step; assumption.
  - apply send_Fail in Es as [-> _]. apply oprop_refail. repeat hy_step; assumption.
Qed.

Theorem synthesized_results s e f bs s' o c serial r from :
  step s e f bs = Done (s', o) ->
  (match e with Message _ (CallFunctionReply _ _) => False | _ => True end) ->
  (c, CallFunctionReply serial r, from) ∈ o ->
  (r = CRInvalidService \/ r = CRAborted) /\ from = None.
Proof.
  intros Hstep He Hin. apply step_Done in Hstep as (m & m' & Hh & Hs & -> & ->).
  assert (Hinit : SY (m_init s)) by (split; constructor).
  assert (Hpost : SY m).
  { destruct e; cbn [step_handler] in Hh; fold (m_init s) in Hh.
    - destruct (conns s !! c0); [discriminate|]. injection Hh as <-. exact Hinit.
    - injection Hh as <-. exact Hinit.
    - assert (Hx : match m0 with CallFunctionReply _ _ => False | _ => True end) by (destruct m0; auto).
      pose proof (handle_sy (m_init s) c0 m0 f bs Hx Hinit) as Hp.
      destruct (handle (m_init s) c0 m0 f bs) as [m1|m1|]; try discriminate; injection Hh as <-; exact Hp.
    - injection Hh as <-.
      change (SY (foldr (fun (p : conn * cstate) (m : M) => push_remove m p.1 true) (m_init s) (map_to_list (conns s)))).
      apply (prop_foldr SY); [|exact Hinit]. intros x a Hx. exact Hx.
    - injection Hh as <-. exact Hinit.
    - injection Hh as <-. exact Hinit.
    - injection Hh as <-. destruct (conns s !! c0); exact Hinit. }
  pose proof (settle_sy (fuel_for m) m Hpost) as Hsp.
  assert (Hall : Forall Ksyn (mo m')) by (destruct Hs as [Hs|Hs]; rewrite Hs in Hsp; exact (proj2 Hsp)).
  rewrite Forall_forall in Hall. exact (Hall _ Hin).
Qed.
