(* Broker/Cascade.v — what the removal cascade and the work loop can do, as relations.
   [upd1 s s']: one elementary state change made outside the message handlers (every one of them
   deletes a key, closes a channel end, shrinks a subscription set, marks a call aborted or retires
   a pending call; none inserts a key and none touches the connection map's domain or the
   shutdown flags).  [mstep m m']: the machine moved by such state changes, by outputs other than
   Shutdown to connected live receivers, by queueing (c, false) for a connected dead receiver,
   and by work-list changes that leave the remove-connection queue alone.
   Every function run by [settle] is an [mstep]; [shutdown_conn] is: delete the connection,
   possibly emit Shutdown, then an [mstep].  Invariants are then proved once per elementary
   change instead of once per function. *)
From stdpp Require Import gmap list.
From RecordUpdate Require Import RecordSet.
Import RecordSetNotations.
From Aldrin Require Import gen.BrokerConsts Broker.Model Broker.Run Broker.Wp.
From Coq Require Import ZifyBool ZifyNat ZifyN Lia.
Local Open Scope N_scope.

Definition close_end (ch : chan) (e : chan_end) : chan :=
  match e with ESender => ch <| ch_s := Closed |> | EReceiver => ch <| ch_r := Closed |> end.

Definition svc_le (v' v : svc) : Prop :=
  s_cookie v' = s_cookie v /\ s_obj_cookie v' = s_obj_cookie v /\ s_info v' = s_info v /\
  s_calls v' = s_calls v /\ s_all v' ⊆ s_all v /\ s_subs v' ⊆ s_subs v /\
  forall e set', s_events v' !! e = Some set' -> set' ⊆ default ∅ (s_events v !! e).

Inductive upd1 : state -> state -> Prop :=
| u_st s f : upd1 s (s <| st ::= f |>)
| u_lis_del s k : upd1 s (s <| listeners ::= delete k |>)
| u_chan_del s k : upd1 s (s <| chans ::= delete k |>)
| u_chan_close s k ch e : chans s !! k = Some ch -> upd1 s (s <| chans ::= <[k := close_end ch e]> |>)
| u_svc_del s k : upd1 s (s <| svcs ::= delete k |>)
| u_svc_upd s k v v' : svcs s !! k = Some v -> svc_le v' v -> upd1 s (s <| svcs ::= <[k := v']> |>)
| u_subs s c : upd1 s (sc_subs c s)
| u_call_del s b : upd1 s (s <| calls ::= delete b |>)
| u_call_abort s b cl : calls s !! b = Some cl ->
    upd1 s (s <| calls ::= <[b := cl <| c_aborted := true |>]> |>)
| u_obj_del s u : upd1 s (s <| objs ::= delete u |>)
| u_call_done s c cs serial : conns s !! c = Some cs -> upd1 s (upd_call_done s c cs serial).

Inductive upds : state -> state -> Prop :=
| us_refl s : upds s s
| us_step s s1 s2 : upds s s1 -> upd1 s1 s2 -> upds s s2.

Lemma upds_one s s' : upd1 s s' -> upds s s'.
Proof. intros. eapply us_step; [apply us_refl|assumption]. Qed.
Lemma upds_trans s s1 s2 : upds s s1 -> upds s1 s2 -> upds s s2.
Proof. intros H1 H2. induction H2 as [|s1 s2 s3 H2 IH H3]; [assumption|]. exact (us_step _ _ _ (IH H1) H3). Qed.

(* a state predicate closed under the elementary changes *)
Definition closed (Q : state -> Prop) : Prop := forall s s', upd1 s s' -> Q s -> Q s'.
Lemma closed_upds Q s s' : closed Q -> upds s s' -> Q s -> Q s'.
Proof. intros HQ H. induction H; eauto. Qed.

Inductive mstep : M -> M -> Prop :=
| m_refl m : mstep m m
| m_trans m m1 m2 : mstep m m1 -> mstep m1 m2 -> mstep m m2
| m_upd m m' : upds (ms m) (ms m') -> mo m' = mo m ->
    w_remove_conns (mw m') = w_remove_conns (mw m) -> mstep m m'
| m_out m c cs x f : conns (ms m) !! c = Some cs -> cs_alive cs = true -> x <> Shutdown ->
    mstep m (m <| mo := mo m ++ [(c, x, f)] |>)
| m_push m c cs : conns (ms m) !! c = Some cs -> cs_alive cs = false -> mstep m (push_remove m c false).

Lemma mstep_upds m m' : mstep m m' -> upds (ms m) (ms m').
Proof.
  induction 1; try apply us_refl; try assumption. eapply upds_trans; eassumption.
Qed.

Lemma mstep_closed Q m m' : closed Q -> mstep m m' -> Q (ms m) -> Q (ms m').
Proof. intros HQ H. eapply closed_upds; [exact HQ|]. by apply mstep_upds. Qed.

(* one elementary change of [ms], nothing else *)
Lemma m_upd1 m m' : upd1 (ms m) (ms m') -> mo m' = mo m ->
  w_remove_conns (mw m') = w_remove_conns (mw m) -> mstep m m'.
Proof. intros. apply m_upd; auto. by apply upds_one. Qed.
(* only the work lists other than the remove queue changed *)
Lemma m_work m m' : ms m' = ms m -> mo m' = mo m ->
  w_remove_conns (mw m') = w_remove_conns (mw m) -> mstep m m'.
Proof. intros E ? ?. apply m_upd; auto. rewrite E. apply us_refl. Qed.

(* one record update of the machine *)
Lemma m_ms1 m f : upd1 (ms m) (f (ms m)) -> mstep m (m <| ms ::= f |>).
Proof. intros H. apply m_upd1; [exact H|reflexivity|reflexivity]. Qed.
Lemma m_mw m f : w_remove_conns (f (mw m)) = w_remove_conns (mw m) -> mstep m (m <| mw ::= f |>).
Proof. intros H. apply m_work; [reflexivity|reflexivity|exact H]. Qed.
(* peel the outermost record update off the target machine *)
Ltac peel := eapply m_trans; [|first [apply m_ms1 | apply m_mw; reflexivity]].

Lemma res_mstep_trans m m1 o : mstep m m1 -> res (mstep m1) never o -> res (mstep m) never o.
Proof. intros H Ho. eapply res_mono; [exact Ho| |auto]. intros m2 H2. eapply m_trans; eassumption. Qed.

Lemma bind_mstep m x k :
  res (mstep m) never x -> (forall m1, mstep m m1 -> res (mstep m1) never (k m1)) ->
  res (mstep m) never (x >>> k).
Proof.
  intros Hx Hk. eapply res_bind; [exact Hx|]. intros m1 H1. eapply res_mstep_trans; [exact H1|auto].
Qed.

Lemma foldO_mstep {A} (f : M -> A -> outcome M) l m :
  (forall m x, res (mstep m) never (f m x)) -> res (mstep m) never (foldO f l m).
Proof.
  intros Hf. apply (foldO_res (mstep m)); [|apply m_refl].
  intros m' x _ Hm'. eapply res_mstep_trans; [exact Hm'|apply Hf].
Qed.

Lemma foldl_mstep {A} (f : M -> A -> M) l m : (forall m x, mstep m (f m x)) -> mstep m (foldl f m l).
Proof.
  intros Hf. apply (foldl_inv (mstep m)); [|apply m_refl]. intros m' x _ Hm'. eapply m_trans; eauto.
Qed.

Lemma foldr_mstep {A} (f : A -> M -> M) l m : (forall m x, mstep m (f x m)) -> mstep m (foldr f m l).
Proof.
  intros Hf. apply (foldr_inv (mstep m)); [|apply m_refl]. intros m' x _ Hm'. eapply m_trans; eauto.
Qed.

(* ---------------------------------------------------------------- sends *)
Lemma send_or_remove_mstep m c x f : x <> Shutdown -> res (mstep m) never (send_or_remove m c x f).
Proof. intros Hx. apply send_or_remove_res; intros cs E Ea; [eapply m_out|eapply m_push]; eauto. Qed.

Lemma notify_item_mstep m c x : x <> Shutdown -> res (mstep m) never (notify_item m c x).
Proof.
  intros Hx. unfold notify_item. destruct (has m c); [by apply send_or_remove_mstep|apply m_refl].
Qed.

(* ---------------------------------------------------------------- the cascade *)
Lemma remove_listener_mstep m k : mstep m (remove_listener m k).
Proof.
  unfold remove_listener. destruct (listeners (ms m) !! k); [|apply m_refl].
  peel; [|apply u_st]. apply m_ms1, u_lis_del.
Qed.

Lemma chan_close_notify ch e ch' o : chan_close ch e = CloseNotify ch' o -> ch' = close_end ch e.
Proof.
  unfold chan_close, close_end. destruct e, ch as [[] []]; cbn; intros [=]; subst; reflexivity.
Qed.

(* precise: the channel is deleted, or has the end closed, and then only elementary changes *)
Lemma remove_end_mstep' m k e ch : chans (ms m) !! k = Some ch ->
  res (fun m' => mstep (m <| ms; chans ::= delete k |>) m' \/
                 mstep (m <| ms; chans ::= <[k := close_end ch e]> |>) m') never (remove_end m k e).
Proof.
  intros E. unfold remove_end. rewrite E.
  assert (mstep (m <| ms; chans ::= delete k |>)
                (m <| ms; chans ::= delete k |> <| ms; st; n_chans ::= sat_sub1 |>)) as Hd.
  { apply m_upd1; try reflexivity. apply u_st. }
  destruct (chan_close ch e) as [|ch' o|] eqn:Ec; [left; exact Hd| |exact I].
  apply chan_close_notify in Ec as ->.
  destruct (has _ o); [|left; exact Hd].
  eapply res_mono; [apply send_or_remove_mstep; discriminate|intros; by right|auto].
Qed.

Lemma remove_end_mstep m k e : res (mstep m) never (remove_end m k e).
Proof.
  destruct (chans (ms m) !! k) as [ch|] eqn:E.
  - eapply res_mono; [apply (remove_end_mstep' m k e ch E)| |auto].
    intros m' [H|H]; (eapply m_trans; [|exact H]); apply m_upd1; try reflexivity;
      [apply u_chan_del|by apply u_chan_close].
  - unfold remove_end. rewrite E. apply m_refl.
Qed.

(* precise: the service is deleted, then only elementary changes *)
Lemma remove_service_mstep' m cookie k v : svc_by_cookie (ms m) cookie = Some (k, v) ->
  res (mstep (m <| ms; svcs ::= delete k |>)) never (remove_service m cookie).
Proof.
  intros E. unfold remove_service. rewrite E. apply bind_mstep.
  - match goal with |- res _ _ (foldO _ _ ?x) => apply (res_mstep_trans _ x) end.
    { apply m_mw. reflexivity. }
    apply foldO_mstep. intros m' b. destruct (calls (ms m') !! b) as [cl|]; [|exact I].
    cbn [res]. destruct (c_aborted cl); [|peel]; apply m_ms1, u_call_del.
  - intros m2 _. cbn [res]. peel; [|apply u_st].
    apply foldr_mstep. intros m' c. destruct (has m' c); [apply m_mw; reflexivity|apply m_refl].
Qed.

Lemma remove_service_mstep m cookie : res (mstep m) never (remove_service m cookie).
Proof.
  destruct (svc_by_cookie (ms m) cookie) as [[k v]|] eqn:E.
  - eapply res_mstep_trans; [|by eapply remove_service_mstep'].
    apply m_ms1, u_svc_del.
  - unfold remove_service. rewrite E. apply m_refl.
Qed.

Lemma remove_object_mstep' m cookie u o : obj_by_cookie (ms m) cookie = Some (u, o) ->
  res (mstep (m <| ms; objs ::= delete u |>)) never (remove_object m cookie).
Proof.
  intros E. unfold remove_object. rewrite E. apply bind_mstep.
  - match goal with |- res _ _ (foldO _ _ ?x) => apply (res_mstep_trans _ x) end.
    { apply m_mw. reflexivity. }
    apply foldO_mstep. intros m' b. apply remove_service_mstep.
  - intros m2 _. cbn [res]. apply m_ms1, u_st.
Qed.

Lemma remove_object_mstep m cookie : res (mstep m) never (remove_object m cookie).
Proof.
  destruct (obj_by_cookie (ms m) cookie) as [[u o]|] eqn:E.
  - eapply res_mstep_trans; [|by eapply remove_object_mstep'].
    apply m_ms1, u_obj_del.
  - unfold remove_object. rewrite E. apply m_refl.
Qed.

Lemma bus_mstep m ev : res (mstep m) never (bus m ev).
Proof.
  unfold bus. apply foldO_mstep. intros m' c.
  destruct (has m' c); [apply send_or_remove_mstep; discriminate|apply m_refl].
Qed.

Lemma abort_call_mstep m b callee : res (mstep m) never (abort_call m b callee).
Proof.
  unfold abort_call. destruct (calls (ms m) !! b) as [cl|] eqn:E; [|apply m_refl].
  destruct (c_aborted cl); [apply m_refl|]. cbv zeta.
  assert (mstep m (m <| ms; calls ::= <[b := cl <| c_aborted := true |>]> |>)) as H1.
  { apply m_upd1; try reflexivity. by apply u_call_abort. }
  eapply res_mstep_trans; [exact H1|]. apply bind_mstep.
  - destruct (conns _ !! callee); [|apply m_refl].
    destruct (_ <=? _); [apply send_or_remove_mstep; discriminate|apply m_refl].
  - intros m2 _. destruct (conns (ms m2) !! _) as [cs|] eqn:E2; [|apply m_refl].
    destruct (cs_calls cs !! _); [|exact I].
    eapply res_mstep_trans; [|apply send_or_remove_mstep; discriminate].
    apply m_upd1; try reflexivity. by apply (u_call_done (ms m2)).
Qed.

Lemma rm_call_item_mstep m serial c result : res (mstep m) never (rm_call_item m serial c result).
Proof.
  unfold rm_call_item. destruct (conns (ms m) !! c) as [cs|] eqn:E; [|apply m_refl].
  destruct (cs_calls cs !! serial); [|exact I].
  eapply res_mstep_trans; [|apply send_or_remove_mstep; discriminate].
  apply m_upd1; try reflexivity. by apply (u_call_done (ms m)).
Qed.

(* ---------------------------------------------------------------- shutdown_conn *)
Lemma svc_le_refl v : svc_le v v.
Proof. repeat split; try reflexivity. intros e set' H. by rewrite H. Qed.

Lemma sc_ev_inner_mstep c k owner m e : mstep m (sc_ev_inner c k owner m e).
Proof.
  unfold sc_ev_inner. destruct (svcs (ms m) !! k) as [v|] eqn:E; [|apply m_refl].
  cbv zeta. destruct (bool_decide _).
  - eapply m_trans; [|apply m_work; reflexivity].
    apply m_upd1; try reflexivity. eapply u_svc_upd; [exact E|].
    repeat split; try reflexivity. cbn. intros e' set' H.
    apply lookup_delete_Some in H as [_ H]. by rewrite H.
  - apply m_upd1; try reflexivity. eapply u_svc_upd; [exact E|].
    repeat split; try reflexivity. cbn. intros e' set' H.
    destruct (decide (e = e')) as [<-|Hne].
    + rewrite lookup_insert in H. injection H as <-. set_solver.
    + rewrite lookup_insert_ne in H by done. by rewrite H.
Qed.

Lemma sc_ev_mstep c m k : res (mstep m) never (sc_ev c m k).
Proof.
  unfold sc_ev. destruct (svcs (ms m) !! k); [|apply m_refl].
  destruct (owner_of_svc _ _); [|exact I]. cbn [res]. apply foldl_mstep. intros. apply sc_ev_inner_mstep.
Qed.

Lemma sc_all_mstep c m k : res (mstep m) never (sc_all c m k).
Proof.
  unfold sc_all. destruct (svcs (ms m) !! k) as [v|] eqn:E; [|apply m_refl].
  destruct (owner_of_svc _ _); [|exact I]. destruct (bool_decide (c ∈ _)); [|apply m_refl].
  cbn [res]. cbv zeta.
  assert (mstep m (m <| ms; svcs ::= <[k := v <| s_all := s_all v ∖ {[c]} |>]> |>)) as H1.
  { apply m_upd1; try reflexivity. eapply u_svc_upd; [exact E|].
    repeat split; try reflexivity; cbn; [set_solver|]. intros e set' H. by rewrite H. }
  destruct (bool_decide _); [|exact H1]. eapply m_trans; [exact H1|apply m_work; reflexivity].
Qed.

Lemma sc_end_mstep c e m k : res (mstep m) never (sc_end c e m k).
Proof.
  unfold sc_end. destruct (chans (ms m) !! k); [|apply m_refl].
  destruct (match e with ESender => _ | EReceiver => _ end); try apply m_refl.
  destruct (bool_decide _); [apply remove_end_mstep|apply m_refl].
Qed.

(* the machine right after the connection entry is deleted and Shutdown possibly emitted *)
Definition sc_start (m : M) (c : conn) (cs : cstate) (sd : bool) : M :=
  let m0 := m <| ms; conns ::= delete c |> in
  if sd && cs_alive cs then m0 <| mo := mo m0 ++ [(c, Shutdown, None)] |> else m0.

Lemma sc_aborts_mstep cs m : mstep m (sc_aborts cs m).
Proof. unfold sc_aborts. apply foldr_mstep. intros m' x. apply m_work; reflexivity. Qed.

Lemma shutdown_conn_mstep m c sd :
  res (fun m' => match conns (ms m) !! c with
                 | None => m' = m
                 | Some cs => mstep (sc_start m c cs sd) m'
                 end) never (shutdown_conn m c sd).
Proof.
  rewrite shutdown_conn_eq. destruct (conns (ms m) !! c) as [cs|] eqn:E; [|reflexivity].
  cbv zeta. fold (sc_start m c cs sd). generalize (sc_start m c cs sd). intros m1.
  match goal with |- res _ _ (foldO _ _ ?x >>> _) => apply (res_mstep_trans _ x) end.
  { apply foldl_mstep; intros; apply remove_listener_mstep. }
  apply bind_mstep; [apply foldO_mstep; intros; apply remove_object_mstep|]. intros m3 _.
  apply bind_mstep; [apply foldO_mstep; intros; apply sc_ev_mstep|]. intros m4 _.
  apply bind_mstep; [apply foldO_mstep; intros; apply sc_all_mstep|]. intros m5 _.
  match goal with |- res _ _ (foldO _ _ ?x >>> _) => apply (res_mstep_trans _ x) end.
  { apply m_ms1, u_subs. }
  apply bind_mstep; [apply foldO_mstep; intros; apply sc_end_mstep|]. intros m7 _.
  apply bind_mstep; [apply foldO_mstep; intros; apply sc_end_mstep|]. intros m8 _.
  cbn [res]. peel; [apply sc_aborts_mstep|apply u_st].
Qed.

(* ---------------------------------------------------------------- state predicates, generically *)
Section closed_cascade.
  Context (Q : state -> Prop) (HQ : closed Q).

  Lemma mstep_sp m o : Q (ms m) -> res (mstep m) never o -> res (SP Q) never o.
  Proof.
    intros H Ho. eapply res_mono; [exact Ho| |auto]. intros m' Hm'. unfold SP. by eapply mstep_closed.
  Qed.

  Lemma remove_listener_closed m k : Q (ms m) -> Q (ms (remove_listener m k)).
  Proof. intros H. eapply mstep_closed; [exact HQ|apply remove_listener_mstep|exact H]. Qed.
  Lemma remove_end_closed m k e : Q (ms m) -> res (SP Q) never (remove_end m k e).
  Proof. intros H. apply (mstep_sp m); [exact H|apply remove_end_mstep]. Qed.
  Lemma remove_service_closed m k : Q (ms m) -> res (SP Q) never (remove_service m k).
  Proof. intros H. apply (mstep_sp m); [exact H|apply remove_service_mstep]. Qed.
  Lemma remove_object_closed m k : Q (ms m) -> res (SP Q) never (remove_object m k).
  Proof. intros H. apply (mstep_sp m); [exact H|apply remove_object_mstep]. Qed.

  (* with the deletion of a connection entry as well: the whole work loop *)
  Context (HQc : forall s c, Q s -> Q (s <| conns ::= delete c |>)).

  Lemma shutdown_conn_closed m c sd : Q (ms m) -> res (SP Q) never (shutdown_conn m c sd).
  Proof.
    intros H. eapply res_mono; [apply shutdown_conn_mstep| |auto].
    intros m'. cbv beta. destruct (conns (ms m) !! c) as [cs|]; [|intros ->; exact H].
    intros Hm'. unfold SP. eapply mstep_closed; [exact HQ|exact Hm'|].
    unfold sc_start. cbv zeta. destruct (_ && _); cbn; apply HQc, H.
  Qed.

  Lemma settle_closed fuel m : Q (ms m) -> res (SP Q) never (settle fuel m).
  Proof.
    apply settle_sp.
    - intros. by apply shutdown_conn_closed.
    - intros s c cs serial H E _. eapply HQ; [|exact H]. by apply u_call_done.
    - intros s b cl H E. eapply HQ; [|exact H]. by apply u_call_abort.
  Qed.

  Lemma settle_done_closed fuel m m' : Q (ms m) -> settle fuel m = Done m' -> Q (ms m').
  Proof. intros H E. pose proof (settle_closed fuel m H) as H'. rewrite E in H'. exact H'. Qed.
End closed_cascade.
