(* Broker/InvProofsHandle3.v — message handlers, part 3: calls and replies, and the dispatcher:
   every message from any connection leaves the machine in an [MI] state without reaching a
   panic site. *)
From stdpp Require Import gmap list.
From RecordUpdate Require Import RecordSet.
Import RecordSetNotations.
From Aldrin Require Import gen.BrokerConsts Broker.Model Broker.Run Broker.ChannelProofs Broker.Inv Broker.SerialAlloc
  Broker.InvProofsBase Broker.InvProofsCalls Broker.InvProofsRemove Broker.InvProofsRemoveSvc
  Broker.InvProofsShutdown Broker.InvProofsHandle1 Broker.InvProofsHandle2.
From Coq Require Import Lia.
Local Open Scope N_scope.

(* a service entry replaced by one with the same identity and subscribers *)
Lemma svc_update_reg O X S k s s' :
  S !! k = Some s → s_cookie s' = s_cookie s → s_obj_cookie s' = s_obj_cookie s → svc_own X s' →
  reg_so O S → uniq_svc S → own_svc X S →
  reg_so O (<[k := s']> S) ∧ uniq_svc (<[k := s']> S) ∧ own_svc X (<[k := s']> S).
Proof.
  intros Hk E1 E2 Hown Hreg Hus Hos. split; [|split].
  - intros k' sv. rewrite lookup_insert_Some. intros [[<- <-]|[_ Hk']]; [|eauto].
    destruct (Hreg _ _ Hk) as (o & ? & ?). exists o. split; [done|congruence].
  - intros k1 k2 s1 s2. rewrite !lookup_insert_Some.
    intros [[<- <-]|[N1 H1]] [[<- <-]|[N2 H2]] Hc; try done.
    + eapply Hus; eauto. congruence.
    + eapply Hus; eauto. congruence.
    + eapply Hus; eauto.
  - intros k' sv. rewrite lookup_insert_Some. intros [[<- <-]|[_ Hk']]; [done|eauto].
Qed.

(* ---------------------------------------------------------------- call_impl *)
(* what [legal] says about the broker-side serial: fewer than 2^32 calls are pending and the
   serial observed on the implementation's trace, if any, is the allocator's choice *)
Definition bserial_ok (s : state) (bserial : option N) : Prop :=
  N.of_nat (size (calls s)) < 4294967296 ∧
  match bserial with Some b => ∃ nxt, sm_choice s = Some (b, nxt) | None => True end.

Lemma pick_serial_ok s bserial :
  calls_bound (calls s) (next s) → bserial_ok s bserial →
  ∃ b nxt, pick_serial s bserial = Some (b, nxt) ∧ calls s !! b = None ∧ nxt < 4294967296 ∧
           b < 4294967296.
Proof.
  intros [Hn Hcb] [Hsz Hl]. destruct (sm_choice_is_Some s Hn Hsz) as [[b nxt] Hc].
  destruct (sm_choice_Some s b nxt Hn Hc) as (Hv & Hb & _ & Hnx & _).
  exists b, nxt. split; [|done]. apply pick_serial_Some. split; [done|].
  destruct bserial as [b'|]; [|by left]. right. destruct Hl as [nxt' Hl]. congruence.
Qed.

Lemma h_call_impl m c cs serial sc fn ver v bserial :
  MI m → w_rm_call (mw m) = [] → conns (ms m) !! c = Some cs →
  bserial_ok (ms m) bserial →
  good (call_impl m c serial sc fn ver v bserial).
Proof.
  intros H Hq0 Hc Hl. unfold call_impl.
  destruct (svc_by_cookie (ms m) sc) as [[k s0]|] eqn:E; [|apply good_send; eauto].
  apply svc_by_cookie_Some in E as [Hk _].
  destruct (owner_of_svc_reg (ms m) k s0) as (o & Ho & -> & _); [apply H|done|]. rewrite Hc.
  destruct (pick_serial_ok (ms m) bserial (iv_cb _ _ _ _ _ H) Hl) as (b & nxt & -> & Hb & Hn & Hbn).
  set (m0 := m <| ms; next := nxt |>).
  assert (MI m0) as H0.
  { unfold MI, MX, MO in *. subst m0. mx_frame H. split; [exact Hn|]. apply (proj2 Hcb). }
  destruct (bool_decide_reflect (is_Some (cs_calls cs !! serial))) as [|Hns]; [done|].
  apply eq_None_not_Some in Hns. subst m0. cbn [ms svcs conns set]. cbn. rewrite Hk.
  pose proof (iv_oo _ _ _ _ _ H _ _ Ho) as Hoc. apply elem_of_dom in Hoc as [ocs Hoc]. rewrite Hoc.
  set (cl := {| c_caller := c; c_serial := serial; c_svc := k; c_aborted := false |}).
  match goal with |- good (if _ then send_or_remove ?a _ _ _ else _) => set (m1 := a) end.
  assert (dom (conns (ms m1)) = dom (conns (ms m))) as Hdom.
  { subst m1. cbn. rewrite dom_insert_L. apply elem_of_dom_2 in Hc. set_solver. }
  assert (MI m1) as H1.
  { unfold MI. rewrite Hdom. unfold MI, MX, MO in *. rewrite Hq0 in H. subst m1. cbn. rewrite Hq0.
    destruct (iv_os _ _ _ _ _ H _ _ Hk) as (G1 & G2 & G3).
    pose (s0' := s0 <| s_calls ::= fun x => {[b]} ∪ x |>).
    destruct (svc_update_reg _ _ _ k s0 s0' Hk eq_refl eq_refl
                (conj G1 (conj G2 G3)) (iv_reg _ _ _ _ _ H) (iv_us _ _ _ _ _ H) (iv_os _ _ _ _ _ H)) as (R1 & R2 & R3).
    subst s0'.
    mx_frame H.
    - (* calls_svc *)
      intros b' cl'. rewrite lookup_insert_Some. intros [[<- <-]|[Hne Hb']].
      + cbn. rewrite lookup_insert. eexists. split; [done|]. cbn. set_solver.
      + destruct (Hcs _ _ Hb') as (sv & Hsv & Hin). destruct (decide (c_svc cl' = k)) as [Heq|Hnk].
        * rewrite Heq, lookup_insert. eexists. split; [done|]. cbn. rewrite Heq, Hk in Hsv. inversion Hsv. set_solver.
        * rewrite lookup_insert_ne by done. eauto.
    - (* svc_calls *)
      intros k' sv b'. rewrite lookup_insert_Some. intros [[<- <-]|[Hnk Hk']] Hin.
      + cbn in Hin. apply elem_of_union in Hin as [->%elem_of_singleton|Hin].
        * rewrite lookup_insert. eauto.
        * destruct (Hsc _ _ _ Hk Hin) as (cl' & Hb' & Hs'). exists cl'. split; [|done].
          rewrite lookup_insert_ne; [done|]. intros <-. congruence.
      + destruct (Hsc _ _ _ Hk' Hin) as (cl' & Hb' & Hs'). exists cl'. split; [|done].
        rewrite lookup_insert_ne; [done|]. intros <-. congruence.
    - (* calls_bound *)
      split; [exact Hn|]. intros b' Hs. apply lookup_insert_is_Some in Hs as [<-|[_ Hs]]; [done|]. by apply (proj2 Hcb).
    - (* call_entry *)
      intros b' cl' cs'. rewrite lookup_insert_Some. intros [[<- <-]|[Hne Hb']] Ha' Hc'.
      + cbn in Hc'. rewrite lookup_insert in Hc'. inversion Hc'; subst cs'. cbn. rewrite lookup_insert. eauto.
      + apply lookup_insert_Some in Hc' as [[Heq <-]|[Hnc Hc']]; [|eauto].
        rewrite Heq in Hc. destruct (Hce _ _ _ Hb' Ha' Hc) as (ce & He). exists ce. cbn.
        rewrite lookup_insert_ne; [done|]. intros Hs. rewrite <- Hs in He. congruence.
    - (* entry_call *)
      intros c' cs' serial' b' ce. rewrite lookup_insert_Some. intros [[<- <-]|[Hnc Hc']].
      + cbn. rewrite lookup_insert_Some. intros [[<- [= <- <-]]|[Hns' He]].
        * left. exists cl. rewrite lookup_insert. done.
        * destruct (Hec _ _ _ _ _ Hc He) as [(cl' & G & G')|[_ [r Hr]]]; [|by apply elem_of_nil in Hr].
          left. exists cl'. split; [|done]. rewrite lookup_insert_ne; [done|]. intros <-. congruence.
      + intros He. destruct (Hec _ _ _ _ _ Hc' He) as [(cl' & G & G')|[_ [r Hr]]]; [|by apply elem_of_nil in Hr].
        left. exists cl'. split; [|done]. rewrite lookup_insert_ne; [done|]. intros <-. congruence.
    - (* rmq_entry *) intros serial' c' r cs' Hr. by apply elem_of_nil in Hr.
    - (* caller_live *)
      intros b' cl'. rewrite lookup_insert_Some. intros [[<- <-]|[Hne Hb']] Ha'; [|eauto].
      left. cbn. by apply elem_of_dom_2 in Hc. }
  assert (is_Some (conns (ms m1) !! o_owner o)) as Hcallee.
  { apply elem_of_dom. rewrite Hdom. apply elem_of_dom. eauto. }
  destruct (_ <=? _); (apply (goodq_good m1); [done|by apply send_or_remove_goodq]).
Qed.

(* ---------------------------------------------------------------- call_function_reply *)
Lemma reply_svc_clauses S K b cl s :
  calls_svc S K → svc_calls S K → K !! b = Some cl → S !! c_svc cl = Some s →
  let S' := <[c_svc cl := s <| s_calls ::= fun x => x ∖ {[b]} |>]> S in
  calls_svc S' (delete b K) ∧ svc_calls S' (delete b K).
Proof.
  intros Hcs Hsc Hb Hk S'. split.
  - intros b' cl'. rewrite lookup_delete_Some. intros [Hne Hb']. destruct (Hcs _ _ Hb') as (sv & Hsv & Hin).
    unfold S'. destruct (decide (c_svc cl' = c_svc cl)) as [Heq|Hnk].
    + rewrite Heq, lookup_insert. eexists. split; [done|]. cbn. rewrite Heq, Hk in Hsv. inversion Hsv. set_solver.
    + rewrite lookup_insert_ne by done. eauto.
  - intros k' sv b'. unfold S'. rewrite lookup_insert_Some. intros [[<- <-]|[Hnk Hk']] Hin.
    + cbn in Hin. apply elem_of_difference in Hin as [Hin Hnb]. destruct (Hsc _ _ _ Hk Hin) as (cl' & Hb' & Hs').
      exists cl'. split; [|done]. rewrite lookup_delete_ne; [done|]. set_solver.
    + destruct (Hsc _ _ _ Hk' Hin) as (cl' & Hb' & Hs'). exists cl'. split; [|done].
      rewrite lookup_delete_ne; [done|]. intros <-. congruence.
Qed.

Lemma PC_delete_aborted q Cn K b cl :
  K !! b = Some cl → c_aborted cl = true → PC q Cn K → PC q Cn (delete b K).
Proof.
  intros Hb Ha (P1 & P2 & P3 & P4). split; [eapply call_entry_mono; [apply delete_subseteq|done]|].
  split; [by eapply entry_call_delete_aborted|]. split; [by apply rmq_entry_delete|done].
Qed.

Lemma h_call_function_reply m c cs serial result :
  MI m → conns (ms m) !! c = Some cs →
  good (match calls (ms m) !! serial with
      | None => Done m
      | Some cl =>
          match owner_of_svc (ms m) (c_svc cl), svcs (ms m) !! c_svc cl with
          | Some owner, Some s =>
              if negb (bool_decide (owner = c)) then Done m else
              if negb (bool_decide (serial ∈ s_calls s)) then Panic 24 else
              let m1 := m <| ms; calls ::= delete serial |>
                          <| ms; svcs ::= <[c_svc cl := s <| s_calls ::= fun x => x ∖ {[serial]} |>]> |> in
              if c_aborted cl then Done m1 else
              match conns (ms m1) !! c_caller cl with
              | None => Done m1
              | Some ccs =>
                  match cs_calls ccs !! c_serial cl with
                  | None => Panic 25
                  | Some _ =>
                      let m2 := m1 <| ms; conns ::= <[c_caller cl := ccs <| cs_calls ::= delete (c_serial cl) |>]> |> in
                      send_or_remove m2 (c_caller cl) (CallFunctionReply (c_serial cl) result) (Some (cs_ver cs))
                  end
              end
          | _, _ => Panic 26
          end
      end).
Proof.
  intros H Hc. destruct (calls (ms m) !! serial) as [cl|] eqn:Eb; [|done].
  destruct (iv_cs _ _ _ _ _ H _ _ Eb) as (s & Hk & Hin).
  destruct (owner_of_svc_reg (ms m) _ s (iv_reg _ _ _ _ _ H) Hk) as (o & Ho & -> & _). rewrite Hk.
  destruct (negb (bool_decide (o_owner o = c))); [done|].
  rewrite bool_decide_eq_true_2 by done. cbn [negb]. cbn zeta.
  set (s' := s <| s_calls ::= fun x => x ∖ {[serial]} |>).
  destruct (iv_os _ _ _ _ _ H _ _ Hk) as (G1 & G2 & G3).
  destruct (svc_update_reg _ _ _ (c_svc cl) s s' Hk eq_refl eq_refl
              (conj G1 (conj G2 G3)) (iv_reg _ _ _ _ _ H) (iv_us _ _ _ _ _ H) (iv_os _ _ _ _ _ H)) as (R1 & R2 & R3).
  destruct (reply_svc_clauses _ _ _ _ _ (iv_cs _ _ _ _ _ H) (iv_sc _ _ _ _ _ H) Eb Hk) as [R4 R5].
  assert (PC (w_rm_call (mw m)) (conns (ms m)) (calls (ms m))) as HPC.
  { split; [apply H|]. split; [apply H|]. split; apply H. }
  destruct (c_aborted cl) eqn:Ea.
  { destruct (PC_delete_aborted _ _ _ _ _ Eb Ea HPC) as (P1 & P2 & P3 & P4).
    cbn. unfold MI, MX, MO in *. mx_frame H.
    - eapply calls_bound_mono; [apply delete_subseteq|reflexivity|done].
    - eapply caller_live_mono; [apply delete_subseteq| |done]. done. }
  pose proof (mark_pend _ _ _ Eb Ea _ _ HPC) as Hp. cbn [ms conns set]. cbn.
  destruct (conns (ms m) !! c_caller cl) as [ccs|] eqn:Ecc.
  - destruct Hp as ([p Hp1] & HP). rewrite Hp1.
    eapply (PC_delete_aborted _ _ _ serial) in HP as (P1 & P2 & P3 & P4); [|apply lookup_insert|done].
    rewrite delete_insert_delete in P1, P2, P3.
    match goal with |- good (send_or_remove ?a _ _ _) => set (m2 := a) end.
    assert (dom (conns (ms m2)) = dom (conns (ms m))) as Hdom.
    { subst m2. cbn. rewrite dom_insert_L. apply elem_of_dom_2 in Ecc. set_solver. }
    apply (goodq_good m2).
    + unfold MI. rewrite Hdom. unfold MI, MX, MO in *. subst m2. cbn. mx_frame H.
      * eapply calls_bound_mono; [apply delete_subseteq|reflexivity|done].
      * eapply caller_live_mono; [apply delete_subseteq| |done]. done.
    + apply send_or_remove_goodq. subst m2. cbn. rewrite lookup_insert. eauto.
  - eapply (PC_delete_aborted _ _ _ serial) in Hp as (P1 & P2 & P3 & P4); [|apply lookup_insert|done].
    rewrite delete_insert_delete in P1, P2, P3.
    cbn. unfold MI, MX, MO in *. mx_frame H.
    + eapply calls_bound_mono; [apply delete_subseteq|reflexivity|done].
    + eapply caller_live_mono; [apply delete_subseteq| |done]. done.
Qed.

(* ---------------------------------------------------------------- the dispatcher *)
Definition msg_caps_ok (x : msg) : Prop :=
  match x with
  | CreateChannel _ (CReceiver cap) | ClaimChannelEnd _ _ (CReceiver cap) | AddChannelCapacity _ cap => cap <= u32_max
  | _ => True
  end.

Theorem handle_good m c x fresh bserial :
  MI m → w_rm_call (mw m) = [] → fresh ∉ cookies_in_use (ms m) → bserial_ok (ms m) bserial →
  msg_caps_ok x →
  good (handle m c x fresh bserial).
Proof.
  intros H Hq0 Hf Hbs Hcap. unfold handle. destruct (conns (ms m) !! c) as [cs|] eqn:Hc; [|done].
  assert (is_Some (conns (ms m) !! c)) as Hc' by eauto.
  destruct x; cbn zeta; try exact H.
  - by apply h_create_object.
  - by apply h_destroy_object.
  - by apply h_create_service_impl.
  - apply good_gate; [done|]. by apply h_create_service_impl.
  - by apply h_destroy_service.
  - by eapply h_call_impl.
  - apply good_gate; [done|]. by eapply h_call_impl.
  - by eapply h_call_function_reply.
  - destruct serial; [|done]. by apply h_subscribe_event.
  - by apply h_unsubscribe_event.
  - by eapply h_emit_event.
  - by apply good_send.
  - apply h_create_channel; [done..|]. destruct e; done.
  - by apply h_close_channel_end.
  - apply h_claim_channel_end; [done..|]. destruct e; done.
  - by apply h_add_channel_capacity.
  - by eapply h_send_item.
  - by apply good_send.
  - by apply h_create_bus_listener.
  - by apply h_destroy_bus_listener.
  - by apply (h_listener_update m c c0 (fun l => l <| l_filters ::= filters_insert f |>)).
  - by apply (h_listener_update m c c0 (fun l => l <| l_filters ::= filters_remove f |>)).
  - by apply (h_listener_update m c c0 (fun l => l <| l_filters := [] |>)).
  - by apply h_start_bus_listener.
  - by apply h_stop_bus_listener.
  - apply good_gate; [done|]. by apply h_abort_function_call.
  - by apply good_gate.
  - apply good_gate; [done|]. by apply good_send.
  - apply good_gate; [done|]. by apply good_send.
  - apply good_gate; [done|]. by apply h_subscribe_service.
  - apply good_gate; [done|]. by apply h_unsubscribe_service.
  - apply good_gate; [done|]. by apply h_subscribe_all_events.
  - apply good_gate; [done|]. by apply h_unsubscribe_all_events.
Qed.
