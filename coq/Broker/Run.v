(* Broker/Run.v — histories: the broker run loop as a fold of [step] over a list of events, each
   with the model inputs read off the implementation (fresh cookie; the broker-side call serial,
   which the model computes itself and only compares), and
   the legality conditions on those inputs that the theorems assume. *)
From stdpp Require Import gmap list.
From RecordUpdate Require Import RecordSet.
From Aldrin Require Import gen.BrokerConsts Broker.Model.
Local Open Scope N_scope.

Record input := { i_ev : event; i_fresh : uuid; i_bserial : option N }.

(* all cookies currently in use *)
Definition cookies_in_use (s : state) : gset uuid :=
  list_to_set ((fun p => o_cookie p.2) <$> map_to_list (objs s)) ∪
  list_to_set ((fun p => s_cookie p.2) <$> map_to_list (svcs s)) ∪
  dom (chans s) ∪ dom (listeners s).

(* what the environment guarantees about one input in state [s]:
   - Uuid::new_v4 yields a cookie that is not in use (and differs from the uuids clients chose
     is not needed: cookies and uuids live in different maps);
   - ConnectionId's are never reused for a new connection;
   - fewer than 2^32 calls are pending (otherwise SerialMap::insert would not terminate; the
     model's allocator then succeeds, SerialProofs.sm_choice_is_Some), and the broker-side serial
     read off the implementation's trace, when visible, is the one the model's allocator
     [sm_choice] picks in this state (the call handler runs on the pre-step state [s]; no other
     handler looks at [i_bserial]);
   - wire-level ranges: capacities are u32 *)
Definition legal (s : state) (i : input) : Prop :=
  i_fresh i ∉ cookies_in_use s /\
  (match i_ev i with NewConnection c _ => conns s !! c = None | _ => True end) /\
  (N.of_nat (size (calls s)) < 4294967296 /\
   match i_bserial i with Some b => exists nxt, sm_choice s = Some (b, nxt) | None => True end) /\
  (match i_ev i with
   | Message _ (CreateChannel _ (CReceiver cap)) | Message _ (ClaimChannelEnd _ _ (CReceiver cap))
   | Message _ (AddChannelCapacity _ cap) => cap <= u32_max
   | _ => True
   end).

(* run a history; the result is the final state and the outputs of every step, or the first
   panic site *)
Fixpoint run (s : state) (h : list input) : outcome (state * list (list out)) :=
  match h with
  | [] => Done (s, [])
  | i :: rest =>
      match step s (i_ev i) (i_fresh i) (i_bserial i) with
      | Done (s', o) | Fail (s', o) =>
          match run s' rest with
          | Done (s'', os) | Fail (s'', os) => Done (s'', o :: os)
          | Panic site => Panic site
          end
      | Panic site => Panic site
      end
  end.

(* reachability with legal inputs *)
Inductive reachable : state -> Prop :=
| reach_init : reachable init
| reach_step s i s' o : reachable s -> legal s i ->
    step s (i_ev i) (i_fresh i) (i_bserial i) = Done (s', o) -> reachable s'.

(* message kinds, for statements about what a step may output *)
Definition is_reply_to (serial : N) (m : msg) : bool :=
  match m with CallFunctionReply s _ => bool_decide (s = serial) | _ => false end.
Definition outs_to (c : conn) (l : list out) : list msg :=
  (fun o => o.1.2) <$> List.filter (fun o : out => bool_decide (o.1.1 = c)) l.
