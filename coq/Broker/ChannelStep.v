(* Broker/ChannelStep.v — what the broker's channel handlers output (C05): one ItemReceived per
   accepted item in the same step, replenishment to the sender, exhaustion closes only the
   sender end, overflow closes only the receiver end, the end state machine of claim/close. *)
From stdpp Require Import gmap list.
From RecordUpdate Require Import RecordSet.
Import RecordSetNotations.
From Aldrin Require Import gen.BrokerConsts Broker.Model Broker.ChannelProofs.
From Coq Require Import ZifyBool ZifyNat ZifyN Lia.
Local Open Scope N_scope.

Definition fresh_M (s : state) : M := {| ms := s; mw := work0; mo := [] |}.

Definition alive (s : state) (c : conn) : Prop :=
  exists cs, conns s !! c = Some cs /\ cs_alive cs = true.

Lemma send_alive m c x from cs :
  conns (ms m) !! c = Some cs -> cs_alive cs = true ->
  send m c x from = Done (m <| mo := mo m ++ [(c, x, from)] |>).
Proof. intros H1 H2. unfold send. rewrite H1, H2. reflexivity. Qed.

Lemma send_or_remove_alive m c x from cs :
  conns (ms m) !! c = Some cs -> cs_alive cs = true ->
  send_or_remove m c x from = Done (m <| mo := mo m ++ [(c, x, from)] |>).
Proof. intros H1 H2. unfold send_or_remove. rewrite (send_alive _ _ _ _ _ H1 H2). reflexivity. Qed.

Lemma has_true m c cs : conns (ms m) !! c = Some cs -> has m c = true.
Proof. intros H. unfold has. rewrite H. apply bool_decide_eq_true. eauto. Qed.

(* an accepted item: exactly one ItemReceived to the receiver's owner, payload and the sender's
   version attached, then the replenishment (if any) to the sender, nothing else; the channel's
   counters are those of chan_send_item *)
Theorem send_item_forward s c cs cookie v ch ch' ro rcs add fresh b :
  conns s !! c = Some cs -> cs_alive cs = true ->
  chans s !! cookie = Some ch ->
  chan_send_item ch c = ItemForward ch' ro add ->
  conns s !! ro = Some rcs -> cs_alive rcs = true ->
  exists m', handle (fresh_M s) c (SendItem cookie v) fresh b = Done m' /\
    mo m' = (ro, ItemReceived cookie v, Some (cs_ver cs)) ::
            match add with Some a => [(c, AddChannelCapacity cookie a, None)] | None => [] end /\
    chans (ms m') !! cookie = Some ch' /\ mw m' = work0.
Proof.
  intros Hc Ha Hch Hs Hro Hra. unfold handle, fresh_M. cbn [ms]. rewrite Hc, Hch, Hs.
  set (m1 := _ <| ms; chans ::= _ |>).
  assert (conns (ms m1) !! ro = Some rcs) as Hro1 by exact Hro.
  rewrite (has_true m1 ro rcs Hro1). cbn [negb].
  rewrite (send_or_remove_alive m1 ro _ _ rcs Hro1 Hra). cbn [andThen].
  destruct add as [a|].
  - erewrite send_alive; [|exact Hc|exact Ha]. eexists. split; [reflexivity|].
    cbn. rewrite lookup_insert. auto.
  - eexists. split; [reflexivity|]. cbn. rewrite lookup_insert. auto.
Qed.

(* a sender out of credit loses only its own end: the receiver's owner is told once *)
Theorem send_item_exhausted s c cs cookie v ch ro rcs fresh b :
  conns s !! c = Some cs ->
  chans s !! cookie = Some ch ->
  chan_send_item ch c = ItemExhausted ->
  ch_r ch = Claimed ro 0 -> conns s !! ro = Some rcs -> cs_alive rcs = true ->
  exists m', handle (fresh_M s) c (SendItem cookie v) fresh b = Done m' /\
    mo m' = [(ro, ChannelEndClosed cookie ESender, None)] /\
    chans (ms m') !! cookie = Some (ch <| ch_s := Closed |>).
Proof.
  intros Hc Hch Hs Hr Hro Hra. unfold handle, fresh_M. cbn [ms]. rewrite Hc, Hch, Hs.
  unfold remove_end. cbn [ms]. rewrite Hch.
  unfold chan_send_item in Hs. destruct (ch_s ch) as [|so sc|] eqn:Es; try discriminate.
  destruct (negb _); [discriminate|]. rewrite Hr in Hs.
  destruct (sc =? 0); [|destruct (0 =? 0); discriminate].
  unfold chan_close. rewrite Es, Hr.
  set (m1 := _ <| ms; chans ::= _ |>).
  assert (conns (ms m1) !! ro = Some rcs) as Hro1 by exact Hro.
  rewrite (has_true m1 ro rcs Hro1), (send_or_remove_alive m1 ro _ _ rcs Hro1 Hra).
  eexists. split; [reflexivity|]. cbn. rewrite lookup_insert. auto.
Qed.

(* a grant that would overflow u32 closes only the receiver end: the sender's owner is told *)
Theorem add_capacity_overflow s c cs cookie cap ch so sc scs fresh b :
  conns s !! c = Some cs ->
  chans s !! cookie = Some ch ->
  chan_add_capacity ch c cap = AddOverflow ->
  ch_s ch = Claimed so sc -> conns s !! so = Some scs -> cs_alive scs = true ->
  exists m', handle (fresh_M s) c (AddChannelCapacity cookie cap) fresh b = Done m' /\
    mo m' = [(so, ChannelEndClosed cookie EReceiver, None)] /\
    chans (ms m') !! cookie = Some (ch <| ch_r := Closed |>).
Proof.
  intros Hc Hch Ha Hs Hso Hsa. unfold handle, fresh_M. cbn [ms]. rewrite Hc, Hch, Ha.
  unfold remove_end. cbn [ms]. rewrite Hch.
  unfold chan_add_capacity in Ha. destruct (cap =? 0); [discriminate|].
  destruct (ch_r ch) as [|ro rc|] eqn:Er; try discriminate.
  unfold chan_close. rewrite Er, Hs.
  set (m1 := _ <| ms; chans ::= _ |>).
  assert (conns (ms m1) !! so = Some scs) as Hso1 by exact Hso.
  rewrite (has_true m1 so scs Hso1), (send_or_remove_alive m1 so _ _ scs Hso1 Hsa).
  eexists. split; [reflexivity|]. cbn. rewrite lookup_insert. auto.
Qed.

(* within the announced credit the sender is never cut off: with a positive sender capacity an
   item is forwarded (never Exhausted), whatever else happened on the channel *)
Theorem within_credit_forwarded ch c so sc ro rc :
  chan_ok ch -> ch_s ch = Claimed so sc -> ch_r ch = Claimed ro rc -> so = c -> 0 < sc ->
  exists ch' add, chan_send_item ch c = ItemForward ch' ro add.
Proof.
  intros Hok Hs Hr -> Hpos. unfold chan_send_item. rewrite Hs, Hr.
  rewrite bool_decide_eq_true_2 by reflexivity. cbn [negb].
  unfold chan_ok in Hok. rewrite Hs, Hr in Hok.
  destruct (N.eqb_spec sc 0); [lia|]. destruct (N.eqb_spec rc 0); [lia|]. eauto.
Qed.

(* the end state machine: an end can be claimed only while Unclaimed, so at most once *)
Theorem claim_once ch c e ch' other r c2 :
  chan_claim ch c e = ClaimOk ch' other r ->
  exists r', chan_claim ch' c2 e = ClaimErr r' /\ r' = CLAlready.
Proof.
  unfold chan_claim. destruct e as [|cap].
  - destruct (ch_s ch); try discriminate. destruct (ch_r ch); try discriminate.
    intros H; inversion H; subst. cbn. eauto.
  - destruct (ch_r ch); try discriminate. destruct (ch_s ch); try discriminate.
    intros H; inversion H; subst. cbn. eauto.
Qed.

Theorem close_result_spec ch c e :
  chan_close_result ch c e =
  match (match e with ESender => ch_s ch | EReceiver => ch_r ch end) with
  | Unclaimed => R3Ok
  | Claimed o _ => if bool_decide (o = c) then R3Ok else R3Foreign
  | Closed => R3Invalid
  end.
Proof. reflexivity. Qed.
