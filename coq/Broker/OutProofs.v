(* Broker/OutProofs.v — what the broker outputs, by kind: a pass over the removal cascade, the
   work loop and the handlers that tracks only the appended outputs (and that the work loop never
   refills the creation queues).  Used for C12 (payload tags, broker-made messages carry no
   version) and C10 (nothing but start_bus_listener emits tagged events; order of bus events
   within a step). *)
From stdpp Require Import gmap list.
From RecordUpdate Require Import RecordSet.
Import RecordSetNotations.
From Aldrin Require Import gen.BrokerConsts Broker.Model Broker.Run Broker.GateProofs.
From Coq Require Import ZifyBool ZifyNat ZifyN Lia.
Local Open Scope N_scope.

(* [Rout Q m m']: the creation queues are untouched and the outputs grew by messages satisfying Q *)
Definition Rout (Q : out -> Prop) (m m' : M) : Prop :=
  w_create_obj (mw m') = w_create_obj (mw m) /\ w_create_svc (mw m') = w_create_svc (mw m) /\
  exists new, mo m' = mo m ++ new /\ Forall Q new.

Lemma Rout_refl Q m : Rout Q m m.
Proof. split; [reflexivity|]. split; [reflexivity|]. exists []. rewrite app_nil_r. auto. Qed.
Lemma Rout_trans Q a b c : Rout Q a b -> Rout Q b c -> Rout Q a c.
Proof.
  intros (A1 & A2 & n1 & E1 & F1) (B1 & B2 & n2 & E2 & F2).
  split; [congruence|]. split; [congruence|]. exists (n1 ++ n2).
  split; [rewrite E2, E1, app_assoc; reflexivity|apply Forall_app; auto].
Qed.
Lemma Rout_same Q m m' :
  w_create_obj (mw m') = w_create_obj (mw m) -> w_create_svc (mw m') = w_create_svc (mw m) ->
  mo m' = mo m -> Rout Q m m'.
Proof. intros A B C. split; [exact A|]. split; [exact B|]. exists []. rewrite app_nil_r. auto. Qed.
Lemma Rout_weaken (Q Q' : out -> Prop) m m' : (forall o, Q o -> Q' o) -> Rout Q m m' -> Rout Q' m m'.
Proof. intros H (A & B & n & E & F). split; [exact A|]. split; [exact B|]. exists n. split; [exact E|]. eapply Forall_impl; eassumption. Qed.

Ltac osame := apply Rout_same; reflexivity.

Section out_pass.
Context (Q : out -> Prop).
Notation oRo := (oR (Rout Q)).

Lemma oRo_bind m x f : oRo m x -> (forall m1, oRo m1 (f m1)) -> oRo m (x >>> f).
Proof. apply oR_bind. apply Rout_trans. Qed.
Lemma oRo_step m m1 x : Rout Q m m1 -> oRo m1 x -> oRo m x.
Proof. apply oR_step. apply Rout_trans. Qed.
Lemma oRo_foldO {A} (f : M -> A -> outcome M) l :
  (forall m a, oRo m (f m a)) -> forall m, oRo m (foldO f l m).
Proof. apply oR_foldO; [apply Rout_refl|apply Rout_trans]. Qed.
Lemma Ro_foldl {A} (f : M -> A -> M) l : (forall m a, Rout Q m (f m a)) -> forall m, Rout Q m (foldl f m l).
Proof. apply R_foldl; [apply Rout_refl|apply Rout_trans]. Qed.
Lemma Ro_foldr {A} (f : A -> M -> M) l : (forall m a, Rout Q m (f a m)) -> forall m, Rout Q m (foldr f m l).
Proof. apply R_foldr; [apply Rout_refl|apply Rout_trans]. Qed.

Lemma send_Ro m c x from : Q (c, x, from) -> oRo m (send m c x from).
Proof.
  intros HQ. unfold send. destruct (conns (ms m) !! c) as [cs|]; [|exact I].
  destruct (cs_alive cs); [|apply Rout_refl]. cbn. split; [reflexivity|]. split; [reflexivity|].
  exists [(c, x, from)]. split; [reflexivity|]. constructor; [exact HQ|constructor].
Qed.
Lemma push_remove_Ro m c sd : Rout Q m (push_remove m c sd).
Proof. osame. Qed.
Lemma send_or_remove_Ro m c x from : Q (c, x, from) -> oRo m (send_or_remove m c x from).
Proof.
  intros HQ. pose proof (send_Ro m c x from HQ) as H. unfold send_or_remove.
  destruct (send m c x from) as [m'|m'|]; cbn in *; [exact H| |exact I].
  eapply Rout_trans; [exact H|apply push_remove_Ro].
Qed.
Lemma send_ignore_Ro m c x from : Q (c, x, from) -> oRo m (send_ignore m c x from).
Proof.
  intros HQ. pose proof (send_Ro m c x from HQ) as H. unfold send_ignore.
  destruct (send m c x from) as [m'|m'|]; cbn in *; assumption.
Qed.

Ltac ovia_fold :=
  lazymatch goal with
  | |- oR (Rout Q) _ (foldO _ _ ?m1 >>> _) => apply (oRo_step _ m1)
  | |- oR (Rout Q) _ (foldO _ _ ?m1) => apply (oRo_step _ m1)
  end.
Ltac ovia_foldr :=
  lazymatch goal with
  | |- Rout Q _ ?t => match t with context [foldr ?f ?a ?l] => apply (Rout_trans Q _ (foldr f a l)) end
  end.

(* ---- the removal cascade only ever sends ChannelEndClosed *)
Context (Qcec : forall c k e, Q (c, ChannelEndClosed k e, None)).

Lemma remove_listener_Ro m k : Rout Q m (remove_listener m k).
Proof. unfold remove_listener. destruct (listeners (ms m) !! k); [osame|apply Rout_refl]. Qed.

Lemma remove_end_Ro m cookie e : oRo m (remove_end m cookie e).
Proof.
  unfold remove_end. destruct (chans (ms m) !! cookie) as [ch|]; [|apply Rout_refl].
  destruct (chan_close ch e) as [|ch' o|site]; [osame| |exact I].
  destruct (has _ o).
  - eapply oRo_step; [|apply send_or_remove_Ro, Qcec]. osame.
  - osame.
Qed.

Lemma remove_service_Ro m cookie : oRo m (remove_service m cookie).
Proof.
  unfold remove_service. destruct (svc_by_cookie (ms m) cookie) as [[k s]|]; [|apply Rout_refl].
  ovia_fold; [osame|apply oRo_bind].
  - apply oRo_foldO. intros m1 b. destruct (calls (ms m1) !! b) as [cl|]; [|exact I].
    cbn. destruct (c_aborted cl); osame.
  - intros m2. cbn. ovia_foldr; [|osame].
    apply Ro_foldr. intros m3 c. destruct (has m3 c); [osame|apply Rout_refl].
Qed.

Lemma remove_object_Ro m cookie : oRo m (remove_object m cookie).
Proof.
  unfold remove_object. destruct (obj_by_cookie (ms m) cookie) as [[u o]|]; [|apply Rout_refl].
  ovia_fold; [osame|apply oRo_bind].
  - apply oRo_foldO. intros; apply remove_service_Ro.
  - intros m2. cbn. osame.
Qed.

(* ---- the work loop apart from bus events *)
Definition loop_msg (x : msg) : Prop :=
  match x with
  | Shutdown | ChannelEndClosed _ _ | AbortFunctionCall _ | CallFunctionReply _ _
  | UnsubscribeEvent _ _ | UnsubscribeAllEvents None _ | ServiceDestroyed _ => True
  | _ => False
  end.
Context (Qloop : forall c x, loop_msg x -> Q (c, x, None)).

Lemma shutdown_conn_Ro m c sd : oRo m (shutdown_conn m c sd).
Proof.
  unfold shutdown_conn. destruct (conns (ms m) !! c) as [cs|] eqn:Ec; [|apply Rout_refl].
  set (m0 := m <| ms; conns ::= delete c |>).
  set (m1 := if sd && cs_alive cs then m0 <| mo := mo m0 ++ [(c, Shutdown, None)] |> else m0).
  assert (H1 : Rout Q m m1).
  { subst m1 m0. destruct (sd && cs_alive cs); [|osame]. split; [reflexivity|]. split; [reflexivity|].
    exists [(c, Shutdown, None)]. split; [reflexivity|]. constructor; [apply Qloop; exact I|constructor]. }
  clearbody m1. clear m0. apply (oRo_step _ m1 _ H1). clear H1.
  cbv zeta. ovia_fold; [apply Ro_foldl; intros; apply remove_listener_Ro|].
  apply oRo_bind; [apply oRo_foldO; intros; apply remove_object_Ro|]. intros m3.
  apply oRo_bind.
  { apply oRo_foldO. intros ma k.
    destruct (svcs (ms ma) !! k) as [s|]; [|apply Rout_refl].
    destruct (owner_of_svc (ms ma) k) as [owner|]; [|exact I].
    cbn. apply Ro_foldl. intros mb e.
    destruct (svcs (ms mb) !! k) as [s'|]; [|apply Rout_refl].
    destruct (bool_decide _); osame. }
  intros m4. apply oRo_bind.
  { apply oRo_foldO. intros ma k.
    destruct (svcs (ms ma) !! k) as [s|]; [|apply Rout_refl].
    destruct (owner_of_svc (ms ma) k) as [owner|]; [|exact I].
    destruct (bool_decide (c ∈ s_all s)); [|apply Rout_refl].
    cbn. destruct (bool_decide _); osame. }
  intros m5.
  apply (oRo_step _ (m5 <| ms; svcs ::= fmap (fun s => s <| s_subs ::= fun x => x ∖ {[c]} |>) |>)); [osame|].
  apply oRo_bind.
  { apply oRo_foldO. intros ma k. destruct (chans (ms ma) !! k) as [ch|]; [|apply Rout_refl].
    destruct (ch_s ch) as [|o cap|]; try apply Rout_refl.
    destruct (bool_decide _); [apply remove_end_Ro|apply Rout_refl]. }
  intros m7. apply oRo_bind.
  { apply oRo_foldO. intros ma k. destruct (chans (ms ma) !! k) as [ch|]; [|apply Rout_refl].
    destruct (ch_r ch) as [|o cap|]; try apply Rout_refl.
    destruct (bool_decide _); [apply remove_end_Ro|apply Rout_refl]. }
  intros m8. cbn. ovia_foldr; [|osame]. apply Ro_foldr. intros; osame.
Qed.

Lemma abort_call_Ro m b callee : oRo m (abort_call m b callee).
Proof.
  unfold abort_call. destruct (calls (ms m) !! b) as [cl|]; [|apply Rout_refl].
  destruct (c_aborted cl); [apply Rout_refl|].
  set (m1 := m <| ms; calls ::= <[b := cl <| c_aborted := true |>]> |>).
  apply (oRo_step _ m1); [osame|]. clearbody m1.
  apply oRo_bind.
  - destruct (conns (ms m1) !! callee) as [cc|]; [|apply Rout_refl].
    destruct (_ <=? _); [|apply Rout_refl]. apply send_or_remove_Ro, Qloop. exact I.
  - intros m2. destruct (conns (ms m2) !! c_caller cl) as [cs|]; [|apply Rout_refl].
    destruct (cs_calls cs !! c_serial cl); [|exact I].
    eapply oRo_step; [|apply send_or_remove_Ro, Qloop; exact I]. osame.
Qed.
End out_pass.

(* ================================================================ the work loop *)
(* messages the work loop makes itself: never a version tag *)
Definition Qnb (o : out) : Prop := o.2 = None /\ loop_msg o.1.2.
Definition is_bus (ev : bus_event) (o : out) : Prop := exists c, o = (c, EmitBusEvent None ev, None).

Lemma bus_Ro m ev : oR (Rout (is_bus ev)) m (bus m ev).
Proof.
  unfold bus. apply oRo_foldO. intros ma c.
  destruct (has ma c); [apply send_or_remove_Ro; exists c; reflexivity|apply Rout_refl].
Qed.

(* position of an output in the order of bus events within a step *)
Definition ev_lvl (ev : bus_event) : nat :=
  match ev with
  | EvObjectCreated _ _ => 0 | EvServiceCreated _ _ _ _ => 1
  | EvServiceDestroyed _ _ _ _ | EvObjectDestroyed _ _ => 2
  end.
Definition lvl (o : out) : option nat :=
  match o.1.2 with EmitBusEvent None ev => Some (ev_lvl ev) | _ => None end.
Definition lvl_m (m : M) : nat :=
  match w_create_obj (mw m), w_create_svc (mw m) with
  | _ :: _, _ => 0 | [], _ :: _ => 1 | [], [] => 2
  end.

(* bus events appear in non-decreasing level: object-created, then service-created, then
   destroyed events *)
Definition ordered (l : list out) : Prop :=
  forall i j oi oj li lj, l !! i = Some oi -> l !! j = Some oj -> (i < j)%nat ->
    lvl oi = Some li -> lvl oj = Some lj -> (li <= lj)%nat.

(* what the work loop may output at all *)
Definition Qloop_out (o : out) : Prop := Qnb o \/ exists ev, is_bus ev o.

Definition Rord (m m' : M) : Prop :=
  (lvl_m m <= lvl_m m')%nat /\
  exists new, mo m' = mo m ++ new /\ ordered new /\ Forall Qloop_out new /\
    Forall (fun o => forall l, lvl o = Some l -> (lvl_m m <= l <= lvl_m m')%nat) new.

Lemma ordered_nil : ordered [].
Proof. intros i j oi oj li lj H. rewrite lookup_nil in H. discriminate. Qed.

Lemma Rord_refl m : Rord m m.
Proof. split; [lia|]. exists []. rewrite app_nil_r. split; [reflexivity|]. split; [apply ordered_nil|]. split; constructor. Qed.

Lemma Rord_trans a b c : Rord a b -> Rord b c -> Rord a c.
Proof.
  intros (L1 & n1 & E1 & O1 & Q1 & B1) (L2 & n2 & E2 & O2 & Q2 & B2).
  split; [lia|]. exists (n1 ++ n2). split; [rewrite E2, E1, app_assoc; reflexivity|].
  split; [|split; [apply Forall_app; auto|]].
  - intros i j oi oj li lj Hi Hj Hij Hli Hlj.
    apply lookup_app_Some in Hi as [Hi|[Hi1 Hi]]; apply lookup_app_Some in Hj as [Hj|[Hj1 Hj]].
    + exact (O1 i j oi oj li lj Hi Hj Hij Hli Hlj).
    + rewrite Forall_forall in B1, B2.
      pose proof (B1 oi (elem_of_list_lookup_2 _ _ _ Hi) li Hli).
      pose proof (B2 oj (elem_of_list_lookup_2 _ _ _ Hj) lj Hlj). lia.
    + apply lookup_lt_Some in Hj. lia.
    + apply (O2 (i - length n1)%nat (j - length n1)%nat oi oj li lj Hi Hj); [lia|assumption|assumption].
  - apply Forall_app. split.
    + eapply Forall_impl; [exact B1|]. cbn. intros o H l Hl. specialize (H l Hl). lia.
    + eapply Forall_impl; [exact B2|]. cbn. intros o H l Hl. specialize (H l Hl). lia.
Qed.

(* a non-bus part of the loop *)
Lemma Rord_of_Rout m m' : Rout Qnb m m' -> Rord m m'.
Proof.
  intros (A & B & new & E & F). unfold Rord, lvl_m. rewrite A, B. split; [lia|].
  exists new. split; [exact E|].
  assert (Hn : forall o, o ∈ new -> lvl o = None).
  { intros o Ho. rewrite Forall_forall in F. destruct (F o Ho) as [_ Hk]. unfold lvl.
    destruct o as [[c x] f]. cbn in *. destruct x; try reflexivity; contradiction. }
  split; [|split].
  - intros i j oi oj li lj Hi _ _ Hli. rewrite (Hn oi (elem_of_list_lookup_2 _ _ _ Hi)) in Hli. discriminate.
  - eapply Forall_impl; [exact F|]. intros o Ho. left. exact Ho.
  - apply Forall_forall. intros o Ho l Hl. rewrite (Hn o Ho) in Hl. discriminate.
Qed.

(* popping a bus event [ev] off its queue in state [m] (giving [mp]) and emitting it *)
Lemma Rord_bus m mp ev x :
  mo mp = mo m -> (lvl_m m = ev_lvl ev)%nat -> (ev_lvl ev <= lvl_m mp)%nat ->
  bus mp ev = x -> oR Rord m x.
Proof.
  intros Em Hl Hp <-. pose proof (bus_Ro mp ev) as H. destruct (bus mp ev) as [m'|m'|]; cbn in *; try exact I.
  all: destruct H as (A & B & new & E & F); unfold Rord;
    (assert (Hlm : lvl_m m' = lvl_m mp) by (unfold lvl_m; rewrite A, B; reflexivity));
    (split; [lia|]); exists new; (split; [rewrite E, Em; reflexivity|]);
    (assert (Hn : forall o, o ∈ new -> lvl o = Some (ev_lvl ev))
       by (intros o Ho; rewrite Forall_forall in F; destruct (F o Ho) as [c ->]; reflexivity));
    (split; [|split]).
  1,4: intros i j oi oj li lj Hi Hj _ Hli Hlj;
       rewrite (Hn oi (elem_of_list_lookup_2 _ _ _ Hi)) in Hli;
       rewrite (Hn oj (elem_of_list_lookup_2 _ _ _ Hj)) in Hlj; injection Hli as <-; injection Hlj as <-; lia.
  1,3: eapply Forall_impl; [exact F|]; intros o Ho; right; exists ev; exact Ho.
  1,2: apply Forall_forall; intros o Ho l Hl'; rewrite (Hn o Ho) in Hl'; injection Hl' as <-; lia.
Qed.

Lemma Qnb_loop c x : loop_msg x -> Qnb (c, x, None).
Proof. intros H. split; [reflexivity|exact H]. Qed.

Lemma settle_one_Rord m x : settle_one m = Some x -> oR Rord m x.
Proof.
  assert (Hnb : forall mm y, oR (Rout Qnb) mm y -> oR Rord mm y).
  { intros mm y H. destruct y; cbn in *; try exact I; apply Rord_of_Rout, H. }
  unfold settle_one.
  destruct (w_remove_conns (mw m)) as [|[c sd] r] eqn:E1.
  2:{ intros [= <-]. apply Hnb. eapply oRo_step with (m1 := m <| mw; w_remove_conns := r |>); [osame|].
      apply shutdown_conn_Ro; intros; apply Qnb_loop; try assumption; exact I. }
  destruct (w_unsub_ev (mw m)) as [|[[c s] e] r] eqn:E2.
  2:{ intros [= <-]. apply Hnb. eapply oRo_step with (m1 := m <| mw; w_unsub_ev := r |>); [osame|].
      destruct (has _ c); [apply send_or_remove_Ro, Qnb_loop; exact I|apply Rout_refl]. }
  destruct (w_unsub_all (mw m)) as [|[c s] r] eqn:E3.
  2:{ intros [= <-]. apply Hnb. eapply oRo_step with (m1 := m <| mw; w_unsub_all := r |>); [osame|].
      destruct (has _ c); [apply send_or_remove_Ro, Qnb_loop; exact I|apply Rout_refl]. }
  destruct (w_svc_destroyed (mw m)) as [|[c s] r] eqn:E4.
  2:{ intros [= <-]. apply Hnb. eapply oRo_step with (m1 := m <| mw; w_svc_destroyed := r |>); [osame|].
      destruct (has _ c); [apply send_or_remove_Ro, Qnb_loop; exact I|apply Rout_refl]. }
  destruct (w_rm_call (mw m)) as [|[[serial c] result] r] eqn:E5.
  2:{ intros H. apply (inj Some) in H. subst x. cbv zeta. apply Hnb.
      set (m1 := m <| mw; w_rm_call := r |>). apply (oRo_step _ _ m1); [osame|]. clearbody m1.
      destruct (conns (ms m1) !! c) as [cs|]; [|apply Rout_refl].
      destruct (cs_calls cs !! serial); [|exact I].
      eapply oRo_step; [|apply send_or_remove_Ro, Qnb_loop; exact I]. osame. }
  destruct (w_create_obj (mw m)) as [|[u c] r] eqn:E6.
  2:{ intros [= <-]. eapply Rord_bus; [| | |reflexivity]; [reflexivity| |cbn; lia].
      unfold lvl_m. rewrite E6. reflexivity. }
  destruct (w_create_svc (mw m)) as [|[[[ou oc] su] sc] r] eqn:E7.
  2:{ intros [= <-]. eapply Rord_bus; [| | |reflexivity]; [reflexivity| |].
      - unfold lvl_m. rewrite E6, E7. reflexivity.
      - unfold lvl_m. cbn. rewrite E6. destruct r; cbn; lia. }
  destruct (w_destroy_svc (mw m)) as [|[[[ou oc] su] sc] r] eqn:E8.
  2:{ intros [= <-]. eapply Rord_bus; [| | |reflexivity]; [reflexivity| |].
      - unfold lvl_m. rewrite E6, E7. reflexivity.
      - unfold lvl_m. cbn. rewrite E6, E7. cbn. lia. }
  destruct (w_destroy_obj (mw m)) as [|[u c] r] eqn:E9.
  2:{ intros [= <-]. eapply Rord_bus; [| | |reflexivity]; [reflexivity| |].
      - unfold lvl_m. rewrite E6, E7. reflexivity.
      - unfold lvl_m. cbn. rewrite E6, E7. cbn. lia. }
  destruct (w_abort (mw m)) as [|[b callee] r] eqn:E10.
  2:{ intros [= <-]. apply Hnb. eapply oRo_step; [|apply abort_call_Ro; intros; apply Qnb_loop; assumption]. osame. }
  discriminate.
Qed.

Lemma settle_Rord fuel : forall m, oR Rord m (settle fuel m).
Proof.
  induction fuel as [|f IH]; intros m; cbn [settle].
  - destruct (settle_one m) as [[m'|m'|]|]; cbn; try exact I. apply Rord_refl.
  - destruct (settle_one m) as [x|] eqn:E; [|apply Rord_refl].
    apply settle_one_Rord in E. destruct x as [m'|m'|]; cbn in E; try exact I;
      (eapply (oR_step Rord Rord_trans); [exact E|apply IH]).
Qed.

(* ================================================================ the handlers *)
Definition Ext (Q : out -> Prop) (m m' : M) : Prop := exists new, mo m' = mo m ++ new /\ Forall Q new.

Lemma Ext_refl Q m : Ext Q m m.
Proof. exists []. rewrite app_nil_r. auto. Qed.
Lemma Ext_trans Q a b c : Ext Q a b -> Ext Q b c -> Ext Q a c.
Proof.
  intros (n1 & E1 & F1) (n2 & E2 & F2). exists (n1 ++ n2).
  split; [rewrite E2, E1, app_assoc; reflexivity|apply Forall_app; auto].
Qed.
Lemma Ext_of_Rout Q m m' : Rout Q m m' -> Ext Q m m'.
Proof. intros (_ & _ & H). exact H. Qed.
Lemma oExt_of_Rout Q m x : oR (Rout Q) m x -> oR (Ext Q) m x.
Proof. destruct x; cbn; try exact id; apply Ext_of_Rout. Qed.
Lemma oExt_pre Q m mm x : mo mm = mo m -> oR (Ext Q) mm x -> oR (Ext Q) m x.
Proof.
  intros E H. destruct x as [m'|m'|]; cbn in *; try exact I;
    destruct H as (n & En & F); exists n; (split; [congruence|exact F]).
Qed.
Lemma oExt_bind Q m x f : oR (Ext Q) m x -> (forall m1, oR (Ext Q) m1 (f m1)) -> oR (Ext Q) m (x >>> f).
Proof. apply oR_bind. apply Ext_trans. Qed.
Lemma oExt_foldO Q {A} (f : M -> A -> outcome M) l :
  (forall m a, oR (Ext Q) m (f m a)) -> forall m, oR (Ext Q) m (foldO f l m).
Proof. apply oR_foldO; [apply Ext_refl|apply Ext_trans]. Qed.
Lemma gate_Ext Q m c minv k : oR (Ext Q) m (k m) -> oR (Ext Q) m (gate m c minv k).
Proof.
  intros H. unfold gate. destruct (ver_of m c) as [v|]; [|apply Ext_refl].
  destruct (v <? minv); [apply Ext_refl|exact H].
Qed.

Definition is_created (ev : bus_event) : Prop :=
  match ev with EvObjectCreated _ _ | EvServiceCreated _ _ _ _ => True | _ => False end.

(* what handling message [x] from connection [c] of version [v] may output *)
Definition hq (c : conn) (v : N) (x : msg) (o : out) : Prop :=
  match o.1.2 with
  | CallFunction _ _ _ _ | CallFunction2 _ _ _ _ _ | EmitEvent _ _ _ | ItemReceived _ _ => o.2 = Some v
  | CallFunctionReply _ r =>
      ((exists s, x = CallFunctionReply s r) /\ o.2 = Some v) \/
      (o.2 = None /\ match r with CROk _ | CRErr _ => False | _ => True end)
  | EmitBusEvent None _ => False
  | EmitBusEvent (Some k) ev =>
      o.2 = None /\ o.1.1 = c /\ (exists serial sc, x = StartBusListener serial k sc) /\ is_created ev
  | BusListenerCurrentFinished k =>
      o.2 = None /\ o.1.1 = c /\ exists serial sc, x = StartBusListener serial k sc
  | _ => o.2 = None
  end.

Ltac hq_solve :=
  cbn; first [ reflexivity
             | right; split; [reflexivity|exact I]
             | left; split; [eexists; reflexivity|reflexivity]
             | repeat split; eauto ].

Ltac estep :=
  match goal with
  | |- oR _ _ (Panic _) => exact I
  | |- oR (Ext ?Q) ?m (Done ?m) => apply Ext_refl
  | |- oR (Ext ?Q) ?m (Fail ?m) => apply Ext_refl
  | |- oR (Ext ?Q) ?m (Done _) => exists []; rewrite app_nil_r; split; [reflexivity|constructor]
  | |- oR (Ext ?Q) ?m (Fail _) => exists []; rewrite app_nil_r; split; [reflexivity|constructor]
  | |- oR (Ext ?Q) ?m (send ?mm _ _ _) =>
      apply (oExt_pre Q m mm); [reflexivity|apply oExt_of_Rout, send_Ro; hq_solve]
  | |- oR (Ext ?Q) ?m (send_or_remove ?mm _ _ _) =>
      apply (oExt_pre Q m mm); [reflexivity|apply oExt_of_Rout, send_or_remove_Ro; hq_solve]
  | |- oR (Ext ?Q) ?m (send_ignore ?mm _ _ _) =>
      apply (oExt_pre Q m mm); [reflexivity|apply oExt_of_Rout, send_ignore_Ro; hq_solve]
  | |- oR (Ext ?Q) ?m (remove_object ?mm _) =>
      apply (oExt_pre Q m mm); [reflexivity|apply oExt_of_Rout, remove_object_Ro; intros; hq_solve]
  | |- oR (Ext ?Q) ?m (remove_service ?mm _) =>
      apply (oExt_pre Q m mm); [reflexivity|apply oExt_of_Rout, remove_service_Ro; intros; hq_solve]
  | |- oR (Ext ?Q) ?m (remove_end ?mm _ _) =>
      apply (oExt_pre Q m mm); [reflexivity|apply oExt_of_Rout, remove_end_Ro; intros; hq_solve]
  | |- oR (Ext ?Q) ?m (Done (remove_listener ?mm _)) =>
      apply (Ext_trans Q m mm); [exists []; rewrite app_nil_r; split; [reflexivity|constructor]
                                |apply Ext_of_Rout, remove_listener_Ro]
  | |- oR (Ext ?Q) ?m (gate _ _ _ _) => apply gate_Ext
  | |- oR (Ext ?Q) ?m (foldO _ _ ?mm) =>
      apply (oExt_pre Q m mm); [reflexivity|apply oExt_foldO; intros ? ?]
  | |- oR (Ext ?Q) ?m (_ >>> _) => apply oExt_bind; [|intros ?]
  | |- oR _ _ (if ?b then _ else _) => destruct b eqn:?
  | |- oR _ _ (match ?x with _ => _ end) => destruct x eqn:?
  end.

Lemma claim_pair_Ext (Q : out -> Prop) m c x other y :
  Q (c, x, None) -> Q (other, y, None) ->
  oR (Ext Q) m (match send m c x None with
                | Panic s => Panic s
                | Done m2 => send_or_remove m2 other y None
                | Fail m2 => match send_or_remove m2 other y None with Done m3 => Fail m3 | z => z end
                end).
Proof.
  intros Hx Hy. pose proof (send_Ro Q m c x None Hx) as H.
  destruct (send m c x None) as [m2|m2|]; cbn in H; [| |exact I].
  - eapply (oR_step _ (Ext_trans Q)); [apply Ext_of_Rout, H|apply oExt_of_Rout, send_or_remove_Ro, Hy].
  - assert (H2 : oR (Ext Q) m (send_or_remove m2 other y None)).
    { eapply (oR_step _ (Ext_trans Q)); [apply Ext_of_Rout, H|apply oExt_of_Rout, send_or_remove_Ro, Hy]. }
    destruct (send_or_remove m2 other y None); exact H2.
Qed.

Theorem handle_out m c cs x fresh b :
  conns (ms m) !! c = Some cs -> oR (Ext (hq c (cs_ver cs) x)) m (handle m c x fresh b).
Proof.
  intros Hc. unfold handle, create_service_impl, call_impl. rewrite !Hc.
  destruct x.
  all: try match goal with
       | |- context [ChannelEndClaimed] =>
           match goal with |- context [chans ?st !! ?k] => destruct (chans st !! k) as [ch|]; [|repeat estep] end;
           match goal with |- context [chan_claim ?a ?b ?d] => destruct (chan_claim a b d) as [r|ch' other r|site]; [repeat estep| |exact I] end;
           match goal with |- oR (Ext ?Q) ?m (match send ?m1 _ _ _ with _ => _ end) =>
             apply (oExt_pre Q m m1); [reflexivity|apply claim_pair_Ext; hq_solve] end
       end.
  all: repeat estep.
  all: congruence.
Qed.

(* ---- readable corollaries *)
(* C12_payload_tag: every payload-carrying output of a handler carries the version of the
   connection that sent the triggering message; everything else the handler outputs is
   broker-made and carries None *)
Definition payload_tag_ok (v : N) (o : out) : Prop :=
  match o.1.2 with
  | CallFunction _ _ _ _ | CallFunction2 _ _ _ _ _ | EmitEvent _ _ _ | ItemReceived _ _
  | CallFunctionReply _ (CROk _) | CallFunctionReply _ (CRErr _) => o.2 = Some v
  | CallFunctionReply _ _ => o.2 = Some v \/ o.2 = None
  | _ => o.2 = None
  end.

Lemma hq_payload c v x o : hq c v x o -> payload_tag_ok v o.
Proof.
  unfold hq, payload_tag_ok. destruct o as [[d y] f]. cbn. destruct y; try exact id.
  - destruct r; intros [[_ H]|[H Hr]]; try contradiction; auto.
  - destruct c0; [intros (H & _); exact H|contradiction].
  - intros (H & _). exact H.
Qed.

Theorem payload_tag m c cs x fresh b m' :
  conns (ms m) !! c = Some cs ->
  handle m c x fresh b = Done m' \/ handle m c x fresh b = Fail m' ->
  exists new, mo m' = mo m ++ new /\ Forall (payload_tag_ok (cs_ver cs)) new.
Proof.
  intros Hc H. pose proof (handle_out m c cs x fresh b Hc) as Ho.
  destruct H as [H|H]; rewrite H in Ho; cbn in Ho; destruct Ho as (new & E & F);
    exists new; (split; [exact E|]); (eapply Forall_impl; [exact F|]); intros o; apply hq_payload.
Qed.

(* ================================================================ one step *)
Definition handler_part (s : state) (e : event) (hnew : list out) : Prop :=
  match e with
  | Message c x =>
      match conns s !! c with
      | Some cs => Forall (hq c (cs_ver cs) x) hnew
      | None => hnew = []
      end
  | _ => hnew = []
  end.

(* the outputs of a step: first what the handler of the message sent, then what the work loop
   sent; the latter is broker-made, untagged and ordered *)
Theorem step_out s e fresh b s' o :
  step s e fresh b = Done (s', o) ->
  exists hnew snew, o = hnew ++ snew /\ handler_part s e hnew /\
    Forall Qloop_out snew /\ ordered snew.
Proof.
  intros Hstep. unfold step in Hstep.
  set (m0 := {| ms := s; mw := work0; mo := [] |}) in *.
  assert (Htail : forall m f hnew, mo m = hnew ->
    match settle f m with Done m' | Fail m' => Done (ms m', mo m') | Panic site => Panic site end = Done (s', o) ->
    exists snew, o = hnew ++ snew /\ Forall Qloop_out snew /\ ordered snew).
  { intros m f hnew Hm H. pose proof (settle_Rord f m) as H2.
    destruct (settle f m) as [m'|m'|]; try discriminate H; injection H as <- <-;
      destruct H2 as (_ & snew & E & Ho & Hq & _); exists snew; rewrite E, Hm; auto. }
  destruct e as [c ver|c|c x| | |c|c]; cbn [handler_part].
  - destruct (conns s !! c) as [?|] eqn:Ec; [discriminate Hstep|].
    rewrite settle_idle in Hstep by reflexivity. injection Hstep as <- <-.
    exists [], []. split; [reflexivity|]. split; [reflexivity|]. split; [constructor|apply ordered_nil].
  - match type of Hstep with match settle ?ff ?mm with _ => _ end = _ => destruct (Htail mm ff []) as (snew & E & H) end;
      [reflexivity|exact Hstep|exists [], snew; auto].
  - destruct (conns s !! c) as [cs|] eqn:Ec.
    + pose proof (handle_out m0 c cs x fresh b Ec) as Hh.
      destruct (handle m0 c x fresh b) as [m|m|]; [| |discriminate Hstep]; cbn in Hh;
        destruct Hh as (hnew & E & F); cbn in E;
        (match type of Hstep with match settle ?ff ?mm with _ => _ end = _ => destruct (Htail mm ff hnew) as (snew & E' & H) end;
         [exact E|exact Hstep|exists hnew, snew; auto]).
    + assert (Hh : handle m0 c x fresh b = Done m0) by (unfold handle; cbn [ms m0]; rewrite Ec; reflexivity).
      rewrite Hh in Hstep.
      match type of Hstep with match settle ?ff ?mm with _ => _ end = _ => destruct (Htail mm ff []) as (snew & E & H) end;
        [reflexivity|exact Hstep|exists [], snew; auto].
  - match type of Hstep with match settle ?ff ?mm with _ => _ end = _ => destruct (Htail mm ff []) as (snew & E & H) end;
      [|exact Hstep|exists [], snew; auto].
    cbn. clear. induction (map_to_list (conns s)); cbn; [reflexivity|assumption].
  - match type of Hstep with match settle ?ff ?mm with _ => _ end = _ => destruct (Htail mm ff []) as (snew & E & H) end;
      [reflexivity|exact Hstep|exists [], snew; auto].
  - match type of Hstep with match settle ?ff ?mm with _ => _ end = _ => destruct (Htail mm ff []) as (snew & E & H) end;
      [reflexivity|exact Hstep|exists [], snew; auto].
  - match type of Hstep with match settle ?ff ?mm with _ => _ end = _ => destruct (Htail mm ff []) as (snew & E & H) end;
      [|exact Hstep|exists [], snew; auto].
    destruct (conns s !! c); reflexivity.
Qed.

Lemma hq_lvl c v x o : hq c v x o -> lvl o = None.
Proof.
  unfold hq, lvl. destruct o as [[d y] f]. cbn. destruct y; try reflexivity.
  destruct c0; [reflexivity|contradiction].
Qed.

(* C10_order: within a step, object-created events precede service-created events, and both
   precede all destroyed events *)
Theorem step_ordered s e fresh b s' o : step s e fresh b = Done (s', o) -> ordered o.
Proof.
  intros Hstep. destruct (step_out _ _ _ _ _ _ Hstep) as (hnew & snew & -> & Hh & _ & Ho).
  assert (Hn : forall oi, oi ∈ hnew -> lvl oi = None).
  { intros oi Hin. destruct e; cbn in Hh; try (subst hnew; apply elem_of_nil in Hin; contradiction).
    destruct (conns s !! c) as [cs|]; [|subst hnew; apply elem_of_nil in Hin; contradiction].
    rewrite Forall_forall in Hh. eapply hq_lvl, Hh, Hin. }
  intros i j oi oj li lj Hi Hj Hij Hli Hlj.
  apply lookup_app_Some in Hi as [Hi|[Hi1 Hi]].
  { rewrite (Hn oi (elem_of_list_lookup_2 _ _ _ Hi)) in Hli. discriminate. }
  apply lookup_app_Some in Hj as [Hj|[Hj1 Hj]].
  { rewrite (Hn oj (elem_of_list_lookup_2 _ _ _ Hj)) in Hlj. discriminate. }
  apply (Ho (i - length hnew)%nat (j - length hnew)%nat oi oj li lj Hi Hj); [lia|assumption|assumption].
Qed.

(* C10: nothing but start_bus_listener outputs anything tagged with a listener, and only to the
   listener's connection *)
Theorem step_tagged s e fresh b s' o d k f :
  step s e fresh b = Done (s', o) ->
  ((exists ev, (d, EmitBusEvent (Some k) ev, f) ∈ o) \/ (d, BusListenerCurrentFinished k, f) ∈ o) ->
  exists serial sc, e = Message d (StartBusListener serial k sc).
Proof.
  intros Hstep Hin. destruct (step_out _ _ _ _ _ _ Hstep) as (hnew & snew & -> & Hh & Hq & _).
  assert (Hs : forall y, (d, y, f) ∈ snew -> (forall ev, y <> EmitBusEvent (Some k) ev) /\ y <> BusListenerCurrentFinished k).
  { intros y Hy. rewrite Forall_forall in Hq. destruct (Hq _ Hy) as [[_ Hl]|(ev & c & Heq)].
    - cbn in Hl. split; [intros ev ->|intros ->]; exact Hl.
    - injection Heq as _ -> _. split; [intros ev' [=]|intros [=]]. }
  assert (Hhh : forall y, (d, y, f) ∈ hnew -> exists c x cs, e = Message c x /\ conns s !! c = Some cs /\ hq c (cs_ver cs) x (d, y, f)).
  { intros y Hy. destruct e; cbn in Hh; try (subst hnew; apply elem_of_nil in Hy; contradiction).
    destruct (conns s !! c) as [cs|] eqn:Ec; [|subst hnew; apply elem_of_nil in Hy; contradiction].
    rewrite Forall_forall in Hh. exists c, m, cs. auto. }
  destruct Hin as [(ev & Hin)|Hin]; apply elem_of_app in Hin as [Hin|Hin].
  - destruct (Hhh _ Hin) as (c & x & cs & -> & _ & Hq'). cbn in Hq'. destruct Hq' as (_ & <- & (serial & sc & ->) & _). eauto.
  - destruct (Hs _ Hin) as [H _]. exfalso. eapply H. reflexivity.
  - destruct (Hhh _ Hin) as (c & x & cs & -> & _ & Hq'). cbn in Hq'. destruct Hq' as (_ & <- & (serial & sc & ->)). eauto.
  - destruct (Hs _ Hin) as [_ H]. exfalso. apply H. reflexivity.
Qed.

(* C12: an output carries a version tag only if it is a payload forwarded by the handler of a
   message from a connection of that version *)
Theorem step_from s e fresh b s' o d y v :
  step s e fresh b = Done (s', o) -> (d, y, Some v) ∈ o ->
  exists c x cs, e = Message c x /\ conns s !! c = Some cs /\ cs_ver cs = v /\
    match y with
    | CallFunction _ _ _ _ | CallFunction2 _ _ _ _ _ | EmitEvent _ _ _ | ItemReceived _ _ => True
    | CallFunctionReply _ r => exists serial, x = CallFunctionReply serial r
    | _ => False
    end.
Proof.
  intros Hstep Hin. destruct (step_out _ _ _ _ _ _ Hstep) as (hnew & snew & -> & Hh & Hq & _).
  apply elem_of_app in Hin as [Hin|Hin].
  - destruct e; cbn in Hh; try (subst hnew; apply elem_of_nil in Hin; contradiction).
    destruct (conns s !! c) as [cs|] eqn:Ec; [|subst hnew; apply elem_of_nil in Hin; contradiction].
    rewrite Forall_forall in Hh. specialize (Hh _ Hin). exists c, m, cs. split; [reflexivity|]. split; [exact Ec|].
    unfold hq in Hh. cbn in Hh. destruct y; try discriminate Hh; try (injection Hh as <-; auto).
    + destruct Hh as [[Hx [= <-]]|[[=] _]]. auto.
    + destruct c0; [destruct Hh as [[=] _]|contradiction].
    + destruct Hh as [[=] _].
  - exfalso. rewrite Forall_forall in Hq. destruct (Hq _ Hin) as [[Hn _]|(ev & c & Heq)]; discriminate.
Qed.
