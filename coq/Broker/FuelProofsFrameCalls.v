(* Broker/FuelProofsFrameCalls.v — frame theorem for pending calls: a call between two healthy
   connections (caller [c_caller cl], callee = owner of the called service's object) is exactly the
   same after any step that is not one of theirs.  Two traversals: a state predicate [cf] (the
   call record, the called service with its owner, and the facts that nothing else refers to the
   broker serial [b]) through handlers and work loop, and [nb] (no abort of [b] is queued). *)
From stdpp Require Import gmap list.
From RecordUpdate Require Import RecordSet.
Import RecordSetNotations.
From Aldrin Require Import gen.BrokerConsts Broker.Model Broker.Run Broker.Wp Broker.Inv Broker.InvProofsBase
  Broker.InvProofsAlive Broker.InvProofsTerm Broker.FuelProofs Broker.FuelProofsFrame Broker.SerialAlloc.
From Coq Require Import Lia.
Local Open Scope N_scope.

Section CallFrame.
  Context (b : N) (cl : call) (o : obj) (ck ock : uuid) (inf : info).
  Local Notation kb := (c_svc cl).
  Local Notation caller := (c_caller cl).

  (* ---------------------------------------------------------------- no abort of [b] is queued *)
  Definition nb (m : M) : Prop := ∀ callee, (b, callee) ∉ w_abort (mw m).
  (* the pending map of a connection does not mention [b] *)
  Definition no_entry (cs : cstate) : Prop := ∀ serial callee, cs_calls cs !! serial ≠ Some (b, callee).

  Lemma send_nb m c' x from : nb m → opr nb (send m c' x from).
  Proof. intros H. unfold send. destruct (conns (ms m) !! c'); [|done]. destruct (cs_alive _); exact H. Qed.
  Lemma send_or_remove_nb m c' x from : nb m → opr nb (send_or_remove m c' x from).
  Proof.
    intros H. unfold send_or_remove, send. destruct (conns (ms m) !! c'); [|done]. destruct (cs_alive _); exact H.
  Qed.
  Lemma send_ignore_nb m c' x from : nb m → opr nb (send_ignore m c' x from).
  Proof. intros H. unfold send_ignore, send. destruct (conns (ms m) !! c'); [|done]. destruct (cs_alive _); exact H. Qed.

  Ltac leaf :=
    first
      [ assumption
      | match goal with H : nb ?m |- nb _ => exact H end
      | match goal with H : nb ?m |- nb _ => unfold nb in *; cbn; exact H end ].

  Ltac step1 :=
    match goal with
    | |- opr _ (Panic _) => exact I
    | |- opr _ (Done _) => cbn [opr]
    | |- opr _ (Fail _) => cbn [opr]
    | |- opr _ (_ >>> _) => apply opr_bind; [|intros ? ?]
    | |- opr _ (foldO _ _ _) => apply opr_foldO; [intros ? ? ?; cbv beta|]
    | |- opr _ (send_or_remove _ _ _ _) => apply send_or_remove_nb
    | |- opr _ (send_ignore _ _ _ _) => apply send_ignore_nb
    | |- opr _ (send _ _ _ _) => apply send_nb
    | |- opr _ (let _ := _ in _) => cbv zeta
    | |- opr _ (match ?x with _ => _ end) => destruct x eqn:?
    | |- opr _ (if ?x then _ else _) => destruct x eqn:?
    | |- ?Q (foldl ?f ?m ?l) => apply (pr_foldl Q f l m); [intros ? ? ?; cbv beta|]
    | |- ?Q (foldr ?f ?m ?l) => apply (pr_foldr Q f l m); [intros ? ? ?; cbv beta|]
    | |- nb (match ?x with _ => _ end) => destruct x eqn:?
    | |- nb (if ?x then _ else _) => destruct x eqn:?
    | |- nb (let _ := _ in _) => cbv zeta
    | |- nb (set _ _ ?x) => first [ change (nb x) | leaf ]
    | |- _ => leaf
    end.

  Lemma remove_listener_nb m k' : nb m → nb (remove_listener m k').
  Proof. intros H. unfold remove_listener. destruct (listeners (ms m) !! k'); exact H. Qed.
  Lemma remove_end_nb m k' e : nb m → opr nb (remove_end m k' e).
  Proof. intros H. unfold remove_end. repeat step1. Qed.
  Lemma remove_service_nb m k' : nb m → opr nb (remove_service m k').
  Proof. intros H. unfold remove_service. repeat step1. Qed.
  Lemma remove_object_nb m k' : nb m → opr nb (remove_object m k').
  Proof.
    intros H. unfold remove_object.
    repeat first [ match goal with |- opr _ (remove_service _ _) => apply remove_service_nb end | step1 ].
  Qed.
  Lemma sc_ev_nb c' m k' : nb m → opr nb (sc_ev c' m k').
  Proof. intros H. unfold sc_ev, sc_ev_inner. repeat step1. Qed.
  Lemma sc_all_nb c' m k' : nb m → opr nb (sc_all c' m k').
  Proof. intros H. unfold sc_all. repeat step1. Qed.
  Lemma sc_end_nb c' e m k' : nb m → opr nb (sc_end c' e m k').
  Proof.
    intros H. unfold sc_end.
    repeat first [ match goal with |- opr _ (remove_end _ _ _) => apply remove_end_nb end | step1 ].
  Qed.

  Lemma sc_aborts_nb cs m : no_entry cs → nb m → nb (sc_aborts cs m).
  Proof.
    intros Hcs H. unfold sc_aborts.
    assert (∀ p, p ∈ map_to_list (cs_calls cs) → ∀ callee, p.2 ≠ (b, callee)) as Hl.
    { intros [serial p] Hp callee Heq. cbn in Heq. subst p. apply elem_of_map_to_list in Hp. by eapply Hcs. }
    induction (map_to_list (cs_calls cs)) as [|p l IH]; cbn [foldr]; [exact H|].
    intros callee Hin. unfold nb in IH. cbn in Hin. apply elem_of_cons in Hin as [Heq|Hin].
    - eapply (Hl p); [left|]. symmetry. exact Heq.
    - eapply IH; [|exact Hin]. intros p' Hp'. apply Hl. by right.
  Qed.

  Lemma shutdown_conn_nb m c' sd :
    (∀ cs, conns (ms m) !! c' = Some cs → no_entry cs) → nb m → opr nb (shutdown_conn m c' sd).
  Proof.
    intros Hcs H. rewrite shutdown_conn_eq. destruct (conns (ms m) !! c') as [cs|]; [|exact H].
    specialize (Hcs cs eq_refl). cbv zeta.
    match goal with |- opr _ (foldO _ _ (foldl _ ?a _) >>> _) => assert (nb a) as Ha end.
    { destruct (sd && cs_alive cs); exact H. }
    match goal with |- opr _ (foldO _ _ (foldl _ ?a _) >>> _) => generalize dependent a; intros m1 Ha end.
    apply opr_bind.
    { apply opr_foldO; [intros; by apply remove_object_nb|].
      apply pr_foldl; [intros; by apply remove_listener_nb|exact Ha]. }
    intros m3 H3. apply opr_bind; [apply opr_foldO; [intros; by apply sc_ev_nb|exact H3]|].
    intros m4 H4. apply opr_bind; [apply opr_foldO; [intros; by apply sc_all_nb|exact H4]|].
    intros m5 H5. apply opr_bind; [apply opr_foldO; [intros; by apply sc_end_nb|exact H5]|].
    intros m7 H7. apply opr_bind; [apply opr_foldO; [intros; by apply sc_end_nb|exact H7]|].
    intros m8 H8. cbn [opr]. pose proof (sc_aborts_nb cs m8 Hcs H8) as H9. exact H9.
  Qed.

  Lemma bus_nb m ev : nb m → opr nb (bus m ev).
  Proof. intros H. unfold bus. repeat step1. Qed.
  Lemma abort_call_nb m b' callee : nb m → opr nb (abort_call m b' callee).
  Proof. intros H. unfold abort_call. repeat step1. Qed.

  (* handlers: only AbortFunctionCall queues an abort, for an entry of the sender's own map *)
  Lemma create_service_impl_nb m c' serial oc u i fresh : nb m → opr nb (create_service_impl m c' serial oc u i fresh).
  Proof. intros H. unfold create_service_impl. repeat step1. Qed.
  Lemma call_impl_nb m c' serial sc fn ver v bserial : nb m → opr nb (call_impl m c' serial sc fn ver v bserial).
  Proof. intros H. unfold call_impl. repeat step1. Qed.
  Lemma gate_nb m c' minv f : nb m → (∀ m, nb m → opr nb (f m)) → opr nb (gate m c' minv f).
  Proof. intros H Hk. unfold gate. destruct (ver_of m c'); [|exact H]. destruct (_ <? _); [exact H|by apply Hk]. Qed.
  Lemma claim_tail_nb m1 c' reply other msg :
    nb m1 →
    opr nb (match send m1 c' reply None with
            | Panic s => Panic s
            | Done m2 => send_or_remove m2 other msg None
            | Fail m2 =>
                match send_or_remove m2 other msg None with
                | Done m3 => Fail m3
                | x => x
                end
            end).
  Proof.
    intros H. pose proof (send_nb m1 c' reply None H) as Hs1.
    destruct (send m1 c' reply None) as [m2|m2|]; cbn in Hs1; [by apply send_or_remove_nb| |done].
    pose proof (send_or_remove_nb m2 other msg None Hs1) as Hs2.
    destruct (send_or_remove m2 other msg None); done.
  Qed.

  Lemma handle_nb m c x fresh bserial :
    nb m → (∀ cs, conns (ms m) !! c = Some cs → no_entry cs) → opr nb (handle m c x fresh bserial).
  Proof.
    intros H Hcs. unfold handle. destruct (conns (ms m) !! c) as [cs|] eqn:Hc; [|exact H].
    specialize (Hcs cs eq_refl). cbv zeta. destruct x;
    try (repeat first
      [ match goal with
        | |- opr _ (match send _ _ _ _ with _ => _ end) => apply claim_tail_nb
        | |- opr _ (gate _ _ _ _) => apply gate_nb; [|intros ? ?]
        | |- opr _ (create_service_impl _ _ _ _ _ _ _) => apply create_service_impl_nb
        | |- opr _ (call_impl _ _ _ _ _ _ _ _) => apply call_impl_nb
        | |- opr _ (remove_service _ _) => apply remove_service_nb
        | |- opr _ (remove_object _ _) => apply remove_object_nb
        | |- opr _ (remove_end _ _ _) => apply remove_end_nb
        | |- nb (remove_listener _ _) => apply remove_listener_nb
        end
      | step1 ]; fail).
    (* AbortFunctionCall *)
    apply gate_nb; [exact H|]. intros m' Hm'. destruct (cs_calls cs !! serial) as [[b' callee']|] eqn:E; [|exact Hm'].
    cbn [opr]. intros callee Hin. unfold nb in Hm'. cbn in Hin. apply elem_of_cons in Hin as [Heq|Hin]; [|by eapply Hm'].
    inversion Heq; subst. by eapply Hcs.
  Qed.

  (* ---------------------------------------------------------------- the state predicate *)
  (* the call record; the called service with its owner [o_owner o] (FuelProofsFrame.sf); no other
     service lists [b]; no pending map other than the caller's mentions [b]; [b] is a u32 *)
  Definition cf' (Cn : gmap conn cstate) (O : gmap uuid obj) (S : gmap (uuid * uuid) svc)
      (K : gmap N call) (nxt : N) : Prop :=
    K !! b = Some cl ∧ sf' kb o ck ock inf O S ∧
    (∀ k' sv', S !! k' = Some sv' → b ∈ s_calls sv' → k' = kb) ∧
    (∀ c' cs', Cn !! c' = Some cs' → c' ≠ caller → no_entry cs') ∧
    b < 4294967296.
  Definition cf (s : state) : Prop := cf' (conns s) (objs s) (svcs s) (calls s) (next s).

  Lemma cf_svc_update Cn O S K nxt k0 v v' :
    cf' Cn O S K nxt → S !! k0 = Some v → s_cookie v' = s_cookie v → s_obj_cookie v' = s_obj_cookie v →
    s_info v' = s_info v → (b ∈ s_calls v' → b ∈ s_calls v) → cf' Cn O (<[k0 := v']> S) K nxt.
  Proof.
    intros (H1 & H2 & H3 & H4 & H5) Hk0 E1 E2 E3 Hc. split; [done|]. split; [by eapply sf_svc_update|].
    split; [|done]. intros k' sv'. rewrite lookup_insert_Some. intros [[<- <-]|[_ Hk']]; eauto.
  Qed.
  Lemma cf_svc_new Cn O S K nxt k0 v' :
    cf' Cn O S K nxt → S !! k0 = None → s_cookie v' ≠ ck → b ∉ s_calls v' → cf' Cn O (<[k0 := v']> S) K nxt.
  Proof.
    intros (H1 & H2 & H3 & H4 & H5) Hk0 Hc Hb. split; [done|]. split; [|split; [|done]].
    - apply sf_svc_insert; [done| |done]. intros ->. destruct H2 as (_ & (sv & Hsv & _) & _). congruence.
    - intros k' sv'. rewrite lookup_insert_Some. intros [[<- <-]|[_ Hk']]; [done|eauto].
  Qed.
  Lemma cf_svc_delete Cn O S K nxt k0 : cf' Cn O S K nxt → k0 ≠ kb → cf' Cn O (delete k0 S) K nxt.
  Proof.
    intros (H1 & H2 & H3 & H4 & H5) Hne. split; [done|]. split; [by apply sf_svc_delete|]. split; [|done].
    intros k' sv'. rewrite lookup_delete_Some. intros [_ Hk']; eauto.
  Qed.
  Lemma cf_obj_insert Cn O S K nxt u o' :
    cf' Cn O S K nxt → u ≠ kb.1 → o_cookie o' ≠ o_cookie o → cf' Cn (<[u := o']> O) S K nxt.
  Proof. intros (H1 & H2 & H3 & H4 & H5) ? ?. split; [done|]. split; [by apply sf_obj_insert|done]. Qed.
  Lemma cf_obj_delete Cn O S K nxt u : cf' Cn O S K nxt → u ≠ kb.1 → cf' Cn (delete u O) S K nxt.
  Proof. intros (H1 & H2 & H3 & H4 & H5) ?. split; [done|]. split; [by apply sf_obj_delete|done]. Qed.
  Lemma cf_call_delete Cn O S K nxt b' : cf' Cn O S K nxt → b' ≠ b → cf' Cn O S (delete b' K) nxt.
  Proof. intros (H1 & H2 & H3 & H4 & H5) ?. split; [by rewrite lookup_delete_ne|done]. Qed.
  Lemma cf_call_insert Cn O S K nxt b' x : cf' Cn O S K nxt → b' ≠ b → cf' Cn O S (<[b' := x]> K) nxt.
  Proof. intros (H1 & H2 & H3 & H4 & H5) ?. split; [by rewrite lookup_insert_ne|done]. Qed.
  Lemma cf_next Cn O S K nxt nxt' : cf' Cn O S K nxt → cf' Cn O S K nxt'.
  Proof. intros H. exact H. Qed.
  Lemma cf_conn_delete Cn O S K nxt c' : cf' Cn O S K nxt → cf' (delete c' Cn) O S K nxt.
  Proof.
    intros (H1 & H2 & H3 & H4 & H5). split; [done|]. split; [done|]. split; [done|]. split; [|done].
    intros c'' cs'. rewrite lookup_delete_Some. intros [_ Hc']; eauto.
  Qed.
  (* a connection entry changes: its pending map mentions [b] only if it did before *)
  Lemma cf_conn_update Cn O S K nxt c' cs cs' :
    cf' Cn O S K nxt → Cn !! c' = Some cs → (no_entry cs → no_entry cs') → cf' (<[c' := cs']> Cn) O S K nxt.
  Proof.
    intros (H1 & H2 & H3 & H4 & H5) Hc' Hn. split; [done|]. split; [done|]. split; [done|]. split; [|done].
    intros c'' cs''. rewrite lookup_insert_Some. intros [[<- <-]|[_ Hc'']]; eauto.
  Qed.
  Lemma cf_conn_new Cn O S K nxt c' cs' :
    cf' Cn O S K nxt → no_entry cs' → cf' (<[c' := cs']> Cn) O S K nxt.
  Proof.
    intros (H1 & H2 & H3 & H4 & H5) Hn. split; [done|]. split; [done|]. split; [done|]. split; [|done].
    intros c'' cs''. rewrite lookup_insert_Some. intros [[<- <-]|[_ Hc'']]; eauto.
  Qed.
  Lemma no_entry_delete cs serial : no_entry cs → no_entry (cs <| cs_calls ::= delete serial |>).
  Proof. intros H s' callee. cbn. rewrite lookup_delete_Some. intros [_ ?]. by eapply H. Qed.
  Lemma no_entry_alive cs a : no_entry cs → no_entry (cs <| cs_alive := a |>).
  Proof. intros H. exact H. Qed.

  Lemma cf_subs c s : cf s → cf (sc_subs c s).
  Proof.
    intros (H1 & H2 & H3 & H4 & H5). split; [done|]. split; [by apply (sf_subs kb o ck ock inf c s)|].
    split; [|done]. unfold sc_subs. cbn. intros k' sv'. rewrite lookup_fmap.
    destruct (svcs s !! k') as [v|] eqn:E; [|done]. cbn. intros [= <-]. cbn. eauto.
  Qed.

  Lemma cf_sf s : cf s → sf kb o ck ock inf s.
  Proof. intros (_ & H2 & _). exact H2. Qed.

  (* ---------------------------------------------------------------- the cascade *)
  Lemma remove_listener_cf m k' : cf (ms m) → cf (ms (remove_listener m k')).
  Proof. intros H. unfold remove_listener. destruct (listeners (ms m) !! k'); exact H. Qed.
  Lemma remove_end_cf m k' e : cf (ms m) → res (SP cf) never (remove_end m k' e).
  Proof.
    intros H. unfold remove_end. destruct (chans (ms m) !! k'); [|exact H]. cbv zeta.
    destruct (chan_close _ e); [exact H| |exact I].
    destruct (has _ _); [|exact H]. apply send_or_remove_sp. exact H.
  Qed.

  Lemma remove_service_cf m cookie : cf (ms m) → cookie ≠ ck → res (SP cf) never (remove_service m cookie).
  Proof.
    intros H Hne. unfold remove_service. destruct (svc_by_cookie (ms m) cookie) as [[k0 v]|] eqn:E; [|exact H].
    apply svc_by_cookie_Some in E as [E Ec]. cbv zeta.
    assert (k0 ≠ kb) as Hk0.
    { intros ->. destruct H as (_ & (_ & (sv & H2 & H2' & _) & _) & _). rewrite H2 in E. inversion E; subst. congruence. }
    assert (∀ b', b' ∈ elements (s_calls v) → b' ≠ b) as Hel.
    { intros b' Hb' ->. apply elem_of_elements in Hb'. destruct H as (_ & _ & H3 & _). apply Hk0. eauto. }
    eapply res_bind with (QD := SP cf).
    - apply foldO_res.
      + intros m' b' Hin Hm'. destruct (calls (ms m') !! b') as [cl'|]; [|exact I]. cbn [res].
        destruct (c_aborted cl'); unfold SP, cf in *; cbn; apply cf_call_delete; auto.
      + unfold SP, cf in *. cbn. by apply cf_svc_delete.
    - intros m2 H2. cbn [res].
      match goal with |- context [foldr _ m2 ?l] => destruct (push_svcd_spec cookie l m2) as (P1 & _) end.
      cbv zeta in P1. unfold SP, cf in *. cbn. rewrite P1. exact H2.
  Qed.

  Lemma remove_object_cf m cookie : cf (ms m) → cookie ≠ o_cookie o → res (SP cf) never (remove_object m cookie).
  Proof.
    intros H Hne. unfold remove_object. destruct (obj_by_cookie (ms m) cookie) as [[u o']|] eqn:E; [|exact H].
    apply obj_by_cookie_Some in E as [E Ec]. cbv zeta.
    assert (u ≠ kb.1) as Hu.
    { intros ->. destruct H as (_ & (H1 & _) & _). rewrite H1 in E. inversion E; subst. congruence. }
    eapply res_bind with (QD := SP cf).
    - apply foldO_res.
      + intros m' sc Hin Hm'. apply remove_service_cf; [exact Hm'|].
        apply elem_of_list_fmap in Hin as ([k0 v] & -> & Hin). cbn.
        apply elem_of_List_filter in Hin as [Hin Hp]. apply elem_of_map_to_list in Hin.
        apply bool_decide_eq_true in Hp. cbn in Hp, Hin.
        eapply (sf_svc_cookie_ne kb o ck ock inf _ _ k0 v); [exact (cf_sf _ H)|exact Hin|]. intros ->. congruence.
      + unfold SP, cf in *. cbn. by apply cf_obj_delete.
    - intros m2 H2. exact H2.
  Qed.

  Lemma sc_ev_cf c' m k' : cf (ms m) → res (SP cf) never (sc_ev c' m k').
  Proof.
    intros H. unfold sc_ev. destruct (svcs (ms m) !! k'); [|exact H].
    destruct (owner_of_svc _ _); [|exact I]. cbn [res]. apply (foldl_inv (SP cf)); [|exact H].
    intros m' e _ Hm'. unfold sc_ev_inner. destruct (svcs (ms m') !! k') as [v|] eqn:E; [|exact Hm'].
    cbv zeta. destruct (bool_decide _); unfold SP, cf in *; cbn; eapply cf_svc_update; eauto.
  Qed.
  Lemma sc_all_cf c' m k' : cf (ms m) → res (SP cf) never (sc_all c' m k').
  Proof.
    intros H. unfold sc_all. destruct (svcs (ms m) !! k') as [v|] eqn:E; [|exact H].
    destruct (owner_of_svc _ _); [|exact I]. destruct (bool_decide (c' ∈ _)); [|exact H].
    cbn [res]. cbv zeta. destruct (bool_decide _); unfold SP, cf in *; cbn; eapply cf_svc_update; eauto.
  Qed.
  Lemma sc_end_cf c' e m k' : cf (ms m) → res (SP cf) never (sc_end c' e m k').
  Proof.
    intros H. unfold sc_end. destruct (chans (ms m) !! k'); [|exact H].
    destruct (match e with ESender => _ | EReceiver => _ end); try exact H.
    destruct (bool_decide _); [by apply remove_end_cf|exact H].
  Qed.

  Lemma shutdown_conn_cf m c' sd : c' ≠ o_owner o → cf (ms m) → res (SP cf) never (shutdown_conn m c' sd).
  Proof.
    intros Hne H. rewrite shutdown_conn_eq. destruct (conns (ms m) !! c') as [cs|]; [|exact H].
    cbv zeta.
    match goal with |- res _ _ (foldO _ _ (foldl _ ?x _) >>> _) => set (m1 := x) end.
    assert (cf (ms m1)) as H1.
    { subst m1. destruct (sd && cs_alive cs); unfold cf in *; cbn; by apply cf_conn_delete. }
    clearbody m1.
    match goal with |- res _ _ (foldO _ _ ?x >>> _) => set (m2 := x) end.
    assert (cf (ms m2)) as H2.
    { subst m2. apply (foldl_inv (SP cf)); [intros; by apply remove_listener_cf|exact H1]. }
    clearbody m2.
    assert (∀ x, x ∈ sc_owned c' (ms m2) → x ≠ o_cookie o) as Hown.
    { intros x Hx. unfold sc_owned in Hx. apply elem_of_list_fmap in Hx as ([u' o'] & -> & Hx). cbn.
      apply elem_of_List_filter in Hx as [Hx Hp]. apply elem_of_map_to_list in Hx.
      apply bool_decide_eq_true in Hp. cbn in Hp. intros Hc.
      pose proof (sf_obj_cookie kb o ck ock inf _ _ _ _ (cf_sf _ H2) Hx Hc). congruence. }
    eapply res_bind with (QD := SP cf);
      [apply foldO_res; [intros m' x Hx Hm'; apply remove_object_cf; [exact Hm'|by apply Hown]|exact H2]|].
    intros m3 H3. eapply res_bind with (QD := SP cf); [apply foldO_res; [intros; by apply sc_ev_cf|exact H3]|].
    intros m4 H4. eapply res_bind with (QD := SP cf); [apply foldO_res; [intros; by apply sc_all_cf|exact H4]|].
    intros m5 H5. eapply res_bind with (QD := SP cf);
      [apply foldO_res; [intros; by apply sc_end_cf|by apply cf_subs]|].
    intros m7 H7. eapply res_bind with (QD := SP cf); [apply foldO_res; [intros; by apply sc_end_cf|exact H7]|].
    intros m8 H8. cbn [res]. unfold SP, cf in *. cbn. rewrite sc_aborts_ms. exact H8.
  Qed.

  Lemma cf_call_done s c cs serial : cf s → conns s !! c = Some cs → cf (upd_call_done s c cs serial).
  Proof.
    intros H Hc. unfold cf, upd_call_done in *. cbn. eapply cf_conn_update; [exact H|exact Hc|].
    apply no_entry_delete.
  Qed.

  Lemma abort_call_cf m b' callee : b' ≠ b → cf (ms m) → res (SP cf) never (abort_call m b' callee).
  Proof.
    intros Hne H. unfold abort_call. destruct (calls (ms m) !! b') as [cl'|] eqn:E; [|exact H].
    destruct (c_aborted cl'); [exact H|]. cbv zeta.
    assert (cf (ms m <| calls ::= <[b' := cl' <| c_aborted := true |>]> |>)) as Ha.
    { unfold cf in *. cbn. by apply cf_call_insert. }
    eapply res_bind with (QD := SP cf).
    - cbn. destruct (conns (ms m) !! callee); [|exact Ha].
      destruct (_ <=? _); [apply send_or_remove_sp|]; exact Ha.
    - intros m2 H2. destruct (conns (ms m2) !! _) as [cs|] eqn:E2; [|exact H2].
      destruct (cs_calls _ !! _) eqn:E3; [|exact I]. apply send_or_remove_sp. cbn.
      by apply (cf_call_done (ms m2)).
  Qed.

  (* ---------------------------------------------------------------- the handlers of a third connection *)
  Ltac cf_leaf :=
    first
      [ assumption
      | match goal with H : cf (ms ?m) |- _ => unfold cf in *; cbn in *; exact H end
      | idtac ].
  Ltac cf_call := first [ apply res_never, remove_end_cf; cbn; cf_leaf ].

  Lemma create_service_impl_cf m c serial oc u i fresh :
    cf (ms m) → fresh ≠ ck → res (SP cf) (SP cf) (create_service_impl m c serial oc u i fresh).
  Proof.
    intros H Hf. unfold create_service_impl. wp cf_leaf idtac. prep.
    unfold cf in *. cbn. apply cf_svc_new; [exact H|assumption|cbn; congruence|cbn; set_solver].
  Qed.

  (* the allocator returns a vacant serial (SerialAlloc.sm_probe_vacant needs no bound on next) *)
  Lemma pick_serial_cf s bs n n0 : cf s → pick_serial s bs = Some (n, n0) → n ≠ b.
  Proof.
    intros (H1 & _) Hp ->. apply pick_serial_Some in Hp as [Hp _]. apply sm_probe_vacant in Hp.
    apply sm_occ_false in Hp. congruence.
  Qed.

  Lemma no_entry_insert cs serial n callee : no_entry cs → n ≠ b → no_entry (cs <| cs_calls ::= <[serial := (n, callee)]> |>).
  Proof.
    intros H Hn s' callee'. cbn. rewrite lookup_insert_Some. intros [[_ [= -> _]]|[_ ?]]; [done|]. by eapply H.
  Qed.

  Lemma call_impl_cf m c serial sc fn ver v bserial :
    cf (ms m) → res (SP cf) (SP cf) (call_impl m c serial sc fn ver v bserial).
  Proof.
    intros H. unfold call_impl. wp cf_leaf idtac; prep;
      match goal with Hp : pick_serial _ _ = Some _ |- _ => pose proof (pick_serial_cf _ _ _ _ H Hp) as Hnb end.
    - unfold cf in *. cbn in *. eapply cf_conn_update; [|eassumption|intros; by apply no_entry_insert].
      eapply cf_svc_update; [|eassumption|reflexivity..|cbn; set_solver].
      apply cf_call_insert; [|done]. eapply cf_next; exact H.
    - unfold cf in *. cbn in *. eapply cf_conn_update; [|eassumption|intros; by apply no_entry_insert].
      eapply cf_svc_update; [|eassumption|reflexivity..|cbn; set_solver].
      apply cf_call_insert; [|done]. eapply cf_next; exact H.
  Qed.

  Ltac reply_pre :=
    match goal with
    | H : cf (ms ?m), Hc0 : calls (ms ?m) !! ?serial = Some ?c0,
      Ho1 : owner_of_svc (ms ?m) (c_svc ?c0) = Some _ |- _ =>
        assert (serial ≠ b) as Hsb by
          (intros ->; pose proof H as (Hcl & (Hob & _) & _); rewrite Hcl in Hc0; inversion Hc0; subst c0;
           unfold owner_of_svc in Ho1; rewrite Hob in Ho1; cbn in Ho1; congruence);
        unfold cf in *; cbn in *
    end.

  Lemma handle_cf m c x fresh bserial :
    cf (ms m) → c ≠ caller → c ≠ o_owner o → fresh ≠ ck → fresh ≠ o_cookie o →
    res (SP cf) (SP cf) (handle m c x fresh bserial).
  Proof.
    intros H Hc1 Hc2 Hf1 Hf2. unfold handle. destruct (conns (ms m) !! c) as [cs|] eqn:Ecn; [|exact H].
    destruct x; try exact H;
      wp cf_leaf ltac:(first [ apply create_service_impl_cf; [cbn; cf_leaf|assumption]
                             | apply call_impl_cf; cbn; cf_leaf | cf_call ]).
    all: prep.
    all: try (apply remove_listener_cf; exact H).
    all: try (unfold cf in *; cbn in *; eapply cf_svc_update; eauto; fail).
    - (* CreateObject *)
      unfold cf in *. cbn. apply cf_obj_insert; [exact H| |cbn; congruence].
      intros ->. destruct H as (_ & (H1 & _) & _). congruence.
    - (* DestroyObject: the sender owns the object it destroys *)
      apply res_never, remove_object_cf; [exact H|]. intros Hco.
      match goal with Ho : objs (ms m) !! ?u = Some ?o0 |- _ =>
        assert (o0 = o) by (eapply (sf_obj_cookie kb o ck ock inf _ _ u); [exact (cf_sf _ H)|exact Ho|congruence]) end.
      congruence.
    - (* DestroyService: the sender owns the object of the service it destroys *)
      apply res_never, remove_service_cf; [exact H|]. intros Hco.
      match goal with Hs : svcs (ms m) !! ?p0 = Some ?s, Ho : owner_of_svc (ms m) ?p0 = Some _ |- _ =>
        assert (p0 = kb) as Hp by (eapply (sf_svc_cookie kb o ck ock inf); [exact (cf_sf _ H)|exact Hs|congruence]);
        rewrite Hp in Ho; unfold owner_of_svc in Ho end.
      destruct H as (_ & (H1 & _) & _). rewrite H1 in *. cbn in *. congruence.
    (* CallFunctionReply: only the owner of the called service's object answers a call *)
    - reply_pre. eapply cf_svc_update; [|eassumption|reflexivity..|cbn; set_solver]. by apply cf_call_delete.
    - reply_pre. eapply cf_conn_update; [|eassumption|apply no_entry_delete].
      eapply cf_svc_update; [|eassumption|reflexivity..|cbn; set_solver]. by apply cf_call_delete.
    - reply_pre. eapply cf_svc_update; [|eassumption|reflexivity..|cbn; set_solver]. by apply cf_call_delete.
  Qed.

  (* ---------------------------------------------------------------- the work loop *)
  Definition cf_inv (m : M) : Prop := stays caller m ∧ stays (o_owner o) m ∧ cf (ms m) ∧ nb m.

  Lemma cf_no_entry s c' cs : cf s → conns s !! c' = Some cs → c' ≠ caller → no_entry cs.
  Proof. intros (_ & _ & _ & H4 & _). eauto. Qed.

  Lemma settle_one_cf m r : cf_inv m → settle_one m = Some r → opr cf_inv r.
  Proof.
    intros (S1 & S2 & H & Hnb) E.
    pose proof (settle_one_stays caller m r S1 E) as R1.
    pose proof (settle_one_stays (o_owner o) m r S2 E) as R2.
    assert (res (SP cf) never r) as R3.
    { revert E. apply (settle_one_cases (fun x => x = Some r → res (SP cf) never r)).
      - intros c sd q Eq [= <-]. apply shutdown_conn_cf; [|exact H].
        intros ->. destruct S2 as [_ Hq]. apply (Hq sd). rewrite Eq. left.
      - intros c s e q _ _ [= <-]. by apply notify_item_sp.
      - intros c s q _ _ [= <-]. by apply notify_item_sp.
      - intros c s q _ _ [= <-]. by apply notify_item_sp.
      - intros serial c result q _ _ [= <-]. apply rm_call_item_sp; [|exact H].
        intros s c' cs serial' Hs Hc' _. by apply cf_call_done.
      - intros ev m' _ Hm' _ _ [= <-]. apply bus_sp. by rewrite Hm'.
      - intros b' callee q _ Ew [= <-]. apply abort_call_cf; [|exact H].
        intros ->. apply (Hnb callee). rewrite Ew. left.
      - discriminate. }
    assert (opr nb r) as R4.
    { revert E. unfold settle_one. destruct (w_remove_conns (mw m)) as [|[c' sd] q] eqn:Eq.
      - repeat match goal with
               | |- match ?l with [] => _ | _ :: _ => _ end = Some _ → _ => destruct l as [|? ?] eqn:?
               | |- (let '(_, _) := ?p in _) = Some _ → _ => destruct p
               end; try discriminate; intros [= <-];
          repeat first
            [ match goal with
              | |- opr _ (abort_call _ _ _) => apply abort_call_nb
              | |- opr _ (bus _ _) => apply bus_nb
              end
            | step1 ].
        intros callee Hin. cbn in Hin. apply (Hnb callee).
        match goal with Hw : w_abort (mw m) = _ |- _ => rewrite Hw end. by right.
      - intros [= <-]. apply shutdown_conn_nb; [|exact Hnb].
        intros cs Hcs. eapply cf_no_entry; [exact H|exact Hcs|].
        intros ->. destruct S1 as [_ Hq]. apply (Hq sd). rewrite Eq. left. }
    unfold cf_inv. destruct r; cbn in *; done.
  Qed.

  Lemma settle_cf fuel : ∀ m, cf_inv m → opr cf_inv (settle fuel m).
  Proof.
    induction fuel as [|fuel IH]; intros m H; rewrite settle_unfold;
      (destruct (settle_one m) as [r|] eqn:E; [|exact H]);
      pose proof (settle_one_cf m r H E) as Hres; destruct r as [m'|m'|]; cbn in Hres |- *; trivial;
      apply IH; assumption.
  Qed.
End CallFrame.
