(* Broker/Model.v — the abstract broker machine: broker/src/broker.rs handle_event +
   process_loop_result as ONE atomic step per dequeued event, over a state without the redundant
   mirrors of the Rust structs (objects uuid ↦ (cookie, owner), services (obj, uuid) ↦ ...,
   calls, channels, listeners, connections with version / receiver-alive flag / pending calls).
   Every `send!` site keeps its own failure handling (`?`, push_remove_conn, ignored); the five
   gauges are incremented/decremented exactly where the Rust does; every lookup the Rust makes
   with expect("inconsistent state")/indexing/unreachable!/debug_assert! is a [Panic site].
   Transcribed from the design-round prototype notes/proto_broker/src/model.rs, which agreed with
   the real broker on 3.2 million steps.  Iteration over hash collections uses the map's own
   order here (outputs are compared per connection as multisets). *)
From stdpp Require Import gmap list.
From RecordUpdate Require Import RecordSet.
Import RecordSetNotations.
From Aldrin Require Import gen.BrokerConsts.
Local Open Scope N_scope.

Definition conn := N.
Definition uuid := N.
Definition payload := N.   (* opaque: the harness maps ids to byte strings *)

(* ---------------------------------------------------------------- messages *)
Inductive chan_end := ESender | EReceiver.
Inductive chan_end_cap := CSender | CReceiver (cap : N).
Inductive scope := SCurrent | SNew | SAll.
Inductive bfilter :=
| FObject (o : option uuid)
| FService (o : option uuid) (s : option uuid).

Inductive bus_event :=
| EvObjectCreated (u c : uuid) | EvObjectDestroyed (u c : uuid)
| EvServiceCreated (ou oc su sc : uuid) | EvServiceDestroyed (ou oc su sc : uuid).

Record info := { i_version : N; i_type_id : option uuid; i_sub_all : option bool }.

Inductive call_result :=
| CROk (v : payload) | CRErr (v : payload) | CRAborted | CRInvalidService | CRInvalidFunction
| CRInvalidArgs.

Inductive res_create_object := COOk (c : uuid) | CODuplicate.
Inductive res3 := R3Ok | R3Invalid | R3Foreign.         (* destroy object/service, close end *)
Inductive res_create_service := CSOk (c : uuid) | CSDuplicate | CSInvalidObject | CSForeign.
Inductive res_claim := CLSenderClaimed (cap : N) | CLReceiverClaimed | CLInvalid | CLAlready.
Inductive res_start := STOk | STInvalid | STAlready.
Inductive res_stop := SPOk | SPInvalid | SPNotStarted.
Inductive res_sub_all := SAOk | SAInvalid | SANotSupported.
Inductive res_info := QIOk (i : info) | QIInvalid.

Inductive msg :=
| CreateObject (serial : N) (u : uuid)
| CreateObjectReply (serial : N) (r : res_create_object)
| DestroyObject (serial : N) (c : uuid)
| DestroyObjectReply (serial : N) (r : res3)
| CreateService (serial : N) (oc u : uuid) (version : N)
| CreateService2 (serial : N) (oc u : uuid) (i : option info)
| CreateServiceReply (serial : N) (r : res_create_service)
| DestroyService (serial : N) (c : uuid)
| DestroyServiceReply (serial : N) (r : res3)
| CallFunction (serial : N) (sc : uuid) (f : N) (v : payload)
| CallFunction2 (serial : N) (sc : uuid) (f : N) (ver : option N) (v : payload)
| CallFunctionReply (serial : N) (r : call_result)
| SubscribeEvent (serial : option N) (sc : uuid) (ev : N)
| SubscribeEventReply (serial : N) (ok : bool)
| UnsubscribeEvent (sc : uuid) (ev : N)
| EmitEvent (sc : uuid) (ev : N) (v : payload)
| QueryServiceVersion (serial : N) (c : uuid)
| QueryServiceVersionReply (serial : N) (r : option N)
| CreateChannel (serial : N) (e : chan_end_cap)
| CreateChannelReply (serial : N) (c : uuid)
| CloseChannelEnd (serial : N) (c : uuid) (e : chan_end)
| CloseChannelEndReply (serial : N) (r : res3)
| ChannelEndClosed (c : uuid) (e : chan_end)
| ClaimChannelEnd (serial : N) (c : uuid) (e : chan_end_cap)
| ClaimChannelEndReply (serial : N) (r : res_claim)
| ChannelEndClaimed (c : uuid) (e : chan_end_cap)
| AddChannelCapacity (c : uuid) (cap : N)
| SendItem (c : uuid) (v : payload)
| ItemReceived (c : uuid) (v : payload)
| Sync (serial : N)
| SyncReply (serial : N)
| ServiceDestroyed (sc : uuid)
| CreateBusListener (serial : N)
| CreateBusListenerReply (serial : N) (c : uuid)
| DestroyBusListener (serial : N) (c : uuid)
| DestroyBusListenerReply (serial : N) (ok : bool)
| AddBusListenerFilter (c : uuid) (f : bfilter)
| RemoveBusListenerFilter (c : uuid) (f : bfilter)
| ClearBusListenerFilters (c : uuid)
| StartBusListener (serial : N) (c : uuid) (s : scope)
| StartBusListenerReply (serial : N) (r : res_start)
| StopBusListener (serial : N) (c : uuid)
| StopBusListenerReply (serial : N) (r : res_stop)
| EmitBusEvent (c : option uuid) (ev : bus_event)
| BusListenerCurrentFinished (c : uuid)
| AbortFunctionCall (serial : N)
| RegisterIntrospection
| QueryIntrospection (serial : N)
| QueryIntrospectionReply (serial : N)      (* result Unavailable when sent by the broker *)
| QueryServiceInfo (serial : N) (c : uuid)
| QueryServiceInfoReply (serial : N) (r : res_info)
| SubscribeService (serial : N) (sc : uuid)
| SubscribeServiceReply (serial : N) (ok : bool)
| UnsubscribeService (sc : uuid)
| SubscribeAllEvents (serial : option N) (sc : uuid)
| SubscribeAllEventsReply (serial : N) (r : res_sub_all)
| UnsubscribeAllEvents (serial : option N) (sc : uuid)
| UnsubscribeAllEventsReply (serial : N) (r : res_sub_all)
| Shutdown
| OtherToBroker.   (* Connect, Connect2, ConnectReply, ConnectReply2: never valid here *)

(* an output: destination, message, and the protocol version of the peer that produced the
   payload (VersionedMessage::version; None for broker-made messages) *)
Definition out := (conn * msg * option N)%type.

Inductive event :=
| NewConnection (c : conn) (ver : N)
| ConnectionShutdown (c : conn)
| Message (c : conn) (m : msg)
| ShutdownBroker
| ShutdownIdleBroker
| ShutdownConnection (c : conn)
| DropTask (c : conn).   (* environment: the Connection future was dropped; sends to c now fail *)

(* ---------------------------------------------------------------- state *)
Inductive end_state := Unclaimed | Claimed (owner : conn) (cap : N) | Closed.
Record chan := { ch_s : end_state; ch_r : end_state }.
Record obj := { o_cookie : uuid; o_owner : conn }.
Record svc := {
  s_cookie : uuid; s_obj_cookie : uuid; s_info : info;
  s_events : gmap N (gset conn); s_all : gset conn; s_subs : gset conn; s_calls : gset N }.
Record call := { c_caller : conn; c_serial : N; c_svc : uuid * uuid; c_aborted : bool }.
Record lis := { l_owner : conn; l_filters : list bfilter; l_scope : option scope }.
Record cstate := { cs_ver : N; cs_alive : bool; cs_calls : gmap N (N * conn) }.
Record stats := { n_conns : N; n_objs : N; n_svcs : N; n_chans : N; n_lis : N }.

Record state := {
  conns : gmap conn cstate;
  objs : gmap uuid obj;
  svcs : gmap (uuid * uuid) svc;
  calls : gmap N call;
  next : N;
  chans : gmap uuid chan;
  listeners : gmap uuid lis;
  st : stats;
  shutdown_now : bool;
  shutdown_idle : bool }.

Record work := {
  w_remove_conns : list (conn * bool);
  w_unsub_ev : list (conn * uuid * N);
  w_unsub_all : list (conn * uuid);
  w_svc_destroyed : list (conn * uuid);
  w_rm_call : list (N * conn * call_result);
  w_create_obj : list (uuid * uuid);
  w_create_svc : list (uuid * uuid * uuid * uuid);
  w_destroy_svc : list (uuid * uuid * uuid * uuid);
  w_destroy_obj : list (uuid * uuid);
  w_abort : list (N * conn) }.

Record M := { ms : state; mw : work; mo : list out }.

#[export] Instance eta_info : Settable _ := settable! Build_info <i_version; i_type_id; i_sub_all>.
#[export] Instance eta_chan : Settable _ := settable! Build_chan <ch_s; ch_r>.
#[export] Instance eta_svc : Settable _ :=
  settable! Build_svc <s_cookie; s_obj_cookie; s_info; s_events; s_all; s_subs; s_calls>.
#[export] Instance eta_call : Settable _ := settable! Build_call <c_caller; c_serial; c_svc; c_aborted>.
#[export] Instance eta_lis : Settable _ := settable! Build_lis <l_owner; l_filters; l_scope>.
#[export] Instance eta_cstate : Settable _ := settable! Build_cstate <cs_ver; cs_alive; cs_calls>.
#[export] Instance eta_stats : Settable _ := settable! Build_stats <n_conns; n_objs; n_svcs; n_chans; n_lis>.
#[export] Instance eta_state : Settable _ :=
  settable! Build_state <conns; objs; svcs; calls; next; chans; listeners; st; shutdown_now; shutdown_idle>.
#[export] Instance eta_work : Settable _ :=
  settable! Build_work <w_remove_conns; w_unsub_ev; w_unsub_all; w_svc_destroyed; w_rm_call;
                        w_create_obj; w_create_svc; w_destroy_svc; w_destroy_obj; w_abort>.
#[export] Instance eta_M : Settable _ := settable! Build_M <ms; mw; mo>.

Definition stats0 := {| n_conns := 0; n_objs := 0; n_svcs := 0; n_chans := 0; n_lis := 0 |}.
Definition init : state :=
  {| conns := ∅; objs := ∅; svcs := ∅; calls := ∅; next := 0; chans := ∅; listeners := ∅;
     st := stats0; shutdown_now := false; shutdown_idle := false |}.
Definition work0 : work :=
  {| w_remove_conns := []; w_unsub_ev := []; w_unsub_all := []; w_svc_destroyed := [];
     w_rm_call := []; w_create_obj := []; w_create_svc := []; w_destroy_svc := [];
     w_destroy_obj := []; w_abort := [] |}.

(* ---------------------------------------------------------------- outcomes *)
(* Done: Ok(()) ; Fail: the handler returned Err(()) (state changes made so far persist);
   Panic: an expect/index/unreachable!/debug_assert! site fired *)
Inductive outcome (A : Type) := Done (a : A) | Fail (a : A) | Panic (site : N).
Arguments Done {A} a. Arguments Fail {A} a. Arguments Panic {A} site.

(* only [Done] continues; [Fail] propagates as is *)
Definition andThen (x : outcome M) (f : M -> outcome M) : outcome M :=
  match x with Done a => f a | Fail a => Fail a | Panic s => Panic s end.
Notation "m1 >>> f" := (andThen m1 f) (at level 62, left associativity).

Definition sat_sub1 (n : N) : N := N.pred n.
Definition u32_wrap (n : N) : N := n mod 4294967296.
Definition u32_max : N := 4294967295.

(* ---------------------------------------------------------------- sending *)
Definition has (m : M) (c : conn) : bool := bool_decide (is_Some (conns (ms m) !! c)).

(* precondition at every Rust site: c is connected; Err iff its receiver is gone *)
Definition send (m : M) (c : conn) (x : msg) (from : option N) : outcome M :=
  match conns (ms m) !! c with
  | None => Panic 1
  | Some cs => if cs_alive cs then Done (m <| mo := mo m ++ [(c, x, from)] |>) else Fail m
  end.

Definition push_remove (m : M) (c : conn) (sd : bool) : M :=
  m <| mw; w_remove_conns ::= cons (c, sd) |>.

(* `if send!(..).is_err() { state.push_remove_conn(c, false) }` *)
Definition send_or_remove (m : M) (c : conn) (x : msg) (from : option N) : outcome M :=
  match send m c x from with
  | Done m' => Done m'
  | Fail m' => Done (push_remove m' c false)
  | Panic s => Panic s
  end.

(* `let _ = send!(..)` *)
Definition send_ignore (m : M) (c : conn) (x : msg) (from : option N) : outcome M :=
  match send m c x from with Done m' => Done m' | Fail m' => Done m' | Panic s => Panic s end.

Definition ver_of (m : M) (c : conn) : option N := cs_ver <$> conns (ms m) !! c.

(* ---------------------------------------------------------------- lookups *)
Definition obj_by_cookie (s : state) (c : uuid) : option (uuid * obj) :=
  list_find (fun p => bool_decide (o_cookie p.2 = c)) (map_to_list (objs s)) ≫= fun r => Some r.2.
Definition svc_by_cookie (s : state) (c : uuid) : option ((uuid * uuid) * svc) :=
  list_find (fun p => bool_decide (s_cookie p.2 = c)) (map_to_list (svcs s)) ≫= fun r => Some r.2.
Definition owner_of_svc (s : state) (k : uuid * uuid) : option conn := o_owner <$> objs s !! k.1.

(* ---------------------------------------------------------------- filters *)
Definition opt_matches (f : option uuid) (u : uuid) : bool :=
  match f with None => true | Some x => bool_decide (x = u) end.
Definition matches_object (f : bfilter) (u : uuid) : bool :=
  match f with FObject o => opt_matches o u | FService _ _ => false end.
Definition matches_service (f : bfilter) (ou su : uuid) : bool :=
  match f with FObject _ => false | FService o s => opt_matches o ou && opt_matches s su end.
Definition matches_event (f : bfilter) (ev : bus_event) : bool :=
  match ev with
  | EvObjectCreated u _ | EvObjectDestroyed u _ => matches_object f u
  | EvServiceCreated ou _ su _ | EvServiceDestroyed ou _ su _ => matches_service f ou su
  end.
Definition includes_new (s : scope) : bool := match s with SNew | SAll => true | SCurrent => false end.
Definition includes_current (s : scope) : bool := match s with SCurrent | SAll => true | SNew => false end.

Definition filter_eqb (a b : bfilter) : bool :=
  match a, b with
  | FObject x, FObject y => bool_decide (x = y)
  | FService x1 x2, FService y1 y2 => bool_decide (x1 = y1) && bool_decide (x2 = y2)
  | _, _ => false
  end.
Definition filters_insert (f : bfilter) (l : list bfilter) : list bfilter :=
  if existsb (filter_eqb f) l then l else l ++ [f].
Definition filters_remove (f : bfilter) (l : list bfilter) : list bfilter :=
  List.filter (fun g => negb (filter_eqb f g)) l.

(* ---------------------------------------------------------------- fold helper *)
Fixpoint foldO {A} (f : M -> A -> outcome M) (l : list A) (m : M) : outcome M :=
  match l with
  | [] => Done m
  | x :: r => match f m x with Done m' => foldO f r m' | Fail m' => Fail m' | Panic s => Panic s end
  end.

(* ---------------------------------------------------------------- channels (broker/src/broker/channel.rs) *)
(* the per-channel logic as pure functions, exactly as channel.rs separates it from broker.rs *)
Definition channel_cap_add (a b : N) : option N := if a + b <=? u32_max then Some (a + b) else None.

Inductive claim_outcome :=
| ClaimErr (r : res_claim)                          (* AlreadyClaimed / InvalidChannel *)
| ClaimOk (ch' : chan) (other : conn) (r : res_claim)
| ClaimPanic (site : N).                            (* the unreachable!() arms *)

(* Channel::claim_sender / claim_receiver *)
Definition chan_claim (ch : chan) (c : conn) (e : chan_end_cap) : claim_outcome :=
  match e with
  | CSender =>
      match ch_s ch with
      | Claimed _ _ => ClaimErr CLAlready
      | Closed => ClaimErr CLInvalid
      | Unclaimed =>
          match ch_r ch with
          | Claimed ro cap => ClaimOk (ch <| ch_s := Claimed c cap |>) ro (CLSenderClaimed cap)
          | _ => ClaimPanic 30
          end
      end
  | CReceiver cap =>
      match ch_r ch with
      | Claimed _ _ => ClaimErr CLAlready
      | Closed => ClaimErr CLInvalid
      | Unclaimed =>
          match ch_s ch with
          | Claimed so _ => ClaimOk {| ch_s := Claimed so cap; ch_r := Claimed c cap |} so CLReceiverClaimed
          | _ => ClaimPanic 31
          end
      end
  end.

(* Channel::check_close *)
Definition chan_close_result (ch : chan) (c : conn) (e : chan_end) : res3 :=
  match (match e with ESender => ch_s ch | EReceiver => ch_r ch end) with
  | Unclaimed => R3Ok
  | Claimed o _ => if bool_decide (o = c) then R3Ok else R3Foreign
  | Closed => R3Invalid
  end.

Inductive close_outcome :=
| CloseDrop                                  (* the channel is removed *)
| CloseNotify (ch' : chan) (other : conn)    (* stays, with this end Closed; tell the other owner *)
| ClosePanic (site : N).

(* Channel::close *)
Definition chan_close (ch : chan) (e : chan_end) : close_outcome :=
  let '(own, other, ch') :=
    match e with
    | ESender => (ch_s ch, ch_r ch, ch <| ch_s := Closed |>)
    | EReceiver => (ch_r ch, ch_s ch, ch <| ch_r := Closed |>)
    end in
  match own, other with
  | Claimed _ _, Unclaimed | Claimed _ _, Closed => CloseDrop
  | Unclaimed, Claimed o _ | Claimed _ _, Claimed o _ => CloseNotify ch' o
  | _, _ => ClosePanic 10
  end.

Inductive add_cap_outcome :=
| AddIgnore
| AddOverflow                                          (* close the receiver *)
| AddUpdate (ch' : chan) (notify : option (conn * N))  (* sender owner, capacity to announce *)
| AddPanic (site : N).

(* Channel::add_capacity, for a request from [c] *)
Definition chan_add_capacity (ch : chan) (c : conn) (cap : N) : add_cap_outcome :=
  if cap =? 0 then AddIgnore else
  match ch_r ch with
  | Claimed ro rc =>
      if negb (bool_decide (ro = c)) then AddIgnore else
      match channel_cap_add rc cap with
      | None => AddOverflow
      | Some nrc =>
          let ch1 := ch <| ch_r := Claimed ro nrc |> in
          match ch_s ch with
          | Claimed so sc_ =>
              if sc_ <=? LOW_CAPACITY then
                if negb (sc_ <? nrc) then AddPanic 32
                else AddUpdate (ch1 <| ch_s := Claimed so nrc |>) (Some (so, nrc - sc_))
              else AddUpdate ch1 None
          | _ => AddUpdate ch1 None
          end
      end
  | _ => AddIgnore
  end.

Inductive send_item_outcome :=
| ItemIgnore
| ItemReceiverUnclaimed            (* both ends are removed *)
| ItemExhausted                    (* the sender end is closed *)
| ItemForward (ch' : chan) (ro : conn) (add : option N)
| ItemPanic (site : N).

(* Channel::send_item, for an item from [c] *)
Definition chan_send_item (ch : chan) (c : conn) : send_item_outcome :=
  match ch_s ch with
  | Claimed so sc_ =>
      if negb (bool_decide (so = c)) then ItemIgnore else
      match ch_r ch with
      | Unclaimed => ItemReceiverUnclaimed
      | Closed => ItemIgnore
      | Claimed ro rc =>
          if sc_ =? 0 then (if negb (rc =? 0) then ItemPanic 33 else ItemExhausted) else
          if rc =? 0 then ItemPanic 34 else
          let sc1 := sc_ - 1 in let rc1 := rc - 1 in
          let add := if (sc1 <=? LOW_CAPACITY) && (sc1 <? rc1) then Some (rc1 - sc1) else None in
          let sc2 := match add with Some _ => rc1 | None => sc1 end in
          ItemForward {| ch_s := Claimed so sc2; ch_r := Claimed ro rc1 |} ro add
      end
  | _ => ItemIgnore
  end.

(* ---------------------------------------------------------------- removal cascade *)
Definition remove_listener (m : M) (k : uuid) : M :=
  match listeners (ms m) !! k with
  | None => m
  | Some _ => m <| ms; listeners ::= delete k |> <| ms; st; n_lis ::= sat_sub1 |>
  end.

(* Broker::remove_channel_end *)
Definition remove_end (m : M) (cookie : uuid) (e : chan_end) : outcome M :=
  match chans (ms m) !! cookie with
  | None => Done m
  | Some ch =>
      let drop := m <| ms; chans ::= delete cookie |> <| ms; st; n_chans ::= sat_sub1 |> in
      match chan_close ch e with
      | CloseDrop => Done drop
      | CloseNotify ch' o =>
          let m1 := m <| ms; chans ::= <[cookie := ch']> |> in
          if has m1 o then send_or_remove m1 o (ChannelEndClosed cookie e) None else Done drop
      | ClosePanic site => Panic site
      end
  end.

(* Broker::remove_service *)
Definition remove_service (m : M) (cookie : uuid) : outcome M :=
  match svc_by_cookie (ms m) cookie with
  | None => Done m
  | Some (k, s) =>
      let m1 := m <| ms; svcs ::= delete k |>
                  <| mw; w_destroy_svc ::= cons (k.1, s_obj_cookie s, k.2, s_cookie s) |> in
      foldO (fun m b =>
               match calls (ms m) !! b with
               | None => Panic 11
               | Some cl =>
                   let m' := m <| ms; calls ::= delete b |> in
                   Done (if c_aborted cl then m'
                         else m' <| mw; w_rm_call ::= cons (c_serial cl, c_caller cl, CRInvalidService) |>)
               end) (elements (s_calls s)) m1 >>> fun m2 =>
      let targets : gset conn := s_subs s ∪ map_fold (fun _ set acc => set ∪ acc) ∅ (s_events s) in
      let m3 := foldr (fun c m => if has m c then m <| mw; w_svc_destroyed ::= cons (c, cookie) |> else m)
                      m2 (elements targets) in
      Done (m3 <| ms; st; n_svcs ::= sat_sub1 |>)
  end.

(* Broker::remove_object *)
Definition remove_object (m : M) (cookie : uuid) : outcome M :=
  match obj_by_cookie (ms m) cookie with
  | None => Done m
  | Some (u, _) =>
      let m1 := m <| ms; objs ::= delete u |> <| mw; w_destroy_obj ::= cons (u, cookie) |> in
      let scs := (fun p => s_cookie p.2) <$> List.filter (fun p => bool_decide (p.1.1 = u)) (map_to_list (svcs (ms m1))) in
      foldO remove_service scs m1 >>> fun m2 =>
      Done (m2 <| ms; st; n_objs ::= sat_sub1 |>)
  end.

(* Broker::shutdown_connection *)
Definition shutdown_conn (m : M) (c : conn) (send_shutdown : bool) : outcome M :=
  match conns (ms m) !! c with
  | None => Done m
  | Some cs =>
      let m0 := m <| ms; conns ::= delete c |> in
      let m1 := if send_shutdown && cs_alive cs then m0 <| mo := mo m0 ++ [(c, Shutdown, None)] |> else m0 in
      let ls := (fun p => p.1) <$> List.filter (fun p => bool_decide (l_owner p.2 = c)) (map_to_list (listeners (ms m1))) in
      let m2 := foldl remove_listener m1 ls in
      let owned := (fun p => o_cookie p.2) <$> List.filter (fun p => bool_decide (o_owner p.2 = c)) (map_to_list (objs (ms m2))) in
      foldO remove_object owned m2 >>> fun m3 =>
      (* event subscriptions *)
      foldO (fun m k =>
               match svcs (ms m) !! k, owner_of_svc (ms m) k with
               | Some s, Some owner =>
                   let evs := (fun p : N * gset conn => p.1) <$> List.filter (fun p : N * gset conn => bool_decide (c ∈ p.2)) (map_to_list (s_events s)) in
                   Done (foldl (fun m e =>
                           match svcs (ms m) !! k with
                           | Some s =>
                               let set := default ∅ (s_events s !! e) ∖ {[c]} in
                               if bool_decide (set = ∅)
                               then m <| ms; svcs ::= <[k := s <| s_events ::= delete e |>]> |>
                                      <| mw; w_unsub_ev ::= cons (owner, s_cookie s, e) |>
                               else m <| ms; svcs ::= <[k := s <| s_events ::= <[e := set]> |>]> |>
                           | None => m
                           end) m evs)
               | Some _, None => Panic 12
               | None, _ => Done m
               end) ((fun p => p.1) <$> map_to_list (svcs (ms m3))) m3 >>> fun m4 =>
      (* all-events subscriptions *)
      foldO (fun m k =>
               match svcs (ms m) !! k, owner_of_svc (ms m) k with
               | Some s, Some owner =>
                   if bool_decide (c ∈ s_all s) then
                     let all' := s_all s ∖ {[c]} in
                     let m' := m <| ms; svcs ::= <[k := s <| s_all := all' |>]> |> in
                     Done (if bool_decide (all' = ∅) then m' <| mw; w_unsub_all ::= cons (owner, s_cookie s) |> else m')
                   else Done m
               | Some _, None => Panic 13
               | None, _ => Done m
               end) ((fun p => p.1) <$> map_to_list (svcs (ms m4))) m4 >>> fun m5 =>
      (* service subscriptions *)
      let m6 := m5 <| ms; svcs ::= fmap (fun s => s <| s_subs ::= fun x => x ∖ {[c]} |>) |> in
      let cks := (fun p => p.1) <$> map_to_list (chans (ms m6)) in
      foldO (fun m k => match chans (ms m) !! k with
                        | Some ch => match ch_s ch with
                                     | Claimed o _ => if bool_decide (o = c) then remove_end m k ESender else Done m
                                     | _ => Done m end
                        | None => Done m end) cks m6 >>> fun m7 =>
      foldO (fun m k => match chans (ms m) !! k with
                        | Some ch => match ch_r ch with
                                     | Claimed o _ => if bool_decide (o = c) then remove_end m k EReceiver else Done m
                                     | _ => Done m end
                        | None => Done m end) cks m7 >>> fun m8 =>
      let m9 := foldr (fun p m => m <| mw; w_abort ::= cons p.2 |>) m8 (map_to_list (cs_calls cs)) in
      Done (m9 <| ms; st; n_conns ::= sat_sub1 |>)
  end.

(* Broker::emit_bus_event *)
Definition bus (m : M) (ev : bus_event) : outcome M :=
  let targets : gset conn :=
    list_to_set ((fun p => l_owner p.2) <$>
      List.filter (fun p => match l_scope p.2 with
                       | Some sc => includes_new sc && existsb (fun f => matches_event f ev) (l_filters p.2)
                       | None => false end) (map_to_list (listeners (ms m)))) in
  foldO (fun m (c : conn) => if has m c then send_or_remove m c (EmitBusEvent None ev) None else Done m)
        (elements targets) m.

(* Broker::abort_call *)
Definition abort_call (m : M) (b : N) (callee : conn) : outcome M :=
  match calls (ms m) !! b with
  | None => Done m
  | Some cl =>
      if c_aborted cl then Done m else
      let m1 := m <| ms; calls ::= <[b := cl <| c_aborted := true |>]> |> in
      (match conns (ms m1) !! callee with
       | Some cc => if MIN_ABORT_FUNCTION_CALL_OUT <=? cs_ver cc
                    then send_or_remove m1 callee (AbortFunctionCall b) None else Done m1
       | None => Done m1
       end) >>> fun m2 =>
      match conns (ms m2) !! c_caller cl with
      | None => Done m2
      | Some cs =>
          match cs_calls cs !! c_serial cl with
          | None => Panic 14
          | Some _ =>
              let m3 := m2 <| ms; conns ::= <[c_caller cl := cs <| cs_calls ::= delete (c_serial cl) |>]> |> in
              send_or_remove m3 (c_caller cl) (CallFunctionReply (c_serial cl) CRAborted) None
          end
      end
  end.

(* ---------------------------------------------------------------- the work loop *)
(* one iteration of process_loop_result: Some = a work item was processed, None = no work *)
Definition settle_one (m : M) : option (outcome M) :=
  let w := mw m in
  match w_remove_conns w with
  | (c, sd) :: r => Some (shutdown_conn (m <| mw; w_remove_conns := r |>) c sd)
  | [] =>
  match w_unsub_ev w with
  | (c, s, e) :: r =>
      let m := m <| mw; w_unsub_ev := r |> in
      Some (if has m c then send_or_remove m c (UnsubscribeEvent s e) None else Done m)
  | [] =>
  match w_unsub_all w with
  | (c, s) :: r =>
      let m := m <| mw; w_unsub_all := r |> in
      Some (if has m c then send_or_remove m c (UnsubscribeAllEvents None s) None else Done m)
  | [] =>
  match w_svc_destroyed w with
  | (c, s) :: r =>
      let m := m <| mw; w_svc_destroyed := r |> in
      Some (if has m c then send_or_remove m c (ServiceDestroyed s) None else Done m)
  | [] =>
  match w_rm_call w with
  | (serial, c, result) :: r =>
      let m := m <| mw; w_rm_call := r |> in
      Some (match conns (ms m) !! c with
            | None => Done m
            | Some cs =>
                match cs_calls cs !! serial with
                | None => Panic 15
                | Some _ =>
                    let m' := m <| ms; conns ::= <[c := cs <| cs_calls ::= delete serial |>]> |> in
                    send_or_remove m' c (CallFunctionReply serial result) None
                end
            end)
  | [] =>
  match w_create_obj w with
  | (u, c) :: r => Some (bus (m <| mw; w_create_obj := r |>) (EvObjectCreated u c))
  | [] =>
  match w_create_svc w with
  | (ou, oc, su, sc) :: r => Some (bus (m <| mw; w_create_svc := r |>) (EvServiceCreated ou oc su sc))
  | [] =>
  match w_destroy_svc w with
  | (ou, oc, su, sc) :: r => Some (bus (m <| mw; w_destroy_svc := r |>) (EvServiceDestroyed ou oc su sc))
  | [] =>
  match w_destroy_obj w with
  | (u, c) :: r => Some (bus (m <| mw; w_destroy_obj := r |>) (EvObjectDestroyed u c))
  | [] =>
  match w_abort w with
  | (b, callee) :: r => Some (abort_call (m <| mw; w_abort := r |>) b callee)
  | [] => None
  end end end end end end end end end end.

Fixpoint settle (fuel : nat) (m : M) : outcome M :=
  match settle_one m with
  | None => Done m
  | Some (Done m') | Some (Fail m') =>
      match fuel with O => Panic 0 (* out of fuel *) | S f => settle f m' end
  | Some (Panic s) => Panic s
  end.

(* ---------------------------------------------------------------- handlers *)

Definition create_service_impl (m : M) (c : conn) (serial : N) (oc u : uuid) (i : option info)
  (fresh : uuid) : outcome M :=
  match obj_by_cookie (ms m) oc with
  | None => send m c (CreateServiceReply serial CSInvalidObject) None
  | Some (ou, o) =>
      if bool_decide (is_Some (svcs (ms m) !! (ou, u))) then send m c (CreateServiceReply serial CSDuplicate) None
      else if negb (bool_decide (o_owner o = c)) then send m c (CreateServiceReply serial CSForeign) None
      else match i with
           | None => Fail m
           | Some i =>
               send m c (CreateServiceReply serial (CSOk fresh)) None >>> fun m1 =>
               let s := {| s_cookie := fresh; s_obj_cookie := oc; s_info := i; s_events := ∅;
                           s_all := ∅; s_subs := ∅; s_calls := ∅ |} in
               Done (m1 <| mw; w_create_svc ::= cons (ou, oc, u, fresh) |>
                        <| ms; svcs ::= <[(ou, u) := s]> |>
                        <| ms; st; n_svcs ::= N.succ |>)
           end
  end.

(* SerialMap::insert (broker/src/serial_map.rs) chooses the broker-side serial of a call:

     loop { let serial = self.next; self.next = self.next.wrapping_add(1);
            if let Entry::Vacant(entry) = self.elems.entry(serial) { entry.insert(obj); break serial; } }

   [sm_probe fuel occ n]: starting at [n] = next, probe n, n+1, ... (wrapping mod 2^32) until a
   vacant serial is found; the result is (serial, new value of next) with next = serial + 1 mod
   2^32.  The Rust loop does not terminate when all 2^32 serials are occupied; the model probes
   at most |calls| + 1 serials, which finds a vacant one whenever fewer than 2^32 calls are
   pending (SerialProofs.sm_choice_is_Some), and yields None (Panic 20) otherwise.  The text of
   the Rust function is pinned by tools/rs2v_broker.py (gen/BrokerConsts.SERIAL_MAP_INSERT_PINNED). *)
Definition sm_wrap_succ (n : N) : N := (n + 1) mod 4294967296.   (* u32::wrapping_add(1) *)
Fixpoint sm_probe (fuel : nat) (occ : N -> bool) (n : N) : option (N * N) :=
  match fuel with
  | O => None
  | S fuel' => if occ n then sm_probe fuel' occ (sm_wrap_succ n) else Some (n, sm_wrap_succ n)
  end.
(* number of iterations of the loop = how often [next] is advanced *)
Fixpoint sm_probes (fuel : nat) (occ : N -> bool) (n : N) : N :=
  match fuel with
  | O => 0
  | S fuel' => if occ n then 1 + sm_probes fuel' occ (sm_wrap_succ n) else 1
  end.
Definition sm_occ (s : state) (n : N) : bool := bool_decide (is_Some (calls s !! n)).
Definition sm_choice (s : state) : option (N * N) := sm_probe (S (size (calls s))) (sm_occ s) (next s).
Definition sm_advance (s : state) : N := sm_probes (S (size (calls s))) (sm_occ s) (next s).

(* The allocator is part of the model.  [bserial] is the serial the implementation chose, read
   off its trace when the callee received the call: it must be the model's choice (Panic 20
   otherwise; the correspondence driver reports that as a divergence).  When the implementation's
   choice is invisible (the callee never received the call: duplicate caller serial, dead
   callee) [bserial] is None and the model's own choice is used; [next] advances in exactly the
   same way in both cases, as it does in the Rust (insert happens before add_call and before
   the send). *)
Definition pick_serial (s : state) (bserial : option N) : option (N * N) :=
  match sm_choice s with
  | None => None
  | Some (b, nxt) =>
      match bserial with
      | Some b' => if bool_decide (b' = b) then Some (b, nxt) else None
      | None => Some (b, nxt)
      end
  end.

Definition call_impl (m : M) (c : conn) (serial : N) (sc : uuid) (fn : N) (ver : option N)
  (v : payload) (bserial : option N) : outcome M :=
  match svc_by_cookie (ms m) sc with
  | None => send m c (CallFunctionReply serial CRInvalidService) None
  | Some (k, _) =>
      match owner_of_svc (ms m) k, conns (ms m) !! c with
      | Some callee, Some cs =>
          match pick_serial (ms m) bserial with
          | None => Panic 20
          | Some (b, nxt) =>
              let m0 := m <| ms; next := nxt |> in
              if bool_decide (is_Some (cs_calls cs !! serial)) then Fail m0 else
              let cl := {| c_caller := c; c_serial := serial; c_svc := k; c_aborted := false |} in
              match svcs (ms m0) !! k, conns (ms m0) !! callee with
              | Some s, Some callee_cs =>
                  let m1 := m0 <| ms; calls ::= <[b := cl]> |>
                               <| ms; conns ::= <[c := cs <| cs_calls ::= <[serial := (b, callee)]> |>]> |>
                               <| ms; svcs ::= <[k := s <| s_calls ::= fun x => {[b]} ∪ x |>]> |> in
                  if MIN_CALL_FUNCTION2_OUT <=? cs_ver callee_cs
                  then send_or_remove m1 callee (CallFunction2 b sc fn ver v) (Some (cs_ver cs))
                  else send_or_remove m1 callee (CallFunction b sc fn v) (Some (cs_ver cs))
              | _, _ => Panic 21
              end
          end
      | None, _ => Panic 22
      | _, None => Done m
      end
  end.

Definition gate (m : M) (c : conn) (minv : N) (k : M -> outcome M) : outcome M :=
  match ver_of m c with
  | None => Done m
  | Some v => if v <? minv then Fail m else k m
  end.

Definition handle (m : M) (c : conn) (x : msg) (fresh : uuid) (bserial : option N) : outcome M :=
  match conns (ms m) !! c with
  | None => Done m
  | Some cs =>
  let ver := cs_ver cs in
  match x with
  | CreateObject serial u =>
      if bool_decide (is_Some (objs (ms m) !! u)) then send m c (CreateObjectReply serial CODuplicate) None
      else send m c (CreateObjectReply serial (COOk fresh)) None >>> fun m1 =>
           Done (m1 <| ms; objs ::= <[u := {| o_cookie := fresh; o_owner := c |}]> |>
                    <| mw; w_create_obj ::= cons (u, fresh) |>
                    <| ms; st; n_objs ::= N.succ |>)
  | DestroyObject serial cookie =>
      match obj_by_cookie (ms m) cookie with
      | None => send m c (DestroyObjectReply serial R3Invalid) None
      | Some (_, o) =>
          if negb (bool_decide (o_owner o = c)) then send m c (DestroyObjectReply serial R3Foreign) None
          else send m c (DestroyObjectReply serial R3Ok) None >>> fun m1 => remove_object m1 cookie
      end
  | CreateService serial oc u version =>
      create_service_impl m c serial oc u
        (Some {| i_version := version; i_type_id := None; i_sub_all := None |}) fresh
  | CreateService2 serial oc u i =>
      gate m c MIN_CREATE_SERVICE2 (fun m =>
        let i' := (fun i => if ver <? MIN_CREATE_SERVICE2_SUB_ALL then i <| i_sub_all := Some false |> else i) <$> i in
        create_service_impl m c serial oc u i' fresh)
  | DestroyService serial cookie =>
      match svc_by_cookie (ms m) cookie with
      | None => send m c (DestroyServiceReply serial R3Invalid) None
      | Some (k, _) =>
          match owner_of_svc (ms m) k with
          | None => Panic 23
          | Some owner =>
              if negb (bool_decide (owner = c)) then send m c (DestroyServiceReply serial R3Foreign) None
              else send m c (DestroyServiceReply serial R3Ok) None >>> fun m1 => remove_service m1 cookie
          end
      end
  | CallFunction serial sc fn v => call_impl m c serial sc fn None v bserial
  | CallFunction2 serial sc fn fver v => gate m c MIN_CALL_FUNCTION2 (fun m => call_impl m c serial sc fn fver v bserial)
  | CallFunctionReply serial result =>
      match calls (ms m) !! serial with
      | None => Done m
      | Some cl =>
          match owner_of_svc (ms m) (c_svc cl), svcs (ms m) !! c_svc cl with
          | Some owner, Some s =>
              if negb (bool_decide (owner = c)) then Done m else
              if negb (bool_decide (serial ∈ s_calls s)) then Panic 24 else
              let m1 := m <| ms; calls ::= delete serial |>
                          <| ms; svcs ::= <[c_svc cl := s <| s_calls ::= fun x => x ∖ {[serial]} |>]> |> in
              if c_aborted cl then Done m1 else
              match conns (ms m1) !! c_caller cl with
              | None => Done m1
              | Some ccs =>
                  match cs_calls ccs !! c_serial cl with
                  | None => Panic 25
                  | Some _ =>
                      let m2 := m1 <| ms; conns ::= <[c_caller cl := ccs <| cs_calls ::= delete (c_serial cl) |>]> |> in
                      send_or_remove m2 (c_caller cl) (CallFunctionReply (c_serial cl) result) (Some ver)
                  end
              end
          | _, _ => Panic 26
          end
      end
  | SubscribeEvent None _ _ => Fail m
  | SubscribeEvent (Some serial) sc ev =>
      match svc_by_cookie (ms m) sc with
      | None => send m c (SubscribeEventReply serial false) None
      | Some (k, s) =>
          match owner_of_svc (ms m) k with
          | None => Panic 27
          | Some owner =>
              send m c (SubscribeEventReply serial true) None >>> fun m1 =>
              let first := negb (bool_decide (is_Some (s_events s !! ev))) in
              let set := default ∅ (s_events s !! ev) ∪ {[c]} in
              let m2 := m1 <| ms; svcs ::= <[k := s <| s_events ::= <[ev := set]> |>]> |> in
              if first && has m2 owner then send_ignore m2 owner (SubscribeEvent None sc ev) None else Done m2
          end
      end
  | UnsubscribeEvent sc ev =>
      match svc_by_cookie (ms m) sc with
      | None => Done m
      | Some (k, s) =>
          match owner_of_svc (ms m) k, s_events s !! ev with
          | None, _ => Panic 28
          | Some owner, None => Done m
          | Some owner, Some set0 =>
              let set := set0 ∖ {[c]} in
              if bool_decide (set = ∅) then
                let m1 := m <| ms; svcs ::= <[k := s <| s_events ::= delete ev |>]> |> in
                send_or_remove m1 owner (UnsubscribeEvent sc ev) None
              else Done (m <| ms; svcs ::= <[k := s <| s_events ::= <[ev := set]> |>]> |>)
          end
      end
  | EmitEvent sc ev v =>
      match svc_by_cookie (ms m) sc with
      | None => Done m
      | Some (k, s) =>
          match owner_of_svc (ms m) k with
          | None => Panic 29
          | Some owner =>
              if negb (bool_decide (owner = c)) then Done m else
              let t : gset conn := s_all s ∪ default ∅ (s_events s !! ev) in
              foldO (fun m x => send_or_remove m x (EmitEvent sc ev v) (Some ver)) (elements t) m
          end
      end
  | QueryServiceVersion serial cookie =>
      send m c (QueryServiceVersionReply serial ((fun p => i_version (s_info p.2)) <$> svc_by_cookie (ms m) cookie)) None
  | CreateChannel serial e =>
      let ch := match e with
                | CSender => {| ch_s := Claimed c 0; ch_r := Unclaimed |}
                | CReceiver cap => {| ch_s := Unclaimed; ch_r := Claimed c cap |}
                end in
      (* the channel is inserted and counted, then the reply is sent *)
      let m1 := m <| ms; chans ::= <[fresh := ch]> |> <| ms; st; n_chans ::= N.succ |> in
      send m1 c (CreateChannelReply serial fresh) None
  | CloseChannelEnd serial cookie e =>
      match chans (ms m) !! cookie with
      | None => send m c (CloseChannelEndReply serial R3Invalid) None
      | Some ch =>
          let result := chan_close_result ch c e in
          send m c (CloseChannelEndReply serial result) None >>> fun m1 =>
          match result with R3Ok => remove_end m1 cookie e | _ => Done m1 end
      end
  | ClaimChannelEnd serial cookie e =>
      match chans (ms m) !! cookie with
      | None => send m c (ClaimChannelEndReply serial CLInvalid) None
      | Some ch =>
          match chan_claim ch c e with
          | ClaimErr r => send m c (ClaimChannelEndReply serial r) None
          | ClaimPanic site => Panic site
          | ClaimOk ch' other r =>
              let m1 := m <| ms; chans ::= <[cookie := ch']> |> in
              (* the reply's error is returned only after the other end's owner was told *)
              let res := send m1 c (ClaimChannelEndReply serial r) None in
              match res with
              | Panic s => Panic s
              | Done m2 => send_or_remove m2 other (ChannelEndClaimed cookie e) None
              | Fail m2 =>
                  match send_or_remove m2 other (ChannelEndClaimed cookie e) None with
                  | Done m3 => Fail m3
                  | x => x
                  end
              end
          end
      end
  | AddChannelCapacity cookie cap =>
      match chans (ms m) !! cookie with
      | None => Done m
      | Some ch =>
          match chan_add_capacity ch c cap with
          | AddIgnore => Done m
          | AddOverflow => remove_end m cookie EReceiver
          | AddPanic site => Panic site
          | AddUpdate ch' notify =>
              let m1 := m <| ms; chans ::= <[cookie := ch']> |> in
              match notify with
              | Some (so, n) => if has m1 so then send_or_remove m1 so (AddChannelCapacity cookie n) None else Done m1
              | None => Done m1
              end
          end
      end
  | SendItem cookie v =>
      match chans (ms m) !! cookie with
      | None => Done m
      | Some ch =>
          match chan_send_item ch c with
          | ItemIgnore => Done m
          | ItemPanic site => Panic site
          | ItemReceiverUnclaimed => remove_end m cookie EReceiver >>> fun m1 => remove_end m1 cookie ESender
          | ItemExhausted => remove_end m cookie ESender
          | ItemForward ch' ro add =>
              let m1 := m <| ms; chans ::= <[cookie := ch']> |> in
              if negb (has m1 ro) then Done m1 else
              send_or_remove m1 ro (ItemReceived cookie v) (Some ver) >>> fun m2 =>
              match add with Some a => send m2 c (AddChannelCapacity cookie a) None | None => Done m2 end
          end
      end
  | Sync serial => send m c (SyncReply serial) None
  | CreateBusListener serial =>
      send m c (CreateBusListenerReply serial fresh) None >>> fun m1 =>
      Done (m1 <| ms; st; n_lis ::= N.succ |>
               <| ms; listeners ::= <[fresh := {| l_owner := c; l_filters := []; l_scope := None |}]> |>)
  | DestroyBusListener serial cookie =>
      match listeners (ms m) !! cookie with
      | None => send m c (DestroyBusListenerReply serial false) None
      | Some l =>
          if bool_decide (l_owner l = c)
          then send m c (DestroyBusListenerReply serial true) None >>> fun m1 => Done (remove_listener m1 cookie)
          else send m c (DestroyBusListenerReply serial false) None
      end
  | AddBusListenerFilter cookie f =>
      match listeners (ms m) !! cookie with
      | Some l => if bool_decide (l_owner l = c)
                  then Done (m <| ms; listeners ::= <[cookie := l <| l_filters ::= filters_insert f |>]> |>) else Done m
      | None => Done m
      end
  | RemoveBusListenerFilter cookie f =>
      match listeners (ms m) !! cookie with
      | Some l => if bool_decide (l_owner l = c)
                  then Done (m <| ms; listeners ::= <[cookie := l <| l_filters ::= filters_remove f |>]> |>) else Done m
      | None => Done m
      end
  | ClearBusListenerFilters cookie =>
      match listeners (ms m) !! cookie with
      | Some l => if bool_decide (l_owner l = c)
                  then Done (m <| ms; listeners ::= <[cookie := l <| l_filters := [] |>]> |>) else Done m
      | None => Done m
      end
  | StartBusListener serial cookie sc =>
      match listeners (ms m) !! cookie with
      | None => send m c (StartBusListenerReply serial STInvalid) None
      | Some l =>
          if negb (bool_decide (l_owner l = c)) then send m c (StartBusListenerReply serial STInvalid) None else
          match l_scope l with
          | Some _ => send m c (StartBusListenerReply serial STAlready) None
          | None =>
              let m1 := m <| ms; listeners ::= <[cookie := l <| l_scope := Some sc |>]> |> in
              send m1 c (StartBusListenerReply serial STOk) None >>> fun m2 =>
              if includes_current sc then
                let os := List.filter (fun p => existsb (fun f => matches_object f p.1) (l_filters l)) (map_to_list (objs (ms m2))) in
                foldO (fun m p => send m c (EmitBusEvent (Some cookie) (EvObjectCreated p.1 (o_cookie p.2))) None) os m2 >>> fun m3 =>
                let ss := List.filter (fun p => existsb (fun f => matches_service f p.1.1 p.1.2) (l_filters l)) (map_to_list (svcs (ms m3))) in
                foldO (fun m p => send m c (EmitBusEvent (Some cookie)
                                     (EvServiceCreated p.1.1 (s_obj_cookie p.2) p.1.2 (s_cookie p.2))) None) ss m3 >>> fun m4 =>
                send m4 c (BusListenerCurrentFinished cookie) None
              else Done m2
          end
      end
  | StopBusListener serial cookie =>
      match listeners (ms m) !! cookie with
      | None => send m c (StopBusListenerReply serial SPInvalid) None
      | Some l =>
          if negb (bool_decide (l_owner l = c)) then send m c (StopBusListenerReply serial SPInvalid) None else
          let m1 := m <| ms; listeners ::= <[cookie := l <| l_scope := None |>]> |> in
          send m1 c (StopBusListenerReply serial (match l_scope l with Some _ => SPOk | None => SPNotStarted end)) None
      end
  | AbortFunctionCall serial =>
      gate m c MIN_ABORT_FUNCTION_CALL (fun m =>
        match cs_calls cs !! serial with
        | Some p => Done (m <| mw; w_abort ::= cons p |>)
        | None => Done m
        end)
  | RegisterIntrospection => gate m c MIN_REGISTER_INTROSPECTION Done
  | QueryIntrospection serial =>
      gate m c MIN_QUERY_INTROSPECTION (fun m => send m c (QueryIntrospectionReply serial) None)
  | QueryIntrospectionReply _ => Fail m   (* feature "introspection" off: always an error *)
  | QueryServiceInfo serial cookie =>
      gate m c MIN_QUERY_SERVICE_INFO (fun m =>
        send m c (QueryServiceInfoReply serial
                    (match svc_by_cookie (ms m) cookie with Some (_, s) => QIOk (s_info s) | None => QIInvalid end)) None)
  | SubscribeService serial sc =>
      gate m c MIN_SUBSCRIBE_SERVICE (fun m =>
        match svc_by_cookie (ms m) sc with
        | Some (k, s) =>
            send m c (SubscribeServiceReply serial true) None >>> fun m1 =>
            Done (m1 <| ms; svcs ::= <[k := s <| s_subs ::= fun x => {[c]} ∪ x |>]> |>)
        | None => send m c (SubscribeServiceReply serial false) None
        end)
  | UnsubscribeService sc =>
      gate m c MIN_UNSUBSCRIBE_SERVICE (fun m =>
        match svc_by_cookie (ms m) sc with
        | Some (k, s) => Done (m <| ms; svcs ::= <[k := s <| s_subs ::= fun x => x ∖ {[c]} |>]> |>)
        | None => Done m
        end)
  | SubscribeAllEvents serial sc =>
      gate m c MIN_SUBSCRIBE_ALL_EVENTS (fun m =>
        match serial with
        | None => Fail m
        | Some serial =>
            match svc_by_cookie (ms m) sc with
            | None => send m c (SubscribeAllEventsReply serial SAInvalid) None
            | Some (k, s) =>
                match owner_of_svc (ms m) k with
                | None => Panic 35
                | Some owner =>
                    match conns (ms m) !! owner with
                    | None => Panic 36
                    | Some ocs =>
                        if negb (default false (i_sub_all (s_info s))) || (cs_ver ocs <? MIN_SUBSCRIBE_ALL_EVENTS_OWNER)
                        then send m c (SubscribeAllEventsReply serial SANotSupported) None
                        else send m c (SubscribeAllEventsReply serial SAOk) None >>> fun m1 =>
                             let was_empty := bool_decide (s_all s = ∅) in
                             let m2 := m1 <| ms; svcs ::= <[k := s <| s_all ::= fun x => {[c]} ∪ x |>]> |> in
                             if was_empty then send_ignore m2 owner (SubscribeAllEvents None sc) None else Done m2
                    end
                end
            end
        end)
  | UnsubscribeAllEvents serial sc =>
      gate m c MIN_UNSUBSCRIBE_ALL_EVENTS (fun m =>
        let reply r := match serial with Some serial => send m c (UnsubscribeAllEventsReply serial r) None | None => Done m end in
        match svc_by_cookie (ms m) sc with
        | None => reply SAInvalid
        | Some (k, s) =>
            match owner_of_svc (ms m) k with
            | None => Panic 37
            | Some owner =>
                match conns (ms m) !! owner with
                | None => Panic 38
                | Some ocs =>
                    if cs_ver ocs <? MIN_UNSUBSCRIBE_ALL_EVENTS_OWNER then reply SANotSupported else
                    reply SAOk >>> fun m1 =>
                    let was_empty := bool_decide (s_all s = ∅) in
                    let all' := s_all s ∖ {[c]} in
                    let m2 := m1 <| ms; svcs ::= <[k := s <| s_all := all' |>]> |> in
                    if negb was_empty && bool_decide (all' = ∅)
                    then send_ignore m2 owner (UnsubscribeAllEvents None sc) None else Done m2
                end
            end
        end)
  | _ => Fail m
  end end.

(* ---------------------------------------------------------------- one step *)
(* fuel of the work loop (the Rust loop has none), computed from the machine AFTER the handler ran
   (state and queued work).  It is one more than a potential that every iteration of the loop
   lowers (Broker/FuelProofs.v, settle_one_pot), so site 0 = "out of fuel" is unreachable:
     |w_remove_conns| + ends + (3 + |conns|) * (work_len + load)
   work_len = total length of the nine other work queues; load = everything a connection removal
   can turn into work items (objects, services, calls, per service its event keys, all-events and
   service subscribers and the members of every event set, per connection its pending calls);
   ends = channel ends that are not Closed (a removal queued by the cascade closes one).  Every
   item other than a connection removal queues at most |conns| + 2 removals and nothing else. *)
Definition msum `{Countable K} {A} (f : A -> nat) (m : gmap K A) : nat :=
  map_fold (fun _ v acc => (f v + acc)%nat) 0%nat m.
Definition open_end (e : end_state) : nat := match e with Closed => 0%nat | _ => 1%nat end.
Definition chan_weight (ch : chan) : nat := (open_end (ch_s ch) + open_end (ch_r ch))%nat.
Definition svc_weight (sv : svc) : nat :=
  (size (s_events sv) + size (s_all sv) + size (s_subs sv) + msum size (s_events sv))%nat.
Definition state_load (s : state) : nat :=
  (size (objs s) + size (svcs s) + size (calls s) + msum svc_weight (svcs s)
   + msum (fun cs => size (cs_calls cs)) (conns s))%nat.
Definition state_ends (s : state) : nat := msum chan_weight (chans s).
Definition work_len (w : work) : nat :=
  (length (w_unsub_ev w) + length (w_unsub_all w) + length (w_svc_destroyed w) + length (w_rm_call w) +
   length (w_create_obj w) + length (w_create_svc w) + length (w_destroy_svc w) + length (w_destroy_obj w) +
   length (w_abort w))%nat.
Definition fuel_for (m : M) : nat :=
  S (length (w_remove_conns (mw m)) + state_ends (ms m)
     + (3 + size (conns (ms m))) * (work_len (mw m) + state_load (ms m)))%nat.

Definition step (s : state) (e : event) (fresh : uuid) (bserial : option N) : outcome (state * list out) :=
  let m0 := {| ms := s; mw := work0; mo := [] |} in
  let r : outcome M :=
    match e with
    | NewConnection c ver =>
        match conns s !! c with
        | Some _ => Panic 40   (* debug_assert!(dup.is_none()) *)
        | None => Done (m0 <| ms; conns ::= <[c := {| cs_ver := ver; cs_alive := true; cs_calls := ∅ |}]> |>
                           <| ms; st; n_conns ::= N.succ |>)
        end
    | ConnectionShutdown c => Done (push_remove m0 c false)
    | Message c x =>
        match handle m0 c x fresh bserial with
        | Done m => Done m
        | Fail m => Done (push_remove m c false)
        | Panic site => Panic site
        end
    | ShutdownBroker =>
        Done (foldr (fun p m => push_remove m p.1 true) m0 (map_to_list (conns s)) <| ms; shutdown_now := true |>)
    | ShutdownIdleBroker => Done (m0 <| ms; shutdown_idle := true |>)
    | ShutdownConnection c => Done (push_remove m0 c true)
    | DropTask c =>
        Done (match conns s !! c with
              | Some cs => m0 <| ms; conns ::= <[c := cs <| cs_alive := false |>]> |>
              | None => m0 end)
    end in
  match r with
  | Done m | Fail m =>
      match settle (fuel_for m) m with
      | Done m' | Fail m' => Done (ms m', mo m')
      | Panic site => Panic site
      end
  | Panic site => Panic site
  end.

(* the run loop's exit test *)
Definition exits (s : state) : bool :=
  shutdown_now s || (shutdown_idle s && bool_decide (conns s = ∅)).
