(* TEMPORARY (development): the definitions that move into Model.v *)
From stdpp Require Import gmap list.
From Aldrin Require Import Broker.Model.

Definition msum `{Countable K} {A} (f : A -> nat) (m : gmap K A) : nat :=
  map_fold (fun _ v acc => (f v + acc)%nat) 0%nat m.
Definition open_end (e : end_state) : nat := match e with Closed => 0 | _ => 1 end.
Definition chan_weight (ch : chan) : nat := (open_end (ch_s ch) + open_end (ch_r ch))%nat.
Definition svc_weight (sv : svc) : nat :=
  (size (s_events sv) + size (s_all sv) + size (s_subs sv) + msum size (s_events sv))%nat.
Definition state_load (s : state) : nat :=
  (size (objs s) + size (svcs s) + size (calls s) + msum svc_weight (svcs s)
   + msum (fun cs => size (cs_calls cs)) (conns s))%nat.
Definition state_ends (s : state) : nat := msum chan_weight (chans s).
Definition work_len (w : work) : nat :=
  (length (w_unsub_ev w) + length (w_unsub_all w) + length (w_svc_destroyed w) + length (w_rm_call w) +
   length (w_create_obj w) + length (w_create_svc w) + length (w_destroy_svc w) + length (w_destroy_obj w) +
   length (w_abort w))%nat.
Definition pot (m : M) : nat :=
  (length (w_remove_conns (mw m)) + state_ends (ms m)
   + (3 + size (conns (ms m))) * (work_len (mw m) + state_load (ms m)))%nat.
