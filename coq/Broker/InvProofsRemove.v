(* Broker/InvProofsRemove.v — the removal cascade below shutdown_conn: remove_listener,
   remove_end, remove_service, remove_object preserve the invariant (for any owner set X) and
   never reach a panic site. *)
From stdpp Require Import gmap list.
From RecordUpdate Require Import RecordSet.
Import RecordSetNotations.
From Aldrin Require Import gen.BrokerConsts Broker.Model Broker.Run Broker.ChannelProofs Broker.Inv
  Broker.InvProofsBase.
From Coq Require Import Lia.
Local Open Scope N_scope.

(* ---------------------------------------------------------------- remove_listener *)
Lemma own_lis_mono X L L' : L' ⊆ L → own_lis X L → own_lis X L'.
Proof. intros Hs H k l Hk. eapply H, lookup_weaken; eauto. Qed.

Lemma remove_listener_spec O X m k :
  MO O X m →
  MO O X (remove_listener m k) ∧ blank_lis (ms (remove_listener m k)) = blank_lis (ms m) ∧
  mw (remove_listener m k) = mw m ∧ mo (remove_listener m k) = mo m ∧
  listeners (ms (remove_listener m k)) = delete k (listeners (ms m)).
Proof.
  intros H. unfold remove_listener. destruct (listeners (ms m) !! k) eqn:E.
  - split; [|done]. unfold MO in *. mx_frame H. eapply own_lis_mono; [|done]. apply delete_subseteq.
  - split; [done|]. repeat split; try done. by rewrite delete_notin.
Qed.

Lemma remove_listeners_spec O X ls m :
  MO O X m →
  let m' := foldl remove_listener m ls in
  MO O X m' ∧ blank_lis (ms m') = blank_lis (ms m) ∧ mw m' = mw m ∧ mo m' = mo m ∧
  ∀ k, listeners (ms m') !! k = if decide (k ∈ ls) then None else listeners (ms m) !! k.
Proof.
  revert m. induction ls as [|x ls IH]; intros m H; cbn.
  - split; [done|]. repeat split; done.
  - destruct (remove_listener_spec O X m x H) as (H1 & H2 & H3 & H4 & H5).
    destruct (IH _ H1) as (I1 & I2 & I3 & I4 & I5). cbn in *.
    split; [done|]. split; [congruence|]. split; [congruence|]. split; [congruence|].
    intros k. rewrite I5, H5.
    destruct (decide (k = x)) as [->|Hne]; [rewrite lookup_delete|rewrite lookup_delete_ne by done];
      repeat case_decide; try done; exfalso; set_solver.
Qed.

(* ---------------------------------------------------------------- remove_end *)
Definition end_of (ch : chan) (e : chan_end) : end_state :=
  match e with ESender => ch_s ch | EReceiver => ch_r ch end.

Lemma chans_ok_mono C C' : C' ⊆ C → chans_ok C → chans_ok C'.
Proof. intros Hs H k l Hk. eapply H, lookup_weaken; eauto. Qed.
Lemma own_chan_mono X C C' : C' ⊆ C → own_chan X C → own_chan X C'.
Proof. intros Hs H k l Hk. eapply H, lookup_weaken; eauto. Qed.
Lemma chans_ok_insert C k ch : chan_ok ch → chans_ok C → chans_ok (<[k := ch]> C).
Proof. intros Hc H k' ch'. rewrite lookup_insert_Some. intros [[_ <-]|[_ ?]]; eauto. Qed.
Lemma own_chan_insert X C k ch :
  end_own X (ch_s ch) → end_own X (ch_r ch) → own_chan X C → own_chan X (<[k := ch]> C).
Proof. intros H1 H2 H k' ch'. rewrite lookup_insert_Some. intros [[_ <-]|[_ ?]]; eauto. Qed.

(* the channel that stays after one end was closed: owners are those of the old one *)
Lemma close_notify_own X ch e ch' o :
  chan_close ch e = CloseNotify ch' o → end_own X (ch_s ch) → end_own X (ch_r ch) →
  end_own X (ch_s ch') ∧ end_own X (ch_r ch') ∧ end_of ch' e = Closed ∧
  (match e with ESender => ch_r ch' = ch_r ch | EReceiver => ch_s ch' = ch_s ch end).
Proof.
  unfold chan_close. destruct ch as [[|so sc|] [|ro rc|]], e; cbn; intros [= <- <-] H1 H2; cbn; done.
Qed.

Lemma remove_end_spec O X m cookie e :
  MO O X m →
  (∀ ch, chans (ms m) !! cookie = Some ch → end_of ch e ≠ Closed) →
  ∃ m', remove_end m cookie e = Done m' ∧ MO O X m' ∧
    blank_chans (ms m') = blank_chans (ms m) ∧
    w_rm_call (mw m') = w_rm_call (mw m) ∧ w_abort (mw m') = w_abort (mw m) ∧
    (chans (ms m') = delete cookie (chans (ms m)) ∨
     ∃ ch ch' o, chans (ms m) !! cookie = Some ch ∧ chan_close ch e = CloseNotify ch' o ∧
                 chans (ms m') = <[cookie := ch']> (chans (ms m))).
Proof.
  intros H Hne. unfold remove_end. destruct (chans (ms m) !! cookie) as [ch|] eqn:E.
  2:{ exists m. split; [done|]. split; [done|]. repeat split; try done. left. by rewrite delete_notin. }
  specialize (Hne _ eq_refl).
  assert (chan_ok ch) as Hok by (eapply (iv_ch _ _ _ _ _ H); eauto).
  pose proof (close_ok ch e Hok Hne) as Hc.
  assert (MO O X (m <| ms; chans ::= delete cookie |> <| ms; st; n_chans ::= sat_sub1 |>)) as Hdrop.
  { unfold MO in *. mx_frame H.
    - eapply own_chan_mono; [apply delete_subseteq|done].
    - eapply chans_ok_mono; [apply delete_subseteq|done]. }
  destruct (chan_close ch e) as [|ch' o|] eqn:Ecl; [| |done].
  - eexists. split; [done|]. split; [done|]. repeat split; try done. by left.
  - destruct (has _ o) eqn:Eh.
    + apply has_spec in Eh.
      destruct (send_or_remove_done _ o (ChannelEndClosed cookie e) None Eh) as (m' & -> & Hq).
      exists m'. split; [done|]. destruct Hq as (Hq1 & Hq2 & Hq3).
      destruct (iv_oc _ _ _ _ _ H _ _ E) as [Ho1 Ho2].
      destruct (close_notify_own X _ _ _ _ Ecl Ho1 Ho2) as (Hn1 & Hn2 & _).
      split.
      { eapply MO_quiet; [split; [exact Hq1|split; [exact Hq2|exact Hq3]]|].
        unfold MO in *. mx_frame H.
        - by apply own_chan_insert.
        - by apply chans_ok_insert. }
      rewrite Hq1, Hq2, Hq3. cbn. repeat split; try done. right. eauto 10.
    + eexists. split; [done|]. split; [done|]. repeat split; try done. by left.
Qed.
