(* Broker/InvProofsBase.v — lookup lemmas, the send primitives, the foldO rule, and the
   monotonicity / update lemmas of the clauses of Inv.v. *)
From stdpp Require Import gmap list.
From RecordUpdate Require Import RecordSet.
Import RecordSetNotations.
From Aldrin Require Import gen.BrokerConsts Broker.Model Broker.Run Broker.ChannelProofs Broker.Inv.
From Coq Require Import Lia.
Local Open Scope N_scope.

(* ---------------------------------------------------------------- cookie lookups *)
Lemma obj_by_cookie_Some s c u o :
  obj_by_cookie s c = Some (u, o) → objs s !! u = Some o ∧ o_cookie o = c.
Proof.
  unfold obj_by_cookie. destruct (list_find _ _) as [[i [u' o']]|] eqn:E; cbn; [|done].
  intros [= -> ->]. apply list_find_Some in E as (H1 & H2 & _).
  apply elem_of_list_lookup_2, elem_of_map_to_list in H1. apply bool_decide_unpack in H2. done.
Qed.

Lemma obj_by_cookie_None s c :
  obj_by_cookie s c = None → ∀ u o, objs s !! u = Some o → o_cookie o ≠ c.
Proof.
  unfold obj_by_cookie. destruct (list_find _ _) as [[i [u' o']]|] eqn:E; cbn; [done|].
  intros _ u o Hu Hc. apply list_find_None in E. rewrite Forall_forall in E.
  apply (E (u, o)); [by apply elem_of_map_to_list|]. by apply bool_decide_pack.
Qed.

Lemma obj_by_cookie_uniq s u o :
  uniq_obj (objs s) → objs s !! u = Some o → obj_by_cookie s (o_cookie o) = Some (u, o).
Proof.
  intros Hu Ho. destruct (obj_by_cookie s (o_cookie o)) as [[u' o']|] eqn:E.
  - apply obj_by_cookie_Some in E as [H1 H2]. assert (u' = u) by (eapply Hu; eauto). subst.
    rewrite Ho in H1. by inversion H1.
  - exfalso. eapply obj_by_cookie_None; eauto.
Qed.

Lemma svc_by_cookie_Some s c k sv :
  svc_by_cookie s c = Some (k, sv) → svcs s !! k = Some sv ∧ s_cookie sv = c.
Proof.
  unfold svc_by_cookie. destruct (list_find _ _) as [[i [k' sv']]|] eqn:E; cbn; [|done].
  intros [= -> ->]. apply list_find_Some in E as (H1 & H2 & _).
  apply elem_of_list_lookup_2, elem_of_map_to_list in H1. apply bool_decide_unpack in H2. done.
Qed.

Lemma svc_by_cookie_None s c :
  svc_by_cookie s c = None → ∀ k sv, svcs s !! k = Some sv → s_cookie sv ≠ c.
Proof.
  unfold svc_by_cookie. destruct (list_find _ _) as [[i [k' sv']]|] eqn:E; cbn; [done|].
  intros _ k sv Hk Hc. apply list_find_None in E. rewrite Forall_forall in E.
  apply (E (k, sv)); [by apply elem_of_map_to_list|]. by apply bool_decide_pack.
Qed.

Lemma svc_by_cookie_uniq s k sv :
  uniq_svc (svcs s) → svcs s !! k = Some sv → svc_by_cookie s (s_cookie sv) = Some (k, sv).
Proof.
  intros Hu Ho. destruct (svc_by_cookie s (s_cookie sv)) as [[k' sv']|] eqn:E.
  - apply svc_by_cookie_Some in E as [H1 H2]. assert (k' = k) by (eapply Hu; eauto). subst.
    rewrite Ho in H1. by inversion H1.
  - exfalso. eapply svc_by_cookie_None; eauto.
Qed.

Lemma owner_of_svc_reg s k sv :
  reg_so (objs s) (svcs s) → svcs s !! k = Some sv →
  ∃ o, objs s !! k.1 = Some o ∧ owner_of_svc s k = Some (o_owner o) ∧ s_obj_cookie sv = o_cookie o.
Proof.
  intros Hr Hk. destruct (Hr _ _ Hk) as (o & Ho & Hc). exists o. unfold owner_of_svc.
  rewrite Ho. done.
Qed.

(* ---------------------------------------------------------------- quiet *)
Lemma quiet_refl m : quiet m m.
Proof. done. Qed.
Lemma quiet_trans m1 m2 m3 : quiet m1 m2 → quiet m2 m3 → quiet m1 m3.
Proof. unfold quiet. intros (-> & -> & ->) (-> & -> & ->). done. Qed.
Lemma MO_quiet O X m m' : quiet m m' → MO O X m → MO O X m'.
Proof. unfold MO, quiet. intros (-> & -> & ->). done. Qed.
Lemma MX_quiet X m m' : quiet m m' → MX X m → MX X m'.
Proof. unfold MX, MO, quiet. intros (-> & -> & ->). done. Qed.
Lemma MI_quiet m m' : quiet m m' → MI m → MI m'.
Proof. unfold MI, MX, MO, quiet. intros (-> & -> & ->). done. Qed.

(* quiet outcome: no panic, only outputs / obligation-free queues changed *)
Definition goodq (m : M) (r : outcome M) : Prop :=
  match r with Done m' | Fail m' => quiet m m' | Panic _ => False end.

Lemma goodq_good m r : MI m → goodq m r → good r.
Proof. destruct r; cbn; eauto using MI_quiet. Qed.

Lemma goodq_bind m x k :
  goodq m x → (∀ m1, quiet m m1 → goodq m1 (k m1)) → goodq m (x >>> k).
Proof.
  destruct x as [m1|m1|]; cbn; [|done..]. intros Hq Hk. specialize (Hk _ Hq).
  destruct (k m1); cbn in *; eauto using quiet_trans.
Qed.

(* ---------------------------------------------------------------- sending *)
Lemma push_remove_quiet m c sd : quiet m (push_remove m c sd).
Proof. done. Qed.

Lemma send_goodq m c x from : is_Some (conns (ms m) !! c) → goodq m (send m c x from).
Proof. intros [cs Hc]. unfold send. rewrite Hc. destruct (cs_alive cs); done. Qed.

Lemma send_or_remove_done m c x from :
  is_Some (conns (ms m) !! c) → ∃ m', send_or_remove m c x from = Done m' ∧ quiet m m'.
Proof.
  intros [cs Hc]. unfold send_or_remove, send. rewrite Hc.
  destruct (cs_alive cs); (eexists; split; [done|]; done).
Qed.

Lemma send_ignore_done m c x from :
  is_Some (conns (ms m) !! c) → ∃ m', send_ignore m c x from = Done m' ∧ quiet m m'.
Proof.
  intros [cs Hc]. unfold send_ignore, send. rewrite Hc.
  destruct (cs_alive cs); (eexists; split; [done|]; done).
Qed.

Lemma send_or_remove_goodq m c x from :
  is_Some (conns (ms m) !! c) → goodq m (send_or_remove m c x from).
Proof. intros H. destruct (send_or_remove_done m c x from H) as (m' & -> & Hq). done. Qed.

Lemma has_spec m c : has m c = true ↔ is_Some (conns (ms m) !! c).
Proof. unfold has. by rewrite bool_decide_eq_true. Qed.

(* `send ... >>> k` in a handler *)
Lemma good_send_bind m c x from k :
  is_Some (conns (ms m) !! c) → MI m → (∀ m1, quiet m m1 → good (k m1)) →
  good (send m c x from >>> k).
Proof.
  intros Hc HI Hk. pose proof (send_goodq m c x from Hc) as Hq.
  destruct (send m c x from); cbn in *; eauto using MI_quiet.
Qed.

(* ---------------------------------------------------------------- foldO *)
(* invariant rule: [P m rest] holds before processing [rest] *)
Lemma foldO_inv {A} (P : M → list A → Prop) (f : M → A → outcome M) l m :
  P m l →
  (∀ m x rest, P m (x :: rest) → ∃ m', f m x = Done m' ∧ P m' rest) →
  ∃ m', foldO f l m = Done m' ∧ P m' [].
Proof.
  intros H0 Hs. revert m H0. induction l as [|x l IH]; intros m H0; cbn; [eauto|].
  destruct (Hs _ _ _ H0) as (m' & -> & H'). eauto.
Qed.

(* a fold of quiet steps *)
Lemma foldO_goodq {A} (f : M → A → outcome M) l m :
  (∀ m' x, quiet m m' → x ∈ l → goodq m' (f m' x)) → goodq m (foldO f l m).
Proof.
  revert m. induction l as [|x l IH]; intros m Hf; cbn; [done|].
  pose proof (Hf m x (quiet_refl m) ltac:(left)) as Hx.
  destruct (f m x) as [m1|m1|]; cbn in *; [|done..].
  assert (goodq m1 (foldO f l m1)) as H1.
  { apply IH. intros m' y Hq Hy. apply Hf; [eauto using quiet_trans|by right]. }
  destruct (foldO f l m1); cbn in *; eauto using quiet_trans.
Qed.

(* ---------------------------------------------------------------- frames *)
(* from [blank (ms a) = blank (ms b)], rewrite every field the blanking keeps *)
Ltac rw_fields H :=
  match type of H with
  | ?bl (ms ?a) = ?bl (ms ?b) =>
    try rewrite (f_equal conns H : conns (ms a) = conns (ms b));
    try rewrite (f_equal objs H : objs (ms a) = objs (ms b));
    try rewrite (f_equal svcs H : svcs (ms a) = svcs (ms b));
    try rewrite (f_equal calls H : calls (ms a) = calls (ms b));
    try rewrite (f_equal next H : next (ms a) = next (ms b));
    try rewrite (f_equal chans H : chans (ms a) = chans (ms b));
    try rewrite (f_equal listeners H : listeners (ms a) = listeners (ms b))
  end.
Ltac rw_fields_in H H' :=
  match type of H with
  | ?bl (ms ?a) = ?bl (ms ?b) =>
    try rewrite (f_equal conns H : conns (ms a) = conns (ms b)) in H';
    try rewrite (f_equal objs H : objs (ms a) = objs (ms b)) in H';
    try rewrite (f_equal svcs H : svcs (ms a) = svcs (ms b)) in H';
    try rewrite (f_equal calls H : calls (ms a) = calls (ms b)) in H';
    try rewrite (f_equal next H : next (ms a) = next (ms b)) in H';
    try rewrite (f_equal chans H : chans (ms a) = chans (ms b)) in H';
    try rewrite (f_equal listeners H : listeners (ms a) = listeners (ms b)) in H'
  end.

Ltac mx_frame H :=
  let Hreg := fresh "Hreg" in let Huo := fresh "Huo" in let Hus := fresh "Hus" in
  let Hoo := fresh "Hoo" in let Hol := fresh "Hol" in let Hos := fresh "Hos" in
  let Hoc := fresh "Hoc" in let Hch := fresh "Hch" in let Hcs := fresh "Hcs" in
  let Hsc := fresh "Hsc" in let Hcb := fresh "Hcb" in let Hce := fresh "Hce" in
  let Hec := fresh "Hec" in let Hqe := fresh "Hqe" in let Hqn := fresh "Hqn" in
  let Hcl := fresh "Hcl" in
  destruct H as [Hreg Huo Hus Hoo Hol Hos Hoc Hch Hcs Hsc Hcb Hce Hec Hqe Hqn Hcl];
  constructor; cbn; try assumption.

Lemma MO_st O X m f : MO O X m → MO O X (m <| ms; st ::= f |>).
Proof. intros H. unfold MO in *. mx_frame H. Qed.

(* ---------------------------------------------------------------- registry monotonicity *)
Lemma reg_so_mono O S S' : S' ⊆ S → reg_so O S → reg_so O S'.
Proof. intros Hs H k sv Hk. eapply H, lookup_weaken; eauto. Qed.
Lemma uniq_obj_mono O O' : O' ⊆ O → uniq_obj O → uniq_obj O'.
Proof. intros Hs H u1 u2 o1 o2 H1 H2. eapply H; eapply lookup_weaken; eauto. Qed.
Lemma uniq_svc_mono S S' : S' ⊆ S → uniq_svc S → uniq_svc S'.
Proof. intros Hs H u1 u2 o1 o2 H1 H2. eapply H; eapply lookup_weaken; eauto. Qed.
Lemma own_obj_mono X O O' : O' ⊆ O → own_obj X O → own_obj X O'.
Proof. intros Hs H k l Hk. eapply H, lookup_weaken; eauto. Qed.
Lemma own_svc_mono X S S' : S' ⊆ S → own_svc X S → own_svc X S'.
Proof. intros Hs H k l Hk. eapply H, lookup_weaken; eauto. Qed.
