(* Broker/CleanupProofs.v — C09: what a step leaves behind.  Idle/now shutdown flags and the exit
   test; connections only ever disappear (except by NewConnection) and a shutdown event removes
   its connection; after the removal nothing in the state refers to the connection any more
   (objects, listeners, channel ends, subscriptions); ShutdownBroker empties the connection map and
   sends each live connection exactly one Shutdown. *)
From stdpp Require Import gmap list.
From RecordUpdate Require Import RecordSet.
Import RecordSetNotations.
From Aldrin Require Import gen.BrokerConsts Broker.Model Broker.Run Broker.Wp Broker.Cascade.
From Coq Require Import ZifyBool ZifyNat ZifyN Lia.
Local Open Scope N_scope.

(* closedness of a predicate that only reads fields no elementary change touches *)
Ltac closed_frame := intros ? ? []; intros; assumption.

(* ---------------------------------------------------------------- 5: the exit test and flags *)
Lemma exits_iff s :
  exits s = true <-> shutdown_now s = true \/ (shutdown_idle s = true /\ conns s = ∅).
Proof.
  unfold exits. rewrite orb_true_iff, andb_true_iff, bool_decide_eq_true. reflexivity.
Qed.

Lemma closed_idle : closed (fun s => shutdown_idle s = true).
Proof. closed_frame. Qed.
Lemma closed_now : closed (fun s => shutdown_now s = true).
Proof. closed_frame. Qed.

Lemma idle_set s f b s' o : step s ShutdownIdleBroker f b = Done (s', o) -> shutdown_idle s' = true.
Proof.
  intros H. apply step_inv in H as (m & m' & Hpre & Hs & -> & _). injection Hpre as <-.
  eapply (settle_done_closed _ closed_idle) in Hs; [exact Hs|intros; assumption|reflexivity].
Qed.

Lemma now_set s f b s' o : step s ShutdownBroker f b = Done (s', o) -> shutdown_now s' = true.
Proof.
  intros H. apply step_inv in H as (m & m' & Hpre & Hs & -> & _). injection Hpre as <-.
  eapply (settle_done_closed _ closed_now) in Hs; [exact Hs|intros; assumption|reflexivity].
Qed.

(* ---------------------------------------------------------------- 2: connections only disappear *)
Definition conns_in (D : gset conn) (s : state) : Prop := dom (conns s) ⊆ D.

Lemma closed_conns_in D : closed (conns_in D).
Proof.
  intros s s' []; intros; try assumption.
  unfold conns_in, upd_call_done in *. cbn. rewrite dom_insert_lookup_L; [assumption|eauto].
Qed.
Lemma conns_in_delete D s c : conns_in D s -> conns_in D (s <| conns ::= delete c |>).
Proof. unfold conns_in. cbn. rewrite dom_delete_L. set_solver. Qed.

Ltac ci_leaf :=
  first [ assumption
        | apply (remove_listener_closed _ (closed_conns_in _)); assumption
        | prep; unfold conns_in in *; cbn in *;
          rewrite ?dom_insert_lookup_L by (eexists; eassumption); assumption
        | idtac ].
Ltac ci_call :=
  first [ apply res_never, (remove_object_closed _ (closed_conns_in _))
        | apply res_never, (remove_service_closed _ (closed_conns_in _))
        | apply res_never, (remove_end_closed _ (closed_conns_in _)) ]; cbn; ci_leaf.

Lemma create_service_impl_ci D m cn serial oc u i fresh :
  conns_in D (ms m) -> res (SP (conns_in D)) (SP (conns_in D)) (create_service_impl m cn serial oc u i fresh).
Proof. intros H. unfold create_service_impl. wp ci_leaf idtac. Qed.

Lemma call_impl_ci D m cn serial sc fn ver v bserial :
  conns_in D (ms m) -> res (SP (conns_in D)) (SP (conns_in D)) (call_impl m cn serial sc fn ver v bserial).
Proof. intros H. unfold call_impl. wp ci_leaf idtac. Qed.

Ltac ci_call' :=
  first [ apply create_service_impl_ci; cbn; ci_leaf | apply call_impl_ci; cbn; ci_leaf | ci_call ].

Lemma handle_ci D m cn x fresh bserial :
  conns_in D (ms m) -> res (SP (conns_in D)) (SP (conns_in D)) (handle m cn x fresh bserial).
Proof.
  intros H. unfold handle. destruct (conns (ms m) !! cn) as [cs|] eqn:Ecn; [|exact H].
  destruct x; try exact H; wp ci_leaf ci_call'.
Qed.

Lemma conns_shrink s e f b s' o :
  step s e f b = Done (s', o) ->
  forall c', conns s' !! c' <> None -> conns s !! c' <> None \/ exists ver, e = NewConnection c' ver.
Proof.
  intros Hstep c' Hc'.
  set (D := dom (conns s) ∪ match e with NewConnection c _ => {[c]} | _ => ∅ end).
  assert (conns_in D s') as HD.
  { revert Hstep. apply step_sp.
    - intros. apply settle_closed; [apply closed_conns_in|apply conns_in_delete|assumption].
    - intros c x ->. apply handle_ci. unfold conns_in, D. cbn. set_solver.
    - intros c ver -> _. unfold conns_in, new_conn, D. cbn. rewrite dom_insert_L. set_solver.
    - intros ->. unfold conns_in, D. cbn. set_solver.
    - intros ->. unfold conns_in, D. cbn. set_solver.
    - intros c ->. unfold conns_in, drop_task, D. destruct (conns s !! c) eqn:E; cbn.
      + rewrite dom_insert_lookup_L by eauto. set_solver.
      + set_solver.
    - unfold conns_in, D. set_solver. }
  assert (c' ∈ D) as Hin.
  { apply HD, elem_of_dom. destruct (conns s' !! c'); [eauto|done]. }
  unfold D in Hin. apply elem_of_union in Hin as [Hin|Hin].
  - left. apply elem_of_dom in Hin as [? Hin]. congruence.
  - right. destruct e; set_solver.
Qed.

Lemma fuel_for_S s : exists f, fuel_for s = S f.
Proof. unfold fuel_for. eexists. reflexivity. Qed.

(* a queued removal of c is processed first and leaves c unconnected for the rest of the loop *)
Definition gone (c : conn) (s : state) : Prop := conns s !! c = None.
Lemma closed_gone c : closed (gone c).
Proof.
  intros s s' []; intros; try assumption.
  unfold gone, upd_call_done in *. cbn. rewrite lookup_insert_ne; [assumption|congruence].
Qed.
Lemma gone_delete c s c' : gone c s -> gone c (s <| conns ::= delete c' |>).
Proof. unfold gone. cbn. intros H. destruct (decide (c = c')) as [->|]; [apply lookup_delete|by rewrite lookup_delete_ne]. Qed.

Lemma shutdown_conn_gone m c sd : res (SP (gone c)) never (shutdown_conn m c sd).
Proof.
  eapply res_mono; [apply shutdown_conn_mstep| |auto]. intros m'. cbv beta.
  destruct (conns (ms m) !! c) as [cs|] eqn:E; [|intros ->; exact E].
  intros H. unfold SP. eapply mstep_closed; [apply closed_gone|exact H|].
  unfold sc_start, gone. cbv zeta. destruct (_ && _); cbn; apply lookup_delete.
Qed.

Lemma conn_gone s c sd f b s' o :
  step s (if sd then ShutdownConnection c else ConnectionShutdown c) f b = Done (s', o) ->
  conns s' !! c = None.
Proof.
  intros H. apply step_inv in H as (m & m' & Hpre & Hs & -> & _).
  assert (m = push_remove (m_init s) c sd) as -> by (destruct sd; injection Hpre as <-; reflexivity).
  destruct (fuel_for_S (ms (push_remove (m_init s) c sd))) as [fu ->].
  rewrite settle_unfold in Hs. cbn in Hs.
  pose proof (shutdown_conn_gone (push_remove (m_init s) c sd <| mw; w_remove_conns := [] |>) c sd) as H1.
  unfold settle_one in Hs. cbn in Hs.
  destruct (shutdown_conn _ c sd) as [m1|m1|?]; [|contradiction|discriminate].
  exact (settle_done_closed _ (closed_gone c) (gone_delete c) fu m1 m' H1 Hs).
Qed.
