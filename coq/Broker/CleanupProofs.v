(* Broker/CleanupProofs.v — C09: what a step leaves behind.  Idle/now shutdown flags and the exit
   test; connections only ever disappear (except by NewConnection) and a shutdown event removes
   its connection; after the removal nothing in the state refers to the connection any more
   (objects, listeners, channel ends, subscriptions); ShutdownBroker empties the connection map and
   sends each live connection exactly one Shutdown. *)
From stdpp Require Import gmap list.
From RecordUpdate Require Import RecordSet.
Import RecordSetNotations.
From Aldrin Require Import gen.BrokerConsts Broker.Model Broker.Run Broker.Wp Broker.Cascade.
From Coq Require Import ZifyBool ZifyNat ZifyN Lia.
Local Open Scope N_scope.

(* closedness of a predicate that only reads fields no elementary change touches *)
Ltac closed_frame := intros ? ? []; intros; assumption.

(* ---------------------------------------------------------------- 5: the exit test and flags *)
Lemma exits_iff s :
  exits s = true <-> shutdown_now s = true \/ (shutdown_idle s = true /\ conns s = ∅).
Proof.
  unfold exits. rewrite orb_true_iff, andb_true_iff, bool_decide_eq_true. reflexivity.
Qed.

Lemma closed_idle : closed (fun s => shutdown_idle s = true).
Proof. closed_frame. Qed.
Lemma closed_now : closed (fun s => shutdown_now s = true).
Proof. closed_frame. Qed.

Lemma idle_set s f b s' o : step s ShutdownIdleBroker f b = Done (s', o) -> shutdown_idle s' = true.
Proof.
  intros H. apply step_inv in H as (m & m' & Hpre & Hs & -> & _). injection Hpre as <-.
  eapply (settle_done_closed _ closed_idle) in Hs; [exact Hs|intros; assumption|reflexivity].
Qed.

Lemma now_set s f b s' o : step s ShutdownBroker f b = Done (s', o) -> shutdown_now s' = true.
Proof.
  intros H. apply step_inv in H as (m & m' & Hpre & Hs & -> & _). injection Hpre as <-.
  eapply (settle_done_closed _ closed_now) in Hs; [exact Hs|intros; assumption|reflexivity].
Qed.

(* ---------------------------------------------------------------- 2: connections only disappear *)
Definition conns_in (D : gset conn) (s : state) : Prop := dom (conns s) ⊆ D.

Lemma closed_conns_in D : closed (conns_in D).
Proof.
  intros s s' []; intros; try assumption.
  unfold conns_in, upd_call_done in *. cbn. rewrite dom_insert_lookup_L; [assumption|eauto].
Qed.
Lemma conns_in_delete D s c : conns_in D s -> conns_in D (s <| conns ::= delete c |>).
Proof. unfold conns_in. cbn. rewrite dom_delete_L. set_solver. Qed.

Ltac ci_leaf :=
  first [ assumption
        | apply (remove_listener_closed _ (closed_conns_in _)); assumption
        | prep; unfold conns_in in *; cbn in *;
          rewrite ?dom_insert_lookup_L by (eexists; eassumption); assumption
        | idtac ].
Ltac ci_call :=
  first [ apply res_never, (remove_object_closed _ (closed_conns_in _))
        | apply res_never, (remove_service_closed _ (closed_conns_in _))
        | apply res_never, (remove_end_closed _ (closed_conns_in _)) ]; cbn; ci_leaf.

Lemma create_service_impl_ci D m cn serial oc u i fresh :
  conns_in D (ms m) -> res (SP (conns_in D)) (SP (conns_in D)) (create_service_impl m cn serial oc u i fresh).
Proof. intros H. unfold create_service_impl. wp ci_leaf idtac. Qed.

Lemma call_impl_ci D m cn serial sc fn ver v bserial :
  conns_in D (ms m) -> res (SP (conns_in D)) (SP (conns_in D)) (call_impl m cn serial sc fn ver v bserial).
Proof. intros H. unfold call_impl. wp ci_leaf idtac. Qed.

Ltac ci_call' :=
  first [ apply create_service_impl_ci; cbn; ci_leaf | apply call_impl_ci; cbn; ci_leaf | ci_call ].

Lemma handle_ci D m cn x fresh bserial :
  conns_in D (ms m) -> res (SP (conns_in D)) (SP (conns_in D)) (handle m cn x fresh bserial).
Proof.
  intros H. unfold handle. destruct (conns (ms m) !! cn) as [cs|] eqn:Ecn; [|exact H].
  destruct x; try exact H; wp ci_leaf ci_call'.
Qed.

Lemma conns_shrink s e f b s' o :
  step s e f b = Done (s', o) ->
  forall c', conns s' !! c' <> None -> conns s !! c' <> None \/ exists ver, e = NewConnection c' ver.
Proof.
  intros Hstep c' Hc'.
  set (D := dom (conns s) ∪ match e with NewConnection c _ => {[c]} | _ => ∅ end).
  assert (conns_in D s') as HD.
  { revert Hstep. apply step_sp.
    - intros. apply settle_closed; [apply closed_conns_in|apply conns_in_delete|assumption].
    - intros c x ->. apply handle_ci. unfold conns_in, D. cbn. set_solver.
    - intros c ver -> _. unfold conns_in, new_conn, D. cbn. rewrite dom_insert_L. set_solver.
    - intros ->. unfold conns_in, D. cbn. set_solver.
    - intros ->. unfold conns_in, D. cbn. set_solver.
    - intros c ->. unfold conns_in, drop_task, D. destruct (conns s !! c) eqn:E; cbn.
      + rewrite dom_insert_lookup_L by eauto. set_solver.
      + set_solver.
    - unfold conns_in, D. set_solver. }
  assert (c' ∈ D) as Hin.
  { apply HD, elem_of_dom. destruct (conns s' !! c'); [eauto|done]. }
  unfold D in Hin. apply elem_of_union in Hin as [Hin|Hin].
  - left. apply elem_of_dom in Hin as [? Hin]. congruence.
  - right. destruct e; set_solver.
Qed.

Lemma fuel_for_S s : exists f, fuel_for s = S f.
Proof. unfold fuel_for. eexists. reflexivity. Qed.

(* a queued removal of c is processed first and leaves c unconnected for the rest of the loop *)
Definition gone (c : conn) (s : state) : Prop := conns s !! c = None.
Lemma closed_gone c : closed (gone c).
Proof.
  intros s s' []; intros; try assumption.
  unfold gone, upd_call_done in *. cbn. rewrite lookup_insert_ne; [assumption|congruence].
Qed.
Lemma gone_delete c s c' : gone c s -> gone c (s <| conns ::= delete c' |>).
Proof. unfold gone. cbn. intros H. destruct (decide (c = c')) as [->|]; [apply lookup_delete|by rewrite lookup_delete_ne]. Qed.

Lemma shutdown_conn_gone m c sd : res (SP (gone c)) never (shutdown_conn m c sd).
Proof.
  eapply res_mono; [apply shutdown_conn_mstep| |auto]. intros m'. cbv beta.
  destruct (conns (ms m) !! c) as [cs|] eqn:E; [|intros ->; exact E].
  intros H. unfold SP. eapply (mstep_closed (gone c)); [apply closed_gone|exact H|].
  unfold sc_start, gone. cbv zeta. destruct (_ && _); cbn; apply lookup_delete.
Qed.

Lemma conn_gone s c (sd : bool) f b s' o :
  step s (if sd then ShutdownConnection c else ConnectionShutdown c) f b = Done (s', o) ->
  conns s' !! c = None.
Proof.
  intros H. apply step_inv in H as (m & m' & Hpre & Hs & -> & _).
  assert (m = push_remove (m_init s) c sd) as -> by (destruct sd; injection Hpre as <-; reflexivity).
  destruct (fuel_for_S ((push_remove (m_init s) c sd))) as [fu Hfu]. rewrite Hfu in Hs.
  rewrite settle_unfold in Hs.
  change (settle_one (push_remove (m_init s) c sd))
    with (Some (shutdown_conn (push_remove (m_init s) c sd <| mw; w_remove_conns := [] |>) c sd)) in Hs.
  pose proof (shutdown_conn_gone (push_remove (m_init s) c sd <| mw; w_remove_conns := [] |>) c sd) as H1.
  destruct (shutdown_conn _ c sd) as [m1|m1|?]; [|contradiction|discriminate].
  exact (settle_done_closed _ (closed_gone c) (gone_delete c) fu m1 m' H1 Hs).
Qed.

(* ---------------------------------------------------------------- 3: nothing refers to a removed connection *)
Definition end_of (e : chan_end) (ch : chan) : end_state :=
  match e with ESender => ch_s ch | EReceiver => ch_r ch end.

Definition nr_obj (c : conn) (s : state) : Prop := forall u o, objs s !! u = Some o -> o_owner o <> c.
Definition nr_lis (c : conn) (s : state) : Prop := forall k l, listeners s !! k = Some l -> l_owner l <> c.
Definition nr_end (c : conn) (e : chan_end) (s : state) : Prop :=
  forall k ch cap, chans s !! k = Some ch -> end_of e ch <> Claimed c cap.
Definition nr_ev (c : conn) (s : state) : Prop :=
  forall k v e set, svcs s !! k = Some v -> s_events v !! e = Some set -> c ∉ set.
Definition nr_all (c : conn) (s : state) : Prop := forall k v, svcs s !! k = Some v -> c ∉ s_all v.
Definition nr_subs (c : conn) (s : state) : Prop := forall k v, svcs s !! k = Some v -> c ∉ s_subs v.

Definition no_ref (c : conn) (s : state) : Prop :=
  (forall u o, objs s !! u = Some o -> o_owner o <> c) /\
  (forall k l, listeners s !! k = Some l -> l_owner l <> c) /\
  (forall k ch cap, chans s !! k = Some ch -> ch_s ch <> Claimed c cap /\ ch_r ch <> Claimed c cap) /\
  (forall k v, svcs s !! k = Some v ->
     c ∉ s_all v /\ c ∉ s_subs v /\ forall e set, s_events v !! e = Some set -> c ∉ set).

Lemma no_ref_parts c s :
  no_ref c s <-> nr_obj c s /\ nr_lis c s /\ nr_end c ESender s /\ nr_end c EReceiver s /\
                 nr_ev c s /\ nr_all c s /\ nr_subs c s.
Proof.
  unfold no_ref, nr_obj, nr_lis, nr_end, nr_ev, nr_all, nr_subs, end_of. split.
  - intros (Ho & Hl & Hc & Hs). repeat split; eauto; try (intros; eapply Hc; eauto); intros; edestruct Hs as (? & ? & ?); eauto.
  - intros (Ho & Hl & Hcs & Hcr & He & Ha & Hu). repeat split; eauto.
Qed.

(* per-key versions, each closed under the elementary changes *)
Definition lis_ok (c : conn) (k : uuid) (s : state) : Prop :=
  forall l, listeners s !! k = Some l -> l_owner l <> c.
Definition objck_ok (c : conn) (ck : uuid) (s : state) : Prop :=
  forall u o, objs s !! u = Some o -> o_cookie o = ck -> o_owner o <> c.
Definition end_ok (c : conn) (e : chan_end) (k : uuid) (s : state) : Prop :=
  forall ch cap, chans s !! k = Some ch -> end_of e ch <> Claimed c cap.
Definition ev_ok (c : conn) (k : uuid * uuid) (e : N) (s : state) : Prop :=
  forall v set, svcs s !! k = Some v -> s_events v !! e = Some set -> c ∉ set.
Definition evs_ok (c : conn) (k : uuid * uuid) (s : state) : Prop := forall e, ev_ok c k e s.
Definition all_ok (c : conn) (k : uuid * uuid) (s : state) : Prop :=
  forall v, svcs s !! k = Some v -> c ∉ s_all v.
Definition subs_ok (c : conn) (k : uuid * uuid) (s : state) : Prop :=
  forall v, svcs s !! k = Some v -> c ∉ s_subs v.

Definition ounique (O : gmap uuid obj) : Prop :=
  forall u1 u2 o1 o2, O !! u1 = Some o1 -> O !! u2 = Some o2 -> o_cookie o1 = o_cookie o2 -> u1 = u2.
Definition obj_unique (s : state) : Prop := ounique (objs s).
Definition objs_sub (O : gmap uuid obj) (s : state) : Prop := objs s ⊆ O.
Definition obj_none (u : uuid) (s : state) : Prop := objs s !! u = None.

#[export] Instance chan_end_eq_dec : EqDecision chan_end.
Proof. solve_decision. Defined.

Lemma end_of_close_end e e' ch :
  end_of e (close_end ch e') = if bool_decide (e = e') then Closed else end_of e ch.
Proof. destruct e, e'; reflexivity. Qed.

Lemma closed_lis_ok c k : closed (lis_ok c k).
Proof.
  intros s s' Hu HQ; destruct Hu; try exact HQ. unfold lis_ok in *. cbn. intros l Hl.
  apply lookup_delete_Some in Hl as [_ Hl]. eauto.
Qed.
Lemma closed_objck_ok c ck : closed (objck_ok c ck).
Proof.
  intros s s' Hu HQ; destruct Hu; try exact HQ. unfold objck_ok in *. cbn. intros u' o Hl.
  apply lookup_delete_Some in Hl as [_ Hl]. eauto.
Qed.
Lemma closed_end_ok c e k : closed (end_ok c e k).
Proof.
  intros s s' Hu HQ; destruct Hu; try exact HQ; unfold end_ok in *; cbn; intros ch' cap Hl.
  - apply lookup_delete_Some in Hl as [_ Hl]. eauto.
  - apply lookup_insert_Some in Hl as [[<- <-]|[_ Hl]]; [|eauto].
    rewrite end_of_close_end. destruct (bool_decide _); [discriminate|eauto].
Qed.
Lemma closed_ev_ok c k e : closed (ev_ok c k e).
Proof.
  intros s s' Hu HQ; destruct Hu; try exact HQ; unfold ev_ok in *; cbn; intros v0 set Hl He.
  - apply lookup_delete_Some in Hl as [_ Hl]. eauto.
  - apply lookup_insert_Some in Hl as [[<- <-]|[_ Hl]]; [|eauto].
    destruct H0 as (_ & _ & _ & _ & _ & _ & Hev). apply Hev in He.
    destruct (s_events v !! e) as [set0|] eqn:E0; cbn in He; [|set_solver].
    specialize (HQ _ _ H E0). set_solver.
  - unfold sc_subs in Hl. cbn in Hl. rewrite lookup_fmap in Hl.
    destruct (svcs s !! k) as [v1|] eqn:E1; cbn in Hl; [|discriminate]. injection Hl as <-. cbn in He. eauto.
Qed.
Lemma closed_all_ok c k : closed (all_ok c k).
Proof.
  intros s s' Hu HQ; destruct Hu; try exact HQ; unfold all_ok in *; cbn; intros v0 Hl.
  - apply lookup_delete_Some in Hl as [_ Hl]. eauto.
  - apply lookup_insert_Some in Hl as [[<- <-]|[_ Hl]]; [|eauto].
    destruct H0 as (_ & _ & _ & _ & Ha & _). specialize (HQ _ H). set_solver.
  - unfold sc_subs in Hl. cbn in Hl. rewrite lookup_fmap in Hl.
    destruct (svcs s !! k) as [v1|] eqn:E1; cbn in Hl; [|discriminate]. injection Hl as <-. cbn. eauto.
Qed.
Lemma closed_subs_ok c k : closed (subs_ok c k).
Proof.
  intros s s' Hu HQ; destruct Hu; try exact HQ; unfold subs_ok in *; cbn; intros v0 Hl.
  - apply lookup_delete_Some in Hl as [_ Hl]. eauto.
  - apply lookup_insert_Some in Hl as [[<- <-]|[_ Hl]]; [|eauto].
    destruct H0 as (_ & _ & _ & _ & _ & Hs & _). specialize (HQ _ H). set_solver.
  - unfold sc_subs in Hl. cbn in Hl. rewrite lookup_fmap in Hl.
    destruct (svcs s !! k) as [v1|] eqn:E1; cbn in Hl; [|discriminate]. injection Hl as <-. cbn.
    specialize (HQ _ eq_refl). set_solver.
Qed.
Lemma closed_obj_unique : closed obj_unique.
Proof.
  intros s s' Hu HQ; destruct Hu; try exact HQ. unfold obj_unique, ounique in *. cbn.
  intros u1 u2 o1 o2 H1 H2. apply lookup_delete_Some in H1 as [_ H1]. apply lookup_delete_Some in H2 as [_ H2]. eauto.
Qed.
Lemma closed_objs_sub O : closed (objs_sub O).
Proof.
  intros s s' Hu HQ; destruct Hu; try exact HQ. unfold objs_sub in *. cbn.
  etrans; [apply delete_subseteq|exact HQ].
Qed.
Lemma closed_obj_none u : closed (obj_none u).
Proof.
  intros s s' Hu HQ; destruct Hu; try exact HQ. unfold obj_none in *. cbn.
  destruct (decide (u0 = u)) as [->|]; [apply lookup_delete|by rewrite lookup_delete_ne].
Qed.

Lemma closed_forall {K} (P : K -> state -> Prop) : (forall k, closed (P k)) -> closed (fun s => forall k, P k s).
Proof. intros HP s s' Hu H k. eapply HP; eauto. Qed.
Lemma closed_and (P Q : state -> Prop) : closed P -> closed Q -> closed (fun s => P s /\ Q s).
Proof. intros HP HQ s s' Hu [H1 H2]. split; [eapply HP|eapply HQ]; eauto. Qed.

(* ---------- loops that establish a per-key predicate for every key ---------- *)
Lemma res_and (P P' : M -> Prop) o : res P never o -> res P' never o -> res (fun m => P m /\ P' m) never o.
Proof. destruct o; cbn; auto. Qed.

Lemma elem_filter {A} (f : A -> bool) l x : x ∈ List.filter f l <-> x ∈ l /\ f x = true.
Proof. rewrite !elem_of_list_In. apply filter_In. Qed.

Lemma loop_keys {K} `{EqDecision K} (P : K -> state -> Prop) (J : state -> Prop)
    (f : M -> K -> outcome M) (l : list K) m :
  (forall k, closed (P k)) -> closed J ->
  (forall m k, res (mstep m) never (f m k)) ->
  (forall m k, J (ms m) -> res (SP (P k)) never (f m k)) ->
  J (ms m) -> (forall k, k ∉ l -> P k (ms m)) ->
  res (fun m' => mstep m m' /\ forall k, P k (ms m')) never (foldO f l m).
Proof.
  intros HP HJ Hstep Hest HJm Hinit.
  assert (res ((fun rem m' => mstep m m' /\ forall k, k ∉ rem -> P k (ms m')) []) never (foldO f l m)) as H0.
  { apply (foldO_res_ix (fun rem m' => mstep m m' /\ forall k, k ∉ rem -> P k (ms m'))).
    - intros m' x r [Hm' Hr].
      assert (J (ms m')) as HJ' by (eapply (mstep_closed J); eauto).
      eapply res_mono; [apply (res_and _ _ _ (Hstep m' x) (Hest m' x HJ'))| |auto].
      intros m'' [Hs Hx]. split; [eapply m_trans; eauto|].
      intros k Hk. destruct (decide (k = x)) as [->|Hne]; [exact Hx|].
      eapply (mstep_closed (P k)); [apply HP|exact Hs|]. apply Hr. rewrite elem_of_cons. tauto.
    - split; [apply m_refl|exact Hinit]. }
  eapply res_mono; [exact H0| |auto].
  intros m' [Hm' Hall]. split; [exact Hm'|]. intros k. apply Hall. apply not_elem_of_nil.
Qed.

Lemma loop_keys_l {K} `{EqDecision K} (P : K -> state -> Prop) (f : M -> K -> M) (l : list K) m :
  (forall k, closed (P k)) ->
  (forall m k, mstep m (f m k)) ->
  (forall m k, P k (ms (f m k))) ->
  (forall k, k ∉ l -> P k (ms m)) ->
  mstep m (foldl f m l) /\ forall k, P k (ms (foldl f m l)).
Proof.
  intros HP Hstep Hest. revert m. induction l as [|x l IH]; intros m Hinit; cbn.
  - split; [apply m_refl|]. intros k. apply Hinit, not_elem_of_nil.
  - destruct (IH (f m x)) as [H1 H2].
    + intros k Hk. destruct (decide (k = x)) as [->|Hne]; [apply Hest|].
      eapply (mstep_closed (P k)); [apply HP|apply Hstep|]. apply Hinit. rewrite elem_of_cons. tauto.
    + split; [eapply m_trans; [apply Hstep|exact H1]|exact H2].
Qed.

(* ---------- what each phase of shutdown_conn establishes ---------- *)
Lemma remove_listener_est c m k : lis_ok c k (ms (remove_listener m k)).
Proof.
  unfold remove_listener, lis_ok. destruct (listeners (ms m) !! k) eqn:E; cbn; intros l' Hl.
  - rewrite lookup_delete in Hl. discriminate.
  - congruence.
Qed.

Lemma remove_object_est c m ck :
  obj_unique (ms m) -> res (SP (objck_ok c ck)) never (remove_object m ck).
Proof.
  intros Hu. destruct (obj_by_cookie (ms m) ck) as [[u o]|] eqn:E.
  - eapply res_mono; [apply (remove_object_mstep' _ _ _ _ E)| |auto].
    intros m' Hm'. unfold SP, objck_ok. intros u' o' Hl Hck _.
    apply obj_by_cookie_Some in E as [E Eck].
    assert (objs_sub (objs (ms m)) (ms m')) as Hsub.
    { eapply (mstep_closed (objs_sub (objs (ms m)))); [apply closed_objs_sub|exact Hm'|]. unfold objs_sub. cbn. apply delete_subseteq. }
    assert (obj_none u (ms m')) as Hnone.
    { eapply (mstep_closed (obj_none u)); [apply closed_obj_none|exact Hm'|]. unfold obj_none. cbn. apply lookup_delete. }
    pose proof (lookup_weaken _ _ _ _ Hl Hsub) as Hl0.
    assert (u' = u) as -> by (eapply Hu; eauto; congruence).
    unfold obj_none in Hnone. congruence.
  - unfold remove_object. rewrite E. cbn. unfold SP, objck_ok. intros u o Hl Hck _.
    eapply obj_by_cookie_None; eauto.
Qed.

Lemma sc_ev_inner_est c k owner m e : ev_ok c k e (ms (sc_ev_inner c k owner m e)).
Proof.
  unfold sc_ev_inner, ev_ok. destruct (svcs (ms m) !! k) as [v|] eqn:E; [|intros; congruence].
  cbv zeta. destruct (bool_decide _); cbn; intros v' set Hl He;
    rewrite lookup_insert in Hl; injection Hl as <-; cbn in He.
  - rewrite lookup_delete in He. discriminate.
  - rewrite lookup_insert in He. injection He as <-. set_solver.
Qed.

Lemma sc_ev_est c m k : res (SP (evs_ok c k)) never (sc_ev c m k).
Proof.
  unfold sc_ev. destruct (svcs (ms m) !! k) as [v|] eqn:E.
  2:{ cbn. unfold SP, evs_ok, ev_ok. intros; congruence. }
  destruct (owner_of_svc _ _) as [owner|]; [|exact I]. cbn [res]. cbv zeta.
  unfold SP, evs_ok. apply (loop_keys_l (ev_ok c k)).
  - intros. apply closed_ev_ok.
  - intros. apply sc_ev_inner_mstep.
  - intros. apply sc_ev_inner_est.
  - intros e He v' set Hl Hs Hin. rewrite E in Hl. injection Hl as <-. apply He.
    apply elem_of_list_fmap. exists (e, set). split; [reflexivity|].
    apply elem_filter. split; [by apply elem_of_map_to_list|]. by apply bool_decide_eq_true.
Qed.

Lemma sc_all_est c m k : res (SP (all_ok c k)) never (sc_all c m k).
Proof.
  unfold sc_all, SP, all_ok. destruct (svcs (ms m) !! k) as [v|] eqn:E.
  2:{ cbn. intros; congruence. }
  destruct (owner_of_svc _ _) as [owner|]; [|exact I].
  destruct (bool_decide (c ∈ s_all v)) eqn:Ein.
  - cbn [res]. cbv zeta. destruct (bool_decide (s_all v ∖ {[c]} = ∅)); cbn; intros v' Hl;
      rewrite lookup_insert in Hl; injection Hl as <-; cbn; set_solver.
  - cbn. intros v' Hl. rewrite E in Hl. injection Hl as <-. by apply bool_decide_eq_false in Ein.
Qed.

Lemma sc_subs_est c s k : subs_ok c k (sc_subs c s).
Proof.
  unfold subs_ok, sc_subs. cbn. intros v Hl. rewrite lookup_fmap in Hl.
  destruct (svcs s !! k); cbn in Hl; [|discriminate]. injection Hl as <-. cbn. set_solver.
Qed.

Lemma sc_end_est c e m k : res (SP (end_ok c e k)) never (sc_end c e m k).
Proof.
  unfold sc_end. destruct (chans (ms m) !! k) as [ch|] eqn:E.
  2:{ cbn. unfold SP, end_ok. intros; congruence. }
  fold (end_of e ch). destruct (end_of e ch) as [|o cap0|] eqn:Ee;
    try (cbn; unfold SP, end_ok; intros ch' cap Hl; rewrite E in Hl; injection Hl as <-; congruence).
  destruct (bool_decide (o = c)) eqn:Eo.
  - eapply res_mono; [apply (remove_end_mstep' _ _ e _ E)| |auto].
    intros m' [Hm'|Hm']; unfold SP; (eapply (mstep_closed (end_ok c e k)); [apply closed_end_ok|exact Hm'|]);
      unfold end_ok; cbn; intros ch' cap Hl.
    + rewrite lookup_delete in Hl. discriminate.
    + rewrite lookup_insert in Hl. injection Hl as <-. rewrite end_of_close_end.
      rewrite bool_decide_eq_true_2 by reflexivity. discriminate.
  - cbn. unfold SP, end_ok. intros ch' cap Hl. rewrite E in Hl. injection Hl as <-.
    apply bool_decide_eq_false in Eo. congruence.
Qed.

(* one loop of shutdown_conn: A is what holds so far, P what this loop adds *)
Lemma phase {K} `{EqDecision K} (A : state -> Prop) (P : K -> state -> Prop)
    (f : M -> K -> outcome M) (l : list K) m (k : M -> outcome M) (R : M -> Prop) :
  closed A -> (forall k, closed (P k)) ->
  (forall m k, res (mstep m) never (f m k)) ->
  (forall m k, A (ms m) -> res (SP (P k)) never (f m k)) ->
  A (ms m) -> (forall k, k ∉ l -> P k (ms m)) ->
  (forall m', A (ms m') -> (forall k, P k (ms m')) -> res R never (k m')) ->
  res R never (foldO f l m >>> k).
Proof.
  intros HA HP Hstep Hest HAm Hinit Hk.
  eapply res_bind; [apply (loop_keys P A f l m HP HA Hstep Hest HAm Hinit)|].
  intros m' [Hm' HPm']. apply Hk; [|exact HPm']. eapply (mstep_closed A); eauto.
Qed.

Lemma not_in_keys {A} (mp : gmap uuid A) k : k ∉ (fun p : uuid * A => p.1) <$> map_to_list mp -> mp !! k = None.
Proof.
  intros Hk. destruct (mp !! k) as [x|] eqn:E; [|reflexivity]. exfalso. apply Hk.
  apply elem_of_list_fmap. exists (k, x). split; [reflexivity|by apply elem_of_map_to_list].
Qed.
Lemma not_in_keys2 {A} (mp : gmap (uuid * uuid) A) k :
  k ∉ (fun p : uuid * uuid * A => p.1) <$> map_to_list mp -> mp !! k = None.
Proof.
  intros Hk. destruct (mp !! k) as [x|] eqn:E; [|reflexivity]. exfalso. apply Hk.
  apply elem_of_list_fmap. exists (k, x). split; [reflexivity|by apply elem_of_map_to_list].
Qed.

Lemma shutdown_conn_no_ref m c sd cs :
  conns (ms m) !! c = Some cs -> obj_unique (ms m) -> res (SP (no_ref c)) never (shutdown_conn m c sd).
Proof.
  intros E Hu. rewrite shutdown_conn_eq, E. cbv zeta. fold (sc_start m c cs sd).
  assert (obj_unique (ms (sc_start m c cs sd))) as Hu1.
  { unfold sc_start. cbv zeta. destruct (_ && _); exact Hu. }
  generalize dependent (sc_start m c cs sd). intros m1 Hu1.
  (* listeners *)
  destruct (loop_keys_l (lis_ok c) remove_listener (sc_listeners c (ms m1)) m1) as [Hs2 Hl2].
  { intros. apply closed_lis_ok. } { intros. apply remove_listener_mstep. }
  { intros. apply remove_listener_est. }
  { intros k Hk l Hl Ho. apply Hk. apply elem_of_list_fmap. exists (k, l). split; [reflexivity|].
    apply elem_filter. split; [by apply elem_of_map_to_list|]. by apply bool_decide_eq_true. }
  assert (obj_unique (ms (foldl remove_listener m1 (sc_listeners c (ms m1))))) as Hu2
    by (eapply (mstep_closed obj_unique); [apply closed_obj_unique|exact Hs2|exact Hu1]).
  generalize dependent (foldl remove_listener m1 (sc_listeners c (ms m1))). intros m2 _ Hl2 Hu2.
  (* objects *)
  apply (phase (fun s => obj_unique s /\ forall k, lis_ok c k s) (objck_ok c)).
  { apply closed_and; [apply closed_obj_unique|apply closed_forall; intros; apply closed_lis_ok]. }
  { intros. apply closed_objck_ok. } { intros. apply remove_object_mstep. }
  { intros m' k [Hu' _]. by apply remove_object_est. }
  { split; assumption. }
  { intros ck Hk u o Hl Hck Ho. apply Hk. apply elem_of_list_fmap. exists (u, o). split; [cbn; congruence|].
    apply elem_filter. split; [by apply elem_of_map_to_list|]. by apply bool_decide_eq_true. }
  intros m3 [_ Hl3] Ho3.
  (* event subscriptions *)
  set (A3 := fun s => (forall k, lis_ok c k s) /\ forall ck, objck_ok c ck s).
  assert (closed A3) as HA3.
  { apply closed_and; apply closed_forall; intros; [apply closed_lis_ok|apply closed_objck_ok]. }
  apply (phase A3 (evs_ok c)); try assumption.
  { intros. apply closed_forall. intros. apply closed_ev_ok. } { intros. apply sc_ev_mstep. }
  { intros. apply sc_ev_est. } { split; assumption. }
  { intros k Hk e v set Hl. apply not_in_keys2 in Hk. congruence. }
  intros m4 H4 He4.
  (* all-events subscriptions *)
  set (A4 := fun s => A3 s /\ forall k, evs_ok c k s).
  assert (closed A4) as HA4.
  { apply closed_and; [exact HA3|]. apply closed_forall. intros. apply closed_forall. intros. apply closed_ev_ok. }
  apply (phase A4 (all_ok c)); try assumption.
  { intros. apply closed_all_ok. } { intros. apply sc_all_mstep. }
  { intros. apply sc_all_est. } { split; assumption. }
  { intros k Hk v Hl. apply not_in_keys2 in Hk. congruence. }
  intros m5 H5 Ha5. cbv beta.
  (* service subscriptions, then the sender ends *)
  set (A5 := fun s => A4 s /\ (forall k, all_ok c k s) /\ forall k, subs_ok c k s).
  assert (closed A5) as HA5.
  { apply closed_and; [exact HA4|]. apply closed_and; apply closed_forall; intros;
      [apply closed_all_ok|apply closed_subs_ok]. }
  match goal with |- res _ _ (foldO _ _ ?x >>> _) => set (m6 := x) end.
  assert (A5 (ms m6)) as H6.
  { assert (mstep m5 m6) as Hs by apply m_ms1, u_subs.
    split; [eapply (mstep_closed A4); eauto|].
    split; [eapply (mstep_closed (fun s => forall k, all_ok c k s)); eauto;
            apply closed_forall; intros; apply closed_all_ok|].
    intros k. apply sc_subs_est. }
  clearbody m6.
  set (L := chan_keys (ms m6)).
  set (A6 := fun s => A5 s /\ forall k, k ∉ L -> end_ok c EReceiver k s).
  assert (closed A6) as HA6.
  { apply closed_and; [exact HA5|]. apply closed_forall. intros k s s' Hupd H Hk. eapply closed_end_ok; eauto. }
  apply (phase A6 (end_ok c ESender)); try assumption.
  { intros. apply closed_end_ok. } { intros. apply sc_end_mstep. }
  { intros. apply sc_end_est. }
  { split; [assumption|]. intros k Hk ch cap Hl. apply not_in_keys in Hk. congruence. }
  { intros k Hk ch cap Hl. apply not_in_keys in Hk. congruence. }
  intros m7 [H7 Hr7] Hs7.
  (* the receiver ends *)
  set (A7 := fun s => A5 s /\ forall k, end_ok c ESender k s).
  assert (closed A7) as HA7.
  { apply closed_and; [exact HA5|]. apply closed_forall. intros. apply closed_end_ok. }
  apply (phase A7 (end_ok c EReceiver)); try assumption.
  { intros. apply closed_end_ok. } { intros. apply sc_end_mstep. }
  { intros. apply sc_end_est. } { split; assumption. }
  intros m8 [[[[Hl8 Ho8] He8] [Ha8 Hu8]] Hs8] Hr8.
  cbn [res]. unfold SP. cbn. rewrite sc_aborts_ms.
  apply no_ref_parts. repeat split.
  - intros u o Hl Ho. eapply Ho8; eauto.
  - intros k l Hl. eapply Hl8; eauto.
  - intros k ch cap Hl. eapply Hs8; eauto.
  - intros k ch cap Hl. eapply Hr8; eauto.
  - intros k v e set Hl Hev. eapply He8; eauto.
  - intros k v Hl. eapply Ha8; eauto.
  - intros k v Hl. eapply Hu8; eauto.
Qed.

Definition no_ref' (c : conn) (s : state) : Prop :=
  ((forall k, lis_ok c k s) /\ (forall ck, objck_ok c ck s)) /\
  ((forall k, evs_ok c k s) /\ (forall k, all_ok c k s) /\ (forall k, subs_ok c k s)) /\
  (forall k, end_ok c ESender k s) /\ (forall k, end_ok c EReceiver k s).

Lemma no_ref_iff c s : no_ref c s <-> no_ref' c s.
Proof.
  rewrite no_ref_parts. unfold no_ref', nr_obj, nr_lis, nr_end, nr_ev, nr_all, nr_subs,
    lis_ok, objck_ok, evs_ok, ev_ok, all_ok, subs_ok, end_ok. split.
  - intros (Ho & Hl & Hs & Hr & He & Ha & Hu). repeat split; eauto.
  - intros ((Hl & Ho) & (He & Ha & Hu) & Hs & Hr). repeat split; eauto.
Qed.

Lemma closed_no_ref c : closed (no_ref c).
Proof.
  assert (closed (no_ref' c)) as H.
  { repeat apply closed_and; apply closed_forall; intros;
      first [apply closed_lis_ok|apply closed_objck_ok|apply closed_all_ok|apply closed_subs_ok
            |apply closed_end_ok|apply closed_forall; intros; apply closed_ev_ok]. }
  intros s s' Hu Hs. apply no_ref_iff. eapply H; [exact Hu|]. by apply no_ref_iff.
Qed.

Lemma release s c cs (sd : bool) f b s' o :
  obj_unique s -> conns s !! c = Some cs ->
  step s (if sd then ShutdownConnection c else ConnectionShutdown c) f b = Done (s', o) ->
  no_ref c s'.
Proof.
  intros Hu E H. apply step_inv in H as (m & m' & Hpre & Hs & -> & _).
  assert (m = push_remove (m_init s) c sd) as -> by (destruct sd; injection Hpre as <-; reflexivity).
  destruct (fuel_for_S ((push_remove (m_init s) c sd))) as [fu Hfu]. rewrite Hfu in Hs.
  rewrite settle_unfold in Hs.
  change (settle_one (push_remove (m_init s) c sd))
    with (Some (shutdown_conn (push_remove (m_init s) c sd <| mw; w_remove_conns := [] |>) c sd)) in Hs.
  pose proof (shutdown_conn_no_ref (push_remove (m_init s) c sd <| mw; w_remove_conns := [] |>) c sd cs E Hu) as H1.
  destruct (shutdown_conn _ c sd) as [m1|m1|?]; [|contradiction|discriminate].
  refine (settle_done_closed _ (closed_no_ref c) _ fu m1 m' H1 Hs).
  intros s0 c0 H0. exact H0.
Qed.

(* ---------- object cookies are pairwise distinct in every reachable state ---------- *)
Lemma ounique_insert O u o :
  ounique O -> O !! u = None -> (forall u' o', O !! u' = Some o' -> o_cookie o' <> o_cookie o) ->
  ounique (<[u := o]> O).
Proof.
  intros HO Hu Hf u1 u2 o1 o2 H1 H2 Hc.
  apply lookup_insert_Some in H1 as [[<- <-]|[Hn1 H1]]; apply lookup_insert_Some in H2 as [[<- <-]|[Hn2 H2]].
  - reflexivity.
  - exfalso. eapply Hf; eauto.
  - exfalso. eapply Hf; eauto.
  - eapply HO; eauto.
Qed.

Definition fresh_obj (fresh : uuid) (s : state) : Prop :=
  forall u o, objs s !! u = Some o -> o_cookie o <> fresh.

Ltac ou_leaf :=
  first [ assumption
        | apply (remove_listener_closed _ closed_obj_unique); assumption
        | unfold obj_unique in *; cbn in *; assumption
        | idtac ].
Ltac ou_call :=
  first [ apply res_never, (remove_object_closed _ closed_obj_unique)
        | apply res_never, (remove_service_closed _ closed_obj_unique)
        | apply res_never, (remove_end_closed _ closed_obj_unique) ]; cbn; ou_leaf.

Lemma create_service_impl_ou m cn serial oc u i fresh :
  obj_unique (ms m) -> res (SP obj_unique) (SP obj_unique) (create_service_impl m cn serial oc u i fresh).
Proof. intros H. unfold create_service_impl. wp ou_leaf idtac. Qed.

Lemma call_impl_ou m cn serial sc fn ver v bserial :
  obj_unique (ms m) -> res (SP obj_unique) (SP obj_unique) (call_impl m cn serial sc fn ver v bserial).
Proof. intros H. unfold call_impl. wp ou_leaf idtac. Qed.

Ltac ou_call' :=
  first [ apply create_service_impl_ou; cbn; ou_leaf | apply call_impl_ou; cbn; ou_leaf | ou_call ].

Lemma handle_ou m cn x fresh bserial :
  obj_unique (ms m) -> fresh_obj fresh (ms m) ->
  res (SP obj_unique) (SP obj_unique) (handle m cn x fresh bserial).
Proof.
  intros H Hf. unfold handle. destruct (conns (ms m) !! cn) as [cs|] eqn:Ecn; [|exact H].
  destruct x; try exact H; wp ou_leaf ou_call'.
  (* CreateObject: the new object carries the fresh cookie *)
  prep. unfold obj_unique. cbn. apply ounique_insert; [exact H|assumption|]. cbn. exact Hf.
Qed.

Lemma legal_fresh_obj s i : legal s i -> fresh_obj (i_fresh i) s.
Proof.
  intros (Hf & _) u o Hl Hc. apply Hf. unfold cookies_in_use. rewrite !elem_of_union. left. left. left.
  apply elem_of_list_to_set, elem_of_list_fmap. exists (u, o). split; [by rewrite <- Hc|].
  by apply elem_of_map_to_list.
Qed.

Lemma obj_unique_step s e fresh b s' o :
  obj_unique s -> fresh_obj fresh s -> step s e fresh b = Done (s', o) -> obj_unique s'.
Proof.
  intros H Hf. apply step_sp; try (intros; exact H).
  - intros fuel m Hm. apply settle_closed; [apply closed_obj_unique| |exact Hm]. intros s0 c0 Hs0. exact Hs0.
  - intros c x _. by apply handle_ou.
  - intros c _. unfold drop_task. destruct (conns s !! c); exact H.
Qed.

Lemma obj_unique_reachable s : reachable s -> obj_unique s.
Proof.
  induction 1 as [|s i s' o _ IH Hl Hs].
  - intros u1 u2 o1 o2 H1. cbn in H1. rewrite lookup_empty in H1. discriminate.
  - eapply obj_unique_step; [exact IH|by apply legal_fresh_obj|exact Hs].
Qed.

(* ---------------------------------------------------------------- 4: ShutdownBroker *)
#[export] Instance out_shutdown_dec (x : out) (c : conn) : Decision (x = (c, Shutdown, None)).
Proof.
  destruct x as [[c' x] f]. destruct x; try (right; intros [=]; fail).
  destruct f; [right; intros [=]|].
  destruct (decide (c' = c)); [left; congruence|right; congruence].
Defined.

Definition nshut (c : conn) (l : list out) : nat :=
  length (List.filter (fun x : out => bool_decide (x = (c, Shutdown, None))) l).

Global Arguments nshut : simpl never.

Lemma nshut_snoc c l y :
  nshut c (l ++ [y]) = (nshut c l + if bool_decide (y = (c, Shutdown, None)) then 1 else 0)%nat.
Proof.
  unfold nshut. rewrite List.filter_app, app_length. cbn. destruct (bool_decide _); reflexivity.
Qed.
Lemma nshut_other c l c' x f : x <> Shutdown \/ c' <> c -> nshut c (l ++ [(c', x, f)]) = nshut c l.
Proof.
  intros H. rewrite nshut_snoc, bool_decide_eq_false_2; [lia|]. intros [=]. tauto.
Qed.
Lemma nshut_hit c l : nshut c (l ++ [(c, Shutdown, None)]) = S (nshut c l).
Proof. rewrite nshut_snoc, bool_decide_eq_true_2 by reflexivity. lia. Qed.

Lemma upd1_dom_conns s s' : upd1 s s' -> dom (conns s') = dom (conns s).
Proof.
  intros []; try reflexivity. unfold upd_call_done. cbn. apply dom_insert_lookup_L. eauto.
Qed.
Lemma upds_dom_conns s s' : upds s s' -> dom (conns s') = dom (conns s).
Proof. induction 1 as [|s s1 s2 _ IH H]; [reflexivity|]. rewrite <- IH. by apply upd1_dom_conns. Qed.

Section shutdown_broker.
  Context (s0 : state) (c : conn).

  (* survivors keep the liveness flag they had in s0 *)
  Definition alive_same (s : state) : Prop :=
    forall c' cs', conns s !! c' = Some cs' ->
      exists cs0, conns s0 !! c' = Some cs0 /\ cs_alive cs' = cs_alive cs0.

  Lemma closed_alive_same : closed alive_same.
  Proof.
    intros s s' Hu HQ; destruct Hu; try exact HQ. unfold alive_same, upd_call_done in *. cbn.
    intros c' cs' Hl. apply lookup_insert_Some in Hl as [[<- <-]|[_ Hl]]; [|eauto]. cbn. eauto.
  Qed.

  (* the invariant of the work loop after ShutdownBroker in s0:
     liveness flags are those of s0; only dead connections are queued with (c', false); every
     connection still present is queued with (c', true); and if c was live in s0, it has received
     no Shutdown while it is present and exactly one once it is gone *)
  Definition K (m : M) : Prop :=
    alive_same (ms m) /\
    (forall c', (c', false) ∈ w_remove_conns (mw m) ->
       exists cs0, conns s0 !! c' = Some cs0 /\ cs_alive cs0 = false) /\
    (forall c', is_Some (conns (ms m) !! c') -> (c', true) ∈ w_remove_conns (mw m)) /\
    (forall cs, conns s0 !! c = Some cs -> cs_alive cs = true ->
       nshut c (mo m) = (if conns (ms m) !! c then 0 else 1)%nat).

  Lemma K_ext m m' : ms m' = ms m -> mo m' = mo m -> w_remove_conns (mw m') = w_remove_conns (mw m) ->
    K m -> K m'.
  Proof. unfold K. intros -> -> ->. auto. Qed.

  Lemma K_mstep m m' : mstep m m' -> K m -> K m'.
  Proof.
    induction 1 as [|m m1 m2 _ IH1 _ IH2|m m' Hu Ho Hw|m c' cs' x f Hl Ha Hx|m c' cs' Hl Ha]; auto.
    - intros (K1 & K2 & K3 & K4). unfold K. rewrite Ho, Hw.
      pose proof (upds_dom_conns _ _ Hu) as Hd.
      assert (forall c', is_Some (conns (ms m') !! c') <-> is_Some (conns (ms m) !! c')) as Hd'.
      { intros c'. rewrite <- !elem_of_dom, Hd. reflexivity. }
      split; [eapply closed_upds; [apply closed_alive_same|exact Hu|exact K1]|].
      split; [exact K2|]. split; [intros c' Hc'; apply K3, Hd', Hc'|].
      intros cs Hc Halive. rewrite (K4 _ Hc Halive). specialize (Hd' c).
      destruct (conns (ms m') !! c), (conns (ms m) !! c);
        try reflexivity; exfalso; [apply (is_Some_None (A := cstate))|apply (is_Some_None (A := cstate))]; apply Hd'; eauto.
    - intros (K1 & K2 & K3 & K4). unfold K. cbn. repeat split; try assumption.
      intros cs Hc Halive. rewrite nshut_other by tauto. eauto.
    - intros (K1 & K2 & K3 & K4). unfold K, push_remove. cbn. repeat split; try assumption.
      + intros c'' Hin. apply elem_of_cons in Hin as [[= ->]|Hin]; [|eauto].
        destruct (K1 _ _ Hl) as (cs0 & E0 & Ea). exists cs0. split; [exact E0|congruence].
      + intros c'' Hc''. apply elem_of_cons. right. eauto.
  Qed.

  (* processing the head of the remove queue *)
  Lemma K_shutdown_conn m c0 sd r :
    K m -> w_remove_conns (mw m) = (c0, sd) :: r ->
    res K never (shutdown_conn (m <| mw; w_remove_conns := r |>) c0 sd).
  Proof.
    intros (K1 & K2 & K3 & K4) Hq.
    eapply res_mono; [apply shutdown_conn_mstep| |auto]. intros m'. cbv beta. cbn.
    destruct (conns (ms m) !! c0) as [cs'|] eqn:E0.
    - intros Hm'. eapply K_mstep; [exact Hm'|]. clear Hm' m'.
      assert (forall c', is_Some (delete c0 (conns (ms m)) !! c') -> (c', true) ∈ r) as K3'.
      { intros c' Hc'. destruct (decide (c' = c0)) as [->|Hne]; [rewrite lookup_delete in Hc'; by destruct Hc'|].
        rewrite lookup_delete_ne in Hc' by done. specialize (K3 _ Hc'). rewrite Hq in K3.
        apply elem_of_cons in K3 as [[= ? ?]|K3]; [congruence|exact K3]. }
      assert (forall c', (c', false) ∈ r -> exists cs0, conns s0 !! c' = Some cs0 /\ cs_alive cs0 = false) as K2'.
      { intros c' Hin. apply K2. rewrite Hq. apply elem_of_cons. by right. }
      assert (alive_same (ms m <| conns ::= delete c0 |>)) as K1'.
      { intros c' cs'' Hl. cbn in Hl. apply lookup_delete_Some in Hl as [_ Hl]. eauto. }
      split; [unfold sc_start; cbv zeta; destruct (_ && _); exact K1'|].
      split; [unfold sc_start; cbv zeta; destruct (_ && _); exact K2'|].
      split; [unfold sc_start; cbv zeta; destruct (_ && _); exact K3'|].
      intros cs Hc Halive. specialize (K4 _ Hc Halive).
      destruct (decide (c0 = c)) as [->|Hne].
      + (* the target: it is live, so it was queued with sd = true and gets its Shutdown *)
        destruct (K1 _ _ E0) as (cs0 & E0' & Ea). rewrite Hc in E0'. injection E0' as <-.
        assert (sd = true) as ->.
        { destruct sd; [reflexivity|]. destruct (K2 c) as (cs0 & E0' & Ea').
          - rewrite Hq. apply elem_of_cons. by left.
          - rewrite Hc in E0'. injection E0' as <-. congruence. }
        rewrite E0 in K4. unfold sc_start. cbv zeta. rewrite Ea, Halive. cbn [andb].
        cbn. rewrite lookup_delete, nshut_hit, K4. reflexivity.
      + unfold sc_start. cbv zeta. destruct (sd && cs_alive cs'); cbn;
          rewrite ?lookup_delete_ne by done; rewrite ?nshut_other by tauto; exact K4.
    - intros ->. unfold K. cbn. repeat split; try assumption.
      + intros c' Hin. apply K2. rewrite Hq. apply elem_of_cons. by right.
      + intros c' Hc'. specialize (K3 _ Hc'). rewrite Hq in K3.
        apply elem_of_cons in K3 as [[= -> ?]|K3]; [|exact K3]. rewrite E0 in Hc'. by destruct Hc'.
  Qed.

  Lemma K_settle_one m :
    K m -> match settle_one m with Some o => res K never o | None => work_empty (mw m) end.
  Proof.
    intros HK. apply settle_one_cases.
    - intros c0 sd r Hq. by apply K_shutdown_conn.
    - intros c0 s e r _ _. eapply res_mono; [apply notify_item_mstep; discriminate| |auto].
      intros m' Hm'. eapply K_mstep; [exact Hm'|]. eapply K_ext; [..|exact HK]; reflexivity.
    - intros c0 s r _ _. eapply res_mono; [apply notify_item_mstep; discriminate| |auto].
      intros m' Hm'. eapply K_mstep; [exact Hm'|]. eapply K_ext; [..|exact HK]; reflexivity.
    - intros c0 s r _ _. eapply res_mono; [apply notify_item_mstep; discriminate| |auto].
      intros m' Hm'. eapply K_mstep; [exact Hm'|]. eapply K_ext; [..|exact HK]; reflexivity.
    - intros serial c0 result r _ _. eapply res_mono; [apply rm_call_item_mstep| |auto].
      intros m' Hm'. eapply K_mstep; [exact Hm'|]. eapply K_ext; [..|exact HK]; reflexivity.
    - intros ev m1 Hq E1 E2 E3. eapply res_mono; [apply bus_mstep| |auto].
      intros m' Hm'. eapply K_mstep; [exact Hm'|]. eapply K_ext; [..|exact HK]; congruence.
    - intros b callee r _ _. eapply res_mono; [apply abort_call_mstep| |auto].
      intros m' Hm'. eapply K_mstep; [exact Hm'|]. eapply K_ext; [..|exact HK]; reflexivity.
    - auto.
  Qed.

  Lemma K_settle fuel m m' : K m -> settle fuel m = Done m' -> K m' /\ work_empty (mw m').
  Proof.
    revert m. induction fuel as [|fuel IH]; intros m HK; rewrite settle_unfold;
      pose proof (K_settle_one m HK) as H1; destruct (settle_one m) as [[m1|m1|?]|]; cbn in H1;
      try discriminate; try contradiction.
    - intros [= <-]. auto.
    - apply IH, H1.
    - intros [= <-]. auto.
  Qed.
End shutdown_broker.

Lemma push_remove_queue m c sd :
  w_remove_conns (mw (push_remove m c sd)) = (c, sd) :: w_remove_conns (mw m).
Proof. reflexivity. Qed.

Lemma queue_all_queue s :
  w_remove_conns (mw (queue_all s)) = (fun p : conn * cstate => (p.1, true)) <$> map_to_list (conns s).
Proof.
  unfold queue_all. induction (map_to_list (conns s)) as [|p l IH]; [reflexivity|].
  cbn [foldr]. rewrite push_remove_queue, IH. reflexivity.
Qed.

Lemma K_init s c : K s c (queue_all s <| ms; shutdown_now := true |>).
Proof.
  unfold K. cbn. rewrite queue_all_ms, queue_all_mo, queue_all_queue. cbn. repeat split.
  - intros c' cs' Hl. eauto.
  - intros c' Hin. apply elem_of_list_fmap in Hin as ([c'' cs''] & [=] & _).
  - intros c' [cs' Hl]. apply elem_of_list_fmap. exists (c', cs'). split; [reflexivity|].
    by apply elem_of_map_to_list.
  - intros cs Hc _. by rewrite Hc.
Qed.

Lemma shutdown_broker_K s c f b s' o :
  step s ShutdownBroker f b = Done (s', o) ->
  conns s' = ∅ /\
  forall cs, conns s !! c = Some cs -> cs_alive cs = true -> nshut c o = 1%nat.
Proof.
  intros H. apply step_inv in H as (m & m' & Hpre & Hs & -> & ->). injection Hpre as <-.
  destruct (K_settle s c _ _ _ (K_init s c) Hs) as [(K1 & K2 & K3 & K4) (Hq & _)].
  assert (conns (ms m') = ∅) as He.
  { apply map_empty. intros c'. destruct (conns (ms m') !! c') eqn:E; [|reflexivity].
    exfalso. specialize (K3 c' (ex_intro _ _ E)). rewrite Hq in K3. by apply elem_of_nil in K3. }
  split; [exact He|]. intros cs Hc Ha. rewrite (K4 _ Hc Ha), He, lookup_empty. reflexivity.
Qed.

Lemma shutdown_broker s f b s' o :
  step s ShutdownBroker f b = Done (s', o) ->
  shutdown_now s' = true /\ exits s' = true /\ conns s' = ∅.
Proof.
  intros H. pose proof (now_set _ _ _ _ _ H) as Hn.
  destruct (shutdown_broker_K s 0 f b s' o H) as [He _].
  split; [exact Hn|]. split; [|exact He]. apply exits_iff. by left.
Qed.

Lemma shutdown_broker_once s f b s' o c cs :
  step s ShutdownBroker f b = Done (s', o) -> conns s !! c = Some cs -> cs_alive cs = true ->
  length (List.filter (fun x : out => bool_decide (x = (c, Shutdown, None))) o) = 1%nat.
Proof. intros H Hc Ha. destruct (shutdown_broker_K s c f b s' o H) as [_ H1]. exact (H1 cs Hc Ha). Qed.
