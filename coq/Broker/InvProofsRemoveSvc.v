(* Broker/InvProofsRemoveSvc.v — remove_service and remove_object preserve the invariant and
   never reach Panic 11. *)
From stdpp Require Import gmap list.
From RecordUpdate Require Import RecordSet.
Import RecordSetNotations.
From Aldrin Require Import gen.BrokerConsts Broker.Model Broker.Run Broker.ChannelProofs Broker.Inv
  Broker.InvProofsBase Broker.InvProofsCalls.
From Coq Require Import Lia.
Local Open Scope N_scope.

(* ---------------------------------------------------------------- the calls of a removed service *)
Definition rm_call_f (m : M) (b : N) : outcome M :=
  match calls (ms m) !! b with
  | None => Panic 11
  | Some cl =>
      let m' := m <| ms; calls ::= delete b |> in
      Done (if c_aborted cl then m'
            else m' <| mw; w_rm_call ::= cons (c_serial cl, c_caller cl, CRInvalidService) |>)
  end.

Lemma rm_calls_spec l : ∀ m,
  NoDup l → (∀ b, b ∈ l → is_Some (calls (ms m) !! b)) →
  PC (w_rm_call (mw m)) (conns (ms m)) (calls (ms m)) →
  ∃ K' q', foldO rm_call_f l m = Done (m <| ms; calls := K' |> <| mw; w_rm_call := q' |>) ∧
    PC q' (conns (ms m)) K' ∧
    ∀ b, K' !! b = if decide (b ∈ l) then None else calls (ms m) !! b.
Proof.
  induction l as [|b l IH]; intros m Hnd Hl HPC.
  - exists (calls (ms m)), (w_rm_call (mw m)). cbn. split; [|split; [done|]].
    + destruct m as [[] [] ?]; done.
    + intros b. rewrite decide_False; [done|apply not_elem_of_nil].
  - apply NoDup_cons in Hnd as [Hnb Hnd]. destruct (Hl b ltac:(left)) as [cl Hb].
    cbn [foldO]. unfold rm_call_f at 1. rewrite Hb. cbn zeta.
    destruct HPC as (Hce & Hec & Hqe & Hqn).
    assert (∀ x, x ∈ l → is_Some (delete b (calls (ms m)) !! x)) as Hl'.
    { intros x Hx. rewrite lookup_delete_ne; [apply Hl; by right|]. intros <-. done. }
    assert (∀ (K' : gmap N call) x, (∀ y, K' !! y = if decide (y ∈ l) then None else delete b (calls (ms m)) !! y) →
             K' !! x = if decide (x ∈ b :: l) then None else calls (ms m) !! x) as Hlk.
    { intros K' x HK. rewrite HK. destruct (decide (x = b)) as [->|Hne].
      - rewrite lookup_delete. rewrite (decide_True (P := b ∈ b :: l)) by left. by destruct (decide _).
      - rewrite lookup_delete_ne by done. repeat case_decide; try done; exfalso; set_solver. }
    destruct (c_aborted cl) eqn:Ha.
    + destruct (IH (m <| ms; calls ::= delete b |>) Hnd) as (K' & q' & Hf & HPC' & HK).
      { cbn. exact Hl'. }
      { cbn. split; [eapply call_entry_mono; [apply delete_subseteq|done]|].
        split; [eapply entry_call_delete_aborted; eauto|]. split; [by apply rmq_entry_delete|done]. }
      exists K', q'. rewrite Hf. split; [done|]. split; [exact HPC'|]. intros x. by apply Hlk.
    + destruct (rm_step_live _ _ _ _ _ CRInvalidService Hce Hec Hqe Hqn Hb Ha) as (E1 & E2 & E3).
      destruct (IH (m <| ms; calls ::= delete b |> <| mw; w_rm_call ::= cons (c_serial cl, c_caller cl, CRInvalidService) |>) Hnd)
        as (K' & q' & Hf & HPC' & HK).
      { cbn. exact Hl'. }
      { cbn. split; [eapply call_entry_mono; [apply delete_subseteq|done]|]. done. }
      exists K', q'. rewrite Hf. split; [done|]. split; [exact HPC'|]. intros x. by apply Hlk.
Qed.

Lemma svc_destroyed_quiet cookie l m :
  quiet m (foldr (fun c m => if has m c then m <| mw; w_svc_destroyed ::= cons (c, cookie) |> else m) m l).
Proof.
  induction l as [|c l IH]; cbn; [done|]. destruct (has _ c); [|done].
  destruct IH as (H1 & H2 & H3). split; [|split]; cbn; done.
Qed.

(* ---------------------------------------------------------------- remove_service *)
Lemma remove_service_spec O X m ck :
  MO O X m →
  ∃ m', remove_service m ck = Done m' ∧ MO O X m' ∧ blank_sc (ms m') = blank_sc (ms m) ∧
    w_abort (mw m') = w_abort (mw m) ∧ calls (ms m') ⊆ calls (ms m) ∧
    svcs (ms m') = match svc_by_cookie (ms m) ck with
                   | Some (k, _) => delete k (svcs (ms m)) | None => svcs (ms m) end.
Proof.
  intros H. unfold remove_service. destruct (svc_by_cookie (ms m) ck) as [[k s]|] eqn:E.
  2:{ exists m. split; [done|]. split; [done|]. done. }
  apply svc_by_cookie_Some in E as [Hk Hck].
  set (m1 := m <| ms; svcs ::= delete k |> <| mw; w_destroy_svc ::= cons (k.1, s_obj_cookie s, k.2, s_cookie s) |>).
  destruct (rm_calls_spec (elements (s_calls s)) m1) as (K' & q' & Hf & HPC & HK).
  { apply NoDup_elements. }
  { intros b Hb. apply elem_of_elements in Hb. cbn.
    destruct (iv_sc _ _ _ _ _ H _ _ _ Hk Hb) as (cl & Hcl & _). eauto. }
  { cbn. split; [apply H|]. split; [apply H|]. split; apply H. }
  change (foldO _ (elements (s_calls s)) m1) with (foldO rm_call_f (elements (s_calls s)) m1).
  rewrite Hf. cbn [andThen].
  match goal with |- ∃ m', Done (?f <| ms; st; n_svcs ::= sat_sub1 |>) = _ ∧ _ => set (m3 := f) end.
  set (m2 := m1 <| ms; calls := K' |> <| mw; w_rm_call := q' |>) in *.
  assert (quiet m2 m3) as Hq by apply svc_destroyed_quiet.
  assert (K' ⊆ calls (ms m)) as Hsub.
  { apply map_subseteq_spec. intros b cl Hb. rewrite HK in Hb. by destruct (decide _). }
  assert (MO O X m2) as H2.
  { cbn in HPC. destruct HPC as (P1 & P2 & P3 & P4).
    unfold MO in *. subst m2 m1. mx_frame H.
    - eapply reg_so_mono; [apply delete_subseteq|done].
    - eapply uniq_svc_mono; [apply delete_subseteq|done].
    - eapply own_svc_mono; [apply delete_subseteq|done].
    - intros b cl Hb. rewrite HK in Hb. destruct (decide (b ∈ elements (s_calls s))) as [|Hn]; [done|].
      destruct (Hcs _ _ Hb) as (sv & Hsv & Hin). exists sv. split; [|done].
      rewrite lookup_delete_ne; [done|]. intros Heq. rewrite <- Heq in Hsv. rewrite Hk in Hsv. inversion Hsv; subst.
      apply Hn. by apply elem_of_elements.
    - intros k' sv b Hk' Hb. apply lookup_delete_Some in Hk' as [Hne Hk'].
      destruct (Hsc _ _ _ Hk' Hb) as (cl & Hbl & Hsvc). exists cl. split; [|done].
      rewrite HK. rewrite decide_False; [done|]. intros Hin. apply elem_of_elements in Hin.
      destruct (Hsc _ _ _ Hk Hin) as (cl' & Hbl' & Hsvc'). congruence.
    - eapply calls_bound_mono; [exact Hsub|reflexivity|done].
    - eapply caller_live_mono; [exact Hsub| |done]. done. }
  exists (m3 <| ms; st; n_svcs ::= sat_sub1 |>). split; [done|].
  split; [apply MO_st; eapply MO_quiet; eauto|].
  destruct Hq as (Hq1 & Hq2 & Hq3). cbn. rewrite Hq1, Hq3. subst m2 m1. cbn. done.
Qed.

(* ---------------------------------------------------------------- remove_object *)
Lemma MO_change_O O O' X m :
  reg_so O' (svcs (ms m)) → uniq_obj O' → own_obj X O' → MO O X m → MO O' X m.
Proof. intros H1 H2 H3 H. unfold MO in *. destruct H. constructor; assumption. Qed.

Lemma elem_of_List_filter {A} (f : A → bool) l x : x ∈ List.filter f l ↔ x ∈ l ∧ f x = true.
Proof. rewrite !elem_of_list_In. apply filter_In. Qed.

Lemma remove_object_spec X m ck :
  MX X m →
  ∃ m', remove_object m ck = Done m' ∧ MX X m' ∧ blank_osc (ms m') = blank_osc (ms m) ∧
    w_abort (mw m') = w_abort (mw m) ∧ calls (ms m') ⊆ calls (ms m) ∧
    svcs (ms m') ⊆ svcs (ms m) ∧
    objs (ms m') = match obj_by_cookie (ms m) ck with
                   | Some (u, _) => delete u (objs (ms m)) | None => objs (ms m) end.
Proof.
  intros H. unfold remove_object. destruct (obj_by_cookie (ms m) ck) as [[u o]|] eqn:E.
  2:{ exists m. split; [done|]. split; [done|]. done. }
  apply obj_by_cookie_Some in E as [Hu Hck].
  set (m1 := m <| ms; objs ::= delete u |> <| mw; w_destroy_obj ::= cons (u, ck) |>).
  set (O := objs (ms m)) in *.
  match goal with |- ∃ m', foldO _ ?l _ >>> _ = _ ∧ _ => set (scs := l) end.
  destruct (foldO_inv (fun m' rest =>
      MO O X m' ∧ blank_sc (ms m') = blank_sc (ms m1) ∧ w_abort (mw m') = w_abort (mw m) ∧
      calls (ms m') ⊆ calls (ms m) ∧ svcs (ms m') ⊆ svcs (ms m) ∧
      ∀ k sv, svcs (ms m') !! k = Some sv → k.1 = u → s_cookie sv ∈ rest) remove_service scs m1)
    as (m2 & Hf & H2 & Hb & Hwa & Hc & Hs & Hnone).
  { split; [|split; [done|split; [done|split; [done|split; [done|]]]]].
    - unfold MX, MO in *. subst m1. mx_frame H.
    - intros k sv Hk Hku. subst scs. apply elem_of_list_fmap. exists (k, sv). split; [done|].
      apply elem_of_List_filter. split; [by apply elem_of_map_to_list|]. by apply bool_decide_eq_true. }
  { intros m' x rest (I1 & I2 & I3 & I4 & I5 & I6).
    destruct (remove_service_spec O X m' x I1) as (m'' & -> & J1 & J2 & J3 & J4 & J5).
    exists m''. split; [done|]. split; [done|]. split; [congruence|]. split; [congruence|].
    split; [etrans; eauto|].
    assert (svcs (ms m'') ⊆ svcs (ms m')) as Hss.
    { rewrite J5. destruct (svc_by_cookie (ms m') x) as [[k' s']|]; [apply delete_subseteq|done]. }
    split; [etrans; eauto|].
    intros k sv Hk Hku. pose proof (lookup_weaken _ _ _ _ Hk Hss) as Hk'.
    pose proof (I6 _ _ Hk' Hku) as Hin. apply elem_of_cons in Hin as [Heq|Hin]; [|done]. exfalso.
    rewrite J5 in Hk. destruct (svc_by_cookie (ms m') x) as [[k' s']|] eqn:E'.
    - apply svc_by_cookie_Some in E' as [E1 E2].
      assert (k' = k) as -> by (eapply (iv_us _ _ _ _ _ I1); eauto; congruence).
      by rewrite lookup_delete in Hk.
    - eapply svc_by_cookie_None; eauto. }
  rewrite Hf. cbn [andThen].
  assert (objs (ms m2) = delete u O) as Ho.
  { rw_fields Hb. done. }
  exists (m2 <| ms; st; n_objs ::= sat_sub1 |>). split; [done|].
  split.
  { unfold MX. cbn. rewrite Ho. apply MO_st. eapply MO_change_O; [| | |exact H2].
    - intros k sv Hk. destruct (iv_reg _ _ _ _ _ H2 _ _ Hk) as (o' & Ho' & Hc').
      exists o'. split; [|done]. rewrite lookup_delete_ne; [done|].
      intros Heq. symmetry in Heq. specialize (Hnone _ _ Hk Heq). by apply not_elem_of_nil in Hnone.
    - eapply uniq_obj_mono; [apply delete_subseteq|]. apply H2.
    - eapply own_obj_mono; [apply delete_subseteq|]. apply H2. }
  cbn. split; [|done]. unfold blank_osc, blank_sc in *. 
  apply (f_equal (fun s => s <| objs := ∅ |>)) in Hb. cbn in Hb. cbn. exact Hb.
Qed.
