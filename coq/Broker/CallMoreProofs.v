(* Broker/CallMoreProofs.v — C02, the parts DESIGN.md listed as not proved:
   (5) steps in which the CALLEE's receiver is gone: a call request is stored and the step then
       continues exactly like the callee's disconnect ([call_dead_callee]); an abort marks the call,
       answers the caller Aborted and then removes the callee ([abort_dead_callee]);
   (6) which synthesized result a caller gets: [Aborted] is output to (c, serial) only in the step
       that handles c's own AbortFunctionCall serial ([aborted_only_by_own_abort]); in every other
       step that resolves the call without the owner's reply the result is InvalidService
       ([destroyed_invalid_service]).  The mid-step fact behind it: every entry of the work queue
       [w_abort] refers to a call whose caller is the aborting connection or is already removed.
   Model.v / Run.v / Inv*.v are used as they are. *)
From stdpp Require Import gmap list.
From RecordUpdate Require Import RecordSet.
Import RecordSetNotations.
From Aldrin Require Import gen.BrokerConsts Broker.Model Broker.Run Broker.Wp Broker.OutKinds Broker.EventProofs
  Broker.CallProofs Broker.Inv Broker.InvProofsBase Broker.InvProofsSettle Broker.InvProofsHandle3
  Broker.InvProofsStep Broker.CallInvProofs.
From Coq Require Import Lia.
Local Open Scope N_scope.

(* ================================================================ (5) a call to a dead callee *)
(* the handler: everything is stored as for a forwarded call, nothing is output, and the callee
   is queued for removal (Rust: `if res.is_err() { state.push_remove_conn(callee_id, false) }`,
   the handler returns Ok) *)
Lemma call_dead_callee_handler s c cs x serial sc fn fver v f bs k sv callee ccs b nxt :
  conns s !! c = Some cs -> is_call cs x serial sc fn fver v ->
  svc_by_cookie s sc = Some (k, sv) -> owner_of_svc s k = Some callee ->
  conns s !! callee = Some ccs -> cs_alive ccs = false ->
  pick_serial s bs = Some (b, nxt) -> cs_calls cs !! serial = None ->
  handle (m_init s) c x f bs =
    Done (push_remove (m_init (call_state s c cs serial k sv b nxt callee)) callee false).
Proof.
  intros Hc Hx Hs Ho Hcc Hal Hp Hser.
  pose proof (svc_by_cookie_Some _ _ _ _ Hs) as [Hsv _].
  rewrite (handle_call _ c cs x serial sc fn fver v) by assumption.
  unfold call_impl. cbn [ms m_init]. rewrite Hs, Ho, Hc, Hp.
  rewrite bool_decide_eq_false_2 by (rewrite Hser; intros [? ?]; discriminate).
  cbn [ms set]. cbn. rewrite Hsv, Hcc.
  assert (Hlk : exists ccs', conns (call_state s c cs serial k sv b nxt callee) !! callee = Some ccs' /\ cs_alive ccs' = false).
  { unfold call_state. cbn. destruct (decide (callee = c)) as [->|Hne].
    - rewrite lookup_insert. eexists; split; [reflexivity|]. cbn. congruence.
    - rewrite lookup_insert_ne by congruence. eauto. }
  destruct Hlk as (ccs' & Hlk1 & Hlk2).
  destruct (MIN_CALL_FUNCTION2_OUT <=? cs_ver ccs); unfold send_or_remove; erewrite send_dead by (cbn; eassumption); reflexivity.
Qed.

(* the step: exactly the disconnect of the callee, started from the state with the call stored *)
Theorem call_dead_callee s c cs x serial sc fn fver v f bs k sv callee ccs b nxt f' bs' :
  conns s !! c = Some cs -> is_call cs x serial sc fn fver v ->
  svc_by_cookie s sc = Some (k, sv) -> owner_of_svc s k = Some callee ->
  conns s !! callee = Some ccs -> cs_alive ccs = false ->
  pick_serial s bs = Some (b, nxt) -> cs_calls cs !! serial = None ->
  step s (Message c x) f bs =
  step (call_state s c cs serial k sv b nxt callee) (ConnectionShutdown callee) f' bs'.
Proof.
  intros Hc Hx Hs Ho Hcc Hal Hp Hser. rewrite !step_unfold. cbn [step_handler]. fold (m_init s).
  rewrite (call_dead_callee_handler s c cs x serial sc fn fver v f bs k sv callee ccs b nxt) by assumption.
  reflexivity.
Qed.

(* an abort whose callee (protocol >= 1.16, so it would be told) has lost its receiver: the call is
   marked aborted, the notice to the callee fails and queues its removal, the caller is answered
   Aborted — this is the first output of the step —, then the callee is removed (its services are
   destroyed; the aborted call is deleted without a second reply: C02_destroyed) *)
Theorem abort_dead_callee s c cs serial b callee cl ccs f bs s' o :
  conns s !! c = Some cs -> cs_alive cs = true -> 16 <= cs_ver cs ->
  cs_calls cs !! serial = Some (b, callee) ->
  calls s !! b = Some cl -> c_caller cl = c -> c_serial cl = serial -> c_aborted cl = false ->
  conns s !! callee = Some ccs -> 16 <= cs_ver ccs -> cs_alive ccs = false ->
  step s (Message c (AbortFunctionCall serial)) f bs = Done (s', o) ->
  head o = Some (c, CallFunctionReply serial CRAborted, None) /\
  nrep c serial o = 1%nat /\ pend c serial s' = 0%nat /\ conns s' !! callee = None.
Proof.
  intros Hc Hal Hv Hser Hcl Hcaller Hserial Hab Hcc Hvc Hdead Hstep.
  pose proof Hstep as Hstep0.
  rewrite step_unfold in Hstep. cbn [step_handler] in Hstep. fold (m_init s) in Hstep.
  rewrite (handle_AbortFunctionCall _ c cs) in Hstep by exact Hc.
  destruct (N.ltb_spec (cs_ver cs) MIN_ABORT_FUNCTION_CALL) as [Hlt|_];
    [exfalso; change MIN_ABORT_FUNCTION_CALL with 16 in Hlt; lia|].
  rewrite Hser in Hstep.
  destruct (fuel_for_S ((m_init s <| mw; w_abort ::= cons (b, callee) |>))) as (n & Hn). rewrite Hn in Hstep.
  set (m1 := push_remove {| ms := s <| calls ::= <[b := cl <| c_aborted := true |>]> |>
                                   <| conns ::= <[c := cs <| cs_calls ::= delete serial |>]> |>;
                            mw := work0; mo := [(c, CallFunctionReply serial CRAborted, None)] |} callee false).
  assert (H1 : settle_one (m_init s <| mw; w_abort ::= cons (b, callee) |>) = Some (Done m1)).
  { unfold settle_one. cbn [mw m_init set work0 w_remove_conns w_unsub_ev w_unsub_all
      w_svc_destroyed w_rm_call w_create_obj w_create_svc w_destroy_svc w_destroy_obj w_abort]. cbn.
    unfold abort_call. cbn. rewrite Hcl, Hab. cbn. rewrite Hcc. change MIN_ABORT_FUNCTION_CALL_OUT with 16.
    destruct (N.leb_spec 16 (cs_ver ccs)) as [_|Hlt]; [|lia].
    erewrite send_or_remove_dead; [|cbn; exact Hcc|exact Hdead]. unfold push_remove. cbn.
    rewrite Hcaller, Hserial, Hc, Hser.
    erewrite send_or_remove_alive; [|cbn; apply lookup_insert|exact Hal]. reflexivity. }
  rewrite Wp.settle_unfold, H1 in Hstep.
  destruct (settle n m1) as [m'|m'|] eqn:Hst; try discriminate; [|exfalso; exact (settle_never_fails _ _ _ Hst)].
  injection Hstep as <- <-.
  pose proof (settle_ext n m1) as Hext. rewrite Hst in Hext. destruct Hext as (l & Hl & _).
  assert (Hhead : head (mo m') = Some (c, CallFunctionReply serial CRAborted, None)) by (rewrite Hl; reflexivity).
  assert (Hn1 : nrep c serial (mo m') = 1%nat).
  { pose proof (at_most_once _ _ _ _ _ _ c serial Hstep0) as Hle. rewrite Hl, nrep_app in Hle |- *.
    assert (nrep c serial (mo m1) = 1%nat) as E1.
    { unfold m1, push_remove, nrep, is_rep. cbn. rewrite !bool_decide_eq_true_2 by reflexivity. reflexivity. }
    rewrite E1 in Hle |- *. lia. }
  split; [exact Hhead|]. split; [exact Hn1|]. split.
  - pose proof (reply_accounting _ _ _ _ _ _ c serial Hstep0 (fun x => x)) as Hacc.
    assert (pend c serial s = 1%nat) as E1.
    { unfold pend. rewrite Hc, bool_decide_eq_true_2; [reflexivity|]. rewrite Hser. eauto. }
    lia.
  - pose proof (settle_qg callee n m1 (or_introl (ex_intro _ false (elem_of_list_here _ _)))) as Hp. rewrite Hst in Hp.
    apply settle_done_idle, settle_one_None_queue in Hst. destruct Hp as [[sd0 Hp]|Hp]; [|exact Hp].
    rewrite Hst in Hp. apply elem_of_nil in Hp. contradiction.
Qed.

(* ================================================================ (6) who can be answered Aborted *)
(* an output that is not an Aborted (or any result other than InvalidService) reply to (c0, s0) *)
Definition Knab (c0 : conn) (s0 : N) (o : out) : Prop :=
  match o.1.2 with
  | CallFunctionReply s r => o.1.1 = c0 -> s = s0 -> r = CRInvalidService
  | _ => True
  end.
Definition inv_only (q : list (N * conn * call_result)) : Prop := Forall (fun e => e.2 = CRInvalidService) q.

(* the predicate carried through the work loop.  [E], [c]: while shutdown_connection removes [c],
   the broker serials of c's pending calls (they are queued in w_abort at the very end) *)
Record NAg (c0 : conn) (s0 : N) (E : list (N * conn)) (c : conn) (m : M) : Prop := {
  na_q : inv_only (w_rm_call (mw m));
  na_o : Forall (Knab c0 s0) (mo m);
  na_w : forall b callee cl, (b, callee) ∈ w_abort (mw m) -> calls (ms m) !! b = Some cl -> c_aborted cl = false ->
           is_Some (conns (ms m) !! c0) -> ~ (c_caller cl = c0 /\ c_serial cl = s0);
  na_e : forall b callee cl, (b, callee) ∈ E -> calls (ms m) !! b = Some cl -> c_aborted cl = false -> c_caller cl = c;
  na_g : E = [] \/ conns (ms m) !! c = None }.

Lemma NAg_mono c0 s0 E c m m' :
  mo m' = mo m -> w_rm_call (mw m') = w_rm_call (mw m) -> w_abort (mw m') = w_abort (mw m) ->
  (forall b cl', calls (ms m') !! b = Some cl' -> c_aborted cl' = false ->
     exists cl, calls (ms m) !! b = Some cl /\ c_caller cl' = c_caller cl /\ c_serial cl' = c_serial cl /\ c_aborted cl = false) ->
  (forall x, is_Some (conns (ms m') !! x) -> is_Some (conns (ms m) !! x)) ->
  NAg c0 s0 E c m -> NAg c0 s0 E c m'.
Proof.
  intros Ho Hq Hw Hk Hc [H1 H2 H3 H4 H5]. constructor.
  - rewrite Hq. exact H1.
  - rewrite Ho. exact H2.
  - intros b callee cl' Hin Hb Hab Hcon. rewrite Hw in Hin. destruct (Hk b cl' Hb Hab) as (cl & Hcl & -> & -> & Hab0).
    exact (H3 b callee cl Hin Hcl Hab0 (Hc _ Hcon)).
  - intros b callee cl' Hin Hb Hab. destruct (Hk b cl' Hb Hab) as (cl & Hcl & -> & _ & Hab0). exact (H4 b callee cl Hin Hcl Hab0).
  - destruct H5 as [H5|H5]; [by left|right]. destruct (conns (ms m') !! c) eqn:E1; [|reflexivity].
    destruct (Hc c ltac:(eauto)) as [? Hx]. congruence.
Qed.

Lemma NAg_same c0 s0 E c m m' :
  mo m' = mo m -> w_rm_call (mw m') = w_rm_call (mw m) -> w_abort (mw m') = w_abort (mw m) ->
  calls (ms m') = calls (ms m) -> conns (ms m') = conns (ms m) -> NAg c0 s0 E c m -> NAg c0 s0 E c m'.
Proof.
  intros Ho Hq Hw Hk Hc. apply NAg_mono; try assumption.
  - intros b cl'. rewrite Hk. eauto 10.
  - intros x. rewrite Hc. auto.
Qed.

Lemma NAg_call_del c0 s0 E c m b m' :
  mo m' = mo m -> w_rm_call (mw m') = w_rm_call (mw m) -> w_abort (mw m') = w_abort (mw m) ->
  calls (ms m') = delete b (calls (ms m)) -> conns (ms m') = conns (ms m) -> NAg c0 s0 E c m -> NAg c0 s0 E c m'.
Proof.
  intros Ho Hq Hw Hk Hc. apply NAg_mono; try assumption.
  - intros b1 cl'. rewrite Hk. intros Hb. apply lookup_delete_Some in Hb as [_ Hb]. eauto 10.
  - intros x. rewrite Hc. auto.
Qed.

Lemma NAg_call_abort c0 s0 E c m b cl m' :
  calls (ms m) !! b = Some cl ->
  mo m' = mo m -> w_rm_call (mw m') = w_rm_call (mw m) -> w_abort (mw m') = w_abort (mw m) ->
  calls (ms m') = <[b := cl <| c_aborted := true |>]> (calls (ms m)) -> conns (ms m') = conns (ms m) ->
  NAg c0 s0 E c m -> NAg c0 s0 E c m'.
Proof.
  intros Hb Ho Hq Hw Hk Hc. apply NAg_mono; try assumption.
  - intros b1 cl'. rewrite Hk. intros Hb1 Hab. apply lookup_insert_Some in Hb1 as [[_ <-]|[_ Hb1]]; [discriminate|eauto 10].
  - intros x. rewrite Hc. auto.
Qed.

Lemma NAg_conn_upd c0 s0 E c m c1 cs1 cs1' m' :
  conns (ms m) !! c1 = Some cs1 ->
  mo m' = mo m -> w_rm_call (mw m') = w_rm_call (mw m) -> w_abort (mw m') = w_abort (mw m) ->
  calls (ms m') = calls (ms m) -> conns (ms m') = <[c1 := cs1']> (conns (ms m)) ->
  NAg c0 s0 E c m -> NAg c0 s0 E c m'.
Proof.
  intros H1 Ho Hq Hw Hk Hc. apply NAg_mono; try assumption.
  - intros b cl'. rewrite Hk. eauto 10.
  - intros x. rewrite Hc. destruct (decide (x = c1)) as [->|Hne]; [eauto|by rewrite lookup_insert_ne].
Qed.

Lemma NAg_conn_del c0 s0 E c m c1 m' :
  mo m' = mo m -> w_rm_call (mw m') = w_rm_call (mw m) -> w_abort (mw m') = w_abort (mw m) ->
  calls (ms m') = calls (ms m) -> conns (ms m') = delete c1 (conns (ms m)) ->
  NAg c0 s0 E c m -> NAg c0 s0 E c m'.
Proof.
  intros Ho Hq Hw Hk Hc. apply NAg_mono; try assumption.
  - intros b cl'. rewrite Hk. eauto 10.
  - intros x. rewrite Hc. intros [y Hy]. apply lookup_delete_Some in Hy as [_ Hy]. eauto.
Qed.

Lemma NAg_snoc c0 s0 E c m o m' :
  mo m' = mo m ++ [o] -> Knab c0 s0 o -> ms m' = ms m -> mw m' = mw m -> NAg c0 s0 E c m -> NAg c0 s0 E c m'.
Proof.
  intros Ho Hk Hs Hw [H1 H2 H3 H4 H5]. constructor; rewrite ?Hs, ?Hw; try assumption.
  rewrite Ho. apply Forall_app. split; [exact H2|]. constructor; [exact Hk|constructor].
Qed.

Lemma NAg_push_rm c0 s0 E c m e m' :
  w_rm_call (mw m') = e :: w_rm_call (mw m) -> e.2 = CRInvalidService ->
  mo m' = mo m -> ms m' = ms m -> w_abort (mw m') = w_abort (mw m) -> NAg c0 s0 E c m -> NAg c0 s0 E c m'.
Proof.
  intros Hq He Ho Hs Hw [H1 H2 H3 H4 H5]. constructor; rewrite ?Hs, ?Hw, ?Ho; try assumption.
  rewrite Hq. constructor; assumption.
Qed.

Ltac knab := cbn; first [ exact I | intros; reflexivity ].

Ltac leaf_na :=
  idtac;
  first
    [ match goal with H : NAg ?a ?b ?E ?c ?m |- NAg ?a ?b ?E ?c _ => exact H end
    | match goal with |- NAg _ _ _ _ (push_remove ?x _ _) =>
        apply (NAg_same _ _ _ _ x); [reflexivity|reflexivity|reflexivity|reflexivity|reflexivity|] end
    | match goal with |- NAg _ _ _ _ (set mo _ ?x) =>
        eapply (NAg_snoc _ _ _ _ x); [reflexivity|knab|reflexivity|reflexivity|] end
    | match goal with |- NAg _ _ _ _ (set mw (set w_rm_call (cons ?e)) ?x) =>
        apply (NAg_push_rm _ _ _ _ x e); [reflexivity|reflexivity|reflexivity|reflexivity|reflexivity|] end
    | match goal with |- NAg _ _ _ _ (set _ _ ?x) =>
        apply (NAg_same _ _ _ _ x); [reflexivity|reflexivity|reflexivity|reflexivity|reflexivity|] end
    | match goal with |- NAg _ _ _ _ (set _ _ ?x) =>
        eapply (NAg_call_del _ _ _ _ x); [reflexivity|reflexivity|reflexivity|reflexivity|reflexivity|] end
    | match goal with |- NAg _ _ _ _ (set _ _ ?x) =>
        eapply (NAg_call_abort _ _ _ _ x); [eassumption|reflexivity|reflexivity|reflexivity|reflexivity|reflexivity|] end
    | match goal with |- NAg _ _ _ _ (set _ _ ?x) =>
        eapply (NAg_conn_upd _ _ _ _ x); [eassumption|reflexivity|reflexivity|reflexivity|reflexivity|reflexivity|] end
    | match goal with |- NAg _ _ _ _ (set _ _ ?x) =>
        eapply (NAg_conn_del _ _ _ _ x); [reflexivity|reflexivity|reflexivity|reflexivity|reflexivity|] end ].

Section NATraversal.
  Context (c0 : conn) (s0 : N) (E : list (N * conn)) (c : conn).
  Local Notation P := (NAg c0 s0 E c).

  Lemma remove_listener_na m k : P m -> P (remove_listener m k).
  Proof. intros H. unfold remove_listener. destruct (listeners (ms m) !! k); [|exact H]. repeat leaf_na. Qed.
  Lemma remove_end_na m k e : P m -> oprop P (remove_end m k e).
  Proof. intros H. unfold remove_end. repeat prop_step leaf_na. Qed.
  Lemma remove_service_na m k : P m -> oprop P (remove_service m k).
  Proof. intros H. unfold remove_service. repeat prop_step leaf_na. Qed.
  Lemma remove_object_na m k : P m -> oprop P (remove_object m k).
  Proof.
    intros H. unfold remove_object.
    repeat first [ match goal with |- oprop _ (remove_service _ _) => apply remove_service_na end
                 | prop_step leaf_na ]; assumption.
  Qed.
  Lemma bus_na m ev : P m -> oprop P (bus m ev).
  Proof. intros H. unfold bus. repeat prop_step leaf_na. Qed.
End NATraversal.

(* abort_call for an entry (b, callee) popped from w_abort: the Aborted reply goes to the call's
   caller, which by [na_w] is not (c0, s0) *)
Lemma abort_call_na c0 s0 E c m b callee :
  (forall cl, calls (ms m) !! b = Some cl -> c_aborted cl = false -> is_Some (conns (ms m) !! c0) ->
     ~ (c_caller cl = c0 /\ c_serial cl = s0)) ->
  NAg c0 s0 E c m -> oprop (NAg c0 s0 E c) (abort_call m b callee).
Proof.
  intros Hb H. unfold abort_call. destruct (calls (ms m) !! b) as [cl|] eqn:Ecl; [|exact H].
  destruct (c_aborted cl) eqn:Eab; [exact H|]. cbv zeta.
  specialize (Hb cl eq_refl Eab).
  set (P2 := fun m2 : M => NAg c0 s0 E c m2 /\ forall x, is_Some (conns (ms m2) !! x) -> is_Some (conns (ms m) !! x)).
  set (m1 := m <| ms; calls ::= <[b := cl <| c_aborted := true |>]> |>).
  assert (H1 : P2 m1).
  { split; [|intros x Hx; exact Hx]. subst m1.
    eapply (NAg_call_abort _ _ _ _ m); [exact Ecl|reflexivity..|exact H]. }
  clearbody m1.
  assert (Hstep1 : oprop P2 (match conns (ms m1) !! callee with
                             | Some cc => if MIN_ABORT_FUNCTION_CALL_OUT <=? cs_ver cc
                                          then send_or_remove m1 callee (AbortFunctionCall b) None else Done m1
                             | None => Done m1 end)).
  { destruct (conns (ms m1) !! callee) as [cc|]; [|exact H1]. destruct (_ <=? _); [|exact H1].
    destruct H1 as [H1 H1c]. apply oprop_send_or_remove; (split; [|exact H1c]).
    - eapply (NAg_snoc _ _ _ _ m1); [reflexivity|exact I|reflexivity|reflexivity|exact H1].
    - apply (NAg_same _ _ _ _ m1); [reflexivity..|exact H1]. }
  eapply oprop_impl; [|apply (oprop_bind P2); [exact Hstep1|]]; [intros m' [Hm' _]; exact Hm'|].
  intros m2 [H2 H2c]. destruct (conns (ms m2) !! c_caller cl) as [cs|] eqn:Ecs; [|split; assumption].
  destruct (cs_calls cs !! c_serial cl); [|exact I].
  apply oprop_send_or_remove; (split; [|intros x Hx; apply H2c; revert Hx; unfold push_remove; cbn;
     (destruct (decide (x = c_caller cl)) as [->|Hne]; [eauto|by rewrite lookup_insert_ne])]).
  - eapply (NAg_snoc _ _ _ _ (m2 <| ms; conns ::= <[c_caller cl := cs <| cs_calls ::= delete (c_serial cl) |>]> |>));
      [reflexivity| |reflexivity|reflexivity|].
    + cbn. intros <- <-. exfalso. apply Hb; [|split; reflexivity]. apply H2c. eauto.
    + eapply (NAg_conn_upd _ _ _ _ m2); [exact Ecs|reflexivity..|exact H2].
  - apply (NAg_same _ _ _ _ (m2 <| ms; conns ::= <[c_caller cl := cs <| cs_calls ::= delete (c_serial cl) |>]> |>));
      [reflexivity..|]. eapply (NAg_conn_upd _ _ _ _ m2); [exact Ecs|reflexivity..|exact H2].
Qed.

(* shutdown_connection: c's pending calls are queued in w_abort after c's entry is deleted *)

Lemma sc_aborts_spec cs m :
  ms (sc_aborts cs m) = ms m /\ mo (sc_aborts cs m) = mo m /\
  w_rm_call (mw (sc_aborts cs m)) = w_rm_call (mw m) /\
  w_abort (mw (sc_aborts cs m)) = ((fun p : N * (N * conn) => p.2) <$> map_to_list (cs_calls cs)) ++ w_abort (mw m).
Proof.
  unfold sc_aborts. induction (map_to_list (cs_calls cs)) as [|p l IH]; cbn; [auto|].
  destruct IH as (I1 & I2 & I3 & I4). rewrite I1, I2, I3, I4. auto.
Qed.

Lemma NAg_weaken c0 s0 E c cx m : NAg c0 s0 E c m -> NAg c0 s0 [] cx m.
Proof.
  intros [Q1 Q2 Q3 Q4 Q5]. constructor; try assumption; [|by left].
  intros b callee cl Hin. by apply elem_of_nil in Hin.
Qed.

Lemma NAg_finish c0 s0 c cx cs m8 :
  NAg c0 s0 ((fun p : N * (N * conn) => p.2) <$> map_to_list (cs_calls cs)) c m8 ->
  NAg c0 s0 [] cx (sc_aborts cs m8 <| ms; st; n_conns ::= sat_sub1 |>).
Proof.
  intros [Q1 Q2 Q3 Q4 Q5]. destruct (sc_aborts_spec cs m8) as (S1 & S2 & S3 & S4).
  constructor; cbn [ms mw mo set]; cbn; rewrite ?S1, ?S2, ?S3, ?S4.
  - exact Q1.
  - exact Q2.
  - intros b callee cl Hin Hb Hab Hcon. apply elem_of_app in Hin as [Hin|Hin]; [|eauto].
    intros [Hcaller _]. rewrite (Q4 b callee cl Hin Hb Hab) in Hcaller. subst c0.
    destruct Q5 as [Q5|Q5]; [rewrite Q5 in Hin; by apply elem_of_nil in Hin|].
    destruct Hcon as [? Hcon]. congruence.
  - intros b callee cl Hin. by apply elem_of_nil in Hin.
  - by left.
Qed.

Lemma shutdown_conn_na c0 s0 cx m c sd :
  MI m -> NAg c0 s0 [] cx m -> oprop (NAg c0 s0 [] cx) (shutdown_conn m c sd).
Proof.
  intros HI H. rewrite shutdown_conn_eq. destruct (conns (ms m) !! c) as [cs|] eqn:Ec; [|exact H]. cbv zeta.
  set (E := (fun p : N * (N * conn) => p.2) <$> map_to_list (cs_calls cs)).
  (* after the entry is deleted: the stronger predicate with E, c *)
  match goal with |- oprop _ (foldO _ _ (foldl _ ?a _) >>> _) => assert (NAg c0 s0 E c a) as H1 end.
  { assert (NAg c0 s0 E c (m <| ms; conns ::= delete c |>)) as H0.
    { assert (NAg c0 s0 [] cx (m <| ms; conns ::= delete c |>)) as Hd
        by (eapply (NAg_conn_del _ _ _ _ m c); [reflexivity..|exact H]).
      destruct Hd as [H1 H2 H3 _ _].
      constructor; try assumption.
      - intros b callee cl Hin Hb Hab. cbn in Hb. unfold E in Hin. apply elem_of_list_fmap in Hin as ([serial p] & Hp & Hin).
        cbn in Hp. subst p. apply elem_of_map_to_list in Hin.
        destruct (iv_ec _ _ _ _ _ HI c cs serial b callee Ec Hin) as [(cl0 & Hcl0 & Hcaller & _)|[Hnone _]]; [|congruence].
        rewrite Hb in Hcl0. injection Hcl0 as <-. exact Hcaller.
      - right. cbn. apply lookup_delete. }
    destruct (sd && cs_alive cs); [|exact H0].
    eapply (NAg_snoc _ _ _ _ (m <| ms; conns ::= delete c |>)); [reflexivity|exact I|reflexivity|reflexivity|exact H0]. }
  match goal with |- oprop _ (foldO _ _ (foldl _ ?a _) >>> _) => generalize dependent a; intros m1 H1 end.
  assert (forall m' x, NAg c0 s0 E c m' -> oprop (NAg c0 s0 E c) (sc_ev c m' x)) as Hev.
  { intros m' x Hm'. unfold sc_ev. destruct (svcs (ms m') !! x); [|exact Hm'].
    destruct (owner_of_svc (ms m') x); [|exact I]. cbn [oprop].
    apply (prop_foldl (NAg c0 s0 E c)); [|exact Hm']. intros m2 e H2. unfold sc_ev_inner.
    destruct (svcs (ms m2) !! x); [|exact H2]. cbv zeta. destruct (bool_decide _); repeat leaf_na. }
  assert (forall m' x, NAg c0 s0 E c m' -> oprop (NAg c0 s0 E c) (sc_all c m' x)) as Hall.
  { intros m' x Hm'. unfold sc_all. destruct (svcs (ms m') !! x); [|exact Hm'].
    destruct (owner_of_svc (ms m') x); [|exact I]. destruct (bool_decide (c ∈ _)); [|exact Hm'].
    cbn [oprop]. cbv zeta. destruct (bool_decide _); repeat leaf_na. }
  assert (forall e m' x, NAg c0 s0 E c m' -> oprop (NAg c0 s0 E c) (sc_end c e m' x)) as Hend.
  { intros e m' x Hm'. unfold sc_end. destruct (chans (ms m') !! x); [|exact Hm'].
    destruct (match e with ESender => _ | EReceiver => _ end); try exact Hm'.
    destruct (bool_decide _); [apply remove_end_na|]; exact Hm'. }
  match goal with |- oprop _ (foldO _ _ ?a >>> _) => assert (NAg c0 s0 E c a) as H2 end.
  { apply (prop_foldl (NAg c0 s0 E c)); [|exact H1]. intros m' x Hm'. apply remove_listener_na, Hm'. }
  match goal with |- oprop _ (foldO _ _ ?a >>> _) => generalize dependent a; intros m2 H2 end.
  assert (forall (x : outcome M) (k : M -> outcome M), oprop (NAg c0 s0 E c) x ->
            (forall m', NAg c0 s0 E c m' -> oprop (NAg c0 s0 [] cx) (k m')) -> oprop (NAg c0 s0 [] cx) (x >>> k)) as Hbind.
  { intros x k Hx Hk. destruct x as [a|a|site]; cbn [andThen oprop] in *; [apply Hk, Hx|exact (NAg_weaken _ _ _ _ _ _ Hx)|exact I]. }
  apply Hbind; [apply oprop_foldO; [intros; apply remove_object_na; assumption|exact H2]|]. intros m3 H3.
  apply Hbind; [apply oprop_foldO; [intros; apply Hev; assumption|exact H3]|]. intros m4 H4.
  apply Hbind; [apply oprop_foldO; [intros; apply Hall; assumption|exact H4]|]. intros m5 H5.
  match goal with |- oprop _ (foldO _ ?l ?a >>> _) => assert (NAg c0 s0 E c a) as H6 by repeat leaf_na end.
  match goal with |- oprop _ (foldO _ ?l ?a >>> _) => set (l0 := l) in *; set (m6 := a) in * end.
  clearbody l0. clearbody m6.
  apply Hbind; [apply oprop_foldO; [intros; apply Hend; assumption|exact H6]|]. intros m7 H7.
  apply Hbind; [apply oprop_foldO; [intros; apply Hend; assumption|exact H7]|]. intros m8 H8.
  cbn [oprop]. exact (NAg_finish c0 s0 c cx cs m8 H8).
Qed.

(* one work item *)
Lemma settle_one_na c0 s0 cx m r :
  MI m -> NAg c0 s0 [] cx m -> settle_one m = Some r -> oprop (NAg c0 s0 [] cx) r.
Proof.
  intros HI H. unfold settle_one.
  destruct (w_remove_conns (mw m)) as [|[c sd] q0] eqn:E0.
  2: { intros [= <-]. apply shutdown_conn_na.
       - eapply MI_quiet; [|exact HI]. done.
       - apply (NAg_same _ _ _ _ m); [reflexivity..|exact H]. }
  destruct (w_unsub_ev (mw m)) as [|[[c sc] e] q1] eqn:E1.
  2: { intros [= <-]. repeat prop_step leaf_na; exact H. }
  destruct (w_unsub_all (mw m)) as [|[c sc] q2] eqn:E2.
  2: { intros [= <-]. repeat prop_step leaf_na; exact H. }
  destruct (w_svc_destroyed (mw m)) as [|[c sc] q3] eqn:E3.
  2: { intros [= <-]. repeat prop_step leaf_na; exact H. }
  destruct (w_rm_call (mw m)) as [|[[serial c] res] q4] eqn:E4.
  2: { intros [= <-].
       assert (Hres : res = CRInvalidService /\ NAg c0 s0 [] cx (m <| mw; w_rm_call := q4 |>)).
       { destruct H as [H1 H2 H3 H4 H5]. unfold inv_only in H1. rewrite E4 in H1. apply Forall_cons in H1 as [Hr H1].
         split; [exact Hr|]. constructor; assumption. }
       destruct Hres as [-> H']. repeat prop_step leaf_na; exact H'. }
  destruct (w_create_obj (mw m)) as [|[u ck] q5] eqn:E5.
  2: { intros [= <-]. apply bus_na. apply (NAg_same _ _ _ _ m); [reflexivity..|exact H]. }
  destruct (w_create_svc (mw m)) as [|[[[ou oc] su] sc] q6] eqn:E6.
  2: { intros [= <-]. apply bus_na. apply (NAg_same _ _ _ _ m); [reflexivity..|exact H]. }
  destruct (w_destroy_svc (mw m)) as [|[[[ou oc] su] sc] q7] eqn:E7.
  2: { intros [= <-]. apply bus_na. apply (NAg_same _ _ _ _ m); [reflexivity..|exact H]. }
  destruct (w_destroy_obj (mw m)) as [|[u ck] q8] eqn:E8.
  2: { intros [= <-]. apply bus_na. apply (NAg_same _ _ _ _ m); [reflexivity..|exact H]. }
  destruct (w_abort (mw m)) as [|[b callee] q9] eqn:E9; [discriminate|].
  intros [= <-]. destruct H as [H1 H2 H3 H4 H5]. apply abort_call_na.
  - intros cl Hb Hab Hcon. apply (H3 b callee cl); [rewrite E9; left|exact Hb|exact Hab|exact Hcon].
  - constructor; try assumption. intros b1 callee1 cl1 Hin. apply (H3 b1 callee1 cl1). rewrite E9. right. exact Hin.
Qed.

Lemma settle_na c0 s0 cx fuel : forall m,
  MI m -> NAg c0 s0 [] cx m -> oprop (NAg c0 s0 [] cx) (settle fuel m).
Proof.
  induction fuel as [|fuel IH]; intros m HI H; rewrite Wp.settle_unfold;
    pose proof (settle_one_spec m HI) as Hsp;
    destruct (settle_one m) as [r|] eqn:E; try exact H;
    pose proof (settle_one_na c0 s0 cx m r HI H E) as Hr;
    destruct Hsp as (m' & -> & HI' & _); cbn in Hr |- *; trivial; apply IH; assumption.
Qed.

(* ---------------------------------------------------------------- the handlers *)
(* every handler except CallFunctionReply (which forwards the owner's result) and AbortFunctionCall
   (which queues an abort): replies it makes up carry InvalidService, and w_abort stays empty *)
Definition HN (c0 : conn) (s0 : N) (m : M) : Prop :=
  inv_only (w_rm_call (mw m)) /\ Forall (Knab c0 s0) (mo m) /\ w_abort (mw m) = [].

Lemma HN_snoc c0 s0 m o m' :
  mo m' = mo m ++ [o] -> Knab c0 s0 o -> mw m' = mw m -> HN c0 s0 m -> HN c0 s0 m'.
Proof.
  unfold HN. intros Hm Ho Hw (H1 & H2 & H3). rewrite Hm, Hw. split; [exact H1|]. split; [|exact H3].
  apply Forall_app. split; [exact H2|]. constructor; [exact Ho|constructor].
Qed.
Lemma HN_push c0 s0 m e m' :
  e.2 = CRInvalidService -> mo m' = mo m -> w_rm_call (mw m') = e :: w_rm_call (mw m) ->
  w_abort (mw m') = w_abort (mw m) -> HN c0 s0 m -> HN c0 s0 m'.
Proof.
  unfold HN, inv_only. intros He Hm Hw Ha (H1 & H2 & H3). rewrite Hm, Hw, Ha.
  split; [constructor; assumption|]. split; assumption.
Qed.
Lemma HN_same c0 s0 m m' :
  mo m' = mo m -> w_rm_call (mw m') = w_rm_call (mw m) -> w_abort (mw m') = w_abort (mw m) ->
  HN c0 s0 m -> HN c0 s0 m'.
Proof. unfold HN. intros -> -> ->. exact id. Qed.

Ltac leaf_hn :=
  idtac;
  first
    [ match goal with H : HN ?a ?b ?m |- HN ?a ?b _ => exact H end
    | match goal with |- HN _ _ (push_remove ?x _ _) => apply (HN_same _ _ x); [reflexivity|reflexivity|reflexivity|] end
    | match goal with |- HN _ _ (set mo _ ?x) => eapply (HN_snoc _ _ x); [reflexivity|knab|reflexivity|] end
    | match goal with |- HN _ _ (set mw (set w_rm_call (cons ?e)) ?x) =>
        apply (HN_push _ _ x e); [reflexivity|reflexivity|reflexivity|reflexivity|] end
    | match goal with |- HN _ _ (set _ _ ?x) => apply (HN_same _ _ x); [reflexivity|reflexivity|reflexivity|] end ].

Section HNTraversal.
  Context (c0 : conn) (s0 : N).
  Local Notation P := (HN c0 s0).
  Lemma remove_listener_hn m k : P m -> P (remove_listener m k).
  Proof. intros H. unfold remove_listener. destruct (listeners (ms m) !! k); [|exact H]. repeat leaf_hn. Qed.
  Lemma remove_end_hn m k e : P m -> oprop P (remove_end m k e).
  Proof. intros H. unfold remove_end. repeat prop_step leaf_hn. Qed.
  Lemma remove_service_hn m k : P m -> oprop P (remove_service m k).
  Proof. intros H. unfold remove_service. repeat prop_step leaf_hn. Qed.
  Lemma remove_object_hn m k : P m -> oprop P (remove_object m k).
  Proof.
    intros H. unfold remove_object.
    repeat first [ match goal with |- oprop _ (remove_service _ _) => apply remove_service_hn end
                 | prop_step leaf_hn ]; assumption.
  Qed.
End HNTraversal.

Ltac hn_step :=
  first
    [ match goal with
      | |- oprop _ (remove_object _ _) => apply remove_object_hn
      | |- oprop _ (remove_service _ _) => apply remove_service_hn
      | |- oprop _ (remove_end _ _ _) => apply remove_end_hn
      | |- HN _ _ (remove_listener _ _) => apply remove_listener_hn
      end
    | prop_step leaf_hn ].

Lemma handle_hn c0 s0 m c x f b :
  (match x with CallFunctionReply _ _ | AbortFunctionCall _ => False | _ => True end) ->
  HN c0 s0 m -> oprop (HN c0 s0) (handle m c x f b).
Proof.
  intros Hx H. unfold handle. destruct (conns (ms m) !! c) as [cs|] eqn:Hc; [|exact H].
  destruct x; try contradiction; clear Hx;
    unfold gate, ver_of, create_service_impl, call_impl; cbv zeta beta; try (rewrite Hc; cbn [fmap option_fmap option_map]);
    try (solve [repeat hn_step; try assumption]).
  match goal with |- context [chans (ms m) !! ?k] => destruct (chans (ms m) !! k) as [ch|] end;
    [|repeat hn_step; assumption].
  match goal with |- context [chan_claim ch c ?e] => destruct (chan_claim ch c e) as [r|ch' other r|site] end;
    [repeat hn_step; assumption| |exact I].
  match goal with |- context [send ?mm c ?x None] => destruct (send mm c x None) as [m2|m2|] eqn:Es end; [| |exact I].
  - apply send_Done in Es as [-> _]. repeat hn_step; assumption.
  - apply send_Fail in Es as [-> _]. apply oprop_refail. repeat hn_step; assumption.
Qed.

Lemma HN_NAg c0 s0 cx m : HN c0 s0 m -> NAg c0 s0 [] cx m.
Proof.
  intros (H1 & H2 & H3). constructor; try assumption.
  - intros b callee cl Hin. rewrite H3 in Hin. by apply elem_of_nil in Hin.
  - intros b callee cl Hin. by apply elem_of_nil in Hin.
  - by left.
Qed.

Lemma HN_init c0 s0 s : HN c0 s0 {| ms := s; mw := work0; mo := [] |}.
Proof. split; [constructor|]. split; [constructor|reflexivity]. Qed.

(* after the handler of any event other than a CallFunctionReply message and c0's own
   AbortFunctionCall s0 *)
Lemma handler_na s e f bs c0 s0 m :
  Inv s -> handler_of s e f bs = Done m ->
  (match e with Message _ (CallFunctionReply _ _) => False | _ => True end) ->
  e <> Message c0 (AbortFunctionCall s0) ->
  NAg c0 s0 [] c0 m.
Proof.
  intros HI Hm He Hne. set (m0 := {| ms := s; mw := work0; mo := [] |}).
  pose proof (HN_init c0 s0 s) as H0. fold m0 in H0.
  unfold handler_of in Hm. fold m0 in Hm. destruct e as [c ver|c|c x| | |c|c].
  - destruct (conns s !! c); [discriminate|]. injection Hm as <-. apply HN_NAg. repeat leaf_hn.
  - injection Hm as <-. apply HN_NAg. repeat leaf_hn.
  - assert (Hcase : (exists serial, x = AbortFunctionCall serial) \/
                    (match x with CallFunctionReply _ _ | AbortFunctionCall _ => False | _ => True end)).
    { destruct x; try (right; exact I); try contradiction. left. eauto. }
    destruct Hcase as [[serial ->]|Hx].
    + destruct (conns s !! c) as [cs|] eqn:Hc.
      * rewrite (handle_AbortFunctionCall m0 c cs serial f bs Hc) in Hm.
        destruct (cs_ver cs <? MIN_ABORT_FUNCTION_CALL).
        { injection Hm as <-. apply HN_NAg. repeat leaf_hn. }
        destruct (cs_calls cs !! serial) as [[b callee]|] eqn:Hp; injection Hm as <-; [|apply HN_NAg; exact H0].
        destruct (HN_NAg c0 s0 c0 m0 H0) as [Q1 Q2 Q3 Q4 Q5]. constructor; try assumption.
        intros b1 callee1 cl Hin Hb Hab _ [Hc1 Hs1]. cbn in Hin. apply elem_of_list_singleton in Hin. injection Hin as -> ->.
        destruct (iv_ec _ _ _ _ _ HI c cs serial b callee Hc Hp) as [(cl0 & Hcl0 & Hcaller & Hserial & _)|[Hnone _]];
          [|cbn in Hb; congruence].
        cbn in Hb. rewrite Hb in Hcl0. injection Hcl0 as <-. apply Hne. congruence.
      * unfold handle in Hm. cbn [ms m0] in Hm. rewrite Hc in Hm. injection Hm as <-. apply HN_NAg. exact H0.
    + pose proof (handle_hn c0 s0 m0 c x f bs Hx H0) as Hh.
      destruct (handle m0 c x f bs) as [m1|m1|]; [| |discriminate]; injection Hm as <-; apply HN_NAg; [exact Hh|].
      cbn in Hh. repeat leaf_hn.
  - injection Hm as <-. apply HN_NAg.
    apply (HN_same _ _ (foldr (fun (p : conn * cstate) m => push_remove m p.1 true) m0 (map_to_list (conns s))));
      [reflexivity..|].
    apply (prop_foldr (HN c0 s0)); [|exact H0]. intros m1 a Hm1. repeat leaf_hn.
  - injection Hm as <-. apply HN_NAg. repeat leaf_hn.
  - injection Hm as <-. apply HN_NAg. repeat leaf_hn.
  - injection Hm as <-. apply HN_NAg. destruct (conns s !! c); [|exact H0]. repeat leaf_hn.
Qed.

(* ---------------------------------------------------------------- the step theorems *)
Theorem no_aborted_unless_own_abort s e f bs s' o c0 s0 :
  Inv s -> f ∉ cookies_in_use s -> bserial_ok s bs -> event_ok s e ->
  step s e f bs = Done (s', o) ->
  (match e with Message _ (CallFunctionReply _ _) => False | _ => True end) ->
  e <> Message c0 (AbortFunctionCall s0) ->
  Forall (Knab c0 s0) o.
Proof.
  intros HI Hf Hb He Hstep Hx Hne.
  destruct (handler_good s e f bs HI Hf Hb He) as (m & Hm & HMI).
  pose proof (handler_na s e f bs c0 s0 m HI Hm Hx Hne) as H0.
  rewrite step_step_fuel in Hstep. unfold step_fuel in Hstep. rewrite Hm in Hstep.
  pose proof (settle_na c0 s0 c0 (fuel_for m) m HMI H0) as Hs.
  destruct (settle (fuel_for m) m) as [m'|m'|]; [| |discriminate]; injection Hstep as <- <-; exact (na_o _ _ _ _ _ Hs).
Qed.

Lemma event_is_abort_dec (e : event) (c0 : conn) (s0 : N) :
  {e = Message c0 (AbortFunctionCall s0)} + {e <> Message c0 (AbortFunctionCall s0)}.
Proof.
  destruct e as [| |c x| | | |]; try (right; discriminate).
  destruct x; try (right; discriminate).
  destruct (decide (c = c0)) as [->|Hc]; [|right; congruence].
  destruct (decide (serial = s0)) as [->|Hs]; [left; reflexivity|right; congruence].
Qed.

(* C02, result of a synthesized reply: Aborted is output to (c0, s0) only in the step that handles
   c0's own AbortFunctionCall s0 *)
Theorem aborted_only_by_own_abort s i s' o c0 s0 from :
  reachable s -> legal s i -> step s (i_ev i) (i_fresh i) (i_bserial i) = Done (s', o) ->
  (match i_ev i with Message _ (CallFunctionReply _ _) => False | _ => True end) ->
  (c0, CallFunctionReply s0 CRAborted, from) ∈ o ->
  i_ev i = Message c0 (AbortFunctionCall s0).
Proof.
  intros Hr Hl Hstep Hx Hin. destruct (event_is_abort_dec (i_ev i) c0 s0) as [Heq|Hne]; [exact Heq|]. exfalso.
  destruct (legal_split _ _ Hl) as (L1 & L2 & L3).
  pose proof (no_aborted_unless_own_abort s (i_ev i) (i_fresh i) (i_bserial i) s' o c0 s0
                (reachable_inv s Hr) L1 L2 L3 Hstep Hx Hne) as Hall.
  rewrite Forall_forall in Hall. specialize (Hall _ Hin). cbn in Hall. specialize (Hall eq_refl eq_refl). discriminate.
Qed.

(* exactly one reply, and it is broker-made InvalidService *)
Lemma filter_single c0 s0 o :
  nrep c0 s0 o = 1%nat -> Forall (Knab c0 s0) o ->
  (forall r from, (c0, CallFunctionReply s0 r, from) ∈ o -> from = None) ->
  List.filter (is_rep c0 s0) o = [(c0, CallFunctionReply s0 CRInvalidService, None)].
Proof.
  unfold nrep. intros Hn Hk Hfrom.
  destruct (List.filter (is_rep c0 s0) o) as [|x [|y l]] eqn:E; try discriminate. f_equal.
  assert (x ∈ List.filter (is_rep c0 s0) o) as Hx by (rewrite E; left).
  apply elem_of_list_In, filter_In in Hx as [Hx Hrep]. apply elem_of_list_In in Hx.
  destruct x as [[d y] from]. unfold is_rep in Hrep. cbn in Hrep. apply andb_true_iff in Hrep as [H1 H2].
  apply bool_decide_eq_true in H2. subst d. destruct y; try discriminate. cbn in H1. apply bool_decide_eq_true in H1. subst serial.
  rewrite Forall_forall in Hk. pose proof (Hk _ Hx) as Hr. cbn in Hr. rewrite (Hr eq_refl eq_refl).
  rewrite (Hr eq_refl eq_refl) in Hx. rewrite (Hfrom _ _ Hx). reflexivity.
Qed.

Theorem destroyed_invalid_service s i s' o c0 s0 cs0 b callee cl :
  reachable s -> legal s i -> step s (i_ev i) (i_fresh i) (i_bserial i) = Done (s', o) ->
  ~ is_own_call (i_ev i) c0 s0 ->
  (match i_ev i with Message _ (CallFunctionReply _ _) => False | _ => True end) ->
  i_ev i <> Message c0 (AbortFunctionCall s0) ->
  conns s !! c0 = Some cs0 -> cs_calls cs0 !! s0 = Some (b, callee) -> calls s !! b = Some cl ->
  alive s' c0 = true -> svcs s' !! c_svc cl = None ->
  List.filter (is_rep c0 s0) o = [(c0, CallFunctionReply s0 CRInvalidService, None)].
Proof.
  intros Hr Hl Hstep Hown Hx Hne Hc0 Hp Hcl Hal Hgone. destruct (legal_split _ _ Hl) as (L1 & L2 & L3).
  apply filter_single.
  - eapply destroyed_exactly_once_reach; eassumption.
  - eapply no_aborted_unless_own_abort; try eassumption. by apply reachable_inv.
  - intros r from Hin. exact (proj2 (synthesized_results _ _ _ _ _ _ _ _ _ _ Hstep Hx Hin)).
Qed.

(* ================================================================ (5) a call to a dead callee, answered *)
(* reachable state, legal input: the step removes the callee, with it the called service, and the
   caller — if it is still connected with a working receiver — gets exactly one reply in this very
   step: broker-made InvalidService *)
Theorem call_dead_callee_answered s i c cs x serial sc fn fver v k sv callee ccs s' o :
  reachable s -> legal s i -> i_ev i = Message c x ->
  conns s !! c = Some cs -> is_call cs x serial sc fn fver v ->
  svc_by_cookie s sc = Some (k, sv) -> owner_of_svc s k = Some callee ->
  conns s !! callee = Some ccs -> cs_alive ccs = false -> cs_calls cs !! serial = None ->
  step s (Message c x) (i_fresh i) (i_bserial i) = Done (s', o) ->
  conns s' !! callee = None /\ svcs s' !! k = None /\
  (alive s' c = true ->
     List.filter (is_rep c serial) o = [(c, CallFunctionReply serial CRInvalidService, None)] /\
     pend c serial s' = 0%nat).
Proof.
  intros Hr Hl He Hc Hx Hs Ho Hcc Hdead Hser Hstep.
  pose proof (reachable_inv s Hr) as HI.
  assert (reachable s') as Hr' by (eapply reach_step; [exact Hr|exact Hl|rewrite He; exact Hstep]).
  pose proof (reachable_inv s' Hr') as HI'.
  destruct (pick_serial_legal s i (proj1 (iv_cb _ _ _ _ _ HI)) Hl) as (b & nxt & Hp & _).
  set (cst := call_state s c cs serial k sv b nxt callee).
  pose proof (call_dead_callee_handler s c cs x serial sc fn fver v (i_fresh i) (i_bserial i) k sv callee ccs b nxt
                Hc Hx Hs Ho Hcc Hdead Hp Hser) as Hh. fold cst in Hh.
  set (m := push_remove (OutKinds.m_init cst) callee false) in *.
  destruct (legal_split _ _ Hl) as (L1 & L2 & L3). rewrite He in L3.
  pose proof (handle_good (OutKinds.m_init s) c x (i_fresh i) (i_bserial i) HI eq_refl L1 L2 L3) as Hg.
  rewrite Hh in Hg. cbn [good] in Hg.
  (* the same step, seen as the callee's disconnect from the state with the call stored *)
  pose proof Hstep as Hstep2.
  rewrite (call_dead_callee s c cs x serial sc fn fver v (i_fresh i) (i_bserial i) k sv callee ccs b nxt (i_fresh i) None
             Hc Hx Hs Ho Hcc Hdead Hp Hser) in Hstep2. fold cst in Hstep2.
  pose proof Hstep as Hstep1.
  apply step_Done in Hstep1 as (m1 & m' & Hh' & Hst & Es' & Eo).
  cbn [step_handler] in Hh'. fold (OutKinds.m_init s) in Hh'. rewrite Hh in Hh'. injection Hh' as <-.
  destruct Hst as [Hst|Hst]; [|exfalso; exact (OutKinds.settle_never_fails _ _ _ Hst)].
  assert (Hgone : conns s' !! callee = None).
  { eapply (queued_removed s (Message c x) _ _ s' o m callee false); [exact Hstep| |left].
    cbn [step_handler]. fold (OutKinds.m_init s). rewrite Hh. reflexivity. }
  assert (Hsvc : svcs s' !! k = None).
  { destruct (svcs s' !! k) as [sv'|] eqn:Esv; [|reflexivity]. exfalso.
    destruct (iv_reg _ _ _ _ _ HI' k sv' Esv) as (o' & Ho' & _).
    pose proof (settle_spec (fuel_for m) m Hg) as Hsp. rewrite Hst in Hsp. destruct Hsp as (_ & (Hsub & _) & _).
    rewrite Es' in Ho'. pose proof (lookup_weaken _ _ _ _ Ho' Hsub) as Ho2.
    change (objs s !! k.1 = Some o') in Ho2. unfold owner_of_svc in Ho. rewrite Ho2 in Ho. injection Ho as Ho.
    rewrite <- Es' in Ho'. pose proof (iv_oo _ _ _ _ _ HI' _ _ Ho') as Hin. rewrite Ho in Hin.
    apply elem_of_dom in Hin as [? Hin]. congruence. }
  split; [exact Hgone|]. split; [exact Hsvc|]. intros Hal.
  destruct (call_forwarded_stored s c cs serial k sv b nxt callee) as (Hcall & (csc & Hcsc & Hent & _) & _). fold cst in Hcall, Hcsc.
  assert (Hnown : ~ is_own_call (ConnectionShutdown callee) c serial) by (intros []).
  assert (Hpend0 : pend c serial s' = 0%nat).
  { unfold pend. destruct (conns s' !! c) as [cs'|] eqn:Ec'; [|reflexivity].
    destruct (cs_calls cs' !! serial) as [p|] eqn:Ep'; [exfalso|rewrite bool_decide_eq_false_2; [reflexivity|intros [? ?]; discriminate]].
    pose proof (entry_stable _ _ _ _ _ _ c serial csc (b, callee) cs' p Hstep2 Hnown Hcsc Hent Ec' Ep') as ->.
    destruct (iv_ec _ _ _ _ _ HI' c cs' serial b callee Ec' Ep') as [(cl & Hcl & _)|(_ & r & Hr0)];
      [|by apply elem_of_nil in Hr0].
    pose proof (settle_lift (CS b k) (settle_one_cs b k) (fuel_for m) m) as Hcs. rewrite Hst in Hcs.
    assert (CS b k m) as Hcs0. { intros cl1 H1. change (calls cst !! b = Some cl1) in H1. rewrite Hcall in H1. by injection H1 as <-. }
    specialize (Hcs Hcs0). cbn in Hcs.
    assert (calls (ms m') !! b = Some cl) as Hcl2 by (rewrite <- Es'; exact Hcl). pose proof (Hcs cl Hcl2) as Hk.
    destruct (iv_cs _ _ _ _ _ HI' b cl Hcl) as (sv2 & Hsv2 & _). rewrite Hk in Hsv2. congruence. }
  split; [|exact Hpend0].
  apply filter_single.
  - pose proof (reply_conservation _ _ _ _ _ _ c serial Hstep2 Hnown Hal) as Hcons.
    assert (pend c serial cst = 1%nat) as E1.
    { unfold pend. rewrite Hcsc, bool_decide_eq_true_2; [reflexivity|]. rewrite Hent. eauto. }
    lia.
  - pose proof (settle_na c serial c (fuel_for m) m Hg) as Hna. rewrite Hst in Hna. rewrite Eo.
    apply (na_o _ _ _ _ _ (Hna (HN_NAg _ _ _ _ (HN_same _ _ _ m eq_refl eq_refl eq_refl (HN_init c serial cst))))).
  - intros r from Hin. exact (proj2 (synthesized_results _ _ _ _ _ _ _ _ _ _ Hstep2 I Hin)).
Qed.
