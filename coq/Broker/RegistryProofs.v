(* Broker/RegistryProofs.v — C03, the parts DESIGN.md listed as not stated:
   (1) exact step equations for an accepted CreateObject / CreateService / CreateService2 when
       every bus listener that has to be told is reachable ([bus_quiet]); and, without that
       hypothesis, that the new service IS stored after the step (a traversal of the work loop:
       [KP], "the entry stays while its owner stays");
   (2) the positive directions of the service queries (version, info, subscribe, call) and the
       iff "answered Ok <-> the cookie names a live service";
   (3) an object stays live as long as its owner stays connected and does not destroy it
       (step and history level), hence a second CreateObject is answered Duplicate;
   (4) a disconnect destroys exactly what the connection owned.
   Model.v / Run.v / Inv*.v are used as they are. *)
From stdpp Require Import gmap list.
From RecordUpdate Require Import RecordSet.
Import RecordSetNotations.
From Aldrin Require Import gen.BrokerConsts Broker.Model Broker.Run Broker.Wp Broker.OutKinds Broker.EventProofs
  Broker.CallProofs Broker.Inv Broker.InvProofsBase Broker.InvProofsSettle Broker.InvProofsHandle3
  Broker.InvProofsStep Broker.InvProofsOut Broker.InvProofsAlive Broker.InvProofsKeep
  Props.C11_lemmas Props.C03_lemmas.
From Coq Require Import Lia.
Local Open Scope N_scope.

(* ================================================================ bus events, everybody reachable *)
(* the connections [Broker::emit_bus_event] sends [ev] to: owners of started listeners whose scope
   includes new events and one of whose filters matches *)
Definition bus_targets (s : state) (ev : bus_event) : list conn :=
  elements (list_to_set ((fun p : uuid * lis => l_owner p.2) <$>
    List.filter (fun p : uuid * lis =>
                   match l_scope p.2 with
                   | Some sc => includes_new sc && existsb (fun f => matches_event f ev) (l_filters p.2)
                   | None => false end) (map_to_list (listeners s))) : gset conn).

(* what they get *)
Definition bus_outs (s : state) (ev : bus_event) : list out :=
  (fun d => (d, EmitBusEvent None ev, None)) <$> List.filter (connected s) (bus_targets s ev).

(* no target of [ev] has a dropped receiver (a dropped one would be removed by the failing send,
   and the step would go on to destroy what it owned) *)
Definition bus_quiet (s : state) (ev : bus_event) : Prop :=
  forall d cs, d ∈ bus_targets s ev -> conns s !! d = Some cs -> cs_alive cs = true.

Lemma set_mo_mo (m : M) a b : m <| mo := a |> <| mo := b |> = m <| mo := b |>.
Proof. destruct m; reflexivity. Qed.
Lemma set_mo_id (m : M) : m <| mo := mo m |> = m.
Proof. destruct m; reflexivity. Qed.

(* Broker/Wp.v declares the model's functions [simpl never]; they are unfolded by these equations *)
Lemma foldO_nil {A} (f : M -> A -> outcome M) m : foldO f [] m = Done m.
Proof. reflexivity. Qed.
Lemma foldO_cons {A} (f : M -> A -> outcome M) x r m :
  foldO f (x :: r) m = match f m x with Done m' => foldO f r m' | Fail m' => Fail m' | Panic s => Panic s end.
Proof. reflexivity. Qed.

Lemma guarded_fold_alive (x0 : msg) l : forall m,
  (forall d cs, d ∈ l -> conns (ms m) !! d = Some cs -> cs_alive cs = true) ->
  foldO (fun m (c : conn) => if has m c then send_or_remove m c x0 None else Done m) l m =
  Done (m <| mo := mo m ++ ((fun d => (d, x0, None)) <$> List.filter (connected (ms m)) l) |>).
Proof.
  induction l as [|d l IH]; intros m Hal; cbn [List.filter fmap list_fmap].
  - rewrite foldO_nil, app_nil_r, set_mo_id. reflexivity.
  - rewrite foldO_cons. unfold has at 1. unfold connected at 1. destruct (conns (ms m) !! d) as [cs|] eqn:Ed.
    + rewrite bool_decide_eq_true_2 by eauto.
      rewrite (send_or_remove_alive m d x0 None cs Ed) by (eapply Hal; [left|exact Ed]).
      rewrite IH by (intros d' cs' Hin; apply Hal; right; exact Hin).
      cbn [ms mo set]. rewrite set_mo_mo. cbn [fmap list_fmap]. rewrite <- app_assoc. reflexivity.
    + rewrite bool_decide_eq_false_2 by (intros [? ?]; discriminate).
      apply IH. intros d' cs' Hin. apply Hal. right. exact Hin.
Qed.

Lemma bus_alive m ev : bus_quiet (ms m) ev ->
  bus m ev = Done (m <| mo := mo m ++ bus_outs (ms m) ev |>).
Proof. intros H. unfold bus. fold (bus_targets (ms m) ev). apply guarded_fold_alive. exact H. Qed.

(* ================================================================ accepted creations: handler *)
Definition new_svc (fresh oc : uuid) (i : info) : svc :=
  {| s_cookie := fresh; s_obj_cookie := oc; s_info := i; s_events := ∅; s_all := ∅; s_subs := ∅;
     s_calls := ∅ |}.

(* [x] is a create-service request the broker accepts from a connection in state [cs];
   [i] is the service info the broker records for it *)
Definition is_create_service (cs : cstate) (x : msg) (serial : N) (oc u : uuid) (i : info) : Prop :=
  (exists version, x = CreateService serial oc u version /\
                   i = {| i_version := version; i_type_id := None; i_sub_all := None |}) \/
  (exists i0, x = CreateService2 serial oc u (Some i0) /\ 17 <= cs_ver cs /\
              i = if cs_ver cs <? 18 then i0 <| i_sub_all := Some false |> else i0).

Lemma handle_create_service m c cs x serial oc u i f b :
  conns (ms m) !! c = Some cs -> is_create_service cs x serial oc u i ->
  handle m c x f b = create_service_impl m c serial oc u (Some i) f.
Proof.
  intros H [(version & -> & ->)|(i0 & -> & Hv & ->)]; unfold handle; rewrite H; [reflexivity|].
  unfold gate, ver_of. rewrite H. cbn [fmap option_fmap option_map].
  destruct (N.ltb_spec (cs_ver cs) MIN_CREATE_SERVICE2) as [Hlt|_];
    [exfalso; change MIN_CREATE_SERVICE2 with 17 in Hlt; lia|reflexivity].
Qed.

Definition svc_created_machine (m : M) (c : conn) (serial : N) (ou oc u fresh : uuid) (i : info) : M :=
  m <| mo := mo m ++ [(c, CreateServiceReply serial (CSOk fresh), None)] |>
    <| mw; w_create_svc ::= cons (ou, oc, u, fresh) |>
    <| ms; svcs ::= <[(ou, u) := new_svc fresh oc i]> |>
    <| ms; st; n_svcs ::= N.succ |>.

Lemma create_service_impl_ok m c cs serial oc u i fresh ou o :
  conns (ms m) !! c = Some cs -> cs_alive cs = true ->
  obj_by_cookie (ms m) oc = Some (ou, o) -> o_owner o = c -> svcs (ms m) !! (ou, u) = None ->
  create_service_impl m c serial oc u (Some i) fresh = Done (svc_created_machine m c serial ou oc u fresh i).
Proof.
  intros Hc Ha Ho Hown Hno. unfold create_service_impl. rewrite Ho.
  rewrite bool_decide_eq_false_2 by (rewrite Hno; intros [? ?]; discriminate).
  rewrite bool_decide_eq_true_2 by exact Hown. cbn [negb].
  rewrite (send_alive m c _ None cs Hc Ha). reflexivity.
Qed.

Definition obj_created_machine (m : M) (c : conn) (serial : N) (u fresh : uuid) : M :=
  m <| mo := mo m ++ [(c, CreateObjectReply serial (COOk fresh), None)] |>
    <| ms; objs ::= <[u := {| o_cookie := fresh; o_owner := c |}]> |>
    <| mw; w_create_obj ::= cons (u, fresh) |>
    <| ms; st; n_objs ::= N.succ |>.

Lemma handle_create_object_ok m c cs serial u fresh b :
  conns (ms m) !! c = Some cs -> cs_alive cs = true -> objs (ms m) !! u = None ->
  handle m c (CreateObject serial u) fresh b = Done (obj_created_machine m c serial u fresh).
Proof.
  intros Hc Ha Hu. unfold handle. rewrite Hc.
  rewrite bool_decide_eq_false_2 by (rewrite Hu; intros [? ?]; discriminate).
  rewrite (send_alive m c _ None cs Hc Ha). reflexivity.
Qed.

(* ================================================================ exact steps, bus quiet *)
Definition svc_created_state (s : state) (ou u : uuid) (sv : svc) : state :=
  s <| svcs ::= <[(ou, u) := sv]> |> <| st; n_svcs ::= N.succ |>.
Definition obj_created_state (s : state) (u : uuid) (o : obj) : state :=
  s <| objs ::= <[u := o]> |> <| st; n_objs ::= N.succ |>.

Lemma step_one_item s e f b m m' :
  step_handler s e f b = Done m -> settle_one m = Some (Done m') -> mw m' = work0 ->
  step s e f b = Done (ms m', mo m').
Proof.
  intros Hh H1 Hw. rewrite step_unfold, Hh. destruct (fuel_for_S m) as (n & ->).
  rewrite Wp.settle_unfold, H1. rewrite (OutKinds.settle_idle n m' Hw). reflexivity.
Qed.

Theorem create_service_exact s c cs x serial oc u i ou o f b :
  conns s !! c = Some cs -> cs_alive cs = true -> is_create_service cs x serial oc u i ->
  obj_by_cookie s oc = Some (ou, o) -> o_owner o = c -> svcs s !! (ou, u) = None ->
  bus_quiet s (EvServiceCreated ou oc u f) ->
  step s (Message c x) f b =
    Done (svc_created_state s ou u (new_svc f oc i),
          (c, CreateServiceReply serial (CSOk f), None) :: bus_outs s (EvServiceCreated ou oc u f)).
Proof.
  intros Hc Ha Hx Ho Hown Hno Hq.
  set (m1 := svc_created_machine (OutKinds.m_init s) c serial ou oc u f i).
  assert (Hh : step_handler s (Message c x) f b = Done m1).
  { cbn [step_handler]. fold (OutKinds.m_init s).
    rewrite (handle_create_service _ c cs x serial oc u i) by assumption.
    rewrite (create_service_impl_ok _ c cs serial oc u i f ou o) by assumption. reflexivity. }
  set (m2 := m1 <| mw; w_create_svc := [] |>).
  assert (H1 : settle_one m1 = Some (bus m2 (EvServiceCreated ou oc u f))) by reflexivity.
  rewrite (bus_alive m2) in H1 by exact Hq.
  exact (step_one_item _ _ _ _ _ _ Hh H1 eq_refl).
Qed.

Theorem create_object_exact s c cs serial u f b :
  conns s !! c = Some cs -> cs_alive cs = true -> objs s !! u = None ->
  bus_quiet s (EvObjectCreated u f) ->
  step s (Message c (CreateObject serial u)) f b =
    Done (obj_created_state s u {| o_cookie := f; o_owner := c |},
          (c, CreateObjectReply serial (COOk f), None) :: bus_outs s (EvObjectCreated u f)).
Proof.
  intros Hc Ha Hu Hq.
  set (m1 := obj_created_machine (OutKinds.m_init s) c serial u f).
  assert (Hh : step_handler s (Message c (CreateObject serial u)) f b = Done m1).
  { cbn [step_handler]. fold (OutKinds.m_init s).
    rewrite (handle_create_object_ok _ c cs serial u f b) by assumption. reflexivity. }
  set (m2 := m1 <| mw; w_create_obj := [] |>).
  assert (H1 : settle_one m1 = Some (bus m2 (EvObjectCreated u f))) by reflexivity.
  rewrite (bus_alive m2) in H1 by exact Hq.
  exact (step_one_item _ _ _ _ _ _ Hh H1 eq_refl).
Qed.

(* ================================================================ queries about a live service *)
Theorem query_version_live s c cs serial sc k sv f b :
  conns s !! c = Some cs -> cs_alive cs = true -> svc_by_cookie s sc = Some (k, sv) ->
  step s (Message c (QueryServiceVersion serial sc)) f b =
    Done (s, [(c, QueryServiceVersionReply serial (Some (i_version (s_info sv))), None)]).
Proof. intros Hc Ha Hs. rewrite (query_service_version s c cs serial sc f b Hc Ha), Hs. reflexivity. Qed.

Theorem query_info_live s c cs serial sc k sv f b :
  conns s !! c = Some cs -> cs_alive cs = true -> 17 <= cs_ver cs -> svc_by_cookie s sc = Some (k, sv) ->
  step s (Message c (QueryServiceInfo serial sc)) f b =
    Done (s, [(c, QueryServiceInfoReply serial (QIOk (s_info sv)), None)]).
Proof. intros Hc Ha Hv Hs. rewrite (query_service_info s c cs serial sc f b Hc Ha Hv), Hs. reflexivity. Qed.

(* SubscribeService (protocol >= 1.18): Ok, and the subscriber is recorded *)
Theorem subscribe_service_live s c cs serial sc k sv f b :
  conns s !! c = Some cs -> cs_alive cs = true -> 18 <= cs_ver cs -> svc_by_cookie s sc = Some (k, sv) ->
  step s (Message c (SubscribeService serial sc)) f b =
    Done (s <| svcs ::= <[k := sv <| s_subs ::= fun x => {[c]} ∪ x |>]> |>,
          [(c, SubscribeServiceReply serial true, None)]).
Proof.
  intros Hc Ha Hv Hs.
  assert (H : handle (OutKinds.m_init s) c (SubscribeService serial sc) f b =
              Done {| ms := s <| svcs ::= <[k := sv <| s_subs ::= fun x => {[c]} ∪ x |>]> |>; mw := work0;
                      mo := [(c, SubscribeServiceReply serial true, None)] |}).
  { unfold handle. cbn [ms OutKinds.m_init]. rewrite Hc. unfold gate, ver_of. cbn [ms OutKinds.m_init]. rewrite Hc.
    cbn [fmap option_fmap option_map].
    destruct (N.ltb_spec (cs_ver cs) MIN_SUBSCRIBE_SERVICE) as [Hlt|_];
      [exfalso; change MIN_SUBSCRIBE_SERVICE with 18 in Hlt; lia|].
    cbn [ms OutKinds.m_init]. rewrite Hs. erewrite send_alive by (cbn [ms]; eassumption). reflexivity. }
  apply step_message_idle in H; [exact H|reflexivity].
Qed.

Theorem subscribe_service_dead s c cs serial sc f b :
  conns s !! c = Some cs -> cs_alive cs = true -> 18 <= cs_ver cs -> svc_by_cookie s sc = None ->
  step s (Message c (SubscribeService serial sc)) f b =
    Done (s, [(c, SubscribeServiceReply serial false, None)]).
Proof.
  intros Hc Ha Hv Hs.
  assert (H : handle (OutKinds.m_init s) c (SubscribeService serial sc) f b =
              Done {| ms := s; mw := work0; mo := [(c, SubscribeServiceReply serial false, None)] |}).
  { unfold handle. cbn [ms OutKinds.m_init]. rewrite Hc. unfold gate, ver_of. cbn [ms OutKinds.m_init]. rewrite Hc.
    cbn [fmap option_fmap option_map].
    destruct (N.ltb_spec (cs_ver cs) MIN_SUBSCRIBE_SERVICE) as [Hlt|_];
      [exfalso; change MIN_SUBSCRIBE_SERVICE with 18 in Hlt; lia|].
    cbn [ms OutKinds.m_init]. rewrite Hs. erewrite send_alive by (cbn [ms]; eassumption). reflexivity. }
  apply step_message_idle in H; [exact H|reflexivity].
Qed.

(* SubscribeEvent: Ok, the subscriber is recorded, and the owner is told about the first
   subscriber of that event (if its receiver is still there; the broker ignores a failure) *)
Definition subscribe_notice (s : state) (owner : conn) (sv : svc) (sc : uuid) (ev : N) : list out :=
  if negb (bool_decide (is_Some (s_events sv !! ev))) && alive s owner
  then [(owner, SubscribeEvent None sc ev, None)] else [].

Theorem subscribe_event_live s c cs serial sc ev k sv owner f b :
  conns s !! c = Some cs -> cs_alive cs = true ->
  svc_by_cookie s sc = Some (k, sv) -> owner_of_svc s k = Some owner ->
  step s (Message c (SubscribeEvent (Some serial) sc ev)) f b =
    Done (s <| svcs ::= <[k := sv <| s_events ::= <[ev := default ∅ (s_events sv !! ev) ∪ {[c]}]> |>]> |>,
          (c, SubscribeEventReply serial true, None) :: subscribe_notice s owner sv sc ev).
Proof.
  intros Hc Ha Hs Ho.
  assert (H : handle (OutKinds.m_init s) c (SubscribeEvent (Some serial) sc ev) f b =
              Done {| ms := s <| svcs ::= <[k := sv <| s_events ::= <[ev := default ∅ (s_events sv !! ev) ∪ {[c]}]> |>]> |>;
                      mw := work0;
                      mo := (c, SubscribeEventReply serial true, None) :: subscribe_notice s owner sv sc ev |}).
  { unfold handle. cbn [ms OutKinds.m_init]. rewrite Hc, Hs, Ho.
    erewrite send_alive by (cbn [ms]; eassumption). cbn [andThen]. cbv zeta.
    unfold subscribe_notice, alive, has. cbn [ms set].
    destruct (negb (bool_decide (is_Some (s_events sv !! ev)))); cbn [andb]; [|reflexivity].
    change (conns (set svcs _ s)) with (conns s).
    destruct (conns s !! owner) as [ocs|] eqn:Eo.
    - rewrite bool_decide_eq_true_2 by eauto. destruct (cs_alive ocs) eqn:Eal.
      + match goal with |- send_ignore ?mm _ ?x _ = _ => rewrite (send_ignore_alive mm owner x None ocs Eo Eal) end.
        reflexivity.
      + match goal with |- send_ignore ?mm _ ?x _ = _ => rewrite (send_ignore_dead mm owner x None ocs Eo Eal) end.
        reflexivity.
    - rewrite bool_decide_eq_false_2; [reflexivity|]. intros [x Hx].
      change (conns s !! owner = Some x) in Hx. congruence. }
  apply step_message_idle in H; [exact H|reflexivity].
Qed.

(* CallFunction to a live service whose owner's receiver is there: forwarded (C02_call_forwarded) *)
Theorem call_live s c cs serial sc fn v f bs k sv callee ccs b nxt :
  conns s !! c = Some cs -> svc_by_cookie s sc = Some (k, sv) -> owner_of_svc s k = Some callee ->
  conns s !! callee = Some ccs -> cs_alive ccs = true ->
  pick_serial s bs = Some (b, nxt) -> cs_calls cs !! serial = None ->
  step s (Message c (CallFunction serial sc fn v)) f bs =
    Done (call_state s c cs serial k sv b nxt callee,
          [(callee, if 19 <=? cs_ver ccs then CallFunction2 b sc fn None v else CallFunction b sc fn v,
            Some (cs_ver cs))]).
Proof.
  intros Hc Hs Ho Hcc Hal Hp Hser.
  apply (call_forwarded s c cs (CallFunction serial sc fn v) serial sc fn None v f bs k sv callee ccs b nxt); try assumption.
  left. split; reflexivity.
Qed.

(* the iff: the answer is positive exactly when the cookie names a live service *)
Theorem query_iff_live s c cs serial sc f b :
  conns s !! c = Some cs -> cs_alive cs = true ->
  (exists r, step s (Message c (QueryServiceVersion serial sc)) f b =
               Done (s, [(c, QueryServiceVersionReply serial r, None)]) /\
             (is_Some r <-> svc_by_cookie s sc <> None)) /\
  (17 <= cs_ver cs ->
   exists r, step s (Message c (QueryServiceInfo serial sc)) f b =
               Done (s, [(c, QueryServiceInfoReply serial r, None)]) /\
             (r <> QIInvalid <-> svc_by_cookie s sc <> None)) /\
  (18 <= cs_ver cs ->
   exists s' ok, step s (Message c (SubscribeService serial sc)) f b =
               Done (s', [(c, SubscribeServiceReply serial ok, None)]) /\
             (ok = true <-> svc_by_cookie s sc <> None)).
Proof.
  intros Hc Ha. split; [|split].
  - eexists. split; [apply (query_service_version s c cs serial sc f b Hc Ha)|].
    destruct (svc_by_cookie s sc) as [[k sv]|]; cbn.
    + split; [done|]. intros _. eauto.
    + split; [intros [? ?]; discriminate|]. intros H. by destruct H.
  - intros Hv. eexists. split; [apply (query_service_info s c cs serial sc f b Hc Ha Hv)|].
    destruct (svc_by_cookie s sc) as [[k sv]|]; split; intros H; done.
  - intros Hv. destruct (svc_by_cookie s sc) as [[k sv]|] eqn:Es.
    + eexists _, true. split; [eapply subscribe_service_live; eassumption|]. split; done.
    + eexists _, false. split; [eapply subscribe_service_dead; eassumption|]. split; done.
Qed.

(* SubscribeEvent and CallFunction need the registry invariant (a live service has an owner) *)
Lemma reach_owner s k sv : reachable s -> svcs s !! k = Some sv ->
  exists o cso, objs s !! k.1 = Some o /\ owner_of_svc s k = Some (o_owner o) /\ conns s !! o_owner o = Some cso.
Proof.
  intros Hr Hk. pose proof (reachable_inv s Hr) as H.
  destruct (owner_of_svc_reg s k sv (iv_reg _ _ _ _ _ H) Hk) as (o & Ho & Hown & _).
  pose proof (iv_oo _ _ _ _ _ H _ _ Ho) as Hin. apply elem_of_dom in Hin as [cso Hin]. eauto 10.
Qed.

Theorem subscribe_event_iff_live s c cs serial sc ev f b :
  reachable s -> conns s !! c = Some cs -> cs_alive cs = true ->
  exists s' ok rest, step s (Message c (SubscribeEvent (Some serial) sc ev)) f b =
                       Done (s', (c, SubscribeEventReply serial ok, None) :: rest) /\
                     (ok = true <-> svc_by_cookie s sc <> None).
Proof.
  intros Hr Hc Ha. destruct (svc_by_cookie s sc) as [[k sv]|] eqn:Es.
  - pose proof (svc_by_cookie_Some _ _ _ _ Es) as [Hk _].
    destruct (reach_owner s k sv Hr Hk) as (o & cso & _ & Ho & _).
    eexists _, true, _. split; [eapply subscribe_event_live; eassumption|]. split; done.
  - eexists _, false, _. split; [eapply subscribe_invalid_service; eassumption|]. split; done.
Qed.

(* a call with a fresh caller serial: InvalidService is the immediate answer iff the cookie names
   no live service; for a live service whose owner's receiver is there nothing is sent to the
   caller in this step (the request goes to the owner) *)
Theorem call_iff_live s i c cs serial sc fn v s' o :
  reachable s -> legal s i -> i_ev i = Message c (CallFunction serial sc fn v) ->
  conns s !! c = Some cs -> cs_alive cs = true -> cs_calls cs !! serial = None ->
  (forall k sv callee ccs, svc_by_cookie s sc = Some (k, sv) -> owner_of_svc s k = Some callee ->
                           conns s !! callee = Some ccs -> cs_alive ccs = true) ->
  step s (Message c (CallFunction serial sc fn v)) (i_fresh i) (i_bserial i) = Done (s', o) ->
  ((c, CallFunctionReply serial CRInvalidService, None) ∈ o <-> svc_by_cookie s sc = None) /\
  (svc_by_cookie s sc <> None -> outs_to c o = [] \/ exists k, owner_of_svc s k = Some c).
Proof.
  intros Hr Hl He Hc Ha Hser Hal Hstep. destruct (svc_by_cookie s sc) as [[k sv]|] eqn:Es.
  - pose proof (svc_by_cookie_Some _ _ _ _ Es) as [Hk _].
    destruct (reach_owner s k sv Hr Hk) as (ob & cso & _ & Ho & Hcso).
    destruct (pick_serial_legal s i (proj1 (iv_cb _ _ _ _ _ (reachable_inv s Hr))) Hl) as (b0 & nxt0 & Hp & _).
    rewrite (call_live s c cs serial sc fn v (i_fresh i) (i_bserial i) k sv (o_owner ob) cso _ _
               Hc Es Ho Hcso (Hal _ _ _ _ eq_refl Ho Hcso) Hp Hser) in Hstep.
    injection Hstep as <- <-. split.
    + split; [|done]. intros Hin. apply elem_of_list_singleton in Hin. destruct (19 <=? cs_ver cso); discriminate.
    + intros _. destruct (decide (o_owner ob = c)) as [Heq|Hne]; [right; exists k; by rewrite Ho, Heq|].
      left. unfold outs_to. cbn. rewrite bool_decide_eq_false_2 by exact Hne. reflexivity.
  - rewrite (call_invalid_service s c cs serial sc fn v _ _ Hc Ha Es) in Hstep. injection Hstep as <- <-.
    split; [|done]. split; [done|]. intros _. apply elem_of_list_singleton. reflexivity.
Qed.

(* ================================================================ the new entry stays *)
(* A traversal of the work loop (no invariant needed): a service [k ↦ sv0] without subscribers,
   whose cookie no other service has, and its object [k.1 ↦ o0], whose cookie no other object
   has, are still there — unchanged — after any work item that does not remove the owner's
   connection.  The work loop deletes a service only through its object's removal, and an object
   only through its owner's removal; subscriber bookkeeping does not change a service that has no
   subscribers. *)
Lemma oprop_foldO_in {A} (P : M -> Prop) (f : M -> A -> outcome M) l m :
  (forall m a, a ∈ l -> P m -> oprop P (f m a)) -> P m -> oprop P (foldO f l m).
Proof.
  revert m. induction l as [|a l IH]; intros m Hf Hm; [exact Hm|]. rewrite foldO_cons.
  pose proof (Hf m a (elem_of_list_here _ _) Hm) as Ha. destruct (f m a); cbn [oprop] in *; auto;
    apply IH; auto; intros m' a' Hin; apply Hf; right; exact Hin.
Qed.

Lemma elem_of_lfilter {A} (f : A -> bool) l x : x ∈ List.filter f l <-> x ∈ l /\ f x = true.
Proof. rewrite !elem_of_list_In. apply filter_In. Qed.

Section Kept.
  Context (k : uuid * uuid) (sv0 : svc) (o0 : obj).
  Context (Hbare : s_events sv0 = ∅ /\ s_all sv0 = ∅ /\ s_subs sv0 = ∅).

  Definition svc_kept (S : gmap (uuid * uuid) svc) : Prop :=
    S !! k = Some sv0 /\ forall k' sv', S !! k' = Some sv' -> s_cookie sv' = s_cookie sv0 -> k' = k.
  Definition obj_kept (O : gmap uuid obj) : Prop :=
    O !! k.1 = Some o0 /\ forall u' o', O !! u' = Some o' -> o_cookie o' = o_cookie o0 -> u' = k.1.
  Definition KP (m : M) : Prop := svc_kept (svcs (ms m)) /\ obj_kept (objs (ms m)).

  Lemma svc_kept_delete S k' : k' <> k -> svc_kept S -> svc_kept (delete k' S).
  Proof.
    intros Hne [H1 H2]. split; [rewrite lookup_delete_ne by exact Hne; exact H1|].
    intros k1 sv1 Hk1. apply lookup_delete_Some in Hk1 as [_ Hk1]. eauto.
  Qed.

  Lemma svc_kept_upd S k' s s' :
    S !! k' = Some s -> k' <> k -> s_cookie s' = s_cookie s -> svc_kept S -> svc_kept (<[k' := s']> S).
  Proof.
    intros Hk' Hne Hck [H1 H2]. split; [rewrite lookup_insert_ne by exact Hne; exact H1|].
    intros k1 sv1 Hk1 Hc1. apply lookup_insert_Some in Hk1 as [[<- <-]|[_ Hk1]]; [|eauto].
    apply (H2 k' s Hk'). congruence.
  Qed.

  Lemma bare_subs c : sv0 <| s_subs ::= fun x => x ∖ {[c]} |> = sv0.
  Proof.
    destruct Hbare as (_ & _ & H3). destruct sv0 as [a b i e al su ca]. cbn in *. subst su.
    unfold set. cbn. f_equal. set_solver.
  Qed.

  Lemma svc_kept_subs S c :
    svc_kept S -> svc_kept ((fun s => s <| s_subs ::= fun x => x ∖ {[c]} |>) <$> S).
  Proof.
    intros [H1 H2]. split.
    - rewrite lookup_fmap, H1. cbn. f_equal. apply bare_subs.
    - intros k1 sv1. rewrite lookup_fmap. destruct (S !! k1) as [s1|] eqn:E1; [|discriminate].
      cbn. intros [= <-]. cbn. apply (H2 k1 s1 E1).
  Qed.

  Lemma obj_kept_delete O u' : u' <> k.1 -> obj_kept O -> obj_kept (delete u' O).
  Proof.
    intros Hne [H1 H2]. split; [rewrite lookup_delete_ne by exact Hne; exact H1|].
    intros u1 o1 Hu1. apply lookup_delete_Some in Hu1 as [_ Hu1]. eauto.
  Qed.

  Ltac leaf_kp :=
    idtac;
    first
      [ match goal with H : KP ?m |- KP _ => exact H end
      | match goal with |- KP (push_remove ?x _ _) => change (KP x) end
      | match goal with |- KP (set _ _ ?x) => change (KP x) end ].

  Lemma remove_listener_kp m x : KP m -> KP (remove_listener m x).
  Proof. intros H. unfold remove_listener. destruct (listeners (ms m) !! x); exact H. Qed.
  Lemma remove_end_kp m x e : KP m -> oprop KP (remove_end m x e).
  Proof. intros H. unfold remove_end. repeat prop_step leaf_kp. Qed.
  Lemma bus_kp m ev : KP m -> oprop KP (bus m ev).
  Proof. intros H. unfold bus. repeat prop_step leaf_kp. Qed.
  Lemma abort_call_kp m b callee : KP m -> oprop KP (abort_call m b callee).
  Proof. intros H. unfold abort_call. repeat prop_step leaf_kp. Qed.

  (* removing another service *)
  Lemma remove_service_kp m ck : ck <> s_cookie sv0 -> KP m -> oprop KP (remove_service m ck).
  Proof.
    intros Hne H. unfold remove_service. destruct (svc_by_cookie (ms m) ck) as [[k' s']|] eqn:E; [|exact H].
    apply svc_by_cookie_Some in E as [Ek' Eck].
    assert (k' <> k) as Hk.
    { intros ->. destruct H as [[H1 _] _]. rewrite H1 in Ek'. injection Ek' as <-. congruence. }
    match goal with |- oprop _ (foldO _ _ ?a >>> _) => assert (KP a) as H1 end.
    { destruct H as [Hs Ho]. split; [cbn; apply svc_kept_delete; assumption|exact Ho]. }
    match goal with |- oprop _ (foldO _ _ ?a >>> _) => generalize dependent a; intros m1 H1 end.
    repeat prop_step leaf_kp.
  Qed.

  (* removing another object (with all its services) *)
  Lemma remove_object_kp m ck : ck <> o_cookie o0 -> KP m -> oprop KP (remove_object m ck).
  Proof.
    intros Hne H. unfold remove_object. destruct (obj_by_cookie (ms m) ck) as [[u' o']|] eqn:E; [|exact H].
    apply obj_by_cookie_Some in E as [Eu' Eck].
    assert (u' <> k.1) as Hu.
    { intros ->. destruct H as [_ [H1 _]]. rewrite H1 in Eu'. injection Eu' as <-. congruence. }
    cbv zeta.
    match goal with |- oprop _ (foldO _ ?l ?a >>> _) => assert (KP a /\ Forall (fun x => x <> s_cookie sv0) l) as [H1 Hl] end.
    { destruct H as [Hs Ho]. split; [split; [exact Hs|cbn; apply obj_kept_delete; assumption]|].
      apply Forall_forall. intros ck' Hin. apply elem_of_list_fmap in Hin as ([k1 s1] & -> & Hin).
      apply elem_of_lfilter in Hin as [Hin Hf]. apply elem_of_map_to_list in Hin. cbn in Hin, Hf |- *.
      apply bool_decide_eq_true in Hf. intros Hc. apply (proj2 Hs) in Hin; [|exact Hc]. subst k1. congruence. }
    match goal with |- oprop _ (foldO _ ?l ?a >>> _) => set (l0 := l) in *; set (m1 := a) in * end.
    clearbody l0. clearbody m1.
    apply oprop_bind.
    - apply oprop_foldO_in; [|exact H1]. intros m' ck' Hin Hm'. apply remove_service_kp; [|exact Hm'].
      rewrite Forall_forall in Hl. exact (Hl _ Hin).
    - intros m2 H2. cbn [oprop]. exact H2.
  Qed.

  (* the subscription phases of shutdown_connection *)
  Lemma sc_ev_kp c m x : KP m -> oprop KP (sc_ev c m x).
  Proof.
    intros H. unfold sc_ev. destruct (svcs (ms m) !! x) as [s|] eqn:Ex; [|exact H].
    destruct (owner_of_svc (ms m) x) as [owner|]; [|exact I]. cbn [oprop].
    destruct (decide (x = k)) as [->|Hne].
    - destruct H as [[H1 H2] Ho]. rewrite H1 in Ex. injection Ex as <-.
      destruct Hbare as (-> & _). rewrite map_to_list_empty. cbn. split; [split|]; assumption.
    - apply (prop_foldl KP); [|exact H]. intros m' e Hm'. unfold sc_ev_inner.
      destruct (svcs (ms m') !! x) as [s1|] eqn:E1; [|exact Hm']. cbv zeta.
      destruct Hm' as [Hs Ho].
      destruct (bool_decide _); (split; [cbn; eapply svc_kept_upd; [exact E1|exact Hne|reflexivity|exact Hs]|exact Ho]).
  Qed.

  Lemma sc_all_kp c m x : KP m -> oprop KP (sc_all c m x).
  Proof.
    intros H. unfold sc_all. destruct (svcs (ms m) !! x) as [s|] eqn:Ex; [|exact H].
    destruct (owner_of_svc (ms m) x) as [owner|]; [|exact I].
    destruct (decide (x = k)) as [->|Hne].
    - destruct H as [[H1 H2] Ho]. rewrite H1 in Ex. injection Ex as <-.
      destruct Hbare as (_ & -> & _). rewrite bool_decide_eq_false_2 by set_solver. split; [split|]; assumption.
    - destruct (bool_decide (c ∈ s_all s)); [|exact H]. cbn [oprop]. cbv zeta. destruct H as [Hs Ho].
      destruct (bool_decide _); (split; [cbn; eapply svc_kept_upd; [exact Ex|exact Hne|reflexivity|exact Hs]|exact Ho]).
  Qed.

  Lemma sc_end_kp c e m x : KP m -> oprop KP (sc_end c e m x).
  Proof.
    intros H. unfold sc_end. destruct (chans (ms m) !! x); [|exact H].
    destruct (match e with ESender => _ | EReceiver => _ end); try exact H.
    destruct (bool_decide _); [apply remove_end_kp|]; exact H.
  Qed.

  Lemma sc_owned_other c s : c <> o_owner o0 -> obj_kept (objs s) ->
    Forall (fun ck => ck <> o_cookie o0) (sc_owned c s).
  Proof.
    intros Hne [H1 H2]. apply Forall_forall. intros ck Hin. unfold sc_owned in Hin.
    apply elem_of_list_fmap in Hin as ([u1 o1] & -> & Hin).
    apply elem_of_lfilter in Hin as [Hin Hf]. apply elem_of_map_to_list in Hin. cbn in Hin, Hf |- *.
    apply bool_decide_eq_true in Hf. intros Hc. apply H2 in Hin as Hu; [|exact Hc]. subst u1.
    rewrite H1 in Hin. injection Hin as <-. congruence.
  Qed.

  (* removing another connection *)
  Lemma shutdown_conn_kp m c sd : c <> o_owner o0 -> KP m -> oprop KP (shutdown_conn m c sd).
  Proof.
    intros Hne H. rewrite shutdown_conn_eq. destruct (conns (ms m) !! c) as [cs|]; [|exact H]. cbv zeta.
    match goal with |- oprop _ (foldO _ _ (foldl _ ?a _) >>> _) => assert (KP a) as H1 end.
    { destruct (sd && cs_alive cs); exact H. }
    match goal with |- oprop _ (foldO _ _ (foldl _ ?a _) >>> _) => generalize dependent a; intros m1 H1 end.
    match goal with |- oprop _ (foldO _ _ ?a >>> _) => assert (KP a) as H2 end.
    { apply (prop_foldl KP); [|exact H1]. intros m' x Hm'. apply remove_listener_kp, Hm'. }
    match goal with |- oprop _ (foldO _ _ ?a >>> _) => generalize dependent a; intros m2 H2 end.
    apply oprop_bind.
    { pose proof (sc_owned_other c (ms m2) Hne (proj2 H2)) as Hl. rewrite Forall_forall in Hl.
      apply oprop_foldO_in; [|exact H2]. intros m' ck Hin Hm'. apply remove_object_kp; [exact (Hl _ Hin)|exact Hm']. }
    intros m3 H3. apply oprop_bind; [apply oprop_foldO; [intros; apply sc_ev_kp; assumption|exact H3]|].
    intros m4 H4. apply oprop_bind; [apply oprop_foldO; [intros; apply sc_all_kp; assumption|exact H4]|].
    intros m5 H5.
    match goal with |- oprop _ (foldO _ _ ?a >>> _) => assert (KP a) as H6 end.
    { destruct H5 as [Hs Ho]. split; [cbn; apply svc_kept_subs; exact Hs|exact Ho]. }
    match goal with |- oprop _ (foldO _ ?l ?a >>> _) => set (l0 := l) in *; set (m6 := a) in * end.
    clearbody l0. clearbody m6.
    apply oprop_bind; [apply oprop_foldO; [intros; apply sc_end_kp; assumption|exact H6]|].
    intros m7 H7. apply oprop_bind; [apply oprop_foldO; [intros; apply sc_end_kp; assumption|exact H7]|].
    intros m8 H8. cbn [oprop]. unfold KP. cbn [ms set]. rewrite sc_aborts_ms. exact H8.
  Qed.

  (* one work item; the owner is connected, alive and not queued for removal *)
  Lemma settle_one_kp m r : stays (o_owner o0) m -> KP m -> settle_one m = Some r -> oprop KP r.
  Proof.
    intros Hst H. unfold settle_one. destruct (w_remove_conns (mw m)) as [|[c' sd] q] eqn:Eq.
    - repeat match goal with
             | |- match ?l with [] => _ | _ :: _ => _ end = Some _ -> _ => destruct l as [|? ?]
             | |- (let '(_, _) := ?p in _) = Some _ -> _ => destruct p
             end; try discriminate; intros [= <-];
        repeat first
          [ match goal with
            | |- oprop _ (abort_call _ _ _) => apply abort_call_kp
            | |- oprop _ (bus _ _) => apply bus_kp
            end
          | prop_step leaf_kp ]; try exact H.
    - intros [= <-]. apply shutdown_conn_kp; [|exact H].
      intros ->. destruct Hst as [_ Hq]. apply (Hq sd). rewrite Eq. left.
  Qed.

  Lemma settle_kp fuel : forall m, stays (o_owner o0) m -> KP m -> oprop KP (settle fuel m).
  Proof.
    induction fuel as [|fuel IH]; intros m Hst H; rewrite Wp.settle_unfold;
      destruct (settle_one m) as [r|] eqn:E; try exact H;
      pose proof (settle_one_kp m r Hst H E) as Hr; pose proof (settle_one_stays _ m r Hst E) as Hs;
      destruct r; cbn in Hr, Hs |- *; trivial; apply IH; assumption.
  Qed.
End Kept.

(* ================================================================ an accepted CreateService is stored *)
From Aldrin Require Import Broker.InvProofsHandle2.

Lemma step_message_settle s i c x m s' out :
  reachable s -> legal s i -> i_ev i = Message c x ->
  handle (OutKinds.m_init s) c x (i_fresh i) (i_bserial i) = Done m ->
  step s (Message c x) (i_fresh i) (i_bserial i) = Done (s', out) ->
  exists m', settle (fuel_for m) m = Done m' /\ s' = ms m' /\ out = mo m' /\
             MI m /\ shrinks m m' /\ grows m m'.
Proof.
  intros Hr Hl He Hh Hs. pose proof (reachable_inv s Hr) as H.
  destruct (legal_split _ _ Hl) as (L1 & L2 & L3). rewrite He in L3.
  pose proof (handle_good (OutKinds.m_init s) c x (i_fresh i) (i_bserial i) H eq_refl L1 L2 L3) as Hg.
  rewrite Hh in Hg. cbn in Hg.
  apply step_Done in Hs as (m1 & m' & Hh' & Hst & -> & ->).
  cbn [step_handler] in Hh'. fold (OutKinds.m_init s) in Hh'. rewrite Hh in Hh'. injection Hh' as <-.
  destruct Hst as [Hst|Hst]; [|exfalso; exact (OutKinds.settle_never_fails _ _ _ Hst)].
  pose proof (settle_spec (fuel_for m) m Hg) as Hsp. rewrite Hst in Hsp. destruct Hsp as (_ & Hsh & _).
  pose proof (settle_ogrows (fuel_for m) m) as Hgr. rewrite Hst in Hgr.
  exists m'. auto 10.
Qed.

Theorem create_service_stored s i c cs x serial oc u inf ou o s' out :
  reachable s -> legal s i -> i_ev i = Message c x ->
  conns s !! c = Some cs -> cs_alive cs = true -> is_create_service cs x serial oc u inf ->
  obj_by_cookie s oc = Some (ou, o) -> o_owner o = c -> svcs s !! (ou, u) = None ->
  step s (Message c x) (i_fresh i) (i_bserial i) = Done (s', out) ->
  head out = Some (c, CreateServiceReply serial (CSOk (i_fresh i)), None) /\
  svcs s' !! (ou, u) = Some (new_svc (i_fresh i) oc inf) /\
  objs s' !! ou = Some o /\
  (exists cs', conns s' !! c = Some cs' /\ cs_alive cs' = true) /\
  objs s' ⊆ objs s /\
  (forall k, is_Some (svcs s' !! k) -> k = (ou, u) \/ is_Some (svcs s !! k)).
Proof.
  intros Hr Hl He Hc Ha Hx Ho Hown Hno Hs. pose proof (reachable_inv s Hr) as HI.
  set (m1 := svc_created_machine (OutKinds.m_init s) c serial ou oc u (i_fresh i) inf).
  assert (Hh : handle (OutKinds.m_init s) c x (i_fresh i) (i_bserial i) = Done m1).
  { rewrite (handle_create_service _ c cs x serial oc u inf) by assumption.
    apply (create_service_impl_ok _ c cs serial oc u inf (i_fresh i) ou o); assumption. }
  destruct (step_message_settle s i c x m1 s' out Hr Hl He Hh Hs) as (m' & Hst & -> & -> & _ & Hsh & Hgr).
  pose proof (obj_by_cookie_Some _ _ _ _ Ho) as [Hou Hock].
  assert (Hstay : stays c m1).
  { split; [exists cs; split; assumption|]. intros sd Hin. cbn in Hin. by apply elem_of_nil in Hin. }
  assert (Hkp : KP (ou, u) (new_svc (i_fresh i) oc inf) o m1).
  { split; split.
    - cbn. apply lookup_insert.
    - cbn. intros k' sv' Hk' Hck. apply lookup_insert_Some in Hk' as [[<- _]|[_ Hk']]; [reflexivity|].
      exfalso. exact (fresh_svc s (i_fresh i) k' sv' (proj1 Hl) Hk' Hck).
    - exact Hou.
    - cbn. intros u' o' Hu' Hck. exact (iv_uo _ _ _ _ _ HI u' ou o' o Hu' Hou Hck). }
  rewrite <- Hown in Hstay.
  pose proof (settle_kp (ou, u) (new_svc (i_fresh i) oc inf) o (conj eq_refl (conj eq_refl eq_refl))
                (fuel_for m1) m1 Hstay Hkp) as Hk'.
  pose proof (settle_stays (o_owner o) (fuel_for m1) m1 Hstay) as Hs'.
  rewrite Hst in Hk', Hs'. cbn in Hk', Hs'. rewrite Hown in Hs'.
  destruct Hk' as [[Hsv _] [Hob _]]. destruct Hsh as (Hosub & Hsdom & _).
  split; [eapply grows_head; [|exact Hgr]; reflexivity|]. split; [exact Hsv|]. split; [exact Hob|].
  split; [exact (proj1 Hs')|]. split; [exact Hosub|].
  intros k Hk. apply Hsdom in Hk. cbn in Hk. destruct (decide (k = (ou, u))) as [->|Hne]; [by left|].
  right. by rewrite lookup_insert_ne in Hk.
Qed.

(* CreateObject: C03_create_object_reply gives the reply and the stored object; in addition the
   rest of the registry only shrinks (and only by what a removed connection owned) *)
Theorem create_object_stored s i c cs serial u s' out :
  reachable s -> legal s i -> i_ev i = Message c (CreateObject serial u) ->
  conns s !! c = Some cs -> cs_alive cs = true -> objs s !! u = None ->
  step s (Message c (CreateObject serial u)) (i_fresh i) (i_bserial i) = Done (s', out) ->
  head out = Some (c, CreateObjectReply serial (COOk (i_fresh i)), None) /\
  objs s' !! u = Some {| o_cookie := i_fresh i; o_owner := c |} /\
  (exists cs', conns s' !! c = Some cs' /\ cs_alive cs' = true) /\
  (forall u', u' <> u -> forall o', objs s' !! u' = Some o' -> objs s !! u' = Some o') /\
  (forall k, is_Some (svcs s' !! k) -> is_Some (svcs s !! k)).
Proof.
  intros Hr Hl He Hc Ha Hu Hs.
  destruct (create_object_ok_strong s i c cs serial u s' out Hr Hl He Hc Ha Hu Hs) as (H1 & H2 & H3).
  split; [exact H1|]. split; [exact H2|]. split; [exact H3|].
  pose proof (handle_create_object_ok (OutKinds.m_init s) c cs serial u (i_fresh i) (i_bserial i) Hc Ha Hu) as Hh.
  destruct (step_message_settle s i c _ _ s' out Hr Hl He Hh Hs) as (m' & _ & -> & _ & _ & Hsh & _).
  destruct Hsh as (Hosub & Hsdom & _). split.
  - intros u' Hne o' Hu'. apply (lookup_weaken _ _ _ _ Hu') in Hosub. cbn in Hosub.
    by rewrite lookup_insert_ne in Hosub.
  - intros k Hk. apply Hsdom in Hk. exact Hk.
Qed.

(* ================================================================ an object stays while its owner does *)
(* handlers: whoever sends, whatever it sends — except the owner's DestroyObject for this very
   cookie (InvProofsKeep.handle_keeps covers senders other than the owner) *)
Ltac leaf_ko :=
  idtac;
  first
    [ match goal with H : keeps_obj ?u ?o ?m |- keeps_obj ?u ?o _ => exact H end
    | match goal with |- keeps_obj ?u ?o (push_remove ?x _ _) => change (keeps_obj u o x) end
    | match goal with |- keeps_obj ?u ?o (set _ _ ?x) => change (keeps_obj u o x) end ].

Ltac hk_step :=
  first
    [ match goal with
      | |- oprop _ (remove_service _ _) => apply remove_service_keeps
      | |- oprop _ (remove_end _ _ _) => apply remove_end_keeps
      | |- keeps_obj _ _ (remove_listener _ _) => apply remove_listener_keeps
      end
    | prop_step leaf_ko ].

Lemma handle_keeps_own u o m c x f b :
  (forall serial, x <> DestroyObject serial (o_cookie o)) ->
  keeps_obj u o m -> oprop (keeps_obj u o) (handle m c x f b).
Proof.
  intros Hx H. unfold handle. destruct (conns (ms m) !! c) as [cs|] eqn:Hc; [|exact H].
  destruct x;
    unfold gate, ver_of, create_service_impl, call_impl; cbv zeta beta; try (rewrite Hc; cbn [fmap option_fmap option_map]);
    try (solve [repeat hk_step; try assumption]).
  - (* CreateObject: inserts only at a uuid that is not live *)
    destruct (bool_decide_reflect (is_Some (objs (ms m) !! u0))) as [|Hn]; [repeat hk_step; assumption|].
    assert (u0 <> u) as Hne by (intros ->; apply Hn; unfold keeps_obj in H; rewrite H; eauto).
    apply oprop_bind; [repeat hk_step; assumption|]. intros m1 H1. cbn [oprop].
    unfold keeps_obj in *. cbn. by rewrite lookup_insert_ne.
  - (* DestroyObject of another cookie *)
    destruct (obj_by_cookie (ms m) c0) as [[u' o']|] eqn:E; [|repeat hk_step; assumption].
    destruct (negb (bool_decide (o_owner o' = c))); [repeat hk_step; assumption|].
    apply oprop_bind; [repeat hk_step; assumption|]. intros m1 H1.
    apply remove_object_keeps; [exact H1|]. intros u1 o1 E1 ->.
    apply obj_by_cookie_Some in E1 as [E1 E2]. unfold keeps_obj in H1. rewrite H1 in E1. injection E1 as <-.
    apply (Hx serial). by rewrite E2.
  - (* ClaimChannelEnd *)
    match goal with |- context [chans (ms m) !! ?k] => destruct (chans (ms m) !! k) as [ch|] end;
      [|repeat hk_step; assumption].
    match goal with |- context [chan_claim ch c ?e] => destruct (chan_claim ch c e) as [r|ch' other r|site] end;
      [repeat hk_step; assumption| |exact I].
    match goal with |- context [send ?mm c ?x None] => destruct (send mm c x None) as [m2|m2|] eqn:Es end; [| |exact I].
    + apply send_Done in Es as [-> _]. repeat hk_step; assumption.
    + apply send_Fail in Es as [-> _]. apply oprop_refail. repeat hk_step; assumption.
Qed.

Lemma push_all_keeps u o (l : list (conn * cstate)) m :
  keeps_obj u o m -> keeps_obj u o (foldr (fun p m => push_remove m p.1 true) m l).
Proof. intros H. induction l as [|p l IH]; cbn; [exact H|exact IH]. Qed.

(* one step: the object is still there unless its owner asked for its destruction or is no
   longer connected *)
Theorem object_persists s i u o s' out :
  reachable s -> legal s i -> objs s !! u = Some o ->
  (forall serial, i_ev i <> Message (o_owner o) (DestroyObject serial (o_cookie o))) ->
  step s (i_ev i) (i_fresh i) (i_bserial i) = Done (s', out) ->
  is_Some (conns s' !! o_owner o) ->
  objs s' !! u = Some o.
Proof.
  intros Hr Hl Hu Hx Hs Hc'. pose proof (reachable_inv s Hr) as HI.
  destruct (legal_split _ _ Hl) as (L1 & L2 & L3).
  destruct (handler_good s (i_ev i) (i_fresh i) (i_bserial i) HI L1 L2 L3) as (m & Hm & HMI).
  assert (keeps_obj u o m) as Hk.
  { unfold handler_of in Hm. destruct (i_ev i) as [c ver|c|c x| | |c|c].
    - destruct (conns s !! c); [discriminate|]. injection Hm as <-. exact Hu.
    - injection Hm as <-. exact Hu.
    - assert (oprop (keeps_obj u o) (handle {| ms := s; mw := work0; mo := [] |} c x (i_fresh i) (i_bserial i))) as Hh.
      { destruct (decide (c = o_owner o)) as [->|Hne].
        - apply handle_keeps_own; [|exact Hu]. intros serial ->. exact (Hx serial eq_refl).
        - apply handle_keeps; [exact Hu|congruence]. }
      destruct (handle _ c x (i_fresh i) (i_bserial i)) as [m1|m1|]; [| |discriminate]; injection Hm as <-; exact Hh.
    - injection Hm as <-. change (keeps_obj u o (foldr (fun p m => push_remove m p.1 true)
                                    {| ms := s; mw := work0; mo := [] |} (map_to_list (conns s)))).
      apply push_all_keeps. exact Hu.
    - injection Hm as <-. exact Hu.
    - injection Hm as <-. exact Hu.
    - injection Hm as <-. destruct (conns s !! c); exact Hu. }
  rewrite step_step_fuel in Hs. unfold step_fuel in Hs. rewrite Hm in Hs.
  pose proof (settle_spec (fuel_for m) m HMI) as Hsp.
  destruct (settle (fuel_for m) m) as [m'|m'|]; [|contradiction|discriminate].
  injection Hs as <- <-. destruct Hsp as (_ & (_ & _ & _ & Hkeep) & _).
  destruct (Hkeep u o Hk) as [H1|H1]; [exact H1|]. destruct Hc' as [? Hc']. congruence.
Qed.

(* histories with legal inputs: [legal_run], [run_reachable] of Props/C11_lemmas.v *)
Theorem object_persists_run h : forall s s' os u o,
  reachable s -> legal_run s h -> run s h = Done (s', os) -> objs s !! u = Some o ->
  Forall (fun i => forall serial, i_ev i <> Message (o_owner o) (DestroyObject serial (o_cookie o))) h ->
  alive_along (o_owner o) s h ->
  objs s' !! u = Some o /\ reachable s'.
Proof.
  induction h as [|i rest IH]; intros s s' os u o Hr Hl Hrun Hu Hall Hal.
  - cbn in Hrun. injection Hrun as <- _. auto.
  - apply run_cons in Hrun as (s1 & o1 & os' & Hstep & Hrest & _). cbn [legal_run] in Hl. destruct Hl as [Hl1 Hl2].
    specialize (Hl2 _ _ Hstep). apply Forall_cons in Hall as [Hi Hall]. cbn [alive_along] in Hal. rewrite Hstep in Hal.
    destruct Hal as [Ha1 Hal].
    assert (objs s1 !! u = Some o) as Hu1.
    { eapply object_persists; try eassumption. unfold alive in Ha1. destruct (conns s1 !! o_owner o); [eauto|discriminate]. }
    apply (IH s1 s' os' u o); try assumption. eapply reach_step; eassumption.
Qed.

(* observable form of "at most one live object per uuid": after an accepted CreateObject, as
   long as the creator stays connected and does not destroy the object, every CreateObject for
   the same uuid — from whichever connection — is answered Duplicate *)
Theorem second_create_duplicate h s i1 c1 cs1 serial1 u s1 o1 s2 os c2 cs2 serial2 f b :
  reachable s -> legal s i1 -> i_ev i1 = Message c1 (CreateObject serial1 u) ->
  conns s !! c1 = Some cs1 -> cs_alive cs1 = true -> objs s !! u = None ->
  step s (i_ev i1) (i_fresh i1) (i_bserial i1) = Done (s1, o1) ->
  legal_run s1 h -> run s1 h = Done (s2, os) ->
  Forall (fun i => forall serial, i_ev i <> Message c1 (DestroyObject serial (i_fresh i1))) h ->
  alive_along c1 s1 h ->
  conns s2 !! c2 = Some cs2 -> cs_alive cs2 = true ->
  head o1 = Some (c1, CreateObjectReply serial1 (COOk (i_fresh i1)), None) /\
  step s2 (Message c2 (CreateObject serial2 u)) f b =
    Done (s2, [(c2, CreateObjectReply serial2 CODuplicate, None)]).
Proof.
  intros Hr Hl He Hc1 Ha1 Hu Hs1 Hlh Hrun Hall Hal Hc2 Ha2.
  rewrite He in Hs1.
  destruct (create_object_ok_strong s i1 c1 cs1 serial1 u s1 o1 Hr Hl He Hc1 Ha1 Hu Hs1) as (H1 & H2 & _).
  split; [exact H1|].
  assert (reachable s1) as Hr1 by (eapply reach_step; [exact Hr|exact Hl|]; rewrite He; exact Hs1).
  destruct (object_persists_run h s1 s2 os u _ Hr1 Hlh Hrun H2 Hall Hal) as [H3 _].
  eapply create_object_duplicate; eauto.
Qed.

(* ================================================================ disconnect *)
(* a disconnect (reported by the connection, or requested through the handle) destroys exactly
   what the connection owned *)
Theorem disconnect_destroys s i c s' out :
  reachable s -> legal s i -> i_ev i = ConnectionShutdown c \/ i_ev i = ShutdownConnection c ->
  step s (i_ev i) (i_fresh i) (i_bserial i) = Done (s', out) ->
  conns s' !! c = None /\
  (forall u o, objs s !! u = Some o -> o_owner o = c -> objs s' !! u = None /\ forall su, svcs s' !! (u, su) = None) /\
  (forall u o, objs s' !! u = Some o -> objs s !! u = Some o /\ o_owner o <> c) /\
  (forall u o, objs s !! u = Some o -> o_owner o <> c -> is_Some (conns s' !! o_owner o) -> objs s' !! u = Some o) /\
  (forall ou su sv, svcs s' !! (ou, su) = Some sv -> exists o, objs s' !! ou = Some o /\ o_owner o <> c).
Proof.
  intros Hr Hl He Hs. pose proof (reachable_inv s Hr) as HI.
  assert (conns s' !! c = None) as Hc by (eapply shutdown_event_closes; eassumption).
  assert (reachable s') as Hr' by (eapply reach_step; eassumption).
  destruct (reach_disconnected_owns_nothing s' c Hr' Hc) as [Hno _].
  assert (objs s' ⊆ objs s) as Hsub.
  { destruct (legal_split _ _ Hl) as (L1 & L2 & L3).
    destruct (handler_good s (i_ev i) (i_fresh i) (i_bserial i) HI L1 L2 L3) as (m & Hm & HMI).
    assert (ms m = s) as Hms by (destruct He as [He|He]; rewrite He in Hm; injection Hm as <-; reflexivity).
    pose proof Hs as Hs2. rewrite step_step_fuel in Hs2. unfold step_fuel in Hs2. rewrite Hm in Hs2.
    pose proof (settle_spec (fuel_for m) m HMI) as Hsp.
    destruct (settle (fuel_for m) m) as [m'|m'|]; [|contradiction|discriminate].
    injection Hs2 as <- _. destruct Hsp as (_ & (Hsub & _) & _). rewrite Hms in Hsub. exact Hsub. }
  pose proof (reach_registry s' Hr') as [Hreg _].
  split; [exact Hc|]. split; [|split; [|split]].
  - intros u o Hu Ho.
    assert (objs s' !! u = None) as Hnone.
    { destruct (objs s' !! u) as [o'|] eqn:E; [|reflexivity]. exfalso.
      pose proof (lookup_weaken _ _ _ _ E Hsub) as E2. rewrite Hu in E2. injection E2 as <-. exact (Hno u o E Ho). }
    split; [exact Hnone|]. intros su. destruct (svcs s' !! (u, su)) as [sv|] eqn:E; [|reflexivity].
    destruct (Hreg _ _ _ E) as (o' & Ho' & _). congruence.
  - intros u o Hu. split; [exact (lookup_weaken _ _ _ _ Hu Hsub)|exact (Hno u o Hu)].
  - intros u o Hu Hne Hcon. apply (object_persists s i u o s' out Hr Hl Hu); [|exact Hs|exact Hcon].
    intros serial Hev. destruct He as [He|He]; rewrite He in Hev; discriminate.
  - intros ou su sv Hsv. destruct (Hreg _ _ _ Hsv) as (o & Ho & _). exists o. split; [exact Ho|exact (Hno ou o Ho)].
Qed.

(* the same over histories from the initial state *)
Theorem disconnect_run h s1 os1 i c s' out :
  legal_run init h -> run init h = Done (s1, os1) -> legal s1 i -> i_ev i = ConnectionShutdown c ->
  step s1 (i_ev i) (i_fresh i) (i_bserial i) = Done (s', out) ->
  conns s' !! c = None /\
  (forall u o, objs s' !! u = Some o -> o_owner o <> c) /\
  (forall ou su sv, svcs s' !! (ou, su) = Some sv -> exists o, objs s' !! ou = Some o /\ o_owner o <> c).
Proof.
  intros Hlh Hrun Hl He Hs.
  assert (reachable s1) as Hr by (eapply run_reachable; [apply reach_init|exact Hlh|exact Hrun]).
  destruct (disconnect_destroys s1 i c s' out Hr Hl (or_introl He) Hs) as (H1 & _ & H3 & _ & H5).
  split; [exact H1|]. split; [|exact H5]. intros u o Hu. exact (proj2 (H3 u o Hu)).
Qed.

(* ================================================================ satisfiability, and a cascade *)
Definition rin (e : event) (f : uuid) : input := {| i_ev := e; i_fresh := f; i_bserial := None |}.
Definition rstate (h : list input) : state :=
  match run init h with Done (s, _) | Fail (s, _) => s | Panic _ => init end.

(* connection 1 (version 20) owns object 5 (cookie 8) *)
Definition rh_obj : list input := [ rin (NewConnection 1 20) 7; rin (Message 1 (CreateObject 0 5)) 8 ].
Definition rex_info : info := {| i_version := 3; i_type_id := None; i_sub_all := Some true |}.
Definition rex_i : input := rin (Message 1 (CreateService2 1 8 6 (Some rex_info))) 9.

Example create_service_sat :
  let s := rstate rh_obj in
  reachable s /\ legal s rex_i /\
  conns s !! 1 = Some {| cs_ver := 20; cs_alive := true; cs_calls := ∅ |} /\
  is_create_service {| cs_ver := 20; cs_alive := true; cs_calls := ∅ |} (CreateService2 1 8 6 (Some rex_info)) 1 8 6 rex_info /\
  obj_by_cookie s 8 = Some (5, {| o_cookie := 8; o_owner := 1 |}) /\ svcs s !! (5, 6) = None /\
  bus_quiet s (EvServiceCreated 5 8 6 9) /\
  exists s' out, step s (i_ev rex_i) (i_fresh rex_i) (i_bserial rex_i) = Done (s', out).
Proof.
  cbv zeta.
  assert (Hrun : run init rh_obj = Done (rstate rh_obj, [[]; [(1, CreateObjectReply 0 (COOk 8), None)]])) by (vm_compute; reflexivity).
  split.
  { eapply (run_reachable rh_obj init); [apply reach_init| |exact Hrun].
    cbn [legal_run rh_obj]. split; [repeat split; done|]. intros s' o Hs.
    assert (s' = rstate [rin (NewConnection 1 20) 7]) as -> by (vm_compute in Hs; injection Hs as <- _; vm_compute; reflexivity).
    split; [|done]. split; [|repeat split; done]. vm_compute. intros Hin. set_solver. }
  split; [split; [|repeat split; done]; vm_compute; intros Hin; set_solver|].
  split; [vm_compute; reflexivity|]. split.
  { right. exists rex_info. split; [reflexivity|]. split; [vm_compute; discriminate|reflexivity]. }
  split; [vm_compute; reflexivity|]. split; [vm_compute; reflexivity|]. split.
  { intros d cs Hin. vm_compute in Hin. by apply elem_of_nil in Hin. }
  eexists _, _. vm_compute. reflexivity.
Qed.

(* why [bus_quiet] is needed for "every other entry is unchanged": connection 1 owns object 100 and
   a started bus listener for all objects, and has dropped its receiver; connection 2 creates
   object 200: the ObjectCreated event cannot be delivered to 1, so 1 is removed and its object 100
   is destroyed — in the step that handles 2's CreateObject.  (2's object is stored, 2 is answered.) *)
Definition rh_cascade : list input := [
  rin (NewConnection 1 20) 0; rin (NewConnection 2 20) 0;
  rin (Message 1 (CreateObject 0 100)) 1000;
  rin (Message 1 (CreateBusListener 1)) 1001;
  rin (Message 1 (AddBusListenerFilter 1001 (FObject None))) 0;
  rin (Message 1 (StartBusListener 2 1001 SNew)) 0;
  rin (DropTask 1) 0 ].

Example create_cascade_run :
  let s := rstate rh_cascade in
  objs s !! 100 = Some {| o_cookie := 1000; o_owner := 1 |} /\
  exists s', step s (Message 2 (CreateObject 5 200)) 2000 None =
               Done (s', [(2, CreateObjectReply 5 (COOk 2000), None)]) /\
             objs s' !! 100 = None /\ conns s' !! 1 = None /\
             objs s' !! 200 = Some {| o_cookie := 2000; o_owner := 2 |}.
Proof. cbv zeta. split; [vm_compute; reflexivity|]. eexists. split; [vm_compute; reflexivity|]. repeat split; vm_compute; reflexivity. Qed.
