(* Broker/IntroDb.v — the broker's introspection database on its own:
   broker/src/introspection_database.rs (IntrospectionDatabase, IntrospectionEntry) and the
   cfg(feature = "introspection") bodies of broker/src/broker.rs that use it
   (register_introspection, query_introspection, query_introspection_reply,
   remove_introspection_conn as called at the end of shutdown_connection), together with the little
   of the broker around them that these bodies read: the connection table (version, receiver-alive
   flag), the SerialMap<TypeId> of outstanding provider queries (SerialMap::insert = [iq_probe],
   the same loop as Broker/Model.v sm_probe), the remove_conns work stack and the idle-shutdown
   flag.  Broker/Model.v has only the cfg(not(feature = "introspection")) bodies; nothing here
   touches it.  All names carry an [i]/[I] prefix so that Props/C09.v can import both machines.

   Every `expect`, vector index, `swap_remove`, `random_range` over an empty range, `panic!` and
   `debug_assert!` the Rust executes on these paths is a [IPanic site]:
     101 Vec::swap_remove index out of range            (IntrospectionEntry::remove_conn)
     102 self.conn_ids[idx]                               (remove_conn, index-map fix-up)
     103 conn_id_idxs.get_mut(..).expect                  (remove_conn, index-map fix-up)
     104 debug_assert!(!self.conn_id_idxs.is_empty())     (remove_conn, unknown connection)
     105 debug_assert!(!self.conn_ids.is_empty())         (remove_conn, unknown connection)
     110 debug_assert!(self.queried.is_none())            (query_random_conn)
     111 debug_assert!(!self.conn_id_idxs.is_empty())     (query_random_conn)
     112 debug_assert!(!self.conn_ids.is_empty()) / random_range(0..0)   (query_random_conn)
     113 self.conn_ids[idx]                               (query_random_conn)
     120 debug_assert!(self.introspection.is_none())      (add_pending)
     121 conns.get(chosen).expect                         (Broker::query_introspection)
     130 panic!("inconsistent state")                     (IntrospectionDatabase::query_replied)
     131 debug_assert_eq!(serial, queried.serial)         (IntrospectionEntry::query_replied)
     132 debug_assert!(self.introspection.is_none())      (IntrospectionEntry::query_replied)
     133 debug_assert!(self.introspection.is_none())      (set_introspection)
     134 conns.get(pending.conn_id).expect                (query_introspection_reply, Available)
     135 conns.get(pending.conn_id).expect                (query_introspection_reply, Unavailable)
     136 conns.get(chosen).expect                         (query_introspection_reply, Continue)
     140 query_introspection.remove(serial).expect        (remove_introspection_conn)
     141 conns.get(chosen).expect                         (remove_introspection_conn, Continue)
     150 debug_assert!(dup.is_none())                     (handle_event NewConnection)
   The harness builds with debug-assertions on, so the debug_assert! sites are real there.

   Inputs that the Rust draws from its environment are model inputs: the provider chosen by
   `rand::rng().random_range(0..self.conn_ids.len())` is the next element [r] of the step's choice
   list, used as index [r mod len] (every index the Rust can draw is [r mod len] for some r; it is
   observable because the chosen connection receives QueryIntrospection).  A step that needs more
   choices than it was given stops with [IHalt (NeedChoice len)]; that is not a panic site.
   Hash-map iteration (entries.retain in remove_conn, the HashSet of RegisterIntrospection) uses
   the map's key order / the list order here; entries are independent of each other, only the
   order in which new query serials are handed out depends on it (the correspondence driver
   compares broker-made serials up to a bijection for that reason). *)
From stdpp Require Import gmap list.
From RecordUpdate Require Import RecordSet.
Import RecordSetNotations.
From Aldrin Require Import gen.BrokerConsts.
Local Open Scope N_scope.

Definition iconn := N.
Definition itid := N.       (* TypeId, opaque *)
Definition ipayload := N.   (* the SerializedValue of an Introspection, opaque *)

(* ---------------------------------------------------------------- outcomes *)
Inductive ihalt :=
| NeedChoice (len : nat)    (* the choice list is exhausted; len = conn_ids.len() at that point *)
| NoSerial                  (* SerialMap::insert does not terminate: all 2^32 serials occupied *)
| NoFuel.                   (* the work loop's fuel ran out (unreachable: IntroDbProofs.introdb_fuel) *)
Inductive ioutcome (A : Type) := IDone (a : A) | IFail (a : A) | IPanic (site : N) | IHalt (h : ihalt).
Arguments IDone {A} a. Arguments IFail {A} a. Arguments IPanic {A} site. Arguments IHalt {A} h.

(* ---------------------------------------------------------------- IntrospectionEntry *)
Record iquery := { q_conn : iconn; q_serial : N }.
Record ientry := {
  e_idxs : gmap iconn nat;        (* conn_id_idxs *)
  e_ids : list iconn;             (* conn_ids *)
  e_intro : option ipayload;      (* introspection *)
  e_queried : option iquery;      (* queried *)
  e_pending : list iquery }.      (* pending *)
#[export] Instance eta_iquery : Settable _ := settable! Build_iquery <q_conn; q_serial>.
#[export] Instance eta_ientry : Settable _ := settable! Build_ientry <e_idxs; e_ids; e_intro; e_queried; e_pending>.

(* #[derive(Default)] *)
Definition ientry0 : ientry := {| e_idxs := ∅; e_ids := []; e_intro := None; e_queried := None; e_pending := [] |}.

(* IntrospectionEntry::register *)
Definition entry_register (e : ientry) (c : iconn) : ientry :=
  match e_idxs e !! c with
  | Some _ => e
  | None => e <| e_idxs := <[c := length (e_ids e)]> (e_idxs e) |> <| e_ids := e_ids e ++ [c] |>
  end.

(* Vec::swap_remove: None = "swap_remove index (is i) should be < len" *)
Definition swap_remove (l : list iconn) (i : nat) : option (list iconn) :=
  match last l with
  | Some x => if (i <? length l)%nat then Some (take (length l - 1) (<[i := x]> l)) else None
  | None => None
  end.

(* the guard of the index-map fix-up, as a parameter so that Props/C09.v can exhibit what the
   theorems exclude; [guard_rust idx n] is `idx != self.conn_ids.len()` after the swap_remove *)
Definition guard_rust (idx n : nat) : bool := negb (idx =? n)%nat.

(* IntrospectionEntry::remove_conn; the bool is its result (false = no provider left) *)
Definition entry_remove_conn_g (gd : nat -> nat -> bool) (e : ientry) (c : iconn) : ioutcome (ientry * bool) :=
  let e1 := match e_queried e with
            | Some q => if bool_decide (q_conn q = c) then e <| e_queried := None |> else e
            | None => e
            end in
  let e2 := e1 <| e_pending := List.filter (fun p => negb (bool_decide (q_conn p = c))) (e_pending e1) |> in
  match e_idxs e2 !! c with
  | Some idx =>
      let e3 := e2 <| e_idxs := delete c (e_idxs e2) |> in
      if bool_decide (e_idxs e3 = ∅) then IDone (e3, false)
      else match swap_remove (e_ids e3) idx with
           | None => IPanic 101
           | Some ids' =>
               let e4 := e3 <| e_ids := ids' |> in
               if gd idx (length ids') then
                 match ids' !! idx with
                 | None => IPanic 102
                 | Some c' =>
                     match e_idxs e4 !! c' with
                     | None => IPanic 103
                     | Some _ => IDone (e4 <| e_idxs := <[c' := idx]> (e_idxs e4) |>, true)
                     end
                 end
               else IDone (e4, true)
           end
  | None =>
      if bool_decide (e_idxs e2 = ∅) then IPanic 104
      else if bool_decide (e_ids e2 = []) then IPanic 105
      else IDone (e2, true)
  end.
Definition entry_remove_conn := entry_remove_conn_g guard_rust.

(* IntrospectionEntry::queried *)
Definition entry_queried (e : ientry) : option N := q_serial <$> e_queried e.

(* IntrospectionEntry::query_random_conn with the drawn number r (index r mod len) *)
Definition entry_query_random_conn (e : ientry) (serial : N) (r : N) : ioutcome (ientry * iconn) :=
  if bool_decide (is_Some (e_queried e)) then IPanic 110
  else if bool_decide (e_idxs e = ∅) then IPanic 111
  else if bool_decide (e_ids e = []) then IPanic 112
  else match e_ids e !! N.to_nat (r mod N.of_nat (length (e_ids e))) with
       | None => IPanic 113
       | Some c => IDone (e <| e_queried := Some {| q_conn := c; q_serial := serial |} |>, c)
       end.

(* ---------------------------------------------------------------- messages, events *)
Inductive imsg :=
| IQuery (serial : N) (t : itid)                   (* QueryIntrospection, broker -> provider *)
| IQueryReply (serial : N) (r : option ipayload)   (* QueryIntrospectionReply, broker -> requester *)
| IShutdown.
Definition iout := (iconn * imsg)%type.

Inductive ievent :=
| INew (c : iconn) (ver : N)                       (* ConnectionEvent::NewConnection *)
| IConnShutdown (c : iconn)                        (* ConnectionEvent::ConnectionShutdown *)
| IShutdownConn (c : iconn)                        (* ConnectionEvent::ShutdownConnection (forced) *)
| IDropTask (c : iconn)                            (* environment: the Connection future was dropped *)
| IRegister (c : iconn) (ts : option (list itid))  (* RegisterIntrospection; None = value does not deserialize *)
| IQueryMsg (c : iconn) (serial : N) (t : itid)    (* QueryIntrospection from a client *)
| IReplyMsg (c : iconn) (serial : N) (r : option ipayload)   (* QueryIntrospectionReply from a client *)
| IShutdownIdle.                                   (* ConnectionEvent::ShutdownIdleBroker *)

(* ---------------------------------------------------------------- state *)
Record icinfo := { ci_ver : N; ci_alive : bool }.
Record istate := {
  i_conns : gmap iconn icinfo;     (* Broker::conns *)
  i_entries : gmap itid ientry;    (* IntrospectionDatabase::entries *)
  i_qmap : gmap N itid;            (* Broker::query_introspection : SerialMap<TypeId>, elems *)
  i_qnext : N;                     (*                                                  next *)
  i_idle : bool }.                 (* State::shutdown_idle *)
(* the machine inside one step: state, remove_conns stack, outputs so far, unused choices *)
Record IM := { ims : istate; imq : list (iconn * bool); imo : list iout; imc : list N }.
#[export] Instance eta_icinfo : Settable _ := settable! Build_icinfo <ci_ver; ci_alive>.
#[export] Instance eta_istate : Settable _ := settable! Build_istate <i_conns; i_entries; i_qmap; i_qnext; i_idle>.
#[export] Instance eta_IM : Settable _ := settable! Build_IM <ims; imq; imo; imc>.

Definition iinit : istate :=
  {| i_conns := ∅; i_entries := ∅; i_qmap := ∅; i_qnext := 0; i_idle := false |}.

Definition iandThen (x : ioutcome IM) (f : IM -> ioutcome IM) : ioutcome IM :=
  match x with IDone a => f a | IFail a => IFail a | IPanic s => IPanic s | IHalt h => IHalt h end.
Notation "m1 >>>> f" := (iandThen m1 f) (at level 62, left associativity).

Fixpoint ifoldO {A} (f : IM -> A -> ioutcome IM) (l : list A) (m : IM) : ioutcome IM :=
  match l with
  | [] => IDone m
  | x :: r => match f m x with IDone m' => ifoldO f r m' | o => o end
  end.

(* ---------------------------------------------------------------- SerialMap<TypeId>::insert *)
(* the loop of broker/src/serial_map.rs (text pinned by tools/rs2v_broker.py), as in Model.v *)
Definition iq_wrap_succ (n : N) : N := (n + 1) mod 4294967296.
Fixpoint iq_probe (fuel : nat) (occ : N -> bool) (n : N) : option (N * N) :=
  match fuel with
  | O => None
  | S fuel' => if occ n then iq_probe fuel' occ (iq_wrap_succ n) else Some (n, iq_wrap_succ n)
  end.
Definition iq_insert (s : istate) (t : itid) : option (N * istate) :=
  match iq_probe (S (size (i_qmap s))) (fun n => bool_decide (is_Some (i_qmap s !! n))) (i_qnext s) with
  | None => None
  | Some (serial, nxt) => Some (serial, s <| i_qmap := <[serial := t]> (i_qmap s) |> <| i_qnext := nxt |>)
  end.

(* ---------------------------------------------------------------- sending *)
Definition ipush_remove (m : IM) (c : iconn) (sd : bool) : IM := m <| imq ::= cons (c, sd) |>.
Definition iemit (m : IM) (c : iconn) (x : imsg) : IM := m <| imo := imo m ++ [(c, x)] |>.

(* `if send!(self, conn, msg).is_err() { state.push_remove_conn(conn_id, false) }` on a connection
   state the caller has looked up *)
Definition isend_or_remove (m : IM) (c : iconn) (ci : icinfo) (x : imsg) : IM :=
  if ci_alive ci then iemit m c x else ipush_remove m c false.

(* insert a serial, draw a provider, look it up, send it the query: the common tail of
   query_introspection, query_introspection_reply (Continue) and remove_introspection_conn
   (Continue); [e] is the entry of [t] as the caller holds it; [site] is the caller's
   conns.get(..).expect *)
Definition iask_provider (site : N) (m : IM) (t : itid) (e : ientry) : ioutcome IM :=
  match iq_insert (ims m) t with
  | None => IHalt NoSerial
  | Some (serial, s1) =>
      if bool_decide (is_Some (e_queried e)) then IPanic 110
      else if bool_decide (e_idxs e = ∅) then IPanic 111
      else if bool_decide (e_ids e = []) then IPanic 112
      else match imc m with
           | [] => IHalt (NeedChoice (length (e_ids e)))
           | r :: rest =>
               match entry_query_random_conn e serial r with
               | IDone (e', c) =>
                   let m1 := m <| ims := s1 <| i_entries := <[t := e']> (i_entries s1) |> |> <| imc := rest |> in
                   match i_conns (ims m1) !! c with
                   | None => IPanic site
                   | Some ci => IDone (isend_or_remove m1 c ci (IQuery serial t))
                   end
               | IFail _ => IPanic 113
               | IPanic s => IPanic s
               | IHalt h => IHalt h
               end
           end
  end.

(* answer a list of taken pending queries; [site] = conns.get(..).expect, or None where the Rust
   skips unknown connections (`let Some(conn) = .. else { continue }`) *)
Definition ianswer (site : option N) (r : option ipayload) (m : IM) (q : iquery) : ioutcome IM :=
  match i_conns (ims m) !! q_conn q with
  | None => match site with Some s => IPanic s | None => IDone m end
  | Some ci => IDone (isend_or_remove m (q_conn q) ci (IQueryReply (q_serial q) r))
  end.

(* ---------------------------------------------------------------- Broker::register_introspection *)
Definition db_register (m : IM) (c : iconn) (ts : option (list itid)) : ioutcome IM :=
  match i_conns (ims m) !! c with
  | None => IDone m
  | Some ci =>
      if ci_ver ci <? GATE_register_introspection_0_LT then IFail m
      else match ts with
           | None => IFail m
           | Some l =>
               (* IntrospectionDatabase::register: entries.entry(t).or_default().register(c) *)
               IDone (m <| ims; i_entries ::= fun ents =>
                        foldl (fun ents t => <[t := entry_register (default ientry0 (ents !! t)) c]> ents) ents l |>)
           end
  end.

(* ---------------------------------------------------------------- Broker::query_introspection *)
Definition db_query (m : IM) (c : iconn) (serial : N) (t : itid) : ioutcome IM :=
  match i_conns (ims m) !! c with
  | None => IDone m
  | Some ci =>
      if ci_ver ci <? GATE_query_introspection_0_LT then IFail m
      else match i_entries (ims m) !! t with
           | None => if ci_alive ci then IDone (iemit m c (IQueryReply serial None)) else IFail m
           | Some e =>
               match e_intro e with
               | Some p => if ci_alive ci then IDone (iemit m c (IQueryReply serial (Some p))) else IFail m
               | None =>
                   (* add_pending (its debug_assert!(introspection.is_none()) holds in this branch) *)
                   let e1 := e <| e_pending := e_pending e ++ [{| q_conn := c; q_serial := serial |}] |> in
                   let m1 := m <| ims; i_entries ::= <[t := e1]> |> in
                   match e_queried e1 with
                   | Some _ => IDone m1
                   | None => iask_provider 121 m1 t e1
                   end
               end
           end
  end.

(* ---------------------------------------------------------------- Broker::query_introspection_reply *)
Definition db_reply (m : IM) (c : iconn) (serial : N) (r : option ipayload) : ioutcome IM :=
  match i_conns (ims m) !! c with
  | None => IDone m
  | Some ci =>
      if ci_ver ci <? GATE_query_introspection_reply_0_LT then IFail m
      else match i_qmap (ims m) !! serial with
           | None => IFail m
           | Some t =>
               (* IntrospectionDatabase::query_replied *)
               match i_entries (ims m) !! t with
               | None => IPanic 130
               | Some e =>
                   (* IntrospectionEntry::query_replied *)
                   match e_queried e with
                   | None => IFail m
                   | Some q =>
                       if negb (bool_decide (q_conn q = c)) then IFail m
                       else if negb (bool_decide (q_serial q = serial)) then IPanic 131
                       else if bool_decide (is_Some (e_intro e)) then IPanic 132
                       else
                         let e1 := e <| e_queried := None |> in
                         (* type_id.remove() *)
                         let m1 := m <| ims; i_qmap ::= delete serial |> in
                         match r with
                         | Some p =>
                             (* take_pending, set_introspection; IntrospectionQueryResult::Available *)
                             if bool_decide (is_Some (e_intro e1)) then IPanic 133 else
                             let e2 := e1 <| e_pending := [] |> <| e_intro := Some p |> in
                             ifoldO (ianswer (Some 134) (Some p)) (e_pending e1) (m1 <| ims; i_entries ::= <[t := e2]> |>)
                         | None =>
                             match entry_remove_conn e1 c with
                             | IDone (e2, true) =>
                                 (* IntrospectionQueryResult::Continue *)
                                 iask_provider 136 (m1 <| ims; i_entries ::= <[t := e2]> |>) t e2
                             | IDone (e2, false) =>
                                 (* entry.remove().take_pending(); IntrospectionQueryResult::Unavailable *)
                                 ifoldO (ianswer (Some 135) None) (e_pending e2) (m1 <| ims; i_entries ::= delete t |>)
                             | IFail _ => IPanic 101
                             | IPanic s => IPanic s
                             | IHalt h => IHalt h
                             end
                         end
                   end
               end
           end
  end.

(* ---------------------------------------------------------------- IntrospectionDatabase::remove_conn *)
Inductive irc_result :=
| RCont (serial : N) (t : itid)                       (* RemoveConn::cont *)
| RUnavail (serial : N) (pending : list iquery).      (* RemoveConn::unavailable *)

(* what the retain closure does with one entry *)
Definition erc_keep (c : iconn) (e : ientry) : option ientry :=
  match entry_remove_conn e c with IDone (e', true) => Some e' | _ => None end.
Definition erc_panic (c : iconn) (p : itid * ientry) : option N :=
  match entry_remove_conn p.2 c with IPanic s => Some s | _ => None end.
Definition erc_result (c : iconn) (p : itid * ientry) : option irc_result :=
  match entry_remove_conn p.2 c with
  | IDone (e', retain) =>
      match entry_queried p.2, entry_queried e' with
      | Some serial, None => Some (if retain then RCont serial p.1 else RUnavail serial (e_pending e'))
      | _, _ => None
      end
  | _ => None
  end.
Definition db_remove_conn (ents : gmap itid ientry) (c : iconn) : ioutcome (gmap itid ientry * list irc_result) :=
  match omap (erc_panic c) (map_to_list ents) with
  | s :: _ => IPanic s
  | [] => IDone (omap (erc_keep c) ents, omap (erc_result c) (map_to_list ents))
  end.

(* ---------------------------------------------------------------- Broker::remove_introspection_conn *)
Definition irc_serial (r : irc_result) : N := match r with RCont s _ | RUnavail s _ => s end.
Definition iremove_result (m : IM) (r : irc_result) : ioutcome IM :=
  match i_qmap (ims m) !! irc_serial r with
  | None => IPanic 140
  | Some _ =>
      let m1 := m <| ims; i_qmap ::= delete (irc_serial r) |> in
      match r with
      | RUnavail _ pending => ifoldO (ianswer None None) pending m1
      | RCont _ t =>
          match i_entries (ims m1) !! t with
          | None => IDone m1
          | Some e => iask_provider 141 m1 t e
          end
      end
  end.
Definition iremove_introspection_conn (m : IM) (c : iconn) : ioutcome IM :=
  match db_remove_conn (i_entries (ims m)) c with
  | IDone (ents', results) => ifoldO iremove_result results (m <| ims; i_entries := ents' |>)
  | IFail _ => IPanic 101
  | IPanic s => IPanic s
  | IHalt h => IHalt h
  end.

(* Broker::shutdown_connection, the parts present in this machine *)
Definition ishutdown_conn (m : IM) (c : iconn) (send_shutdown : bool) : ioutcome IM :=
  match i_conns (ims m) !! c with
  | None => IDone m
  | Some ci =>
      let m0 := m <| ims; i_conns ::= delete c |> in
      let m1 := if send_shutdown && ci_alive ci then iemit m0 c IShutdown else m0 in
      iremove_introspection_conn m1 c
  end.

(* ---------------------------------------------------------------- the work loop *)
Fixpoint isettle (fuel : nat) (m : IM) : ioutcome IM :=
  match imq m with
  | [] => IDone m
  | (c, sd) :: rest =>
      match fuel with
      | O => IHalt NoFuel
      | S f =>
          match ishutdown_conn (m <| imq := rest |>) c sd with
          | IDone m' | IFail m' => isettle f m'
          | IPanic s => IPanic s
          | IHalt h => IHalt h
          end
      end
  end.

(* every removal of a connected connection lowers |conns|; what it can push is bounded by the
   entries and pending queries present, which never grow inside the loop *)
Definition iload (s : istate) : nat :=
  map_fold (fun _ e acc => (1 + length (e_pending e) + acc)%nat) 0%nat (i_entries s).
Definition ifuel_for (m : IM) : nat :=
  S (length (imq m) + size (i_conns (ims m)) * (2 + iload (ims m)))%nat.

(* ---------------------------------------------------------------- one step *)
Definition istep (s : istate) (e : ievent) (choices : list N) : ioutcome (istate * list iout) :=
  let m0 := {| ims := s; imq := []; imo := []; imc := choices |} in
  let fail_to (c : iconn) (r : ioutcome IM) : ioutcome IM :=
    match r with IFail m => IDone (ipush_remove m c false) | o => o end in
  let r : ioutcome IM :=
    match e with
    | INew c ver =>
        match i_conns s !! c with
        | Some _ => IPanic 150
        | None => IDone (m0 <| ims; i_conns ::= <[c := {| ci_ver := ver; ci_alive := true |}]> |>)
        end
    | IConnShutdown c => IDone (ipush_remove m0 c false)
    | IShutdownConn c => IDone (ipush_remove m0 c true)
    | IDropTask c =>
        IDone (match i_conns s !! c with
               | Some ci => m0 <| ims; i_conns ::= <[c := ci <| ci_alive := false |>]> |>
               | None => m0
               end)
    | IRegister c ts => fail_to c (db_register m0 c ts)
    | IQueryMsg c serial t => fail_to c (db_query m0 c serial t)
    | IReplyMsg c serial r => fail_to c (db_reply m0 c serial r)
    | IShutdownIdle => IDone (m0 <| ims; i_idle := true |>)
    end in
  match r with
  | IDone m | IFail m =>
      match isettle (ifuel_for m) m with
      | IDone m' | IFail m' => IDone (ims m', imo m')
      | IPanic site => IPanic site
      | IHalt h => IHalt h
      end
  | IPanic site => IPanic site
  | IHalt h => IHalt h
  end.

(* Broker::run's exit test, without shutdown_now (this machine has no ShutdownBroker) *)
Definition iexits (s : istate) : bool := i_idle s && bool_decide (i_conns s = ∅).

(* ---------------------------------------------------------------- histories *)
(* connection ids are never reused while connected (ConnectionId is a counter in the Rust) *)
Definition ilegal (s : istate) (e : ievent) : Prop :=
  match e with INew c _ => i_conns s !! c = None | _ => True end.

Inductive ireachable : istate -> Prop :=
| ireach_init : ireachable iinit
| ireach_step s e ch s' o : ireachable s -> ilegal s e -> istep s e ch = IDone (s', o) -> ireachable s'.

(* the translator pinned the text of the 18 functions of broker/src/introspection_database.rs and of the
   4 cfg(feature = "introspection") handlers of broker/src/broker.rs this file transcribes *)
Example introdb_pinned : INTRODB_PINNED_FNS = 22.
Proof. reflexivity. Qed.
