(* Broker/Inv.v — the consistency invariant of the abstract broker machine (Model.v).

   [Inv s] is what holds between two steps; [MI m] is the same statement generalised to the
   machine in the middle of a step, where two work queues carry obligations:
   - [w_rm_call]: calls already deleted from [calls] whose caller still has the pending entry
     (the reply InvalidService is sent when the item is processed);
   - [w_abort]: the calls of a connection that was just removed, not yet marked aborted.
   Every clause takes the fields it talks about as separate arguments, so that a function which
   does not touch those fields preserves the clause by conversion. *)
From stdpp Require Import gmap list.
From RecordUpdate Require Import RecordSet.
Import RecordSetNotations.
From Aldrin Require Import gen.BrokerConsts Broker.Model Broker.Run Broker.ChannelProofs.
Local Open Scope N_scope.

(* ---------------------------------------------------------------- registry *)
(* every service has its object, and records that object's cookie *)
Definition reg_so (O : gmap uuid obj) (S : gmap (uuid * uuid) svc) : Prop :=
  ∀ k sv, S !! k = Some sv → ∃ o, O !! k.1 = Some o ∧ s_obj_cookie sv = o_cookie o.
(* cookies identify objects / services *)
Definition uniq_obj (O : gmap uuid obj) : Prop :=
  ∀ u1 u2 o1 o2, O !! u1 = Some o1 → O !! u2 = Some o2 → o_cookie o1 = o_cookie o2 → u1 = u2.
Definition uniq_svc (S : gmap (uuid * uuid) svc) : Prop :=
  ∀ k1 k2 s1 s2, S !! k1 = Some s1 → S !! k2 = Some s2 → s_cookie s1 = s_cookie s2 → k1 = k2.

(* ---------------------------------------------------------------- owners *)
(* everything that names a connection names one of [X] (between steps: the connected ones) *)
Definition own_obj (X : gset conn) (O : gmap uuid obj) : Prop :=
  ∀ u o, O !! u = Some o → o_owner o ∈ X.
Definition own_lis (X : gset conn) (L : gmap uuid lis) : Prop :=
  ∀ k l, L !! k = Some l → l_owner l ∈ X.
Definition svc_own (X : gset conn) (sv : svc) : Prop :=
  s_all sv ⊆ X ∧ s_subs sv ⊆ X ∧
  ∀ e set, s_events sv !! e = Some set → set ⊆ X ∧ set ≠ ∅.
Definition own_svc (X : gset conn) (S : gmap (uuid * uuid) svc) : Prop :=
  ∀ k sv, S !! k = Some sv → svc_own X sv.
Definition end_own (X : gset conn) (e : end_state) : Prop :=
  match e with Claimed o _ => o ∈ X | _ => True end.
Definition own_chan (X : gset conn) (C : gmap uuid chan) : Prop :=
  ∀ k ch, C !! k = Some ch → end_own X (ch_s ch) ∧ end_own X (ch_r ch).

(* ---------------------------------------------------------------- channels *)
Definition chans_ok (C : gmap uuid chan) : Prop := ∀ k ch, C !! k = Some ch → chan_ok ch.

(* ---------------------------------------------------------------- calls *)
(* a live call belongs to a live service, which lists it; and conversely *)
Definition calls_svc (S : gmap (uuid * uuid) svc) (K : gmap N call) : Prop :=
  ∀ b cl, K !! b = Some cl → ∃ sv, S !! c_svc cl = Some sv ∧ b ∈ s_calls sv.
Definition svc_calls (S : gmap (uuid * uuid) svc) (K : gmap N call) : Prop :=
  ∀ k sv b, S !! k = Some sv → b ∈ s_calls sv → ∃ cl, K !! b = Some cl ∧ c_svc cl = k.
(* the allocator's counter and every live broker serial are u32 *)
Definition calls_bound (K : gmap N call) (nxt : N) : Prop :=
  nxt < 4294967296 ∧ ∀ b, is_Some (K !! b) → b < 4294967296.
(* a live, non-aborted call of a connected caller is in the caller's pending map, under its
   serial, with the broker-side serial *)
Definition call_entry (Cn : gmap conn cstate) (K : gmap N call) : Prop :=
  ∀ b cl cs, K !! b = Some cl → c_aborted cl = false → Cn !! c_caller cl = Some cs →
    ∃ callee, cs_calls cs !! c_serial cl = Some (b, callee).
(* an entry of a pending map is such a call, or (mid-step) a deleted call queued in w_rm_call *)
Definition entry_call (q : list (N * conn * call_result)) (Cn : gmap conn cstate) (K : gmap N call) : Prop :=
  ∀ c cs serial b callee, Cn !! c = Some cs → cs_calls cs !! serial = Some (b, callee) →
    (∃ cl, K !! b = Some cl ∧ c_caller cl = c ∧ c_serial cl = serial ∧ c_aborted cl = false) ∨
    (K !! b = None ∧ ∃ r, (serial, c, r) ∈ q).
(* WorkOk, w_rm_call: an item for a connected caller names an entry of its pending map that
   refers to a deleted call; no two items for the same (caller, serial) *)
Definition rmq_entry (q : list (N * conn * call_result)) (Cn : gmap conn cstate) (K : gmap N call) : Prop :=
  ∀ serial c r cs, (serial, c, r) ∈ q → Cn !! c = Some cs →
    ∃ b callee, cs_calls cs !! serial = Some (b, callee) ∧ K !! b = None.
Fixpoint rmq_nodup (Cn : gmap conn cstate) (q : list (N * conn * call_result)) : Prop :=
  match q with
  | [] => True
  | (serial, c, _) :: rest => (is_Some (Cn !! c) → ∀ r, (serial, c, r) ∉ rest) ∧ rmq_nodup Cn rest
  end.
(* WorkOk, w_abort: a live non-aborted call has a caller in [X] (connected), or is queued for abort *)
Definition caller_live (wa : list (N * conn)) (X : gset conn) (K : gmap N call) : Prop :=
  ∀ b cl, K !! b = Some cl → c_aborted cl = false →
    c_caller cl ∈ X ∨ ∃ callee, (b, callee) ∈ wa.
(* the callee recorded with a pending entry owns the called service's object *)
Definition entry_callee (O : gmap uuid obj) (Cn : gmap conn cstate) (K : gmap N call) : Prop :=
  ∀ c cs serial b callee cl, Cn !! c = Some cs → cs_calls cs !! serial = Some (b, callee) →
    K !! b = Some cl → ∃ o, O !! (c_svc cl).1 = Some o ∧ o_owner o = callee.

(* ---------------------------------------------------------------- the invariant *)
(* [X]: the connections that may be named as owners / subscribers / callers.  Between steps and
   at every point of a handler this is [dom conns]; while shutdown_conn removes connection c it
   is [dom conns ∪ {c}]. *)
Record InvO (O : gmap uuid obj) (X : gset conn) (q : list (N * conn * call_result)) (wa : list (N * conn))
    (s : state) : Prop := {
  iv_reg : reg_so O (svcs s);
  iv_uo : uniq_obj O;
  iv_us : uniq_svc (svcs s);
  iv_oo : own_obj X O;
  iv_ol : own_lis X (listeners s);
  iv_os : own_svc X (svcs s);
  iv_oc : own_chan X (chans s);
  iv_ch : chans_ok (chans s);
  iv_cs : calls_svc (svcs s) (calls s);
  iv_sc : svc_calls (svcs s) (calls s);
  iv_cb : calls_bound (calls s) (next s);
  iv_ce : call_entry (conns s) (calls s);
  iv_ec : entry_call q (conns s) (calls s);
  iv_qe : rmq_entry q (conns s) (calls s);
  iv_qn : rmq_nodup (conns s) q;
  iv_cl : caller_live wa X (calls s) }.

(* [O]: the objects as far as the services are concerned: [objs s], except while remove_object
   has deleted the object and is still removing its services *)
Definition InvX X q wa (s : state) : Prop := InvO (objs s) X q wa s.
Definition InvW q wa (s : state) : Prop := InvX (dom (conns s)) q wa s.

(* between steps *)
Definition Inv (s : state) : Prop := InvW [] [] s.
(* in the middle of a step *)
Definition MO (O : gmap uuid obj) (X : gset conn) (m : M) : Prop :=
  InvO O X (w_rm_call (mw m)) (w_abort (mw m)) (ms m).
Definition MX (X : gset conn) (m : M) : Prop := MO (objs (ms m)) X m.
Definition MI (m : M) : Prop := MX (dom (conns (ms m))) m.

(* result of a handler / work item from an [MI] machine: no panic site, [MI] again *)
Definition good (r : outcome M) : Prop :=
  match r with Done m' | Fail m' => MI m' | Panic _ => False end.

(* only [mo] and the queues that carry no obligations changed *)
Definition quiet (m m' : M) : Prop :=
  ms m' = ms m ∧ w_rm_call (mw m') = w_rm_call (mw m) ∧ w_abort (mw m') = w_abort (mw m).

(* frames: the state up to the fields a function may touch *)
Definition blank_lis (s : state) : state := s <| listeners := ∅ |> <| st := stats0 |>.
Definition blank_chans (s : state) : state := s <| chans := ∅ |> <| st := stats0 |>.
Definition blank_sc (s : state) : state := s <| svcs := ∅ |> <| calls := ∅ |> <| st := stats0 |>.
Definition blank_osc (s : state) : state := s <| objs := ∅ |> <| svcs := ∅ |> <| calls := ∅ |> <| st := stats0 |>.
Definition blank_svcs (s : state) : state := s <| svcs := ∅ |>.
Definition blank_cc (s : state) : state := s <| conns := ∅ |> <| calls := ∅ |>.
