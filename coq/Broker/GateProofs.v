(* Broker/GateProofs.v — C12 on the abstract broker machine (Broker/Model.v):
   gate-in  (a message newer than the sender's negotiated version removes the sender),
   gate-out (no output is newer than its destination's version),
   payload tags (payload-carrying outputs carry the version of the connection that produced the
   payload, broker-made messages carry None).
   The version tables below are written with the literal numbers of the protocol; [gates_tie]
   shows they are the numbers Model.v takes from gen/BrokerConsts.v (read from broker.rs). *)
From stdpp Require Import gmap list.
From RecordUpdate Require Import RecordSet.
Import RecordSetNotations.
From Aldrin Require Import gen.BrokerConsts Broker.Model Broker.Run.
From Coq Require Import ZifyBool ZifyNat ZifyN Lia.
Local Open Scope N_scope.

(* ================================================================ the tables *)
(* first protocol minor version in which a client may SEND the message to the broker *)
Definition min_version_of (x : msg) : option N :=
  match x with
  | CallFunction2 _ _ _ _ _ => Some 19
  | AbortFunctionCall _ => Some 16
  | RegisterIntrospection | QueryIntrospection _ | QueryIntrospectionReply _
  | CreateService2 _ _ _ _ | QueryServiceInfo _ _ => Some 17
  | SubscribeService _ _ | UnsubscribeService _ | SubscribeAllEvents _ _
  | UnsubscribeAllEvents _ _ => Some 18
  | _ => None
  end.

(* first protocol minor version whose clients understand the message when the broker SENDS it *)
Definition msg_min_version (x : msg) : N :=
  match x with
  | CallFunction2 _ _ _ _ _ => 19
  | AbortFunctionCall _ => 16
  | QueryIntrospectionReply _ | QueryServiceInfoReply _ _ => 17
  | SubscribeServiceReply _ _ | SubscribeAllEvents _ _ | SubscribeAllEventsReply _ _
  | UnsubscribeAllEvents _ _ | UnsubscribeAllEventsReply _ _ => 18
  | _ => 14
  end.

(* the gate Model.v applies to an incoming message (from gen/BrokerConsts.v) *)
Definition model_gate_of (x : msg) : option N :=
  match x with
  | CallFunction2 _ _ _ _ _ => Some MIN_CALL_FUNCTION2
  | AbortFunctionCall _ => Some MIN_ABORT_FUNCTION_CALL
  | RegisterIntrospection => Some MIN_REGISTER_INTROSPECTION
  | QueryIntrospection _ => Some MIN_QUERY_INTROSPECTION
  | QueryIntrospectionReply _ => Some MIN_QUERY_INTROSPECTION_REPLY
  | CreateService2 _ _ _ _ => Some MIN_CREATE_SERVICE2
  | QueryServiceInfo _ _ => Some MIN_QUERY_SERVICE_INFO
  | SubscribeService _ _ => Some MIN_SUBSCRIBE_SERVICE
  | UnsubscribeService _ => Some MIN_UNSUBSCRIBE_SERVICE
  | SubscribeAllEvents _ _ => Some MIN_SUBSCRIBE_ALL_EVENTS
  | UnsubscribeAllEvents _ _ => Some MIN_UNSUBSCRIBE_ALL_EVENTS
  | _ => None
  end.

Example gates_tie : forall x, model_gate_of x = min_version_of x.
Proof. intros x. destruct x; reflexivity. Qed.

Example gates_out_tie :
  (MIN_CALL_FUNCTION2_OUT, MIN_ABORT_FUNCTION_CALL_OUT, MIN_SUBSCRIBE_ALL_EVENTS_OWNER,
   MIN_UNSUBSCRIBE_ALL_EVENTS_OWNER, MIN_CREATE_SERVICE2_SUB_ALL) = (19, 16, 18, 18, 18).
Proof. reflexivity. Qed.

(* ================================================================ outcomes and relations *)
Definition oR (R : M -> M -> Prop) (m : M) (x : outcome M) : Prop :=
  match x with Done m' | Fail m' => R m m' | Panic _ => True end.

Section combinators.
  Context (R : M -> M -> Prop) (Rrefl : forall m, R m m)
          (Rtrans : forall a b c, R a b -> R b c -> R a c).

  Lemma oR_done m : oR R m (Done m). Proof. apply Rrefl. Qed.
  Lemma oR_fail m : oR R m (Fail m). Proof. apply Rrefl. Qed.

  Lemma oR_step m m1 x : R m m1 -> oR R m1 x -> oR R m x.
  Proof. intros H. destruct x; cbn; eauto. Qed.

  Lemma oR_bind m x f : oR R m x -> (forall m1, oR R m1 (f m1)) -> oR R m (x >>> f).
  Proof.
    intros Hx Hf. destruct x as [m1|m1|]; cbn in *; try assumption.
    eapply oR_step; [exact Hx|apply Hf].
  Qed.

  Lemma oR_foldO {A} (f : M -> A -> outcome M) l :
    (forall m a, oR R m (f m a)) -> forall m, oR R m (foldO f l m).
  Proof.
    intros Hf. induction l as [|a l IH]; intros m; cbn [foldO]; [apply Rrefl|].
    specialize (Hf m a). destruct (f m a) as [m1|m1|]; cbn in *; try assumption.
    eapply oR_step; [exact Hf|apply IH].
  Qed.

  Lemma R_foldl {A} (f : M -> A -> M) l : (forall m a, R m (f m a)) -> forall m, R m (foldl f m l).
  Proof. intros Hf. induction l as [|a l IH]; intros m; cbn; [apply Rrefl|]. eapply Rtrans; [apply Hf|apply IH]. Qed.

  Lemma R_foldr {A} (f : A -> M -> M) l : (forall m a, R m (f a m)) -> forall m, R m (foldr f m l).
  Proof. intros Hf. induction l as [|a l IH]; intros m; cbn; [apply Rrefl|]. eapply Rtrans; [apply IH|apply Hf]. Qed.
End combinators.

(* ================================================================ the shrinking relation *)
(* [cle a b]: every connection of [b] is a connection of [a] with the same version *)
Definition cle (a b : gmap conn cstate) : Prop :=
  forall k cs', b !! k = Some cs' -> exists cs, a !! k = Some cs /\ cs_ver cs' = cs_ver cs.
Definition ole (a b : gmap uuid obj) : Prop := forall u o, b !! u = Some o -> a !! u = Some o.
Definition sle (a b : gmap (uuid * uuid) svc) : Prop :=
  forall k sv', b !! k = Some sv' -> exists sv, a !! k = Some sv /\ (s_all sv' <> ∅ -> s_all sv <> ∅).

Lemma cle_refl a : cle a a. Proof. intros k cs H. eauto. Qed.
Lemma cle_trans a b c : cle a b -> cle b c -> cle a c.
Proof. intros H1 H2 k cs Hk. destruct (H2 _ _ Hk) as (cs1 & Hk1 & E1). destruct (H1 _ _ Hk1) as (cs0 & Hk0 & E0). exists cs0. split; congruence. Qed.
Lemma cle_delete a c : cle a (delete c a).
Proof. intros k cs H. apply lookup_delete_Some in H as [_ H]. eauto. Qed.
Lemma cle_insert a c cs cs' : a !! c = Some cs -> cs_ver cs' = cs_ver cs -> cle a (<[c := cs']> a).
Proof.
  intros Hc Hv k x H. apply lookup_insert_Some in H as [[<- <-]|[_ H]]; eauto.
Qed.

Lemma ole_refl a : ole a a. Proof. intros u o H. exact H. Qed.
Lemma ole_trans a b c : ole a b -> ole b c -> ole a c. Proof. unfold ole. eauto. Qed.
Lemma ole_delete a u : ole a (delete u a).
Proof. intros k o H. apply lookup_delete_Some in H as [_ H]. exact H. Qed.

Lemma sle_refl a : sle a a. Proof. intros k sv H. eauto. Qed.
Lemma sle_trans a b c : sle a b -> sle b c -> sle a c.
Proof. intros H1 H2 k sv Hk. destruct (H2 _ _ Hk) as (s1 & Hk1 & E1). destruct (H1 _ _ Hk1) as (s0 & Hk0 & E0). exists s0. split; auto. Qed.
Lemma sle_delete a k : sle a (delete k a).
Proof. intros k' sv H. apply lookup_delete_Some in H as [_ H]. eauto. Qed.
Lemma sle_insert a k s s' : a !! k = Some s -> (s_all s' <> ∅ -> s_all s <> ∅) -> sle a (<[k := s']> a).
Proof. intros Hk Hs k' x H. apply lookup_insert_Some in H as [[<- <-]|[_ H]]; eauto. Qed.
Lemma sle_fmap a (f : svc -> svc) : (forall s, s_all (f s) = s_all s) -> sle a (f <$> a).
Proof.
  intros Hf k x H. rewrite lookup_fmap in H. destruct (a !! k) as [s|] eqn:E; [|discriminate].
  cbn in H. injection H as <-. exists s. rewrite Hf. auto.
Qed.

Record shr (a b : state) : Prop := {
  shr_c : cle (conns a) (conns b);
  shr_o : ole (objs a) (objs b);
  shr_s : sle (svcs a) (svcs b) }.

Lemma shr_refl a : shr a a.
Proof. split; [apply cle_refl|apply ole_refl|apply sle_refl]. Qed.
Lemma shr_trans a b c : shr a b -> shr b c -> shr a c.
Proof. intros [] []. split; [eapply cle_trans|eapply ole_trans|eapply sle_trans]; eassumption. Qed.

(* ================================================================ gate-out invariants *)
(* a subscribe-all bookkeeping entry exists only for services whose owner (if it is connected)
   negotiated at least 1.18 *)
Definition J (st : state) : Prop :=
  forall k sv o cs, svcs st !! k = Some sv -> s_all sv <> ∅ -> objs st !! k.1 = Some o ->
    conns st !! o_owner o = Some cs -> 18 <= cs_ver cs.

Lemma J_shr a b : J a -> shr a b -> J b.
Proof.
  intros HJ [Hc Ho Hs] k sv o cs Hk Hne Hob Hcn.
  destruct (Hs _ _ Hk) as (sv0 & Hk0 & Hne0). destruct (Hc _ _ Hcn) as (cs0 & Hc0 & E).
  rewrite E. eapply HJ; eauto.
Qed.

(* queued "tell the owner nobody subscribes to all events any more" items only name owners of
   version >= 1.18 *)
Definition W (m : M) : Prop :=
  forall c sc cs, (c, sc) ∈ w_unsub_all (mw m) -> conns (ms m) !! c = Some cs -> 18 <= cs_ver cs.

(* an output is acceptable w.r.t. the connection table [s0] *)
Definition okout (s0 : gmap conn cstate) (o : out) : Prop :=
  exists cs, s0 !! o.1.1 = Some cs /\ (msg_min_version o.1.2 = 14 \/ msg_min_version o.1.2 <= cs_ver cs).

Lemma okout_cle a b o : cle a b -> okout b o -> okout a o.
Proof. intros H (cs & Hc & Hv). destruct (H _ _ Hc) as (cs0 & Hc0 & E). exists cs0. split; [assumption|]. rewrite <- E. exact Hv. Qed.

Definition R (m m' : M) : Prop :=
  shr (ms m) (ms m') /\
  (J (ms m) -> W m ->
   W m' /\ exists new, mo m' = mo m ++ new /\ Forall (okout (conns (ms m))) new).

Lemma R_refl m : R m m.
Proof. split; [apply shr_refl|]. intros _ HW. split; [exact HW|]. exists []. rewrite app_nil_r. auto. Qed.

Lemma R_trans a b c : R a b -> R b c -> R a c.
Proof.
  intros [S1 H1] [S2 H2]. split; [eapply shr_trans; eassumption|].
  intros HJ HW. destruct (H1 HJ HW) as (HW1 & n1 & E1 & F1).
  destruct (H2 (J_shr _ _ HJ S1) HW1) as (HW2 & n2 & E2 & F2).
  split; [exact HW2|]. exists (n1 ++ n2). split; [rewrite E2, E1, app_assoc; reflexivity|].
  apply Forall_app. split; [exact F1|].
  eapply Forall_impl; [exact F2|]. intros o Ho. eapply okout_cle; [apply (shr_c _ _ S1)|exact Ho].
Qed.

(* [m'] differs from [m] at most in fields the invariants do not read *)
Lemma R_same m m' :
  conns (ms m') = conns (ms m) -> objs (ms m') = objs (ms m) -> svcs (ms m') = svcs (ms m) ->
  w_unsub_all (mw m') = w_unsub_all (mw m) -> mo m' = mo m -> R m m'.
Proof.
  intros Ec Eo Es Ew Em. split.
  - split; rewrite ?Ec, ?Eo, ?Es; [apply cle_refl|apply ole_refl|apply sle_refl].
  - intros _ HW. split.
    + intros c sc cs. rewrite Ew, Ec. apply HW.
    + exists []. rewrite app_nil_r. auto.
Qed.

(* the state shrinks; work and outputs as before *)
Lemma R_shr m m' :
  shr (ms m) (ms m') -> w_unsub_all (mw m') = w_unsub_all (mw m) -> mo m' = mo m -> R m m'.
Proof.
  intros S Ew Em. split; [exact S|]. intros _ HW. split.
  - intros c sc cs Hin Hc. rewrite Ew in Hin. destruct (shr_c _ _ S _ _ Hc) as (cs0 & Hc0 & E).
    rewrite E. eapply HW; eauto.
  - exists []. rewrite app_nil_r. auto.
Qed.

Ltac same := apply R_same; reflexivity.

Notation oRR := (oR R).
Lemma oRR_bind m x f : oRR m x -> (forall m1, oRR m1 (f m1)) -> oRR m (x >>> f).
Proof. apply oR_bind. exact R_trans. Qed.
Lemma oRR_step m m1 x : R m m1 -> oRR m1 x -> oRR m x.
Proof. apply oR_step. exact R_trans. Qed.
Lemma oRR_foldO {A} (f : M -> A -> outcome M) l :
  (forall m a, oRR m (f m a)) -> forall m, oRR m (foldO f l m).
Proof. apply oR_foldO; [exact R_refl|exact R_trans]. Qed.
Lemma RR_foldl {A} (f : M -> A -> M) l : (forall m a, R m (f m a)) -> forall m, R m (foldl f m l).
Proof. apply R_foldl; [exact R_refl|exact R_trans]. Qed.
Lemma RR_foldr {A} (f : A -> M -> M) l : (forall m a, R m (f a m)) -> forall m, R m (foldr f m l).
Proof. apply R_foldr; [exact R_refl|exact R_trans]. Qed.

(* ---------------------------------------------------------------- sending *)
Definition free_kind (x : msg) : Prop := msg_min_version x = 14.

Lemma send_R m c x from :
  (forall cs, conns (ms m) !! c = Some cs -> msg_min_version x = 14 \/ msg_min_version x <= cs_ver cs) ->
  oRR m (send m c x from).
Proof.
  intros Hv. unfold send. destruct (conns (ms m) !! c) as [cs|] eqn:E; [|exact I].
  destruct (cs_alive cs); [|apply R_refl]. cbn.
  split; [apply shr_refl|]. intros _ HW. split; [exact HW|].
  exists [(c, x, from)]. split; [reflexivity|]. constructor; [|constructor].
  exists cs. cbn. split; [exact E|]. apply Hv. reflexivity.
Qed.

Lemma push_remove_R m c sd : R m (push_remove m c sd).
Proof. same. Qed.

Lemma send_or_remove_R m c x from :
  (forall cs, conns (ms m) !! c = Some cs -> msg_min_version x = 14 \/ msg_min_version x <= cs_ver cs) ->
  oRR m (send_or_remove m c x from).
Proof.
  intros Hv. pose proof (send_R m c x from Hv) as H. unfold send_or_remove.
  destruct (send m c x from) as [m'|m'|]; cbn in *; [exact H| |exact I].
  eapply R_trans; [exact H|apply push_remove_R].
Qed.

Lemma send_ignore_R m c x from :
  (forall cs, conns (ms m) !! c = Some cs -> msg_min_version x = 14 \/ msg_min_version x <= cs_ver cs) ->
  oRR m (send_ignore m c x from).
Proof.
  intros Hv. pose proof (send_R m c x from Hv) as H. unfold send_ignore.
  destruct (send m c x from) as [m'|m'|]; cbn in *; assumption.
Qed.

Ltac free := intros ? _; left; reflexivity.
