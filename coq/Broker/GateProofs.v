(* Broker/GateProofs.v — C12 on the abstract broker machine (Broker/Model.v):
   gate-in  (a message newer than the sender's negotiated version removes the sender),
   gate-out (no output is newer than its destination's version),
   payload tags (payload-carrying outputs carry the version of the connection that produced the
   payload, broker-made messages carry None).
   The version tables below are written with the literal numbers of the protocol; [gates_tie]
   shows they are the numbers Model.v takes from gen/BrokerConsts.v (read from broker.rs). *)
From stdpp Require Import gmap list.
From RecordUpdate Require Import RecordSet.
Import RecordSetNotations.
From Aldrin Require Import gen.BrokerConsts Broker.Model Broker.Run.
From Aldrin Require Export Broker.GateSpec.
From Coq Require Import ZifyBool ZifyNat ZifyN Lia.
Local Open Scope N_scope.

(* the gate Model.v applies to an incoming message (from gen/BrokerConsts.v) *)
Definition model_gate_of (x : msg) : option N :=
  match x with
  | CallFunction2 _ _ _ _ _ => Some MIN_CALL_FUNCTION2
  | AbortFunctionCall _ => Some MIN_ABORT_FUNCTION_CALL
  | RegisterIntrospection => Some MIN_REGISTER_INTROSPECTION
  | QueryIntrospection _ => Some MIN_QUERY_INTROSPECTION
  | QueryIntrospectionReply _ => Some MIN_QUERY_INTROSPECTION_REPLY
  | CreateService2 _ _ _ _ => Some MIN_CREATE_SERVICE2
  | QueryServiceInfo _ _ => Some MIN_QUERY_SERVICE_INFO
  | SubscribeService _ _ => Some MIN_SUBSCRIBE_SERVICE
  | UnsubscribeService _ => Some MIN_UNSUBSCRIBE_SERVICE
  | SubscribeAllEvents _ _ => Some MIN_SUBSCRIBE_ALL_EVENTS
  | UnsubscribeAllEvents _ _ => Some MIN_UNSUBSCRIBE_ALL_EVENTS
  | _ => None
  end.

Example gates_tie : forall x, model_gate_of x = min_version_of x.
Proof. intros x. destruct x; reflexivity. Qed.

Example gates_out_tie :
  (MIN_CALL_FUNCTION2_OUT, MIN_ABORT_FUNCTION_CALL_OUT, MIN_SUBSCRIBE_ALL_EVENTS_OWNER,
   MIN_UNSUBSCRIBE_ALL_EVENTS_OWNER, MIN_CREATE_SERVICE2_SUB_ALL) = (19, 16, 18, 18, 18).
Proof. reflexivity. Qed.

(* ================================================================ outcomes and relations *)
Definition oR (R : M -> M -> Prop) (m : M) (x : outcome M) : Prop :=
  match x with Done m' | Fail m' => R m m' | Panic _ => True end.

Section combinators.
  Context (R : M -> M -> Prop) (Rrefl : forall m, R m m)
          (Rtrans : forall a b c, R a b -> R b c -> R a c).

  Lemma oR_done m : oR R m (Done m). Proof. apply Rrefl. Qed.
  Lemma oR_fail m : oR R m (Fail m). Proof. apply Rrefl. Qed.

  Lemma oR_step m m1 x : R m m1 -> oR R m1 x -> oR R m x.
  Proof. intros H. destruct x; cbn; eauto. Qed.

  Lemma oR_bind m x f : oR R m x -> (forall m1, oR R m1 (f m1)) -> oR R m (x >>> f).
  Proof.
    intros Hx Hf. destruct x as [m1|m1|]; cbn in *; try assumption.
    eapply oR_step; [exact Hx|apply Hf].
  Qed.

  Lemma oR_foldO {A} (f : M -> A -> outcome M) l :
    (forall m a, oR R m (f m a)) -> forall m, oR R m (foldO f l m).
  Proof.
    intros Hf. induction l as [|a l IH]; intros m; cbn [foldO]; [apply Rrefl|].
    specialize (Hf m a). destruct (f m a) as [m1|m1|]; cbn in *; try assumption.
    eapply oR_step; [exact Hf|apply IH].
  Qed.

  Lemma R_foldl {A} (f : M -> A -> M) l : (forall m a, R m (f m a)) -> forall m, R m (foldl f m l).
  Proof. intros Hf. induction l as [|a l IH]; intros m; cbn; [apply Rrefl|]. eapply Rtrans; [apply Hf|apply IH]. Qed.

  Lemma R_foldr {A} (f : A -> M -> M) l : (forall m a, R m (f a m)) -> forall m, R m (foldr f m l).
  Proof. intros Hf. induction l as [|a l IH]; intros m; cbn; [apply Rrefl|]. eapply Rtrans; [apply IH|apply Hf]. Qed.
End combinators.

(* ================================================================ the shrinking relation *)
(* [cle a b]: every connection of [b] is a connection of [a] with the same version *)
Definition cle (a b : gmap conn cstate) : Prop :=
  forall k cs', b !! k = Some cs' -> exists cs, a !! k = Some cs /\ cs_ver cs' = cs_ver cs.
Definition ole (a b : gmap uuid obj) : Prop := forall u o, b !! u = Some o -> a !! u = Some o.
Definition sle (a b : gmap (uuid * uuid) svc) : Prop :=
  forall k sv', b !! k = Some sv' -> exists sv, a !! k = Some sv /\ (s_all sv' <> ∅ -> s_all sv <> ∅).

Lemma cle_refl a : cle a a. Proof. intros k cs H. eauto. Qed.
Lemma cle_trans a b c : cle a b -> cle b c -> cle a c.
Proof. intros H1 H2 k cs Hk. destruct (H2 _ _ Hk) as (cs1 & Hk1 & E1). destruct (H1 _ _ Hk1) as (cs0 & Hk0 & E0). exists cs0. split; congruence. Qed.
Lemma cle_delete a c : cle a (delete c a).
Proof. intros k cs H. apply lookup_delete_Some in H as [_ H]. eauto. Qed.
Lemma cle_insert a c cs cs' : a !! c = Some cs -> cs_ver cs' = cs_ver cs -> cle a (<[c := cs']> a).
Proof.
  intros Hc Hv k x H. apply lookup_insert_Some in H as [[<- <-]|[_ H]]; eauto.
Qed.

Lemma ole_refl a : ole a a. Proof. intros u o H. exact H. Qed.
Lemma ole_trans a b c : ole a b -> ole b c -> ole a c. Proof. unfold ole. eauto. Qed.
Lemma ole_delete a u : ole a (delete u a).
Proof. intros k o H. apply lookup_delete_Some in H as [_ H]. exact H. Qed.

Lemma sle_refl a : sle a a. Proof. intros k sv H. eauto. Qed.
Lemma sle_trans a b c : sle a b -> sle b c -> sle a c.
Proof. intros H1 H2 k sv Hk. destruct (H2 _ _ Hk) as (s1 & Hk1 & E1). destruct (H1 _ _ Hk1) as (s0 & Hk0 & E0). exists s0. split; auto. Qed.
Lemma sle_delete a k : sle a (delete k a).
Proof. intros k' sv H. apply lookup_delete_Some in H as [_ H]. eauto. Qed.
Lemma sle_insert a k s s' : a !! k = Some s -> (s_all s' <> ∅ -> s_all s <> ∅) -> sle a (<[k := s']> a).
Proof. intros Hk Hs k' x H. apply lookup_insert_Some in H as [[<- <-]|[_ H]]; eauto. Qed.
Lemma sle_fmap a (f : svc -> svc) : (forall s, s_all (f s) = s_all s) -> sle a (f <$> a).
Proof.
  intros Hf k x H. rewrite lookup_fmap in H. destruct (a !! k) as [s|] eqn:E; [|discriminate].
  cbn in H. injection H as <-. exists s. rewrite Hf. auto.
Qed.

Record shr (a b : state) : Prop := {
  shr_c : cle (conns a) (conns b);
  shr_o : ole (objs a) (objs b);
  shr_s : sle (svcs a) (svcs b) }.

Lemma shr_refl a : shr a a.
Proof. split; [apply cle_refl|apply ole_refl|apply sle_refl]. Qed.
Lemma shr_trans a b c : shr a b -> shr b c -> shr a c.
Proof. intros [] []. split; [eapply cle_trans|eapply ole_trans|eapply sle_trans]; eassumption. Qed.

(* ================================================================ gate-out invariants *)
(* a subscribe-all bookkeeping entry exists only for services whose owner (if it is connected)
   negotiated at least 1.18 *)
Definition J0 (st : state) : Prop :=
  forall k sv o cs, svcs st !! k = Some sv -> s_all sv <> ∅ -> objs st !! k.1 = Some o ->
    conns st !! o_owner o = Some cs -> 18 <= cs_ver cs.

Lemma J0_shr a b : J0 a -> shr a b -> J0 b.
Proof.
  intros HJ [Hc Ho Hs] k sv o cs Hk Hne Hob Hcn.
  destruct (Hs _ _ Hk) as (sv0 & Hk0 & Hne0). destruct (Hc _ _ Hcn) as (cs0 & Hc0 & E).
  rewrite E. eapply HJ; eauto.
Qed.

(* queued "tell the owner nobody subscribes to all events any more" items only name owners of
   version >= 1.18 *)
Definition W0 (m : M) : Prop :=
  forall c sc cs, (c, sc) ∈ w_unsub_all (mw m) -> conns (ms m) !! c = Some cs -> 18 <= cs_ver cs.

(* The pass below is made once for two readings, selected by [strict]:
   strict = true : J0/W0 are carried and every output must respect its destination's version;
   strict = false: nothing is carried, and the one message kind whose justification needs the
                   ownership invariants (UnsubscribeAllEvents None, sent to a service's owner
                   when its last all-events subscriber disconnects) is exempted. *)
Section pass.
Context (strict : bool).

Definition J (st : state) : Prop := strict = true -> J0 st.
Definition W (m : M) : Prop := strict = true -> W0 m.

Lemma J_shr a b : J a -> shr a b -> J b.
Proof. intros HJ S Hs. eapply J0_shr; [apply HJ, Hs|exact S]. Qed.

(* an output is acceptable w.r.t. the connection table [s0] *)
Definition okout (s0 : gmap conn cstate) (o : out) : Prop :=
  exists cs, s0 !! o.1.1 = Some cs /\
    (msg_min_version o.1.2 = 14 \/ msg_min_version o.1.2 <= cs_ver cs \/
     (strict = false /\ exists sc, o.1.2 = UnsubscribeAllEvents None sc)).

Lemma okout_cle a b o : cle a b -> okout b o -> okout a o.
Proof. intros H (cs & Hc & Hv). destruct (H _ _ Hc) as (cs0 & Hc0 & E). exists cs0. split; [assumption|]. rewrite <- E. exact Hv. Qed.

Definition R (m m' : M) : Prop :=
  shr (ms m) (ms m') /\
  (J (ms m) -> W m ->
   W m' /\ exists new, mo m' = mo m ++ new /\ Forall (okout (conns (ms m))) new).

Lemma R_refl m : R m m.
Proof. split; [apply shr_refl|]. intros _ HW. split; [exact HW|]. exists []. rewrite app_nil_r. auto. Qed.

Lemma R_trans a b c : R a b -> R b c -> R a c.
Proof.
  intros [S1 H1] [S2 H2]. split; [eapply shr_trans; eassumption|].
  intros HJ HW. destruct (H1 HJ HW) as (HW1 & n1 & E1 & F1).
  destruct (H2 (J_shr _ _ HJ S1) HW1) as (HW2 & n2 & E2 & F2).
  split; [exact HW2|]. exists (n1 ++ n2). split; [rewrite E2, E1, app_assoc; reflexivity|].
  apply Forall_app. split; [exact F1|].
  eapply Forall_impl; [exact F2|]. intros o Ho. eapply okout_cle; [apply (shr_c _ _ S1)|exact Ho].
Qed.

(* [m'] differs from [m] at most in fields the invariants do not read *)
Lemma R_same m m' :
  conns (ms m') = conns (ms m) -> objs (ms m') = objs (ms m) -> svcs (ms m') = svcs (ms m) ->
  w_unsub_all (mw m') = w_unsub_all (mw m) -> mo m' = mo m -> R m m'.
Proof.
  intros Ec Eo Es Ew Em. split.
  - split; rewrite ?Ec, ?Eo, ?Es; [apply cle_refl|apply ole_refl|apply sle_refl].
  - intros _ HW. split.
    + intros Hs c sc cs. rewrite Ew, Ec. apply HW, Hs.
    + exists []. rewrite app_nil_r. auto.
Qed.

(* the state shrinks; work and outputs as before *)
Lemma R_shr m m' :
  shr (ms m) (ms m') -> w_unsub_all (mw m') = w_unsub_all (mw m) -> mo m' = mo m -> R m m'.
Proof.
  intros S Ew Em. split; [exact S|]. intros _ HW. split.
  - intros Hs c sc cs Hin Hc. rewrite Ew in Hin. destruct (shr_c _ _ S _ _ Hc) as (cs0 & Hc0 & E).
    rewrite E. eapply HW; eauto.
  - exists []. rewrite app_nil_r. auto.
Qed.

Ltac same := apply R_same; reflexivity.

Notation oRR := (oR R).
Lemma oRR_bind m x f : oRR m x -> (forall m1, oRR m1 (f m1)) -> oRR m (x >>> f).
Proof. apply oR_bind. exact R_trans. Qed.
Lemma oRR_step m m1 x : R m m1 -> oRR m1 x -> oRR m x.
Proof. apply oR_step. exact R_trans. Qed.
Lemma oRR_foldO {A} (f : M -> A -> outcome M) l :
  (forall m a, oRR m (f m a)) -> forall m, oRR m (foldO f l m).
Proof. apply oR_foldO; [exact R_refl|exact R_trans]. Qed.
Lemma RR_foldl {A} (f : M -> A -> M) l : (forall m a, R m (f m a)) -> forall m, R m (foldl f m l).
Proof. apply R_foldl; [exact R_refl|exact R_trans]. Qed.
Lemma RR_foldr {A} (f : A -> M -> M) l : (forall m a, R m (f a m)) -> forall m, R m (foldr f m l).
Proof. apply R_foldr; [exact R_refl|exact R_trans]. Qed.

(* ---------------------------------------------------------------- sending *)
Definition free_kind (x : msg) : Prop := msg_min_version x = 14.

Lemma send_R m c x from :
  (forall cs, conns (ms m) !! c = Some cs -> msg_min_version x = 14 \/ msg_min_version x <= cs_ver cs) ->
  oRR m (send m c x from).
Proof.
  intros Hv. unfold send. destruct (conns (ms m) !! c) as [cs|] eqn:E; [|exact I].
  destruct (cs_alive cs); [|apply R_refl]. cbn.
  split; [apply shr_refl|]. intros _ HW. split; [exact HW|].
  exists [(c, x, from)]. split; [reflexivity|]. constructor; [|constructor].
  exists cs. cbn. split; [exact E|]. destruct (Hv cs eq_refl) as [H|H]; auto.
Qed.

Lemma push_remove_R m c sd : R m (push_remove m c sd).
Proof. same. Qed.

Lemma send_or_remove_R m c x from :
  (forall cs, conns (ms m) !! c = Some cs -> msg_min_version x = 14 \/ msg_min_version x <= cs_ver cs) ->
  oRR m (send_or_remove m c x from).
Proof.
  intros Hv. pose proof (send_R m c x from Hv) as H. unfold send_or_remove.
  destruct (send m c x from) as [m'|m'|]; cbn in *; [exact H| |exact I].
  eapply R_trans; [exact H|apply push_remove_R].
Qed.

Lemma send_ignore_R m c x from :
  (forall cs, conns (ms m) !! c = Some cs -> msg_min_version x = 14 \/ msg_min_version x <= cs_ver cs) ->
  oRR m (send_ignore m c x from).
Proof.
  intros Hv. pose proof (send_R m c x from Hv) as H. unfold send_ignore.
  destruct (send m c x from) as [m'|m'|]; cbn in *; assumption.
Qed.

Ltac free := intros ? _; left; reflexivity.

(* ---------------------------------------------------------------- the removal cascade *)
Ltac via_fold :=
  lazymatch goal with
  | |- oR R _ (foldO _ _ ?m1 >>> _) => apply (oRR_step _ m1)
  | |- oR R _ (foldO _ _ ?m1) => apply (oRR_step _ m1)
  end.

Ltac via_foldr :=
  lazymatch goal with
  | |- R _ ?t => match t with context [foldr ?f ?a ?l] => apply (R_trans _ (foldr f a l)) end
  end.

Lemma remove_listener_R m k : R m (remove_listener m k).
Proof. unfold remove_listener. destruct (listeners (ms m) !! k); [same|apply R_refl]. Qed.

Lemma remove_end_R m cookie e : oRR m (remove_end m cookie e).
Proof.
  unfold remove_end. destruct (chans (ms m) !! cookie) as [ch|]; [|apply R_refl].
  destruct (chan_close ch e) as [|ch' o|site]; [same| |exact I].
  destruct (has _ o).
  - eapply oRR_step; [|apply send_or_remove_R; free]. same.
  - same.
Qed.

Lemma remove_service_R m cookie : oRR m (remove_service m cookie).
Proof.
  unfold remove_service. destruct (svc_by_cookie (ms m) cookie) as [[k s]|]; [|apply R_refl].
  via_fold; [|apply oRR_bind].
  - apply R_shr; [|reflexivity|reflexivity]. cbn. split; [apply cle_refl|apply ole_refl|apply sle_delete].
  - apply oRR_foldO. intros m1 b. destruct (calls (ms m1) !! b) as [cl|]; [|exact I].
    cbn. destruct (c_aborted cl); same.
  - intros m2. cbn. via_foldr; [|same].
    apply RR_foldr. intros m3 c. destruct (has m3 c); [same|apply R_refl].
Qed.

Lemma remove_object_R m cookie : oRR m (remove_object m cookie).
Proof.
  unfold remove_object. destruct (obj_by_cookie (ms m) cookie) as [[u o]|]; [|apply R_refl].
  via_fold; [|apply oRR_bind].
  - apply R_shr; [|reflexivity|reflexivity]. cbn. split; [apply cle_refl|apply ole_delete|apply sle_refl].
  - apply oRR_foldO. intros; apply remove_service_R.
  - intros m2. cbn. same.
Qed.

Definition Rabs (c : conn) (m m' : M) : Prop := R m m' /\ conns (ms m') !! c = None.

Lemma R_absent m m' c : R m m' -> conns (ms m) !! c = None -> conns (ms m') !! c = None.
Proof.
  intros [S _] H. destruct (conns (ms m') !! c) as [cs|] eqn:E; [|reflexivity].
  destruct (shr_c _ _ S _ _ E) as (cs0 & E0 & _). congruence.
Qed.

Lemma shutdown_conn_R m c sd : oR (Rabs c) m (shutdown_conn m c sd).
Proof.
  unfold shutdown_conn. destruct (conns (ms m) !! c) as [cs|] eqn:Ec.
  2:{ split; [apply R_refl|exact Ec]. }
  set (m0 := m <| ms; conns ::= delete c |>).
  set (m1 := if sd && cs_alive cs then m0 <| mo := mo m0 ++ [(c, Shutdown, None)] |> else m0).
  assert (H1 : R m m1 /\ conns (ms m1) !! c = None).
  { split.
    - split.
      + subst m1 m0. destruct (sd && cs_alive cs); cbn; (split; [apply cle_delete|apply ole_refl|apply sle_refl]).
      + intros _ HW. split.
        * intros Hst c' sc cs' Hin Hc. apply (HW Hst c' sc cs').
          -- subst m1 m0. destruct (sd && cs_alive cs); exact Hin.
          -- subst m1 m0. destruct (sd && cs_alive cs); cbn in Hc; apply lookup_delete_Some in Hc as [_ Hc]; exact Hc.
        * subst m1 m0. destruct (sd && cs_alive cs); cbn.
          -- exists [(c, Shutdown, None)]. split; [reflexivity|]. constructor; [|constructor].
             exists cs. split; [exact Ec|]. left. reflexivity.
          -- exists []. rewrite app_nil_r. auto.
    - subst m1 m0. destruct (sd && cs_alive cs); cbn; apply lookup_delete. }
  clearbody m1. clear m0.
  match goal with |- oR _ _ ?X => enough (H : oRR m1 X) end.
  { destruct H1 as [H1 H1']. match goal with |- oR _ _ ?X => destruct X as [m'|m'|] end; cbn in *;
      try exact I; (split; [eapply R_trans; eassumption|eapply R_absent; eassumption]). }
  clear H1.
  cbv zeta. via_fold; [apply RR_foldl; intros; apply remove_listener_R|].
  apply oRR_bind; [apply oRR_foldO; intros; apply remove_object_R|]. intros m3.
  apply oRR_bind.
  { apply oRR_foldO. intros ma k.
    destruct (svcs (ms ma) !! k) as [s|] eqn:Es; [|apply R_refl].
    destruct (owner_of_svc (ms ma) k) as [owner|]; [|exact I].
    cbn. apply RR_foldl. intros mb e.
    destruct (svcs (ms mb) !! k) as [s'|] eqn:Es'; [|apply R_refl].
    destruct (bool_decide _).
    - apply R_shr; [|reflexivity|reflexivity]. cbn.
      split; [apply cle_refl|apply ole_refl|eapply sle_insert; [exact Es'|auto]].
    - apply R_shr; [|reflexivity|reflexivity]. cbn.
      split; [apply cle_refl|apply ole_refl|eapply sle_insert; [exact Es'|auto]]. }
  intros m4. apply oRR_bind.
  { apply oRR_foldO. intros ma k.
    destruct (svcs (ms ma) !! k) as [s|] eqn:Es; [|apply R_refl].
    destruct (owner_of_svc (ms ma) k) as [owner|] eqn:Eo; [|exact I].
    destruct (bool_decide_reflect (c ∈ s_all s)) as [Hin|]; [|apply R_refl].
    cbn. assert (Hsle : sle (svcs (ms ma)) (<[k := s <| s_all := s_all s ∖ {[c]} |>]> (svcs (ms ma)))).
    { eapply sle_insert; [exact Es|]. cbn. intros _. set_solver. }
    split.
    - destruct (bool_decide _); cbn; (split; [apply cle_refl|apply ole_refl|exact Hsle]).
    - intros HJ HW. split.
      + intros Hst c' sc cs' Hin' Hc'. specialize (HJ Hst). specialize (HW Hst).
        assert (Hc'' : conns (ms ma) !! c' = Some cs') by (destruct (bool_decide _); exact Hc').
        destruct (bool_decide (s_all s ∖ {[c]} = ∅)); cbn in Hin'; [|eapply HW; eassumption].
        apply elem_of_cons in Hin' as [Heq|Hin']; [|eapply HW; eassumption].
        injection Heq as -> ->. unfold owner_of_svc in Eo.
        destruct (objs (ms ma) !! k.1) as [o|] eqn:Eob; [|discriminate]. cbn in Eo. injection Eo as <-.
        eapply (HJ k s o cs'); eauto. set_solver.
      + exists []. rewrite app_nil_r. split; [|constructor]. destruct (bool_decide _); reflexivity. }
  intros m5.
  eapply oRR_step.
  { apply R_shr with (m' := m5 <| ms; svcs ::= fmap (fun s => s <| s_subs ::= fun x => x ∖ {[c]} |>) |>);
      [|reflexivity|reflexivity].
    cbn. split; [apply cle_refl|apply ole_refl|apply sle_fmap; reflexivity]. }
  apply oRR_bind.
  { apply oRR_foldO. intros ma k. destruct (chans (ms ma) !! k) as [ch|]; [|apply R_refl].
    destruct (ch_s ch) as [|o cap|]; try apply R_refl.
    destruct (bool_decide _); [apply remove_end_R|apply R_refl]. }
  intros m7. apply oRR_bind.
  { apply oRR_foldO. intros ma k. destruct (chans (ms ma) !! k) as [ch|]; [|apply R_refl].
    destruct (ch_r ch) as [|o cap|]; try apply R_refl.
    destruct (bool_decide _); [apply remove_end_R|apply R_refl]. }
  intros m8. cbn. via_foldr; [|same]. apply RR_foldr. intros; same.
Qed.

Lemma bus_R m ev : oRR m (bus m ev).
Proof.
  unfold bus. apply oRR_foldO. intros ma c.
  destruct (has ma c); [apply send_or_remove_R; free|apply R_refl].
Qed.

Lemma abort_call_R m b callee : oRR m (abort_call m b callee).
Proof.
  unfold abort_call. destruct (calls (ms m) !! b) as [cl|]; [|apply R_refl].
  destruct (c_aborted cl); [apply R_refl|].
  set (m1 := m <| ms; calls ::= <[b := cl <| c_aborted := true |>]> |>).
  apply (oRR_step _ m1); [same|]. clearbody m1.
  apply oRR_bind.
  - destruct (conns (ms m1) !! callee) as [cc|] eqn:Ec; [|apply R_refl].
    destruct (N.leb_spec MIN_ABORT_FUNCTION_CALL_OUT (cs_ver cc)) as [Hle|]; [|apply R_refl].
    apply send_or_remove_R. intros cs Hcs. right. rewrite Ec in Hcs. injection Hcs as <-. exact Hle.
  - intros m2. destruct (conns (ms m2) !! c_caller cl) as [cs|] eqn:Ec; [|apply R_refl].
    destruct (cs_calls cs !! c_serial cl); [|exact I].
    eapply oRR_step; [|apply send_or_remove_R; free].
    apply R_shr; [|reflexivity|reflexivity]. cbn.
    split; [eapply cle_insert; [exact Ec|reflexivity]|apply ole_refl|apply sle_refl].
Qed.

Lemma settle_one_R m x : settle_one m = Some x -> oRR m x.
Proof.
  unfold settle_one.
  destruct (w_remove_conns (mw m)) as [|[c sd] r] eqn:E1.
  2:{ intros [= <-]. eapply oRR_step with (m1 := m <| mw; w_remove_conns := r |>); [same|].
      pose proof (shutdown_conn_R (m <| mw; w_remove_conns := r |>) c sd) as H.
      destruct (shutdown_conn _ c sd); cbn in *; try exact I; apply H. }
  destruct (w_unsub_ev (mw m)) as [|[[c s] e] r] eqn:E2.
  2:{ intros [= <-]. eapply oRR_step with (m1 := m <| mw; w_unsub_ev := r |>); [same|].
      destruct (has _ c); [apply send_or_remove_R; free|apply R_refl]. }
  destruct (w_unsub_all (mw m)) as [|[c s] r] eqn:E3.
  2:{ intros H. apply (inj Some) in H. subst x. cbv zeta. set (m1 := m <| mw; w_unsub_all := r |>).
      assert (H1 : R m m1).
      { split; [apply shr_refl|]. intros _ HW. split.
        - intros Hst c' sc cs Hin Hc. apply (HW Hst c' sc cs); [|exact Hc]. rewrite E3. apply elem_of_cons. right. exact Hin.
        - exists []. rewrite app_nil_r. auto. }
      destruct (has m1 c); [|exact H1].
      (* the send is justified by W of the ORIGINAL m, not of m1: prove the composite directly *)
      unfold send_or_remove, send. destruct (conns (ms m1) !! c) as [cs|] eqn:Ec; [|exact I].
      assert (Hsend : R m (m1 <| mo := mo m1 ++ [(c, UnsubscribeAllEvents None s, None)] |>)).
      { split; [apply shr_refl|]. intros _ HW. split.
        - intros Hst c' sc cs' Hin Hc. apply (HW Hst c' sc cs'); [|exact Hc]. rewrite E3. apply elem_of_cons. right. exact Hin.
        - exists [(c, UnsubscribeAllEvents None s, None)]. split; [reflexivity|]. constructor; [|constructor].
          exists cs. split; [exact Ec|]. right. cbn. destruct strict eqn:Hst.
          + left. apply (HW Hst c s cs); [|exact Ec]. rewrite E3. apply elem_of_cons. left. reflexivity.
          + right. split; [reflexivity|]. exists s. reflexivity. }
      destruct (cs_alive cs); cbn; [exact Hsend|].
      eapply R_trans; [exact H1|apply push_remove_R]. }
  destruct (w_svc_destroyed (mw m)) as [|[c s] r] eqn:E4.
  2:{ intros [= <-]. eapply oRR_step with (m1 := m <| mw; w_svc_destroyed := r |>); [same|].
      destruct (has _ c); [apply send_or_remove_R; free|apply R_refl]. }
  destruct (w_rm_call (mw m)) as [|[[serial c] result] r] eqn:E5.
  2:{ intros H. apply (inj Some) in H. subst x. cbv zeta.
      set (m1 := m <| mw; w_rm_call := r |>). apply (oRR_step _ m1); [same|]. clearbody m1.
      destruct (conns (ms m1) !! c) as [cs|] eqn:Ec; [|apply R_refl].
      destruct (cs_calls cs !! serial); [|exact I].
      eapply oRR_step; [|apply send_or_remove_R; free].
      apply R_shr; [|reflexivity|reflexivity]. cbn.
      split; [eapply cle_insert; [exact Ec|reflexivity]|apply ole_refl|apply sle_refl]. }
  destruct (w_create_obj (mw m)) as [|[u c] r] eqn:E6.
  2:{ intros [= <-]. eapply oRR_step; [|apply bus_R]. same. }
  destruct (w_create_svc (mw m)) as [|[[[ou oc] su] sc] r] eqn:E7.
  2:{ intros [= <-]. eapply oRR_step; [|apply bus_R]. same. }
  destruct (w_destroy_svc (mw m)) as [|[[[ou oc] su] sc] r] eqn:E8.
  2:{ intros [= <-]. eapply oRR_step; [|apply bus_R]. same. }
  destruct (w_destroy_obj (mw m)) as [|[u c] r] eqn:E9.
  2:{ intros [= <-]. eapply oRR_step; [|apply bus_R]. same. }
  destruct (w_abort (mw m)) as [|[b callee] r] eqn:E10.
  2:{ intros [= <-]. eapply oRR_step; [|apply abort_call_R]. same. }
  discriminate.
Qed.

Lemma settle_R fuel : forall m, oRR m (settle fuel m).
Proof.
  induction fuel as [|f IH]; intros m; cbn [settle].
  - destruct (settle_one m) as [[m'|m'|]|]; cbn; try exact I. apply R_refl.
  - destruct (settle_one m) as [x|] eqn:E; [|apply R_refl].
    apply settle_one_R in E. destruct x as [m'|m'|]; cbn in E; try exact I; (eapply oRR_step; [exact E|apply IH]).
Qed.

(* ================================================================ the handlers *)
(* [P s0 m]: every connection is a connection of the step's pre-state [s0] with its version,
   every output so far is acceptable for [s0], and J/W hold *)
Definition P (s0 : gmap conn cstate) (m : M) : Prop :=
  cle s0 (conns (ms m)) /\ Forall (okout s0) (mo m) /\ J (ms m) /\ W m.

Definition oP (Q : M -> Prop) (x : outcome M) : Prop :=
  match x with Done m | Fail m => Q m | Panic _ => True end.

Lemma P_R s0 m m' : P s0 m -> R m m' -> P s0 m'.
Proof.
  intros (Hc & Ho & HJ & HW) [S H]. destruct (H HJ HW) as (HW' & new & E & F).
  split; [eapply cle_trans; [exact Hc|apply (shr_c _ _ S)]|].
  split; [|split; [eapply J_shr; eassumption|exact HW']].
  rewrite E. apply Forall_app. split; [exact Ho|].
  eapply Forall_impl; [exact F|]. intros o. apply okout_cle, Hc.
Qed.

Lemma P_oR s0 m x : P s0 m -> oRR m x -> oP (P s0) x.
Proof. intros HP H. destruct x; cbn in *; try exact I; eapply P_R; eassumption. Qed.

Lemma oP_bind s0 x f : oP (P s0) x -> (forall m1, P s0 m1 -> oP (P s0) (f m1)) -> oP (P s0) (x >>> f).
Proof. intros Hx Hf. destruct x; cbn in *; auto. Qed.

Definition okmsg (m : M) (c : conn) (x : msg) : Prop :=
  forall cs, conns (ms m) !! c = Some cs -> msg_min_version x = 14 \/ msg_min_version x <= cs_ver cs.

(* a send changes nothing but the outputs *)
Lemma send_frame m c x from m' :
  send m c x from = Done m' \/ send m c x from = Fail m' -> ms m' = ms m /\ mw m' = mw m.
Proof.
  unfold send. destruct (conns (ms m) !! c) as [cs|]; [|intros [H|H]; discriminate H].
  destruct (cs_alive cs); intros [H|H]; try discriminate H; injection H as <-; auto.
Qed.

Lemma send_P s0 m c x from : P s0 m -> okmsg m c x -> oP (P s0) (send m c x from).
Proof. intros HP Hv. eapply P_oR; [exact HP|apply send_R, Hv]. Qed.

Lemma send_bind_P s0 m c x from k :
  P s0 m -> okmsg m c x ->
  (forall m1, ms m1 = ms m -> mw m1 = mw m -> P s0 m1 -> oP (P s0) (k m1)) ->
  oP (P s0) (send m c x from >>> k).
Proof.
  intros HP Hv Hk. pose proof (send_P s0 m c x from HP Hv) as H.
  destruct (send m c x from) as [m1|m1|] eqn:E; cbn in *; try assumption.
  destruct (send_frame m c x from m1 (or_introl E)). apply Hk; assumption.
Qed.

Lemma gate_P s0 m c minv k :
  P s0 m -> (forall cs, conns (ms m) !! c = Some cs -> minv <= cs_ver cs -> oP (P s0) (k m)) ->
  oP (P s0) (gate m c minv k).
Proof.
  intros HP Hk. unfold gate, ver_of. destruct (conns (ms m) !! c) as [cs|] eqn:E; cbn; [|exact HP].
  destruct (N.ltb_spec (cs_ver cs) minv); [exact HP|]. eapply Hk; eauto.
Qed.

Lemma svc_by_cookie_Some st c k s : svc_by_cookie st c = Some (k, s) -> svcs st !! k = Some s.
Proof.
  unfold svc_by_cookie. destruct (list_find _ _) as [[i [k' s']]|] eqn:E; [|discriminate].
  cbn. intros [= -> ->]. apply list_find_Some in E as (E & _ & _).
  apply elem_of_map_to_list. eapply elem_of_list_lookup_2. exact E.
Qed.

Lemma owner_of_svc_Some st k owner :
  owner_of_svc st k = Some owner -> exists o, objs st !! k.1 = Some o /\ o_owner o = owner.
Proof. unfold owner_of_svc. destruct (objs st !! k.1) as [o|]; [|discriminate]. cbn. intros [= <-]. eauto. Qed.

(* a state update that only shrinks (in the sense of [shr]) *)
Lemma P_shr s0 m m' :
  P s0 m -> shr (ms m) (ms m') -> w_unsub_all (mw m') = w_unsub_all (mw m) -> mo m' = mo m -> P s0 m'.
Proof. intros HP S Ew Em. eapply P_R; [exact HP|apply R_shr; assumption]. Qed.

Lemma P_same s0 m m' :
  P s0 m -> conns (ms m') = conns (ms m) -> objs (ms m') = objs (ms m) -> svcs (ms m') = svcs (ms m) ->
  w_unsub_all (mw m') = w_unsub_all (mw m) -> mo m' = mo m -> P s0 m'.
Proof. intros HP Ec Eo Es Ew Em. eapply P_R; [exact HP|apply R_same; assumption]. Qed.

(* a state update that leaves connections, work and outputs alone *)
Lemma P_J s0 m m' :
  P s0 m -> conns (ms m') = conns (ms m) -> w_unsub_all (mw m') = w_unsub_all (mw m) -> mo m' = mo m ->
  (strict = true -> J0 (ms m) -> J0 (ms m')) -> P s0 m'.
Proof.
  intros (Hc & Ho & HJ & HW) Ec Ew Em HJ'. split; [rewrite Ec; exact Hc|]. split; [rewrite Em; exact Ho|].
  split; [intros Hs; apply (HJ' Hs), HJ, Hs|]. intros Hs c sc cs. rewrite Ew, Ec. apply HW, Hs.
Qed.

Definition reg_ok (st : state) : Prop := forall k sv, svcs st !! k = Some sv -> is_Some (objs st !! k.1).
Definition own_ok (st : state) : Prop := forall u o, objs st !! u = Some o -> is_Some (conns st !! o_owner o).

Ltac free ::= intros ? _; left; reflexivity.
Ltac psame HP := eapply P_same; [exact HP|reflexivity..].

Lemma create_service_impl_P s0 m c serial oc u i fresh :
  P s0 m -> oP (P s0) (create_service_impl m c serial oc u i fresh).
Proof.
  intros HP. unfold create_service_impl.
  destruct (obj_by_cookie (ms m) oc) as [[ou o]|]; [|apply send_P; [exact HP|free]].
  destruct (bool_decide _); [apply send_P; [exact HP|free]|].
  destruct (negb _); [apply send_P; [exact HP|free]|].
  destruct i as [i|]; [|exact HP].
  apply send_bind_P; [exact HP|free|]. intros m1 Hms Hmw HP1. cbn.
  eapply P_J; [exact HP1|reflexivity..|]. cbn.
  intros _ HJ k sv o' cs Hk Hne Hob Hcn. cbn in Hk, Hob, Hcn. apply lookup_insert_Some in Hk as [[<- <-]|[_ Hk]].
  - cbn in Hne. contradiction.
  - eapply HJ; eauto.
Qed.

Lemma call_impl_P s0 m c serial sc fn ver v bserial :
  P s0 m -> oP (P s0) (call_impl m c serial sc fn ver v bserial).
Proof.
  intros HP. unfold call_impl.
  destruct (svc_by_cookie (ms m) sc) as [[k s]|]; [|apply send_P; [exact HP|free]].
  destruct (owner_of_svc (ms m) k) as [callee|]; [|exact I].
  destruct (conns (ms m) !! c) as [cs|] eqn:Ec; [|exact HP].
  destruct (pick_serial (ms m) bserial) as [[b nxt]|]; [|exact I].
  destruct (bool_decide _); [psame HP|].
  set (m0 := m <| ms; next := nxt |>).
  destruct (svcs (ms m0) !! k) as [s'|] eqn:Es; [|exact I].
  destruct (conns (ms m0) !! callee) as [ccs|] eqn:Ecc; [|exact I].
  change (svcs (ms m) !! k = Some s') in Es. change (conns (ms m) !! callee = Some ccs) in Ecc.
  match goal with |- context [send_or_remove ?mm _ _ _] => set (m1 := mm) end.
  assert (HP1 : P s0 m1).
  { eapply P_shr; [exact HP| |reflexivity|reflexivity]. subst m1 m0. cbn.
    split; [eapply cle_insert; [exact Ec|reflexivity]|apply ole_refl|eapply sle_insert; [exact Es|auto]]. }
  assert (Hv : forall cs', conns (ms m1) !! callee = Some cs' -> cs_ver cs' = cs_ver ccs).
  { intros cs' H. subst m1 m0. cbn in H. apply lookup_insert_Some in H as [[<- <-]|[_ H]].
    - rewrite Ec in Ecc. injection Ecc as <-. reflexivity.
    - rewrite Ecc in H. injection H as <-. reflexivity. }
  clearbody m1.
  destruct (N.leb_spec MIN_CALL_FUNCTION2_OUT (cs_ver ccs)) as [Hle|Hlt].
  - eapply P_oR; [exact HP1|]. apply send_or_remove_R. intros cs' Hcs'. right. rewrite (Hv _ Hcs'). exact Hle.
  - eapply P_oR; [exact HP1|]. apply send_or_remove_R. free.
Qed.

Ltac shr_solve :=
  cbn; split;
  [ first [apply cle_refl | eapply cle_insert; [eassumption|reflexivity]]
  | first [apply ole_refl | apply ole_delete]
  | first [apply sle_refl | apply sle_delete | eapply sle_insert; [eassumption| cbn; solve [auto | set_solver]]] ].
Ltac pupd H := eapply P_shr; [exact H | shr_solve | reflexivity | reflexivity].
Ltac pany := match goal with H : P _ _ |- _ => first [exact H | psame H | pupd H] end.

(* the reply to a gated request: the requester's version passed the gate *)
Ltac okgate :=
  let cs' := fresh in let Hc' := fresh in
  intros cs' Hc'; right;
  match goal with
  | Hc : conns (ms ?m) !! ?c = Some ?cs, Hle : ?k <= cs_ver ?cs |- _ =>
      rewrite Hc in Hc'; injection Hc' as <-;
      let k' := eval vm_compute in k in change k with k' in Hle; cbn; lia
  end.

Ltac hstep :=
  match goal with
  | |- oP _ (Panic _) => exact I
  | |- oP _ (Fail _) => pany
  | |- oP _ (Done _) => pany
  | H : P _ ?m |- oP _ (send ?m _ _ _) => apply send_P; [exact H|first [free|okgate]]
  | H : P _ ?m |- oP _ (send ?m _ _ _ >>> _) => apply send_bind_P; [exact H|first [free|okgate]|intros ? ? ? ?]
  | H : P _ ?m |- oP _ (gate ?m _ _ _) => apply gate_P; [exact H|intros ? ? ?]
  | H : P _ ?m |- oP _ (create_service_impl ?m _ _ _ _ _ _) => apply create_service_impl_P; exact H
  | H : P _ ?m |- oP _ (call_impl ?m _ _ _ _ _ _ _) => apply call_impl_P; exact H
  | H : P _ ?m |- oP _ (remove_object ?m _) => eapply P_oR; [exact H|apply remove_object_R]
  | H : P _ ?m |- oP _ (remove_service ?m _) => eapply P_oR; [exact H|apply remove_service_R]
  | H : P _ ?m |- oP _ (remove_end ?m _ _) => eapply P_oR; [exact H|apply remove_end_R]
  | H : P _ ?m |- oP _ (send_or_remove ?m _ _ _) => eapply P_oR; [exact H|apply send_or_remove_R; free]
  | H : P _ ?m |- oP _ (send_ignore ?m _ _ _) => eapply P_oR; [exact H|apply send_ignore_R; free]
  | |- oP (P ?s0) (send ?mm ?c ?x ?f) =>
      let H' := fresh "HP" in assert (H' : P s0 mm) by pany; apply send_P; [exact H'|free]
  | |- oP (P ?s0) (send_or_remove ?mm ?c ?x ?f) =>
      let H' := fresh "HP" in assert (H' : P s0 mm) by pany;
      eapply P_oR; [exact H'|apply send_or_remove_R; free]
  | |- oP (P ?s0) (send_ignore ?mm ?c ?x ?f) =>
      let H' := fresh "HP" in assert (H' : P s0 mm) by pany;
      eapply P_oR; [exact H'|apply send_ignore_R; free]
  | |- oP _ (if ?b then _ else _) => destruct b eqn:?
  | |- oP _ (match ?x with _ => _ end) => destruct x eqn:?
  end.

Ltac svc_facts :=
  repeat match goal with
  | E : svc_by_cookie (ms ?m) _ = Some (?k, ?s) |- _ =>
      lazymatch goal with
      | _ : svcs (ms m) !! k = Some s |- _ => fail
      | _ => pose proof (svc_by_cookie_Some _ _ _ _ E)
      end
  | Hms : ms ?m1 = ms ?m, H : svcs (ms ?m) !! ?k = Some ?s |- _ =>
      lazymatch goal with
      | _ : svcs (ms m1) !! k = Some s |- _ => fail
      | _ => assert (svcs (ms m1) !! k = Some s) by (rewrite Hms; exact H)
      end
  end.

Lemma foldO_send_P {A} s0 (g : A -> msg) c l : forall m,
  P s0 m -> (forall p, msg_min_version (g p) = 14) ->
  oP (P s0) (foldO (fun m p => send m c (g p) None) l m).
Proof.
  intros m HP Hg. eapply P_oR; [exact HP|]. apply oRR_foldO. intros ma p. apply send_R.
  intros ? _. left. apply Hg.
Qed.

(* the reply/notification pair of claim_channel_end *)
Lemma claim_pair_P s0 m c x other y :
  P s0 m -> msg_min_version x = 14 -> msg_min_version y = 14 ->
  oP (P s0) (match send m c x None with
             | Panic s => Panic s
             | Done m2 => send_or_remove m2 other y None
             | Fail m2 => match send_or_remove m2 other y None with Done m3 => Fail m3 | z => z end
             end).
Proof.
  intros HP Hx Hy. pose proof (send_P s0 m c x None HP) as H.
  destruct (send m c x None) as [m2|m2|]; cbn in H; [| |exact I].
  - eapply P_oR; [apply H; intros ? _; left; exact Hx|]. apply send_or_remove_R. intros ? _. left. exact Hy.
  - assert (H2 : oP (P s0) (send_or_remove m2 other y None)).
    { eapply P_oR; [apply H; intros ? _; left; exact Hx|]. apply send_or_remove_R. intros ? _. left. exact Hy. }
    destruct (send_or_remove m2 other y None); exact H2.
Qed.

Lemma send_owner_P s0 m owner ocs x :
  P s0 m -> conns (ms m) !! owner = Some ocs -> msg_min_version x <= cs_ver ocs ->
  oP (P s0) (send_ignore m owner x None).
Proof.
  intros HP Hc Hv. eapply P_oR; [exact HP|]. apply send_ignore_R. intros cs' H. rewrite Hc in H.
  injection H as <-. right. exact Hv.
Qed.

(* subscribe_all_events: the subscriber set may grow because the owner's version was checked *)
Lemma P_sub_all s0 m k s' owner ocs :
  P s0 m -> owner_of_svc (ms m) k = Some owner -> conns (ms m) !! owner = Some ocs ->
  18 <= cs_ver ocs -> P s0 (m <| ms; svcs ::= <[k := s']> |>).
Proof.
  intros HP Ho Hc Hv. eapply P_J; [exact HP|reflexivity..|]. cbn.
  intros _ HJ k' sv o cs Hk Hne Hob Hcn. cbn in Hk, Hob, Hcn.
  apply lookup_insert_Some in Hk as [[<- <-]|[_ Hk]]; [|eapply HJ; eauto].
  apply owner_of_svc_Some in Ho as (o' & Ho' & <-). rewrite Ho' in Hob. injection Hob as <-.
  rewrite Hc in Hcn. injection Hcn as <-. exact Hv.
Qed.

Lemma handle_P s0 m c x fresh b :
  P s0 m -> (strict = true -> reg_ok (ms m)) -> oP (P s0) (handle m c x fresh b).
Proof.
  intros HP Hreg. unfold handle.
  destruct (conns (ms m) !! c) as [cs|] eqn:Ec; [|exact HP].
  destruct x.
  (* ClaimChannelEnd first: its nested match on the reply's result *)
  all: try match goal with
       | |- context [ChannelEndClaimed] =>
           match goal with |- context [chans ?st !! ?k] => destruct (chans st !! k) as [ch|] eqn:Ech; [|repeat hstep] end;
           match goal with |- context [chan_claim ?a ?b ?d] => destruct (chan_claim a b d) as [r|ch' other r|site]; [repeat hstep| |exact I] end;
           apply claim_pair_P; [pany|reflexivity|reflexivity]
       end.
  all: repeat (svc_facts; hstep).
  (* CreateObject *)
  all: try match goal with
       | Hms : ms ?m1 = ms ?m, HP1 : P _ ?m1, Hn : bool_decide (is_Some (objs (ms ?m) !! ?u)) = false,
         Hreg : _ -> reg_ok (ms ?m)
         |- oP _ (Done (?m1 <| ms; objs ::= _ |> <| mw; w_create_obj ::= _ |> <| ms; st; n_objs ::= _ |>)) =>
           eapply P_J; [exact HP1|reflexivity..|]; cbn;
           let Hst := fresh in let HJ := fresh in
           intros Hst HJ k sv o cs' Hk Hne Hob Hcn; cbn in Hk, Hob, Hcn;
           apply bool_decide_eq_false in Hn;
           rewrite Hms in Hk, Hob, Hcn, HJ;
           destruct (decide (k.1 = u)) as [Hku|Hku];
           [ exfalso; apply Hn; rewrite <- Hku; eapply (Hreg Hst); exact Hk
           | rewrite lookup_insert_ne in Hob by congruence; eapply HJ; eauto ]
       end.
  (* EmitEvent *)
  all: try match goal with
       | H : P _ ?m |- oP _ (foldO (fun m x => send_or_remove m x (EmitEvent _ _ _) _) _ ?m) =>
           eapply P_oR; [exact H|apply oRR_foldO; intros; apply send_or_remove_R; free]
       | H : P _ ?m |- oP _ (remove_end ?m _ _ >>> _) =>
           eapply P_oR; [exact H|apply oRR_bind; [apply remove_end_R|intros; apply remove_end_R]]
       | H : P _ ?m1 |- oP _ (Done (remove_listener ?m1 _)) => eapply P_R; [exact H|apply remove_listener_R]
       | |- oP _ (send_or_remove _ _ (ItemReceived _ _) _ >>> _) =>
           apply oP_bind; [hstep|let m2 := fresh "m" in let HP2 := fresh "HP" in intros m2 HP2; repeat hstep]
       | |- oP (P ?s0) (send ?mm _ (StartBusListenerReply _ STOk) _ >>> _) =>
           let HPm := fresh "HP" in assert (HPm : P s0 mm) by pany;
           apply send_bind_P; [exact HPm|free|];
           let m2 := fresh "m" in let HP2 := fresh "HP" in intros m2 _ _ HP2;
           match goal with |- context [includes_current ?sc] => destruct (includes_current sc) end; [|exact HP2];
           apply oP_bind; [apply foldO_send_P; [exact HP2|reflexivity]|];
           let m3 := fresh "m" in let HP3 := fresh "HP" in intros m3 HP3;
           apply oP_bind; [apply foldO_send_P; [exact HP3|reflexivity]|];
           let m4 := fresh "m" in let HP4 := fresh "HP" in intros m4 HP4;
           apply send_P; [exact HP4|free]
       end.
  (* SubscribeAllEvents: the owner's version was checked *)
  all: try match goal with
       | Hms : ms ?m1 = ms ?m, HP1 : P _ ?m1, Ho : owner_of_svc (ms ?m) ?k = Some ?owner,
         Hc : conns (ms ?m) !! ?owner = Some ?ocs,
         Hchk : _ || (cs_ver ?ocs <? MIN_SUBSCRIBE_ALL_EVENTS_OWNER) = false |- _ =>
           let Hv := fresh "Hv" in
           assert (Hv : 18 <= cs_ver ocs) by (apply orb_false_iff in Hchk as [_ Hchk]; apply N.ltb_ge in Hchk; exact Hchk);
           rewrite <- Hms in Ho, Hc;
           first [ eapply send_owner_P; [eapply P_sub_all; eassumption|cbn; exact Hc|exact Hv]
                 | cbn; eapply P_sub_all; eassumption ]
       end.
  (* UnsubscribeAllEvents *)
  match goal with
  | Hc : conns (ms m) !! ?owner = Some ?ocs,
    Hchk : (cs_ver ?ocs <? MIN_UNSUBSCRIBE_ALL_EVENTS_OWNER) = false |- _ =>
      apply N.ltb_ge in Hchk; rename Hc into Hoc; rename Hchk into Hv
  end.
  assert (Htail : forall m1, ms m1 = ms m -> P s0 m1 ->
    oP (P s0) (if negb (bool_decide (s_all s = ∅)) && bool_decide (s_all s ∖ {[c]} = ∅)
               then send_ignore (m1 <| ms; svcs ::= <[p0 := s <| s_all := s_all s ∖ {[c]} |>]> |>) c0
                      (UnsubscribeAllEvents None sc) None
               else Done (m1 <| ms; svcs ::= <[p0 := s <| s_all := s_all s ∖ {[c]} |>]> |>))).
  { intros m1 Hms HP1.
    assert (Hs1 : svcs (ms m1) !! p0 = Some s) by (rewrite Hms; assumption).
    assert (HP1' : P s0 (m1 <| ms; svcs ::= <[p0 := s <| s_all := s_all s ∖ {[c]} |>]> |>)) by pupd HP1.
    destruct (_ && _); [|exact HP1'].
    eapply send_owner_P; [exact HP1'|cbn; rewrite Hms; exact Hoc|exact Hv]. }
  destruct serial as [n|].
  - apply send_bind_P; [exact HP|okgate|]. intros m1 Hms _ HP1. apply Htail; assumption.
  - cbn [andThen]. apply Htail; [reflexivity|exact HP].
Qed.

(* ================================================================ one step *)
Lemma P_init s : J s -> P (conns s) {| ms := s; mw := work0; mo := [] |}.
Proof.
  intros HJ. split; [apply cle_refl|]. split; [constructor|]. split; [exact HJ|].
  intros _ c sc cs Hin. cbn in Hin. apply elem_of_nil in Hin. contradiction.
Qed.

Lemma step_tail s0 m f s' o :
  P s0 m ->
  match settle f m with Done m' | Fail m' => Done (ms m', mo m') | Panic site => Panic site end = Done (s', o) ->
  Forall (okout s0) o /\ J s'.
Proof.
  intros HP H. pose proof (P_oR s0 m _ HP (settle_R f m)) as H2.
  destruct (settle f m) as [m'|m'|]; try discriminate H; injection H as <- <-;
    destruct H2 as (_ & Ho & HJ & _); auto.
Qed.

Lemma settle_idle fuel m : settle_one m = None -> settle fuel m = Done m.
Proof. intros H. destruct fuel; cbn [settle]; rewrite H; reflexivity. Qed.

Theorem step_gate_out s e fresh b s' o :
  J s -> (strict = true -> own_ok s /\ reg_ok s) ->
  step s e fresh b = Done (s', o) -> Forall (okout (conns s)) o /\ J s'.
Proof.
  intros HJ Hinv Hstep. unfold step in Hstep. pose proof (P_init s HJ) as HP0.
  set (m0 := {| ms := s; mw := work0; mo := [] |}) in *.
  destruct e as [c ver|c|c x| | |c|c].
  - (* NewConnection *)
    destruct (conns s !! c) as [?|] eqn:Ec; [discriminate Hstep|].
    rewrite settle_idle in Hstep by reflexivity. injection Hstep as <- <-. split; [constructor|].
    intros Hst k sv ob cs Hk Hne Hob Hcn. cbn in Hk, Hob, Hcn.
    apply lookup_insert_Some in Hcn as [[Heq _]|[_ Hcn]].
    + destruct (Hinv Hst) as [Hown _]. destruct (Hown _ _ Hob) as [? Hx]. rewrite <- Heq, Ec in Hx. discriminate.
    + eapply (HJ Hst); eauto.
  - eapply step_tail; [|exact Hstep]. eapply P_R; [exact HP0|apply push_remove_R].
  - pose proof (handle_P (conns s) m0 c x fresh b HP0 (fun Hst => proj2 (Hinv Hst))) as Hh.
    destruct (handle m0 c x fresh b) as [m|m|]; [| |discriminate Hstep]; cbn in Hh.
    + eapply step_tail; [|exact Hstep]. exact Hh.
    + eapply step_tail; [|exact Hstep]. eapply P_R; [exact Hh|apply push_remove_R].
  - eapply step_tail; [|exact Hstep]. eapply P_R; [exact HP0|].
    via_foldr; [apply RR_foldr; intros; apply push_remove_R|same].
  - match type of Hstep with match settle ?ff ?mm with _ => _ end = _ => apply (step_tail (conns s) mm ff) end; [|exact Hstep]. psame HP0.
  - eapply step_tail; [|exact Hstep]. eapply P_R; [exact HP0|apply push_remove_R].
  - eapply step_tail; [|exact Hstep]. destruct (conns s !! c) as [cs|] eqn:Ec; [|exact HP0].
    pupd HP0.
Qed.
End pass.

(* ================================================================ gate-in *)
Definition m_of (s : state) : M := {| ms := s; mw := work0; mo := [] |}.

Lemma handle_gated_fail s c cs x v fresh b :
  conns s !! c = Some cs -> min_version_of x = Some v -> cs_ver cs < v ->
  handle (m_of s) c x fresh b = Fail (m_of s).
Proof.
  intros Hc Hx Hv. unfold handle. cbn [ms m_of]. rewrite Hc.
  destruct x; try discriminate Hx; injection Hx as <-; try reflexivity;
    unfold gate, ver_of; cbn [ms m_of]; rewrite Hc; cbn [fmap option_fmap option_map];
    match goal with |- (if ?a <? ?b then _ else _) = _ => destruct (N.ltb_spec a b) as [|Hge]; [reflexivity|] end;
    exfalso; match type of Hge with ?k <= _ => let k' := eval vm_compute in k in change k with k' in Hge end; lia.
Qed.

Lemma fuel_for_pos s : exists f, fuel_for s = S f.
Proof. unfold fuel_for. eexists. cbn [Nat.add]. reflexivity. Qed.

(* a queued removal of [c] at the head of the work list removes [c] for good *)
Lemma settle_removes fuel m c sd r m' :
  w_remove_conns (mw m) = (c, sd) :: r ->
  (settle (S fuel) m = Done m' \/ settle (S fuel) m = Fail m') -> conns (ms m') !! c = None.
Proof.
  intros Hw Hs. cbn [settle] in Hs. unfold settle_one in Hs. rewrite Hw in Hs.
  pose proof (shutdown_conn_R false (m <| mw; w_remove_conns := r |>) c sd) as H.
  destruct (shutdown_conn _ c sd) as [m1|m1|]; cbn in H.
  - destruct H as [_ Ha]. pose proof (settle_R false fuel m1) as H2.
    destruct Hs as [Hs|Hs]; rewrite Hs in H2; cbn in H2; eapply R_absent; eassumption.
  - destruct H as [_ Ha]. pose proof (settle_R false fuel m1) as H2.
    destruct Hs as [Hs|Hs]; rewrite Hs in H2; cbn in H2; eapply R_absent; eassumption.
  - destruct Hs; discriminate.
Qed.

Theorem gate_in s c cs x v fresh b s' o :
  conns s !! c = Some cs -> min_version_of x = Some v -> cs_ver cs < v ->
  step s (Message c x) fresh b = Done (s', o) -> conns s' !! c = None.
Proof.
  intros Hc Hx Hv Hstep. unfold step in Hstep.
  change {| ms := s; mw := work0; mo := [] |} with (m_of s) in Hstep.
  rewrite (handle_gated_fail s c cs x v fresh b Hc Hx Hv) in Hstep.
  destruct (fuel_for_pos ((push_remove (m_of s) c false))) as [f Ef]. rewrite Ef in Hstep.
  destruct (settle (S f) (push_remove (m_of s) c false)) as [m'|m'|] eqn:Es; try discriminate;
    injection Hstep as <- <-; eapply (settle_removes f _ c false []); eauto; reflexivity.
Qed.

(* the messages the statement names, one by one *)
Example gated_kinds :
  (forall a b c d e, min_version_of (CallFunction2 a b c d e) = Some 19) /\
  (forall a, min_version_of (AbortFunctionCall a) = Some 16) /\
  min_version_of RegisterIntrospection = Some 17 /\
  (forall a, min_version_of (QueryIntrospection a) = Some 17) /\
  (forall a, min_version_of (QueryIntrospectionReply a) = Some 17) /\
  (forall a b c d, min_version_of (CreateService2 a b c d) = Some 17) /\
  (forall a b, min_version_of (QueryServiceInfo a b) = Some 17) /\
  (forall a b, min_version_of (SubscribeService a b) = Some 18) /\
  (forall a, min_version_of (UnsubscribeService a) = Some 18) /\
  (forall a b, min_version_of (SubscribeAllEvents a b) = Some 18) /\
  (forall a b, min_version_of (UnsubscribeAllEvents a b) = Some 18).
Proof. repeat split. Qed.

(* ================================================================ gate-out, for every step *)
(* unconditional: every output of every step goes to a connection of the pre-state and is not
   newer than that connection's version — except possibly the owner notification
   UnsubscribeAllEvents None, whose justification needs the ownership invariants (below) *)
Theorem gate_out_partial s e fresh b s' o c x from :
  step s e fresh b = Done (s', o) -> (c, x, from) ∈ o ->
  exists cs, conns s !! c = Some cs /\
    (msg_min_version x = 14 \/ msg_min_version x <= cs_ver cs \/ exists sc, x = UnsubscribeAllEvents None sc).
Proof.
  intros Hstep Hin.
  destruct (step_gate_out false s e fresh b s' o) as [Ho _]; [discriminate|discriminate|exact Hstep|].
  rewrite Forall_forall in Ho. destruct (Ho _ Hin) as (cs & Hc & Hv). exists cs. split; [exact Hc|].
  destruct Hv as [Hv|[Hv|[_ Hv]]]; auto.
Qed.

(* histories along which the ownership invariants hold: every object's owner is connected, every
   service's object exists (C03/C09 territory: Broker/Inv*.v proves them for [reachable]) *)
Inductive reach_own : state -> Prop :=
| ro_init : reach_own init
| ro_step s i s' o : reach_own s -> legal s i -> own_ok s -> reg_ok s ->
    step s (i_ev i) (i_fresh i) (i_bserial i) = Done (s', o) -> reach_own s'.

Lemma reach_own_reachable s : reach_own s -> reachable s.
Proof. induction 1; [constructor|econstructor; eassumption]. Qed.

Lemma reachable_reach_own :
  (forall s, reachable s -> own_ok s /\ reg_ok s) -> forall s, reachable s -> reach_own s.
Proof.
  intros Hinv s H. induction H as [|s i s' o H IH Hl Hs]; [constructor|].
  destruct (Hinv s H). econstructor; eassumption.
Qed.

Lemma J0_init : J0 init.
Proof. intros k sv o cs Hk. cbn in Hk. rewrite lookup_empty in Hk. discriminate. Qed.

Lemma reach_own_J s : reach_own s -> J0 s.
Proof.
  induction 1 as [|s i s' o H IH Hl Ho Hr Hs]; [apply J0_init|].
  destruct (step_gate_out true s _ _ _ s' o (fun _ => IH) (fun _ => conj Ho Hr) Hs) as [_ HJ].
  apply HJ. reflexivity.
Qed.

Theorem gate_out_own s e fresh b s' o c x from :
  reach_own s -> own_ok s -> reg_ok s ->
  step s e fresh b = Done (s', o) -> (c, x, from) ∈ o ->
  exists cs, conns s !! c = Some cs /\ (msg_min_version x = 14 \/ msg_min_version x <= cs_ver cs).
Proof.
  intros Hr Ho Hg Hstep Hin.
  destruct (step_gate_out true s e fresh b s' o (fun _ => reach_own_J s Hr) (fun _ => conj Ho Hg) Hstep) as [Hf _].
  rewrite Forall_forall in Hf. destruct (Hf _ Hin) as (cs & Hc & Hv). exists cs. split; [exact Hc|].
  destruct Hv as [Hv|[Hv|[Hv _]]]; [auto|auto|discriminate Hv].
Qed.

(* connections negotiated through the handshake have version >= 14: then the bound is plain *)
Definition vers_ge14 (s : state) : Prop := forall c cs, conns s !! c = Some cs -> 14 <= cs_ver cs.

Corollary gate_out_own_14 s e fresh b s' o c x from :
  reach_own s -> own_ok s -> reg_ok s -> vers_ge14 s ->
  step s e fresh b = Done (s', o) -> (c, x, from) ∈ o ->
  exists cs, conns s !! c = Some cs /\ msg_min_version x <= cs_ver cs.
Proof.
  intros Hr Ho Hg H14 Hstep Hin. destruct (gate_out_own _ _ _ _ _ _ _ _ _ Hr Ho Hg Hstep Hin) as (cs & Hc & Hv).
  exists cs. split; [exact Hc|]. destruct Hv as [->|Hv]; [apply (H14 _ _ Hc)|exact Hv].
Qed.

(* versions never change and no step but NewConnection adds a connection *)
Theorem versions_stable s e fresh b s' o c cs' :
  step s e fresh b = Done (s', o) -> conns s' !! c = Some cs' ->
  (exists cs, conns s !! c = Some cs /\ cs_ver cs' = cs_ver cs) \/
  (exists ver, e = NewConnection c ver /\ cs_ver cs' = ver).
Proof.
  intros Hstep Hc. unfold step in Hstep.
  set (m0 := {| ms := s; mw := work0; mo := [] |}) in *.
  assert (Htail : forall m f, cle (conns s) (conns (ms m)) ->
    match settle f m with Done m' | Fail m' => Done (ms m', mo m') | Panic site => Panic site end = Done (s', o) ->
    exists cs, conns s !! c = Some cs /\ cs_ver cs' = cs_ver cs).
  { intros m f Hle H. pose proof (settle_R false f m) as H2.
    destruct (settle f m) as [m'|m'|]; try discriminate H; injection H as <- <-;
      destruct H2 as [S _]; apply (cle_trans _ _ _ Hle (shr_c _ _ S)); exact Hc. }
  destruct e as [c0 ver|c0|c0 x| | |c0|c0].
  - destruct (conns s !! c0) as [?|] eqn:Ec; [discriminate Hstep|].
    rewrite settle_idle in Hstep by reflexivity. injection Hstep as <- <-. cbn in Hc.
    apply lookup_insert_Some in Hc as [[<- <-]|[_ Hc]]; [right; eauto|left; eauto].
  - left. eapply Htail; [|exact Hstep]. apply cle_refl.
  - left. pose proof (handle_P false (conns s) m0 c0 x fresh b (P_init false s ltac:(discriminate)) ltac:(discriminate)) as Hh.
    destruct (handle m0 c0 x fresh b) as [m|m|]; [| |discriminate Hstep]; cbn in Hh;
      (eapply Htail; [|exact Hstep]); apply Hh.
  - left. match type of Hstep with match settle ?ff ?mm with _ => _ end = _ => apply (Htail mm ff) end; [|exact Hstep].
    cbn. clear. induction (map_to_list (conns s)); cbn; [apply cle_refl|assumption].
  - left. match type of Hstep with match settle ?ff ?mm with _ => _ end = _ => apply (Htail mm ff) end; [|exact Hstep]. apply cle_refl.
  - left. eapply Htail; [|exact Hstep]. apply cle_refl.
  - left. eapply Htail; [|exact Hstep]. destruct (conns s !! c0) as [cs|] eqn:Ec; [|apply cle_refl].
    cbn. eapply cle_insert; [exact Ec|reflexivity].
Qed.

Lemma vers_ge14_step s e fresh b s' o :
  vers_ge14 s -> (match e with NewConnection _ v => 14 <= v | _ => True end) ->
  step s e fresh b = Done (s', o) -> vers_ge14 s'.
Proof.
  intros H14 He Hstep c cs' Hc.
  destruct (versions_stable _ _ _ _ _ _ _ _ Hstep Hc) as [(cs & Hcs & ->)|(ver & -> & ->)]; [eapply H14; eauto|exact He].
Qed.

(* ================================================================ re-encoding for older peers *)
(* a call is delivered to its callee as CallFunction2 (with the function version) exactly when the
   callee negotiated >= 1.19, otherwise as the legacy CallFunction with the same serial, service,
   function and payload; either way tagged with the caller's version *)
Theorem call_forward m c cs serial sc fn ver v bserial k s callee ccs b nxt :
  svc_by_cookie (ms m) sc = Some (k, s) -> owner_of_svc (ms m) k = Some callee ->
  conns (ms m) !! c = Some cs -> pick_serial (ms m) bserial = Some (b, nxt) ->
  cs_calls cs !! serial = None -> conns (ms m) !! callee = Some ccs -> cs_alive ccs = true ->
  exists m', call_impl m c serial sc fn ver v bserial = Done m' /\
    mo m' = mo m ++ [(callee, (if 19 <=? cs_ver ccs then CallFunction2 b sc fn ver v else CallFunction b sc fn v),
                      Some (cs_ver cs))].
Proof.
  intros Hs Ho Hc Hp Hn Hcc Ha. unfold call_impl. rewrite Hs, Ho, Hc, Hp.
  rewrite bool_decide_eq_false_2 by (rewrite Hn; intros [? ?]; discriminate).
  pose proof (svc_by_cookie_Some _ _ _ _ Hs) as Hk.
  change (svcs (ms (m <| ms; next := nxt |>))) with (svcs (ms m)).
  change (conns (ms (m <| ms; next := nxt |>))) with (conns (ms m)). rewrite Hk, Hcc.
  match goal with |- context [send_or_remove ?mm _ _ _] => set (m1 := mm) end.
  assert (Hc1 : exists ccs', conns (ms m1) !! callee = Some ccs' /\ cs_alive ccs' = true).
  { subst m1. cbn. destruct (decide (c = callee)) as [->|Hne].
    - rewrite lookup_insert. eexists. split; [reflexivity|]. cbn. rewrite Hc in Hcc. injection Hcc as ->. exact Ha.
    - rewrite lookup_insert_ne by exact Hne. eauto. }
  destruct Hc1 as (ccs' & Hc1 & Ha1).
  change MIN_CALL_FUNCTION2_OUT with 19.
  destruct (19 <=? cs_ver ccs); unfold send_or_remove, send; rewrite Hc1, Ha1; eexists; (split; [reflexivity|reflexivity]).
Qed.

(* create_service2 from a 1.17 client: subscribe_all is cleared before the service is stored *)
Theorem create_service2_old_creator m c cs serial oc u i fresh b :
  conns (ms m) !! c = Some cs -> cs_ver cs = 17 ->
  handle m c (CreateService2 serial oc u (Some i)) fresh b =
  create_service_impl m c serial oc u
    (Some {| i_version := i_version i; i_type_id := i_type_id i; i_sub_all := Some false |}) fresh.
Proof.
  intros Hc Hv. unfold handle, gate, ver_of. rewrite Hc. cbn [fmap option_fmap option_map]. rewrite Hv.
  reflexivity.
Qed.

Theorem create_service2_new_creator m c cs serial oc u i fresh b :
  conns (ms m) !! c = Some cs -> 18 <= cs_ver cs ->
  handle m c (CreateService2 serial oc u (Some i)) fresh b =
  create_service_impl m c serial oc u (Some i) fresh.
Proof.
  intros Hc Hv. unfold handle, gate, ver_of. rewrite Hc. cbn [fmap option_fmap option_map].
  change MIN_CREATE_SERVICE2 with 17. change MIN_CREATE_SERVICE2_SUB_ALL with 18.
  destruct (N.ltb_spec (cs_ver cs) 17); [lia|]. destruct (N.ltb_spec (cs_ver cs) 18); [lia|]. reflexivity.
Qed.
