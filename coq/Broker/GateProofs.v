(* Broker/GateProofs.v — C12 on the abstract broker machine (Broker/Model.v):
   gate-in  (a message newer than the sender's negotiated version removes the sender),
   gate-out (no output is newer than its destination's version),
   payload tags (payload-carrying outputs carry the version of the connection that produced the
   payload, broker-made messages carry None).
   The version tables below are written with the literal numbers of the protocol; [gates_tie]
   shows they are the numbers Model.v takes from gen/BrokerConsts.v (read from broker.rs). *)
From stdpp Require Import gmap list.
From RecordUpdate Require Import RecordSet.
Import RecordSetNotations.
From Aldrin Require Import gen.BrokerConsts Broker.Model Broker.Run.
From Coq Require Import ZifyBool ZifyNat ZifyN Lia.
Local Open Scope N_scope.

(* ================================================================ the tables *)
(* first protocol minor version in which a client may SEND the message to the broker *)
Definition min_version_of (x : msg) : option N :=
  match x with
  | CallFunction2 _ _ _ _ _ => Some 19
  | AbortFunctionCall _ => Some 16
  | RegisterIntrospection | QueryIntrospection _ | QueryIntrospectionReply _
  | CreateService2 _ _ _ _ | QueryServiceInfo _ _ => Some 17
  | SubscribeService _ _ | UnsubscribeService _ | SubscribeAllEvents _ _
  | UnsubscribeAllEvents _ _ => Some 18
  | _ => None
  end.

(* first protocol minor version whose clients understand the message when the broker SENDS it *)
Definition msg_min_version (x : msg) : N :=
  match x with
  | CallFunction2 _ _ _ _ _ => 19
  | AbortFunctionCall _ => 16
  | QueryIntrospectionReply _ | QueryServiceInfoReply _ _ => 17
  | SubscribeServiceReply _ _ | SubscribeAllEvents _ _ | SubscribeAllEventsReply _ _
  | UnsubscribeAllEvents _ _ | UnsubscribeAllEventsReply _ _ => 18
  | _ => 14
  end.

(* the gate Model.v applies to an incoming message (from gen/BrokerConsts.v) *)
Definition model_gate_of (x : msg) : option N :=
  match x with
  | CallFunction2 _ _ _ _ _ => Some MIN_CALL_FUNCTION2
  | AbortFunctionCall _ => Some MIN_ABORT_FUNCTION_CALL
  | RegisterIntrospection => Some MIN_REGISTER_INTROSPECTION
  | QueryIntrospection _ => Some MIN_QUERY_INTROSPECTION
  | QueryIntrospectionReply _ => Some MIN_QUERY_INTROSPECTION_REPLY
  | CreateService2 _ _ _ _ => Some MIN_CREATE_SERVICE2
  | QueryServiceInfo _ _ => Some MIN_QUERY_SERVICE_INFO
  | SubscribeService _ _ => Some MIN_SUBSCRIBE_SERVICE
  | UnsubscribeService _ => Some MIN_UNSUBSCRIBE_SERVICE
  | SubscribeAllEvents _ _ => Some MIN_SUBSCRIBE_ALL_EVENTS
  | UnsubscribeAllEvents _ _ => Some MIN_UNSUBSCRIBE_ALL_EVENTS
  | _ => None
  end.

Example gates_tie : forall x, model_gate_of x = min_version_of x.
Proof. intros x. destruct x; reflexivity. Qed.

Example gates_out_tie :
  (MIN_CALL_FUNCTION2_OUT, MIN_ABORT_FUNCTION_CALL_OUT, MIN_SUBSCRIBE_ALL_EVENTS_OWNER,
   MIN_UNSUBSCRIBE_ALL_EVENTS_OWNER, MIN_CREATE_SERVICE2_SUB_ALL) = (19, 16, 18, 18, 18).
Proof. reflexivity. Qed.

(* ================================================================ outcomes and relations *)
Definition oR (R : M -> M -> Prop) (m : M) (x : outcome M) : Prop :=
  match x with Done m' | Fail m' => R m m' | Panic _ => True end.

Section combinators.
  Context (R : M -> M -> Prop) (Rrefl : forall m, R m m)
          (Rtrans : forall a b c, R a b -> R b c -> R a c).

  Lemma oR_done m : oR R m (Done m). Proof. apply Rrefl. Qed.
  Lemma oR_fail m : oR R m (Fail m). Proof. apply Rrefl. Qed.

  Lemma oR_step m m1 x : R m m1 -> oR R m1 x -> oR R m x.
  Proof. intros H. destruct x; cbn; eauto. Qed.

  Lemma oR_bind m x f : oR R m x -> (forall m1, oR R m1 (f m1)) -> oR R m (x >>> f).
  Proof.
    intros Hx Hf. destruct x as [m1|m1|]; cbn in *; try assumption.
    eapply oR_step; [exact Hx|apply Hf].
  Qed.

  Lemma oR_foldO {A} (f : M -> A -> outcome M) l :
    (forall m a, oR R m (f m a)) -> forall m, oR R m (foldO f l m).
  Proof.
    intros Hf. induction l as [|a l IH]; intros m; cbn [foldO]; [apply Rrefl|].
    specialize (Hf m a). destruct (f m a) as [m1|m1|]; cbn in *; try assumption.
    eapply oR_step; [exact Hf|apply IH].
  Qed.

  Lemma R_foldl {A} (f : M -> A -> M) l : (forall m a, R m (f m a)) -> forall m, R m (foldl f m l).
  Proof. intros Hf. induction l as [|a l IH]; intros m; cbn; [apply Rrefl|]. eapply Rtrans; [apply Hf|apply IH]. Qed.

  Lemma R_foldr {A} (f : A -> M -> M) l : (forall m a, R m (f a m)) -> forall m, R m (foldr f m l).
  Proof. intros Hf. induction l as [|a l IH]; intros m; cbn; [apply Rrefl|]. eapply Rtrans; [apply IH|apply Hf]. Qed.
End combinators.

(* ================================================================ the shrinking relation *)
(* [cle a b]: every connection of [b] is a connection of [a] with the same version *)
Definition cle (a b : gmap conn cstate) : Prop :=
  forall k cs', b !! k = Some cs' -> exists cs, a !! k = Some cs /\ cs_ver cs' = cs_ver cs.
Definition ole (a b : gmap uuid obj) : Prop := forall u o, b !! u = Some o -> a !! u = Some o.
Definition sle (a b : gmap (uuid * uuid) svc) : Prop :=
  forall k sv', b !! k = Some sv' -> exists sv, a !! k = Some sv /\ (s_all sv' <> ∅ -> s_all sv <> ∅).

Lemma cle_refl a : cle a a. Proof. intros k cs H. eauto. Qed.
Lemma cle_trans a b c : cle a b -> cle b c -> cle a c.
Proof. intros H1 H2 k cs Hk. destruct (H2 _ _ Hk) as (cs1 & Hk1 & E1). destruct (H1 _ _ Hk1) as (cs0 & Hk0 & E0). exists cs0. split; congruence. Qed.
Lemma cle_delete a c : cle a (delete c a).
Proof. intros k cs H. apply lookup_delete_Some in H as [_ H]. eauto. Qed.
Lemma cle_insert a c cs cs' : a !! c = Some cs -> cs_ver cs' = cs_ver cs -> cle a (<[c := cs']> a).
Proof.
  intros Hc Hv k x H. apply lookup_insert_Some in H as [[<- <-]|[_ H]]; eauto.
Qed.

Lemma ole_refl a : ole a a. Proof. intros u o H. exact H. Qed.
Lemma ole_trans a b c : ole a b -> ole b c -> ole a c. Proof. unfold ole. eauto. Qed.
Lemma ole_delete a u : ole a (delete u a).
Proof. intros k o H. apply lookup_delete_Some in H as [_ H]. exact H. Qed.

Lemma sle_refl a : sle a a. Proof. intros k sv H. eauto. Qed.
Lemma sle_trans a b c : sle a b -> sle b c -> sle a c.
Proof. intros H1 H2 k sv Hk. destruct (H2 _ _ Hk) as (s1 & Hk1 & E1). destruct (H1 _ _ Hk1) as (s0 & Hk0 & E0). exists s0. split; auto. Qed.
Lemma sle_delete a k : sle a (delete k a).
Proof. intros k' sv H. apply lookup_delete_Some in H as [_ H]. eauto. Qed.
Lemma sle_insert a k s s' : a !! k = Some s -> (s_all s' <> ∅ -> s_all s <> ∅) -> sle a (<[k := s']> a).
Proof. intros Hk Hs k' x H. apply lookup_insert_Some in H as [[<- <-]|[_ H]]; eauto. Qed.
Lemma sle_fmap a (f : svc -> svc) : (forall s, s_all (f s) = s_all s) -> sle a (f <$> a).
Proof.
  intros Hf k x H. rewrite lookup_fmap in H. destruct (a !! k) as [s|] eqn:E; [|discriminate].
  cbn in H. injection H as <-. exists s. rewrite Hf. auto.
Qed.

Record shr (a b : state) : Prop := {
  shr_c : cle (conns a) (conns b);
  shr_o : ole (objs a) (objs b);
  shr_s : sle (svcs a) (svcs b) }.

Lemma shr_refl a : shr a a.
Proof. split; [apply cle_refl|apply ole_refl|apply sle_refl]. Qed.
Lemma shr_trans a b c : shr a b -> shr b c -> shr a c.
Proof. intros [] []. split; [eapply cle_trans|eapply ole_trans|eapply sle_trans]; eassumption. Qed.

(* ================================================================ gate-out invariants *)
(* a subscribe-all bookkeeping entry exists only for services whose owner (if it is connected)
   negotiated at least 1.18 *)
Definition J0 (st : state) : Prop :=
  forall k sv o cs, svcs st !! k = Some sv -> s_all sv <> ∅ -> objs st !! k.1 = Some o ->
    conns st !! o_owner o = Some cs -> 18 <= cs_ver cs.

Lemma J0_shr a b : J0 a -> shr a b -> J0 b.
Proof.
  intros HJ [Hc Ho Hs] k sv o cs Hk Hne Hob Hcn.
  destruct (Hs _ _ Hk) as (sv0 & Hk0 & Hne0). destruct (Hc _ _ Hcn) as (cs0 & Hc0 & E).
  rewrite E. eapply HJ; eauto.
Qed.

(* queued "tell the owner nobody subscribes to all events any more" items only name owners of
   version >= 1.18 *)
Definition W0 (m : M) : Prop :=
  forall c sc cs, (c, sc) ∈ w_unsub_all (mw m) -> conns (ms m) !! c = Some cs -> 18 <= cs_ver cs.

(* The pass below is made once for two readings, selected by [strict]:
   strict = true : J0/W0 are carried and every output must respect its destination's version;
   strict = false: nothing is carried, and the one message kind whose justification needs the
                   ownership invariants (UnsubscribeAllEvents None, sent to a service's owner
                   when its last all-events subscriber disconnects) is exempted. *)
Section pass.
Context (strict : bool).

Definition J (st : state) : Prop := strict = true -> J0 st.
Definition W (m : M) : Prop := strict = true -> W0 m.

Lemma J_shr a b : J a -> shr a b -> J b.
Proof. intros HJ S Hs. eapply J0_shr; [apply HJ, Hs|exact S]. Qed.

(* an output is acceptable w.r.t. the connection table [s0] *)
Definition okout (s0 : gmap conn cstate) (o : out) : Prop :=
  exists cs, s0 !! o.1.1 = Some cs /\
    (msg_min_version o.1.2 = 14 \/ msg_min_version o.1.2 <= cs_ver cs \/
     (strict = false /\ exists sc, o.1.2 = UnsubscribeAllEvents None sc)).

Lemma okout_cle a b o : cle a b -> okout b o -> okout a o.
Proof. intros H (cs & Hc & Hv). destruct (H _ _ Hc) as (cs0 & Hc0 & E). exists cs0. split; [assumption|]. rewrite <- E. exact Hv. Qed.

Definition R (m m' : M) : Prop :=
  shr (ms m) (ms m') /\
  (J (ms m) -> W m ->
   W m' /\ exists new, mo m' = mo m ++ new /\ Forall (okout (conns (ms m))) new).

Lemma R_refl m : R m m.
Proof. split; [apply shr_refl|]. intros _ HW. split; [exact HW|]. exists []. rewrite app_nil_r. auto. Qed.

Lemma R_trans a b c : R a b -> R b c -> R a c.
Proof.
  intros [S1 H1] [S2 H2]. split; [eapply shr_trans; eassumption|].
  intros HJ HW. destruct (H1 HJ HW) as (HW1 & n1 & E1 & F1).
  destruct (H2 (J_shr _ _ HJ S1) HW1) as (HW2 & n2 & E2 & F2).
  split; [exact HW2|]. exists (n1 ++ n2). split; [rewrite E2, E1, app_assoc; reflexivity|].
  apply Forall_app. split; [exact F1|].
  eapply Forall_impl; [exact F2|]. intros o Ho. eapply okout_cle; [apply (shr_c _ _ S1)|exact Ho].
Qed.

(* [m'] differs from [m] at most in fields the invariants do not read *)
Lemma R_same m m' :
  conns (ms m') = conns (ms m) -> objs (ms m') = objs (ms m) -> svcs (ms m') = svcs (ms m) ->
  w_unsub_all (mw m') = w_unsub_all (mw m) -> mo m' = mo m -> R m m'.
Proof.
  intros Ec Eo Es Ew Em. split.
  - split; rewrite ?Ec, ?Eo, ?Es; [apply cle_refl|apply ole_refl|apply sle_refl].
  - intros _ HW. split.
    + intros Hs c sc cs. rewrite Ew, Ec. apply HW, Hs.
    + exists []. rewrite app_nil_r. auto.
Qed.

(* the state shrinks; work and outputs as before *)
Lemma R_shr m m' :
  shr (ms m) (ms m') -> w_unsub_all (mw m') = w_unsub_all (mw m) -> mo m' = mo m -> R m m'.
Proof.
  intros S Ew Em. split; [exact S|]. intros _ HW. split.
  - intros Hs c sc cs Hin Hc. rewrite Ew in Hin. destruct (shr_c _ _ S _ _ Hc) as (cs0 & Hc0 & E).
    rewrite E. eapply HW; eauto.
  - exists []. rewrite app_nil_r. auto.
Qed.

Ltac same := apply R_same; reflexivity.

Notation oRR := (oR R).
Lemma oRR_bind m x f : oRR m x -> (forall m1, oRR m1 (f m1)) -> oRR m (x >>> f).
Proof. apply oR_bind. exact R_trans. Qed.
Lemma oRR_step m m1 x : R m m1 -> oRR m1 x -> oRR m x.
Proof. apply oR_step. exact R_trans. Qed.
Lemma oRR_foldO {A} (f : M -> A -> outcome M) l :
  (forall m a, oRR m (f m a)) -> forall m, oRR m (foldO f l m).
Proof. apply oR_foldO; [exact R_refl|exact R_trans]. Qed.
Lemma RR_foldl {A} (f : M -> A -> M) l : (forall m a, R m (f m a)) -> forall m, R m (foldl f m l).
Proof. apply R_foldl; [exact R_refl|exact R_trans]. Qed.
Lemma RR_foldr {A} (f : A -> M -> M) l : (forall m a, R m (f a m)) -> forall m, R m (foldr f m l).
Proof. apply R_foldr; [exact R_refl|exact R_trans]. Qed.

(* ---------------------------------------------------------------- sending *)
Definition free_kind (x : msg) : Prop := msg_min_version x = 14.

Lemma send_R m c x from :
  (forall cs, conns (ms m) !! c = Some cs -> msg_min_version x = 14 \/ msg_min_version x <= cs_ver cs) ->
  oRR m (send m c x from).
Proof.
  intros Hv. unfold send. destruct (conns (ms m) !! c) as [cs|] eqn:E; [|exact I].
  destruct (cs_alive cs); [|apply R_refl]. cbn.
  split; [apply shr_refl|]. intros _ HW. split; [exact HW|].
  exists [(c, x, from)]. split; [reflexivity|]. constructor; [|constructor].
  exists cs. cbn. split; [exact E|]. destruct (Hv cs eq_refl) as [H|H]; auto.
Qed.

Lemma push_remove_R m c sd : R m (push_remove m c sd).
Proof. same. Qed.

Lemma send_or_remove_R m c x from :
  (forall cs, conns (ms m) !! c = Some cs -> msg_min_version x = 14 \/ msg_min_version x <= cs_ver cs) ->
  oRR m (send_or_remove m c x from).
Proof.
  intros Hv. pose proof (send_R m c x from Hv) as H. unfold send_or_remove.
  destruct (send m c x from) as [m'|m'|]; cbn in *; [exact H| |exact I].
  eapply R_trans; [exact H|apply push_remove_R].
Qed.

Lemma send_ignore_R m c x from :
  (forall cs, conns (ms m) !! c = Some cs -> msg_min_version x = 14 \/ msg_min_version x <= cs_ver cs) ->
  oRR m (send_ignore m c x from).
Proof.
  intros Hv. pose proof (send_R m c x from Hv) as H. unfold send_ignore.
  destruct (send m c x from) as [m'|m'|]; cbn in *; assumption.
Qed.

Ltac free := intros ? _; left; reflexivity.

(* ---------------------------------------------------------------- the removal cascade *)
Ltac via_fold :=
  lazymatch goal with
  | |- oR R _ (foldO _ _ ?m1 >>> _) => apply (oRR_step _ m1)
  | |- oR R _ (foldO _ _ ?m1) => apply (oRR_step _ m1)
  end.

Ltac via_foldr :=
  lazymatch goal with
  | |- R _ ?t => match t with context [foldr ?f ?a ?l] => apply (R_trans _ (foldr f a l)) end
  end.

Lemma remove_listener_R m k : R m (remove_listener m k).
Proof. unfold remove_listener. destruct (listeners (ms m) !! k); [same|apply R_refl]. Qed.

Lemma remove_end_R m cookie e : oRR m (remove_end m cookie e).
Proof.
  unfold remove_end. destruct (chans (ms m) !! cookie) as [ch|]; [|apply R_refl].
  destruct (chan_close ch e) as [|ch' o|site]; [same| |exact I].
  destruct (has _ o).
  - eapply oRR_step; [|apply send_or_remove_R; free]. same.
  - same.
Qed.

Lemma remove_service_R m cookie : oRR m (remove_service m cookie).
Proof.
  unfold remove_service. destruct (svc_by_cookie (ms m) cookie) as [[k s]|]; [|apply R_refl].
  via_fold; [|apply oRR_bind].
  - apply R_shr; [|reflexivity|reflexivity]. cbn. split; [apply cle_refl|apply ole_refl|apply sle_delete].
  - apply oRR_foldO. intros m1 b. destruct (calls (ms m1) !! b) as [cl|]; [|exact I].
    cbn. destruct (c_aborted cl); same.
  - intros m2. cbn. via_foldr; [|same].
    apply RR_foldr. intros m3 c. destruct (has m3 c); [same|apply R_refl].
Qed.

Lemma remove_object_R m cookie : oRR m (remove_object m cookie).
Proof.
  unfold remove_object. destruct (obj_by_cookie (ms m) cookie) as [[u o]|]; [|apply R_refl].
  via_fold; [|apply oRR_bind].
  - apply R_shr; [|reflexivity|reflexivity]. cbn. split; [apply cle_refl|apply ole_delete|apply sle_refl].
  - apply oRR_foldO. intros; apply remove_service_R.
  - intros m2. cbn. same.
Qed.

Definition Rabs (c : conn) (m m' : M) : Prop := R m m' /\ conns (ms m') !! c = None.

Lemma R_absent m m' c : R m m' -> conns (ms m) !! c = None -> conns (ms m') !! c = None.
Proof.
  intros [S _] H. destruct (conns (ms m') !! c) as [cs|] eqn:E; [|reflexivity].
  destruct (shr_c _ _ S _ _ E) as (cs0 & E0 & _). congruence.
Qed.

Lemma shutdown_conn_R m c sd : oR (Rabs c) m (shutdown_conn m c sd).
Proof.
  unfold shutdown_conn. destruct (conns (ms m) !! c) as [cs|] eqn:Ec.
  2:{ split; [apply R_refl|exact Ec]. }
  set (m0 := m <| ms; conns ::= delete c |>).
  set (m1 := if sd && cs_alive cs then m0 <| mo := mo m0 ++ [(c, Shutdown, None)] |> else m0).
  assert (H1 : R m m1 /\ conns (ms m1) !! c = None).
  { split.
    - split.
      + subst m1 m0. destruct (sd && cs_alive cs); cbn; (split; [apply cle_delete|apply ole_refl|apply sle_refl]).
      + intros _ HW. split.
        * intros Hst c' sc cs' Hin Hc. apply (HW Hst c' sc cs').
          -- subst m1 m0. destruct (sd && cs_alive cs); exact Hin.
          -- subst m1 m0. destruct (sd && cs_alive cs); cbn in Hc; apply lookup_delete_Some in Hc as [_ Hc]; exact Hc.
        * subst m1 m0. destruct (sd && cs_alive cs); cbn.
          -- exists [(c, Shutdown, None)]. split; [reflexivity|]. constructor; [|constructor].
             exists cs. split; [exact Ec|]. left. reflexivity.
          -- exists []. rewrite app_nil_r. auto.
    - subst m1 m0. destruct (sd && cs_alive cs); cbn; apply lookup_delete. }
  clearbody m1. clear m0.
  match goal with |- oR _ _ ?X => enough (H : oRR m1 X) end.
  { destruct H1 as [H1 H1']. match goal with |- oR _ _ ?X => destruct X as [m'|m'|] end; cbn in *;
      try exact I; (split; [eapply R_trans; eassumption|eapply R_absent; eassumption]). }
  clear H1.
  cbv zeta. via_fold; [apply RR_foldl; intros; apply remove_listener_R|].
  apply oRR_bind; [apply oRR_foldO; intros; apply remove_object_R|]. intros m3.
  apply oRR_bind.
  { apply oRR_foldO. intros ma k.
    destruct (svcs (ms ma) !! k) as [s|] eqn:Es; [|apply R_refl].
    destruct (owner_of_svc (ms ma) k) as [owner|]; [|exact I].
    cbn. apply RR_foldl. intros mb e.
    destruct (svcs (ms mb) !! k) as [s'|] eqn:Es'; [|apply R_refl].
    destruct (bool_decide _).
    - apply R_shr; [|reflexivity|reflexivity]. cbn.
      split; [apply cle_refl|apply ole_refl|eapply sle_insert; [exact Es'|auto]].
    - apply R_shr; [|reflexivity|reflexivity]. cbn.
      split; [apply cle_refl|apply ole_refl|eapply sle_insert; [exact Es'|auto]]. }
  intros m4. apply oRR_bind.
  { apply oRR_foldO. intros ma k.
    destruct (svcs (ms ma) !! k) as [s|] eqn:Es; [|apply R_refl].
    destruct (owner_of_svc (ms ma) k) as [owner|] eqn:Eo; [|exact I].
    destruct (bool_decide_reflect (c ∈ s_all s)) as [Hin|]; [|apply R_refl].
    cbn. assert (Hsle : sle (svcs (ms ma)) (<[k := s <| s_all := s_all s ∖ {[c]} |>]> (svcs (ms ma)))).
    { eapply sle_insert; [exact Es|]. cbn. intros _. set_solver. }
    split.
    - destruct (bool_decide _); cbn; (split; [apply cle_refl|apply ole_refl|exact Hsle]).
    - intros HJ HW. split.
      + intros Hst c' sc cs' Hin' Hc'. specialize (HJ Hst). specialize (HW Hst).
        assert (Hc'' : conns (ms ma) !! c' = Some cs') by (destruct (bool_decide _); exact Hc').
        destruct (bool_decide (s_all s ∖ {[c]} = ∅)); cbn in Hin'; [|eapply HW; eassumption].
        apply elem_of_cons in Hin' as [Heq|Hin']; [|eapply HW; eassumption].
        injection Heq as -> ->. unfold owner_of_svc in Eo.
        destruct (objs (ms ma) !! k.1) as [o|] eqn:Eob; [|discriminate]. cbn in Eo. injection Eo as <-.
        eapply (HJ k s o cs'); eauto. set_solver.
      + exists []. rewrite app_nil_r. split; [|constructor]. destruct (bool_decide _); reflexivity. }
  intros m5.
  eapply oRR_step.
  { apply R_shr with (m' := m5 <| ms; svcs ::= fmap (fun s => s <| s_subs ::= fun x => x ∖ {[c]} |>) |>);
      [|reflexivity|reflexivity].
    cbn. split; [apply cle_refl|apply ole_refl|apply sle_fmap; reflexivity]. }
  apply oRR_bind.
  { apply oRR_foldO. intros ma k. destruct (chans (ms ma) !! k) as [ch|]; [|apply R_refl].
    destruct (ch_s ch) as [|o cap|]; try apply R_refl.
    destruct (bool_decide _); [apply remove_end_R|apply R_refl]. }
  intros m7. apply oRR_bind.
  { apply oRR_foldO. intros ma k. destruct (chans (ms ma) !! k) as [ch|]; [|apply R_refl].
    destruct (ch_r ch) as [|o cap|]; try apply R_refl.
    destruct (bool_decide _); [apply remove_end_R|apply R_refl]. }
  intros m8. cbn. via_foldr; [|same]. apply RR_foldr. intros; same.
Qed.

Lemma bus_R m ev : oRR m (bus m ev).
Proof.
  unfold bus. apply oRR_foldO. intros ma c.
  destruct (has ma c); [apply send_or_remove_R; free|apply R_refl].
Qed.

Lemma abort_call_R m b callee : oRR m (abort_call m b callee).
Proof.
  unfold abort_call. destruct (calls (ms m) !! b) as [cl|]; [|apply R_refl].
  destruct (c_aborted cl); [apply R_refl|].
  set (m1 := m <| ms; calls ::= <[b := cl <| c_aborted := true |>]> |>).
  apply (oRR_step _ m1); [same|]. clearbody m1.
  apply oRR_bind.
  - destruct (conns (ms m1) !! callee) as [cc|] eqn:Ec; [|apply R_refl].
    destruct (N.leb_spec MIN_ABORT_FUNCTION_CALL_OUT (cs_ver cc)) as [Hle|]; [|apply R_refl].
    apply send_or_remove_R. intros cs Hcs. right. rewrite Ec in Hcs. injection Hcs as <-. exact Hle.
  - intros m2. destruct (conns (ms m2) !! c_caller cl) as [cs|] eqn:Ec; [|apply R_refl].
    destruct (cs_calls cs !! c_serial cl); [|exact I].
    eapply oRR_step; [|apply send_or_remove_R; free].
    apply R_shr; [|reflexivity|reflexivity]. cbn.
    split; [eapply cle_insert; [exact Ec|reflexivity]|apply ole_refl|apply sle_refl].
Qed.

Lemma settle_one_R m x : settle_one m = Some x -> oRR m x.
Proof.
  unfold settle_one.
  destruct (w_remove_conns (mw m)) as [|[c sd] r] eqn:E1.
  2:{ intros [= <-]. eapply oRR_step with (m1 := m <| mw; w_remove_conns := r |>); [same|].
      pose proof (shutdown_conn_R (m <| mw; w_remove_conns := r |>) c sd) as H.
      destruct (shutdown_conn _ c sd); cbn in *; try exact I; apply H. }
  destruct (w_unsub_ev (mw m)) as [|[[c s] e] r] eqn:E2.
  2:{ intros [= <-]. eapply oRR_step with (m1 := m <| mw; w_unsub_ev := r |>); [same|].
      destruct (has _ c); [apply send_or_remove_R; free|apply R_refl]. }
  destruct (w_unsub_all (mw m)) as [|[c s] r] eqn:E3.
  2:{ intros H. apply (inj Some) in H. subst x. cbv zeta. set (m1 := m <| mw; w_unsub_all := r |>).
      assert (H1 : R m m1).
      { split; [apply shr_refl|]. intros _ HW. split.
        - intros Hst c' sc cs Hin Hc. apply (HW Hst c' sc cs); [|exact Hc]. rewrite E3. apply elem_of_cons. right. exact Hin.
        - exists []. rewrite app_nil_r. auto. }
      destruct (has m1 c); [|exact H1].
      (* the send is justified by W of the ORIGINAL m, not of m1: prove the composite directly *)
      unfold send_or_remove, send. destruct (conns (ms m1) !! c) as [cs|] eqn:Ec; [|exact I].
      assert (Hsend : R m (m1 <| mo := mo m1 ++ [(c, UnsubscribeAllEvents None s, None)] |>)).
      { split; [apply shr_refl|]. intros _ HW. split.
        - intros Hst c' sc cs' Hin Hc. apply (HW Hst c' sc cs'); [|exact Hc]. rewrite E3. apply elem_of_cons. right. exact Hin.
        - exists [(c, UnsubscribeAllEvents None s, None)]. split; [reflexivity|]. constructor; [|constructor].
          exists cs. split; [exact Ec|]. right. cbn. destruct strict eqn:Hst.
          + left. apply (HW Hst c s cs); [|exact Ec]. rewrite E3. apply elem_of_cons. left. reflexivity.
          + right. split; [reflexivity|]. exists s. reflexivity. }
      destruct (cs_alive cs); cbn; [exact Hsend|].
      eapply R_trans; [exact H1|apply push_remove_R]. }
  destruct (w_svc_destroyed (mw m)) as [|[c s] r] eqn:E4.
  2:{ intros [= <-]. eapply oRR_step with (m1 := m <| mw; w_svc_destroyed := r |>); [same|].
      destruct (has _ c); [apply send_or_remove_R; free|apply R_refl]. }
  destruct (w_rm_call (mw m)) as [|[[serial c] result] r] eqn:E5.
  2:{ intros H. apply (inj Some) in H. subst x. cbv zeta.
      set (m1 := m <| mw; w_rm_call := r |>). apply (oRR_step _ m1); [same|]. clearbody m1.
      destruct (conns (ms m1) !! c) as [cs|] eqn:Ec; [|apply R_refl].
      destruct (cs_calls cs !! serial); [|exact I].
      eapply oRR_step; [|apply send_or_remove_R; free].
      apply R_shr; [|reflexivity|reflexivity]. cbn.
      split; [eapply cle_insert; [exact Ec|reflexivity]|apply ole_refl|apply sle_refl]. }
  destruct (w_create_obj (mw m)) as [|[u c] r] eqn:E6.
  2:{ intros [= <-]. eapply oRR_step; [|apply bus_R]. same. }
  destruct (w_create_svc (mw m)) as [|[[[ou oc] su] sc] r] eqn:E7.
  2:{ intros [= <-]. eapply oRR_step; [|apply bus_R]. same. }
  destruct (w_destroy_svc (mw m)) as [|[[[ou oc] su] sc] r] eqn:E8.
  2:{ intros [= <-]. eapply oRR_step; [|apply bus_R]. same. }
  destruct (w_destroy_obj (mw m)) as [|[u c] r] eqn:E9.
  2:{ intros [= <-]. eapply oRR_step; [|apply bus_R]. same. }
  destruct (w_abort (mw m)) as [|[b callee] r] eqn:E10.
  2:{ intros [= <-]. eapply oRR_step; [|apply abort_call_R]. same. }
  discriminate.
Qed.

Lemma settle_R fuel : forall m, oRR m (settle fuel m).
Proof.
  induction fuel as [|f IH]; intros m; cbn [settle].
  - destruct (settle_one m) as [[m'|m'|]|]; cbn; try exact I. apply R_refl.
  - destruct (settle_one m) as [x|] eqn:E; [|apply R_refl].
    apply settle_one_R in E. destruct x as [m'|m'|]; cbn in E; try exact I; (eapply oRR_step; [exact E|apply IH]).
Qed.

End pass.

(* ================================================================ gate-in *)
Definition m_of (s : state) : M := {| ms := s; mw := work0; mo := [] |}.

Lemma handle_gated_fail s c cs x v fresh b :
  conns s !! c = Some cs -> min_version_of x = Some v -> cs_ver cs < v ->
  handle (m_of s) c x fresh b = Fail (m_of s).
Proof.
  intros Hc Hx Hv. unfold handle. cbn [ms m_of]. rewrite Hc.
  destruct x; try discriminate Hx; injection Hx as <-; try reflexivity;
    unfold gate, ver_of; cbn [ms m_of]; rewrite Hc; cbn [fmap option_fmap option_map];
    match goal with |- (if ?a <? ?b then _ else _) = _ => destruct (N.ltb_spec a b) as [|Hge]; [reflexivity|] end;
    exfalso; match type of Hge with ?k <= _ => let k' := eval vm_compute in k in change k with k' in Hge end; lia.
Qed.

Lemma fuel_for_pos s : exists f, fuel_for s = S f.
Proof. unfold fuel_for. eexists. cbn [Nat.add]. reflexivity. Qed.

(* a queued removal of [c] at the head of the work list removes [c] for good *)
Lemma settle_removes fuel m c sd r m' :
  w_remove_conns (mw m) = (c, sd) :: r ->
  (settle (S fuel) m = Done m' \/ settle (S fuel) m = Fail m') -> conns (ms m') !! c = None.
Proof.
  intros Hw Hs. cbn [settle] in Hs. unfold settle_one in Hs. rewrite Hw in Hs.
  pose proof (shutdown_conn_R false (m <| mw; w_remove_conns := r |>) c sd) as H.
  destruct (shutdown_conn _ c sd) as [m1|m1|]; cbn in H.
  - destruct H as [_ Ha]. pose proof (settle_R false fuel m1) as H2.
    destruct Hs as [Hs|Hs]; rewrite Hs in H2; cbn in H2; eapply R_absent; eassumption.
  - destruct H as [_ Ha]. pose proof (settle_R false fuel m1) as H2.
    destruct Hs as [Hs|Hs]; rewrite Hs in H2; cbn in H2; eapply R_absent; eassumption.
  - destruct Hs; discriminate.
Qed.

Theorem gate_in s c cs x v fresh b s' o :
  conns s !! c = Some cs -> min_version_of x = Some v -> cs_ver cs < v ->
  step s (Message c x) fresh b = Done (s', o) -> conns s' !! c = None.
Proof.
  intros Hc Hx Hv Hstep. unfold step in Hstep.
  change {| ms := s; mw := work0; mo := [] |} with (m_of s) in Hstep.
  rewrite (handle_gated_fail s c cs x v fresh b Hc Hx Hv) in Hstep.
  destruct (fuel_for_pos (ms (push_remove (m_of s) c false))) as [f Ef]. rewrite Ef in Hstep.
  destruct (settle (S f) (push_remove (m_of s) c false)) as [m'|m'|] eqn:Es; try discriminate;
    injection Hstep as <- <-; eapply (settle_removes f _ c false []); eauto; reflexivity.
Qed.

(* the messages the statement names, one by one *)
Example gated_kinds :
  (forall a b c d e, min_version_of (CallFunction2 a b c d e) = Some 19) /\
  (forall a, min_version_of (AbortFunctionCall a) = Some 16) /\
  min_version_of RegisterIntrospection = Some 17 /\
  (forall a, min_version_of (QueryIntrospection a) = Some 17) /\
  (forall a, min_version_of (QueryIntrospectionReply a) = Some 17) /\
  (forall a b c d, min_version_of (CreateService2 a b c d) = Some 17) /\
  (forall a b, min_version_of (QueryServiceInfo a b) = Some 17) /\
  (forall a b, min_version_of (SubscribeService a b) = Some 18) /\
  (forall a, min_version_of (UnsubscribeService a) = Some 18) /\
  (forall a b, min_version_of (SubscribeAllEvents a b) = Some 18) /\
  (forall a b, min_version_of (UnsubscribeAllEvents a b) = Some 18).
Proof. repeat split. Qed.
