(* Broker/InvProofsHandle1.v — message handlers, part 1: the handlers that only answer, the bus
   listener handlers and the channel handlers preserve the invariant and reach no panic site. *)
From stdpp Require Import gmap list.
From RecordUpdate Require Import RecordSet.
Import RecordSetNotations.
From Aldrin Require Import gen.BrokerConsts Broker.Model Broker.Run Broker.ChannelProofs Broker.Inv
  Broker.InvProofsBase Broker.InvProofsCalls Broker.InvProofsRemove.
From Coq Require Import Lia.
Local Open Scope N_scope.

Ltac mi_quiet Hq H :=
  let Hs := fresh "Hs" in let Hq' := fresh "Hq" in let Ha := fresh "Ha" in
  destruct Hq as (Hs & Hq' & Ha); unfold MI, MX, MO in *; cbn; rewrite ?Hs, ?Hq', ?Ha; cbn; mx_frame H.

Lemma good_send m c x from : MI m → is_Some (conns (ms m) !! c) → good (send m c x from).
Proof. intros H Hc. apply (goodq_good m); [done|by apply send_goodq]. Qed.

Lemma good_gate m c minv k : MI m → good (k m) → good (gate m c minv k).
Proof. intros H Hk. unfold gate. destruct (ver_of m c); [|done]. destruct (_ <? _); done. Qed.

Lemma MX_MI m X : X = dom (conns (ms m)) → MX X m → MI m.
Proof. by intros ->. Qed.

(* ---------------------------------------------------------------- handlers that only answer *)
Lemma h_abort_function_call m (cs : cstate) serial :
  MI m →
  good (match cs_calls cs !! serial with
        | Some p => Done (m <| mw; w_abort ::= cons p |>)
        | None => Done m end).
Proof.
  intros H. destruct (cs_calls cs !! serial) as [p|]; [|done]. cbn. unfold MI, MX, MO in *. mx_frame H.
  eapply caller_live_mono; [done| |done]. intros x Hx. by right.
Qed.

Lemma h_emit_event m c cs sc ev v :
  MI m → conns (ms m) !! c = Some cs →
  good (match svc_by_cookie (ms m) sc with
        | None => Done m
        | Some (k, s) =>
            match owner_of_svc (ms m) k with
            | None => Panic 29
            | Some owner =>
                if negb (bool_decide (owner = c)) then Done m else
                let t : gset conn := s_all s ∪ default ∅ (s_events s !! ev) in
                foldO (fun m x => send_or_remove m x (EmitEvent sc ev v) (Some (cs_ver cs))) (elements t) m
            end
        end).
Proof.
  intros H Hc. destruct (svc_by_cookie (ms m) sc) as [[k s]|] eqn:E; [|done].
  apply svc_by_cookie_Some in E as [Hk _].
  destruct (owner_of_svc_reg (ms m) k s) as (o & Ho & -> & _); [apply H|done|].
  destruct (negb _); [done|]. cbn zeta. apply (goodq_good m); [done|]. apply foldO_goodq.
  intros m' x (Hs & _) Hx. apply send_or_remove_goodq. rewrite Hs. apply elem_of_dom.
  apply elem_of_elements in Hx. destruct (iv_os _ _ _ _ _ H _ _ Hk) as (H1 & H2 & H3).
  apply elem_of_union in Hx as [Hx|Hx]; [set_solver|].
  destruct (s_events s !! ev) as [set|] eqn:Ee; cbn in Hx; [|set_solver]. destruct (H3 _ _ Ee). set_solver.
Qed.

(* ---------------------------------------------------------------- bus listeners *)
Lemma own_lis_insert X L k l : l_owner l ∈ X → own_lis X L → own_lis X (<[k := l]> L).
Proof. intros Hl H k' l'. rewrite lookup_insert_Some. intros [[_ <-]|[_ ?]]; eauto. Qed.

Lemma MI_listeners_insert m k l :
  MI m → l_owner l ∈ dom (conns (ms m)) → MI (m <| ms; listeners ::= <[k := l]> |>).
Proof. intros H Hl. unfold MI, MX, MO in *. mx_frame H. by apply own_lis_insert. Qed.

Lemma MI_st m f : MI m → MI (m <| ms; st ::= f |>).
Proof. intros H. unfold MI, MX, MO in *. mx_frame H. Qed.

Lemma h_create_bus_listener m c serial fresh :
  MI m → is_Some (conns (ms m) !! c) →
  good (send m c (CreateBusListenerReply serial fresh) None >>> fun m1 =>
        Done (m1 <| ms; st; n_lis ::= N.succ |>
                 <| ms; listeners ::= <[fresh := {| l_owner := c; l_filters := []; l_scope := None |}]> |>)).
Proof.
  intros H Hc. apply good_send_bind; [done..|]. intros m1 Hq. cbn.
  apply (MI_listeners_insert (m1 <| ms; st; n_lis ::= N.succ |>)).
  - apply MI_st. by eapply MI_quiet.
  - cbn. destruct Hq as (-> & _). by apply elem_of_dom.
Qed.

Lemma h_destroy_bus_listener m c serial cookie :
  MI m → is_Some (conns (ms m) !! c) →
  good (match listeners (ms m) !! cookie with
        | None => send m c (DestroyBusListenerReply serial false) None
        | Some l =>
            if bool_decide (l_owner l = c)
            then send m c (DestroyBusListenerReply serial true) None >>> fun m1 => Done (remove_listener m1 cookie)
            else send m c (DestroyBusListenerReply serial false) None
        end).
Proof.
  intros H Hc. destruct (listeners (ms m) !! cookie) as [l|]; [|by apply good_send].
  destruct (bool_decide _); [|by apply good_send].
  apply good_send_bind; [done..|]. intros m1 Hq. cbn.
  pose proof (MI_quiet _ _ Hq H) as H1.
  destruct (remove_listener_spec _ _ m1 cookie H1) as (H2 & Hb & _).
  eapply MX_MI; [|unfold MX; rw_fields Hb; exact H2]. by rw_fields Hb.
Qed.

Lemma h_listener_update m c cookie (f : lis → lis) :
  MI m → (∀ l, l_owner (f l) = l_owner l) →
  good (match listeners (ms m) !! cookie with
        | Some l => if bool_decide (l_owner l = c)
                    then Done (m <| ms; listeners ::= <[cookie := f l]> |>) else Done m
        | None => Done m
        end).
Proof.
  intros H Hf. destruct (listeners (ms m) !! cookie) as [l|] eqn:E; [|done].
  destruct (bool_decide _); [|done]. cbn. apply MI_listeners_insert; [done|].
  rewrite Hf. eapply (iv_ol _ _ _ _ _ H); eauto.
Qed.

Lemma h_start_bus_listener m c serial cookie sc :
  MI m → is_Some (conns (ms m) !! c) →
  good (match listeners (ms m) !! cookie with
      | None => send m c (StartBusListenerReply serial STInvalid) None
      | Some l =>
          if negb (bool_decide (l_owner l = c)) then send m c (StartBusListenerReply serial STInvalid) None else
          match l_scope l with
          | Some _ => send m c (StartBusListenerReply serial STAlready) None
          | None =>
              let m1 := m <| ms; listeners ::= <[cookie := l <| l_scope := Some sc |>]> |> in
              send m1 c (StartBusListenerReply serial STOk) None >>> fun m2 =>
              if includes_current sc then
                let os := List.filter (fun p => existsb (fun f => matches_object f p.1) (l_filters l)) (map_to_list (objs (ms m2))) in
                foldO (fun m p => send m c (EmitBusEvent (Some cookie) (EvObjectCreated p.1 (o_cookie p.2))) None) os m2 >>> fun m3 =>
                let ss := List.filter (fun p => existsb (fun f => matches_service f p.1.1 p.1.2) (l_filters l)) (map_to_list (svcs (ms m3))) in
                foldO (fun m p => send m c (EmitBusEvent (Some cookie)
                                     (EvServiceCreated p.1.1 (s_obj_cookie p.2) p.1.2 (s_cookie p.2))) None) ss m3 >>> fun m4 =>
                send m4 c (BusListenerCurrentFinished cookie) None
              else Done m2
          end
      end).
Proof.
  intros H Hc. destruct (listeners (ms m) !! cookie) as [l|] eqn:E; [|by apply good_send].
  destruct (negb _); [by apply good_send|]. destruct (l_scope l); [by apply good_send|]. cbn zeta.
  set (m1 := m <| ms; listeners ::= <[cookie := l <| l_scope := Some sc |>]> |>).
  assert (MI m1) as H1. { apply MI_listeners_insert; [done|]. cbn. eapply (iv_ol _ _ _ _ _ H); eauto. }
  assert (∀ m', quiet m1 m' → is_Some (conns (ms m') !! c)) as Hc'.
  { intros m' (-> & _). done. }
  apply (goodq_good m1); [done|]. apply goodq_bind; [apply send_goodq; by apply Hc'|].
  intros m2 Hq2. destruct (includes_current sc); [|done]. cbn zeta.
  apply goodq_bind.
  { apply foldO_goodq. intros m' p Hq' _. apply send_goodq. apply Hc'. eauto using quiet_trans. }
  intros m3 Hq3. apply goodq_bind.
  { apply foldO_goodq. intros m' p Hq' _. apply send_goodq. apply Hc'. eauto using quiet_trans. }
  intros m4 Hq4. apply send_goodq. apply Hc'. eauto using quiet_trans.
Qed.

Lemma h_stop_bus_listener m c serial cookie :
  MI m → is_Some (conns (ms m) !! c) →
  good (match listeners (ms m) !! cookie with
      | None => send m c (StopBusListenerReply serial SPInvalid) None
      | Some l =>
          if negb (bool_decide (l_owner l = c)) then send m c (StopBusListenerReply serial SPInvalid) None else
          let m1 := m <| ms; listeners ::= <[cookie := l <| l_scope := None |>]> |> in
          send m1 c (StopBusListenerReply serial (match l_scope l with Some _ => SPOk | None => SPNotStarted end)) None
      end).
Proof.
  intros H Hc. destruct (listeners (ms m) !! cookie) as [l|] eqn:E; [|by apply good_send].
  destruct (negb _); [by apply good_send|]. cbn zeta. apply good_send; [|done].
  apply MI_listeners_insert; [done|]. cbn. eapply (iv_ol _ _ _ _ _ H); eauto.
Qed.

(* ---------------------------------------------------------------- channels *)
Lemma claim_own X ch c e ch' other r :
  chan_claim ch c e = ClaimOk ch' other r → c ∈ X → end_own X (ch_s ch) → end_own X (ch_r ch) →
  end_own X (ch_s ch') ∧ end_own X (ch_r ch') ∧ other ∈ X.
Proof.
  unfold chan_claim. destruct ch as [[|so sc|] [|ro rc|]], e; cbn; intros [= <- <- <-] Hc H1 H2; cbn; done.
Qed.

Lemma add_update_own X ch c cap ch' notify :
  chan_add_capacity ch c cap = AddUpdate ch' notify → end_own X (ch_s ch) → end_own X (ch_r ch) →
  end_own X (ch_s ch') ∧ end_own X (ch_r ch').
Proof.
  unfold chan_add_capacity. destruct ch as [[|so sc|] [|ro rc|]]; cbn;
    repeat case_match; try done; intros [= <- <-] Hown1 Hown2; cbn; done.
Qed.

Lemma add_overflow_recv ch c cap :
  chan_add_capacity ch c cap = AddOverflow → ∃ ro rc, ch_r ch = Claimed ro rc.
Proof.
  unfold chan_add_capacity. destruct ch as [s0 [|ro rc|]]; cbn; repeat case_match; try done; eauto.
Qed.

Lemma send_item_unclaimed ch c :
  chan_send_item ch c = ItemReceiverUnclaimed → ch_r ch = Unclaimed ∧ ∃ so sc, ch_s ch = Claimed so sc.
Proof.
  unfold chan_send_item. destruct ch as [[|so sc|] [|ro rc|]]; cbn; repeat case_match; try done; eauto.
Qed.

Lemma MI_chans_insert m k ch :
  MI m → chan_ok ch → end_own (dom (conns (ms m))) (ch_s ch) → end_own (dom (conns (ms m))) (ch_r ch) →
  MI (m <| ms; chans ::= <[k := ch]> |>).
Proof.
  intros H H1 H2 H3. unfold MI, MX, MO in *. mx_frame H.
  - by apply own_chan_insert.
  - by apply chans_ok_insert.
Qed.

Lemma h_create_channel m c serial e fresh :
  MI m → is_Some (conns (ms m) !! c) → endc_ok e →
  good (let ch := match e with
                  | CSender => {| ch_s := Claimed c 0; ch_r := Unclaimed |}
                  | CReceiver cap => {| ch_s := Unclaimed; ch_r := Claimed c cap |}
                  end in
        let m1 := m <| ms; chans ::= <[fresh := ch]> |> <| ms; st; n_chans ::= N.succ |> in
        send m1 c (CreateChannelReply serial fresh) None).
Proof.
  intros H Hc He. cbn zeta. apply good_send; [|done]. apply MI_st. apply MI_chans_insert; [done|..].
  - by apply created_ok.
  - destruct e; cbn; [by apply elem_of_dom|done].
  - destruct e; cbn; [done|by apply elem_of_dom].
Qed.

(* remove_end from a handler *)
Lemma good_remove_end m cookie e :
  MI m → (∀ ch, chans (ms m) !! cookie = Some ch → end_of ch e ≠ Closed) →
  ∃ m', remove_end m cookie e = Done m' ∧ MI m' ∧
    (chans (ms m') = delete cookie (chans (ms m)) ∨
     ∃ ch ch' o, chans (ms m) !! cookie = Some ch ∧ chan_close ch e = CloseNotify ch' o ∧
                 chans (ms m') = <[cookie := ch']> (chans (ms m))) ∧
    w_rm_call (mw m') = w_rm_call (mw m).
Proof.
  intros H Hne. destruct (remove_end_spec _ _ m cookie e H Hne) as (m' & -> & H' & Hb & Hq & _ & Hd).
  exists m'. split; [done|]. split; [|done]. eapply MX_MI; [|unfold MX; rw_fields Hb; exact H']. by rw_fields Hb.
Qed.

Lemma h_close_channel_end m c serial cookie e :
  MI m → is_Some (conns (ms m) !! c) →
  good (match chans (ms m) !! cookie with
      | None => send m c (CloseChannelEndReply serial R3Invalid) None
      | Some ch =>
          let result := chan_close_result ch c e in
          send m c (CloseChannelEndReply serial result) None >>> fun m1 =>
          match result with R3Ok => remove_end m1 cookie e | _ => Done m1 end
      end).
Proof.
  intros H Hc. destruct (chans (ms m) !! cookie) as [ch|] eqn:E; [|by apply good_send]. cbn zeta.
  apply good_send_bind; [done..|]. intros m1 Hq. pose proof (MI_quiet _ _ Hq H) as H1.
  destruct (chan_close_result ch c e) eqn:Er; try done.
  destruct (good_remove_end m1 cookie e H1) as (m' & -> & H' & _); [|done].
  intros ch0. destruct Hq as (-> & _). rewrite E. intros [= <-]. eapply close_result_ok; eauto.
Qed.

Lemma h_claim_channel_end m c serial cookie e :
  MI m → is_Some (conns (ms m) !! c) → endc_ok e →
  good (match chans (ms m) !! cookie with
      | None => send m c (ClaimChannelEndReply serial CLInvalid) None
      | Some ch =>
          match chan_claim ch c e with
          | ClaimErr r => send m c (ClaimChannelEndReply serial r) None
          | ClaimPanic site => Panic site
          | ClaimOk ch' other r =>
              let m1 := m <| ms; chans ::= <[cookie := ch']> |> in
              let res := send m1 c (ClaimChannelEndReply serial r) None in
              match res with
              | Panic s => Panic s
              | Done m2 => send_or_remove m2 other (ChannelEndClaimed cookie e) None
              | Fail m2 =>
                  match send_or_remove m2 other (ChannelEndClaimed cookie e) None with
                  | Done m3 => Fail m3
                  | x => x
                  end
              end
          end
      end).
Proof.
  intros H Hc He. destruct (chans (ms m) !! cookie) as [ch|] eqn:E; [|by apply good_send].
  pose proof (claim_ok ch c e (iv_ch _ _ _ _ _ H _ _ E) He) as Hok.
  destruct (chan_claim ch c e) as [r|ch' other r|] eqn:Ecl; [by apply good_send| |done]. cbn zeta.
  destruct (iv_oc _ _ _ _ _ H _ _ E) as [Ho1 Ho2].
  destruct (claim_own _ _ _ _ _ _ _ Ecl (proj2 (elem_of_dom _ _) Hc) Ho1 Ho2) as (G1 & G2 & G3).
  set (m1 := m <| ms; chans ::= <[cookie := ch']> |>).
  assert (MI m1) as H1 by (by apply MI_chans_insert).
  pose proof (send_goodq m1 c (ClaimChannelEndReply serial r) None Hc) as Hq.
  apply elem_of_dom in G3.
  destruct (send m1 c _ None) as [m2|m2|]; cbn in Hq; [| |done].
  - apply (goodq_good m2); [by eapply MI_quiet|]. apply send_or_remove_goodq. destruct Hq as (-> & _). done.
  - destruct (send_or_remove_done m2 other (ChannelEndClaimed cookie e) None) as (m3 & -> & Hq3).
    { destruct Hq as (-> & _). done. }
    cbn. eapply MI_quiet; [|exact H1]. eauto using quiet_trans.
Qed.

Lemma h_add_channel_capacity m c cookie cap :
  MI m → cap <= u32_max →
  good (match chans (ms m) !! cookie with
      | None => Done m
      | Some ch =>
          match chan_add_capacity ch c cap with
          | AddIgnore => Done m
          | AddOverflow => remove_end m cookie EReceiver
          | AddPanic site => Panic site
          | AddUpdate ch' notify =>
              let m1 := m <| ms; chans ::= <[cookie := ch']> |> in
              match notify with
              | Some (so, n) => if has m1 so then send_or_remove m1 so (AddChannelCapacity cookie n) None else Done m1
              | None => Done m1
              end
          end
      end).
Proof.
  intros H Hcap. destruct (chans (ms m) !! cookie) as [ch|] eqn:E; [|done].
  pose proof (add_capacity_ok ch c cap (iv_ch _ _ _ _ _ H _ _ E) Hcap) as Hok.
  destruct (chan_add_capacity ch c cap) as [| |ch' notify|] eqn:Ea; [done| | |done].
  - destruct (good_remove_end m cookie EReceiver H) as (m' & -> & H' & _); [|done].
    intros ch0. rewrite E. intros [= <-]. destruct (add_overflow_recv _ _ _ Ea) as (ro & rc & Hr).
    cbn. rewrite Hr. done.
  - destruct Hok as [Hok _]. destruct (iv_oc _ _ _ _ _ H _ _ E) as [Ho1 Ho2].
    destruct (add_update_own _ _ _ _ _ _ Ea Ho1 Ho2) as [G1 G2]. cbn zeta.
    set (m1 := m <| ms; chans ::= <[cookie := ch']> |>).
    assert (MI m1) as H1 by (by apply MI_chans_insert).
    destruct notify as [[so n]|]; [|done]. destruct (has m1 so) eqn:Eh; [|done].
    apply (goodq_good m1); [done|]. apply send_or_remove_goodq. by apply has_spec.
Qed.

Lemma h_send_item m c cs cookie v :
  MI m → conns (ms m) !! c = Some cs →
  good (match chans (ms m) !! cookie with
      | None => Done m
      | Some ch =>
          match chan_send_item ch c with
          | ItemIgnore => Done m
          | ItemPanic site => Panic site
          | ItemReceiverUnclaimed => remove_end m cookie EReceiver >>> fun m1 => remove_end m1 cookie ESender
          | ItemExhausted => remove_end m cookie ESender
          | ItemForward ch' ro add =>
              let m1 := m <| ms; chans ::= <[cookie := ch']> |> in
              if negb (has m1 ro) then Done m1 else
              send_or_remove m1 ro (ItemReceived cookie v) (Some (cs_ver cs)) >>> fun m2 =>
              match add with Some a => send m2 c (AddChannelCapacity cookie a) None | None => Done m2 end
          end
      end).
Proof.
  intros H Hc. destruct (chans (ms m) !! cookie) as [ch|] eqn:E; [|done].
  pose proof (send_item_ok ch c (iv_ch _ _ _ _ _ H _ _ E)) as Hok.
  destruct (chan_send_item ch c) as [| | |ch' ro add|] eqn:Es; [done| | | |done].
  - destruct (send_item_unclaimed _ _ Es) as (Hr & so & sc & Hsd).
    destruct (good_remove_end m cookie EReceiver H) as (m1 & -> & H1 & Hd & _).
    { intros ch0. rewrite E. intros [= <-]. cbn. by rewrite Hr. }
    cbn [andThen]. destruct (good_remove_end m1 cookie ESender H1) as (m2 & -> & H2 & _); [|done].
    intros ch1 Hk1. destruct Hd as [Hd|(ch0 & ch' & o & K1 & K2 & Hd)]; rewrite Hd in Hk1.
    + by rewrite lookup_delete in Hk1.
    + rewrite lookup_insert in Hk1. inversion Hk1; subst ch1. rewrite E in K1. inversion K1; subst ch0.
      destruct (iv_oc _ _ _ _ _ H _ _ E) as [Ho1 Ho2].
      destruct (close_notify_own _ _ _ _ _ K2 Ho1 Ho2) as (_ & _ & _ & Hsame). cbn in *. rewrite Hsame, Hsd. done.
  - destruct Hok as (so & ro & Hsd & _).
    destruct (good_remove_end m cookie ESender H) as (m1 & -> & H1 & _); [|done].
    intros ch0. rewrite E. intros [= <-]. cbn. by rewrite Hsd.
  - destruct Hok as (Hok & so & sc & rc & sc' & Hsd & Hrd & _ & _ & Hr' & Hs' & _).
    destruct (iv_oc _ _ _ _ _ H _ _ E) as [Ho1 Ho2]. rewrite Hsd in Ho1. rewrite Hrd in Ho2. cbn zeta.
    set (m1 := m <| ms; chans ::= <[cookie := ch']> |>).
    assert (MI m1) as H1. { apply MI_chans_insert; [done..| |]; [by rewrite Hs'|by rewrite Hr']. }
    destruct (has m1 ro) eqn:Eh; [|done]. cbn [negb]. apply has_spec in Eh.
    apply (goodq_good m1); [done|]. apply goodq_bind; [by apply send_or_remove_goodq|].
    intros m2 (Hs2 & _). destruct add; [|done]. apply send_goodq. rewrite Hs2. cbn. eauto.
Qed.
