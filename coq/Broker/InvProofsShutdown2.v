(* Broker/InvProofsShutdown2.v — shutdown_conn, continued: the channel ends of the removed
   connection, and the assembly of all phases. *)
From stdpp Require Import gmap list.
From RecordUpdate Require Import RecordSet.
Import RecordSetNotations.
From Aldrin Require Import gen.BrokerConsts Broker.Model Broker.Run Broker.ChannelProofs Broker.Inv
  Broker.InvProofsBase Broker.InvProofsCalls Broker.InvProofsRemove Broker.InvProofsRemoveSvc
  Broker.InvProofsShutdown.
From Coq Require Import Lia.
Local Open Scope N_scope.

(* ---------------------------------------------------------------- phases 7, 8: channel ends *)
Definition other_end (ch : chan) (e : chan_end) : end_state :=
  match e with ESender => ch_r ch | EReceiver => ch_s ch end.

Definition sd_chan_body (c : conn) (e : chan_end) (m : M) (k : uuid) : outcome M :=
  match chans (ms m) !! k with
  | Some ch => match end_of ch e with
               | Claimed o _ => if bool_decide (o = c) then remove_end m k e else Done m
               | _ => Done m end
  | None => Done m
  end.

Lemma sd_chans X c e l m :
  MX X m →
  (∀ k ch cap, chans (ms m) !! k = Some ch → end_of ch e = Claimed c cap → k ∈ l) →
  ∃ m', foldO (sd_chan_body c e) l m = Done m' ∧ MX X m' ∧
    blank_chans (ms m') = blank_chans (ms m) ∧
    w_rm_call (mw m') = w_rm_call (mw m) ∧ w_abort (mw m') = w_abort (mw m) ∧
    (∀ k ch', chans (ms m') !! k = Some ch' →
       ∃ ch, chans (ms m) !! k = Some ch ∧ other_end ch' e = other_end ch e) ∧
    (∀ k ch cap, chans (ms m') !! k = Some ch → end_of ch e ≠ Claimed c cap).
Proof.
  intros H Hl.
  destruct (foldO_inv (fun m' rest =>
      MX X m' ∧ blank_chans (ms m') = blank_chans (ms m) ∧
      w_rm_call (mw m') = w_rm_call (mw m) ∧ w_abort (mw m') = w_abort (mw m) ∧
      (∀ k ch', chans (ms m') !! k = Some ch' →
         ∃ ch, chans (ms m) !! k = Some ch ∧ other_end ch' e = other_end ch e) ∧
      ∀ k ch cap, chans (ms m') !! k = Some ch → end_of ch e = Claimed c cap → k ∈ rest)
      (sd_chan_body c e) l m)
    as (m2 & Hf & H2 & Hb & Hq & Hwa & Hoth & Hcl).
  { split; [done|]. split; [done|]. split; [done|]. split; [done|]. split; [eauto|]. done. }
  { intros m' k rest (I1 & I2 & I3 & I4 & I5 & I6). unfold sd_chan_body.
    assert (∀ k' ch cap, k' ≠ k → chans (ms m') !! k' = Some ch → end_of ch e = Claimed c cap → k' ∈ rest) as Hrest.
    { intros k' ch cap Hne Hk' He. specialize (I6 _ _ _ Hk' He). apply elem_of_cons in I6 as [?|?]; done. }
    assert (∀ ch, chans (ms m') !! k = Some ch → (∀ cap, end_of ch e ≠ Claimed c cap) →
            ∃ m'0, Done m' = Done m'0 ∧ MX X m'0 ∧ blank_chans (ms m'0) = blank_chans (ms m) ∧
              w_rm_call (mw m'0) = w_rm_call (mw m) ∧ w_abort (mw m'0) = w_abort (mw m) ∧
              (∀ k ch', chans (ms m'0) !! k = Some ch' →
                 ∃ ch, chans (ms m) !! k = Some ch ∧ other_end ch' e = other_end ch e) ∧
              ∀ k ch cap, chans (ms m'0) !! k = Some ch → end_of ch e = Claimed c cap → k ∈ rest) as Hskip.
    { intros ch Ek Hn. exists m'. split; [done|]. split; [done|]. split; [done|]. split; [done|].
      split; [done|]. split; [done|]. intros k' ch' cap Hk' He.
      destruct (decide (k' = k)) as [->|Hne]; [|eauto]. rewrite Ek in Hk'. inversion Hk'; subst. by eapply Hn in He. }
    destruct (chans (ms m') !! k) as [ch|] eqn:Ek.
    2:{ exists m'. split; [done|]. split; [done|]. split; [done|]. split; [done|]. split; [done|]. split; [done|].
        intros k' ch' cap Hk' He. destruct (decide (k' = k)) as [->|Hne]; [congruence|eauto]. }
    destruct (end_of ch e) as [|o cap0|] eqn:Ee; try (apply (Hskip ch eq_refl); intros cap; rewrite Ee; done).
    destruct (bool_decide_reflect (o = c)) as [->|Hoc].
    2:{ apply (Hskip ch eq_refl). intros cap. rewrite Ee. congruence. }
    destruct (remove_end_spec _ X m' k e I1) as (m'' & -> & J1 & J2 & J3 & J4 & J5).
    { intros ch0 Hk0. rewrite Ek in Hk0. inversion Hk0; subst. rewrite Ee. done. }
    exists m''. split; [done|]. split. { unfold MX. rw_fields J2. exact J1. }
    split; [congruence|]. split; [congruence|]. split; [congruence|].
    destruct J5 as [J5|(ch0 & ch' & o & K1 & K2 & J5)].
    - split.
      + intros k' ch'. rewrite J5, lookup_delete_Some. intros [_ ?]. eauto.
      + intros k' ch' cap. rewrite J5, lookup_delete_Some. intros [Hne Hk'] He. eauto.
    - rewrite Ek in K1. inversion K1; subst ch0.
      assert (end_own X (ch_s ch) ∧ end_own X (ch_r ch)) as [Ho1 Ho2] by (eapply (iv_oc _ _ _ _ _ I1); eauto).
      destruct (close_notify_own X _ _ _ _ K2 Ho1 Ho2) as (_ & _ & Hcl' & Hoth).
      split.
      + intros k' ch1. rewrite J5, lookup_insert_Some. intros [[<- <-]|[Hne Hk']]; [|eauto].
        destruct (I5 _ _ Ek) as (ch2 & L1 & L2). exists ch2. split; [done|]. rewrite <- L2.
        destruct e; cbn in *; done.
      + intros k' ch1 cap. rewrite J5, lookup_insert_Some. intros [[<- <-]|[Hne Hk']] He; [|eauto].
        rewrite Hcl' in He. done. }
  exists m2. split; [done|]. split; [done|]. split; [done|]. split; [done|]. split; [done|]. split; [done|].
  intros k ch cap Hk He. specialize (Hcl _ _ _ Hk He). by apply not_elem_of_nil in Hcl.
Qed.

(* ---------------------------------------------------------------- assembly *)
Lemma InvO_st O X q wa s f : InvO O X q wa s → InvO O X q wa (s <| st ::= f |>).
Proof. intros H. mx_frame H. Qed.

Lemma InvO_shrink_X O X X' q wa wa' s :
  InvO O X q wa s → own_obj X' O → own_lis X' (listeners s) → own_svc X' (svcs s) →
  own_chan X' (chans s) → caller_live wa' X' (calls s) → InvO O X' q wa' s.
Proof. intros H H1 H2 H3 H4 H5. destruct H. constructor; assumption. Qed.

Lemma push_aborts_spec (l : list (N * (N * conn))) m :
  let m' := foldr (fun p m => m <| mw; w_abort ::= cons p.2 |>) m l in
  ms m' = ms m ∧ w_rm_call (mw m') = w_rm_call (mw m) ∧
  w_abort (mw m') = (snd <$> l) ++ w_abort (mw m).
Proof.
  induction l as [|p l IH]; cbn; [done|]. destruct IH as (I1 & I2 & I3).
  split; [done|]. split; [done|]. by rewrite I3.
Qed.

Lemma shutdown_conn_spec m c sd :
  MI m →
  ∃ m', shutdown_conn m c sd = Done m' ∧ MI m' ∧
    conns (ms m') = delete c (conns (ms m)) ∧ objs (ms m') ⊆ objs (ms m) ∧
    (∀ k, is_Some (svcs (ms m') !! k) → is_Some (svcs (ms m) !! k)) ∧
    (∀ u o, objs (ms m) !! u = Some o → o_owner o ≠ c → objs (ms m') !! u = Some o).
Proof.
  intros H. unfold shutdown_conn. destruct (conns (ms m) !! c) as [cs|] eqn:Ec.
  2:{ exists m. split; [done|]. split; [done|]. rewrite delete_notin by done. done. }
  set (X0 := dom (conns (ms m))).
  set (m0 := m <| ms; conns ::= delete c |>).
  assert (MX X0 m0) as H0.
  { unfold MI, MX, MO in *. subst m0. mx_frame H.
    - by apply call_entry_del_conn.
    - by apply entry_call_del_conn.
    - by apply rmq_entry_del_conn.
    - by apply rmq_nodup_del_conn. }
  cbn zeta.
  match goal with |- context [foldl remove_listener ?a _] => set (m1 := a) end.
  match goal with |- context [foldl remove_listener m1 ?l] => set (ls := l) end.
  assert (quiet m0 m1) as Hq1 by (subst m1; destruct (sd && cs_alive cs); done).
  assert (MX X0 m1) as H1 by (eapply MX_quiet; eauto).
  set (m2 := foldl remove_listener m1 ls).
  assert (MX X0 m2 ∧ blank_lis (ms m2) = blank_lis (ms m1) ∧ mw m2 = mw m1 ∧
          own_lis (X0 ∖ {[c]}) (listeners (ms m2))) as (H2 & B2 & W2 & L2)
    by exact (sd_listeners X0 c m1 H1).
  destruct (sd_objects X0 c m2 H2) as (m3 & Hf3 & H3 & B3 & W3 & C3 & O3 & S3 & L3 & K3).
  rewrite Hf3. cbn [andThen].
  match goal with |- context [foldO ?f ?l m3] => change f with (sd_ev_body c) end.
  destruct (sd_events X0 c m3 H3) as (m4 & Hf4 & H4 & B4 & Q4 & W4 & D4 & L4).
  rewrite Hf4. cbn [andThen].
  match goal with |- context [foldO ?f ?l m4] => change f with (sd_all_body c) end.
  destruct (sd_all X0 c m4 H4 L4) as (m5 & Hf5 & H5 & B5 & Q5 & W5 & D5 & L5).
  rewrite Hf5. cbn [andThen].
  match goal with |- context [foldO _ _ ?a >>> _] => set (m6 := a) end.
  assert (MX X0 m6 ∧ own_svc (X0 ∖ {[c]}) (svcs (ms m6))) as (H6 & L6) by exact (sd_subs X0 c m5 H5 L5).
  match goal with |- context [foldO ?f ?l m6] => change f with (sd_chan_body c ESender); set (cks := l) end.
  destruct (sd_chans X0 c ESender cks m6 H6) as (m7 & Hf7 & H7 & B7 & Q7 & W7 & D7 & L7).
  { intros k ch cap Hk _. subst cks. apply elem_of_list_fmap. exists (k, ch). split; [done|]. by apply elem_of_map_to_list. }
  rewrite Hf7. cbn [andThen].
  match goal with |- context [foldO ?f cks m7] => change f with (sd_chan_body c EReceiver) end.
  destruct (sd_chans X0 c EReceiver cks m7 H7) as (m8 & Hf8 & H8 & B8 & Q8 & W8 & D8 & L8).
  { intros k ch cap Hk _. destruct (D7 _ _ Hk) as (ch0 & Hk0 & _).
    subst cks. apply elem_of_list_fmap. exists (k, ch0). split; [done|]. by apply elem_of_map_to_list. }
  rewrite Hf8. cbn [andThen].
  match goal with |- context [foldr ?f m8 ?l] => pose proof (push_aborts_spec l m8) as (A1 & A2 & A3); set (m9 := foldr f m8 l) in * end.
  exists (m9 <| ms; st; n_conns ::= sat_sub1 |>). split; [done|].
  (* the fields of the final state *)
  assert (conns (ms m8) = delete c (conns (ms m))) as EC.
  { rw_fields B8. rw_fields B7. subst m6. cbn. rw_fields B5. rw_fields B4. rw_fields B3. rw_fields B2.
    destruct Hq1 as (-> & _). done. }
  assert (listeners (ms m8) = listeners (ms m2)) as EL.
  { rw_fields B8. rw_fields B7. subst m6. cbn. rw_fields B5. rw_fields B4. rw_fields B3. done. }
  assert (objs (ms m8) = objs (ms m3)) as EO.
  { rw_fields B8. rw_fields B7. subst m6. cbn. rw_fields B5. rw_fields B4. done. }
  assert (svcs (ms m8) = svcs (ms m6)) as ES.
  { rw_fields B8. rw_fields B7. done. }
  assert (calls (ms m8) = calls (ms m3)) as EK.
  { rw_fields B8. rw_fields B7. subst m6. cbn. rw_fields B5. rw_fields B4. done. }
  assert (w_abort (mw m8) = w_abort (mw m)) as EW.
  { rewrite W8, W7. subst m6. cbn. rewrite W5, W4, W3, W2. destruct Hq1 as (_ & _ & ->). done. }
  assert (objs (ms m3) ⊆ objs (ms m)) as EOs.
  { etrans; [exact O3|]. rw_fields B2. destruct Hq1 as (-> & _). done. }
  split; [|split; [cbn; rewrite A1; exact EC|split; [cbn; rewrite A1, EO; exact EOs|split]]].
  3:{ cbn. rewrite A1, EO. intros u o Hu Hoc. apply K3; [|done]. rw_fields B2.
      destruct Hq1 as (Hq1 & _). rewrite Hq1. exact Hu. }
  2:{ cbn. rewrite A1, ES. subst m6. cbn. intros k Hk. rewrite lookup_fmap in Hk. apply fmap_is_Some in Hk.
      apply D5, D4 in Hk. apply (lookup_weaken_is_Some _ _ _ Hk) in S3. rw_fields_in B2 S3.
      destruct Hq1 as (Hq1 & _). rewrite Hq1 in S3. exact S3. }
  unfold MI, MX, MO. cbn. rewrite A1, A2, A3, EC, dom_delete_L. fold X0.
  apply InvO_st. eapply InvO_shrink_X; [exact H8| | | | |].
  - rewrite EO. exact L3.
  - rewrite EL. exact L2.
  - rewrite ES. exact L6.
  - intros k ch Hk. destruct (iv_oc _ _ _ _ _ H8 _ _ Hk) as [G1 G2]. split.
    + destruct (D8 _ _ Hk) as (ch7 & Hk7 & Hoth). cbn in Hoth. rewrite Hoth in *.
      destruct (ch_s ch7) as [|o cap|] eqn:Es; cbn in *; try done. apply elem_of_difference. split; [done|].
      intros ->%elem_of_singleton. eapply (L7 _ _ _ Hk7). exact Es.
    + destruct (ch_r ch) as [|o cap|] eqn:Er; cbn in *; try done. apply elem_of_difference. split; [done|].
      intros ->%elem_of_singleton. eapply (L8 _ _ _ Hk). exact Er.
  - intros b cl Hb Ha. destruct (iv_cl _ _ _ _ _ H8 _ _ Hb Ha) as [Hin|[ce Hin]].
    + destruct (decide (c_caller cl = c)) as [Hcc|Hnc].
      * right. rewrite EK in Hb. apply (lookup_weaken _ _ _ _ Hb) in C3.
        rw_fields_in B2 C3. destruct Hq1 as (Hq1 & _). rewrite Hq1 in C3. subst m0. cbn in C3.
        rewrite <- Hcc in Ec. destruct (iv_ce _ _ _ _ _ H _ _ _ C3 Ha Ec) as (ce & Hce).
        exists ce. apply elem_of_app. left. apply elem_of_list_fmap. exists (c_serial cl, (b, ce)).
        split; [done|]. by apply elem_of_map_to_list.
      * left. apply elem_of_difference. split; [done|]. by intros ?%elem_of_singleton.
    + right. exists ce. apply elem_of_app. right. exact Hin.
Qed.
