(* Broker/Wp.v — proof infrastructure for the broker machine of Model.v: outcome predicates
   ([res PD PF o]: PD holds of a Done result, PF of a Fail result, Panic is vacuous), their
   composition over [>>>] and [foldO], what the send primitives do to a machine state (they never
   touch [ms]), and the facts about cookie lookups and map sizes every invariant proof uses. *)
From stdpp Require Import gmap list.
From RecordUpdate Require Import RecordSet.
Import RecordSetNotations.
From Aldrin Require Import gen.BrokerConsts Broker.Model Broker.Run.
From Coq Require Import ZifyBool ZifyNat ZifyN Lia.
Local Open Scope N_scope.

(* ---------------------------------------------------------------- outcome predicates *)
Definition res (PD PF : M -> Prop) (o : outcome M) : Prop :=
  match o with Done m => PD m | Fail m => PF m | Panic _ => True end.
Definition never : M -> Prop := fun _ => False.
(* a predicate on the broker state, lifted to machine states *)
Definition SP (Q : state -> Prop) : M -> Prop := fun m => Q (ms m).

Lemma res_mono (PD PF PD' PF' : M -> Prop) o :
  res PD PF o -> (forall m, PD m -> PD' m) -> (forall m, PF m -> PF' m) -> res PD' PF' o.
Proof. destruct o; cbn; auto. Qed.

Lemma res_never (PD PF : M -> Prop) o : res PD never o -> res PD PF o.
Proof. intros H. eapply res_mono; [exact H|auto|intros ? []]. Qed.

Lemma res_bind (QD PD PF : M -> Prop) x k :
  res QD PF x -> (forall m, QD m -> res PD PF (k m)) -> res PD PF (x >>> k).
Proof. destruct x; cbn; auto. Qed.

Lemma res_bind_never (QD PD PF : M -> Prop) x k :
  res QD never x -> (forall m, QD m -> res PD PF (k m)) -> res PD PF (x >>> k).
Proof. destruct x; cbn; auto. intros []. Qed.

Lemma foldO_res {A} (I PF : M -> Prop) (f : M -> A -> outcome M) l m :
  (forall m x, x ∈ l -> I m -> res I PF (f m x)) -> I m -> res I PF (foldO f l m).
Proof.
  revert m. induction l as [|x l IH]; intros m Hf Hm; cbn; [exact Hm|].
  pose proof (Hf m x (elem_of_list_here _ _) Hm) as Hx.
  destruct (f m x); cbn in *; auto.
  apply IH; auto. intros m' y Hy. apply Hf. by apply elem_of_list_further.
Qed.

(* with an invariant that knows the items still to be processed *)
Lemma foldO_res_ix {A} (I : list A -> M -> Prop) (PF : M -> Prop) (f : M -> A -> outcome M) l m :
  (forall m x r, I (x :: r) m -> res (I r) PF (f m x)) -> I l m -> res (I []) PF (foldO f l m).
Proof.
  revert m. induction l as [|x l IH]; intros m Hf Hm; cbn; [exact Hm|].
  pose proof (Hf m x l Hm) as Hx.
  destruct (f m x); cbn in *; auto.
Qed.

Lemma foldl_inv {A} (I : M -> Prop) (f : M -> A -> M) l m :
  (forall m x, x ∈ l -> I m -> I (f m x)) -> I m -> I (foldl f m l).
Proof.
  revert m. induction l as [|x l IH]; intros m Hf Hm; cbn; [exact Hm|].
  apply IH; [|apply Hf; [left|exact Hm]]. intros m' y Hy. apply Hf. by right.
Qed.

Lemma foldr_inv {A} (I : M -> Prop) (f : A -> M -> M) l m :
  (forall m x, x ∈ l -> I m -> I (f x m)) -> I m -> I (foldr f m l).
Proof.
  induction l as [|x l IH]; intros Hf Hm; cbn; [exact Hm|].
  apply Hf; [left|]. apply IH; [|exact Hm]. intros m' y Hy. apply Hf. by right.
Qed.

(* ---------------------------------------------------------------- the send primitives *)
(* the general shape: a successful send appends one output, a failed one changes nothing *)
Lemma send_res (PD PF : M -> Prop) m c x f :
  (forall cs, conns (ms m) !! c = Some cs -> cs_alive cs = true ->
     PD (m <| mo := mo m ++ [(c, x, f)] |>)) ->
  (forall cs, conns (ms m) !! c = Some cs -> cs_alive cs = false -> PF m) ->
  res PD PF (send m c x f).
Proof.
  intros HD HF. unfold send. destruct (conns (ms m) !! c) as [cs|] eqn:E; [|exact I].
  destruct (cs_alive cs) eqn:Ea; cbn; eauto.
Qed.

Lemma send_or_remove_res (PD PF : M -> Prop) m c x f :
  (forall cs, conns (ms m) !! c = Some cs -> cs_alive cs = true ->
     PD (m <| mo := mo m ++ [(c, x, f)] |>)) ->
  (forall cs, conns (ms m) !! c = Some cs -> cs_alive cs = false -> PD (push_remove m c false)) ->
  res PD PF (send_or_remove m c x f).
Proof.
  intros HD HF. unfold send_or_remove, send. destruct (conns (ms m) !! c) as [cs|] eqn:E; [|exact I].
  destruct (cs_alive cs) eqn:Ea; cbn; eauto.
Qed.

Lemma send_ignore_res (PD PF : M -> Prop) m c x f :
  (forall cs, conns (ms m) !! c = Some cs -> cs_alive cs = true ->
     PD (m <| mo := mo m ++ [(c, x, f)] |>)) ->
  (forall cs, conns (ms m) !! c = Some cs -> cs_alive cs = false -> PD m) ->
  res PD PF (send_ignore m c x f).
Proof.
  intros HD HF. unfold send_ignore, send. destruct (conns (ms m) !! c) as [cs|] eqn:E; [|exact I].
  destruct (cs_alive cs) eqn:Ea; cbn; eauto.
Qed.

(* none of them changes [ms] *)
Definition same_ms (m : M) : M -> Prop := fun m' => ms m' = ms m.

Lemma send_ms m c x f : res (same_ms m) (same_ms m) (send m c x f).
Proof. apply send_res; intros; reflexivity. Qed.
Lemma send_or_remove_ms m c x f (PF : M -> Prop) : res (same_ms m) PF (send_or_remove m c x f).
Proof. apply send_or_remove_res; intros; reflexivity. Qed.
Lemma send_ignore_ms m c x f (PF : M -> Prop) : res (same_ms m) PF (send_ignore m c x f).
Proof. apply send_ignore_res; intros; reflexivity. Qed.
Lemma push_remove_ms m c sd : ms (push_remove m c sd) = ms m.
Proof. reflexivity. Qed.

(* state predicates pass through sends *)
Lemma send_sp (Q : state -> Prop) m c x f : Q (ms m) -> res (SP Q) (SP Q) (send m c x f).
Proof. intros H. apply send_res; intros; exact H. Qed.
Lemma send_or_remove_sp (Q : state -> Prop) (PF : M -> Prop) m c x f : Q (ms m) -> res (SP Q) PF (send_or_remove m c x f).
Proof. intros H. apply send_or_remove_res; intros; exact H. Qed.
Lemma send_ignore_sp (Q : state -> Prop) (PF : M -> Prop) m c x f : Q (ms m) -> res (SP Q) PF (send_ignore m c x f).
Proof. intros H. apply send_ignore_res; intros; exact H. Qed.

(* a send followed by more work: the continuation runs on a machine with the same [ms] *)
Lemma send_bind (Q : state -> Prop) (PD : M -> Prop) m c x f k :
  Q (ms m) -> (forall w o, res PD (SP Q) (k {| ms := ms m; mw := w; mo := o |})) ->
  res PD (SP Q) (send m c x f >>> k).
Proof.
  intros HQ Hk. eapply res_bind.
  - eapply res_mono; [apply send_ms|intros m' Hm'; exact Hm'|intros m' Hm'; unfold SP; rewrite Hm'; exact HQ].
  - intros [s w o] Hm'. unfold same_ms in Hm'. cbn in Hm'. subst s. apply Hk.
Qed.

Lemma send_or_remove_bind (PD PF : M -> Prop) m c x f k :
  (forall w o, res PD PF (k {| ms := ms m; mw := w; mo := o |})) ->
  res PD PF (send_or_remove m c x f >>> k).
Proof.
  intros Hk. eapply res_bind; [apply send_or_remove_ms|].
  intros [s w o] Hm'. unfold same_ms in Hm'. cbn in Hm'. subst s. apply Hk.
Qed.

Lemma gate_sp (Q : state -> Prop) m c minv k :
  Q (ms m) -> res (SP Q) (SP Q) (k m) -> res (SP Q) (SP Q) (gate m c minv k).
Proof.
  intros HQ Hk. unfold gate. destruct (ver_of m c); [|exact HQ].
  destruct (_ <? _); [exact HQ|exact Hk].
Qed.

(* ---------------------------------------------------------------- lookups *)
Lemma obj_by_cookie_Some s c u o : obj_by_cookie s c = Some (u, o) -> objs s !! u = Some o /\ o_cookie o = c.
Proof.
  unfold obj_by_cookie. destruct (list_find _ _) as [[i p]|] eqn:E; [|discriminate].
  cbn. intros [= ->]. apply list_find_Some in E as (Hl & Hp & _).
  apply elem_of_list_lookup_2 in Hl. apply elem_of_map_to_list in Hl.
  split; [exact Hl|]. by apply bool_decide_unpack in Hp.
Qed.

Lemma svc_by_cookie_Some s c k v : svc_by_cookie s c = Some (k, v) -> svcs s !! k = Some v /\ s_cookie v = c.
Proof.
  unfold svc_by_cookie. destruct (list_find _ _) as [[i p]|] eqn:E; [|discriminate].
  cbn. intros [= ->]. apply list_find_Some in E as (Hl & Hp & _).
  apply elem_of_list_lookup_2 in Hl. apply elem_of_map_to_list in Hl.
  split; [exact Hl|]. by apply bool_decide_unpack in Hp.
Qed.

Lemma obj_by_cookie_None s c : obj_by_cookie s c = None -> forall u o, objs s !! u = Some o -> o_cookie o <> c.
Proof.
  unfold obj_by_cookie. destruct (list_find _ _) as [[i p]|] eqn:E; [discriminate|]. intros _ u o Ho Hc.
  apply list_find_None in E. rewrite Forall_forall in E.
  apply (E (u, o)); [by apply elem_of_map_to_list|]. cbn. by apply bool_decide_pack.
Qed.

(* ---------------------------------------------------------------- sizes *)
Section sizes.
  Context `{FinMap K MM} {A : Type}.
  Implicit Types m : MM A.
  Lemma size_delete_Some m k x : m !! k = Some x -> size m = S (size (delete k m)).
  Proof.
    intros Hk. rewrite <- (insert_delete m k x Hk) at 1.
    apply map_size_insert_None, lookup_delete.
  Qed.
  Lemma size_insert_Some m k x y : m !! k = Some x -> size (<[k := y]> m) = size m.
  Proof. intros Hk. apply map_size_insert_Some. eauto. Qed.
  Lemma size_insert_None m k y : m !! k = None -> size (<[k := y]> m) = S (size m).
  Proof. apply map_size_insert_None. Qed.
End sizes.

(* keep the machine's functions folded under cbn; they are unfolded explicitly *)
Global Arguments send : simpl never.
Global Arguments send_or_remove : simpl never.
Global Arguments send_ignore : simpl never.
Global Arguments push_remove : simpl never.
Global Arguments has : simpl never.
Global Arguments remove_listener : simpl never.
Global Arguments remove_end : simpl never.
Global Arguments remove_service : simpl never.
Global Arguments remove_object : simpl never.
Global Arguments shutdown_conn : simpl never.
Global Arguments bus : simpl never.
Global Arguments abort_call : simpl never.
Global Arguments settle_one : simpl never.
Global Arguments settle : simpl never.
Global Arguments handle : simpl never.
Global Arguments gate : simpl never.
Global Arguments call_impl : simpl never.
Global Arguments create_service_impl : simpl never.
Global Arguments obj_by_cookie : simpl never.
Global Arguments svc_by_cookie : simpl never.
Global Arguments owner_of_svc : simpl never.
Global Arguments chan_close : simpl never.
Global Arguments chan_claim : simpl never.
Global Arguments chan_add_capacity : simpl never.
Global Arguments chan_send_item : simpl never.
Global Arguments chan_close_result : simpl never.
Global Arguments fuel_for : simpl never.
Global Arguments foldO : simpl never.
Global Arguments N.add : simpl never.
Global Arguments N.sub : simpl never.
Global Arguments N.mul : simpl never.
Global Arguments N.ltb : simpl never.
Global Arguments N.leb : simpl never.
Global Arguments N.eqb : simpl never.
Global Arguments N.pred : simpl never.
Global Arguments N.succ : simpl never.
Global Arguments N.of_nat : simpl never.

(* ---------------------------------------------------------------- shutdown_conn in phases *)
(* the loop bodies of Broker::shutdown_connection, named; [shutdown_conn_eq] is by computation *)
Definition sc_ev_inner (c : conn) (k : uuid * uuid) (owner : conn) (m : M) (e : N) : M :=
  match svcs (ms m) !! k with
  | Some s =>
      let set := default ∅ (s_events s !! e) ∖ {[c]} in
      if bool_decide (set = ∅)
      then m <| ms; svcs ::= <[k := s <| s_events ::= delete e |>]> |>
             <| mw; w_unsub_ev ::= cons (owner, s_cookie s, e) |>
      else m <| ms; svcs ::= <[k := s <| s_events ::= <[e := set]> |>]> |>
  | None => m
  end.

Definition sc_ev (c : conn) (m : M) (k : uuid * uuid) : outcome M :=
  match svcs (ms m) !! k, owner_of_svc (ms m) k with
  | Some s, Some owner =>
      let evs := (fun p : N * gset conn => p.1) <$>
                 List.filter (fun p : N * gset conn => bool_decide (c ∈ p.2)) (map_to_list (s_events s)) in
      Done (foldl (sc_ev_inner c k owner) m evs)
  | Some _, None => Panic 12
  | None, _ => Done m
  end.

Definition sc_all (c : conn) (m : M) (k : uuid * uuid) : outcome M :=
  match svcs (ms m) !! k, owner_of_svc (ms m) k with
  | Some s, Some owner =>
      if bool_decide (c ∈ s_all s) then
        let all' := s_all s ∖ {[c]} in
        let m' := m <| ms; svcs ::= <[k := s <| s_all := all' |>]> |> in
        Done (if bool_decide (all' = ∅) then m' <| mw; w_unsub_all ::= cons (owner, s_cookie s) |> else m')
      else Done m
  | Some _, None => Panic 13
  | None, _ => Done m
  end.

Definition sc_subs (c : conn) (s : state) : state :=
  s <| svcs ::= fmap (fun s => s <| s_subs ::= fun x => x ∖ {[c]} |>) |>.

Definition sc_end (c : conn) (e : chan_end) (m : M) (k : uuid) : outcome M :=
  match chans (ms m) !! k with
  | Some ch => match (match e with ESender => ch_s ch | EReceiver => ch_r ch end) with
               | Claimed o _ => if bool_decide (o = c) then remove_end m k e else Done m
               | _ => Done m end
  | None => Done m end.

Definition sc_listeners (c : conn) (s : state) : list uuid :=
  (fun p => p.1) <$> List.filter (fun p => bool_decide (l_owner p.2 = c)) (map_to_list (listeners s)).
Definition sc_owned (c : conn) (s : state) : list uuid :=
  (fun p => o_cookie p.2) <$> List.filter (fun p => bool_decide (o_owner p.2 = c)) (map_to_list (objs s)).
Definition svc_keys (s : state) : list (uuid * uuid) := (fun p => p.1) <$> map_to_list (svcs s).
Definition chan_keys (s : state) : list uuid := (fun p => p.1) <$> map_to_list (chans s).
Definition sc_aborts (cs : cstate) (m : M) : M :=
  foldr (fun p m => m <| mw; w_abort ::= cons p.2 |>) m (map_to_list (cs_calls cs)).

Lemma shutdown_conn_eq m c sd :
  shutdown_conn m c sd =
  match conns (ms m) !! c with
  | None => Done m
  | Some cs =>
      let m0 := m <| ms; conns ::= delete c |> in
      let m1 := if sd && cs_alive cs then m0 <| mo := mo m0 ++ [(c, Shutdown, None)] |> else m0 in
      let m2 := foldl remove_listener m1 (sc_listeners c (ms m1)) in
      foldO remove_object (sc_owned c (ms m2)) m2 >>> fun m3 =>
      foldO (sc_ev c) (svc_keys (ms m3)) m3 >>> fun m4 =>
      foldO (sc_all c) (svc_keys (ms m4)) m4 >>> fun m5 =>
      let m6 := m5 <| ms ::= sc_subs c |> in
      foldO (sc_end c ESender) (chan_keys (ms m6)) m6 >>> fun m7 =>
      foldO (sc_end c EReceiver) (chan_keys (ms m6)) m7 >>> fun m8 =>
      Done (sc_aborts cs m8 <| ms; st; n_conns ::= sat_sub1 |>)
  end.
Proof. reflexivity. Qed.

Lemma sc_aborts_ms cs m : ms (sc_aborts cs m) = ms m.
Proof.
  unfold sc_aborts. apply (foldr_inv (fun m' => ms m' = ms m)); [|reflexivity].
  intros m' x _ Hm'. exact Hm'.
Qed.

(* a state predicate through shutdown_conn: Q' is what holds while c's entry is already deleted
   but the connection gauge not yet decremented *)
Lemma shutdown_conn_sp (Q Q' : state -> Prop) m c sd :
  (forall cs, conns (ms m) !! c = Some cs -> Q (ms m) -> Q' (ms m <| conns ::= delete c |>)) ->
  (forall m k, Q' (ms m) -> Q' (ms (remove_listener m k))) ->
  (forall m k, Q' (ms m) -> res (SP Q') never (remove_object m k)) ->
  (forall m k, Q' (ms m) -> res (SP Q') never (sc_ev c m k)) ->
  (forall m k, Q' (ms m) -> res (SP Q') never (sc_all c m k)) ->
  (forall s, Q' s -> Q' (sc_subs c s)) ->
  (forall m k e, Q' (ms m) -> res (SP Q') never (remove_end m k e)) ->
  (forall s, Q' s -> Q (s <| st; n_conns ::= sat_sub1 |>)) ->
  Q (ms m) ->
  res (SP Q) never (shutdown_conn m c sd).
Proof.
  intros H0 Hl Ho Hev Hall Hsubs Hend Hfin HQ. rewrite shutdown_conn_eq.
  destruct (conns (ms m) !! c) as [cs|] eqn:E; [|exact HQ].
  cbv zeta.
  match goal with |- res _ _ (foldO _ _ (foldl _ ?x _) >>> _) => set (m1 := x) end.
  assert (Q' (ms m1)) as H1 by (subst m1; destruct (sd && cs_alive cs); cbn; eapply H0; eauto).
  clearbody m1.
  match goal with |- res _ _ (foldO _ _ ?x >>> _) => set (m2 := x) end.
  assert (Q' (ms m2)) as H2
    by (subst m2; apply (foldl_inv (SP Q')); [intros; apply Hl; assumption|exact H1]).
  clearbody m2.
  assert (forall (m : M) (k : uuid) e, Q' (ms m) -> res (SP Q') never (sc_end c e m k)) as Hse.
  { intros m' k e Hm'. unfold sc_end. destruct (chans (ms m') !! k); [|exact Hm'].
    destruct (match e with ESender => _ | EReceiver => _ end); try exact Hm'.
    destruct (bool_decide _); [apply Hend, Hm'|exact Hm']. }
  eapply res_bind with (QD := SP Q'); [apply foldO_res; [intros; apply Ho; assumption|exact H2]|].
  intros m3 H3. eapply res_bind with (QD := SP Q'); [apply foldO_res; [intros; apply Hev; assumption|exact H3]|].
  intros m4 H4. eapply res_bind with (QD := SP Q'); [apply foldO_res; [intros; apply Hall; assumption|exact H4]|].
  intros m5 H5. eapply res_bind with (QD := SP Q');
    [apply foldO_res; [intros; apply Hse; assumption|apply Hsubs, H5]|].
  intros m7 H7. eapply res_bind with (QD := SP Q'); [apply foldO_res; [intros; apply Hse; assumption|exact H7]|].
  intros m8 H8. cbn [res]. unfold SP. cbn. rewrite sc_aborts_ms. apply Hfin, H8.
Qed.

(* ---------------------------------------------------------------- the work loop by cases *)
Definition work_empty (w : work) : Prop :=
  w_remove_conns w = [] /\ w_unsub_ev w = [] /\ w_unsub_all w = [] /\ w_svc_destroyed w = [] /\
  w_rm_call w = [] /\ w_create_obj w = [] /\ w_create_svc w = [] /\ w_destroy_svc w = [] /\
  w_destroy_obj w = [] /\ w_abort w = [].

Definition rm_call_item (m : M) (serial : N) (c : conn) (result : call_result) : outcome M :=
  match conns (ms m) !! c with
  | None => Done m
  | Some cs =>
      match cs_calls cs !! serial with
      | None => Panic 15
      | Some _ =>
          let m' := m <| ms; conns ::= <[c := cs <| cs_calls ::= delete serial |>]> |> in
          send_or_remove m' c (CallFunctionReply serial result) None
      end
  end.

Definition notify_item (m : M) (c : conn) (x : msg) : outcome M :=
  if has m c then send_or_remove m c x None else Done m.

Lemma settle_one_cases (R : option (outcome M) -> Prop) m :
  (forall c sd r, w_remove_conns (mw m) = (c, sd) :: r ->
     R (Some (shutdown_conn (m <| mw; w_remove_conns := r |>) c sd))) ->
  (forall c s e r, w_remove_conns (mw m) = [] -> w_unsub_ev (mw m) = (c, s, e) :: r ->
     R (Some (notify_item (m <| mw; w_unsub_ev := r |>) c (UnsubscribeEvent s e)))) ->
  (forall c s r, w_remove_conns (mw m) = [] -> w_unsub_all (mw m) = (c, s) :: r ->
     R (Some (notify_item (m <| mw; w_unsub_all := r |>) c (UnsubscribeAllEvents None s)))) ->
  (forall c s r, w_remove_conns (mw m) = [] -> w_svc_destroyed (mw m) = (c, s) :: r ->
     R (Some (notify_item (m <| mw; w_svc_destroyed := r |>) c (ServiceDestroyed s)))) ->
  (forall serial c result r, w_remove_conns (mw m) = [] -> w_rm_call (mw m) = (serial, c, result) :: r ->
     R (Some (rm_call_item (m <| mw; w_rm_call := r |>) serial c result))) ->
  (forall ev m', w_remove_conns (mw m) = [] -> ms m' = ms m -> mo m' = mo m ->
     w_remove_conns (mw m') = [] -> R (Some (bus m' ev))) ->
  (forall b callee r, w_remove_conns (mw m) = [] -> w_abort (mw m) = (b, callee) :: r ->
     R (Some (abort_call (m <| mw; w_abort := r |>) b callee))) ->
  (work_empty (mw m) -> R None) ->
  R (settle_one m).
Proof.
  intros H1 H2 H3 H4 H5 H6 H7 H8. unfold settle_one.
  destruct (w_remove_conns (mw m)) as [|[c sd] r] eqn:E1; [|by apply H1].
  destruct (w_unsub_ev (mw m)) as [|[[c s] e] r] eqn:E2; [|by apply H2].
  destruct (w_unsub_all (mw m)) as [|[c s] r] eqn:E3; [|by apply H3].
  destruct (w_svc_destroyed (mw m)) as [|[c s] r] eqn:E4; [|by apply H4].
  destruct (w_rm_call (mw m)) as [|[[serial c] result] r] eqn:E5; [|by apply H5].
  destruct (w_create_obj (mw m)) as [|[u c] r] eqn:E6; [|by apply H6].
  destruct (w_create_svc (mw m)) as [|[[[ou oc] su] sc] r] eqn:E7; [|by apply H6].
  destruct (w_destroy_svc (mw m)) as [|[[[ou oc] su] sc] r] eqn:E8; [|by apply H6].
  destruct (w_destroy_obj (mw m)) as [|[u c] r] eqn:E9; [|by apply H6].
  destruct (w_abort (mw m)) as [|[b callee] r] eqn:E10; [|by apply H7].
  apply H8. repeat split; assumption.
Qed.

(* state predicates through the loop: what each invariant proof has to supply *)
Definition upd_call_done (s : state) (c : conn) (cs : cstate) (serial : N) : state :=
  s <| conns ::= <[c := cs <| cs_calls ::= delete serial |>]> |>.

Lemma notify_item_sp (Q : state -> Prop) m c x : Q (ms m) -> res (SP Q) never (notify_item m c x).
Proof. intros H. unfold notify_item. destruct (has m c); [apply send_or_remove_sp|]; exact H. Qed.

Lemma rm_call_item_sp (Q : state -> Prop) m serial c result :
  (forall s c cs serial, Q s -> conns s !! c = Some cs -> is_Some (cs_calls cs !! serial) ->
     Q (upd_call_done s c cs serial)) ->
  Q (ms m) -> res (SP Q) never (rm_call_item m serial c result).
Proof.
  intros Hu H. unfold rm_call_item. destruct (conns (ms m) !! c) as [cs|] eqn:E; [|exact H].
  destruct (cs_calls cs !! serial) eqn:E2; [|exact I].
  apply send_or_remove_sp. cbn. apply Hu; eauto.
Qed.

Lemma bus_sp (Q : state -> Prop) m ev : Q (ms m) -> res (SP Q) never (bus m ev).
Proof.
  intros H. unfold bus. apply foldO_res; [|exact H]. intros m' x _ Hm'.
  destruct (has m' x); [apply send_or_remove_sp|]; exact Hm'.
Qed.

Lemma abort_call_sp (Q : state -> Prop) m b callee :
  (forall s c cs serial, Q s -> conns s !! c = Some cs -> is_Some (cs_calls cs !! serial) ->
     Q (upd_call_done s c cs serial)) ->
  (forall s b cl, Q s -> calls s !! b = Some cl -> Q (s <| calls ::= <[b := cl <| c_aborted := true |>]> |>)) ->
  Q (ms m) -> res (SP Q) never (abort_call m b callee).
Proof.
  intros Hu Ha H. unfold abort_call. destruct (calls (ms m) !! b) as [cl|] eqn:E; [|exact H].
  destruct (c_aborted cl); [exact H|]. cbv zeta.
  eapply res_bind with (QD := SP Q).
  - cbn. destruct (conns (ms m) !! callee); [|apply Ha; assumption].
    destruct (_ <=? _); [apply send_or_remove_sp|]; cbn; apply Ha; assumption.
  - intros m2 H2. destruct (conns (ms m2) !! _) as [cs|] eqn:E2; [|exact H2].
    destruct (cs_calls _ !! _) eqn:E3; [|exact I]. apply send_or_remove_sp. cbn. apply Hu; eauto.
Qed.

Lemma settle_unfold fuel m :
  settle fuel m =
  match settle_one m with
  | None => Done m
  | Some (Done m') | Some (Fail m') => match fuel with O => Panic 0 | S f => settle f m' end
  | Some (Panic s) => Panic s
  end.
Proof. destruct fuel; reflexivity. Qed.

Section settle_sp.
  Context (Q : state -> Prop).
  Context (Hsc : forall m c sd, Q (ms m) -> res (SP Q) never (shutdown_conn m c sd)).
  Context (Hu : forall s c cs serial, Q s -> conns s !! c = Some cs -> is_Some (cs_calls cs !! serial) ->
                  Q (upd_call_done s c cs serial)).
  Context (Ha : forall s b cl, Q s -> calls s !! b = Some cl ->
                  Q (s <| calls ::= <[b := cl <| c_aborted := true |>]> |>)).

  Lemma settle_one_sp m :
    Q (ms m) -> match settle_one m with Some o => res (SP Q) never o | None => True end.
  Proof.
    intros H. apply settle_one_cases; intros; try exact I.
    - apply Hsc. exact H.
    - apply notify_item_sp. exact H.
    - apply notify_item_sp. exact H.
    - apply notify_item_sp. exact H.
    - apply rm_call_item_sp; [exact Hu|exact H].
    - apply bus_sp. congruence.
    - apply abort_call_sp; [exact Hu|exact Ha|exact H].
  Qed.

  Lemma settle_sp fuel m : Q (ms m) -> res (SP Q) never (settle fuel m).
  Proof.
    revert m. induction fuel as [|fuel IH]; intros m H; rewrite settle_unfold;
      pose proof (settle_one_sp m H) as H1; destruct (settle_one m) as [[m'|m'|site]|]; cbn in *;
      try exact I; try exact H; try contradiction.
    apply IH, H1.
  Qed.
End settle_sp.

(* ---------------------------------------------------------------- a syntax-directed tactic *)
(* for goals [res (SP Q) (SP Q) body]: [leaf] proves [Q state-term] goals (after cbn), [call]
   handles calls of named functions *)
Ltac wp_step leaf call :=
  lazymatch goal with
  | |- res _ _ (Done _) => cbn [res]; unfold SP; cbn; leaf
  | |- res _ _ (Fail _) => cbn [res]; unfold SP; cbn; leaf
  | |- res _ _ (Panic _) => exact I
  | |- res _ _ (send _ _ _ _ >>> _) => apply send_bind; [cbn; leaf | intros ? ?]
  | |- res _ _ (send_or_remove _ _ _ _ >>> _) => apply send_or_remove_bind; intros ? ?
  | |- res _ _ (send _ _ _ _) => apply send_sp; cbn; leaf
  | |- res _ _ (send_or_remove _ _ _ _) => apply send_or_remove_sp; cbn; leaf
  | |- res _ _ (send_ignore _ _ _ _) => apply send_ignore_sp; cbn; leaf
  | |- res _ _ (gate _ _ _ _) => apply gate_sp; [cbn; leaf|]
  | |- res ?PD _ (foldO _ _ _ >>> _) =>
      eapply (res_bind PD); [apply foldO_res; [intros ? ? _ ?|] | intros ? ?]
  | |- res _ _ (foldO _ _ _) => apply foldO_res; [intros ? ? _ ?|]
  | |- res _ _ (match send ?m ?c ?x ?f with _ => _ end) =>
      let H := fresh "Hs" in
      pose proof (send_ms m c x f) as H; destruct (send m c x f) as [[? ? ?]|[? ? ?]|?];
      cbn in H; unfold same_ms in H; cbn in H; [subst|subst|]
  | |- res _ _ (match send_or_remove ?m ?c ?x ?f with _ => _ end) =>
      let H := fresh "Hs" in
      pose proof (send_or_remove_ms m c x f never) as H; destruct (send_or_remove m c x f) as [[? ? ?]|[? ? ?]|?];
      cbn in H; unfold same_ms in H; cbn in H; [subst|contradiction|]
  | |- res _ _ (Done _ >>> _) => cbn [andThen]
  | |- res _ _ ((match ?x with _ => _ end) >>> _) => destruct x eqn:?
  | |- res ?PD _ (_ >>> _) => eapply (res_bind PD); [call | intros ? ?]
  | |- res _ _ (match ?x with _ => _ end) => destruct x eqn:?
  | |- res _ _ (if ?x then _ else _) => destruct x eqn:?
  | |- res _ _ (let _ := _ in _) => cbv zeta
  | |- SP _ _ => unfold SP; cbn; leaf
  | |- _ => call
  end.
Ltac wp leaf call := repeat wp_step leaf call.

Ltac prep :=
  repeat match goal with
  | H : bool_decide _ = false |- _ => apply bool_decide_eq_false in H
  | H : bool_decide _ = true |- _ => apply bool_decide_eq_true in H
  | H : negb _ = false |- _ => apply negb_false_iff in H
  | H : negb _ = true |- _ => apply negb_true_iff in H
  | H : ¬ is_Some _ |- _ => apply eq_None_not_Some in H
  | H : svc_by_cookie _ _ = Some (_, _) |- _ => apply svc_by_cookie_Some in H as [H ?]
  | H : obj_by_cookie _ _ = Some (_, _) |- _ => apply obj_by_cookie_Some in H as [H ?]
  end.

(* ---------------------------------------------------------------- one step, in two halves *)
Definition m_init (s : state) : M := {| ms := s; mw := work0; mo := [] |}.
Definition queue_all (s : state) : M :=
  foldr (fun p m => push_remove m p.1 true) (m_init s) (map_to_list (conns s)).
Definition new_conn (s : state) (c : conn) (ver : N) : state :=
  s <| conns ::= <[c := {| cs_ver := ver; cs_alive := true; cs_calls := ∅ |}]> |> <| st; n_conns ::= N.succ |>.
Definition drop_task (s : state) (c : conn) : state :=
  match conns s !! c with
  | Some cs => s <| conns ::= <[c := cs <| cs_alive := false |>]> |>
  | None => s
  end.

(* the event-specific part of [step], before the work loop runs *)
Definition step_pre (s : state) (e : event) (fresh : uuid) (bserial : option N) : outcome M :=
  match e with
  | NewConnection c ver =>
      match conns s !! c with Some _ => Panic 40 | None => Done (m_init s <| ms := new_conn s c ver |>) end
  | ConnectionShutdown c => Done (push_remove (m_init s) c false)
  | Message c x =>
      match handle (m_init s) c x fresh bserial with
      | Done m => Done m
      | Fail m => Done (push_remove m c false)
      | Panic site => Panic site
      end
  | ShutdownBroker => Done (queue_all s <| ms; shutdown_now := true |>)
  | ShutdownIdleBroker => Done (m_init s <| ms; shutdown_idle := true |>)
  | ShutdownConnection c => Done (push_remove (m_init s) c true)
  | DropTask c => Done (m_init s <| ms := drop_task s c |>)
  end.

Lemma step_eq s e fresh bserial :
  step s e fresh bserial =
  match step_pre s e fresh bserial with
  | Done m | Fail m =>
      match settle (fuel_for m) m with
      | Done m' | Fail m' => Done (ms m', mo m')
      | Panic site => Panic site
      end
  | Panic site => Panic site
  end.
Proof.
  destruct e.
  - unfold step, step_pre. destruct (conns s !! c); reflexivity.
  - unfold step, step_pre, m_init. cbv beta iota zeta. reflexivity.
  - unfold step, step_pre. fold (m_init s). cbv beta iota zeta.
    destruct (handle _ _ _ _ _); reflexivity.
  - unfold step, step_pre, queue_all, m_init. cbv beta iota zeta. reflexivity.
  - unfold step, step_pre, m_init. cbv beta iota zeta. reflexivity.
  - unfold step, step_pre, m_init. cbv beta iota zeta. reflexivity.
  - unfold step, step_pre, drop_task, m_init. cbv beta iota zeta. destruct (conns s !! c); reflexivity.
Qed.

Lemma queue_all_ms s : ms (queue_all s) = s.
Proof.
  unfold queue_all. apply (foldr_inv (fun m => ms m = s)); [|reflexivity]. intros m x _ Hm. exact Hm.
Qed.
Lemma queue_all_mo s : mo (queue_all s) = [].
Proof.
  unfold queue_all. apply (foldr_inv (fun m => mo m = [])); [|reflexivity]. intros m x _ Hm. exact Hm.
Qed.

Lemma settle_not_fail fuel m m' : settle fuel m <> Fail m'.
Proof.
  revert m. induction fuel as [|fuel IH]; intros m; rewrite settle_unfold;
    destruct (settle_one m) as [[?|?|?]|]; try discriminate; apply IH.
Qed.

(* a step's result comes out of [settle] run on the result of [step_pre] *)
Lemma step_inv s e fresh b s' o :
  step s e fresh b = Done (s', o) ->
  exists m m', step_pre s e fresh b = Done m /\ settle (fuel_for m) m = Done m' /\
               s' = ms m' /\ o = mo m'.
Proof.
  rewrite step_eq. destruct (step_pre s e fresh b) as [m|m|?] eqn:E; [| |discriminate].
  - destruct (settle _ m) as [m'|m'|?] eqn:E2; [| |discriminate]; intros [= <- <-].
    + eauto 10.
    + exfalso. by eapply settle_not_fail.
  - exfalso. destruct e; cbn in E; try discriminate.
    + destruct (conns s !! c); discriminate.
    + destruct (handle _ _ _ _ _); discriminate.
Qed.

(* state predicates through a step *)
Lemma step_sp (Q : state -> Prop) s e fresh b s' o :
  (forall fuel m, Q (ms m) -> res (SP Q) never (settle fuel m)) ->
  (forall c x, e = Message c x -> res (SP Q) (SP Q) (handle (m_init s) c x fresh b)) ->
  (forall c ver, e = NewConnection c ver -> conns s !! c = None -> Q (new_conn s c ver)) ->
  (e = ShutdownBroker -> Q (s <| shutdown_now := true |>)) ->
  (e = ShutdownIdleBroker -> Q (s <| shutdown_idle := true |>)) ->
  (forall c, e = DropTask c -> Q (drop_task s c)) ->
  Q s -> step s e fresh b = Done (s', o) -> Q s'.
Proof.
  intros Hsettle Hh Hn Hsb Hsi Hd HQ Hstep.
  apply step_inv in Hstep as (m & m' & Hpre & Hs & -> & _).
  assert (Q (ms m)) as Hm.
  { destruct e; cbn in Hpre.
    - destruct (conns s !! c) eqn:E; [discriminate|]. injection Hpre as <-. cbn. eauto.
    - injection Hpre as <-. exact HQ.
    - specialize (Hh c m0 eq_refl). destruct (handle _ _ _ _ _); cbn in Hh; [| |discriminate];
        injection Hpre as <-; exact Hh.
    - injection Hpre as <-. cbn. rewrite queue_all_ms. auto.
    - injection Hpre as <-. cbn. auto.
    - injection Hpre as <-. exact HQ.
    - injection Hpre as <-. cbn. auto. }
  specialize (Hsettle (fuel_for m) m Hm). rewrite Hs in Hsettle. exact Hsettle.
Qed.

