(* Broker/ChannelProofs.v — the channel credit logic (broker/src/broker/channel.rs as the pure
   functions chan_* of Model.v): the capacity invariant holds along every sequence of operations,
   none of the unreachable!()/debug_assert! sites is reachable, and the number of forwarded items
   never exceeds the capacity the receiver granted (C05). *)
From stdpp Require Import gmap list.
From RecordUpdate Require Import RecordSet.
From Aldrin Require Import gen.BrokerConsts Broker.Model.
From Coq Require Import ZifyBool ZifyNat ZifyN Lia.
Local Open Scope N_scope.

(* the invariant of a stored channel: the complement of the unreachable!() arms, plus
   sender capacity <= receiver capacity, equal whenever the sender is at or below the low-water
   mark, all within u32 *)
Definition chan_ok (ch : chan) : Prop :=
  match ch_s ch, ch_r ch with
  | Claimed _ sc, Claimed _ rc => sc <= rc /\ (sc <= LOW_CAPACITY -> sc = rc) /\ rc <= u32_max
  | Claimed _ sc, Unclaimed => sc = 0
  | Unclaimed, Claimed _ rc => rc <= u32_max
  | Claimed _ _, Closed | Closed, Claimed _ _ => True
  | _, _ => False
  end.

Definition endc_ok (e : chan_end_cap) : Prop :=
  match e with CSender => True | CReceiver cap => cap <= u32_max end.

Lemma created_ok c e : endc_ok e ->
  chan_ok (match e with
           | CSender => {| ch_s := Claimed c 0; ch_r := Unclaimed |}
           | CReceiver cap => {| ch_s := Unclaimed; ch_r := Claimed c cap |}
           end).
Proof. destruct e; cbn; auto. Qed.

Lemma low_capacity_val : LOW_CAPACITY = 4.
Proof. reflexivity. Qed.

Lemma claim_ok ch c e : chan_ok ch -> endc_ok e ->
  match chan_claim ch c e with
  | ClaimPanic _ => False
  | ClaimOk ch' _ _ => chan_ok ch'
  | ClaimErr _ => True
  end.
Proof.
  unfold chan_ok, chan_claim. destruct ch as [[|so sc|] [|ro rc|]], e as [|cap]; cbn; intros H He; try tauto.
  - repeat split; lia.
  - subst. repeat split; lia.
Qed.

(* closing an end that is not already closed never reaches the unreachable!() arm *)
Lemma close_ok ch e : chan_ok ch ->
  (match e with ESender => ch_s ch | EReceiver => ch_r ch end) <> Closed ->
  match chan_close ch e with
  | ClosePanic _ => False
  | CloseNotify ch' _ => chan_ok ch'
  | CloseDrop => True
  end.
Proof.
  unfold chan_ok, chan_close. destruct ch as [[|so sc|] [|ro rc|]], e; cbn; intros H He; tauto.
Qed.

(* a close request answered Ok concerns an end that is not closed *)
Lemma close_result_ok ch c e : chan_close_result ch c e = R3Ok ->
  (match e with ESender => ch_s ch | EReceiver => ch_r ch end) <> Closed.
Proof.
  unfold chan_close_result. destruct e; [destruct (ch_s ch)|destruct (ch_r ch)]; try discriminate;
    try (destruct (bool_decide _); discriminate).
Qed.

Lemma add_capacity_ok ch c cap : chan_ok ch -> cap <= u32_max ->
  match chan_add_capacity ch c cap with
  | AddPanic _ => False
  | AddUpdate ch' notify =>
      chan_ok ch' /\
      match notify with
      | Some (so, n) => 0 < n /\ exists ro rc, ch_s ch' = Claimed so rc /\ ch_r ch' = Claimed ro rc
      | None => True
      end
  | _ => True
  end.
Proof.
  unfold chan_ok, chan_add_capacity, channel_cap_add. rewrite low_capacity_val.
  intros H Hc. destruct (N.eqb_spec cap 0); [exact I|].
  destruct ch as [s0 r0]. cbn [ch_s ch_r] in *. destruct r0 as [|ro rc|]; try exact I.
  destruct (bool_decide (ro = c)); cbn [negb]; [|exact I].
  destruct (N.leb_spec (rc + cap) u32_max); [|exact I].
  destruct s0 as [|so sc|]; cbn.
  - split; [lia|exact I].
  - destruct H as (H1 & H2 & H3). destruct (N.leb_spec sc 4); cbn.
    + destruct (N.ltb_spec sc (rc + cap)); cbn; [|lia].
      split; [repeat split; lia|]. split; [lia|]. eauto.
    + split; [repeat split; lia|exact I].
  - split; exact I.
Qed.

Lemma send_item_ok ch c : chan_ok ch ->
  match chan_send_item ch c with
  | ItemPanic _ => False
  | ItemForward ch' ro add =>
      chan_ok ch' /\
      exists so sc rc sc', ch_s ch = Claimed so sc /\ ch_r ch = Claimed ro rc /\ so = c /\
        0 < sc /\ ch_r ch' = Claimed ro (rc - 1) /\ ch_s ch' = Claimed so sc' /\
        sc' = (match add with Some a => sc - 1 + a | None => sc - 1 end) /\
        match add with Some a => 0 < a | None => True end
  | ItemExhausted => exists so ro, ch_s ch = Claimed so 0 /\ ch_r ch = Claimed ro 0
  | _ => True
  end.
Proof.
  unfold chan_ok, chan_send_item. rewrite low_capacity_val.
  destruct ch as [[|so sc|] [|ro rc|]]; cbn; intros H; try tauto;
    destruct (bool_decide_reflect (so = c)) as [->|]; cbn; try tauto.
  destruct H as (H1 & H2 & H3).
  destruct (N.eqb_spec sc 0) as [->|Hsc].
  - assert (rc = 0) by lia. subst. cbn. eauto.
  - destruct (N.eqb_spec rc 0); [lia|].
    destruct (N.leb_spec (sc - 1) 4); destruct (N.ltb_spec (sc - 1) (rc - 1)); cbn;
      (split; [repeat split; lia|]);
      (exists c, sc, rc; eexists; repeat split; try reflexivity; try lia).
Qed.

(* ---------- every sequence of operations on one channel ---------- *)
Definition is_closed (e : end_state) : bool := match e with Closed => true | _ => false end.

Inductive chan_op :=
| OpClaim (c : conn) (e : chan_end_cap)
| OpSend (c : conn)
| OpAdd (c : conn) (cap : N)
| OpClose (e : chan_end).

Definition op_ok (o : chan_op) : Prop :=
  match o with OpClaim _ e => endc_ok e | OpAdd _ cap => cap <= u32_max | _ => True end.

(* counters: items forwarded to the receiver, capacity granted after the receiver end was
   claimed; [None] once the channel is gone *)
Record crun := { cr_ch : option chan; cr_fwd : N; cr_granted : N; cr_panic : bool }.

Definition crun_step (r : crun) (o : chan_op) : crun :=
  match cr_ch r with
  | None => r
  | Some ch =>
      match o with
      | OpClaim c e =>
          match chan_claim ch c e with
          | ClaimOk ch' _ _ =>
              (* claiming the receiver grants its initial capacity *)
              {| cr_ch := Some ch'; cr_fwd := cr_fwd r;
                 cr_granted := cr_granted r + (match e with CReceiver cap => cap | CSender => 0 end);
                 cr_panic := cr_panic r |}
          | ClaimErr _ => r
          | ClaimPanic _ => {| cr_ch := cr_ch r; cr_fwd := cr_fwd r; cr_granted := cr_granted r; cr_panic := true |}
          end
      | OpSend c =>
          match chan_send_item ch c with
          | ItemForward ch' _ _ => {| cr_ch := Some ch'; cr_fwd := cr_fwd r + 1; cr_granted := cr_granted r; cr_panic := cr_panic r |}
          | ItemPanic _ => {| cr_ch := cr_ch r; cr_fwd := cr_fwd r; cr_granted := cr_granted r; cr_panic := true |}
          | ItemReceiverUnclaimed => {| cr_ch := None; cr_fwd := cr_fwd r; cr_granted := cr_granted r; cr_panic := cr_panic r |}
          | ItemExhausted =>
              match chan_close ch ESender with
              | CloseNotify ch' _ => {| cr_ch := Some ch'; cr_fwd := cr_fwd r; cr_granted := cr_granted r; cr_panic := cr_panic r |}
              | CloseDrop => {| cr_ch := None; cr_fwd := cr_fwd r; cr_granted := cr_granted r; cr_panic := cr_panic r |}
              | ClosePanic _ => {| cr_ch := cr_ch r; cr_fwd := cr_fwd r; cr_granted := cr_granted r; cr_panic := true |}
              end
          | ItemIgnore => r
          end
      | OpAdd c cap =>
          match chan_add_capacity ch c cap with
          | AddUpdate ch' _ => {| cr_ch := Some ch'; cr_fwd := cr_fwd r; cr_granted := cr_granted r + cap; cr_panic := cr_panic r |}
          | AddPanic _ => {| cr_ch := cr_ch r; cr_fwd := cr_fwd r; cr_granted := cr_granted r; cr_panic := true |}
          | AddOverflow =>
              match chan_close ch EReceiver with
              | CloseNotify ch' _ => {| cr_ch := Some ch'; cr_fwd := cr_fwd r; cr_granted := cr_granted r; cr_panic := cr_panic r |}
              | CloseDrop => {| cr_ch := None; cr_fwd := cr_fwd r; cr_granted := cr_granted r; cr_panic := cr_panic r |}
              | ClosePanic _ => {| cr_ch := cr_ch r; cr_fwd := cr_fwd r; cr_granted := cr_granted r; cr_panic := true |}
              end
          | AddIgnore => r
          end
      | OpClose e =>
          if is_closed (match e with ESender => ch_s ch | EReceiver => ch_r ch end) then r else
          match chan_close ch e with
          | CloseNotify ch' _ => {| cr_ch := Some ch'; cr_fwd := cr_fwd r; cr_granted := cr_granted r; cr_panic := cr_panic r |}
          | CloseDrop => {| cr_ch := None; cr_fwd := cr_fwd r; cr_granted := cr_granted r; cr_panic := cr_panic r |}
          | ClosePanic _ => {| cr_ch := cr_ch r; cr_fwd := cr_fwd r; cr_granted := cr_granted r; cr_panic := true |}
          end
      end
  end.

(* the receiver's remaining credit, when it is claimed *)
Definition recv_cap (ch : chan) : option N :=
  match ch_r ch with Claimed _ rc => Some rc | _ => None end.

(* invariant of a run: no panic site was reached, never more items forwarded than capacity
   granted, the channel is well-formed, and while the receiver is claimed:
   remaining credit + forwarded = granted *)
Definition crun_inv (r : crun) : Prop :=
  cr_panic r = false /\ cr_fwd r <= cr_granted r /\
  match cr_ch r with
  | None => True
  | Some ch => chan_ok ch /\
               match ch_r ch with
               | Claimed _ rc => rc + cr_fwd r = cr_granted r
               | Unclaimed => cr_fwd r = cr_granted r
               | Closed => True
               end
  end.

Ltac split_ifs :=
  repeat match goal with
         | |- context [if ?b then _ else _] => let E := fresh "E" in destruct b eqn:E; cbn
         end.

Lemma crun_step_inv r o : crun_inv r -> op_ok o -> crun_inv (crun_step r o).
Proof.
  unfold crun_inv, crun_step, chan_ok. rewrite ?low_capacity_val.
  destruct r as [[[[|so sc|] [|ro rc|]]|] fwd gr pn]; cbn [cr_ch cr_fwd cr_granted cr_panic ch_s ch_r];
    intros (Hp & Hle & H) Ho; try tauto; try (destruct o; cbn; tauto);
    destruct o as [c [|cap]|c|c cap|[|]]; cbn [op_ok endc_ok] in Ho;
    unfold chan_claim, chan_send_item, chan_add_capacity, chan_close, channel_cap_add, is_closed;
    rewrite ?low_capacity_val; cbn; split_ifs; cbn; repeat split; try tauto; try lia.
  intros ?. match goal with E2 : (if ?a && ?b then _ else _) = None |- _ =>
              destruct a eqn:?, b eqn:?; cbn in E2; try discriminate E2 end; lia.
Qed.

(* every operation sequence on a channel, from its creation *)
Definition crun_init (c : conn) (e : chan_end_cap) : crun :=
  {| cr_ch := Some (match e with
                    | CSender => {| ch_s := Claimed c 0; ch_r := Unclaimed |}
                    | CReceiver cap => {| ch_s := Unclaimed; ch_r := Claimed c cap |}
                    end);
     cr_fwd := 0; cr_granted := (match e with CReceiver cap => cap | CSender => 0 end); cr_panic := false |}.

Lemma crun_init_inv c e : endc_ok e -> crun_inv (crun_init c e).
Proof.
  intros He. unfold crun_inv, crun_init. cbn [cr_ch cr_fwd cr_granted cr_panic].
  split; [reflexivity|]. split; [lia|]. split; [apply created_ok; exact He|].
  destruct e; cbn; lia.
Qed.

Theorem channel_runs c e ops : endc_ok e -> Forall op_ok ops ->
  crun_inv (fold_left crun_step ops (crun_init c e)).
Proof.
  intros He Hops. generalize (crun_init_inv c e He). generalize (crun_init c e).
  induction Hops as [|o ops Ho _ IH]; intros r Hr; cbn [fold_left]; [exact Hr|].
  apply IH. apply crun_step_inv; assumption.
Qed.

(* the property as stated: never more items forwarded than capacity granted; no panic site *)
Corollary forwarded_le_granted c e ops : endc_ok e -> Forall op_ok ops ->
  let r := fold_left crun_step ops (crun_init c e) in
  cr_fwd r <= cr_granted r /\ cr_panic r = false.
Proof. intros He Hops r. destruct (channel_runs c e ops He Hops) as (Hp & Hle & _). split; assumption. Qed.
